import Octo.Gen.SsChunkGen
import Octo.Proofs.NonceGen
import Octo.Proofs.AddrGen
import Octo.Proofs.SsStream
/-!
  The generated code (`Octo.SsChunkGen`, written by `translate_sschunk.py` from `codec/shadowsocks.rs` and `codec/aead.rs`)
  equals the hand-written model of the Shadowsocks AEAD chunk layer in `Octo/Model/Ss.lean`
  (`Auth.sealB/openB`, `encChunk`, `encPayload`, `chunkUnit` run by `Fr.run`).

  Part 0: evaluation rules of the run-time support (`Flow.call`, `Flow.loop`, `Flow.while`, ...).
  Part 1: the instantiation of the assumed externals from the hand model's `Crypto` interface (`aeadOf`, `ofAuth`, `ofDec`).
  Part 2: `encrypt_in_place_detached` (codec/aead.rs): value, and the `len - tag_size` panic.
  Part 3: `Authenticator`: `new`, `size_bytes`, `seal`, `open`, `encode_size`, `decode_size`.
  Part 4: `ChunkEncoder`: `encode_chunk` = `encChunk`, `encode_payload` = `encPayload` (with the guards), `encode_packet`.
  Part 5: `ChunkDecoder`: `decode_packet`, one iteration of the loop = `chunkUnit`, `decode_payload` = `Fr.run (chunkUnit C)`.
  Part 6: nonces consumed; no panic.

  Side conditions that appear:
  * `a.nonce.length = 12` — the Rust type `[u8; 12]` of the generator, which a Lean list does not carry;
  * `src.length < 2 ^ 64` — `remaining()` is a `usize`;
  * `SealLen C` / `OpenLen C` — the two length laws of `Crypto.Lawful` (a sealed message is 16 bytes longer; an opened one 16
    bytes shorter): in the Rust the tag is a fixed-size array and `decrypt_in_place` truncates the buffer by its length.
-/
set_option linter.unusedSimpArgs false
namespace Octo.SsChunkGen
open Octo Octo.PWGen Octo.AddrGen

/-! ## Part 0 — evaluation rules -/
section flow
variable {α β σ ρ : Type}

theorem call_ok (a : α) : (Flow.call (PWGen.Res.ok a) : Flow α ρ) = Flow.next a := rfl
theorem call_panic : (Flow.call (PWGen.Res.panic : PWGen.Res α) : Flow α ρ) = Flow.panic := rfl

theorem loop_zero (body : σ → Flow σ (Option ρ)) (s : σ) : Flow.loop body 0 s = Flow.ret none := rfl
theorem loop_next (body : σ → Flow σ (Option ρ)) (f : Nat) (s s' : σ) (h : body s = Flow.next s') :
    Flow.loop body (f + 1) s = Flow.loop body f s' := by simp only [Flow.loop, h]
theorem loop_ret (body : σ → Flow σ (Option ρ)) (f : Nat) (s : σ) (r : Option ρ) (h : body s = Flow.ret r) :
    Flow.loop body (f + 1) s = Flow.ret r := by simp only [Flow.loop, h]
theorem loop_panic (body : σ → Flow σ (Option ρ)) (f : Nat) (s : σ) (h : body s = Flow.panic) :
    Flow.loop body (f + 1) s = Flow.panic := by simp only [Flow.loop, h]

theorem while_false (cond : σ → Bool) (body : σ → Flow σ (Option ρ)) (f : Nat) (s : σ) (h : cond s = false) :
    Flow.while cond body f s = Flow.next s := by
  cases f <;> simp [Flow.while, h]
theorem while_true (cond : σ → Bool) (body : σ → Flow σ (Option ρ)) (f : Nat) (s : σ) (h : cond s = true) :
    Flow.while cond body (f + 1) s = (body s).bind (Flow.while cond body f) := by
  simp [Flow.while, h]
theorem while_cut (cond : σ → Bool) (body : σ → Flow σ (Option ρ)) (s : σ) (h : cond s = true) :
    Flow.while cond body 0 s = Flow.ret none := by
  simp [Flow.while, h]

theorem in_place_ok (b old : List UInt8) : (Flow.in_place (RResult.ok b) old : Flow _ ρ) = Flow.next (b, RResult.ok ()) := rfl
theorem in_place_err (old : List UInt8) : (Flow.in_place RResult.err old : Flow _ ρ) = Flow.next (old, RResult.err) := rfl
theorem detached_ok (b t old : List UInt8) : (Flow.detached (RResult.ok (b, t)) old : Flow _ ρ) = Flow.next (b, RResult.ok t) := rfl
theorem detached_err (old : List UInt8) : (Flow.detached RResult.err old : Flow _ ρ) = Flow.next (old, RResult.err) := rfl

theorem split_at_mut_ok (s : List UInt8) (k : Usize) (h : k.toNat ≤ s.length) :
    (Flow.split_at_mut s k : Flow _ ρ) = Flow.next (s.take k.toNat, s.drop k.toNat) := by simp [Flow.split_at_mut, h]
theorem split_at_mut_panic (s : List UInt8) (k : Usize) (h : ¬ k.toNat ≤ s.length) :
    (Flow.split_at_mut s k : Flow _ ρ) = Flow.panic := by simp [Flow.split_at_mut, h]
theorem copy_from_slice_ok (d s : List UInt8) (h : s.length = d.length) :
    (Flow.copy_from_slice d s : Flow _ ρ) = Flow.next s := by simp [Flow.copy_from_slice, h]
theorem split_off_zero (b : List UInt8) : (Flow.split_off b 0 : Flow _ ρ) = Flow.next ([], b) := by
  simp [Flow.split_off]

end flow

theorem len_toNat (b : List UInt8) (h : b.length < 2 ^ 64) : (Cursor.len b).toNat = b.length := by
  rw [Cursor.len, UInt64.toNat_ofNat_of_lt' (show _ < 18446744073709551616 by omega)]

theorem remaining_toNat (b : List UInt8) (h : b.length < 2 ^ 64) : (Cursor.remaining b).toNat = b.length := by
  rw [Cursor.remaining, UInt64.toNat_ofNat_of_lt' (show _ < 18446744073709551616 by omega)]

theorem rem_lt_true (b : List UInt8) (hl : b.length < 2 ^ 64) (k : Usize) (h : b.length < k.toNat) :
    decide (Cursor.remaining b < k) = true := decide_eq_true ((remaining_lt b hl k).mpr h)
theorem rem_lt_false (b : List UInt8) (hl : b.length < 2 ^ 64) (k : Usize) (h : ¬ b.length < k.toNat) :
    decide (Cursor.remaining b < k) = false := decide_eq_false (fun hh => h ((remaining_lt b hl k).mp hh))

theorem sub_toNat (a c : Usize) (h : c.toNat ≤ a.toNat) : (a - c).toNat = a.toNat - c.toNat :=
  UInt64.toNat_sub_of_le _ _ (UInt64.le_iff_toNat_le.mpr h)

theorem u16_as_usize_toNat (v : UInt16) : (U16.as_usize v).toNat = v.toNat := by
  have := v.toNat_lt
  rw [U16.as_usize, UInt64.toNat_ofNat_of_lt' (Nat.lt_trans this (by decide))]

/-! ## Part 1 — the assumed externals, instantiated from the hand model's `Crypto` -/

/-- the `CipherMethod` that the hand model's `Crypto` interface gives for an algorithm and a key: the tag has 16 bytes;
`encrypt_in_place` replaces the buffer by `C.sealB ..` (it never fails), `decrypt_in_place` by `C.openB ..` (`Err` on `none`),
the detached encryption is `C.sealB ..` cut behind the plaintext length (in the `aead` crate `encrypt_in_place` *is*
`encrypt_in_place_detached` followed by appending the tag) -/
def aeadOf (C : Crypto) (alg : Alg) (key : Bytes) : CipherMethod where
  tag_size := 16
  encrypt_in_place := fun n ad p => RResult.ok (C.sealB alg key n ad p)
  decrypt_in_place := fun n ad c => match C.openB alg key n ad c with
    | some p => RResult.ok p
    | none => RResult.err
  cipher_encrypt_in_place_detached := fun n ad p =>
    RResult.ok ((C.sealB alg key n ad p).take p.length, (C.sealB alg key n ad p).drop p.length)

/-- the generated `Authenticator` for a model `Auth` -/
def ofAuth (C : Crypto) (a : Ss.Auth) : Authenticator := ⟨aeadOf C a.alg a.key, ⟨a.nonce.toArray⟩⟩

/-- the generated `DecodeState` for a model `ChunkSt` -/
def ofSt : Ss.ChunkSt → DecodeState
  | .length => .Length
  | .payload n => .Payload (UInt64.ofNat n)

def toSt : DecodeState → Ss.ChunkSt
  | .Length => .length
  | .Payload n => .payload n.toNat

theorem ofSt_toSt (g : DecodeState) : ofSt (toSt g) = g := by
  cases g with
  | Length => rfl
  | Payload n => simp [ofSt, toSt]

theorem toSt_ofSt (s : Ss.ChunkSt) (h : ∀ n, s = .payload n → n < 2 ^ 64) : toSt (ofSt s) = s := by
  cases s with
  | length => rfl
  | payload n =>
    have := h n rfl
    simp only [toSt, ofSt, UInt64.toNat_ofNat_of_lt' (show n < 18446744073709551616 by omega)]

/-- the generated `ChunkDecoder` for a model `ChunkDec` -/
def ofDec (C : Crypto) (d : Ss.ChunkDec) : ChunkDecoder := ⟨ofAuth C d.auth, ofSt d.st⟩

/-- the generated `ChunkEncoder` -/
def ofEnc (C : Crypto) (limit : Usize) (a : Ss.Auth) : ChunkEncoder := ⟨limit, ofAuth C a⟩

/-- a sealed message is 16 bytes longer than the plaintext (part of `Crypto.Lawful`) -/
def SealLen (C : Crypto) : Prop := ∀ a k n ad p, (C.sealB a k n ad p).length = p.length + 16
/-- an opened message is 16 bytes shorter than the ciphertext (part of `Crypto.Lawful`) -/
def OpenLen (C : Crypto) : Prop := ∀ a k n ad c p, C.openB a k n ad c = some p → c.length = p.length + 16

theorem SealLen.of_lawful {C : Crypto} (h : C.Lawful) : SealLen C := h.seal_len
theorem OpenLen.of_lawful {C : Crypto} (h : C.Lawful) : OpenLen C := h.open_len

theorem incStep_len {n : Bytes} (h : n.length = 12) : (Nonce.incStep n).length = 12 := by
  rw [NonceGen.incStep_length, h]

theorem sealB_nonce_len (C : Crypto) (a : Ss.Auth) (p : Bytes) (h : a.nonce.length = 12) : (a.sealB C p).2.nonce.length = 12 :=
  incStep_len h
theorem openB_nonce_len (C : Crypto) (a : Ss.Auth) (c : Bytes) (h : a.nonce.length = 12) : (a.openB C c).2.nonce.length = 12 :=
  incStep_len h

/-- the generator of `ofAuth C a`, called once -/
theorem generate_eval (ov : Bool) (n : Bytes) (h : n.length = 12) :
    Octo.NonceGen.IncreasingNonceGenerator.generate ov ⟨n.toArray⟩
      = PWGen.Res.ok (⟨(Nonce.incStep n).toArray⟩, (Nonce.incStep n).toArray) :=
  NonceGen.increasing_generate_bytes ov n h

/-! ## Part 2 — `CipherMethod::encrypt_in_place_detached` (codec/aead.rs) -/

theorem tag16 (C : Crypto) (alg : Alg) (key : Bytes) : (aeadOf C alg key).tag_size = 16 := rfl
theorem tag16' (C : Crypto) (alg : Alg) (key : Bytes) : CipherMethod.tag_size (aeadOf C alg key) = 16 := rfl

/-- **detached in-place encryption** of `p ++ t` where `t` are the 16 bytes the tag goes to: the slice becomes `C.sealB .. p`,
whatever `t` was; no panic in either profile -/
theorem detached_eval (ov : Bool) (C : Crypto) (hS : SealLen C) (alg : Alg) (key n ad p t : Bytes) (ht : t.length = 16)
    (hl : (p ++ t).length < 2 ^ 64) :
    CipherMethod.encrypt_in_place_detached ov (aeadOf C alg key) n ad (p ++ t)
      = PWGen.Res.ok (C.sealB alg key n ad p, RResult.ok ()) := by
  have e16 : (16 : Usize).toNat = 16 := rfl
  have hlen : (Cursor.len (p ++ t)).toNat = p.length + 16 := by rw [len_toNat _ hl, List.length_append, ht]
  have hsub : U64.subOk (Cursor.len (p ++ t)) 16 = true := by simp [U64.subOk, hlen, e16]
  have hk : (Cursor.len (p ++ t) - 16).toNat = p.length := by rw [sub_toNat _ _ (by rw [hlen, e16]; omega), hlen, e16]; omega
  have hsp := split_at_mut_ok (ρ := List UInt8 × RResult Unit) (p ++ t) (Cursor.len (p ++ t) - 16) (by rw [hk]; simp)
  rw [hk, List.take_left, List.drop_left] at hsp
  have hcp := copy_from_slice_ok (ρ := List UInt8 × RResult Unit) t ((C.sealB alg key n ad p).drop p.length)
    (by rw [List.length_drop, hS, ht]; omega)
  simp only [CipherMethod.encrypt_in_place_detached, tag16', hsub, arith_true, bind_next, hsp, aeadOf, detached_ok, question_ok,
    Tag.as_slice, hcp, List.take_append_drop, run_ret]

/-- the spare bytes handed over in the trusted idiom are irrelevant: only their number matters -/
theorem detached_spare_irrelevant (ov : Bool) (C : Crypto) (hS : SealLen C) (alg : Alg) (key n ad p t t' : Bytes)
    (ht : t.length = 16) (ht' : t'.length = 16) (hl : p.length + 16 < 2 ^ 64) :
    CipherMethod.encrypt_in_place_detached ov (aeadOf C alg key) n ad (p ++ t)
      = CipherMethod.encrypt_in_place_detached ov (aeadOf C alg key) n ad (p ++ t') := by
  rw [detached_eval ov C hS alg key n ad p t ht (by rw [List.length_append, ht]; exact hl),
    detached_eval ov C hS alg key n ad p t' ht' (by rw [List.length_append, ht']; exact hl)]

/-- **the `len - tag_size` of `encrypt_in_place_detached`**: on a slice shorter than the tag the function panics in both
profiles — with overflow checks at the subtraction, without them in `split_at_mut` (the wrapped `mid` is beyond the end) -/
theorem detached_short_panics (ov : Bool) (C : Crypto) (alg : Alg) (key n ad x : Bytes) (h : x.length < 16) :
    CipherMethod.encrypt_in_place_detached ov (aeadOf C alg key) n ad x = PWGen.Res.panic := by
  have e16 : (16 : Usize).toNat = 16 := rfl
  have hlen : (Cursor.len x).toNat = x.length := len_toNat _ (by omega)
  have hsub : U64.subOk (Cursor.len x) 16 = false := by simp [U64.subOk, hlen, e16]; omega
  cases ov with
  | true => simp only [CipherMethod.encrypt_in_place_detached, tag16', hsub, arith_debug_false, bind_panic, run_panic']
  | false =>
    have hk : ¬ (Cursor.len x - 16).toNat ≤ x.length := by
      rw [UInt64.toNat_sub, hlen, e16]
      have : (2 ^ 64 - 16 + x.length) % 2 ^ 64 = 2 ^ 64 - 16 + x.length := Nat.mod_eq_of_lt (by omega)
      omega
    simp only [CipherMethod.encrypt_in_place_detached, tag16', arith_release, bind_next, split_at_mut_panic _ _ hk, bind_panic, run_panic']

/-! ## Part 3 — `Authenticator` -/

theorem auth_tag (C : Crypto) (a : Ss.Auth) : CipherMethod.tag_size (ofAuth C a).method = 16 := rfl

theorem auth_new (ov : Bool) (C : Crypto) (alg : Alg) (key : Bytes) :
    Authenticator.new ov (aeadOf C alg key) = PWGen.Res.ok (ofAuth C ⟨alg, key, Nonce.incInit⟩) := by
  simp only [Authenticator.new, NonceGen.increasing_init, call_ok, bind_next, run_ret, ofAuth]

theorem auth_size_bytes (ov : Bool) (C : Crypto) (a : Ss.Auth) :
    Authenticator.size_bytes ov (ofAuth C a) = PWGen.Res.ok 18 := by
  have h : U64.addOk Mem.size_of_u16 (16 : Usize) = true := by decide
  have e : Mem.size_of_u16 + (16 : Usize) = 18 := by decide
  simp only [Authenticator.size_bytes, ofAuth, tag16', h, arith_true, bind_next, e, run_ret]

/-- **`Authenticator::seal`** = `Auth.sealB`: one generator step, the buffer becomes the sealed message, never `Err` -/
theorem seal_eval (ov : Bool) (C : Crypto) (a : Ss.Auth) (p : Bytes) (hn : a.nonce.length = 12) :
    Authenticator.seal ov (ofAuth C a) p = PWGen.Res.ok (ofAuth C (a.sealB C p).2, (a.sealB C p).1, RResult.ok ()) := by
  simp only [Authenticator.seal, ofAuth, generate_eval ov _ hn, call_ok, bind_next, aeadOf, in_place_ok, run_ret,
    Ss.Auth.sealB, List.toList_toArray]

/-- **`Authenticator::open`** = `Auth.openB`: one generator step whether or not the open succeeds; on success the buffer becomes
the plaintext, on failure `Err` and the buffer is as it was -/
theorem open_eval (ov : Bool) (C : Crypto) (a : Ss.Auth) (c : Bytes) (hn : a.nonce.length = 12) :
    Authenticator.«open» ov (ofAuth C a) c = PWGen.Res.ok (ofAuth C (a.openB C c).2,
      (match (a.openB C c).1 with | some p => p | none => c),
      (match (a.openB C c).1 with | some _ => RResult.ok () | none => RResult.err)) := by
  simp only [Authenticator.«open», ofAuth, generate_eval ov _ hn, call_ok, bind_next, aeadOf, Ss.Auth.openB, List.toList_toArray]
  cases C.openB a.alg a.key (Nonce.incStep a.nonce) [] c <;> simp only [in_place_ok, in_place_err, bind_next, run_ret]

theorem open_some (ov : Bool) (C : Crypto) (a a' : Ss.Auth) (c p : Bytes) (hn : a.nonce.length = 12)
    (h : a.openB C c = (some p, a')) :
    Authenticator.«open» ov (ofAuth C a) c = PWGen.Res.ok (ofAuth C a', p, RResult.ok ()) := by
  rw [open_eval ov C a c hn, h]

theorem open_none (ov : Bool) (C : Crypto) (a a' : Ss.Auth) (c : Bytes) (hn : a.nonce.length = 12)
    (h : a.openB C c = (none, a')) :
    Authenticator.«open» ov (ofAuth C a) c = PWGen.Res.ok (ofAuth C a', c, RResult.err) := by
  rw [open_eval ov C a c hn, h]

/-- **`Authenticator::encode_size`** on 2 length bytes followed by 16 bytes for the tag = `Auth.sealB` of the 2 bytes -/
theorem encode_size_eval (ov : Bool) (C : Crypto) (hS : SealLen C) (a : Ss.Auth) (l t : Bytes) (hn : a.nonce.length = 12)
    (hl : l.length = 2) (ht : t.length = 16) :
    Authenticator.encode_size ov (ofAuth C a) (l ++ t) = PWGen.Res.ok (ofAuth C (a.sealB C l).2, (a.sealB C l).1, RResult.ok ()) := by
  have hd := detached_eval ov C hS a.alg a.key (Nonce.incStep a.nonce) [] l t ht (by rw [List.length_append, hl, ht]; decide)
  simp only [Authenticator.encode_size, ofAuth, generate_eval ov _ hn, call_ok, bind_next, List.toList_toArray, hd, run_ret, Ss.Auth.sealB]

/-- `rdBE` of two bytes as the generated code computes it -/
theorem get_u16_val (l : Bytes) (h : l.length = 2) : (UInt16.ofNat (beNat (l.take 2))).toNat = rdBE l := by
  rw [List.take_of_length_le (by omega)]
  exact port_toNat l h

theorem rdBE_two_lt (l : Bytes) (h : l.length = 2) : rdBE l < 65536 := by
  rw [← get_u16_val l h]; exact UInt16.toNat_lt _

/-- **`Authenticator::decode_size`** on an 18-byte buffer: `Err` exactly when the open fails; otherwise the 16-bit big-endian
length plus the tag size -/
theorem decode_size_eval (ov : Bool) (C : Crypto) (hO : OpenLen C) (a : Ss.Auth) (c : Bytes) (hn : a.nonce.length = 12)
    (hc : c.length = 18) :
    ∃ buf, Authenticator.decode_size ov (ofAuth C a) c = PWGen.Res.ok (ofAuth C (a.openB C c).2, buf,
      (match (a.openB C c).1 with
       | some l => RResult.ok (UInt64.ofNat (rdBE l + 16))
       | none => RResult.err)) := by
  cases ho : a.openB C c with
  | mk o a' =>
    cases o with
    | none =>
      refine ⟨c, ?_⟩
      simp only [Authenticator.decode_size, open_none ov C a a' c hn ho, call_ok, bind_next, question_err, bind_ret, run_ret]
    | some l =>
      have hl : l.length = 2 := by
        have := hO a.alg a.key (Nonce.incStep a.nonce) [] c l (by simpa [Ss.Auth.openB] using congrArg Prod.fst ho)
        omega
      have g16 := get_u16_ok (ρ := Authenticator × Cursor × RResult Usize) l (by omega)
      have hv := get_u16_val l hl
      have hlt := rdBE_two_lt l hl
      have e16 : (16 : Usize).toNat = 16 := rfl
      have hx : (U16.as_usize (UInt16.ofNat (beNat (l.take 2)))).toNat = rdBE l := by rw [u16_as_usize_toNat, hv]
      have hadd : U64.addOk (U16.as_usize (UInt16.ofNat (beNat (l.take 2)))) (16 : Usize) = true := by
        simp [U64.addOk, hx, e16]; omega
      have hval : U16.as_usize (UInt16.ofNat (beNat (l.take 2))) + (16 : Usize) = UInt64.ofNat (rdBE l + 16) := by
        apply UInt64.toNat_inj.mp
        rw [UInt64.toNat_add, hx, e16, UInt64.toNat_ofNat_of_lt' (show rdBE l + 16 < 18446744073709551616 by omega)]
        exact Nat.mod_eq_of_lt (by omega)
      refine ⟨l.drop 2, ?_⟩
      simp only [Authenticator.decode_size, open_some ov C a a' c l hn ho, call_ok, bind_next, question_ok, g16, auth_tag,
        hadd, arith_true, hval, run_ret]

/-! ## Part 4 — `ChunkEncoder` -/

theorem be16_mod (n : Nat) : be16 (n % 65536) = be16 n := by
  simp only [be16, u8]
  have h1 : n % 65536 / 256 % 256 = n / 256 % 256 := by omega
  have h2 : n % 65536 % 256 = n % 256 := by omega
  rw [h1, h2]

/-- `dst.put_u16(len as u16)` writes the model's `be16 len` (both truncate to 16 bits) -/
theorem put_u16_be16 (len : Usize) : Cursor.put_u16 [] (Usize.as_u16 len) = be16 len.toNat := by
  rw [Cursor.put_u16, List.nil_append, beBytes_two, Usize.as_u16, UInt16.toNat_ofNat']
  exact be16_mod _

theorem spare_len (n : Usize) : (Spare.bytes n).length = n.toNat := by simp [Spare.bytes]

theorem enc_size_bytes (ov : Bool) (C : Crypto) (pl : Usize) (a : Ss.Auth) :
    ChunkEncoder.size_bytes ov (ofEnc C pl a) = PWGen.Res.ok 18 := by
  simp only [ChunkEncoder.size_bytes, ofEnc, auth_size_bytes, call_ok, bind_next, run_ret]

theorem enc_encode_size (ov : Bool) (C : Crypto) (hS : SealLen C) (pl : Usize) (a : Ss.Auth) (l t : Bytes) (hn : a.nonce.length = 12)
    (hl : l.length = 2) (ht : t.length = 16) :
    ChunkEncoder.encode_size ov (ofEnc C pl a) (l ++ t)
      = PWGen.Res.ok (ofEnc C pl (a.sealB C l).2, (a.sealB C l).1, RResult.ok ()) := by
  simp only [ChunkEncoder.encode_size, ofEnc, encode_size_eval ov C hS a l t hn hl ht, call_ok, bind_next, run_ret]

/-- **`encode_chunk`** = `encChunk` (the trusted idiom included): for `len ≤ src.remaining()` the call appends exactly the
model's sealed length and sealed payload of the first `len` bytes of `src`, takes these bytes off `src`, steps the
authenticator like the model, never fails and never panics -/
theorem encode_chunk_eval (ov : Bool) (C : Crypto) (hS : SealLen C) (pl : Usize) (a : Ss.Auth) (src dst : Bytes) (len : Usize)
    (hn : a.nonce.length = 12) (hlen : len.toNat ≤ src.length) :
    ChunkEncoder.encode_chunk ov (ofEnc C pl a) src len dst
      = PWGen.Res.ok (ofEnc C pl (Ss.encChunk C a (src.take len.toNat)).2, src.drop len.toNat,
          dst ++ (Ss.encChunk C a (src.take len.toNat)).1, RResult.ok ()) := by
  have hadd : U64.addOk (2 : Usize) (16 : Usize) = true := by decide
  have htag : CipherMethod.tag_size (ofEnc C pl a).auth.method = 16 := rfl
  have hes := enc_encode_size ov C hS pl a (be16 len.toNat) (Spare.bytes 16) hn (by simp) (by simp [Spare.bytes])
  have hn1 : (a.sealB C (be16 len.toNat)).2.nonce.length = 12 := sealB_nonce_len C a _ hn
  have hseal := seal_eval ov C (a.sealB C (be16 len.toNat)).2 (src.take len.toNat) hn1
  have hsp := split_to_ok (ρ := ChunkEncoder × Cursor × Cursor × RResult Unit) src len hlen
  have htk : (src.take len.toNat).length = len.toNat := by rw [List.length_take]; omega
  simp only [ChunkEncoder.encode_chunk, htag, hadd, arith_true, bind_next, put_u16_be16, hes, call_ok, question_ok, hsp]
  simp only [ofEnc, hseal, call_ok, bind_next, question_ok, Cursor.extend_from_slice, run_ret, Ss.encChunk, htk, List.append_assoc]

/-- **`encode_packet`** = `Auth.sealB`: the whole of `src`, sealed, is appended -/
theorem encode_packet_eval (ov : Bool) (C : Crypto) (pl : Usize) (a : Ss.Auth) (src dst : Bytes) (hn : a.nonce.length = 12) :
    ChunkEncoder.encode_packet ov (ofEnc C pl a) src dst
      = PWGen.Res.ok (ofEnc C pl (a.sealB C src).2, dst ++ (a.sealB C src).1, RResult.ok ()) := by
  simp only [ChunkEncoder.encode_packet, ofEnc, seal_eval ov C a src hn, call_ok, bind_next, question_ok, Cursor.extend_from_slice, run_ret]

/-! ### the `while` loop of `encode_payload` -/

/-- model of a `while` loop: `mcond` / `mstep` on model states, cut off like `Flow.while` -/
def whileModel {τ : Type} (mcond : τ → Bool) (mstep : τ → τ) : Nat → τ → τ
  | 0, t => t
  | n + 1, t => if mcond t then whileModel mcond mstep n (mstep t) else t

/-- a generated `while` loop whose condition and body are simulated by `mcond` / `mstep` on the states `rep t`, and whose
measure `μ` decreases in every iteration, falls through with the model's final state for every `fuel` above the measure -/
theorem while_sim {σ τ ρ : Type} (cond : σ → Bool) (body : σ → Flow σ (Option ρ)) (rep : τ → σ) (mcond : τ → Bool) (mstep : τ → τ)
    (μ : τ → Nat) (I : τ → Prop) (hc : ∀ t, cond (rep t) = mcond t)
    (hb : ∀ t, I t → mcond t = true → body (rep t) = Flow.next (rep (mstep t)) ∧ I (mstep t) ∧ μ (mstep t) < μ t) :
    ∀ f t, I t → μ t < f → Flow.while cond body f (rep t) = Flow.next (rep (whileModel mcond mstep f t)) := by
  intro f
  induction f with
  | zero => intro t _ h; omega
  | succ f ih =>
    intro t hI hμ
    cases hm : mcond t with
    | false => rw [while_false _ _ _ _ (by rw [hc, hm])]; simp [whileModel, hm]
    | true =>
      obtain ⟨h1, h2, h3⟩ := hb t hI hm
      rw [while_true _ _ _ _ (by rw [hc, hm]), h1, bind_next, ih _ h2 (by omega)]
      simp [whileModel, hm]

/-- one iteration of `encode_payload`'s loop on model states: seal the next (at most `L`) bytes -/
def encStep (C : Crypto) (L : Nat) (t : Ss.Auth × Bytes × Bytes) : Ss.Auth × Bytes × Bytes :=
  ((Ss.encChunk C t.1 (t.2.1.take L)).2, t.2.1.drop L, t.2.2 ++ (Ss.encChunk C t.1 (t.2.1.take L)).1)

def encCond (t : Ss.Auth × Bytes × Bytes) : Bool := !t.2.1.isEmpty

theorem splitChunks_nil (L : Nat) : Ss.splitChunks L [] = [] := by
  rw [Ss.splitChunks]; simp

theorem splitChunks_cons (L : Nat) (hL : 0 < L) (p : Bytes) (hp : p ≠ []) :
    Ss.splitChunks L p = p.take L :: Ss.splitChunks L (p.drop L) := by
  rw [Ss.splitChunks]
  have : ¬ (L = 0 ∨ p = []) := by intro h; rcases h with h | h; omega; exact hp h
  simp [this]

/-- the model loop is `encChunks` over `splitChunks` -/
theorem whileModel_enc (C : Crypto) (L : Nat) (hL : 0 < L) : ∀ (f : Nat) (a : Ss.Auth) (src dst : Bytes), src.length < f →
    whileModel encCond (encStep C L) f (a, src, dst)
      = ((Ss.encChunks C a (Ss.splitChunks L src)).2, [], dst ++ (Ss.encChunks C a (Ss.splitChunks L src)).1) := by
  intro f
  induction f with
  | zero => intro a src dst h; omega
  | succ f ih =>
    intro a src dst h
    cases src with
    | nil => simp [whileModel, encCond, splitChunks_nil, Ss.encChunks]
    | cons x r =>
      have hd : ((x :: r).drop L).length < f := by
        simp only [List.length_drop, List.length_cons] at h ⊢; omega
      rw [whileModel, if_pos (by simp [encCond]), encStep, ih _ _ _ hd, splitChunks_cons L hL (x :: r) (by simp)]
      simp [Ss.encChunks, List.append_assoc]

theorem usize_min_toNat (a b : Usize) : (Usize.min a b).toNat = min a.toNat b.toNat := by
  unfold Usize.min
  split
  · rename_i h; have := UInt64.le_iff_toNat_le.mp h; omega
  · rename_i h
    have : ¬ a.toNat ≤ b.toNat := fun hh => h (UInt64.le_iff_toNat_le.mpr hh)
    omega

theorem take_min_len (l : Bytes) (L : Nat) : l.take (min l.length L) = l.take L := by
  by_cases h : l.length ≤ L
  · rw [Nat.min_eq_left h, List.take_of_length_le (Nat.le_refl _), List.take_of_length_le h]
  · rw [Nat.min_eq_right (by omega)]

theorem drop_min_len (l : Bytes) (L : Nat) : l.drop (min l.length L) = l.drop L := by
  by_cases h : l.length ≤ L
  · rw [Nat.min_eq_left h, List.drop_of_length_le (Nat.le_refl _), List.drop_of_length_le h]
  · rw [Nat.min_eq_right (by omega)]

/-- the limit `payload_limit - tag_size - size_bytes` as the generated code computes it, when it does not underflow -/
theorem limit_toNat (pl : Usize) (h : 34 ≤ pl.toNat) :
    U64.subOk pl (16 : Usize) = true ∧ U64.subOk (pl - 16) (18 : Usize) = true ∧ (pl - 16 - 18).toNat = pl.toNat - 16 - 18 := by
  have e16 : (16 : Usize).toNat = 16 := rfl
  have e18 : (18 : Usize).toNat = 18 := rfl
  have h1 : (pl - 16).toNat = pl.toNat - 16 := by rw [sub_toNat _ _ (by rw [e16]; omega), e16]
  refine ⟨by simp [U64.subOk, e16]; omega, by simp [U64.subOk, h1, e18]; omega, ?_⟩
  rw [sub_toNat _ _ (by rw [h1, e18]; omega), h1, e18]

theorem arith_of {ρ : Type} (ov c : Bool) (h : ov = true → c = true) : (Flow.arith ov c : Flow Unit ρ) = Flow.next () := by
  cases ov <;> cases c <;> simp_all [Flow.arith, Flow.check]

/-- `encode_payload` in general: whenever the two subtractions do not panic (always in release; in debug when
`34 ≤ payload_limit`) and the limit the code computes — `L = (payload_limit - 16 - 18) mod 2^64` — is not 0, the call encodes
the chunks of at most `L` bytes -/
theorem encode_payload_gen (ov : Bool) (C : Crypto) (hS : SealLen C) (pl : Usize) (hov : ov = true → 34 ≤ pl.toNat)
    (hL : 0 < (pl - 16 - 18).toNat) (a : Ss.Auth) (src dst : Bytes)
    (hn : a.nonce.length = 12) (hsrc : src.length < 2 ^ 64) (fuel : Nat) (hf : src.length < fuel) :
    ChunkEncoder.encode_payload ov fuel (ofEnc C pl a) src dst
      = PWGen.Res.ok (some (ofEnc C pl (Ss.encChunks C a (Ss.splitChunks (pl - 16 - 18).toNat src)).2,
          dst ++ (Ss.encChunks C a (Ss.splitChunks (pl - 16 - 18).toNat src)).1, RResult.ok ())) := by
  have s1 : (Flow.arith ov (U64.subOk pl (16 : Usize)) : Flow Unit (Option (ChunkEncoder × Cursor × RResult Unit))) = Flow.next () :=
    arith_of _ _ (fun h => (limit_toNat pl (hov h)).1)
  have s2 : (Flow.arith ov (U64.subOk (pl - 16) (18 : Usize)) : Flow Unit (Option (ChunkEncoder × Cursor × RResult Unit))) = Flow.next () :=
    arith_of _ _ (fun h => (limit_toNat pl (hov h)).2.1)
  have htag : CipherMethod.tag_size (ofEnc C pl a).auth.method = 16 := rfl
  have hpl' : (ofEnc C pl a).payload_limit = pl := rfl
  have hw := while_sim (ρ := ChunkEncoder × Cursor × RResult Unit)
    (fun (x : ChunkEncoder × Cursor × Cursor) => match x with | (self_, src, dst) => Cursor.has_remaining src)
    (fun (x : ChunkEncoder × Cursor × Cursor) => match x with
      | (self_, src, dst) =>
        Flow.bind (Flow.call (ChunkEncoder.encode_chunk ov self_ src (Usize.min (Cursor.remaining src) (pl - 16 - 18)) dst)) fun x =>
        Flow.bind (Flow.question x.2.2.2 (some (x.1, x.2.2.1, RResult.err))) fun _ => Flow.next (x.1, x.2.1, x.2.2.1))
    (fun t => (ofEnc C pl t.1, t.2.1, t.2.2)) encCond (encStep C (pl - 16 - 18).toNat) (fun t => t.2.1.length)
    (fun t => t.1.nonce.length = 12 ∧ t.2.1.length < 2 ^ 64)
    (by intro t; rfl)
    (by
      intro t hI hc
      obtain ⟨a, src, dst⟩ := t
      obtain ⟨hn, hsrc⟩ := hI
      simp only at hn hsrc
      have hne : src ≠ [] := by intro h; subst h; simp [encCond] at hc
      have hpos : 0 < src.length := List.length_pos_iff.mpr hne
      have hmin : (Usize.min (Cursor.remaining src) (pl - 16 - 18)).toNat = min src.length (pl - 16 - 18).toNat := by
        rw [usize_min_toNat, remaining_toNat _ hsrc]
      have hch := encode_chunk_eval ov C hS pl a src dst (Usize.min (Cursor.remaining src) (pl - 16 - 18)) hn (by rw [hmin]; omega)
      rw [hmin, take_min_len, drop_min_len] at hch
      refine ⟨?_, ⟨?_, ?_⟩, ?_⟩
      · simp only [hch, call_ok, bind_next, question_ok, encStep]
      · simp only [encStep, Ss.encChunk]; exact incStep_len (incStep_len hn)
      · simp only [encStep, List.length_drop]; omega
      · simp only [encStep, List.length_drop]; omega)
    fuel (a, src, dst) ⟨hn, hsrc⟩ hf
  simp only [ChunkEncoder.encode_payload, htag, hpl', s1, s2, bind_next, enc_size_bytes, call_ok]
  simp only at hw
  rw [hw, bind_next, whileModel_enc C _ hL fuel a src dst hf]
  simp only [run_ret]

/-- **`encode_payload`** = `encPayload`.  Guards: `34 < payload_limit` (so that `payload_limit - tag_size - size_bytes` neither
underflows nor is 0, see `encode_payload_underflow_debug` / `encode_payload_underflow_release` / `encode_payload_limit_zero`),
the source fits a `usize`, and the cut-off `fuel` is above the source length — then it is never reached: the result is `some`,
equal for every such `fuel`. -/
theorem encode_payload_eq (ov : Bool) (C : Crypto) (hS : SealLen C) (pl : Usize) (hpl : 34 < pl.toNat) (a : Ss.Auth) (src dst : Bytes)
    (hn : a.nonce.length = 12) (hsrc : src.length < 2 ^ 64) (fuel : Nat) (hf : src.length < fuel) :
    ChunkEncoder.encode_payload ov fuel (ofEnc C pl a) src dst
      = PWGen.Res.ok (some (ofEnc C pl (Ss.encPayload C a pl.toNat src).2, dst ++ (Ss.encPayload C a pl.toNat src).1, RResult.ok ())) := by
  obtain ⟨-, -, hlim⟩ := limit_toNat pl (by omega)
  rw [encode_payload_gen ov C hS pl (fun _ => by omega) (by rw [hlim]; omega) a src dst hn hsrc fuel hf, hlim]
  simp only [Ss.encPayload, Ss.chunkLimit]

/-- **where the subtraction underflows, a release build wraps**: the limit becomes a number near 2^64, so the whole source —
however long — is sealed as ONE chunk (whose 16-bit length field holds `len mod 65536`), while the hand model, which subtracts
in `Nat`, encodes nothing -/
theorem encode_payload_underflow_release (C : Crypto) (hS : SealLen C) (pl : Usize) (hpl : pl.toNat < 34) (a : Ss.Auth) (x : UInt8)
    (r dst : Bytes) (hn : a.nonce.length = 12) (hsrc : (x :: r).length < 2 ^ 64 - 34) (fuel : Nat) (hf : (x :: r).length < fuel) :
    ChunkEncoder.encode_payload false fuel (ofEnc C pl a) (x :: r) dst
      = PWGen.Res.ok (some (ofEnc C pl (Ss.encChunk C a (x :: r)).2, dst ++ (Ss.encChunk C a (x :: r)).1, RResult.ok ())) := by
  have e16 : (16 : Usize).toNat = 16 := rfl
  have e18 : (18 : Usize).toNat = 18 := rfl
  have hbig : 2 ^ 64 - 34 ≤ (pl - 16 - 18).toNat := by
    rw [UInt64.toNat_sub, UInt64.toNat_sub, e16, e18]
    omega
  rw [encode_payload_gen false C hS pl (fun h => by cases h) (by omega) a (x :: r) dst hn (by omega) fuel hf,
    splitChunks_cons _ (by omega) (x :: r) (by simp), List.take_of_length_le (by omega), List.drop_of_length_le (by omega),
    splitChunks_nil]
  simp [Ss.encChunks]

/-- **where `payload_limit - tag_size - size_bytes` underflows, a build with overflow checks panics** (the hand model, which
subtracts in `Nat`, returns an empty encoding there: `encPayload_small_limit`) -/
theorem encode_payload_underflow_debug (C : Crypto) (pl : Usize) (hpl : pl.toNat < 34) (a : Ss.Auth) (src dst : Bytes) (fuel : Nat) :
    ChunkEncoder.encode_payload true fuel (ofEnc C pl a) src dst = PWGen.Res.panic := by
  have htag : CipherMethod.tag_size (ofEnc C pl a).auth.method = 16 := rfl
  have hpl' : (ofEnc C pl a).payload_limit = pl := rfl
  have e16 : (16 : Usize).toNat = 16 := rfl
  have e18 : (18 : Usize).toNat = 18 := rfl
  by_cases h16 : pl.toNat < 16
  · have s1 : U64.subOk pl (16 : Usize) = false := by simp [U64.subOk, e16]; omega
    simp only [ChunkEncoder.encode_payload, htag, hpl', s1, arith_debug_false, bind_panic, run_panic']
  · have s1 : U64.subOk pl (16 : Usize) = true := by simp [U64.subOk, e16]; omega
    have h1 : (pl - 16).toNat = pl.toNat - 16 := by rw [sub_toNat _ _ (by rw [e16]; omega), e16]
    have s2 : U64.subOk (pl - 16) (18 : Usize) = false := by simp [U64.subOk, h1, e18]; omega
    simp only [ChunkEncoder.encode_payload, htag, hpl', s1, s2, arith_true, arith_debug_false, bind_next, bind_panic, enc_size_bytes,
      call_ok, run_panic']

/-- the hand model on such a limit: nothing is encoded at all -/
theorem encPayload_small_limit (C : Crypto) (a : Ss.Auth) (l : Nat) (hl : l ≤ 34) (p : Bytes) : Ss.encPayload C a l p = ([], a) := by
  have : Ss.chunkLimit l = 0 := by unfold Ss.chunkLimit; omega
  rw [Ss.encPayload, this, Ss.splitChunks]
  simp [Ss.encChunks]

/-- **`payload_limit = 34`** (limit 0): the Rust loop never ends on a non-empty source (it appends empty chunks for ever): the
translated function is cut off for every `fuel`; the hand model returns the empty encoding -/
theorem encode_payload_limit_zero (ov : Bool) (C : Crypto) (hS : SealLen C) (a : Ss.Auth) (x : UInt8) (r dst : Bytes)
    (hn : a.nonce.length = 12) (fuel : Nat) :
    ChunkEncoder.encode_payload ov fuel (ofEnc C 34 a) (x :: r) dst = PWGen.Res.ok none := by
  have htag : CipherMethod.tag_size (ofEnc C 34 a).auth.method = 16 := rfl
  have hpl' : (ofEnc C 34 a).payload_limit = 34 := rfl
  have s1 : U64.subOk (34 : Usize) (16 : Usize) = true := by decide
  have s2 : U64.subOk ((34 : Usize) - 16) (18 : Usize) = true := by decide
  have hz : (34 : Usize) - 16 - 18 = 0 := by decide
  have hmin : ∀ b : Bytes, Usize.min (Cursor.remaining b) 0 = 0 := by
    intro b; apply UInt64.toNat_inj.mp; rw [usize_min_toNat]; simp
  simp only [ChunkEncoder.encode_payload, htag, hpl', s1, s2, arith_true, bind_next, enc_size_bytes, call_ok, hz, hmin]
  suffices h : ∀ (f : Nat) (a : Ss.Auth) (dst : Bytes), a.nonce.length = 12 →
      (Flow.while (fun (x : ChunkEncoder × Cursor × Cursor) => match x with | (self_, src, dst) => Cursor.has_remaining src)
        (fun (x : ChunkEncoder × Cursor × Cursor) => match x with
          | (self_, src, dst) =>
            Flow.bind (Flow.call (ChunkEncoder.encode_chunk ov self_ src 0 dst)) fun x =>
            Flow.bind (Flow.question x.2.2.2 (some (x.1, x.2.2.1, RResult.err))) fun _ => Flow.next (x.1, x.2.1, x.2.2.1))
        f (ofEnc C 34 a, x :: r, dst) : Flow _ (Option (ChunkEncoder × Cursor × RResult Unit))) = Flow.ret none by
    have := h fuel a dst hn
    simp only at this
    rw [this]; rfl
  intro f
  induction f with
  | zero => intro a dst _; rfl
  | succ f ih =>
    intro a dst hn
    have hch := encode_chunk_eval ov C hS 34 a (x :: r) dst 0 hn (by simp)
    have e0 : (0 : Usize).toNat = 0 := rfl
    rw [e0, List.take_zero, List.drop_zero] at hch
    rw [while_true _ _ _ _ (by rfl)]
    simp only [hch, call_ok, bind_next, question_ok]
    exact ih _ _ (by simp only [Ss.encChunk]; exact incStep_len (incStep_len hn))

/-! ## Part 5 — `ChunkDecoder` -/

/-- **`decode_packet`** = `Auth.openB` of everything buffered: the buffer is left empty; `Err` exactly when the open fails, and
the generator has stepped once either way -/
theorem decode_packet_eval (ov : Bool) (C : Crypto) (d : Ss.ChunkDec) (src : Bytes) (hn : d.auth.nonce.length = 12) :
    ChunkDecoder.decode_packet ov (ofDec C d) src
      = PWGen.Res.ok (ofDec C ⟨(d.auth.openB C src).2, d.st⟩, [],
          (match (d.auth.openB C src).1 with | some p => RResult.ok p | none => RResult.err)) := by
  cases ho : d.auth.openB C src with
  | mk o a' =>
    cases o with
    | none =>
      simp only [ChunkDecoder.decode_packet, split_off_zero, bind_next, ofDec, open_none ov C d.auth a' src hn ho, call_ok, question_err,
        bind_ret, run_ret]
    | some p =>
      simp only [ChunkDecoder.decode_packet, split_off_zero, bind_next, ofDec, open_some ov C d.auth a' src p hn ho, call_ok, question_ok,
        run_ret]

theorem dec_size_bytes (ov : Bool) (C : Crypto) (a : Ss.Auth) (g : DecodeState) :
    ChunkDecoder.size_bytes ov ⟨ofAuth C a, g⟩ = PWGen.Res.ok 18 := by
  simp only [ChunkDecoder.size_bytes, auth_size_bytes, call_ok, bind_next, run_ret]

theorem dec_decode_size_none (ov : Bool) (C : Crypto) (hO : OpenLen C) (a a' : Ss.Auth) (g : DecodeState) (c : Bytes)
    (hn : a.nonce.length = 12) (hc : c.length = 18) (ho : a.openB C c = (none, a')) :
    ∃ buf, ChunkDecoder.decode_size ov ⟨ofAuth C a, g⟩ c = PWGen.Res.ok (⟨ofAuth C a', g⟩, buf, RResult.err) := by
  obtain ⟨buf, h⟩ := decode_size_eval ov C hO a c hn hc
  rw [ho] at h
  exact ⟨buf, by simp only [ChunkDecoder.decode_size, h, call_ok, bind_next, run_ret]⟩

theorem dec_decode_size_some (ov : Bool) (C : Crypto) (hO : OpenLen C) (a a' : Ss.Auth) (g : DecodeState) (c l : Bytes)
    (hn : a.nonce.length = 12) (hc : c.length = 18) (ho : a.openB C c = (some l, a')) :
    ∃ buf, ChunkDecoder.decode_size ov ⟨ofAuth C a, g⟩ c
      = PWGen.Res.ok (⟨ofAuth C a', g⟩, buf, RResult.ok (UInt64.ofNat (rdBE l + 16))) := by
  obtain ⟨buf, h⟩ := decode_size_eval ov C hO a c hn hc
  rw [ho] at h
  exact ⟨buf, by simp only [ChunkDecoder.decode_size, h, call_ok, bind_next, run_ret]⟩

/-- model of a `loop` without `break`: `mstep` either continues with a new model state or returns -/
def loopModel {τ ρ : Type} (mstep : τ → Sum τ ρ) : Nat → τ → Option ρ
  | 0, _ => none
  | n + 1, t =>
    match mstep t with
    | .inl t' => loopModel mstep n t'
    | .inr r => some r

/-- a generated `loop` whose body is simulated by `mstep` on the states `rep t` returns what the model loop returns (`none` =
cut off) and does not panic -/
theorem loop_sim {σ τ ρ : Type} (body : σ → Flow σ (Option ρ)) (rep : τ → σ) (mstep : τ → Sum τ ρ) (I : τ → Prop)
    (hb : ∀ t, I t → (∀ t', mstep t = .inl t' → body (rep t) = Flow.next (rep t') ∧ I t') ∧
      (∀ r, mstep t = .inr r → body (rep t) = Flow.ret (some r))) :
    ∀ f t, I t → Flow.loop body f (rep t) = Flow.ret (loopModel mstep f t) := by
  intro f
  induction f with
  | zero => intro t _; rfl
  | succ f ih =>
    intro t hI
    cases hm : mstep t with
    | inl t' =>
      obtain ⟨h1, h2⟩ := (hb t hI).1 t' hm
      rw [loop_next _ _ _ _ h1, ih t' h2]
      simp [loopModel, hm]
    | inr r =>
      rw [loop_ret _ _ _ _ ((hb t hI).2 r hm)]
      simp [loopModel, hm]

/-- a model decoder state that the generated one can represent (`usize`), with the nonce of the Rust type -/
def WFDec (d : Ss.ChunkDec) : Prop := d.auth.nonce.length = 12 ∧ ∀ n, d.st = .payload n → n < 2 ^ 64

abbrev DecRet := ChunkDecoder × Cursor × Cursor × RResult Unit

/-- one iteration of the loop of `decode_payload` on model states: `chunkUnit`, with what the Rust returns when it returns -/
def decStep (C : Crypto) (t : Ss.ChunkDec × Bytes × Bytes) : Sum (Ss.ChunkDec × Bytes × Bytes) DecRet :=
  match Ss.chunkUnit C t.1 t.2.1 with
  | .need => .inr (ofDec C t.1, t.2.1, t.2.2, RResult.ok ())
  | .fail d' n => .inr (ofDec C d', t.2.1.drop n, t.2.2, RResult.err)
  | .take d' n o => .inl (d', t.2.1.drop n, t.2.2 ++ o)

theorem ofNat_toNat_lt (n : Nat) (h : n < 2 ^ 64) : (UInt64.ofNat n).toNat = n :=
  UInt64.toNat_ofNat_of_lt' (show n < 18446744073709551616 by omega)

/-- **the loop of `decode_payload`, for every cut-off**: the generated function returns what iterating `chunkUnit` returns -/
theorem decode_payload_loop (ov : Bool) (C : Crypto) (hO : OpenLen C) (d : Ss.ChunkDec) (src dst : Bytes) (hd : WFDec d)
    (hsrc : src.length < 2 ^ 64) (fuel : Nat) :
    ChunkDecoder.decode_payload ov fuel (ofDec C d) src dst = PWGen.Res.ok (loopModel (decStep C) fuel (d, src, dst)) := by
  unfold ChunkDecoder.decode_payload
  refine (congrArg Flow.run (loop_sim _ (fun (t : Ss.ChunkDec × Bytes × Bytes) => (ofDec C t.1, t.2.1, t.2.2)) (decStep C)
    (fun t => WFDec t.1 ∧ t.2.1.length < 2 ^ 64) ?_ fuel (d, src, dst) ⟨hd, hsrc⟩)).trans rfl
  intro t hI
  obtain ⟨d, b, dst⟩ := t
  obtain ⟨⟨hn, hp⟩, hb⟩ := hI
  simp only at hn hp hb
  obtain ⟨a, st⟩ := d
  simp only at hn hp
  have e18 : (18 : Usize).toNat = 18 := rfl
  cases st with
  | length =>
    by_cases hlen : b.length < 18
    · -- not even a sealed length: `return Ok(())`
      have hu : decStep C (⟨a, .length⟩, b, dst) = .inr (ofDec C ⟨a, .length⟩, b, dst, RResult.ok ()) := by
        simp [decStep, Ss.chunkUnit, hlen]
      refine ⟨fun t' h => (by rw [hu] at h; cases h), fun r h => ?_⟩
      rw [hu] at h; cases h
      have g := rem_lt_true b hb 18 (by rw [e18]; exact hlen)
      simp only [ofDec, ofSt, dec_size_bytes, call_ok, bind_next, g, bind_ret, ↓reduceIte]
    · have hc : (b.take 18).length = 18 := by rw [List.length_take]; omega
      have g := rem_lt_false b hb 18 (by rw [e18]; exact hlen)
      have hsp := split_to_ok (ρ := Option DecRet) b 18 (by rw [e18]; omega)
      rw [e18] at hsp
      cases ho : a.openB C (b.take 18) with
      | mk o a' =>
        have hn' : a'.nonce.length = 12 := by have := openB_nonce_len C a (b.take 18) hn; rw [ho] at this; exact this
        cases o with
        | none =>
          have hu : decStep C (⟨a, .length⟩, b, dst) = .inr (ofDec C ⟨a', .length⟩, b.drop 18, dst, RResult.err) := by
            simp [decStep, Ss.chunkUnit, hlen, ho]
          refine ⟨fun t' h => (by rw [hu] at h; cases h), fun r h => ?_⟩
          rw [hu] at h; cases h
          obtain ⟨buf, hds⟩ := dec_decode_size_none ov C hO a a' .Length (b.take 18) hn hc ho
          simp only [ofDec, ofSt, dec_size_bytes, call_ok, bind_next, g, hsp, hds, question_err, bind_ret, Bool.false_eq_true, ↓reduceIte]
        | some l =>
          have hl : l.length = 2 := by
            have := hO a.alg a.key (Nonce.incStep a.nonce) [] (b.take 18) l (by simpa [Ss.Auth.openB] using congrArg Prod.fst ho)
            omega
          have hu : decStep C (⟨a, .length⟩, b, dst) = .inl (⟨a', .payload (rdBE l + 16)⟩, b.drop 18, dst ++ []) := by
            simp [decStep, Ss.chunkUnit, hlen, ho]
          refine ⟨fun t' h => ?_, fun r h => (by rw [hu] at h; cases h)⟩
          rw [hu] at h; cases h
          obtain ⟨buf, hds⟩ := dec_decode_size_some ov C hO a a' .Length (b.take 18) l hn hc ho
          refine ⟨?_, ⟨hn', ?_⟩, ?_⟩
          · simp only [ofDec, ofSt, dec_size_bytes, call_ok, bind_next, g, hsp, hds, question_ok, List.append_nil, Bool.false_eq_true,
              ↓reduceIte]
          · intro n hn2
            have := rdBE_two_lt l hl
            cases hn2; omega
          · simp only [List.length_drop]; omega
  | payload n =>
    have hn64 : n < 2 ^ 64 := hp n rfl
    have en : (UInt64.ofNat n).toNat = n := ofNat_toNat_lt n hn64
    by_cases hlen : b.length < n
    · have hu : decStep C (⟨a, .payload n⟩, b, dst) = .inr (ofDec C ⟨a, .payload n⟩, b, dst, RResult.ok ()) := by
        simp [decStep, Ss.chunkUnit, hlen]
      refine ⟨fun t' h => (by rw [hu] at h; cases h), fun r h => ?_⟩
      rw [hu] at h; cases h
      have g := rem_lt_true b hb (UInt64.ofNat n) (by rw [en]; exact hlen)
      simp only [ofDec, ofSt, g, bind_ret, ↓reduceIte]
    · have g := rem_lt_false b hb (UInt64.ofNat n) (by rw [en]; exact hlen)
      have hsp := split_to_ok (ρ := Option DecRet) b (UInt64.ofNat n) (by rw [en]; omega)
      rw [en] at hsp
      cases ho : a.openB C (b.take n) with
      | mk o a' =>
        have hn' : a'.nonce.length = 12 := by have := openB_nonce_len C a (b.take n) hn; rw [ho] at this; exact this
        cases o with
        | none =>
          have hu : decStep C (⟨a, .payload n⟩, b, dst) = .inr (ofDec C ⟨a', .payload n⟩, b.drop n, dst, RResult.err) := by
            simp [decStep, Ss.chunkUnit, hlen, ho]
          refine ⟨fun t' h => (by rw [hu] at h; cases h), fun r h => ?_⟩
          rw [hu] at h; cases h
          simp only [ofDec, ofSt, g, bind_next, hsp, open_none ov C a a' (b.take n) hn ho, call_ok, question_err, bind_ret,
            Bool.false_eq_true, ↓reduceIte]
        | some p =>
          have hu : decStep C (⟨a, .payload n⟩, b, dst) = .inl (⟨a', .length⟩, b.drop n, dst ++ p) := by
            simp [decStep, Ss.chunkUnit, hlen, ho]
          refine ⟨fun t' h => ?_, fun r h => (by rw [hu] at h; cases h)⟩
          rw [hu] at h; cases h
          refine ⟨?_, ⟨hn', ?_⟩, ?_⟩
          · simp only [ofDec, ofSt, g, bind_next, hsp, open_some ov C a a' (b.take n) p hn ho, call_ok, question_ok,
              Cursor.extend_from_slice, Bool.false_eq_true, ↓reduceIte]
          · intro m hm; cases hm
          · simp only [List.length_drop]; omega

/-- the states in which every step of `chunkUnit` consumes at least one byte: not `payload 0` (which no run reaches: the
payload length is a 16-bit length plus the tag size) -/
def PosDec (d : Ss.ChunkDec) : Prop := ∀ n, d.st = .payload n → 0 < n

/-- a step that takes bytes takes at least one, not more than there are, and leads to such a state again -/
theorem chunkUnit_take_pos (C : Crypto) (d d' : Ss.ChunkDec) (b : Bytes) (n : Nat) (o : Bytes) (hp : PosDec d)
    (h : Ss.chunkUnit C d b = .take d' n o) : 0 < n ∧ n ≤ b.length ∧ PosDec d' := by
  obtain ⟨a, st⟩ := d
  cases st with
  | length =>
    simp only [Ss.chunkUnit] at h
    split at h
    · cases h
    · split at h
      · cases h
      · cases h
        refine ⟨by omega, by omega, ?_⟩
        intro m hm; cases hm; omega
  | payload k =>
    have hk := hp k rfl
    simp only [Ss.chunkUnit] at h
    split at h
    · cases h
    · split at h
      · cases h
      · cases h
        refine ⟨hk, by omega, ?_⟩
        intro m hm; cases hm

/-- the model loop with a cut-off above the buffer length is `Fr.drain` with any such cut-off -/
theorem loopModel_drain (C : Crypto) : ∀ (f g : Nat) (d : Ss.ChunkDec) (b dst : Bytes), PosDec d → b.length < f → b.length < g →
    loopModel (decStep C) f (d, b, dst) = some (ofDec C (Fr.drain (Ss.chunkUnit C) g d b).st, (Fr.drain (Ss.chunkUnit C) g d b).buf,
      dst ++ (Fr.drain (Ss.chunkUnit C) g d b).out,
      if (Fr.drain (Ss.chunkUnit C) g d b).failed then RResult.err else RResult.ok ()) := by
  intro f
  induction f with
  | zero => intro g d b dst _ h; omega
  | succ f ih =>
    intro g d b dst hp hf hg
    cases g with
    | zero => omega
    | succ g =>
      cases hu : Ss.chunkUnit C d b with
      | need => simp [loopModel, decStep, Fr.drain, hu]
      | fail d' n => simp [loopModel, decStep, Fr.drain, hu]
      | take d' n o =>
        obtain ⟨h1, h2, h3⟩ := chunkUnit_take_pos C d d' b n o hp hu
        have hl : (b.drop n).length < f := by rw [List.length_drop]; omega
        have hl2 : (b.drop n).length < g := by rw [List.length_drop]; omega
        simp only [loopModel, decStep, hu, Fr.drain, ih g d' (b.drop n) (dst ++ o) h3 hl hl2, List.append_assoc]

/-- **`decode_payload`** = the model's repeated `chunkUnit` (`Fr.run (chunkUnit C)`, what `AEADCipherCodec::decode` is modelled
as): the same plaintext appended to `dst`, the same bytes left in `src`, the same decoder state (authenticator = nonce, and
`DecodeState`), `Err` exactly when the run failed (an open failed) and then with the state and nonce after the failing open;
no panic; for every cut-off `fuel` above the buffer length, which therefore is never reached. -/
theorem decode_payload_eq (ov : Bool) (C : Crypto) (hO : OpenLen C) (d : Ss.ChunkDec) (src dst : Bytes) (hd : WFDec d) (hp : PosDec d)
    (hsrc : src.length < 2 ^ 64) (fuel : Nat) (hf : src.length < fuel) :
    ChunkDecoder.decode_payload ov fuel (ofDec C d) src dst
      = PWGen.Res.ok (some (ofDec C (Fr.run (Ss.chunkUnit C) d src).st, (Fr.run (Ss.chunkUnit C) d src).buf,
          dst ++ (Fr.run (Ss.chunkUnit C) d src).out,
          if (Fr.run (Ss.chunkUnit C) d src).failed then RResult.err else RResult.ok ())) := by
  rw [decode_payload_loop ov C hO d src dst hd hsrc fuel, loopModel_drain C fuel (src.length + 1) d src dst hp hf (by omega)]
  rfl

/-- the cut-off is not part of the statement: there is a bound above which every `fuel` gives the same, final, answer -/
theorem decode_payload_fuel_free (ov : Bool) (C : Crypto) (hO : OpenLen C) (d : Ss.ChunkDec) (src dst : Bytes) (hd : WFDec d)
    (hp : PosDec d) (hsrc : src.length < 2 ^ 64) :
    ∃ r, ∀ fuel, src.length < fuel → ChunkDecoder.decode_payload ov fuel (ofDec C d) src dst = PWGen.Res.ok (some r) :=
  ⟨_, fun fuel hf => decode_payload_eq ov C hO d src dst hd hp hsrc fuel hf⟩

/-! ## Part 6 — no panic; nonces consumed; the generated decoder under repeated reads -/

/-- **`decode_payload` never panics**: every representable decoder state (also `Payload(0)`), every buffer content, both overflow
profiles, every cut-off -/
theorem decode_payload_no_panic (ov : Bool) (C : Crypto) (hO : OpenLen C) (d : Ss.ChunkDec) (src dst : Bytes) (hd : WFDec d)
    (hsrc : src.length < 2 ^ 64) (fuel : Nat) :
    ChunkDecoder.decode_payload ov fuel (ofDec C d) src dst ≠ PWGen.Res.panic := by
  rw [decode_payload_loop ov C hO d src dst hd hsrc fuel]; simp

/-- what a step of `chunkUnit` that takes bytes did: it opened the first `n` bytes with the authenticator, which stepped once -/
theorem chunkUnit_inv_take (C : Crypto) (d d' : Ss.ChunkDec) (b : Bytes) (n : Nat) (o : Bytes)
    (h : Ss.chunkUnit C d b = .take d' n o) :
    ∃ x, d.auth.openB C (b.take n) = (some x, d'.auth) ∧ n ≤ b.length ∧
      ((d.st = .length ∧ n = 18 ∧ d'.st = .payload (rdBE x + 16) ∧ o = []) ∨ (d.st = .payload n ∧ d'.st = .length ∧ o = x)) := by
  obtain ⟨a, st⟩ := d
  cases st with
  | length =>
    simp only [Ss.chunkUnit] at h
    split at h
    · cases h
    · split at h
      · cases h
      · rename_i l a' heq
        cases h
        exact ⟨_, heq, by omega, Or.inl ⟨rfl, rfl, rfl, rfl⟩⟩
  | payload k =>
    simp only [Ss.chunkUnit] at h
    split at h
    · cases h
    · split at h
      · cases h
      · rename_i p a' heq
        cases h
        exact ⟨_, heq, by omega, Or.inr ⟨rfl, rfl, rfl⟩⟩

/-- what a failing step did: the open of the first `n` bytes failed, the authenticator stepped once, the state is kept -/
theorem chunkUnit_inv_fail (C : Crypto) (d d' : Ss.ChunkDec) (b : Bytes) (n : Nat) (h : Ss.chunkUnit C d b = .fail d' n) :
    d.auth.openB C (b.take n) = (none, d'.auth) ∧ d'.st = d.st ∧ n ≤ b.length ∧ (d.st = .length → n = 18) ∧
      (∀ k, d.st = .payload k → n = k) := by
  obtain ⟨a, st⟩ := d
  cases st with
  | length =>
    simp only [Ss.chunkUnit] at h
    split at h
    · cases h
    · split at h
      · rename_i a' heq
        cases h
        exact ⟨heq, rfl, by omega, fun _ => rfl, fun k hk => (by cases hk)⟩
      · cases h
  | payload k =>
    simp only [Ss.chunkUnit] at h
    split at h
    · cases h
    · split at h
      · rename_i a' heq
        cases h
        exact ⟨heq, rfl, by omega, fun hk => (by cases hk), fun k' hk => (by cases hk; rfl)⟩
      · cases h

theorem openB_snd_nonce (C : Crypto) (a a' : Ss.Auth) (c : Bytes) (o : Option Bytes) (h : a.openB C c = (o, a')) :
    a'.nonce = Nonce.incStep a.nonce := by
  have := congrArg (fun x => x.2.nonce) h
  simpa [Ss.Auth.openB] using this.symm

/-- every step of `chunkUnit` that opens something (take or fail) steps the nonce exactly once (waiting changes nothing) -/
theorem chunkUnit_nonce_take (C : Crypto) (d d' : Ss.ChunkDec) (b : Bytes) (n : Nat) (o : Bytes)
    (h : Ss.chunkUnit C d b = .take d' n o) : d'.auth.nonce = Nonce.incStep d.auth.nonce := by
  obtain ⟨x, hx, -⟩ := chunkUnit_inv_take C d d' b n o h
  exact openB_snd_nonce C _ _ _ _ hx

theorem chunkUnit_nonce_fail (C : Crypto) (d d' : Ss.ChunkDec) (b : Bytes) (n : Nat)
    (h : Ss.chunkUnit C d b = .fail d' n) : d'.auth.nonce = Nonce.incStep d.auth.nonce :=
  openB_snd_nonce C _ _ _ _ (chunkUnit_inv_fail C d d' b n h).1

/-- the encoder steps the nonce exactly twice per chunk -/
theorem encChunk_nonce (C : Crypto) (a : Ss.Auth) (p : Bytes) :
    (Ss.encChunk C a p).2.nonce = Nonce.incStep (Nonce.incStep a.nonce) := rfl

theorem encChunks_nonce (C : Crypto) : ∀ (ps : List Bytes) (a : Ss.Auth),
    (Ss.encChunks C a ps).2.nonce = Nat.repeat Nonce.incStep (2 * ps.length) a.nonce := by
  intro ps
  induction ps with
  | nil => intro a; rfl
  | cons p ps ih =>
    intro a
    have e : 2 * (p :: ps).length = (2 * ps.length) + 1 + 1 := by simp only [List.length_cons]; omega
    simp only [Ss.encChunks, ih, encChunk_nonce, e, Nat.repeat, NonceGen.repeat_comm]

theorem encChunk_key (C : Crypto) (a : Ss.Auth) (p : Bytes) :
    (Ss.encChunk C a p).2.alg = a.alg ∧ (Ss.encChunk C a p).2.key = a.key := ⟨rfl, rfl⟩

/-- a full chunk — two consecutive iterations of the loop — steps the decoder's nonce exactly twice -/
theorem chunk_two_opens (C : Crypto) (hC : C.Lawful) (a : Ss.Auth) (p t : Bytes) (hp : p.length < 65536) :
    ∃ a1 a2, Ss.chunkUnit C ⟨a, .length⟩ ((Ss.encChunk C a p).1 ++ t) = .take ⟨a1, .payload (p.length + 16)⟩ 18 [] ∧
      Ss.chunkUnit C ⟨a1, .payload (p.length + 16)⟩ (((Ss.encChunk C a p).1 ++ t).drop 18) = .take ⟨a2, .length⟩ (p.length + 16) p ∧
      a1.nonce = Nonce.incStep a.nonce ∧ a2.nonce = Nonce.incStep (Nonce.incStep a.nonce) ∧ a2 = (Ss.encChunk C a p).2 := by
  obtain ⟨l, a1, hl⟩ : ∃ l a1, a.sealB C (be16 p.length) = (l, a1) := ⟨_, _, rfl⟩
  obtain ⟨c, a2, hc⟩ : ∃ c a2, a1.sealB C p = (c, a2) := ⟨_, _, rfl⟩
  have hll : l.length = 18 := by have := Ss.sealB_len C hC a (be16 p.length); rw [hl] at this; simpa using this
  have hcl : c.length = p.length + 16 := by have := Ss.sealB_len C hC a1 p; rw [hc] at this; exact this
  have ho1 : a.openB C l = (some (be16 p.length), a1) := by
    have := Ss.open_seal_auth C hC a (be16 p.length); rw [hl] at this; exact this
  have ho2 : a1.openB C c = (some p, a2) := by
    have := Ss.open_seal_auth C hC a1 p; rw [hc] at this; exact this
  have henc : Ss.encChunk C a p = (l ++ c, a2) := by simp [Ss.encChunk, hl, hc]
  have hn1 : a1.nonce = Nonce.incStep a.nonce := by have := congrArg (fun x => x.2.nonce) hl; simpa [Ss.Auth.sealB] using this.symm
  have hn2 : a2.nonce = Nonce.incStep a1.nonce := by have := congrArg (fun x => x.2.nonce) hc; simpa [Ss.Auth.sealB] using this.symm
  refine ⟨a1, a2, ?_, ?_, hn1, by rw [hn2, hn1], by rw [henc]⟩
  · rw [henc]
    simp only [Ss.chunkUnit, List.append_assoc]
    rw [if_neg (by simp only [List.length_append, hll]; omega)]
    rw [Ss.take_app _ _ _ (by omega), List.take_of_length_le (by omega), ho1]
    simp only [rdBE_be16 _ hp]
  · rw [henc]
    have d1 : (l ++ c ++ t).drop 18 = c ++ t := by rw [List.append_assoc, ← hll, List.drop_left]
    rw [d1]
    simp only [Ss.chunkUnit]
    rw [if_neg (by simp only [List.length_append, hcl]; omega)]
    rw [Ss.take_app _ _ _ (by omega), List.take_of_length_le (by omega), ho2]

/-! ### invariants of the run -/

theorem chunkUnit_wf_take (C : Crypto) (hO : OpenLen C) (d d' : Ss.ChunkDec) (b : Bytes) (n : Nat) (o : Bytes) (hd : WFDec d)
    (h : Ss.chunkUnit C d b = .take d' n o) : WFDec d' := by
  obtain ⟨x, hx, hle, hcase⟩ := chunkUnit_inv_take C d d' b n o h
  refine ⟨by rw [openB_snd_nonce C _ _ _ _ hx]; exact incStep_len hd.1, fun m hm => ?_⟩
  rcases hcase with ⟨_, h18, hst, _⟩ | ⟨_, hst, _⟩
  · have hl : x.length = 2 := by
      have := hO d.auth.alg d.auth.key (Nonce.incStep d.auth.nonce) [] (b.take n) x (by simpa [Ss.Auth.openB] using congrArg Prod.fst hx)
      rw [List.length_take] at this
      omega
    have := rdBE_two_lt x hl
    rw [hst] at hm; cases hm; omega
  · rw [hst] at hm; cases hm

theorem chunkUnit_wf_fail (C : Crypto) (d d' : Ss.ChunkDec) (b : Bytes) (n : Nat) (hd : WFDec d)
    (h : Ss.chunkUnit C d b = .fail d' n) : WFDec d' := by
  obtain ⟨hx, hst, -⟩ := chunkUnit_inv_fail C d d' b n h
  exact ⟨by rw [openB_snd_nonce C _ _ _ _ hx]; exact incStep_len hd.1, fun m hm => hd.2 m (by rw [← hst]; exact hm)⟩

theorem chunkUnit_fail_pos (C : Crypto) (d d' : Ss.ChunkDec) (b : Bytes) (n : Nat) (hp : PosDec d)
    (h : Ss.chunkUnit C d b = .fail d' n) : PosDec d' := by
  obtain ⟨-, hst, -⟩ := chunkUnit_inv_fail C d d' b n h
  intro m hm
  exact hp m (by rw [← hst]; exact hm)

theorem drain_inv (C : Crypto) (hO : OpenLen C) : ∀ (g : Nat) (d : Ss.ChunkDec) (b : Bytes), WFDec d → PosDec d →
    WFDec (Fr.drain (Ss.chunkUnit C) g d b).st ∧ PosDec (Fr.drain (Ss.chunkUnit C) g d b).st ∧
      (Fr.drain (Ss.chunkUnit C) g d b).buf.length ≤ b.length := by
  intro g
  induction g with
  | zero => intro d b hd hp; exact ⟨hd, hp, Nat.le_refl _⟩
  | succ g ih =>
    intro d b hd hp
    cases hu : Ss.chunkUnit C d b with
    | need => simp only [Fr.drain, hu]; exact ⟨hd, hp, Nat.le_refl _⟩
    | fail d' n =>
      have hw := chunkUnit_wf_fail C d d' b n hd hu
      simp only [Fr.drain, hu]
      exact ⟨hw, chunkUnit_fail_pos C d d' b n hp hu, by rw [List.length_drop]; omega⟩
    | take d' n o =>
      have hw := chunkUnit_wf_take C hO d d' b n o hd hu
      obtain ⟨_, _, h3⟩ := chunkUnit_take_pos C d d' b n o hp hu
      obtain ⟨i1, i2, i3⟩ := ih d' (b.drop n) hw h3
      simp only [Fr.drain, hu]
      exact ⟨i1, i2, by rw [List.length_drop] at i3; omega⟩

/-! ### the generated decoder across reads -/

/-- what has been observed of a generated decoder across reads: its value, the buffer, the plaintext released so far, ended -/
structure GOut where
  st : ChunkDecoder
  buf : Bytes
  out : Bytes
  failed : Bool

/-- one more read handed to the generated `decode_payload` (the buffer grows by the piece; a stream that failed stays failed,
as under `FramedRead`); a panic or a cut-off would end the stream (neither happens: `genFeed_eq`) -/
def genFeed (ov : Bool) (r : GOut) (piece : Bytes) : GOut :=
  if r.failed then ⟨r.st, r.buf ++ piece, r.out, true⟩ else
  match ChunkDecoder.decode_payload ov ((r.buf ++ piece).length + 1) r.st (r.buf ++ piece) [] with
  | .ok (some (s', buf', o, res)) => ⟨s', buf', r.out ++ o, decide (res = RResult.err)⟩
  | _ => ⟨r.st, r.buf ++ piece, r.out, true⟩

/-- the model's view of it -/
def embedOut (C : Crypto) (m : Fr.Out Ss.ChunkDec UInt8) : GOut := ⟨ofDec C m.st, m.buf, m.out, m.failed⟩

theorem genFeed_eq (ov : Bool) (C : Crypto) (hO : OpenLen C) (m : Fr.Out Ss.ChunkDec UInt8) (piece : Bytes) (hd : WFDec m.st)
    (hp : PosDec m.st) (hlen : (m.buf ++ piece).length < 2 ^ 64) :
    genFeed ov (embedOut C m) piece = embedOut C (Fr.feed (Ss.chunkUnit C) m piece) := by
  cases hf : m.failed with
  | true => simp [genFeed, embedOut, Fr.feed, hf]
  | false =>
    have h := decode_payload_eq ov C hO m.st (m.buf ++ piece) [] hd hp hlen ((m.buf ++ piece).length + 1) (by omega)
    simp only [genFeed, embedOut, Fr.feed, hf, h, Bool.false_eq_true, if_false, List.nil_append]
    cases (Fr.run (Ss.chunkUnit C) m.st (m.buf ++ piece)).failed <;> simp

theorem feed_inv (C : Crypto) (hO : OpenLen C) (m : Fr.Out Ss.ChunkDec UInt8) (piece : Bytes) (hd : WFDec m.st) (hp : PosDec m.st) :
    WFDec (Fr.feed (Ss.chunkUnit C) m piece).st ∧ PosDec (Fr.feed (Ss.chunkUnit C) m piece).st ∧
      (Fr.feed (Ss.chunkUnit C) m piece).buf.length ≤ m.buf.length + piece.length := by
  unfold Fr.feed
  split
  · exact ⟨hd, hp, by simp⟩
  · obtain ⟨i1, i2, i3⟩ := drain_inv C hO ((m.buf ++ piece).length + 1) m.st (m.buf ++ piece) hd hp
    exact ⟨i1, i2, Nat.le_trans i3 (by simp)⟩

/-- **lock step across reads**: folding the generated decoder over any pieces = the model's `Fr.feed` over them -/
theorem genFeed_fold (ov : Bool) (C : Crypto) (hO : OpenLen C) : ∀ (pieces : List Bytes) (m : Fr.Out Ss.ChunkDec UInt8),
    WFDec m.st → PosDec m.st → m.buf.length + pieces.flatten.length < 2 ^ 64 →
    pieces.foldl (genFeed ov) (embedOut C m) = embedOut C (pieces.foldl (Fr.feed (Ss.chunkUnit C)) m) := by
  intro pieces
  induction pieces with
  | nil => intro m _ _ _; rfl
  | cons p ps ih =>
    intro m hd hp hlen
    simp only [List.flatten_cons, List.length_append] at hlen
    obtain ⟨i1, i2, i3⟩ := feed_inv C hO m p hd hp
    rw [List.foldl_cons, genFeed_eq ov C hO m p hd hp (by simp only [List.length_append]; omega), List.foldl_cons,
      ih _ i1 i2 (by omega)]

end Octo.SsChunkGen
