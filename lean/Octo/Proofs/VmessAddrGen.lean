import Octo.Gen.VmessAddrGen
import Octo.Props.C14
import Octo.Props.C07Guards
/-!
  The generated code (`Octo.VmessAddrGen`, written by `translate_vmaddr.py` from `protocol/vmess.rs` (`mod address`),
  `protocol/address.rs`, `protocol/vmess/header.rs` and the server's `server/vmess.rs`) equals the hand-written models
  `Octo.VmessAddr` (`Octo/Model/Addr.lean`) and the length guard inside `Octo.Vmess.parseRequest` (`Octo/Model/Vmess.lean`).

  Part 1: big-endian bytes (`beNat`/`beBytes` of the generated support section vs `rdBE`/`be16` of the model).
  Part 2: the representation maps `toAddr` / `ofAddr` between the Rust-shaped `Address` and the model's `Addr`.
  Part 3: equational evaluation rules for `Flow` programs without loops.
  Part 4: `AddressType::new`, `Address::from`, `write_address_port`, `read_address_port` = the model, on every input.
  Part 5: `check_header_length` = the guard of the model's request parser; what its `Ok` implies for the parser's reads.

  (Parts 1–3 repeat, for the definitions of this generated file, what `Octo/Proofs/AddrGen.lean` proves for the support
  section of `Octo/Gen/AddrGen.lean`: the two generated files are independent of each other on purpose — either source may
  leave the translatable subset without taking the other one's proofs away.)
-/
set_option linter.unusedSimpArgs false
namespace Octo.VmessAddrGen
open Octo Octo.PWGen

/-! ## Part 1 — big-endian bytes -/

theorem beNat_eq_rdBE (b : List UInt8) : beNat b = rdBE b := rfl

theorem beNat_concat (b : List UInt8) (x : UInt8) : beNat (b ++ [x]) = beNat b * 256 + x.toNat := by
  simp [beNat, List.foldl_append]

theorem beBytes_length (n x : Nat) : (beBytes n x).length = n := by
  induction n generalizing x with
  | zero => rfl
  | succ n ih => simp [beBytes, ih]

theorem snoc_induction {α : Type} {P : List α → Prop} (nil : P []) (snoc : ∀ l a, P l → P (l ++ [a])) (l : List α) : P l := by
  generalize hn : l.length = n
  induction n generalizing l with
  | zero => rw [List.length_eq_zero_iff.mp hn]; exact nil
  | succ n ih =>
    have hne : l ≠ [] := by intro h; simp [h] at hn
    rw [← List.dropLast_concat_getLast hne]
    exact snoc _ _ (ih _ (by simp [hn]))

theorem beNat_lt (b : List UInt8) : beNat b < 256 ^ b.length := by
  induction b using snoc_induction with
  | nil => simp [beNat]
  | snoc l a ih =>
    have := a.toNat_lt
    rw [beNat_concat, List.length_append, List.length_singleton, Nat.pow_succ]
    omega

/-- the bytes written for the value read from `b` are `b` again -/
theorem beBytes_beNat (n : Nat) (b : List UInt8) (h : b.length = n) : beBytes n (beNat b) = b := by
  induction b using snoc_induction generalizing n with
  | nil => subst h; rfl
  | snoc l a ih =>
    have ha := a.toNat_lt
    subst h
    rw [List.length_append, List.length_singleton, beBytes, beNat_concat]
    have e1 : (beNat l * 256 + a.toNat) / 256 = beNat l := by omega
    have e2 : (beNat l * 256 + a.toNat) % 256 = a.toNat := by omega
    rw [e1, e2, ih _ rfl, UInt8.ofNat_toNat]

/-- the value read from the `n` bytes written for `x` is `x` (mod `256^n`) -/
theorem beNat_beBytes (n x : Nat) : beNat (beBytes n x) = x % 256 ^ n := by
  induction n generalizing x with
  | zero => simp [beBytes, beNat, Nat.mod_one]
  | succ n ih =>
    rw [beBytes, beNat_concat, ih, Nat.pow_succ, Nat.mul_comm (256 ^ n) 256, Nat.mod_mul]
    simp only [UInt8.toNat_ofNat']
    omega

/-! ## Part 2 — representation -/

/-- the model's view of a Rust `Address` (`flowinfo`/`scope_id` of an IPv6 socket address are not part of it) -/
def toAddr : Address → Addr
  | .Domain h p => .domain h.bytes p.toNat
  | .Socket (.V4 a) => .v4 a.ip.octets a.port.toNat
  | .Socket (.V6 a) => .v6 a.ip.octets a.port.toNat

/-- the Rust `Address` of a well-formed model address (`flowinfo = scope_id = 0`, as `read_address_port` builds it) -/
def ofAddr : Addr → Address
  | .domain h p => .Domain ⟨h⟩ (UInt16.ofNat p)
  | .v4 ip p => .Socket (.V4 ⟨⟨UInt32.ofNat (beNat ip)⟩, UInt16.ofNat p⟩)
  | .v6 ip p => .Socket (.V6 ⟨⟨BitVec.ofNat 128 (beNat ip)⟩, UInt16.ofNat p, 0, 0⟩)

/-- `x` with `flowinfo`/`scope_id` cleared: what `read_address_port` can return at all -/
def normalize : Address → Address
  | .Socket (.V6 a) => .Socket (.V6 ⟨a.ip, a.port, 0, 0⟩)
  | x => x

theorem toAddr_wf (x : Address) : (toAddr x).WF := by
  match x with
  | .Domain h p => exact p.toNat_lt
  | .Socket (.V4 a) => exact ⟨beBytes_length _ _, a.port.toNat_lt⟩
  | .Socket (.V6 a) => exact ⟨beBytes_length _ _, a.port.toNat_lt⟩

theorem toAddr_ofAddr (a : Addr) (h : a.WF) : toAddr (ofAddr a) = a := by
  cases a with
  | domain host p =>
    have h' : p < 65536 := h
    simp [toAddr, ofAddr, UInt16.toNat_ofNat_of_lt' h']
  | v4 ip p =>
    obtain ⟨h1, h2⟩ := h
    have hb := beNat_lt ip
    rw [h1] at hb
    simp only [toAddr, ofAddr, Ipv4Addr.octets]
    rw [UInt32.toNat_ofNat_of_lt' (by omega), beBytes_beNat 4 ip h1, UInt16.toNat_ofNat_of_lt' (by omega)]
  | v6 ip p =>
    obtain ⟨h1, h2⟩ := h
    have hb := beNat_lt ip
    rw [h1] at hb
    simp only [toAddr, ofAddr, Ipv6Addr.octets]
    rw [BitVec.toNat_ofNat, Nat.mod_eq_of_lt (by omega), beBytes_beNat 16 ip h1, UInt16.toNat_ofNat_of_lt' (by omega)]

theorem ofAddr_toAddr (x : Address) : ofAddr (toAddr x) = normalize x := by
  match x with
  | .Domain h p => simp [toAddr, ofAddr, normalize]
  | .Socket (.V4 a) =>
    obtain ⟨⟨bits⟩, port⟩ := a
    have := bits.toNat_lt
    simp only [toAddr, ofAddr, normalize, Ipv4Addr.octets, beNat_beBytes]
    rw [Nat.mod_eq_of_lt (by omega)]
    simp
  | .Socket (.V6 a) =>
    obtain ⟨⟨bits⟩, port, fl, sc⟩ := a
    have := bits.isLt
    simp only [toAddr, ofAddr, normalize, Ipv6Addr.octets, beNat_beBytes]
    rw [Nat.mod_eq_of_lt (by omega)]
    simp

theorem normalize_ofAddr (a : Addr) : normalize (ofAddr a) = ofAddr a := by
  cases a <;> rfl

/-! ## Part 3 — evaluation rules -/
section eval
variable {α β ρ : Type}
theorem bind_next (a : α) (k : α → Flow β ρ) : (Flow.next a : Flow α ρ).bind k = k a := rfl
theorem bind_ret (r : ρ) (k : α → Flow β ρ) : (Flow.ret r : Flow α ρ).bind k = Flow.ret r := rfl
theorem bind_panic (k : α → Flow β ρ) : (Flow.panic : Flow α ρ).bind k = Flow.panic := rfl
theorem bind_ite (c : Prop) [Decidable c] (x y : Flow α ρ) (k : α → Flow β ρ) :
    (if c then x else y).bind k = if c then x.bind k else y.bind k := by split <;> rfl
theorem run_ite (c : Prop) [Decidable c] (x y : Flow Empty ρ) :
    Flow.run (if c then x else y) = if c then Flow.run x else Flow.run y := by split <;> rfl
theorem run_ret (r : ρ) : Flow.run (Flow.ret r : Flow Empty ρ) = PWGen.Res.ok r := rfl
theorem run_panic' : Flow.run (Flow.panic : Flow Empty ρ) = PWGen.Res.panic := rfl
/-- an arithmetic check that cannot fail -/
theorem arith_true (ov : Bool) : (Flow.arith ov true : Flow Unit ρ) = Flow.next () := by
  cases ov <;> rfl
theorem arith_release (c : Bool) : (Flow.arith false c : Flow Unit ρ) = Flow.next () := rfl
theorem arith_debug_false : (Flow.arith true false : Flow Unit ρ) = Flow.panic := rfl
theorem call_ok (v : α) : (Flow.call (PWGen.Res.ok v) : Flow α ρ) = Flow.next v := rfl
theorem call_panic : (Flow.call (PWGen.Res.panic : PWGen.Res α) : Flow α ρ) = Flow.panic := rfl
theorem question_ok (v : α) (e : ρ) : (Flow.question (RResult.ok v) e : Flow α ρ) = Flow.next v := rfl
theorem question_err (e : ρ) : (Flow.question (RResult.err : RResult α) e : Flow α ρ) = Flow.ret e := rfl
end eval

theorem u8_as_usize_toNat (v : UInt8) : (U8.as_usize v).toNat = v.toNat := by
  have := v.toNat_lt
  rw [U8.as_usize, UInt64.toNat_ofNat_of_lt' (Nat.lt_trans this (by decide))]

theorem usize_as_u8 (n : Nat) : Usize.as_u8 (UInt64.ofNat n) = u8 n := by
  rw [Usize.as_u8, u8, UInt64.toNat_ofNat']
  apply UInt8.toNat_inj.mp
  simp only [UInt8.toNat_ofNat']
  omega

theorem beBytes_two (p : UInt16) : beBytes 2 p.toNat = be16 p.toNat := by
  simp only [beBytes, be16, u8, List.nil_append, List.cons_append]

section reads
variable {ρ : Type}
theorem get_u16_ok (r : List UInt8) (h : 2 ≤ r.length) :
    (Flow.get_u16 r : Flow _ ρ) = .next (r.drop 2, UInt16.ofNat (beNat (r.take 2))) := by simp [Flow.get_u16, h]
theorem get_u16_short (r : List UInt8) (h : r.length < 2) : (Flow.get_u16 r : Flow _ ρ) = .panic := by
  simp [Flow.get_u16, Nat.not_le.mpr h]
theorem get_u32_ok (r : List UInt8) (h : 4 ≤ r.length) :
    (Flow.get_u32 r : Flow _ ρ) = .next (r.drop 4, UInt32.ofNat (beNat (r.take 4))) := by simp [Flow.get_u32, h]
theorem get_u32_short (r : List UInt8) (h : r.length < 4) : (Flow.get_u32 r : Flow _ ρ) = .panic := by
  simp [Flow.get_u32, Nat.not_le.mpr h]
theorem get_u128_ok (r : List UInt8) (h : 16 ≤ r.length) :
    (Flow.get_u128 r : Flow _ ρ) = .next (r.drop 16, BitVec.ofNat 128 (beNat (r.take 16))) := by simp [Flow.get_u128, h]
theorem get_u128_short (r : List UInt8) (h : r.length < 16) : (Flow.get_u128 r : Flow _ ρ) = .panic := by
  simp [Flow.get_u128, Nat.not_le.mpr h]
theorem copy_to_bytes_ok (r : List UInt8) (n : Usize) (h : n.toNat ≤ r.length) :
    (Flow.copy_to_bytes r n : Flow _ ρ) = .next (r.drop n.toNat, r.take n.toNat) := by simp [Flow.copy_to_bytes, h]
theorem copy_to_bytes_short (r : List UInt8) (n : Usize) (h : r.length < n.toNat) :
    (Flow.copy_to_bytes r n : Flow _ ρ) = .panic := by simp [Flow.copy_to_bytes, Nat.not_le.mpr h]
theorem split_to_ok (r : List UInt8) (n : Usize) (h : n.toNat ≤ r.length) :
    (Flow.split_to r n : Flow _ ρ) = .next (r.drop n.toNat, r.take n.toNat) := by simp [Flow.split_to, h]
theorem split_to_short (r : List UInt8) (n : Usize) (h : r.length < n.toNat) :
    (Flow.split_to r n : Flow _ ρ) = .panic := by simp [Flow.split_to, Nat.not_le.mpr h]
theorem get_u8_cons (x : UInt8) (r : List UInt8) : (Flow.get_u8 (x :: r) : Flow _ ρ) = .next (r, x) := rfl
theorem get_u8_nil : (Flow.get_u8 [] : Flow _ ρ) = .panic := rfl
theorem byteAt_getD (b : List UInt8) (i : Usize) (h : i.toNat < b.length) :
    (Flow.byteAt b i : Flow UInt8 ρ) = Flow.next (b.getD i.toNat 0) := by
  simp [Flow.byteAt, List.getD_eq_getElem?_getD, List.getElem?_eq_getElem h]
end reads

theorem octets_from_u32 (l : List UInt8) (h : l.length = 4) :
    Ipv4Addr.octets ⟨UInt32.ofNat (beNat l)⟩ = l := by
  have hb := beNat_lt l
  rw [h] at hb
  rw [Ipv4Addr.octets, UInt32.toNat_ofNat_of_lt' (show _ < 4294967296 by omega), beBytes_beNat 4 l h]

theorem octets_from_u128 (l : List UInt8) (h : l.length = 16) :
    Ipv6Addr.octets ⟨BitVec.ofNat 128 (beNat l)⟩ = l := by
  have hb := beNat_lt l
  rw [h] at hb
  rw [Ipv6Addr.octets, BitVec.toNat_ofNat, Nat.mod_eq_of_lt (by omega), beBytes_beNat 16 l h]

theorem port_toNat (l : List UInt8) (h : l.length = 2) : (UInt16.ofNat (beNat l)).toNat = rdBE l := by
  have hb := beNat_lt l
  rw [h] at hb
  rw [UInt16.toNat_ofNat_of_lt' (show _ < 65536 by omega), beNat_eq_rdBE]

/-! ## Part 4 — the address codec -/

/-! ### `AddressType::new`, `Address::from` -/

theorem new_1 (ov : Bool) : AddressType_new ov 1 = PWGen.Res.ok .Ipv4 := by cases ov <;> rfl
theorem new_2 (ov : Bool) : AddressType_new ov 2 = PWGen.Res.ok .Domain := by cases ov <;> rfl
theorem new_3 (ov : Bool) : AddressType_new ov 3 = PWGen.Res.ok .Ipv6 := by cases ov <;> rfl
/-- **`AddressType::new` panics on every byte other than 1, 2, 3** -/
theorem new_other (ov : Bool) (t : UInt8) (h1 : t ≠ 1) (h2 : t ≠ 2) (h3 : t ≠ 3) : AddressType_new ov t = PWGen.Res.panic := by
  simp [AddressType_new, AddressType.as_u8, h1, h2, h3, Ne.symm h1, Ne.symm h2, Ne.symm h3, run_panic']

/-- `AddressType::new` inverts `as u8` (the discriminants 1, 2, 3 are distinct) -/
theorem new_as_u8 (ov : Bool) (t : AddressType) : AddressType_new ov (AddressType.as_u8 t) = PWGen.Res.ok t := by
  cases t <;> cases ov <;> rfl

theorem from_eq (ov : Bool) (a : SocketAddr) : Address_from ov a = PWGen.Res.ok (Address.Socket a) := rfl

/-! ### `write_address_port` -/

/-- a model-level result of the writer, read as a result of the generated function called with buffer content `buf` -/
def liftWrite (buf : List UInt8) : Octo.Res Bytes → PWGen.Res (Cursor × RResult Unit)
  | .ok w => .ok (buf ++ w, .ok ())
  | .err => .ok (buf, .err)
  | .more => .panic
  | .panic => .panic

/-- **`write_address_port`** (both profiles, every address, every buffer content) = the model's `write`: it appends exactly
the model's bytes and returns `Ok(())`, or panics exactly when the model does (an empty domain name) -/
theorem write_eq (ov : Bool) (x : Address) (buf : List UInt8) :
    write_address_port ov x buf = liftWrite buf (VmessAddr.write (toAddr x)) := by
  match x with
  | .Domain ⟨h⟩ p =>
    cases h with
    | nil => simp [write_address_port, RString.is_empty, bind_panic, run_panic', toAddr, VmessAddr.write, liftWrite]
    | cons c r =>
      simp only [write_address_port, RString.is_empty, List.isEmpty_cons, Bool.false_eq_true, if_false, bind_next, run_ret, toAddr,
        VmessAddr.write, liftWrite, Cursor.put_u8, Cursor.extend_from_slice, Cursor.put_slice, Cursor.put_u16, Cursor.len,
        AddressType.as_u8, RString.as_bytes, usize_as_u8, beBytes_two, List.append_assoc, List.cons_append, List.nil_append,
        List.length_cons, Nat.succ_ne_zero, Nat.add_one_ne_zero]
  | .Socket (.V4 a) =>
    simp only [write_address_port, bind_next, run_ret, toAddr, VmessAddr.write, liftWrite, Cursor.put_u8, Cursor.extend_from_slice,
      Cursor.put_slice, Cursor.put_u16, AddressType.as_u8, beBytes_two, List.append_assoc, List.cons_append, List.nil_append]
  | .Socket (.V6 a) =>
    simp only [write_address_port, bind_next, run_ret, toAddr, VmessAddr.write, liftWrite, Cursor.put_u8, Cursor.extend_from_slice,
      Cursor.put_slice, Cursor.put_u16, AddressType.as_u8, beBytes_two, List.append_assoc, List.cons_append, List.nil_append]

/-- the writer never returns `Err` (its `Result<(), io::Error>` is always `Ok(())`) -/
theorem write_never_err (ov : Bool) (x : Address) (buf b : List UInt8) : write_address_port ov x buf ≠ PWGen.Res.ok (b, RResult.err) := by
  rw [write_eq]
  match x with
  | .Domain ⟨h⟩ p => cases h <;> simp [toAddr, VmessAddr.write, liftWrite]
  | .Socket (.V4 a) => simp [toAddr, VmessAddr.write, liftWrite]
  | .Socket (.V6 a) => simp [toAddr, VmessAddr.write, liftWrite]

/-- the writer panics exactly on an empty domain name -/
theorem write_panic_iff (ov : Bool) (x : Address) (buf : List UInt8) :
    write_address_port ov x buf = PWGen.Res.panic ↔ ∃ p, x = Address.Domain ⟨[]⟩ p := by
  rw [write_eq]
  match x with
  | .Domain ⟨h⟩ p => cases h <;> simp [toAddr, VmessAddr.write, liftWrite]
  | .Socket (.V4 a) => simp [toAddr, VmessAddr.write, liftWrite]
  | .Socket (.V6 a) => simp [toAddr, VmessAddr.write, liftWrite]

/-! ### `read_address_port` -/

/-- the model's reading of a result of the generated `read_address_port` -/
def embedRead : PWGen.Res (Cursor × RResult Address) → Octo.Res (Addr × Bytes)
  | .ok (b, .ok a) => .ok (toAddr a, b)
  | .ok (_, .err) => .err
  | .panic => .panic

/-! the generated reader, case by case: the exact result on every input (no bound on the length needed: the reader never
asks for `remaining()`) -/

theorem read_short_eval (ov : Bool) (u : List UInt8 → Bool) (b : List UInt8) (h : b.length < 2) :
    read_address_port ov u b = PWGen.Res.panic := by
  simp [read_address_port, get_u16_short b h, bind_panic, run_panic']

theorem read_two_eval (ov : Bool) (u : List UInt8 → Bool) (p0 p1 : UInt8) :
    read_address_port ov u [p0, p1] = PWGen.Res.panic := by
  simp [read_address_port, get_u16_ok, bind_next, get_u8_nil, bind_panic, run_panic']

theorem read_other_eval (ov : Bool) (u : List UInt8 → Bool) (p0 p1 t : UInt8) (r : List UInt8)
    (h1 : t ≠ 1) (h2 : t ≠ 2) (h3 : t ≠ 3) : read_address_port ov u (p0 :: p1 :: t :: r) = PWGen.Res.panic := by
  simp [read_address_port, get_u16_ok, bind_next, get_u8_cons, new_other ov t h1 h2 h3, call_panic, bind_panic, run_panic']

theorem read_v4_eval (ov : Bool) (u : List UInt8 → Bool) (p0 p1 : UInt8) (r : List UInt8) :
    read_address_port ov u (p0 :: p1 :: 1 :: r) =
      if r.length < 4 then PWGen.Res.panic
      else PWGen.Res.ok (r.drop 4, RResult.ok (Address.Socket (SocketAddr.V4
        ⟨⟨UInt32.ofNat (beNat (r.take 4))⟩, UInt16.ofNat (beNat [p0, p1])⟩))) := by
  by_cases hl : r.length < 4
  · simp [read_address_port, get_u16_ok, bind_next, get_u8_cons, new_1, call_ok, get_u32_short r hl, bind_panic, run_panic', hl]
  · simp [read_address_port, get_u16_ok, bind_next, get_u8_cons, new_1, call_ok, get_u32_ok r (by omega), from_eq, run_ret, hl,
      SocketAddrV4.new, Ipv4Addr.from_u32]

theorem read_v6_eval (ov : Bool) (u : List UInt8 → Bool) (p0 p1 : UInt8) (r : List UInt8) :
    read_address_port ov u (p0 :: p1 :: 3 :: r) =
      if r.length < 16 then PWGen.Res.panic
      else PWGen.Res.ok (r.drop 16, RResult.ok (Address.Socket (SocketAddr.V6
        ⟨⟨BitVec.ofNat 128 (beNat (r.take 16))⟩, UInt16.ofNat (beNat [p0, p1]), 0, 0⟩))) := by
  by_cases hl : r.length < 16
  · simp [read_address_port, get_u16_ok, bind_next, get_u8_cons, new_3, call_ok, get_u128_short r hl, bind_panic, run_panic', hl]
  · simp [read_address_port, get_u16_ok, bind_next, get_u8_cons, new_3, call_ok, get_u128_ok r (by omega), from_eq, run_ret, hl,
      SocketAddrV6.new, Ipv6Addr.from_u128]

theorem read_domain_nil_eval (ov : Bool) (u : List UInt8 → Bool) (p0 p1 : UInt8) :
    read_address_port ov u [p0, p1, 2] = PWGen.Res.panic := by
  simp [read_address_port, get_u16_ok, bind_next, get_u8_cons, new_2, call_ok, get_u8_nil, bind_panic, run_panic']

theorem read_domain_eval (ov : Bool) (u : List UInt8 → Bool) (p0 p1 l : UInt8) (r : List UInt8) :
    read_address_port ov u (p0 :: p1 :: 2 :: l :: r) =
      if r.length < l.toNat then PWGen.Res.panic
      else if u (r.take l.toNat) then
        PWGen.Res.ok (r.drop l.toNat, RResult.ok (Address.Domain ⟨r.take l.toNat⟩ (UInt16.ofNat (beNat [p0, p1]))))
      else PWGen.Res.ok (r.drop l.toNat, RResult.err) := by
  have el := u8_as_usize_toNat l
  by_cases hl : r.length < l.toNat
  · simp [read_address_port, get_u16_ok, bind_next, get_u8_cons, new_2, call_ok, copy_to_bytes_short r _ (by rw [el]; exact hl), split_to_short r _ (by rw [el]; exact hl),
      bind_panic, run_panic', hl]
  · by_cases hu : u (r.take l.toNat) = true
    · simp [read_address_port, get_u16_ok, bind_next, get_u8_cons, new_2, call_ok, copy_to_bytes_ok r _ (by rw [el]; omega), split_to_ok r _ (by rw [el]; omega), el,
        RString.from_utf8, Cursor.to_vec, hu, question_ok, run_ret, hl]
    · simp [read_address_port, get_u16_ok, bind_next, get_u8_cons, new_2, call_ok, copy_to_bytes_ok r _ (by rw [el]; omega), split_to_ok r _ (by rw [el]; omega), el,
        RString.from_utf8, Cursor.to_vec, hu, question_err, bind_ret, run_ret, hl]

/-! the model's reader, case by case -/

theorem buf_getU16_cons2 (p0 p1 : UInt8) (r : Bytes) : Buf.getU16 (p0 :: p1 :: r) = .ok (rdBE [p0, p1], r) := by
  unfold Buf.getU16 Buf.getBE
  rw [if_neg (by simp only [List.length_cons]; omega)]
  rfl

theorem model_read_short (u : Bytes → Bool) (b : Bytes) (h : b.length < 2) : VmessAddr.read u b = .panic := by
  have : Buf.getU16 b = .panic := by unfold Buf.getU16 Buf.getBE; rw [if_pos h]
  simp only [VmessAddr.read, this, Res.bind_panic]

theorem model_read_two (u : Bytes → Bool) (p0 p1 : UInt8) : VmessAddr.read u [p0, p1] = .panic := by
  simp only [VmessAddr.read, buf_getU16_cons2, Res.bind_ok, Buf.getU8, Res.bind_panic]

theorem model_read_other (u : Bytes → Bool) (p0 p1 t : UInt8) (r : Bytes) (h1 : t ≠ 1) (h2 : t ≠ 2) (h3 : t ≠ 3) :
    VmessAddr.read u (p0 :: p1 :: t :: r) = .panic := by
  simp only [VmessAddr.read, buf_getU16_cons2, Res.bind_ok, Buf.getU8_cons, h1, h2, h3, if_false]

theorem model_read_v4 (u : Bytes → Bool) (p0 p1 : UInt8) (r : Bytes) : VmessAddr.read u (p0 :: p1 :: 1 :: r) =
    if r.length < 4 then .panic else .ok (.v4 (r.take 4) (rdBE [p0, p1]), r.drop 4) := by
  by_cases hl : r.length < 4 <;>
    simp [VmessAddr.read, buf_getU16_cons2, Res.bind_ok, Buf.getU8_cons, Buf.take, hl]

theorem model_read_v6 (u : Bytes → Bool) (p0 p1 : UInt8) (r : Bytes) : VmessAddr.read u (p0 :: p1 :: 3 :: r) =
    if r.length < 16 then .panic else .ok (.v6 (r.take 16) (rdBE [p0, p1]), r.drop 16) := by
  by_cases hl : r.length < 16 <;>
    simp [VmessAddr.read, buf_getU16_cons2, Res.bind_ok, Buf.getU8_cons, Buf.take, hl]

theorem model_read_domain_nil (u : Bytes → Bool) (p0 p1 : UInt8) : VmessAddr.read u [p0, p1, 2] = .panic := by
  simp [VmessAddr.read, buf_getU16_cons2, Res.bind_ok, Buf.getU8_cons, Buf.getU8]

theorem model_read_domain (u : Bytes → Bool) (p0 p1 l : UInt8) (r : Bytes) : VmessAddr.read u (p0 :: p1 :: 2 :: l :: r) =
    if r.length < l.toNat then .panic
    else if u (r.take l.toNat) then .ok (.domain (r.take l.toNat) (rdBE [p0, p1]), r.drop l.toNat) else .err := by
  by_cases hl : r.length < l.toNat
  · simp [VmessAddr.read, buf_getU16_cons2, Res.bind_ok, Buf.getU8_cons, Buf.take, hl]
  · by_cases hu : u (r.take l.toNat) = true <;>
      simp [VmessAddr.read, buf_getU16_cons2, Res.bind_ok, Buf.getU8_cons, Buf.take, hl, hu]

/-- **`read_address_port`** = the model's `read`, in both profiles, on every buffer content whatsoever (no bound on its
length): same outcome class — in particular the same panics: a buffer shorter than its own fields, a type byte other than
1, 2, 3 — same address, same unread rest; `Err` exactly for a name that is not UTF-8 -/
theorem read_eq (ov : Bool) (u : List UInt8 → Bool) (b : List UInt8) :
    embedRead (read_address_port ov u b) = VmessAddr.read u b := by
  match b with
  | [] => rw [read_short_eval ov u [] (by decide), model_read_short u [] (by decide)]; rfl
  | [p0] => rw [read_short_eval ov u [p0] (by simp), model_read_short u [p0] (by simp)]; rfl
  | [p0, p1] => rw [read_two_eval, model_read_two]; rfl
  | p0 :: p1 :: t :: r =>
    have hp : (UInt16.ofNat (beNat [p0, p1])).toNat = rdBE [p0, p1] := port_toNat _ rfl
    by_cases h1 : t = 1
    · subst h1
      rw [read_v4_eval, model_read_v4]
      split
      · rfl
      · rename_i hl
        simp only [embedRead, toAddr, hp]
        rw [octets_from_u32 _ (by rw [List.length_take]; omega)]
    by_cases h3 : t = 3
    · subst h3
      rw [read_v6_eval, model_read_v6]
      split
      · rfl
      · rename_i hl
        simp only [embedRead, toAddr, hp]
        rw [octets_from_u128 _ (by rw [List.length_take]; omega)]
    by_cases h2 : t = 2
    · subst h2
      match r with
      | [] => rw [read_domain_nil_eval, model_read_domain_nil]; rfl
      | l :: r =>
        rw [read_domain_eval, model_read_domain]
        split
        · rfl
        · split
          · simp only [embedRead, toAddr, hp]
          · rfl
    rw [read_other_eval ov u p0 p1 t r h1 h2 h3, model_read_other u p0 p1 t r h1 h2 h3]; rfl

theorem embedRead_panic (r : PWGen.Res (Cursor × RResult Address)) : embedRead r = .panic ↔ r = PWGen.Res.panic := by
  match r with
  | .ok (b, .ok a) => simp [embedRead]
  | .ok (b, .err) => simp [embedRead]
  | .panic => simp [embedRead]

/-- what `read_address_port` returns is always in normal form (`flowinfo = scope_id = 0`) -/
theorem read_normal (ov : Bool) (u : List UInt8 → Bool) (b r : List UInt8) (x : Address)
    (h : read_address_port ov u b = PWGen.Res.ok (r, RResult.ok x)) : normalize x = x := by
  match b with
  | [] => rw [read_short_eval ov u [] (by decide)] at h; simp at h
  | [p0] => rw [read_short_eval ov u [p0] (by simp)] at h; simp at h
  | [p0, p1] => rw [read_two_eval] at h; simp at h
  | p0 :: p1 :: t :: b =>
    by_cases h1 : t = 1
    · subst h1; rw [read_v4_eval] at h; split at h <;> simp at h; rw [← h.2]; rfl
    by_cases h3 : t = 3
    · subst h3; rw [read_v6_eval] at h; split at h <;> simp at h; rw [← h.2]; rfl
    by_cases h2 : t = 2
    · subst h2
      match b with
      | [] => rw [read_domain_nil_eval] at h; simp at h
      | l :: b =>
        rw [read_domain_eval] at h
        split at h
        · simp at h
        · split at h <;> simp at h
          rw [← h.2]; rfl
    rw [read_other_eval ov u p0 p1 t b h1 h2 h3] at h; simp at h

/-- on `Err` (a name that is not UTF-8) the cursor has consumed the whole address field: port, type, length byte, name -/
theorem read_err_rest (ov : Bool) (u : List UInt8 → Bool) (b r : List UInt8)
    (h : read_address_port ov u b = PWGen.Res.ok (r, RResult.err)) :
    ∃ l, b.getD 3 0 = l ∧ r = b.drop (4 + l.toNat) ∧ b.getD 2 0 = 2 ∧ u ((b.drop 4).take l.toNat) = false := by
  match b with
  | [] => rw [read_short_eval ov u [] (by decide)] at h; simp at h
  | [p0] => rw [read_short_eval ov u [p0] (by simp)] at h; simp at h
  | [p0, p1] => rw [read_two_eval] at h; simp at h
  | p0 :: p1 :: t :: b =>
    by_cases h1 : t = 1
    · subst h1; rw [read_v4_eval] at h; split at h <;> simp at h
    by_cases h3 : t = 3
    · subst h3; rw [read_v6_eval] at h; split at h <;> simp at h
    by_cases h2 : t = 2
    · subst h2
      match b with
      | [] => rw [read_domain_nil_eval] at h; simp at h
      | l :: b =>
        rw [read_domain_eval] at h
        split at h
        · simp at h
        · split at h
          · simp at h
          · rename_i hu
            simp at h
            refine ⟨l, rfl, ?_, rfl, by simpa using hu⟩
            rw [← h, show 4 + l.toNat = l.toNat + 1 + 1 + 1 + 1 by omega]; rfl
    rw [read_other_eval ov u p0 p1 t b h1 h2 h3] at h; simp at h

/-- the reader panics exactly when the buffer is shorter than its own fields say or the type byte is none of 1, 2, 3 — the
precondition `check_header_length` establishes for its one caller -/
theorem read_panic_iff (ov : Bool) (u : List UInt8 → Bool) (b : List UInt8) :
    read_address_port ov u b = PWGen.Res.panic ↔
      (b.length < 3 ∨ (b.getD 2 0 ≠ 1 ∧ b.getD 2 0 ≠ 2 ∧ b.getD 2 0 ≠ 3) ∨ (b.getD 2 0 = 1 ∧ b.length < 3 + 4) ∨
        (b.getD 2 0 = 2 ∧ (b.length < 4 ∨ b.length < 4 + (b.getD 3 0).toNat)) ∨ (b.getD 2 0 = 3 ∧ b.length < 3 + 16)) := by
  match b with
  | [] => rw [read_short_eval ov u [] (by decide)]; simp
  | [p0] => rw [read_short_eval ov u [p0] (by simp)]; simp
  | [p0, p1] => rw [read_two_eval]; simp
  | p0 :: p1 :: t :: r =>
    simp only [List.getD_cons_succ, List.getD_cons_zero, List.length_cons]
    by_cases h1 : t = 1
    · subst h1; rw [read_v4_eval]; split <;> simp <;> omega
    by_cases h3 : t = 3
    · subst h3; rw [read_v6_eval]; split <;> simp <;> omega
    by_cases h2 : t = 2
    · subst h2
      match r with
      | [] => rw [read_domain_nil_eval]; simp
      | l :: r =>
        rw [read_domain_eval]
        simp only [List.getD_cons_zero, List.length_cons]
        split
        · simp; omega
        · split <;> simp <;> omega
    rw [read_other_eval ov u p0 p1 t r h1 h2 h3]; simp [h1, h2, h3]

/-! ## Part 5 — `check_header_length` -/

/-- the exact result of the generated `check_header_length` in terms of `L` = `header.len()` *as a `usize`* and of bytes 35, 40,
41 of the header; no branch of it is a panic -/
def checkSpec (L : Nat) (h : List UInt8) : PWGen.Res (RResult Unit) :=
  if L < 41 then .ok .err else
  if h.getD 40 0 = 1 then (if L < 41 + 4 + (h.getD 35 0).toNat / 16 + 4 then .ok .err else .ok (.ok ()))
  else if h.getD 40 0 = 2 then
    (if 41 < L then (if L < 41 + (1 + (h.getD 41 0).toNat) + (h.getD 35 0).toNat / 16 + 4 then .ok .err else .ok (.ok ()))
     else .ok .err)
  else if h.getD 40 0 = 3 then (if L < 41 + 16 + (h.getD 35 0).toNat / 16 + 4 then .ok .err else .ok (.ok ()))
  else .ok .err

theorem pad_toNat (x : UInt8) : (U8.as_usize (x >>> 4)).toNat = x.toNat / 16 := by
  rw [u8_as_usize_toNat, UInt8.toNat_shiftRight]
  show x.toNat >>> 4 = _
  rw [Nat.shiftRight_eq_div_pow]

theorem tail_facts (k pad : UInt64) (hk : k.toNat ≤ 41 + 256) (hpad : pad.toNat ≤ 15) :
    U64.addOk k pad = true ∧ U64.addOk (k + pad) 4 = true ∧ (k + pad + 4).toNat = k.toNat + pad.toNat + 4 := by
  have e1 : (k + pad).toNat = k.toNat + pad.toNat := by rw [UInt64.toNat_add]; omega
  have e4 : (4 : UInt64).toNat = 4 := rfl
  refine ⟨by simp [U64.addOk]; omega, by simp [U64.addOk, e1]; omega, ?_⟩
  rw [UInt64.toNat_add, e1, e4]; omega

/-- **the generated `check_header_length`, evaluated**: on every byte string whatsoever (no bound on its length) and in both
profiles it is `checkSpec` of the length reduced to a `usize`; the indexing `header[35]`, `header[FIXED - 1]`, `header[FIXED]`
is in bounds wherever it is reached and none of the additions overflows -/
theorem check_eval (ov : Bool) (h : List UInt8) : check_header_length ov h = checkSpec (h.length % 2 ^ 64) h := by
  have hL : (Cursor.len h).toNat = h.length % 2 ^ 64 := UInt64.toNat_ofNat'
  have hle := Nat.mod_le h.length (2 ^ 64)
  have hlt : h.length % 2 ^ 64 < 2 ^ 64 := Nat.mod_lt _ (by decide)
  generalize h.length % 2 ^ 64 = L at *
  have e41 : (41 : UInt64).toNat = 41 := rfl
  simp only [check_header_length, checkSpec, UInt64.reduceAdd, UInt64.reduceSub]
  by_cases h41 : L < 41
  · have c : Cursor.len h < 41 := by rw [UInt64.lt_iff_toNat_lt, hL]; exact h41
    simp only [c, h41, decide_true, if_true, bind_ret, run_ret]
  · have c : ¬ Cursor.len h < 41 := by rw [UInt64.lt_iff_toNat_lt, hL]; exact h41
    have b35 : ∀ ρ, (Flow.byteAt h 35 : Flow UInt8 ρ) = Flow.next (h.getD 35 0) := fun ρ => byteAt_getD h 35 (by show 35 < _; omega)
    have b40 : ∀ ρ, (Flow.byteAt h 40 : Flow UInt8 ρ) = Flow.next (h.getD 40 0) := fun ρ => byteAt_getD h 40 (by show 40 < _; omega)
    have b41 : 41 < L → ∀ ρ, (Flow.byteAt h 41 : Flow UInt8 ρ) = Flow.next (h.getD 41 0) :=
      fun hgt ρ => byteAt_getD h 41 (by show 41 < _; omega)
    have hp := pad_toNat (h.getD 35 0)
    have hp15 : (U8.as_usize (h.getD 35 0 >>> 4)).toNat ≤ 15 := by have := (h.getD 35 0).toNat_lt; omega
    simp only [c, h41, decide_false, Bool.false_eq_true, if_false, bind_next, b35, b40, U64.subOk, arith_true, UInt64.reduceToNat,
      Nat.reduceLeDiff, decide_true]
    generalize U8.as_usize (h.getD 35 0 >>> 4) = pad at *
    generalize h.getD 35 0 = x35 at *
    generalize h.getD 40 0 = t at *
    have e4 : (4 : UInt64).toNat = 4 := rfl
    by_cases t1 : t = 1
    · obtain ⟨f1, f2, f3⟩ := tail_facts 45 pad (by decide) hp15
      have e45 : (45 : UInt64).toNat = 45 := rfl
      have f0 : U64.addOk 41 4 = true := by decide
      subst t1
      simp (config := { decide := true }) only [beq_self_eq_true, if_true, if_false, bind_next, bind_ite, bind_ret, run_ite, run_ret,
        UInt64.lt_iff_toNat_lt, hL, f0, f1, f2, f3, e45, hp, arith_true, UInt64.reduceAdd, decide_eq_true_eq]
    by_cases t3 : t = 3
    · obtain ⟨f1, f2, f3⟩ := tail_facts 57 pad (by decide) hp15
      have e57 : (57 : UInt64).toNat = 57 := rfl
      have f0 : U64.addOk 41 16 = true := by decide
      subst t3
      simp (config := { decide := true }) only [beq_self_eq_true, if_true, if_false, bind_next, bind_ite, bind_ret, run_ite, run_ret,
        UInt64.lt_iff_toNat_lt, hL, f0, f1, f2, f3, e57, hp, arith_true, UInt64.reduceAdd, decide_eq_true_eq]
    by_cases t2 : t = 2
    · subst t2
      by_cases hgt : 41 < L
      · have b41' := b41 hgt
        have el := u8_as_usize_toNat (h.getD 41 0)
        have hl8 := (h.getD 41 0).toNat_lt
        simp (config := { decide := true }) only [beq_self_eq_true, if_true, if_false, e41, hgt, decide_true, UInt64.lt_iff_toNat_lt, hL,
          b41', bind_next]
        generalize U8.as_usize (h.getD 41 0) = n at *
        have g0 : U64.addOk 1 n = true := by simp [U64.addOk]; omega
        have e1 : ((1 : UInt64) + n).toNat = 1 + n.toNat := by rw [UInt64.toNat_add]; show (1 + n.toNat) % 2 ^ 64 = _; omega
        have g1 : U64.addOk 41 (1 + n) = true := by simp [U64.addOk, e1]; omega
        have ek : ((41 : UInt64) + (1 + n)).toNat = 41 + (1 + n.toNat) := by rw [UInt64.toNat_add, e1, e41]; omega
        obtain ⟨f1, f2, f3⟩ := tail_facts (41 + (1 + n)) pad (by rw [ek]; omega) hp15
        simp only [bind_next, bind_ite, bind_ret, run_ite, run_ret, g0, g1, f1, f2, f3, ek, hp, el, arith_true, decide_eq_true_eq]
      · simp (config := { decide := true }) only [beq_self_eq_true, if_true, if_false, e41, hgt, decide_false, UInt64.lt_iff_toNat_lt, hL,
          bind_ret, run_ret, Bool.false_eq_true]
    · simp only [beq_iff_eq, t1, t2, t3, if_false, bind_ret, run_ret]


theorem checkSpec_no_panic (L : Nat) (h : List UInt8) : checkSpec L h ≠ PWGen.Res.panic := by
  unfold checkSpec
  repeat' split
  all_goals simp

/-- **`check_header_length` never panics**: every byte string, both profiles -/
theorem check_no_panic (ov : Bool) (h : List UInt8) : check_header_length ov h ≠ PWGen.Res.panic := by
  rw [check_eval]; exact checkSpec_no_panic _ h

/-- the model's reading of a result of the generated `check_header_length` -/
def embedCheck : PWGen.Res (RResult Unit) → Octo.Res Unit
  | .ok (.ok ()) => .ok ()
  | .ok .err => .err
  | .panic => .panic

/-- the length guard at the head of the model's `Vmess.parseRequest` (which has no separate function for it), in the
vocabulary of `Octo/Props/C07Guards.lean`: `addrFieldLen` = 4 / 1 + name length / 16 by the type byte, `padLenOf` = the P nibble -/
def headerGuard (h : Bytes) : Octo.Res Unit :=
  if h.length < 41 then .err else
  match Vmess.addrFieldLen h with
  | none => .err
  | some al => if h.length < 41 + al + Vmess.padLenOf h + 4 then .err else .ok ()

theorem u8_toNat_eq_1 (t : UInt8) : (t.toNat = 1) = (t = 1) :=
  propext ⟨fun h => UInt8.toNat_inj.mp (by simpa using h), fun h => by subst h; rfl⟩
theorem u8_toNat_eq_2 (t : UInt8) : (t.toNat = 2) = (t = 2) :=
  propext ⟨fun h => UInt8.toNat_inj.mp (by simpa using h), fun h => by subst h; rfl⟩
theorem u8_toNat_eq_3 (t : UInt8) : (t.toNat = 3) = (t = 3) :=
  propext ⟨fun h => UInt8.toNat_inj.mp (by simpa using h), fun h => by subst h; rfl⟩

theorem addrFieldLen_eq (h : Bytes) : Vmess.addrFieldLen h =
    if h.getD 40 0 = 1 then some 4
    else if h.getD 40 0 = 2 then (if h.length > 41 then some (1 + (h.getD 41 0).toNat) else none)
    else if h.getD 40 0 = 3 then some 16 else none := by
  unfold Vmess.addrFieldLen
  simp only [u8_toNat_eq_1, u8_toNat_eq_2, u8_toNat_eq_3]

/-- `checkSpec` with the true length is the model's guard -/
theorem checkSpec_eq_guard (h : Bytes) : embedCheck (checkSpec h.length h) = headerGuard h := by
  unfold checkSpec headerGuard
  rw [addrFieldLen_eq]
  unfold Vmess.padLenOf
  by_cases h41 : h.length < 41
  · simp [h41, embedCheck]
  · simp only [h41, if_false]
    by_cases t1 : h.getD 40 0 = 1
    · simp only [t1, if_true]; split <;> rfl
    by_cases t2 : h.getD 40 0 = 2
    · simp only [t2, if_true, show ¬ ((2 : UInt8) = 1) by decide, if_false]
      by_cases hgt : 41 < h.length
      · simp only [hgt, gt_iff_lt, if_true]; split <;> rfl
      · simp only [hgt, gt_iff_lt, if_false]; rfl
    by_cases t3 : h.getD 40 0 = 3
    · simp only [t3, if_true, show ¬ ((3 : UInt8) = 1) by decide, show ¬ ((3 : UInt8) = 2) by decide, if_false]; split <;> rfl
    · simp only [t1, t2, t3, if_false]; rfl

/-- **`check_header_length`** = the guard of the model's request parser, in both profiles, on every header of a length a Rust
slice can have.  (Beyond `2^64` the statement is false for the generated code — `len()` wraps — and irrelevant.) -/
theorem check_eq (ov : Bool) (h : List UInt8) (hlen : h.length < 2 ^ 64) :
    embedCheck (check_header_length ov h) = headerGuard h := by
  rw [check_eval, Nat.mod_eq_of_lt hlen, checkSpec_eq_guard]

/-- what `Ok(())` of the generated check implies — with **no** bound on the length: the header has its 41 fixed bytes, the
address field length `al` is the one the parser will read off the type byte (and, for a name, off the length byte, which
exists), and address field, `P` padding bytes and the 4-byte checksum all fit -/
theorem check_ok_imp (ov : Bool) (h : List UInt8) (hok : check_header_length ov h = PWGen.Res.ok (RResult.ok ())) :
    41 ≤ h.length ∧ ∃ al, Vmess.addrFieldLen h = some al ∧ 41 + al + Vmess.padLenOf h + 4 ≤ h.length := by
  rw [check_eval] at hok
  have hle := Nat.mod_le h.length (2 ^ 64)
  generalize h.length % 2 ^ 64 = L at *
  unfold checkSpec at hok
  rw [addrFieldLen_eq]
  unfold Vmess.padLenOf
  by_cases h41 : L < 41
  · simp [h41] at hok
  · refine ⟨by omega, ?_⟩
    simp only [h41, if_false] at hok
    by_cases t1 : h.getD 40 0 = 1
    · simp only [t1, if_true] at hok ⊢
      split at hok
      · simp at hok
      · exact ⟨4, rfl, by omega⟩
    by_cases t2 : h.getD 40 0 = 2
    · simp only [t2, if_true, show ¬ ((2 : UInt8) = 1) by decide, if_false] at hok ⊢
      by_cases hgt : 41 < L
      · simp only [hgt, if_true] at hok
        split at hok
        · simp at hok
        · exact ⟨1 + (h.getD 41 0).toNat, by rw [if_pos (by omega)], by omega⟩
      · simp [hgt] at hok
    by_cases t3 : h.getD 40 0 = 3
    · simp only [t3, if_true, show ¬ ((3 : UInt8) = 1) by decide, show ¬ ((3 : UInt8) = 2) by decide, if_false] at hok ⊢
      split at hok
      · simp at hok
      · exact ⟨16, rfl, by omega⟩
    · simp only [t1, t2, t3, if_false] at hok
      exact absurd hok (by simp)

theorem headerGuard_ok_iff (h : Bytes) : headerGuard h = .ok () ↔
    41 ≤ h.length ∧ ∃ al, Vmess.addrFieldLen h = some al ∧ 41 + al + Vmess.padLenOf h + 4 ≤ h.length := by
  unfold headerGuard
  by_cases h41 : h.length < 41
  · simp [h41] <;> omega
  · simp only [h41, if_false]
    cases hal : Vmess.addrFieldLen h with
    | none => simp
    | some al =>
      simp only []
      by_cases h3 : h.length < 41 + al + Vmess.padLenOf h + 4
      · simp [h3] <;> omega
      · simp [h3] <;> omega

theorem headerGuard_cases (h : Bytes) : headerGuard h = .ok () ∨ headerGuard h = .err := by
  unfold headerGuard
  repeat' split
  all_goals simp

/-! ### the guard and the model's request parser -/

/-- a header the guard refuses is refused by the model's parser (it is the parser's own first test) -/
theorem parseRequest_guard_err (C : Crypto) (u : Bytes → Bool) (h : Bytes) (hg : headerGuard h = .err) :
    Vmess.parseRequest C u h = .err := by
  rw [Vmess.parseRequest_eq]
  unfold headerGuard at hg
  by_cases h41 : h.length < 41
  · rw [if_pos h41]
  · rw [if_neg h41] at hg ⊢
    cases hal : Vmess.addrFieldLen h with
    | none => rfl
    | some al =>
      rw [hal] at hg
      simp only [] at hg ⊢
      by_cases h3 : h.length < 41 + al + Vmess.padLenOf h + 4
      · rw [if_pos h3]
      · rw [if_neg h3] at hg; cases hg

/-- the field parse of `ServerAeadCodec::decode` behind `check_header_length`, written with the cursor reads the Rust
performs — `header[..header.len() - 4]`, `get_u8`, `copy_to_slice` (2 × 16), `get_u8` × 3, `advance(1)`, `get_u8`,
`read_address_port`, `advance(padding_len)`, `get_u32` — each of which **panics when it runs short**, and *without* any
length guard.  (Transcribed by hand from `server/vmess.rs`, lines 164–187 at HEAD; it is not generated: the function is a
trait method full of untranslatable calls.) -/
def requestFields (C : Crypto) (u : Bytes → Bool) (h : Bytes) :
    Octo.Res (Vmess.Session × Nat × Vmess.Security × Vmess.Cmd × Addr) :=
  if h.length < 4 then .panic else
  let data := h.take (h.length - 4)
  do
  let (_version, b) ← Buf.getU8 h
  let (iv, b) ← Buf.take 16 b
  let (key, b) ← Buf.take 16 b
  let (resp, b) ← Buf.getU8 b
  let (opt, b) ← Buf.getU8 b
  let (sec, b) ← Buf.getU8 b
  let b ← Buf.advance 1 b
  let (cmd, b) ← Buf.getU8 b
  if cmd.toNat ≠ 1 ∧ cmd.toNat ≠ 2 then .err else
  let (addr, b) ← VmessAddr.read u b
  let b ← Buf.advance (sec.toNat / 16) b
  let (actual, _) ← Buf.getU32 b
  if actual ≠ C.fnv1a32 data then .err else
  .ok (⟨iv, key, resp⟩, opt.toNat, Vmess.Security.ofByte (sec.toNat % 16), if cmd.toNat = 1 then .tcp else .udp, addr)

theorem buf_getU8_drop (h : Bytes) (i : Nat) (hi : i < h.length) : Buf.getU8 (h.drop i) = .ok (h.getD i 0, h.drop (i + 1)) := by
  have e : h.drop i = h[i] :: h.drop (i + 1) := List.drop_eq_getElem_cons hi
  rw [e, Buf.getU8_cons, List.getD_eq_getElem?_getD, List.getElem?_eq_getElem hi]
  rfl

theorem buf_take_drop (h : Bytes) (i n : Nat) (hi : i + n ≤ h.length) :
    Buf.take n (h.drop i) = .ok ((h.drop i).take n, h.drop (i + n)) := by
  unfold Buf.take
  rw [if_neg (by rw [List.length_drop]; omega), List.drop_drop]

theorem buf_advance_drop (h : Bytes) (i n : Nat) (hi : i + n ≤ h.length) : Buf.advance n (h.drop i) = .ok (h.drop (i + n)) := by
  unfold Buf.advance
  rw [if_neg (by rw [List.length_drop]; omega), List.drop_drop]

theorem buf_getU32_drop (h : Bytes) (i : Nat) (hi : i + 4 ≤ h.length) :
    Buf.getU32 (h.drop i) = .ok (rdBE ((h.drop i).take 4), h.drop (i + 4)) := by
  unfold Buf.getU32 Buf.getBE
  rw [if_neg (by rw [List.length_drop]; omega), List.drop_drop]

/-- **under the guard every cursor read of the field parse is in bounds**: the unguarded cursor parser is then the model's
parser, and never panics -/
theorem requestFields_guarded (C : Crypto) (u : Bytes → Bool) (h : Bytes) (hg : headerGuard h = .ok ()) :
    requestFields C u h = Vmess.parseRequest C u h ∧ requestFields C u h ≠ .panic := by
  obtain ⟨h41, al, hal, hlen⟩ := (headerGuard_ok_iff h).mp hg
  have key : requestFields C u h = Vmess.parseRequest C u h := by
    obtain ⟨_, _, _, _, hr, _, _⟩ :=
      Vmess.c07_vmess_parseRequest_reads_in_bounds u h al (by omega) hal (by omega)
    rw [Vmess.parseRequest_eq, if_neg (by omega), hal]
    simp only []
    rw [if_neg (by omega)]
    unfold requestFields
    rw [if_neg (by omega)]
    have g0 := buf_getU8_drop h 0 (by omega)
    rw [List.drop_zero] at g0
    simp only [g0, Res.bind_ok, buf_take_drop h 1 16 (by omega), buf_take_drop h 17 16 (by omega), buf_getU8_drop h 33 (by omega),
      buf_getU8_drop h 34 (by omega), buf_getU8_drop h 35 (by omega), buf_advance_drop h 36 1 (by omega),
      buf_getU8_drop h 37 (by omega)]
    by_cases hc : (h.getD 37 0).toNat ≠ 1 ∧ (h.getD 37 0).toNat ≠ 2
    · rw [if_pos hc, if_pos hc]
    · rw [if_neg hc, if_neg hc]
      rcases hr with hr | ⟨addr, hr⟩
      · rw [hr]; rfl
      · rw [hr]
        have hpad : (h.getD 35 0).toNat / 16 = Vmess.padLenOf h := rfl
        simp only [Res.bind_ok, hpad, buf_advance_drop h (41 + al) (Vmess.padLenOf h) (by omega),
          buf_getU32_drop h (41 + al + Vmess.padLenOf h) (by omega), List.drop_drop]
  exact ⟨key, by rw [key]; exact c07_vmess_parseRequest_total C u h⟩

end Octo.VmessAddrGen
