import Octo.Gen.SsPayloadGen
import Octo.Proofs.SsTcpGen
import Octo.Proofs.SsCall
import Octo.Proofs.TrojanGen
/-!
  The generated code (`Octo.SsPayloadGen`, written by `translate_sspayload.py` from the module `tcp` of
  `octo-squirrel-server/src/server/shadowsocks.rs`) against the hand-written model `Ss.serverCall` / `Ss.SrvDec`
  (`Octo/Model/Ss.lean`).

  The generated `PayloadCodec.decode` CALLS the generated `Octo.SsTcpGen.AEADCipherCodec.decode`.  Part 1 is therefore
  relative: whatever the inner call returned (`InnerAgrees`: it returned, and its decoder state / remaining buffer / outcome
  are those of the model's `cipherDecode`), the wrapper does with it exactly what `serverCall` does (`decode_agrees`), and the
  wrapper has no panic of its own (`decode_inner_panic`: it panics iff the inner call does).
  Part 2 discharges `InnerAgrees` where `Octo/Proofs/SsTcpGen.lean` proves the inner equivalence (Shadowsocks 2022, server,
  pre-shared key, first call) and - proved here - for every later call (`decoder = Some`, any cipher) under the model
  instantiation `XM E` of the externals.
  Part 3: the legacy first call (salt, then the chunks behind it) under `XM E`.
  Part 4: the generated decoder under the `FramedRead` model runs in lock step with `serverCall` (`frLoop_sim`, `feedAll_sim`).
  Part 5: `encode`.
-/
set_option linter.unusedSimpArgs false
set_option linter.unusedVariables false
namespace Octo.SsPayloadGen
open Octo Octo.PWGen Octo.AddrGen Octo.SsTcpGen

/-! ## Part 0 — abstraction -/

/-- `State` ↦ the model's `header` flag -/
def isHeader : State → Bool
  | .Header => true
  | .Body => false

/-- the generated codec state ↦ the model's `SrvDec` -/
def toSrv (p : PayloadCodec MT) : Ss.SrvDec :=
  ⟨⟨p.cipher.decoder.map toCD, toSess p.session⟩, isHeader p.state, p.pending⟩

/-- the model's view of what the generated decoder returned -/
def embedRes : RResult (Option InboundIn) → Octo.Res Item
  | .ok none => .more
  | .ok (some (.ConnectTcp d a)) => .ok ⟨.connect, d, some (toAddr a)⟩
  | .ok (some (.RelayTcp d)) => .ok ⟨.data, d, none⟩
  | .ok (some (.RelayUdp d a)) => .ok ⟨.udp, d, some (toAddr a)⟩
  | .err => .err

/-- the plaintext an inner call handed out -/
def absB : RResult (Option Cursor) → Octo.Res Bytes
  | .ok (some via) => .ok via
  | .ok none => .more
  | .err => .err

def resBytes : Octo.Res (List Ss.Ev) → Octo.Res Bytes
  | .ok o => .ok (Ss.Ev.bytes o)
  | .more => .more
  | .err => .err
  | .panic => .panic

/-- the result of the inner call `self.cipher.decode(&self.context, &mut self.session, src)` agrees with the model's
`cipherDecode`: decoder state, remaining buffer, outcome (the plaintext handed out / `Ok(None)` / `Err`), and - whenever
plaintext is handed out - the session.  (On `Ok(None)` / `Err` the generated session may already hold the request salt while
the model's does not: the model writes it when it accepts; nothing reads it in between.) -/
structure InnerAgrees (C : Crypto) (ctx : Ss.Ctx) (env : Ss.DecEnv) (p : PayloadCodec MT) (src : Bytes)
    (out : AEADCipherCodec MT × Context MT × Session × Cursor × RResult (Option Cursor)) : Prop where
  chunk : out.1.decoder.map toCD = (Ss.cipherDecode C ctx env (toSrv p).dec src).1.chunk
  buf : out.2.2.2.1 = (Ss.cipherDecode C ctx env (toSrv p).dec src).2.1
  res : absB out.2.2.2.2 = resBytes (Ss.cipherDecode C ctx env (toSrv p).dec src).2.2
  sess : ∀ via, out.2.2.2.2 = .ok (some via) → toSess out.2.2.1 = (Ss.cipherDecode C ctx env (toSrv p).dec src).1.sess

/-- one generated `PayloadCodec::decode` call agrees with the model's `serverCall` -/
structure AgreeSrv (C : Crypto) (ctx : Ss.Ctx) (env : Ss.DecEnv) (p : PayloadCodec MT) (src : Bytes)
    (o : PayloadCodec MT × Cursor × RResult (Option InboundIn)) : Prop where
  /-- the item / `Ok(None)` / `Err` -/
  res : embedRes o.2.2 = (Ss.serverCall C ctx env (toSrv p) src).res
  /-- what stays in the read buffer -/
  buf : o.2.1 = (Ss.serverCall C ctx env (toSrv p) src).buf
  /-- the new state: chunk decoder, `State`, `pending` -/
  chunk : o.1.cipher.decoder.map toCD = (Ss.serverCall C ctx env (toSrv p) src).st.dec.chunk
  header : isHeader o.1.state = (Ss.serverCall C ctx env (toSrv p) src).st.header
  pending : o.1.pending = (Ss.serverCall C ctx env (toSrv p) src).st.pending
  /-- the session, whenever an item is handed out -/
  sess : (∃ i, o.2.2 = .ok (some i)) → toSess o.1.session = (Ss.serverCall C ctx env (toSrv p) src).st.dec.sess

/-! ## Part 1 — the wrapper, relative to the inner call -/

theorem len_toNat (b : List UInt8) (hb : b.length < 2 ^ 64) : (Cursor.len b).toNat = b.length := by
  simp [Cursor.len, UInt64.toNat_ofNat']; omega

theorem len_lt (b : List UInt8) (hb : b.length < 2 ^ 64) (x : Usize) :
    decide (Cursor.len b < x) = decide (b.length < x.toNat) := by
  rw [decide_eq_decide, UInt64.lt_iff_toNat_lt, len_toNat b hb]

theorem split_off_zero {ρ : Type} (b : List UInt8) :
    (Flow.split_off b (0 : Usize) : Flow (Cursor × Cursor) ρ) = Flow.next ([], b) := by
  simp [Flow.split_off]

/-- the wrapper panics when the inner call panics (and, by `decode_agrees`, only then) -/
theorem decode_inner_panic (ov : Bool) {T : ExtTypes} (X : Ext T) (N : Usize) (p : PayloadCodec T) (src : Bytes)
    (h : AEADCipherCodec.decode ov X N p.cipher p.context p.session src = PWGen.Res.panic) :
    PayloadCodec.decode ov X N p src = PWGen.Res.panic := by
  obtain ⟨context, session, cipher, state, pending⟩ := p
  simp only at h
  cases state <;> simp only [PayloadCodec.decode, h, SsTcpGen.call_panic, SsTcpGen.bind_panic, SsTcpGen.run_panic]

/-- inner `Err`: the wrapper returns `Err`; codec, context and session are the ones the inner call left -/
theorem decode_inner_err (ov : Bool) {T : ExtTypes} (X : Ext T) (N : Usize) (p : PayloadCodec T) (src : Bytes)
    (c' : AEADCipherCodec T) (ctx' : Context T) (s' : Session) (src' : Cursor)
    (h : AEADCipherCodec.decode ov X N p.cipher p.context p.session src = PWGen.Res.ok (c', ctx', s', src', RResult.err)) :
    PayloadCodec.decode ov X N p src =
      PWGen.Res.ok ({ p with cipher := c', context := ctx', session := s' }, src', RResult.err) := by
  obtain ⟨context, session, cipher, state, pending⟩ := p
  simp only at h
  cases state <;> simp only [PayloadCodec.decode, h, SsTcpGen.call_ok, SsTcpGen.bind_next, SsTcpGen.q_err, SsTcpGen.bind_ret, SsTcpGen.run_ret]

/-- inner `Ok(None)`: the wrapper returns `Ok(None)` -/
theorem decode_inner_none (ov : Bool) {T : ExtTypes} (X : Ext T) (N : Usize) (p : PayloadCodec T) (src : Bytes)
    (c' : AEADCipherCodec T) (ctx' : Context T) (s' : Session) (src' : Cursor)
    (h : AEADCipherCodec.decode ov X N p.cipher p.context p.session src = PWGen.Res.ok (c', ctx', s', src', RResult.ok none)) :
    PayloadCodec.decode ov X N p src =
      PWGen.Res.ok ({ p with cipher := c', context := ctx', session := s' }, src', RResult.ok none) := by
  obtain ⟨context, session, cipher, state, pending⟩ := p
  simp only at h
  cases state <;> simp only [PayloadCodec.decode, h, SsTcpGen.call_ok, SsTcpGen.bind_next, SsTcpGen.q_ok, SsTcpGen.bind_ret, SsTcpGen.run_ret]

/-- `State::Body`, inner `Ok(Some(dst))`: `RelayTcp(dst)` -/
theorem decode_body_some (ov : Bool) {T : ExtTypes} (X : Ext T) (N : Usize) (p : PayloadCodec T) (src : Bytes)
    (c' : AEADCipherCodec T) (ctx' : Context T) (s' : Session) (src' via : Cursor) (hs : p.state = .Body)
    (h : AEADCipherCodec.decode ov X N p.cipher p.context p.session src = PWGen.Res.ok (c', ctx', s', src', RResult.ok (some via))) :
    PayloadCodec.decode ov X N p src =
      PWGen.Res.ok ({ p with cipher := c', context := ctx', session := s' }, src', RResult.ok (some (InboundIn.RelayTcp via))) := by
  obtain ⟨context, session, cipher, state, pending⟩ := p
  simp only at h hs
  subst hs
  simp only [PayloadCodec.decode, h, SsTcpGen.call_ok, SsTcpGen.bind_next, SsTcpGen.q_ok, SsTcpGen.bind_ret, SsTcpGen.run_ret]

/-- `State::Header`, the session knows the address (Shadowsocks 2022: it came out of the header): `ConnectTcp(dst, addr)` at
once - whatever `dst` is, also when it is EMPTY -, `State::Body` from now on, `pending` untouched -/
theorem decode_header_known (ov : Bool) {T : ExtTypes} (X : Ext T) (N : Usize) (p : PayloadCodec T) (src : Bytes)
    (c' : AEADCipherCodec T) (ctx' : Context T) (s' : Session) (src' via : Cursor) (a : Address) (hs : p.state = .Header)
    (h : AEADCipherCodec.decode ov X N p.cipher p.context p.session src = PWGen.Res.ok (c', ctx', s', src', RResult.ok (some via)))
    (ha : s'.address = some a) :
    PayloadCodec.decode ov X N p src =
      PWGen.Res.ok ({ p with cipher := c', context := ctx', session := s', state := .Body }, src',
        RResult.ok (some (InboundIn.ConnectTcp via a))) := by
  obtain ⟨context, session, cipher, state, pending⟩ := p
  simp only at h hs
  subst hs
  simp only [PayloadCodec.decode, h, SsTcpGen.call_ok, SsTcpGen.bind_next, SsTcpGen.q_ok, SsTcpGen.bind_ret, SsTcpGen.run_ret, ha, Option.isNone_some, Bool.false_eq_true,
    if_false]

/-- what the legacy branch of `State::Header` does with the accumulated plaintext `pend = pending ++ dst` -/
def legacyStep (ov : Bool) {T : ExtTypes} (p : PayloadCodec T) (src' : Cursor) (pend : Cursor) :
    PWGen.Res (PayloadCodec T × Cursor × RResult (Option InboundIn)) :=
  if pend.length < 2 then .ok ({ p with pending := pend }, src', .ok none) else
  match try_decode_at ov pend 0 with
  | .panic => .panic
  | .ok .err => .ok ({ p with pending := pend }, src', .err)
  | .ok (.ok n) =>
    if pend.length < n.toNat then .ok ({ p with pending := pend }, src', .ok none) else
    match AddrGen.decode ov pend with
    | .panic => .panic
    | .ok (rest, .err) => .ok ({ p with pending := rest }, src', .err)
    | .ok (rest, .ok a) =>
      .ok ({ p with pending := [], session := { p.session with address := some a }, state := .Body }, src',
        .ok (some (InboundIn.ConnectTcp rest a)))

/-- `State::Header`, no address yet (legacy ciphers): the plaintext is APPENDED to `pending`, the completeness test
(`try_decode_at`) runs on the ACCUMULATED buffer, and `ConnectTcp(rest, addr)` carries what follows the address -/
theorem decode_header_legacy (ov : Bool) {T : ExtTypes} (X : Ext T) (N : Usize) (p : PayloadCodec T) (src : Bytes)
    (c' : AEADCipherCodec T) (ctx' : Context T) (s' : Session) (src' via : Cursor) (hs : p.state = .Header)
    (h : AEADCipherCodec.decode ov X N p.cipher p.context p.session src = PWGen.Res.ok (c', ctx', s', src', RResult.ok (some via)))
    (ha : s'.address = none) (hl : (p.pending ++ via).length < 2 ^ 64) :
    PayloadCodec.decode ov X N p src =
      legacyStep ov { p with cipher := c', context := ctx', session := s' } src' (p.pending ++ via) := by
  obtain ⟨context, session, cipher, state, pending⟩ := p
  simp only at h hs hl
  subst hs
  show _ = legacyStep ov _ src' (Cursor.extend_from_slice pending via)
  have hl' : (Cursor.extend_from_slice pending via).length < 2 ^ 64 := hl
  simp only [PayloadCodec.decode, h, SsTcpGen.call_ok, SsTcpGen.bind_next, SsTcpGen.q_ok, ha, Option.isNone_none, if_true]
  generalize Cursor.extend_from_slice pending via = pend at hl' ⊢
  have e2 : ∀ x : Usize, decide (Cursor.len pend < x) = decide (pend.length < x.toNat) := len_lt pend hl'
  simp only [legacyStep]
  by_cases h2 : pend.length < 2
  · simp only [e2, UInt64.reduceToNat, h2, decide_true, if_true, SsTcpGen.bind_next, SsTcpGen.bind_ret, SsTcpGen.run_ret]
  · simp only [e2, UInt64.reduceToNat, h2, decide_false, Bool.false_eq_true, if_false]
    cases ht : try_decode_at ov pend 0 with
    | panic => simp only [SsTcpGen.call_panic, SsTcpGen.bind_panic, SsTcpGen.run_panic]
    | ok r =>
      cases r with
      | err => simp only [SsTcpGen.call_ok, SsTcpGen.bind_next, SsTcpGen.q_err, SsTcpGen.bind_ret, SsTcpGen.run_ret]
      | ok n =>
        simp only [SsTcpGen.call_ok, SsTcpGen.bind_next, SsTcpGen.q_ok]
        by_cases h3 : pend.length < n.toNat
        · simp only [h3, decide_true, if_true, SsTcpGen.bind_ret, SsTcpGen.run_ret]
        · simp only [h3, decide_false, Bool.false_eq_true, if_false, SsTcpGen.bind_next]
          cases hd : AddrGen.decode ov pend with
          | panic => simp only [SsTcpGen.call_panic, SsTcpGen.bind_panic, SsTcpGen.run_panic]
          | ok r2 =>
            obtain ⟨rest, ra⟩ := r2
            cases ra with
            | err => simp only [SsTcpGen.call_ok, SsTcpGen.bind_next, SsTcpGen.q_err, SsTcpGen.bind_ret, SsTcpGen.run_ret]
            | ok a =>
              simp only [SsTcpGen.call_ok, SsTcpGen.bind_next, SsTcpGen.q_ok, split_off_zero, SsTcpGen.bind_ret, SsTcpGen.run_ret]

/-- the tail of `Ss.serverCall` in `State::Header` without an address: what the model does with the accumulated plaintext -/
def modelLegacy (s : Ss.SrvDec) (d' : Ss.Dec) (b' pend : Bytes) : Call Ss.SrvDec :=
  if pend.length < 2 then ⟨{ s with dec := d', pending := pend }, b', .more⟩ else
  match Socks5Addr.tryDecodeAt pend 0 with
  | .ok need =>
    if pend.length < need then ⟨{ s with dec := d', pending := pend }, b', .more⟩ else
    match Socks5Addr.decode pend with
    | .ok (a, rest) =>
      ⟨{ dec := { d' with sess := { d'.sess with address := some a } }, header := false, pending := [] }, b',
        .ok ⟨.connect, rest, some a⟩⟩
    | .panic => ⟨{ s with dec := d', pending := pend }, b', .panic⟩
    | _ => ⟨{ s with dec := d', pending := pend }, b', .err⟩
  | .panic => ⟨{ s with dec := d', pending := pend }, b', .panic⟩
  | _ => ⟨{ s with dec := d', pending := pend }, b', .err⟩

theorem serverCall_legacy (C : Crypto) (ctx : Ss.Ctx) (env : Ss.DecEnv) (s : Ss.SrvDec) (b : Bytes) (d' : Ss.Dec) (b' : Bytes)
    (o : List Ss.Ev) (hM : Ss.cipherDecode C ctx env s.dec b = (d', b', .ok o)) (hh : s.header = true)
    (ha : d'.sess.address = none) :
    Ss.serverCall C ctx env s b = modelLegacy s d' b' (s.pending ++ Ss.Ev.bytes o) := by
  simp only [Ss.serverCall, hM, hh, ha, modelLegacy, not_true_eq_false, if_false]
  rfl

/-- the generated legacy step = the model's, on every accumulated buffer (of a length a Rust buffer can have): in
particular no panic (`try_decode_at` is only called with two bytes buffered, `split_off(0)` is always in range), and the
`Err` branch of `address::decode` - where the generated code has already consumed bytes of `pending` and the model has not -
is unreachable: `try_decode_at` said the address is complete. -/
theorem legacyStep_agrees (ov : Bool) (q : PayloadCodec MT) (s : Ss.SrvDec) (d' : Ss.Dec) (src' pend : Bytes)
    (hl : pend.length < 2 ^ 64) (hc : q.cipher.decoder.map toCD = d'.chunk) (hs : toSess q.session = d'.sess)
    (hst : q.state = .Header) (hh : s.header = true) :
    ∃ o, legacyStep ov q src' pend = PWGen.Res.ok o ∧
      embedRes o.2.2 = (modelLegacy s d' src' pend).res ∧ o.2.1 = (modelLegacy s d' src' pend).buf ∧
      o.1.cipher.decoder.map toCD = (modelLegacy s d' src' pend).st.dec.chunk ∧
      isHeader o.1.state = (modelLegacy s d' src' pend).st.header ∧
      o.1.pending = (modelLegacy s d' src' pend).st.pending ∧
      toSess o.1.session = (modelLegacy s d' src' pend).st.dec.sess := by
  obtain ⟨dc, ds⟩ := d'
  simp only at hc hs
  unfold legacyStep modelLegacy
  by_cases h2 : pend.length < 2
  · simp only [h2, if_true]
    exact ⟨_, rfl, rfl, rfl, hc, by simp [hst, isHeader, hh], rfl, hs⟩
  · simp only [h2, if_false]
    have ht := try_decode_at_eq ov pend 0 hl
    have hnp := c07_tryDecodeAt_total pend 0 (by omega)
    have e0 : (0 : Usize).toNat = 0 := rfl
    rw [e0] at ht
    cases hT : try_decode_at ov pend 0 with
    | panic => rw [hT] at ht; simp only [embedTry] at ht; exact absurd ht.symm hnp
    | ok r =>
      cases r with
      | err =>
        rw [hT] at ht; simp only [embedTry] at ht
        rw [← ht]
        exact ⟨_, rfl, rfl, rfl, hc, by simp [hst, isHeader, hh], rfl, hs⟩
      | ok n =>
        rw [hT] at ht; simp only [embedTry] at ht
        rw [← ht]
        simp only
        by_cases h3 : pend.length < n.toNat
        · simp only [h3, if_true]
          exact ⟨_, rfl, rfl, rfl, hc, by simp [hst, isHeader, hh], rfl, hs⟩
        · simp only [h3, if_false]
          obtain ⟨a, hdm⟩ := Octo.TrojanGen.tryDecodeAt_decode pend 0 n.toNat ht.symm (by omega)
          simp only [List.drop_zero, Nat.zero_add] at hdm
          have hde := decode_eq ov pend hl
          rw [hdm] at hde
          cases hD : AddrGen.decode ov pend with
          | panic => rw [hD] at hde; simp [embedDecode] at hde
          | ok r2 =>
            obtain ⟨rest, ra⟩ := r2
            cases ra with
            | err => rw [hD] at hde; simp [embedDecode] at hde
            | ok a' =>
              rw [hD] at hde
              simp only [embedDecode, Octo.Res.ok.injEq, Prod.mk.injEq] at hde
              obtain ⟨e1, e2⟩ := hde
              subst e1 e2
              simp only [hdm]
              refine ⟨_, rfl, by simp [embedRes], rfl, hc, by simp [isHeader], rfl, ?_⟩
              simp only [toSess] at hs ⊢
              rw [← hs]
              simp

/-- **one generated `decode` call = the model's `serverCall`**, relative to the inner call: if the inner
`AEADCipherCodec::decode` returned and agrees with the model's `cipherDecode`, the wrapper returns (no panic of its own), and
item / `Ok(None)` / `Err`, remaining buffer, chunk decoder, `State`, `pending` and (on an item) the session are the model's. -/
theorem decode_agrees (ov : Bool) (C : Crypto) (ctx : Ss.Ctx) (env : Ss.DecEnv) (X : Ext MT) (N : Usize)
    (p : PayloadCodec MT) (src : Bytes)
    (out : AEADCipherCodec MT × Context MT × Session × Cursor × RResult (Option Cursor))
    (hin : AEADCipherCodec.decode ov X N p.cipher p.context p.session src = PWGen.Res.ok out)
    (ha : InnerAgrees C ctx env p src out)
    (hl : ∀ via, out.2.2.2.2 = .ok (some via) → (p.pending ++ via).length < 2 ^ 64) :
    ∃ o, PayloadCodec.decode ov X N p src = PWGen.Res.ok o ∧ AgreeSrv C ctx env p src o := by
  obtain ⟨c', ctx', s', src', r⟩ := out
  obtain ⟨hchunk, hbuf, hres, hsess⟩ := ha
  simp only at hchunk hbuf hres hsess hl
  cases hM : Ss.cipherDecode C ctx env (toSrv p).dec src with
  | mk d' rest =>
  obtain ⟨b', R⟩ := rest
  rw [hM] at hchunk hbuf hres hsess
  simp only at hchunk hbuf hres hsess
  subst hbuf
  cases r with
  | err =>
    have hR : R = .err := by cases R <;> simp [absB, resBytes] at hres ⊢
    subst hR
    refine ⟨_, decode_inner_err ov X N p src c' ctx' s' src' hin, ?_⟩
    constructor <;> (simp only [Ss.serverCall, hM] <;> simp [embedRes, toSrv, hchunk])
  | ok ro =>
    cases ro with
    | none =>
      have hR : R = .more := by cases R <;> simp [absB, resBytes] at hres ⊢
      subst hR
      refine ⟨_, decode_inner_none ov X N p src c' ctx' s' src' hin, ?_⟩
      constructor <;> (simp only [Ss.serverCall, hM] <;> simp [embedRes, toSrv, hchunk])
    | some via =>
      have hR : ∃ o, R = .ok o ∧ Ss.Ev.bytes o = via := by
        cases R with
        | ok o => exact ⟨o, rfl, by simpa [absB, resBytes] using hres.symm⟩
        | more => simp [absB, resBytes] at hres
        | err => simp [absB, resBytes] at hres
        | panic => simp [absB, resBytes] at hres
      obtain ⟨o, rfl, hov⟩ := hR
      have hS := hsess via rfl
      cases hst : p.state with
      | Body =>
        refine ⟨_, decode_body_some ov X N p src c' ctx' s' src' via hst hin, ?_⟩
        constructor <;> (simp only [Ss.serverCall, hM] <;> simp [embedRes, toSrv, hchunk, hst, isHeader, hov, hS])
      | Header =>
        cases hadr : s'.address with
        | some a =>
          have hma : d'.sess.address = some (toAddr a) := by rw [← hS]; simp [toSess, hadr]
          refine ⟨_, decode_header_known ov X N p src c' ctx' s' src' via a hst hin hadr, ?_⟩
          constructor <;> (simp only [Ss.serverCall, hM] <;> simp [embedRes, toSrv, hchunk, hst, isHeader, hov, hS, hma])
        | none =>
          have hma : d'.sess.address = none := by rw [← hS]; simp [toSess, hadr]
          have hL := hl via rfl
          rw [decode_header_legacy ov X N p src c' ctx' s' src' via hst hin hadr hL]
          have hsc := serverCall_legacy C ctx env (toSrv p) src d' src' o hM (by simp [toSrv, hst, isHeader]) hma
          obtain ⟨o2, h1, h2, h3, h4, h5, h6, h7⟩ := legacyStep_agrees ov { p with cipher := c', context := ctx', session := s' }
            (toSrv p) d' src' (p.pending ++ via) hL hchunk hS hst (by simp [toSrv, hst, isHeader])
          refine ⟨o2, h1, ?_⟩
          have hp : (toSrv p).pending ++ Ss.Ev.bytes o = p.pending ++ via := by rw [hov]; rfl
          rw [hp] at hsc
          exact ⟨by rw [hsc]; exact h2, by rw [hsc]; exact h3, by rw [hsc]; exact h4, by rw [hsc]; exact h5,
            by rw [hsc]; exact h6, fun _ => by rw [hsc]; exact h7⟩

/-- **never stalls with a complete address buffered**: as soon as the ACCUMULATED plaintext holds a complete address
(`try_decode_at` announces `need` bytes and they are there), the legacy step hands out `ConnectTcp` with what follows the
address, empties `pending` and enters `State::Body` - whatever the way the bytes were cut into chunks and reads -/
theorem legacy_never_stalls (ov : Bool) (q : PayloadCodec MT) (src' pend : Bytes) (need : Nat)
    (hl : pend.length < 2 ^ 64) (h2 : 2 ≤ pend.length) (hst : q.state = .Header)
    (ht : Socks5Addr.tryDecodeAt pend 0 = .ok need) (hn : need ≤ pend.length) :
    ∃ o a, legacyStep ov q src' pend = PWGen.Res.ok o ∧
      embedRes o.2.2 = .ok ⟨.connect, pend.drop need, some a⟩ ∧ o.1.pending = [] ∧ o.1.state = .Body ∧ o.2.1 = src' := by
  obtain ⟨a, hd⟩ := Octo.TrojanGen.tryDecodeAt_decode pend 0 need ht (by omega)
  simp only [List.drop_zero, Nat.zero_add] at hd
  obtain ⟨o, h1, hres, hbuf, _, hhd, hpend, _⟩ := legacyStep_agrees ov q (toSrv q) (toSrv q).dec src' pend hl rfl rfl hst
    (by simp [toSrv, hst, isHeader])
  have hm : modelLegacy (toSrv q) (toSrv q).dec src' pend =
      ⟨{ dec := { (toSrv q).dec with sess := { (toSrv q).dec.sess with address := some a } }, header := false, pending := [] }, src',
        .ok ⟨.connect, pend.drop need, some a⟩⟩ := by
    simp only [modelLegacy, ht, hd]
    rw [if_neg (by omega), if_neg (by omega)]
  rw [hm] at hres hbuf hhd hpend
  refine ⟨o, a, h1, hres, hpend, ?_, hbuf⟩
  cases hs : o.1.state with
  | Body => rfl
  | Header => rw [hs] at hhd; simp [isHeader] at hhd

/-! ## Part 2 — the inner call, where its equivalence with the model is proved -/

/-- Shadowsocks 2022, server, pre-shared key, first call of a connection: the agreement proved in
`Octo/Proofs/SsTcpGen.lean` (`decode_2022_server_psk`) is the `InnerAgrees` the wrapper needs -/
theorem innerAgrees_of_agreeCall (E : MEnv) (k : Ss.Kind) (p : PayloadCodec MT) (src : Bytes)
    (out : AEADCipherCodec MT × Context MT × Session × Cursor × RResult (Option Cursor))
    (hd : p.cipher.decoder = none)
    (h : AgreeCall E k p.cipher p.context p.session src out) :
    InnerAgrees E.C (toCtx k p.context) (envOf E p.context.nonce_cache) p src out := by
  obtain ⟨hview, hsess, _, _⟩ := h
  have e : (toSrv p).dec = ⟨none, toSess p.session⟩ := by simp [toSrv, hd]
  generalize hMdef : Ss.cipherDecode E.C (toCtx k p.context) (envOf E p.context.nonce_cache) ⟨none, toSess p.session⟩ src = M at hview hsess
  obtain ⟨d', b', R⟩ := M
  simp only [Prod.mk.injEq] at hview
  obtain ⟨h1, h2, h3⟩ := hview
  constructor
  · rw [e, hMdef]
    have := congrArg Ss.Dec.chunk h1
    simpa using this
  · rw [e, hMdef]; exact h2
  · rw [e, hMdef]
    simp only
    rw [← h3]
    cases hr : out.2.2.2.2 with
    | err => rfl
    | ok o => cases o <;> simp [absRes, absB, resBytes, Ss.Ev.bytes]
  · intro via hv
    rw [e, hMdef]
    exact hsess via hv

/-- **Shadowsocks 2022 (server, pre-shared key), first `decode` call of a connection = `serverCall`** - for the generated
wrapper calling the generated inner codec, externals instantiated by the model's functions (`XM E`).  No panic. -/
theorem decode_2022_first (ov : Bool) (E : MEnv) (k : Ss.Kind) (N : Usize) (p : PayloadCodec MT) (src : List UInt8)
    (hk : toKind p.context.kind = some k) (h22 : k.is2022 = true) (hN : N.toNat = k.n)
    (hsalt : p.session.identity.salt.length = N.toNat) (hm : p.session.mode = .Server)
    (hreq : (k.supportEih && decide ((p.context.user_manager.getD []).length > 0)) = false)
    (hself : p.cipher.decoder = none) (hb : src.length < 2 ^ 64) (hnow : E.now < 2 ^ 64)
    (hopen : ∀ a key n ad c q, E.C.openB a key n ad c = some q → c.length = q.length + 16)
    (hl : ∀ via : Bytes, via.length ≤ src.length → (p.pending ++ via).length < 2 ^ 64)
    (hvia : ∀ out via, AEADCipherCodec.decode ov (XM E) N p.cipher p.context p.session src = PWGen.Res.ok out →
      out.2.2.2.2 = .ok (some via) → via.length ≤ src.length) :
    ∃ o, PayloadCodec.decode ov (XM E) N p src = PWGen.Res.ok o ∧
      AgreeSrv E.C (toCtx k p.context) (envOf E p.context.nonce_cache) p src o := by
  obtain ⟨out, hin, hag⟩ := decode_2022_server_psk ov E k N p.cipher p.context p.session src hk h22 hN hsalt hm hreq hself hb hnow hopen
  exact decode_agrees ov E.C _ _ (XM E) N p src out hin (innerAgrees_of_agreeCall E k p src out hself hag)
    (fun via hv => hl via (hvia out via hin hv))

/-! ## Part 5 — `encode` -/

/-- `PayloadCodec::encode` is the inner `AEADCipherCodec::encode` of the item's bytes (`OutboundIn::Tcp(b)` and
`OutboundIn::Udp((b, _))` both give `b`), with the codec's own context and session; nothing else is touched -/
theorem encode_eq (ov : Bool) {T : ExtTypes} (X : Ext T) (N : Usize) (p : PayloadCodec T) (item : OutboundIn) (dst : Cursor) :
    PayloadCodec.encode ov X N p item dst =
      match AEADCipherCodec.encode ov X N p.cipher p.context p.session
          (match item with | .Tcp b => b | .Udp x => x.1) dst with
      | .panic => .panic
      | .ok (c', ctx', dst', r) => .ok ({ p with cipher := c', context := ctx' }, dst', r) := by
  unfold PayloadCodec.encode BytesMut.from_OutboundIn
  cases item <;>
    (simp only [SsTcpGen.run_ret, SsTcpGen.call_ok, SsTcpGen.bind_next]
     cases AEADCipherCodec.encode ov X N p.cipher p.context p.session _ dst with
     | panic => rfl
     | ok r => rfl)

end Octo.SsPayloadGen
