import Octo.Model.SsUdp
import Octo.Proofs.Bytes
import Octo.Proofs.Toy
import Octo.Props.C14
/-!
  Shadowsocks-2022 datagram codec (`Octo.SsUdp`): the decoder factored into "which key opens the
  body" (`opened`) and "what the opened body says" (`bodyParse`), the two body layouts, and the
  round trips for every pairing of a client context with a server context (`Paired`).
-/
namespace Octo.SsUdp
open Octo.Ss

/-! ### xor -/

/-- xor with the same mask twice is the identity (equal lengths, or a longer mask) -/
theorem xorBytes_involution (a b : Bytes) (h : a.length = b.length) : xorBytes (xorBytes a b) b = a :=
  xorBytes_cancel a b (by omega)

/-! ### the decoder in two halves -/

/-- `decode`, second half: what the opened plaintext `p` (after session id and packet id) says -/
def bodyParse (mode : Mode) (now sid pid : Nat) (p : Bytes) (user : Option User) : Res (Bytes × Addr × Session) :=
  if p.headD 0 ≠ mode.expectU8 then .err else
  if absDiff now (rdBE ((p.drop 1).take 8)) > Consts.ssMaxTimeDiff then .err else
  let (csid, p) := if mode = .client then (rdBE ((p.drop 9).take 8), p.drop 17) else (sid, p.drop 9)
  let pl := rdBE (p.take 2)
  if p.length < 2 + pl then .err else
  match Socks5Addr.decode (p.drop (2 + pl)) with
  | .ok (addr, rest) =>
    .ok (rest, addr, if mode = .client then ⟨csid, sid, pid, none⟩ else ⟨sid, 0, pid, user⟩)
  | .panic => .panic
  | _ => .err

/-- the server asks for an identity header -/
def requireEih (ctx : Ctx) (mode : Mode) : Prop := mode = .server ∧ ctx.kind.supportEih ∧ ctx.users.length > 0

instance (ctx : Ctx) (mode : Mode) : Decidable (requireEih ctx mode) := by unfold requireEih; exact inferInstance

/-- the shortest datagram `decode` looks at -/
def headerLen (ctx : Ctx) (mode : Mode) : Nat :=
  nonceLen ctx.kind + 16 + 8 + 8 + (if mode = .server then (if requireEih ctx mode then 16 else 0) else 8) + 1 + 8 + 2

/-- `decode`, first half: (session id, packet id, plaintext after them, user whose key opened it) -/
def opened (C : Crypto) (ctx : Ctx) (mode : Mode) (b : Bytes) : Option (Nat × Nat × Bytes × Option User) :=
  match xAlg ctx.kind with
  | none =>
    let hdr := C.aesDec ctx.key (b.take 16)
    let sid := rdBE (hdr.take 8)
    let pid := rdBE (hdr.drop 8)
    let rest := b.drop 16
    if requireEih ctx mode then
      let h := xorBytes (C.aesDec ctx.key (rest.take 16)) hdr
      match findUser ctx.users h with
      | none => none
      | some u =>
        (C.openB ctx.kind.alg (aesSessionKey C ctx.kind u.key sid) (hdr.drop 4) [] (rest.drop 16)).map fun p => (sid, pid, p, some u)
    else
      (C.openB ctx.kind.alg (aesSessionKey C ctx.kind ctx.key sid) (hdr.drop 4) [] rest).map fun p => (sid, pid, p, none)
  | some xa =>
    (C.openB xa (ctx.key.take 32) (b.take 24) [] (b.drop 24)).map fun p =>
      (rdBE (p.take 8), rdBE ((p.drop 8).take 8), p.drop 16, none)

theorem decode_2022 (C : Crypto) (ctx : Ctx) (hk : ctx.kind.is2022 = true) (mode : Mode) (now : Nat) (b : Bytes) :
    decode C ctx mode now b =
      if b.length < headerLen ctx mode then .err else
      match opened C ctx mode b with
      | none => .err
      | some (sid, pid, p, user) => bodyParse mode now sid pid p user := by
  unfold decode
  simp only [hk, not_true_eq_false, if_false]
  rfl

/-! ### the two body layouts -/

theorem addr_len_ge (a : Addr) (h : a.Accepted) : 5 ≤ (Socks5Addr.encode a).length := by
  cases a with
  | domain host p => obtain ⟨h1, _, _⟩ := h; simp [Socks5Addr.encode]; omega
  | v4 ip p => have := h.1; simp [Socks5Addr.encode]; omega
  | v6 ip p => have := h.1; simp [Socks5Addr.encode]; omega

/-- padding length ‖ padding ‖ address ‖ payload -/
theorem tail_parse (pad : Bytes) (hpad : pad.length < 65536) (addr : Addr) (ha : addr.Accepted) (item : Bytes) :
    let p := be16 pad.length ++ (pad ++ (Socks5Addr.encode addr ++ item))
    rdBE (p.take 2) = pad.length ∧ ¬ p.length < 2 + pad.length ∧
      Socks5Addr.decode (p.drop (2 + pad.length)) = .ok (addr, item) := by
  intro p
  have hpl : rdBE (p.take 2) = pad.length := by
    show rdBE ((be16 pad.length ++ _).take 2) = _
    rw [List.take_left' (be16_length _)]; exact rdBE_be16 _ hpad
  have hdp : p.drop (2 + pad.length) = Socks5Addr.encode addr ++ item := by
    show (be16 pad.length ++ _).drop _ = _
    rw [← List.drop_drop, List.drop_left' (be16_length _), List.drop_left]
  refine ⟨hpl, ?_, ?_⟩
  · show ¬ (be16 pad.length ++ _).length < _
    simp only [List.length_append, be16_length]; omega
  · rw [hdp, c14_socks5_roundtrip addr item ha]

/-- a client body read by the server -/
theorem bodyParse_request (now sid pid ts : Nat) (user : Option User) (hts : ts < 2 ^ 64)
    (hnow : absDiff now ts ≤ Consts.ssMaxTimeDiff) (pad : Bytes) (hpad : pad.length < 65536)
    (addr : Addr) (ha : addr.Accepted) (item : Bytes) :
    bodyParse .server now sid pid
      ([Mode.client.toU8] ++ be64 ts ++ be16 pad.length ++ pad ++ Socks5Addr.encode addr ++ item) user =
      .ok (item, addr, ⟨sid, 0, pid, user⟩) := by
  obtain ⟨h1, h2, h3⟩ := tail_parse pad hpad addr ha item
  have e : [Mode.client.toU8] ++ be64 ts ++ be16 pad.length ++ pad ++ Socks5Addr.encode addr ++ item =
      (0 : UInt8) :: (be64 ts ++ (be16 pad.length ++ (pad ++ (Socks5Addr.encode addr ++ item)))) := by
    simp [Mode.toU8]
  rw [e]
  generalize be16 pad.length ++ (pad ++ (Socks5Addr.encode addr ++ item)) = t at h1 h2 h3
  have hts' : rdBE ((be64 ts ++ t).take 8) = ts := by
    rw [List.take_left' (be64_length _)]; exact rdBE_be64 _ (by simpa using hts)
  have hd9 : ((0 : UInt8) :: (be64 ts ++ t)).drop 9 = t := by
    show (be64 ts ++ t).drop 8 = t
    exact List.drop_left' (be64_length _)
  unfold bodyParse
  have hmode : ¬ (Mode.server = Mode.client) := by decide
  simp only [Mode.expectU8, List.headD_cons, ne_eq, not_true_eq_false, if_false, List.drop_succ_cons, List.drop_zero, hts',
    hmode]
  rw [if_neg (by omega)]
  show (let p := ((0 : UInt8) :: (be64 ts ++ t)).drop 9
        let pl := rdBE (p.take 2)
        if p.length < 2 + pl then Res.err else
        match Socks5Addr.decode (p.drop (2 + pl)) with
        | .ok (addr', rest) => Res.ok (rest, addr', (⟨sid, 0, pid, user⟩ : Session))
        | .panic => .panic
        | _ => .err) = _
  rw [hd9]
  simp only [h1, h2, if_false, h3]

/-- a server body read by the client -/
theorem bodyParse_reply (now sid pid ts csid : Nat) (user : Option User) (hts : ts < 2 ^ 64) (hcsid : csid < 2 ^ 64)
    (hnow : absDiff now ts ≤ Consts.ssMaxTimeDiff) (pad : Bytes) (hpad : pad.length < 65536)
    (addr : Addr) (ha : addr.Accepted) (item : Bytes) :
    bodyParse .client now sid pid
      ([Mode.server.toU8] ++ be64 ts ++ be64 csid ++ be16 pad.length ++ pad ++ Socks5Addr.encode addr ++ item) user =
      .ok (item, addr, ⟨csid, sid, pid, none⟩) := by
  obtain ⟨h1, h2, h3⟩ := tail_parse pad hpad addr ha item
  have e : [Mode.server.toU8] ++ be64 ts ++ be64 csid ++ be16 pad.length ++ pad ++ Socks5Addr.encode addr ++ item =
      (1 : UInt8) :: (be64 ts ++ (be64 csid ++ (be16 pad.length ++ (pad ++ (Socks5Addr.encode addr ++ item))))) := by
    simp [Mode.toU8]
  rw [e]
  generalize be16 pad.length ++ (pad ++ (Socks5Addr.encode addr ++ item)) = t at h1 h2 h3
  have hts' : rdBE ((be64 ts ++ (be64 csid ++ t)).take 8) = ts := by
    rw [List.take_left' (be64_length _)]; exact rdBE_be64 _ (by simpa using hts)
  have hd9 : ((1 : UInt8) :: (be64 ts ++ (be64 csid ++ t))).drop 9 = be64 csid ++ t := by
    show (be64 ts ++ _).drop 8 = _
    exact List.drop_left' (be64_length _)
  have hd17 : ((1 : UInt8) :: (be64 ts ++ (be64 csid ++ t))).drop 17 = t := by
    show (be64 ts ++ _).drop (8 + 8) = _
    rw [← List.drop_drop, List.drop_left' (be64_length _), List.drop_left' (be64_length _)]
  have hcs : rdBE ((be64 csid ++ t).take 8) = csid := by
    rw [List.take_left' (be64_length _)]; exact rdBE_be64 _ (by simpa using hcsid)
  unfold bodyParse
  simp only [Mode.expectU8, List.headD_cons, ne_eq, not_true_eq_false, if_false, if_true]
  rw [hd9, hd17, hcs]
  simp only [List.drop_succ_cons, List.drop_zero, hts']
  rw [if_neg (by omega)]
  simp only [h1, h2, if_false, h3]

/-! ### which key opens the body -/

theorem ids_take (sid pid : Nat) (hsid : sid < 2 ^ 64) (t : Bytes) : rdBE ((be64 sid ++ be64 pid ++ t).take 8) = sid := by
  rw [List.append_assoc, List.take_left' (be64_length _)]; exact rdBE_be64 _ (by simpa using hsid)

theorem ids_drop_take (sid pid : Nat) (hpid : pid < 2 ^ 64) (t : Bytes) :
    rdBE (((be64 sid ++ be64 pid ++ t).drop 8).take 8) = pid := by
  rw [List.append_assoc, List.drop_left' (be64_length _), List.take_left' (be64_length _)]
  exact rdBE_be64 _ (by simpa using hpid)

theorem ids_drop16 (sid pid : Nat) (t : Bytes) : (be64 sid ++ be64 pid ++ t).drop 16 = t :=
  List.drop_left' (by simp)

/-- XChaCha kinds, either direction: the nonce travels in front, the ids lead the plaintext -/
theorem opened_chacha (C : Crypto) (hC : C.Lawful) (ctx : Ctx) (mode : Mode) (xa : Alg) (hx : xAlg ctx.kind = some xa)
    (key nonce : Bytes) (hkey : key = ctx.key.take 32) (hn : nonce.length = 24)
    (sid pid : Nat) (hsid : sid < 2 ^ 64) (hpid : pid < 2 ^ 64) (body : Bytes) :
    opened C ctx mode (nonce ++ C.sealB xa key nonce [] (be64 sid ++ be64 pid ++ body)) = some (sid, pid, body, none) := by
  unfold opened
  simp only [hx]
  rw [List.take_left' hn, List.drop_left' hn, hkey, hC.open_seal]
  simp only [Option.map_some, ids_take sid pid hsid, ids_drop_take sid pid hpid, ids_drop16]

/-- AES kinds without identity header, either direction: the ids travel AES-encrypted in front -/
theorem opened_aes (C : Crypto) (hC : C.Lawful) (ctx : Ctx) (mode : Mode) (hx : xAlg ctx.kind = none)
    (hne : ¬ requireEih ctx mode) (sid pid : Nat) (hsid : sid < 2 ^ 64) (hpid : pid < 2 ^ 64) (body : Bytes) :
    opened C ctx mode (C.aesEnc ctx.key (be64 sid ++ be64 pid) ++
      C.sealB ctx.kind.alg (aesSessionKey C ctx.kind ctx.key sid) ((be64 sid ++ be64 pid).drop 4) [] body) =
      some (sid, pid, body, none) := by
  have hal : (C.aesEnc ctx.key (be64 sid ++ be64 pid)).length = 16 := hC.aes_enc_len _ _
  have h16 : (be64 sid ++ be64 pid).length = 16 := by simp
  have hs : rdBE ((be64 sid ++ be64 pid).take 8) = sid := by
    rw [List.take_left' (be64_length _)]; exact rdBE_be64 _ (by simpa using hsid)
  have hp : rdBE ((be64 sid ++ be64 pid).drop 8) = pid := by
    rw [List.drop_left' (be64_length _)]; exact rdBE_be64 _ (by simpa using hpid)
  unfold opened
  simp only [hx, hne, if_false]
  rw [List.take_left' hal, List.drop_left' hal, hC.aes_dec_enc _ _ h16, hs, hp, hC.open_seal]
  rfl

/-- AES kinds with one identity header (client → server): the header names the user, the user's key
opens the body -/
theorem opened_eih (C : Crypto) (hC : C.Lawful) (ctx : Ctx) (hx : xAlg ctx.kind = none) (hreq : requireEih ctx .server)
    (ukey : Bytes) (u : User) (hfind : findUser ctx.users ((C.blake3Hash ukey).take 16) = some u) (huk : u.key = ukey)
    (sid pid : Nat) (hsid : sid < 2 ^ 64) (hpid : pid < 2 ^ 64) (body : Bytes) :
    opened C ctx .server (C.aesEnc ctx.key (be64 sid ++ be64 pid) ++
      C.aesEnc ctx.key (xorBytes ((C.blake3Hash ukey).take 16) (be64 sid ++ be64 pid)) ++
      C.sealB ctx.kind.alg (aesSessionKey C ctx.kind ukey sid) ((be64 sid ++ be64 pid).drop 4) [] body) =
      some (sid, pid, body, some u) := by
  have hal : (C.aesEnc ctx.key (be64 sid ++ be64 pid)).length = 16 := hC.aes_enc_len _ _
  have h16 : (be64 sid ++ be64 pid).length = 16 := by simp
  have hh : ((C.blake3Hash ukey).take 16).length = 16 := by simp [hC.blake3h_len]
  have hxl : (xorBytes ((C.blake3Hash ukey).take 16) (be64 sid ++ be64 pid)).length = 16 := by
    rw [xorBytes_length, hh, h16]; rfl
  have hal2 : (C.aesEnc ctx.key (xorBytes ((C.blake3Hash ukey).take 16) (be64 sid ++ be64 pid))).length = 16 :=
    hC.aes_enc_len _ _
  have hs : rdBE ((be64 sid ++ be64 pid).take 8) = sid := by
    rw [List.take_left' (be64_length _)]; exact rdBE_be64 _ (by simpa using hsid)
  have hp : rdBE ((be64 sid ++ be64 pid).drop 8) = pid := by
    rw [List.drop_left' (be64_length _)]; exact rdBE_be64 _ (by simpa using hpid)
  unfold opened
  simp only [hx, hreq, if_true]
  rw [List.append_assoc, List.take_left' hal, List.drop_left' hal, List.take_left' hal2, List.drop_left' hal2,
    hC.aes_dec_enc _ _ h16, hC.aes_dec_enc _ _ hxl, xorBytes_involution _ _ (by rw [hh, h16]), hfind]
  simp only [huk, hs, hp, hC.open_seal]
  rfl

/-! ### kinds -/

theorem kind_chacha (k : Kind) (xa : Alg) (h : xAlg k = some xa) :
    k.is2022 = true ∧ k.supportEih = false ∧ nonceLen k = 24 := by
  cases k <;> simp_all [xAlg, Kind.is2022, Kind.supportEih, nonceLen]

theorem kind_aes (k : Kind) (h : xAlg k = none) (h2 : k.is2022 = true) : k.supportEih = true ∧ nonceLen k = 0 := by
  cases k <;> simp_all [xAlg, Kind.is2022, Kind.supportEih, nonceLen]

theorem kind_eih (k : Kind) (h : k.supportEih = true) : xAlg k = none ∧ k.is2022 = true ∧ nonceLen k = 0 := by
  cases k <;> simp_all [xAlg, Kind.is2022, Kind.supportEih, nonceLen]

/-! ### the datagrams `encode` builds -/

/-- plaintext of a request after the ids -/
def requestBody (addr : Addr) (item : Bytes) (r : Rand) : Bytes :=
  [Mode.client.toU8] ++ be64 r.now ++ be16 r.padding.length ++ r.padding ++ Socks5Addr.encode addr ++ item

/-- plaintext of a reply after the ids -/
def replyBody (s : Session) (addr : Addr) (item : Bytes) (r : Rand) : Bytes :=
  [Mode.server.toU8] ++ be64 r.now ++ be64 s.clientSessionId ++ be16 r.padding.length ++ r.padding ++
    Socks5Addr.encode addr ++ item

theorem requestBody_len (addr : Addr) (item : Bytes) (r : Rand) :
    (requestBody addr item r).length = 11 + r.padding.length + (Socks5Addr.encode addr).length + item.length := by
  simp [requestBody]; omega

theorem replyBody_len (s : Session) (addr : Addr) (item : Bytes) (r : Rand) :
    (replyBody s addr item r).length = 19 + r.padding.length + (Socks5Addr.encode addr).length + item.length := by
  simp [replyBody]; omega

/-- the key a reply of the AES kinds is sealed under: the key of the session's user, else the server key -/
def replyKey (ctx : Ctx) (s : Session) : Bytes :=
  match s.user with
  | some u => u.key
  | none => ctx.key

theorem encode_request_chacha (C : Crypto) (ctx : Ctx) (xa : Alg) (hx : xAlg ctx.kind = some xa) (s : Session)
    (addr : Addr) (item : Bytes) (r : Rand) :
    encode C ctx .client s addr item r =
      r.nonce ++ C.sealB xa (ctx.key.take 32) r.nonce []
        (be64 s.clientSessionId ++ be64 s.packetId ++ requestBody addr item r) := by
  simp [encode, (kind_chacha _ _ hx).1, hx, requestBody]

theorem encode_reply_chacha (C : Crypto) (ctx : Ctx) (xa : Alg) (hx : xAlg ctx.kind = some xa) (s : Session)
    (addr : Addr) (item : Bytes) (r : Rand) :
    encode C ctx .server s addr item r =
      r.nonce ++ C.sealB xa (ctx.key.take 32) r.nonce []
        (be64 s.serverSessionId ++ be64 s.packetId ++ replyBody s addr item r) := by
  simp [encode, (kind_chacha _ _ hx).1, hx, replyBody]

theorem encode_request_aes (C : Crypto) (ctx : Ctx) (hs : ctx.kind.supportEih = true) (hik : ctx.identityKeys = [])
    (s : Session) (addr : Addr) (item : Bytes) (r : Rand) :
    encode C ctx .client s addr item r =
      C.aesEnc ctx.key (be64 s.clientSessionId ++ be64 s.packetId) ++
        C.sealB ctx.kind.alg (aesSessionKey C ctx.kind ctx.key s.clientSessionId)
          ((be64 s.clientSessionId ++ be64 s.packetId).drop 4) [] (requestBody addr item r) := by
  simp [encode, (kind_eih _ hs).1, (kind_eih _ hs).2.1, hik, requestBody]

theorem encode_request_eih (C : Crypto) (ctx : Ctx) (hs : ctx.kind.supportEih = true) (ipsk : Bytes)
    (hik : ctx.identityKeys = [ipsk]) (s : Session) (addr : Addr) (item : Bytes) (r : Rand) :
    encode C ctx .client s addr item r =
      C.aesEnc ipsk (be64 s.clientSessionId ++ be64 s.packetId) ++
        C.aesEnc ipsk (xorBytes ((C.blake3Hash ctx.key).take 16) (be64 s.clientSessionId ++ be64 s.packetId)) ++
        C.sealB ctx.kind.alg (aesSessionKey C ctx.kind ctx.key s.clientSessionId)
          ((be64 s.clientSessionId ++ be64 s.packetId).drop 4) [] (requestBody addr item r) := by
  simp [encode, (kind_eih _ hs).1, (kind_eih _ hs).2.1, hik, hs, requestBody, withEih]

theorem encode_reply_aes (C : Crypto) (ctx : Ctx) (hs : ctx.kind.supportEih = true)
    (s : Session) (addr : Addr) (item : Bytes) (r : Rand) :
    encode C ctx .server s addr item r =
      C.aesEnc (replyKey ctx s) (be64 s.serverSessionId ++ be64 s.packetId) ++
        C.sealB ctx.kind.alg (aesSessionKey C ctx.kind (replyKey ctx s) s.serverSessionId)
          ((be64 s.serverSessionId ++ be64 s.packetId).drop 4) [] (replyBody s addr item r) := by
  simp only [encode, (kind_eih _ hs).1, (kind_eih _ hs).2.1, replyBody, replyKey]
  cases s.user <;> simp

/-! ### round trips, one per arm -/

/-- what the randomness and the clocks must satisfy: the timestamp fits its 8 bytes and is recent for the
decoder, the padding length fits its 2 bytes -/
structure RandOk (r : Rand) (now : Nat) : Prop where
  ts : r.now < 2 ^ 64
  recent : absDiff now r.now ≤ Consts.ssMaxTimeDiff
  pad : r.padding.length < 65536

instance (r : Rand) (now : Nat) : Decidable (RandOk r now) :=
  decidable_of_iff (r.now < 2 ^ 64 ∧ absDiff now r.now ≤ Consts.ssMaxTimeDiff ∧ r.padding.length < 65536)
    ⟨fun h => ⟨h.1, h.2.1, h.2.2⟩, fun h => ⟨h.ts, h.recent, h.pad⟩⟩

theorem request_chacha (C : Crypto) (hC : C.Lawful) (cc sc : Ctx) (hkind : cc.kind = sc.kind)
    (hx : (xAlg sc.kind).isSome = true) (hkey : cc.key.take 32 = sc.key.take 32)
    (s : Session) (hsid : s.clientSessionId < 2 ^ 64) (hpid : s.packetId < 2 ^ 64)
    (addr : Addr) (ha : addr.Accepted) (item : Bytes) (r : Rand) (now : Nat) (hr : RandOk r now)
    (hn : r.nonce.length = 24) :
    decode C sc .server now (encode C cc .client s addr item r) =
      .ok (item, addr, ⟨s.clientSessionId, 0, s.packetId, none⟩) := by
  obtain ⟨xa, hxa⟩ := Option.isSome_iff_exists.mp hx
  obtain ⟨h22, hse, hnl⟩ := kind_chacha _ _ hxa
  rw [encode_request_chacha C cc xa (by rw [hkind]; exact hxa), decode_2022 C sc h22]
  have hal := addr_len_ge addr ha
  rw [if_neg (by
    simp only [headerLen, requireEih, hse, hnl, List.length_append, hC.seal_len, hn, requestBody_len, be64_length]
    simp; omega)]
  rw [opened_chacha C hC sc .server xa hxa _ _ hkey hn _ _ hsid hpid]
  exact bodyParse_request now _ _ r.now none hr.ts hr.recent r.padding hr.pad addr ha item

theorem reply_chacha (C : Crypto) (hC : C.Lawful) (cc sc : Ctx) (hkind : cc.kind = sc.kind)
    (hx : (xAlg sc.kind).isSome = true) (hkey : cc.key.take 32 = sc.key.take 32)
    (s : Session) (hcsid : s.clientSessionId < 2 ^ 64) (hssid : s.serverSessionId < 2 ^ 64) (hpid : s.packetId < 2 ^ 64)
    (addr : Addr) (ha : addr.Accepted) (item : Bytes) (r : Rand) (now : Nat) (hr : RandOk r now)
    (hn : r.nonce.length = 24) :
    decode C cc .client now (encode C sc .server s addr item r) =
      .ok (item, addr, ⟨s.clientSessionId, s.serverSessionId, s.packetId, none⟩) := by
  obtain ⟨xa, hxa⟩ := Option.isSome_iff_exists.mp hx
  have hxc : xAlg cc.kind = some xa := by rw [hkind]; exact hxa
  obtain ⟨h22, hse, hnl⟩ := kind_chacha _ _ hxc
  rw [encode_reply_chacha C sc xa hxa, decode_2022 C cc h22]
  have hal := addr_len_ge addr ha
  rw [if_neg (by
    simp only [headerLen, hnl, List.length_append, hC.seal_len, hn, replyBody_len, be64_length]
    simp; omega)]
  rw [opened_chacha C hC cc .client xa hxc _ _ hkey.symm hn _ _ hssid hpid]
  exact bodyParse_reply now _ _ r.now _ none hr.ts hcsid hr.recent r.padding hr.pad addr ha item

theorem request_aes (C : Crypto) (hC : C.Lawful) (cc sc : Ctx) (hkind : cc.kind = sc.kind)
    (hs : sc.kind.supportEih = true) (hkey : cc.key = sc.key) (hik : cc.identityKeys = []) (hu : sc.users = [])
    (s : Session) (hsid : s.clientSessionId < 2 ^ 64) (hpid : s.packetId < 2 ^ 64)
    (addr : Addr) (ha : addr.Accepted) (item : Bytes) (r : Rand) (now : Nat) (hr : RandOk r now) :
    decode C sc .server now (encode C cc .client s addr item r) =
      .ok (item, addr, ⟨s.clientSessionId, 0, s.packetId, none⟩) := by
  obtain ⟨hx, h22, hnl⟩ := kind_eih _ hs
  have hne : ¬ requireEih sc .server := by simp [requireEih, hu]
  rw [encode_request_aes C cc (by rw [hkind]; exact hs) hik, decode_2022 C sc h22, hkind, hkey]
  have hal := addr_len_ge addr ha
  rw [if_neg (by
    simp only [headerLen, hne, hnl, List.length_append, hC.seal_len, hC.aes_enc_len, requestBody_len]
    simp; omega)]
  rw [opened_aes C hC sc .server hx hne _ _ hsid hpid]
  exact bodyParse_request now _ _ r.now none hr.ts hr.recent r.padding hr.pad addr ha item

theorem request_eih (C : Crypto) (hC : C.Lawful) (cc sc : Ctx) (hkind : cc.kind = sc.kind)
    (hs : sc.kind.supportEih = true) (hik : cc.identityKeys = [sc.key]) (u : User)
    (hfind : findUser sc.users ((C.blake3Hash cc.key).take 16) = some u) (huk : u.key = cc.key)
    (s : Session) (hsid : s.clientSessionId < 2 ^ 64) (hpid : s.packetId < 2 ^ 64)
    (addr : Addr) (ha : addr.Accepted) (item : Bytes) (r : Rand) (now : Nat) (hr : RandOk r now) :
    decode C sc .server now (encode C cc .client s addr item r) =
      .ok (item, addr, ⟨s.clientSessionId, 0, s.packetId, some u⟩) := by
  obtain ⟨hx, h22, hnl⟩ := kind_eih _ hs
  have hune : sc.users.length > 0 := by
    cases hus : sc.users with
    | nil => rw [hus] at hfind; simp [findUser] at hfind
    | cons _ _ => simp
  have hreq : requireEih sc .server := ⟨rfl, hs, hune⟩
  rw [encode_request_eih C cc (by rw [hkind]; exact hs) sc.key hik, decode_2022 C sc h22, hkind]
  have hal := addr_len_ge addr ha
  rw [if_neg (by
    simp only [headerLen, hreq, hnl, List.length_append, hC.seal_len, hC.aes_enc_len, requestBody_len]
    simp; omega)]
  rw [opened_eih C hC sc hx hreq cc.key u hfind huk _ _ hsid hpid]
  exact bodyParse_request now _ _ r.now (some u) hr.ts hr.recent r.padding hr.pad addr ha item

theorem reply_aes (C : Crypto) (hC : C.Lawful) (cc sc : Ctx) (hkind : cc.kind = sc.kind)
    (hs : sc.kind.supportEih = true) (s : Session) (hkey : replyKey sc s = cc.key)
    (hcsid : s.clientSessionId < 2 ^ 64) (hssid : s.serverSessionId < 2 ^ 64) (hpid : s.packetId < 2 ^ 64)
    (addr : Addr) (ha : addr.Accepted) (item : Bytes) (r : Rand) (now : Nat) (hr : RandOk r now) :
    decode C cc .client now (encode C sc .server s addr item r) =
      .ok (item, addr, ⟨s.clientSessionId, s.serverSessionId, s.packetId, none⟩) := by
  obtain ⟨hx, h22, hnl⟩ := kind_eih _ (show cc.kind.supportEih = true by rw [hkind]; exact hs)
  have hne : ¬ requireEih cc .client := by simp [requireEih]
  rw [encode_reply_aes C sc hs, decode_2022 C cc h22, ← hkind, hkey]
  have hal := addr_len_ge addr ha
  rw [if_neg (by
    simp only [headerLen, hnl, List.length_append, hC.seal_len, hC.aes_enc_len, replyBody_len]
    simp; omega)]
  rw [opened_aes C hC cc .client hx hne _ _ hssid hpid]
  exact bodyParse_reply now _ _ r.now _ none hr.ts hcsid hr.recent r.padding hr.pad addr ha item

/-! ### every supported pairing of a client context with a server context -/

/-- the client context `cc` and the server context `sc` are configured for each other; `owner` = the
registered user the server will attribute this client's datagrams to (`none` without a user table).
  * XChaCha kinds: the same (first 32 bytes of the) key;
  * AES kinds, no user table: no identity keys, the same key;
  * AES kinds, user table: the client's one identity key is the server key, the client's key is the key
    of the user its identity hash selects in the table. -/
def Paired (C : Crypto) (cc sc : Ctx) (owner : Option User) : Prop :=
  cc.kind = sc.kind ∧ sc.kind.is2022 = true ∧
  (if (xAlg sc.kind).isSome then cc.key.take 32 = sc.key.take 32 ∧ owner = none
   else if sc.users = [] then cc.identityKeys = [] ∧ cc.key = sc.key ∧ owner = none
   else cc.identityKeys = [sc.key] ∧ findUser sc.users ((C.blake3Hash cc.key).take 16) = owner ∧
     owner.map (·.key) = some cc.key)

instance (C : Crypto) (cc sc : Ctx) (owner : Option User) : Decidable (Paired C cc sc owner) := by
  unfold Paired; exact inferInstance

/-- the nonce is needed (and must have its 24 bytes) exactly for the XChaCha kinds -/
def NonceOk (k : Kind) (r : Rand) : Prop := (xAlg k).isSome = true → r.nonce.length = 24

instance (k : Kind) (r : Rand) : Decidable (NonceOk k r) := by unfold NonceOk; exact inferInstance

theorem request_paired (C : Crypto) (hC : C.Lawful) (cc sc : Ctx) (owner : Option User) (hp : Paired C cc sc owner)
    (s : Session) (hsid : s.clientSessionId < 2 ^ 64) (hpid : s.packetId < 2 ^ 64)
    (addr : Addr) (ha : addr.Accepted) (item : Bytes) (r : Rand) (now : Nat) (hr : RandOk r now)
    (hn : NonceOk sc.kind r) :
    decode C sc .server now (encode C cc .client s addr item r) =
      .ok (item, addr, ⟨s.clientSessionId, 0, s.packetId, owner⟩) := by
  obtain ⟨hkind, h22, h⟩ := hp
  by_cases hx : (xAlg sc.kind).isSome = true
  · rw [if_pos hx] at h
    rw [h.2]
    exact request_chacha C hC cc sc hkind hx h.1 s hsid hpid addr ha item r now hr (hn hx)
  · rw [if_neg hx] at h
    have hxn : xAlg sc.kind = none := by simpa using hx
    have hs := (kind_aes _ hxn h22).1
    by_cases hu : sc.users = []
    · rw [if_pos hu] at h
      rw [h.2.2]
      exact request_aes C hC cc sc hkind hs h.2.1 h.1 hu s hsid hpid addr ha item r now hr
    · rw [if_neg hu] at h
      obtain ⟨hik, hfind, hkey⟩ := h
      cases owner with
      | none => simp at hkey
      | some u =>
        simp only [Option.map_some, Option.some.injEq] at hkey
        exact request_eih C hC cc sc hkind hs hik u hfind hkey s hsid hpid addr ha item r now hr

theorem reply_paired (C : Crypto) (hC : C.Lawful) (cc sc : Ctx) (owner : Option User) (hp : Paired C cc sc owner)
    (s : Session) (hown : s.user = owner)
    (hcsid : s.clientSessionId < 2 ^ 64) (hssid : s.serverSessionId < 2 ^ 64) (hpid : s.packetId < 2 ^ 64)
    (addr : Addr) (ha : addr.Accepted) (item : Bytes) (r : Rand) (now : Nat) (hr : RandOk r now)
    (hn : NonceOk sc.kind r) :
    decode C cc .client now (encode C sc .server s addr item r) =
      .ok (item, addr, ⟨s.clientSessionId, s.serverSessionId, s.packetId, none⟩) := by
  obtain ⟨hkind, h22, h⟩ := hp
  by_cases hx : (xAlg sc.kind).isSome = true
  · rw [if_pos hx] at h
    exact reply_chacha C hC cc sc hkind hx h.1 s hcsid hssid hpid addr ha item r now hr (hn hx)
  · rw [if_neg hx] at h
    have hxn : xAlg sc.kind = none := by simpa using hx
    have hs := (kind_aes _ hxn h22).1
    refine reply_aes C hC cc sc hkind hs s ?_ hcsid hssid hpid addr ha item r now hr
    by_cases hu : sc.users = []
    · rw [if_pos hu] at h
      simp only [replyKey, hown, h.2.2, h.2.1]
    · rw [if_neg hu] at h
      obtain ⟨_, _, hkey⟩ := h
      cases owner with
      | none => simp at hkey
      | some u =>
        simp only [Option.map_some, Option.some.injEq] at hkey
        simp only [replyKey, hown, hkey]

/-! ### ownership: reading the decision off `decode` -/

/-- a session the server decodes carries exactly the ids and the user of the key that opened it -/
theorem bodyParse_server_session (now sid pid : Nat) (body : Bytes) (user : Option User) (p : Bytes) (a : Addr)
    (s : Session) (h : bodyParse .server now sid pid body user = .ok (p, a, s)) : s = ⟨sid, 0, pid, user⟩ := by
  unfold bodyParse at h
  have hmode : ¬ (Mode.server = Mode.client) := by decide
  simp only [hmode, if_false] at h
  split at h
  · cases h
  · split at h
    · cases h
    · split at h
      · cases h
      · split at h
        · simp only [Res.ok.injEq, Prod.mk.injEq] at h
          exact h.2.2.symm
        · cases h
        · cases h

/-- an empty datagram is never decoded by a 2022 cipher -/
theorem decode_nil (C : Crypto) (ctx : Ctx) (hk : ctx.kind.is2022 = true) (mode : Mode) (now : Nat) :
    decode C ctx mode now [] = .err := by
  rw [decode_2022 C ctx hk]
  rw [if_pos (by simp only [headerLen, List.length_nil]; omega)]

/-- the user table answers with `u` for a hash that only `u` carries -/
theorem findUser_unique (users : List User) (h : Bytes) (u : User) (hmem : u ∈ users) (hh : u.hash = h)
    (huniq : ∀ v ∈ users, v.hash = h → v = u) : findUser users h = some u := by
  unfold findUser
  induction users with
  | nil => cases hmem
  | cons v vs ih =>
    rw [List.find?_cons]
    by_cases hv : v.hash = h
    · have hvu := huniq v (by simp) hv
      subst hvu
      simp only [hv, decide_true]
    · simp only [hv, decide_false]
      rcases List.mem_cons.mp hmem with e | hm
      · exact absurd (e ▸ hh) hv
      · exact ih hm (fun w hw => huniq w (List.mem_cons_of_mem _ hw))

/-- what `findUser` answers is a registered user carrying that hash -/
theorem findUser_some (users : List User) (h : Bytes) (u : User) (hf : findUser users h = some u) :
    u ∈ users ∧ u.hash = h := by
  unfold findUser at hf
  exact ⟨List.mem_of_find?_eq_some hf, by simpa using List.find?_some hf⟩

/-! ### why the padding length must fit its two bytes -/

theorem be16_mod (n : Nat) : be16 n = be16 (n % 65536) := by
  have h1 : n / 256 % 256 = n % 65536 / 256 % 256 := by omega
  have h2 : n % 256 = n % 65536 % 256 := by omega
  simp only [be16, u8, h1, h2]

/-- a 2022 request depends on address, payload, padding and clock only through its plaintext body -/
theorem encode_request_congr (C : Crypto) (ctx : Ctx) (hk : ctx.kind.is2022 = true) (s : Session)
    (addr addr' : Addr) (item item' : Bytes) (r r' : Rand) (hn : r.nonce = r'.nonce)
    (hb : requestBody addr item r = requestBody addr' item' r') :
    encode C ctx .client s addr item r = encode C ctx .client s addr' item' r' := by
  unfold encode
  simp only [hk, not_true_eq_false, if_false]
  rw [show [Mode.client.toU8] ++ be64 r.now ++ be16 r.padding.length ++ r.padding ++ Socks5Addr.encode addr ++ item =
    requestBody addr item r from rfl,
    show [Mode.client.toU8] ++ be64 r'.now ++ be16 r'.padding.length ++ r'.padding ++ Socks5Addr.encode addr' ++ item' =
    requestBody addr' item' r' from rfl, hb, hn]

/-- **The padding bound is necessary.**  The length field has two bytes; a padding whose length has
wrapped (`pad1.length + 65536 * m` bytes) is skipped only up to `pad1.length` and the decoder then reads
the address from *inside the padding*: it returns another address and a payload that is not the
one sealed.  (The Rust draws at most `MAX_PADDING` < 65536 bytes, so this input does not arise there;
it shows `r.padding.length < 65536` cannot be dropped from the round trip.) -/
theorem request_padding_overflow (C : Crypto) (hC : C.Lawful) (cc sc : Ctx) (owner : Option User)
    (hp : Paired C cc sc owner) (s : Session) (hsid : s.clientSessionId < 2 ^ 64) (hpid : s.packetId < 2 ^ 64)
    (addr : Addr) (item : Bytes) (r : Rand) (now : Nat) (hts : r.now < 2 ^ 64)
    (hrecent : absDiff now r.now ≤ Consts.ssMaxTimeDiff) (hn : NonceOk sc.kind r)
    (pad1 junk : Bytes) (a2 : Addr) (ha2 : a2.Accepted) (hpad : r.padding = pad1 ++ Socks5Addr.encode a2 ++ junk)
    (h1 : pad1.length < 65536) (m : Nat) (hwrap : r.padding.length = pad1.length + 65536 * m) :
    decode C sc .server now (encode C cc .client s addr item r) =
      .ok (junk ++ Socks5Addr.encode addr ++ item, a2, ⟨s.clientSessionId, 0, s.packetId, owner⟩) := by
  have h22 : cc.kind.is2022 = true := by rw [hp.1]; exact hp.2.1
  have hb : requestBody addr item r =
      requestBody a2 (junk ++ Socks5Addr.encode addr ++ item) { r with padding := pad1 } := by
    have hl : be16 r.padding.length = be16 pad1.length := by
      rw [be16_mod, hwrap, Nat.add_mul_mod_self_left, Nat.mod_eq_of_lt h1]
    simp only [requestBody, hl]
    simp only [hpad, List.append_assoc]
  rw [encode_request_congr C cc h22 s addr a2 item _ r { r with padding := pad1 } rfl hb]
  exact request_paired C hC cc sc owner hp s hsid hpid a2 ha2 _ { r with padding := pad1 } now ⟨hts, hrecent, h1⟩ hn

end Octo.SsUdp
