import Octo.Gen.SsClientGen
import Octo.Proofs.SsUdpGen
import Octo.Proofs.SsClientGenInner
import Octo.Proofs.PacketWindowGen
/-!
  The generated code (`Octo.SsClientGen`, written by `translate_ssclient.py` from the module `udp` of
  `octo-squirrel-client/src/client/shadowsocks.rs`) against the hand-written model `SsUdp.ClientCodec`
  (`Octo/Model/SsUdp.lean`) and the replay window `PW.Filter` (`Octo/Model/PacketWindow.lean`).

  The generated `DatagramPacketCodec.decode` CALLS the generated `Octo.SsUdpGen.SessionCodec.decode` (and through it
  `AEADCipherCodec.decode`, client direction) and the generated `Octo.PWGen.PacketWindowFilter.validate_packet_id`.

  Part 1: hypothesis-free unfolding: one call of `decode` / `encode` = a readable case table (`decodeSpec`, `encode_unfold`)
          over the result of the inner call and of the window filter, for every state, input, externals, both profiles.
  Part 2: consequences read off the table, still without any model: a reply of another session changes nothing; a refused
          reply is `Ok(None)`, never `Err`; only the server session id is ever written; no panic of its own.
  Part 3: one `decode` call = `SsUdp.ClientCodec.decode` (relative to the inner decoder agreeing with `SsUdp.decode`; the
          window through `gen_validate_refines`).
  Part 4: histories of replies: delivered = own session, fresh, inside the window (through `PW.c11_refines`).
  Part 5: `encode`: = `SsUdp.ClientCodec.encode` under the model instantiation of the inner encoder; ids strictly increase,
          `Err` at `u64::MAX`, no panic of its own.
  Part 6: the free functions.
-/
set_option linter.unusedSimpArgs false
set_option linter.unusedVariables false
namespace Octo.SsClientGen
open Octo Octo.PWGen Octo.AddrGen Octo.SsUdpGen Octo.Addr

/-! ## Part 1 — unfolding -/

section flow
variable {α β ρ : Type}
theorem bind_next (a : α) (k : α → Flow β ρ) : (Flow.next a : Flow α ρ).bind k = k a := rfl
theorem bind_ret (r : ρ) (k : α → Flow β ρ) : (Flow.ret r : Flow α ρ).bind k = Flow.ret r := rfl
theorem bind_panic (k : α → Flow β ρ) : (Flow.panic : Flow α ρ).bind k = Flow.panic := rfl
theorem run_ret (r : ρ) : Flow.run (Flow.ret r : Flow Empty ρ) = PWGen.Res.ok r := rfl
theorem run_panic : Flow.run (Flow.panic : Flow Empty ρ) = PWGen.Res.panic := rfl
theorem call_ok (a : α) : (Flow.call (PWGen.Res.ok a) : Flow α ρ) = Flow.next a := rfl
theorem call_panic : (Flow.call (PWGen.Res.panic : PWGen.Res α) : Flow α ρ) = Flow.panic := rfl
theorem q_ok (v : α) (e : ρ) : (Flow.question (RResult.ok v) e : Flow α ρ) = Flow.next v := rfl
theorem q_err (e : ρ) : (Flow.question (RResult.err : RResult α) e : Flow α ρ) = Flow.ret e := rfl
end flow

/-- `CipherKind::is_aead_2022` as a plain function (the generated one is `Res.ok` of it, see `kind_is22`) -/
def is22 : CipherKind → Bool
  | .Aead2022Blake3Aes128Gcm | .Aead2022Blake3Aes256Gcm | .Aead2022Blake3ChaCha8Poly1305 | .Aead2022Blake3ChaCha20Poly1305 => true
  | _ => false

theorem kind_is22 (ov : Bool) (kind : CipherKind) : CipherKind.is_aead_2022 ov kind = PWGen.Res.ok (is22 kind) := by
  cases kind <;> rfl

theorem codec_is22 (ov : Bool) {T : ExtTypes} (X : Ext T) (N : Usize) (c : SessionCodec T) :
    SessionCodec.is_aead_2022 ov X N c = PWGen.Res.ok (is22 c.cipher.kind) := by
  unfold SessionCodec.is_aead_2022
  rw [kind_is22]; rfl

theorem is22_of_toKind (kind : CipherKind) (k : Ss.Kind) (h : toKind kind = some k) : is22 kind = k.is2022 := by
  cases kind <;> simp [toKind] at h <;> subst h <;> rfl

theorem u64max_toNat : U64.MAX.toNat = 2 ^ 64 - 1 := by decide

/-- what `decode` does with the result of the inner call `self.codec.decode(src)?` -/
def decodeSpec (ov : Bool) {T : ExtTypes} (g : DatagramPacketCodec T)
    (inner : PWGen.Res (Cursor × RResult (Option (Cursor × Address × Session)))) :
    PWGen.Res (DatagramPacketCodec T × Cursor × RResult (Option (Cursor × Address))) :=
  match inner with
  | .panic => .panic
  | .ok (src', .err) => .ok (g, src', .err)
  | .ok (src', .ok none) => .ok (g, src', .ok none)
  | .ok (src', .ok (some (p, a, s))) =>
    if is22 g.codec.cipher.kind then
      if s.client_session_id = g.session.client_session_id then
        match g.filter.validate_packet_id ov s.packet_id U64.MAX with
        | .panic => .panic
        | .ok (flt, true) =>
          .ok ({ g with filter := flt, session := { g.session with server_session_id := s.server_session_id } }, src', .ok (some (p, a)))
        | .ok (flt, false) => .ok ({ g with filter := flt }, src', .ok none)
      else .ok (g, src', .ok none)
    else .ok (g, src', .ok (some (p, a)))

/-- **`DatagramPacketCodec::decode`, every state, input, externals, both profiles**: an empty buffer is `Ok(None)`; otherwise
the case table `decodeSpec` over the result of the inner call -/
theorem decode_unfold (ov : Bool) {T : ExtTypes} (X : Ext T) (Y : ClientExt T) (N : Usize) (g : DatagramPacketCodec T) (b : Cursor) :
    DatagramPacketCodec.decode ov X Y N g b =
      if b = [] then PWGen.Res.ok (g, b, RResult.ok none) else decodeSpec ov g (SessionCodec.decode ov X N g.codec b) := by
  unfold DatagramPacketCodec.decode
  cases b with
  | nil => rfl
  | cons x xs =>
    have he : Cursor.is_empty (x :: xs) = false := rfl
    simp only [he, Bool.false_eq_true, if_false, reduceCtorEq]
    cases hin : SessionCodec.decode ov X N g.codec (x :: xs) with
    | panic => rfl
    | ok v =>
      obtain ⟨src', r⟩ := v
      cases r with
      | err => rfl
      | ok o =>
        cases o with
        | none => rfl
        | some t =>
          obtain ⟨p, a, s⟩ := t
          simp only [decodeSpec, call_ok, bind_next, q_ok, codec_is22]
          cases h22 : is22 g.codec.cipher.kind
          · rfl
          · simp only [if_true]
            by_cases hs : s.client_session_id = g.session.client_session_id
            · have hbne : (s.client_session_id != g.session.client_session_id) = false := by simp [hs]
              simp only [hs, bne_self_eq_false, Bool.false_eq_true, if_false, bind_next, if_true]
              cases hv : g.filter.validate_packet_id ov s.packet_id U64.MAX with
              | panic => simp only [hv]; rfl
              | ok w =>
                obtain ⟨flt, fresh⟩ := w
                cases fresh <;> rfl
            · have hbne : (s.client_session_id != g.session.client_session_id) = true := by simp [hs]
              simp only [hs, hbne, if_true, if_false, bind_ret]
              rfl

theorem checked_add_one (a : UInt64) :
    U64.checked_add a 1 = if a.toNat + 1 < 2 ^ 64 then some (a + 1) else none := rfl

theorem add_one_toNat (a : UInt64) (h : a.toNat + 1 < 2 ^ 64) : (a + 1).toNat = a.toNat + 1 := by
  rw [UInt64.toNat_add]; simp only [UInt64.reduceToNat]; omega

/-- **`DatagramPacketCodec::encode`, every state, input, externals, both profiles**: the packet id is stepped by
`checked_add(1)`; on overflow `Err` with nothing changed and the inner encoder not called; otherwise the inner encoder gets
the codec's own session with the NEW packet id, and its result is the result -/
theorem encode_unfold (ov : Bool) {T : ExtTypes} (X : Ext T) (Y : ClientExt T) (N : Usize) (g : DatagramPacketCodec T)
    (item : Cursor × Address) (dst : Cursor) :
    DatagramPacketCodec.encode ov X Y N g item dst =
      match U64.checked_add g.session.packet_id 1 with
      | none => PWGen.Res.ok (g, dst, RResult.err)
      | some pid =>
        match Y.SessionCodec_encode g.codec (item.1, item.2, { g.session with packet_id := pid }) dst with
        | .panic => .panic
        | .ok (dst', r) => .ok ({ g with session := { g.session with packet_id := pid } }, dst', r) := by
  unfold DatagramPacketCodec.encode
  cases hc : U64.checked_add g.session.packet_id 1 with
  | none => rfl
  | some pid =>
    simp only [Option.ok_or_else, q_ok, bind_next]
    cases hy : Y.SessionCodec_encode g.codec (item.1, item.2, { g.session with packet_id := pid }) dst with
    | panic => rfl
    | ok w => rfl

/-! ## Part 2 — read off the table (no model, no hypothesis on the externals) -/

theorem session_decode_nil (ov : Bool) {T : ExtTypes} (X : Ext T) (N : Usize) (c : SessionCodec T) :
    SessionCodec.decode ov X N c [] = PWGen.Res.ok ([], RResult.ok none) := rfl

/-- **a reply of ANOTHER client session (2022 ciphers) changes nothing and delivers nothing**: the result is `Ok(None)` and the
codec afterwards IS the codec before - replay window, session ids, everything (the filter is not consulted) -/
theorem decode_foreign (ov : Bool) {T : ExtTypes} (X : Ext T) (Y : ClientExt T) (N : Usize) (g : DatagramPacketCodec T) (b src' p : Cursor)
    (a : Address) (s : Session)
    (hin : SessionCodec.decode ov X N g.codec b = PWGen.Res.ok (src', RResult.ok (some (p, a, s))))
    (h22 : is22 g.codec.cipher.kind = true) (hne : s.client_session_id ≠ g.session.client_session_id) :
    DatagramPacketCodec.decode ov X Y N g b = PWGen.Res.ok (g, src', RResult.ok none) := by
  rw [decode_unfold]
  by_cases hb : b = []
  · subst hb; rw [session_decode_nil] at hin; cases hin
  · simp only [hb, if_false, hin, decodeSpec, h22, if_true, hne]

/-- **a reply of the own session: the window decides**, and whatever it answers the result is `Ok(..)`: a duplicate / stale
packet id is `Ok(None)` (the association goes on), a fresh one is delivered and ONLY the server session id is copied -/
theorem decode_own (ov : Bool) {T : ExtTypes} (X : Ext T) (Y : ClientExt T) (N : Usize) (g : DatagramPacketCodec T) (b src' p : Cursor)
    (a : Address) (s : Session) (flt : PacketWindowFilter) (fresh : Bool)
    (hin : SessionCodec.decode ov X N g.codec b = PWGen.Res.ok (src', RResult.ok (some (p, a, s))))
    (h22 : is22 g.codec.cipher.kind = true) (heq : s.client_session_id = g.session.client_session_id)
    (hv : g.filter.validate_packet_id ov s.packet_id U64.MAX = PWGen.Res.ok (flt, fresh)) :
    DatagramPacketCodec.decode ov X Y N g b =
      if fresh then
        PWGen.Res.ok ({ g with filter := flt, session := { g.session with server_session_id := s.server_session_id } }, src',
          RResult.ok (some (p, a)))
      else PWGen.Res.ok ({ g with filter := flt }, src', RResult.ok none) := by
  rw [decode_unfold]
  by_cases hb : b = []
  · subst hb; rw [session_decode_nil] at hin; cases hin
  · simp only [hb, if_false, hin, decodeSpec, h22, if_true, heq, hv]
    cases fresh <;> rfl

/-- **legacy ciphers: no ids, no window**: every reply the inner decoder hands out is delivered, the codec is untouched -/
theorem decode_legacy (ov : Bool) {T : ExtTypes} (X : Ext T) (Y : ClientExt T) (N : Usize) (g : DatagramPacketCodec T) (b src' p : Cursor)
    (a : Address) (s : Session)
    (hin : SessionCodec.decode ov X N g.codec b = PWGen.Res.ok (src', RResult.ok (some (p, a, s))))
    (h22 : is22 g.codec.cipher.kind = false) :
    DatagramPacketCodec.decode ov X Y N g b = PWGen.Res.ok (g, src', RResult.ok (some (p, a))) := by
  rw [decode_unfold]
  by_cases hb : b = []
  · subst hb; rw [session_decode_nil] at hin; cases hin
  · simp only [hb, if_false, hin, decodeSpec, h22, Bool.false_eq_true]

/-- what one `decode` call can change: nothing but the window and the server session id -/
theorem decode_frame (ov : Bool) {T : ExtTypes} (X : Ext T) (Y : ClientExt T) (N : Usize) (g g' : DatagramPacketCodec T) (b src' : Cursor)
    (r : RResult (Option (Cursor × Address)))
    (h : DatagramPacketCodec.decode ov X Y N g b = PWGen.Res.ok (g', src', r)) :
    g'.codec = g.codec ∧ g'.session.client_session_id = g.session.client_session_id ∧
      g'.session.packet_id = g.session.packet_id ∧ g'.session.user = g.session.user := by
  rw [decode_unfold] at h
  by_cases hb : b = []
  · simp only [hb, if_true, PWGen.Res.ok.injEq, Prod.mk.injEq] at h; obtain ⟨rfl, _⟩ := h; exact ⟨rfl, rfl, rfl, rfl⟩
  · simp only [hb, if_false] at h
    unfold decodeSpec at h
    split at h
    · cases h
    · simp only [PWGen.Res.ok.injEq, Prod.mk.injEq] at h; obtain ⟨rfl, _⟩ := h; exact ⟨rfl, rfl, rfl, rfl⟩
    · simp only [PWGen.Res.ok.injEq, Prod.mk.injEq] at h; obtain ⟨rfl, _⟩ := h; exact ⟨rfl, rfl, rfl, rfl⟩
    · split at h
      · split at h
        · split at h
          · cases h
          · simp only [PWGen.Res.ok.injEq, Prod.mk.injEq] at h; obtain ⟨rfl, _⟩ := h; exact ⟨rfl, rfl, rfl, rfl⟩
          · simp only [PWGen.Res.ok.injEq, Prod.mk.injEq] at h; obtain ⟨rfl, _⟩ := h; exact ⟨rfl, rfl, rfl, rfl⟩
        · simp only [PWGen.Res.ok.injEq, Prod.mk.injEq] at h; obtain ⟨rfl, _⟩ := h; exact ⟨rfl, rfl, rfl, rfl⟩
      · simp only [PWGen.Res.ok.injEq, Prod.mk.injEq] at h; obtain ⟨rfl, _⟩ := h; exact ⟨rfl, rfl, rfl, rfl⟩

/-- **the wrapper adds no `Err` of its own**: `decode` answers `Err` only when the inner decoder did (and then nothing changed) -/
theorem decode_err_only_inner (ov : Bool) {T : ExtTypes} (X : Ext T) (Y : ClientExt T) (N : Usize) (g g' : DatagramPacketCodec T)
    (b src' : Cursor) (h : DatagramPacketCodec.decode ov X Y N g b = PWGen.Res.ok (g', src', RResult.err)) :
    b ≠ [] ∧ SessionCodec.decode ov X N g.codec b = PWGen.Res.ok (src', RResult.err) ∧ g' = g := by
  rw [decode_unfold] at h
  by_cases hb : b = []
  · simp only [hb, if_true, PWGen.Res.ok.injEq, Prod.mk.injEq, reduceCtorEq, and_false] at h
  · simp only [hb, if_false] at h
    refine ⟨hb, ?_⟩
    unfold decodeSpec at h
    split at h
    · cases h
    · rename_i hin; simp only [PWGen.Res.ok.injEq, Prod.mk.injEq] at h; obtain ⟨rfl, rfl, _⟩ := h; exact ⟨hin, rfl⟩
    · simp only [PWGen.Res.ok.injEq, Prod.mk.injEq, reduceCtorEq, and_false] at h
    · split at h
      · split at h
        · split at h
          · cases h
          · simp only [PWGen.Res.ok.injEq, Prod.mk.injEq, reduceCtorEq, and_false] at h
          · simp only [PWGen.Res.ok.injEq, Prod.mk.injEq, reduceCtorEq, and_false] at h
        · simp only [PWGen.Res.ok.injEq, Prod.mk.injEq, reduceCtorEq, and_false] at h
      · simp only [PWGen.Res.ok.injEq, Prod.mk.injEq, reduceCtorEq, and_false] at h

/-- **no panic of its own**: on a well-formed window (`Rep`: every state reached from `PacketWindowFilter::new`) `decode` panics
only when the inner decoder does -/
theorem decode_panic_only_inner (ov : Bool) {T : ExtTypes} (X : Ext T) (Y : ClientExt T) (N : Usize) (g : DatagramPacketCodec T)
    (f : PW.Filter) (hf : Rep g.filter f) (b : Cursor) (h : DatagramPacketCodec.decode ov X Y N g b = PWGen.Res.panic) :
    b ≠ [] ∧ SessionCodec.decode ov X N g.codec b = PWGen.Res.panic := by
  rw [decode_unfold] at h
  by_cases hb : b = []
  · simp only [hb, if_true, reduceCtorEq] at h
  · simp only [hb, if_false] at h
    refine ⟨hb, ?_⟩
    unfold decodeSpec at h
    split at h
    · assumption
    · cases h
    · cases h
    · rename_i p a s _
      obtain ⟨flt, hv, _⟩ := gen_validate_refines ov g.filter f s.packet_id U64.MAX hf
      rw [hv] at h
      split at h
      · split at h
        · split at h
          · rename_i hp; cases hp
          · cases h
          · cases h
        · cases h
      · cases h

/-! ## Part 3 — one `decode` call = `SsUdp.ClientCodec.decode` -/

/-- `SessionCodec::decode` on a non-empty datagram: all of it goes to `AEADCipherCodec::decode`; nothing is left in `src` -/
theorem session_decode_unfold (ov : Bool) {T : ExtTypes} (X : Ext T) (N : Usize) (c : SessionCodec T) (b : Cursor)
    (hb : b.length < 2 ^ 64) (hne : b ≠ []) :
    SessionCodec.decode ov X N c b =
      match AEADCipherCodec.decode ov X N c.cipher c.context b with
      | .panic => .panic
      | .ok (_, .err) => .ok ([], .err)
      | .ok (_, .ok v) => .ok ([], .ok (some v)) := by
  unfold SessionCodec.decode
  have he : Cursor.is_empty b = false := by cases b with
    | nil => exact absurd rfl hne
    | cons _ _ => rfl
  have hl : (Cursor.len b).toNat = b.length := by simp [Cursor.len, UInt64.toNat_ofNat']; omega
  simp only [he, Bool.false_eq_true, if_false]
  rw [split_to_eval b _ (by rw [hl]; exact Nat.le_refl _)]
  simp only [bind_next, hl, List.drop_length, List.take_length]
  cases hd : AEADCipherCodec.decode ov X N c.cipher c.context b with
  | panic => rfl
  | ok w =>
    obtain ⟨s2, r⟩ := w
    cases r with
    | err => rfl
    | ok v => rfl

/-- the generated codec state as a model state: the session read as naturals, the window as the model filter it represents -/
def toCC {T : ExtTypes} (g : DatagramPacketCodec T) (f : PW.Filter) : SsUdp.ClientCodec := ⟨toSession g.session, f⟩

/-- how a result of the generated `decode` is read -/
def embedOut : RResult (Option (Cursor × Address)) → Octo.Res (Option (Bytes × Addr))
  | .ok none => .ok none
  | .ok (some (p, a)) => .ok (some (p, toAddr a))
  | .err => .err

/-- the generated result `r` (from state `g`, whose window represents `f`) agrees with the model's result `m`: a panic is a
panic; otherwise same outcome, the new state is the model's new state (session fields, window represented), the inner codec
is untouched and the whole datagram is consumed -/
def DecAgrees {T : ExtTypes} (g : DatagramPacketCodec T) (f : PW.Filter)
    (r : PWGen.Res (DatagramPacketCodec T × Cursor × RResult (Option (Cursor × Address))))
    (m : Octo.Res (Option (Bytes × Addr)) × SsUdp.ClientCodec) : Prop :=
  match r with
  | .panic => m = (.panic, toCC g f)
  | .ok (g', src', rr) => ∃ f', Rep g'.filter f' ∧ m = (embedOut rr, toCC g' f') ∧ g'.codec = g.codec ∧ src' = []

theorem u64_ne_iff (a b : UInt64) : a ≠ b ↔ a.toNat ≠ b.toNat := by
  rw [Ne, Ne, UInt64.toNat_inj]

/-- **one `decode` call = the model's `ClientCodec.decode`** for every codec state (window = any represented state), every
datagram shorter than 2^64, both profiles, ANY externals `X` - relative to the inner decoder: the generated
`AEADCipherCodec.decode` (client direction) on this datagram reads (`embed`) as the model's `SsUdp.decode .. .client` -/
theorem decode_eq_model (ov : Bool) {T : ExtTypes} (X : Ext T) (Y : ClientExt T) (N : Usize) (g : DatagramPacketCodec T) (f : PW.Filter)
    (C : Crypto) (ctx : Ss.Ctx) (now : Nat) (b : Cursor) (k : Ss.Kind)
    (hk : toKind g.codec.cipher.kind = some k) (hctx : ctx.kind = k) (hf : Rep g.filter f) (hb : b.length < 2 ^ 64)
    (hinner : b ≠ [] → embed (AEADCipherCodec.decode ov X N g.codec.cipher g.codec.context b) = SsUdp.decode C ctx .client now b) :
    DecAgrees g f (DatagramPacketCodec.decode ov X Y N g b) (SsUdp.ClientCodec.decode C ctx (toCC g f) now b) := by
  rw [decode_unfold]
  unfold SsUdp.ClientCodec.decode
  by_cases hne : b = []
  · subst hne
    simp only [if_true, List.isEmpty_nil]
    exact ⟨f, hf, rfl, rfl, rfl⟩
  have hie : b.isEmpty = false := by cases b with
    | nil => exact absurd rfl hne
    | cons _ _ => rfl
  have h22 := is22_of_toKind _ _ hk
  simp only [hne, if_false, hie, Bool.false_eq_true, session_decode_unfold ov X N g.codec b hb hne, ← hinner hne]
  cases hd : AEADCipherCodec.decode ov X N g.codec.cipher g.codec.context b with
  | panic => simp only [decodeSpec, embed]; rfl
  | ok w =>
    obtain ⟨s2, r⟩ := w
    cases r with
    | err => simp only [decodeSpec, embed]; exact ⟨f, hf, rfl, rfl, rfl⟩
    | ok v =>
      obtain ⟨p, a, s⟩ := v
      simp only [decodeSpec, embed, h22, hctx]
      cases hk22 : k.is2022
      · simp only [Bool.false_eq_true, if_false, not_false_eq_true, if_true]
        exact ⟨f, hf, rfl, rfl, rfl⟩
      · simp only [if_true, not_true_eq_false, if_false]
        by_cases hs : s.client_session_id = g.session.client_session_id
        · have hs' : ¬ (toSession s).clientSessionId ≠ (toCC g f).session.clientSessionId := by
            simp only [toSession, toCC, hs, ne_eq, not_true_eq_false, not_false_eq_true]
          obtain ⟨flt, hv, hrep⟩ := gen_validate_refines ov g.filter f s.packet_id U64.MAX hf
          rw [u64max_toNat] at hv hrep
          rw [if_pos hs, if_neg hs', hv]
          have hpid : (toSession s).packetId = s.packet_id.toNat := rfl
          have hflt : (toCC g f).filter = f := rfl
          rw [hpid, hflt]
          cases hfr : (f.validate s.packet_id.toNat (2 ^ 64 - 1)).2
          · simp only [Bool.false_eq_true, not_false_eq_true, if_true]
            exact ⟨_, hrep, rfl, rfl, rfl⟩
          · simp only [not_true_eq_false, if_false]
            exact ⟨_, hrep, rfl, rfl, rfl⟩
        · have hs' : (toSession s).clientSessionId ≠ (toCC g f).session.clientSessionId := by
            simp only [toSession, toCC]; exact (u64_ne_iff _ _).mp hs
          rw [if_neg hs, if_pos hs']
          exact ⟨f, hf, rfl, rfl, rfl⟩

/-- **one `decode` call = the model, with the hypothesis on the inner decoder DISCHARGED**: the AES kinds of Shadowsocks 2022
(`2022-blake3-aes-128-gcm`, `2022-blake3-aes-256-gcm`), a codec built as the client builds it (`Mode::Client`), the externals
instantiated by the hand model's `Crypto` (`XM E`); every state, every datagram shorter than 2^64, both profiles -/
theorem decode_eq_model_aes (ov : Bool) (E : MEnv) (Y : ClientExt MT) (N : Usize) (g : DatagramPacketCodec MT) (f : PW.Filter)
    (b : Cursor) (k : Ss.Kind)
    (hk : toKind g.codec.cipher.kind = some k) (hx : SsUdp.xAlg k = none) (h22 : k.is2022 = true)
    (hm : g.codec.context.stream_type = Mode.Client) (hf : Rep g.filter f) (hb : b.length < 2 ^ 64) (hnow : E.now < 2 ^ 64)
    (hopen : ∀ a key n ad ct p, E.C.openB a key n ad ct = some p → ct.length = p.length + 16)
    (haes : ∀ key x, (E.C.aesDec key x).length = 16) :
    DecAgrees g f (DatagramPacketCodec.decode ov (XM E) Y N g b)
      (SsUdp.ClientCodec.decode E.C (toCtx k g.codec.context) (toCC g f) E.now b) :=
  decode_eq_model ov (XM E) Y N g f E.C (toCtx k g.codec.context) E.now b k hk rfl hf hb
    (fun _ => decode_client_dir_aes_eq ov E N g.codec.cipher g.codec.context b k hk hx h22 hm hb hnow hopen haes)

/-! ## Part 4 — histories of replies -/

/-- what the wrapper sees of one datagram -/
inductive Seen where
  /-- the inner decoder panicked (the task ends) -/
  | panic
  /-- an empty datagram, or the inner decoder answered `Err` / `Ok(None)` -/
  | nothing
  /-- the inner decoder handed out a reply with these ids (client session id, packet id) -/
  | reply (csid pid : UInt64)
deriving DecidableEq, Repr

/-- … computed from the generated inner decoder -/
def seen (ov : Bool) {T : ExtTypes} (X : Ext T) (N : Usize) (c : SessionCodec T) (b : Cursor) : Seen :=
  if b = [] then .nothing else
  match SessionCodec.decode ov X N c b with
  | .panic => .panic
  | .ok (_, .ok (some (_, _, s))) => .reply s.client_session_id s.packet_id
  | .ok _ => .nothing

/-- the generated codec over a history of datagrams (each in a buffer of its own, as `UdpFramed` hands them over): was
something delivered?  Ends at a panic. -/
def runDecode (ov : Bool) {T : ExtTypes} (X : Ext T) (Y : ClientExt T) (N : Usize) :
    DatagramPacketCodec T → List Cursor → List Bool
  | _, [] => []
  | g, b :: bs =>
    match DatagramPacketCodec.decode ov X Y N g b with
    | .panic => []
    | .ok (g', _, .ok (some _)) => true :: runDecode ov X Y N g' bs
    | .ok (g', _, _) => false :: runDecode ov X Y N g' bs

/-- the specification of the delivered flags: the window model, fed with the packet ids of the OWN session only -/
def flagsSpec (own : UInt64) : PW.Filter → List Seen → List Bool
  | _, [] => []
  | _, .panic :: _ => []
  | f, .nothing :: r => false :: flagsSpec own f r
  | f, .reply c pid :: r =>
    if c = own then (f.validate pid.toNat (2 ^ 64 - 1)).2 :: flagsSpec own (f.validate pid.toNat (2 ^ 64 - 1)).1 r
    else false :: flagsSpec own f r

/-- **histories (2022 ciphers)**: over ANY history of datagrams, from any state whose window represents `f`, the generated codec
delivers exactly what `flagsSpec` says: nothing for an empty / refused / foreign-session datagram (and the window is not
touched by it), and for a reply of the own session the answer of the window model fed with the own session's ids so far -/
theorem runDecode_eq (ov : Bool) {T : ExtTypes} (X : Ext T) (Y : ClientExt T) (N : Usize) (bs : List Cursor) :
    ∀ (g : DatagramPacketCodec T) (f : PW.Filter), Rep g.filter f → is22 g.codec.cipher.kind = true →
      runDecode ov X Y N g bs = flagsSpec g.session.client_session_id f (bs.map (seen ov X N g.codec)) := by
  induction bs with
  | nil => intros; rfl
  | cons b bs ih =>
    intro g f hf h22
    simp only [runDecode, List.map_cons]
    by_cases hb : b = []
    · subst hb
      have : DatagramPacketCodec.decode ov X Y N g [] = PWGen.Res.ok (g, [], RResult.ok none) := by rw [decode_unfold]; rfl
      simp only [this, seen, if_true, flagsSpec, ih g f hf h22]
    · cases hin : SessionCodec.decode ov X N g.codec b with
      | panic =>
        have : DatagramPacketCodec.decode ov X Y N g b = PWGen.Res.panic := by
          rw [decode_unfold]; simp only [hb, if_false, hin, decodeSpec]
        simp only [this, seen, hb, if_false, hin, flagsSpec]
      | ok w =>
        obtain ⟨src', r⟩ := w
        cases r with
        | err =>
          have : DatagramPacketCodec.decode ov X Y N g b = PWGen.Res.ok (g, src', RResult.err) := by
            rw [decode_unfold]; simp only [hb, if_false, hin, decodeSpec]
          simp only [this, seen, hb, if_false, hin, flagsSpec, ih g f hf h22]
        | ok o =>
          cases o with
          | none =>
            have : DatagramPacketCodec.decode ov X Y N g b = PWGen.Res.ok (g, src', RResult.ok none) := by
              rw [decode_unfold]; simp only [hb, if_false, hin, decodeSpec]
            simp only [this, seen, hb, if_false, hin, flagsSpec, ih g f hf h22]
          | some t =>
            obtain ⟨p, a, s⟩ := t
            simp only [seen, hb, if_false, hin, flagsSpec]
            by_cases hs : s.client_session_id = g.session.client_session_id
            · obtain ⟨flt, hv, hrep⟩ := gen_validate_refines ov g.filter f s.packet_id U64.MAX hf
              rw [u64max_toNat] at hv hrep
              rw [decode_own ov X Y N g b src' p a s flt _ hin h22 hs hv, if_pos hs]
              cases hfr : (f.validate s.packet_id.toNat (2 ^ 64 - 1)).2
              · simp only [Bool.false_eq_true, if_false]
                exact congrArg _ (ih { g with filter := flt } _ hrep h22)
              · simp only [if_true]
                exact congrArg _ (ih { g with filter := flt, session := { g.session with server_session_id := s.server_session_id } } _
                  hrep h22)
            · rw [decode_foreign ov X Y N g b src' p a s hin h22 hs, if_neg hs]
              simp only [ih g f hf h22]

/-- the packet ids of the own session's replies, in arrival order -/
def ownIds (own : UInt64) : List Seen → List Nat
  | [] => []
  | .reply c pid :: r => if c = own then pid.toNat :: ownIds own r else ownIds own r
  | _ :: r => ownIds own r

/-- the flags at the positions of the own session's replies -/
def ownFlags (own : UInt64) : List Seen → List Bool → List Bool
  | .reply c _ :: r, fl :: fs => if c = own then fl :: ownFlags own r fs else ownFlags own r fs
  | _ :: r, _ :: fs => ownFlags own r fs
  | _, _ => []

/-- is position `i` a reply of the own session? -/
def isOwn (own : UInt64) : Seen → Bool
  | .reply c _ => c = own
  | _ => false

/-- **the delivered flags of the own session's replies are the window model run over the own session's packet ids** - no
reply of another session, no refused or empty datagram has any influence on them -/
theorem ownFlags_flagsSpec (own : UInt64) (l : List Seen) (hnp : ∀ x ∈ l, x ≠ Seen.panic) :
    ∀ f, ownFlags own l (flagsSpec own f l) = PW.runImpl (2 ^ 64 - 1) f (ownIds own l) := by
  induction l with
  | nil => intro f; rfl
  | cons x l ih =>
    intro f
    have ih' := ih (fun y hy => hnp y (List.mem_cons_of_mem _ hy))
    cases x with
    | panic => exact absurd rfl (hnp _ (List.mem_cons_self ..))
    | nothing => simp only [flagsSpec, ownFlags, ownIds, ih']
    | reply c pid =>
      by_cases hc : c = own
      · simp only [flagsSpec, ownFlags, ownIds, hc, if_true, PW.runImpl, ih']
      · simp only [flagsSpec, ownFlags, ownIds, hc, if_false, ih']

/-- **nothing but a reply of the own session is ever delivered** -/
theorem flagsSpec_not_own (own : UInt64) (l : List Seen) : ∀ (f : PW.Filter) (i : Nat) (x : Seen),
    l[i]? = some x → isOwn own x = false → (flagsSpec own f l)[i]? ≠ some true := by
  induction l with
  | nil => intro f i x h; simp at h
  | cons y l ih =>
    intro f i x h hx
    cases y with
    | panic => simp [flagsSpec]
    | nothing =>
      cases i with
      | zero => simp [flagsSpec]
      | succ i => simp only [flagsSpec, List.getElem?_cons_succ] at h ⊢; exact ih f i x h hx
    | reply c pid =>
      cases i with
      | zero =>
        simp only [List.getElem?_cons_zero, Option.some.injEq] at h
        subst h
        have hc : ¬ c = own := by simpa [isOwn] using hx
        simp [flagsSpec, hc]
      | succ i =>
        simp only [List.getElem?_cons_succ] at h
        by_cases hc : c = own
        · simp only [flagsSpec, hc, if_true, List.getElem?_cons_succ]; exact ih _ i x h hx
        · simp only [flagsSpec, hc, if_false, List.getElem?_cons_succ]; exact ih _ i x h hx

theorem flagsSpec_length (own : UInt64) (l : List Seen) (hnp : ∀ x ∈ l, x ≠ Seen.panic) :
    ∀ f, (flagsSpec own f l).length = l.length := by
  induction l with
  | nil => intro f; rfl
  | cons x l ih =>
    intro f
    have ih' := ih (fun y hy => hnp y (List.mem_cons_of_mem _ hy))
    cases x with
    | panic => exact absurd rfl (hnp _ (List.mem_cons_self ..))
    | nothing => simp only [flagsSpec, List.length_cons, ih']
    | reply c pid =>
      by_cases hc : c = own
      · simp only [flagsSpec, hc, if_true, List.length_cons, ih']
      · simp only [flagsSpec, hc, if_false, List.length_cons, ih']

/-- **from a fresh window** (`PacketWindowFilter::new`), over any history without an inner panic: the delivered flags at the
own session's replies are exactly the SET SPECIFICATION of the replay window (`PW.runSpec`, see `Octo/Props/C11.lean`: accepted
iff below the limit `2^64 - 1`, not accepted before, at most 8128 behind every id accepted so far) run over the own session's
packet ids - replies of other sessions, refused and empty datagrams in between have no influence -/
theorem history_set_spec (ov : Bool) {T : ExtTypes} (X : Ext T) (Y : ClientExt T) (N : Usize) (g : DatagramPacketCodec T)
    (bs : List Cursor) (hf : Rep g.filter PW.Filter.new) (h22 : is22 g.codec.cipher.kind = true)
    (hnp : ∀ b ∈ bs, seen ov X N g.codec b ≠ Seen.panic) :
    ownFlags g.session.client_session_id (bs.map (seen ov X N g.codec)) (runDecode ov X Y N g bs) =
      PW.runSpec (2 ^ 64 - 1) [] (ownIds g.session.client_session_id (bs.map (seen ov X N g.codec))) := by
  rw [runDecode_eq ov X Y N bs g _ hf h22, ownFlags_flagsSpec _ _ _ _, PW.c11_refines]
  intro x hx
  obtain ⟨b, hb, rfl⟩ := List.mem_map.mp hx
  exact hnp b hb

/-- … and nothing else is ever delivered: a position that is not a reply of the own session is never `true` -/
theorem history_nothing_foreign (ov : Bool) {T : ExtTypes} (X : Ext T) (Y : ClientExt T) (N : Usize) (g : DatagramPacketCodec T)
    (f : PW.Filter) (bs : List Cursor) (hf : Rep g.filter f) (h22 : is22 g.codec.cipher.kind = true) (i : Nat) (b : Cursor)
    (hi : bs[i]? = some b) (hno : isOwn g.session.client_session_id (seen ov X N g.codec b) = false) :
    (runDecode ov X Y N g bs)[i]? ≠ some true := by
  rw [runDecode_eq ov X Y N bs g f hf h22]
  exact flagsSpec_not_own _ _ f i _ (by rw [List.getElem?_map, hi]; rfl) hno

/-- what the inner decoder returned, recovered from its reading as a model result -/
theorem inner_of_model (r : PWGen.Res (Cursor × RResult (Cursor × Address × Session))) (p : Bytes) (a : Addr) (s' : SsUdp.Session)
    (h : embed r = .ok (p, a, s')) :
    ∃ src' a' s, r = PWGen.Res.ok (src', RResult.ok (p, a', s)) ∧ toAddr a' = a ∧ toSession s = s' := by
  cases r with
  | panic => simp [embed] at h
  | ok v =>
    obtain ⟨src', rr⟩ := v
    cases rr with
    | err => simp [embed] at h
    | ok t =>
      obtain ⟨p', a', s⟩ := t
      simp only [embed, Res.ok.injEq, Prod.mk.injEq] at h
      obtain ⟨rfl, rfl, rfl⟩ := h
      exact ⟨src', a', s, rfl, rfl, rfl⟩

/-! ## Part 5 — `encode` -/

/-- **the id space ends, it does not wrap**: at `packet_id = u64::MAX` the answer is `Err`, nothing is changed, nothing is
written and the inner encoder is not called - whatever the externals are -/
theorem encode_exhausted (ov : Bool) {T : ExtTypes} (X : Ext T) (Y : ClientExt T) (N : Usize) (g : DatagramPacketCodec T)
    (item : Cursor × Address) (dst : Cursor) (h : g.session.packet_id = U64.MAX) :
    DatagramPacketCodec.encode ov X Y N g item dst = PWGen.Res.ok (g, dst, RResult.err) := by
  rw [encode_unfold, checked_add_one, h, u64max_toNat]; rfl

/-- **below `u64::MAX`**: the packet id is stepped by exactly one, the inner encoder is called once with the codec's own
session carrying the NEW id (client session id, server session id, user: untouched), and its answer is the answer -/
theorem encode_step (ov : Bool) {T : ExtTypes} (X : Ext T) (Y : ClientExt T) (N : Usize) (g : DatagramPacketCodec T)
    (item : Cursor × Address) (dst : Cursor) (h : g.session.packet_id.toNat + 1 < 2 ^ 64) :
    DatagramPacketCodec.encode ov X Y N g item dst =
      match Y.SessionCodec_encode g.codec (item.1, item.2, { g.session with packet_id := g.session.packet_id + 1 }) dst with
      | .panic => .panic
      | .ok (dst', r) => .ok ({ g with session := { g.session with packet_id := g.session.packet_id + 1 } }, dst', r) := by
  rw [encode_unfold, checked_add_one, if_pos h]

/-- **ids strictly increase, by one, and never wrap**: after any `encode` that returned, the packet id is the old one (`Err` by
exhaustion) or the old one plus one as a natural number; the client session id, the window and the inner codec are untouched -/
theorem encode_ids (ov : Bool) {T : ExtTypes} (X : Ext T) (Y : ClientExt T) (N : Usize) (g g' : DatagramPacketCodec T)
    (item : Cursor × Address) (dst dst' : Cursor) (r : RResult Unit)
    (h : DatagramPacketCodec.encode ov X Y N g item dst = PWGen.Res.ok (g', dst', r)) :
    ((g' = g ∧ r = RResult.err ∧ dst' = dst ∧ g.session.packet_id = U64.MAX) ∨
      (g'.session.packet_id.toNat = g.session.packet_id.toNat + 1 ∧
        Y.SessionCodec_encode g.codec (item.1, item.2, g'.session) dst = PWGen.Res.ok (dst', r))) ∧
    g'.session.client_session_id = g.session.client_session_id ∧ g'.session.server_session_id = g.session.server_session_id ∧
    g'.filter = g.filter ∧ g'.codec = g.codec := by
  by_cases hlt : g.session.packet_id.toNat + 1 < 2 ^ 64
  · rw [encode_step ov X Y N g item dst hlt] at h
    cases hy : Y.SessionCodec_encode g.codec (item.1, item.2, { g.session with packet_id := g.session.packet_id + 1 }) dst with
    | panic => rw [hy] at h; cases h
    | ok w =>
      obtain ⟨d, rr⟩ := w
      rw [hy] at h
      simp only [PWGen.Res.ok.injEq, Prod.mk.injEq] at h
      obtain ⟨rfl, rfl, rfl⟩ := h
      exact ⟨.inr ⟨add_one_toNat _ hlt, hy⟩, rfl, rfl, rfl, rfl⟩
  · have hmax : g.session.packet_id = U64.MAX := by
      apply UInt64.toNat_inj.mp; rw [u64max_toNat]; have := UInt64.toNat_lt g.session.packet_id; omega
    rw [encode_exhausted ov X Y N g item dst hmax] at h
    simp only [PWGen.Res.ok.injEq, Prod.mk.injEq] at h
    obtain ⟨rfl, rfl, rfl⟩ := h
    exact ⟨.inl ⟨rfl, rfl, rfl, hmax⟩, rfl, rfl, rfl, rfl⟩

/-- **no panic of its own** (both profiles: `checked_add` is not an overflow-checked `+`): `encode` panics only when the inner
encoder does -/
theorem encode_panic_only_inner (ov : Bool) {T : ExtTypes} (X : Ext T) (Y : ClientExt T) (N : Usize) (g : DatagramPacketCodec T)
    (item : Cursor × Address) (dst : Cursor) (h : DatagramPacketCodec.encode ov X Y N g item dst = PWGen.Res.panic) :
    g.session.packet_id.toNat + 1 < 2 ^ 64 ∧
      Y.SessionCodec_encode g.codec (item.1, item.2, { g.session with packet_id := g.session.packet_id + 1 }) dst = PWGen.Res.panic := by
  by_cases hlt : g.session.packet_id.toNat + 1 < 2 ^ 64
  · refine ⟨hlt, ?_⟩
    rw [encode_step ov X Y N g item dst hlt] at h
    cases hy : Y.SessionCodec_encode g.codec (item.1, item.2, { g.session with packet_id := g.session.packet_id + 1 }) dst with
    | panic => rfl
    | ok w => rw [hy] at h; cases h
  · have hmax : g.session.packet_id = U64.MAX := by
      apply UInt64.toNat_inj.mp; rw [u64max_toNat]; have := UInt64.toNat_lt g.session.packet_id; omega
    rw [encode_exhausted ov X Y N g item dst hmax] at h; cases h

/-- the inner encoder `SessionCodec::encode` (not translated by translate_ssudp.py), instantiated by the hand model: the
model's `SsUdp.encode` in client mode with the randomness `r`, appended to `dst`; never fails -/
def YM {T : ExtTypes} (C : Crypto) (ctx : Ss.Ctx) (r : SsUdp.Rand) : ClientExt T where
  SessionCodec_encode _ x dst := .ok (dst ++ SsUdp.encode C ctx .client (toSession x.2.2) (toAddr x.2.1) x.1 r, .ok ())

/-- **one `encode` call = the model's `ClientCodec.encode`** (every state, item, both profiles; the inner encoder being the
model's): never a panic; `Err` exactly when the model says `Err`, with nothing written; otherwise the model's bytes are
appended to `dst`; the new state is the model's new state -/
theorem encode_eq_model (ov : Bool) {T : ExtTypes} (X : Ext T) (N : Usize) (g : DatagramPacketCodec T) (f : PW.Filter)
    (C : Crypto) (ctx : Ss.Ctx) (r : SsUdp.Rand) (item : Cursor × Address) (dst : Cursor) :
    ∃ g' dst' rr, DatagramPacketCodec.encode ov X (YM C ctx r) N g item dst = PWGen.Res.ok (g', dst', rr) ∧
      g'.filter = g.filter ∧ g'.codec = g.codec ∧
      (SsUdp.ClientCodec.encode C ctx (toCC g f) (toAddr item.2) item.1 r).2 = toCC g' f ∧
      ((SsUdp.ClientCodec.encode C ctx (toCC g f) (toAddr item.2) item.1 r).1 = .err ∧ rr = RResult.err ∧ dst' = dst ∨
        ∃ w, (SsUdp.ClientCodec.encode C ctx (toCC g f) (toAddr item.2) item.1 r).1 = .ok w ∧ rr = RResult.ok () ∧ dst' = dst ++ w) := by
  unfold SsUdp.ClientCodec.encode
  have hp : (toCC g f).session.packetId = g.session.packet_id.toNat := rfl
  by_cases hlt : g.session.packet_id.toNat + 1 < 2 ^ 64
  · have hge : ¬ (toCC g f).session.packetId + 1 ≥ 2 ^ 64 := by rw [hp]; omega
    rw [encode_step ov X _ N g item dst hlt, if_neg hge]
    refine ⟨_, _, _, rfl, rfl, rfl, ?_, .inr ⟨_, rfl, rfl, ?_⟩⟩
    · simp only [toCC, toSession, add_one_toNat _ hlt]
    · simp only [toCC, toSession, add_one_toNat _ hlt]
  · have hmax : g.session.packet_id = U64.MAX := by
      apply UInt64.toNat_inj.mp; rw [u64max_toNat]; have := UInt64.toNat_lt g.session.packet_id; omega
    have hge : (toCC g f).session.packetId + 1 ≥ 2 ^ 64 := by rw [hp]; omega
    rw [encode_exhausted ov X _ N g item dst hmax, if_pos hge]
    exact ⟨_, _, _, rfl, rfl, rfl, rfl, .inl ⟨rfl, rfl, rfl⟩⟩

/-! ## Part 6 — the free functions (pure, no panic, independent of the profile) -/

theorem new_key_eval (ov : Bool) {SA : Type} (src : SA) (a : Address) : new_key ov src a = PWGen.Res.ok src := rfl
theorem to_outbound_send_eval (ov : Bool) {SA : Type} (item : Cursor × Address) (proxy : SA) :
    to_outbound_send ov item proxy = PWGen.Res.ok (item, proxy) := rfl
theorem to_inbound_recv_eval (ov : Bool) {SA : Type} (item : (Cursor × Address) × SA) (a : Address) (sender : SA) :
    to_inbound_recv ov item a sender = PWGen.Res.ok (item.1, sender) := rfl

end Octo.SsClientGen
