import Octo.Gen.VmessBodyGen
import Octo.Proofs.AddrGen
import Octo.Proofs.NonceGen
import Octo.Proofs.VmessBody
/-!
  The generated code (`Octo.VmessBodyGen`, written by `translate_vmessbody.py` from `octo-squirrel/src/codec/vmess/aead.rs`
  and the files it names) equals the hand-written model of the VMess AEAD body codec (`Octo.Vmess.Body`, `Octo/Model/Vmess.lean`).

  Part 0: evaluation rules of the run-time operations; the loop rule for `Flow.loopFuel`.
  Part 1: what is assumed of the externals (`ExtOk`), the correspondence `Rel` between a generated codec value and a model
          `Body`, the correspondence between the session's nonce buffers and the model's IVs.
  Part 2: the leaf functions (`CountingNonceGenerator::generate` on lists, `Authenticator`, `ShakeSizeParser`, `PlainSizeParser`,
          `ChunkSizeParser::size_bytes`) as equations.
  Part 3: `next_padding_length`, `decode_size` against `Body.nextPadding`, `Body.decodeSize`.
  Part 4: one iteration of the decoder loops; `decode_payload` = `Fr.run (Body.unit C)`; `decode_packet` = `bodyDrainPacket`.
  The one hypothesis about buffers, `src.length < 2 ^ 64`, is what a Lean list does not carry and a `BytesMut` does.
-/
set_option linter.unusedSimpArgs false
set_option linter.unusedVariables false
namespace Octo.VmessBodyGen
open Octo Octo.PWGen Octo.AddrGen Octo.Vmess

/-! ## Part 0 — evaluation rules -/
section flow
variable {α β σ ρ : Type}

theorem call_ok (a : α) : (Flow.call (PWGen.Res.ok a) : Flow α ρ) = Flow.next a := rfl
theorem call_panic : (Flow.call (PWGen.Res.panic : PWGen.Res α) : Flow α ρ) = Flow.panic := rfl

theorem check_true : (Flow.check true : Flow Unit ρ) = Flow.next () := rfl

theorem slice_to_ok (b : List UInt8) (n : Usize) (h : n.toNat ≤ b.length) :
    (Flow.slice_to b n : Flow (List UInt8) ρ) = Flow.next (b.take n.toNat) := by simp [Flow.slice_to, h]

theorem copy_from_slice_ok (d s : List UInt8) (h : s.length = d.length) :
    (Flow.copy_from_slice d s : Flow (List UInt8) ρ) = Flow.next s := by simp [Flow.copy_from_slice, h]

theorem advance_ok (r : List UInt8) (k : Usize) (h : k.toNat ≤ r.length) :
    (Flow.advance r k : Flow Cursor ρ) = Flow.next (r.drop k.toNat) := by simp [Flow.advance, h]

theorem post_call (x : PWGen.Res α) (Qn : α → Prop) (Qr : ρ → Prop) :
    (Flow.call x : Flow α ρ).Post Qn Qr ↔ ∃ a, x = PWGen.Res.ok a ∧ Qn a := by
  cases x with
  | ok a => simp [Flow.call, Flow.Post]
  | panic => simp [Flow.call, Flow.Post]

theorem post_question (r : RResult α) (e : ρ) (Qn : α → Prop) (Qr : ρ → Prop) :
    (Flow.question r e : Flow α ρ).Post Qn Qr ↔ (∀ v, r = RResult.ok v → Qn v) ∧ (r = RResult.err → Qr e) := by
  cases r <;> simp [Flow.question, Flow.Post]

/-- postcondition of a loop body: `break` must establish the loop's postcondition, `return` the function's -/
def LoopExit.Post (Qn : σ → Prop) (Qr : ρ → Prop) : LoopExit σ ρ → Prop
  | .brk s => Qn s
  | .ret r => Qr r

theorem post_brk (s : σ) (Qn : σ → Prop) (Qr : ρ → Prop) : LoopExit.Post Qn Qr (LoopExit.brk s) ↔ Qn s := Iff.rfl
theorem post_lret (r : ρ) (Qn : σ → Prop) (Qr : ρ → Prop) : LoopExit.Post Qn Qr (LoopExit.ret r : LoopExit σ ρ) ↔ Qr r := Iff.rfl

/-- **loop rule**: an invariant `I` and a measure `M` that every iteration which falls through decreases; with fuel above
the measure the loop does not run out of fuel (no panic), and it ends by `break` (→ `Qn`) or `return` (→ `Qr`) -/
theorem post_loopFuel (body : σ → Flow σ (LoopExit σ ρ)) (M : σ → Nat) (I : σ → Prop) (Qn : σ → Prop) (Qr : ρ → Prop)
    (hstep : ∀ s, I s → (body s).Post (fun s' => I s' ∧ M s' < M s) (LoopExit.Post Qn Qr)) :
    ∀ (n : Nat) (s : σ), I s → M s < n → (Flow.loopFuel body n s).Post Qn Qr := by
  intro n
  induction n with
  | zero => intro s _ h; omega
  | succ n ih =>
    intro s hI hM
    have := hstep s hI
    rw [Flow.loopFuel]
    cases hb : body s with
    | next s' =>
      rw [hb] at this
      exact ih s' this.1 (by have := this.2; omega)
    | ret e =>
      rw [hb] at this
      cases e with
      | brk s' => exact this
      | ret r => exact this
    | panic => rw [hb] at this; exact this.elim

end flow

theorem usize_lit_toNat (k : Nat) (h : k < 2 ^ 64) : (OfNat.ofNat k : Usize).toNat = k := by
  show (UInt64.ofNat k).toNat = k
  exact UInt64.toNat_ofNat_of_lt' (by simpa using h)

theorem remaining_toNat (b : List UInt8) (h : b.length < 2 ^ 64) : (Cursor.remaining b).toNat = b.length := by
  rw [Cursor.remaining, UInt64.toNat_ofNat_of_lt' (show _ < 18446744073709551616 by omega)]

theorem add_toNat (a c : Usize) (h : a.toNat + c.toNat < 2 ^ 64) : (a + c).toNat = a.toNat + c.toNat := by
  rw [UInt64.toNat_add]; exact Nat.mod_eq_of_lt h

theorem sub_toNat (a c : Usize) (h : c.toNat ≤ a.toNat) : (a - c).toNat = a.toNat - c.toNat :=
  UInt64.toNat_sub_of_le _ _ (UInt64.le_iff_toNat_le.mpr h)

theorem u16_as_usize_toNat (v : UInt16) : (U16.as_usize v).toNat = v.toNat := by
  have := v.toNat_lt
  rw [U16.as_usize, UInt64.toNat_ofNat_of_lt' (Nat.lt_trans this (by decide))]

theorem lt_iff_toNat (a c : Usize) : a < c ↔ a.toNat < c.toNat := UInt64.lt_iff_toNat_lt

/-! ## Part 1 — the externals, and the correspondence between generated values and the model -/

section ext
variable {CM XR RNG : Type}

/-- **what is assumed of the externals**, relative to the model's abstract `Crypto`: a cipher value stands for an algorithm
and a key, an XOF reader for a seed and a byte position; tags have 16 bytes and nonces 12 (the two ciphers VMess
constructs: `Aes128Gcm`, `ChaCha20Poly1305`); `decrypt_in_place` succeeds exactly when the model's `openB` does, leaving the
plaintext in the buffer; `encrypt_in_place` leaves `sealB` in the buffer; reading `n` bytes from the reader yields the next
`n` bytes of the SHAKE128 stream of the seed; `fill_bytes` keeps the length. -/
structure ExtOk (X : Ext CM XR RNG) (C : Crypto) where
  cipherOf : CM → Alg × Bytes
  xofOf : XR → Bytes × Nat
  tag : ∀ c, X.tag_size c = 16
  nonce : ∀ c, X.nonce_size c = 12
  dec_ok : ∀ c n b p, C.openB (cipherOf c).1 (cipherOf c).2 n [] b = some p → X.decrypt_in_place c n [] b = (p, RResult.ok ())
  dec_err : ∀ c n b, C.openB (cipherOf c).1 (cipherOf c).2 n [] b = none → (X.decrypt_in_place c n [] b).2 = RResult.err
  enc : ∀ c n b, X.encrypt_in_place c n [] b = (C.sealB (cipherOf c).1 (cipherOf c).2 n [] b, RResult.ok ())
  xof : ∀ r buf, xofOf (X.xof_read r buf).1 = ((xofOf r).1, (xofOf r).2 + buf.length) ∧
    (X.xof_read r buf).2 = (C.shake128 (xofOf r).1 ((xofOf r).2 + buf.length)).drop (xofOf r).2
  fill : ∀ g buf, (X.fill_bytes g buf).2.length = buf.length

variable {X : Ext CM XR RNG} {C : Crypto}

/-- decoder state ↔ model state; a padding length in a state is one that `next_padding_length` can return -/
def stRel : DecodeState → BodySt → Prop
  | .Padding, .padding => True
  | .Length p, .length pl => p.toNat = pl ∧ pl ≤ 63
  | .Body p l, .body pl len => p.toNat = pl ∧ pl ≤ 63 ∧ l.toNat = len
  | _, _ => False

/-- an `Authenticator` ↔ (algorithm, key, counter) -/
def authRel (A : ExtOk X C) (a : Authenticator CM) (alg : Alg) (key : Bytes) (count : Nat) : Prop :=
  A.cipherOf a.cipher = (alg, key) ∧ a.counting.count.toNat = count % 65536 ∧ a.counting.nonce_size = 12

def chunkRel (A : ExtOk X C) : ChunkSizeParser CM → Body → Prop
  | .Plain, b => b.size = .plain
  | .Shake, b => b.size = .shake
  | .Auth a, b => b.size = .auth ∧ authRel A a b.sec.alg b.sizeKey b.sizeCount

def padRel : PaddingLengthGenerator → Bool → Prop
  | .Empty, gp => gp = false
  | .Shake, gp => gp = true

/-- **a generated codec value stands for the model's `Body`** (everything but the decoder state) -/
structure RelCore (A : ExtOk X C) (g : AEADBodyCodec CM XR) (b : Body) : Prop where
  auth : authRel A g.auth b.sec.alg b.key b.count
  chunk : chunkRel A g.chunk b
  pad : padRel g.padding b.globalPadding
  xof : A.xofOf g.shake.reader = (b.shakeSeed, 2 * b.shakePos)
  buf : g.shake.buffer.length = 2
  limit : g.payload_limit.toNat = Consts.vmessPayloadLimit

structure Rel (A : ExtOk X C) (g : AEADBodyCodec CM XR) (b : Body) : Prop where
  core : RelCore A g b
  st : stRel g.state b.st

/-- a nonce buffer of the session ↔ an IV of the model: `CountingNonceGenerator::generate` overwrites the first two bytes
before it reads the first twelve, so only the rest matters -/
def ivRel (buf : List UInt8) (iv : Bytes) : Prop := 12 ≤ buf.length ∧ buf.drop 2 = iv.drop 2

/-- the session as the decoder uses it ↔ the model's IVs -/
structure SessD (s : DynSession) (b : Body) : Prop where
  d : ivRel (DynSession.decoder_nonce_mut s) b.iv
  c : 12 ≤ (DynSession.chunk_nonce s).length ∧ (b.size = .auth → (DynSession.chunk_nonce s).drop 2 = b.sizeIv.drop 2)

/-- the session as the encoder uses it ↔ the model's IVs -/
structure SessE (s : DynSession) (b : Body) : Prop where
  d : ivRel (DynSession.encoder_nonce_mut s) b.iv
  c : 12 ≤ (DynSession.chunk_nonce s).length ∧ (b.size = .auth → (DynSession.chunk_nonce s).drop 2 = b.sizeIv.drop 2)

end ext

/-! ## Part 2 — the leaf functions -/

/-- the caller's buffer after a `generate` with counter value `c` -/
def stamped (c : UInt16) (nonce : List UInt8) : List UInt8 := be16 c.toNat ++ nonce.drop 2

theorem stamped_length (c : UInt16) (nonce : List UInt8) (h : 2 ≤ nonce.length) : (stamped c nonce).length = nonce.length := by
  simp [stamped, be16]; omega

theorem stamped_drop (c : UInt16) (nonce : List UInt8) : (stamped c nonce).drop 2 = nonce.drop 2 := by
  simp [stamped, be16]

/-- **`CountingNonceGenerator::generate`** (the generated function of `Octo.NonceGen`, on a list) -/
theorem generate_eval (ov : Bool) (g : Octo.NonceGen.CountingNonceGenerator) (nonce : List UInt8)
    (h2 : 2 ≤ nonce.length) (hn : g.nonce_size.toNat ≤ nonce.length) :
    CountingNonceGenerator.generate ov g nonce =
      PWGen.Res.ok (⟨g.count + 1, g.nonce_size⟩, stamped g.count nonce, Nonce.counting nonce g.count.toNat g.nonce_size.toNat) := by
  unfold CountingNonceGenerator.generate
  rw [Octo.NonceGen.counting_generate ov g nonce.toArray (by simpa using h2) (by simpa using hn)]
  simp only [Octo.NonceGen.countingBuf_toList, Octo.NonceGen.counting_returned, List.toList_toArray, stamped]

theorem generate_short (ov : Bool) (g : Octo.NonceGen.CountingNonceGenerator) (nonce : List UInt8) (h : nonce.length < 2) :
    CountingNonceGenerator.generate ov g nonce = PWGen.Res.panic := by
  unfold CountingNonceGenerator.generate
  rw [Octo.NonceGen.counting_generate_short_buffer ov g nonce.toArray (by simpa using h)]

section leaf
variable {CM XR RNG : Type} (X : Ext CM XR RNG)

theorem e12 : (12 : Usize).toNat = 12 := rfl

/-- `Authenticator::open`: one nonce from the counter, one `decrypt_in_place` -/
theorem open_eval (ov : Bool) (a : Authenticator CM) (buffer nonce : List UInt8)
    (hs : a.counting.nonce_size = 12) (hl : 12 ≤ nonce.length) :
    Authenticator.open_ X ov a buffer nonce =
      PWGen.Res.ok (⟨a.cipher, ⟨a.counting.count + 1, 12⟩⟩,
        (X.decrypt_in_place a.cipher (Nonce.counting nonce a.counting.count.toNat 12) [] buffer).1,
        stamped a.counting.count nonce,
        (X.decrypt_in_place a.cipher (Nonce.counting nonce a.counting.count.toNat 12) [] buffer).2) := by
  have g := generate_eval ov a.counting nonce (by omega) (by rw [hs, e12]; exact hl)
  rw [hs, e12] at g
  simp only [Authenticator.open_, g, call_ok, bind_next, run_ret]

/-- `Authenticator::seal`: one nonce from the counter, one `encrypt_in_place` -/
theorem seal_eval (ov : Bool) (a : Authenticator CM) (buffer nonce : List UInt8)
    (hs : a.counting.nonce_size = 12) (hl : 12 ≤ nonce.length) :
    Authenticator.seal X ov a buffer nonce =
      PWGen.Res.ok (⟨a.cipher, ⟨a.counting.count + 1, 12⟩⟩,
        (X.encrypt_in_place a.cipher (Nonce.counting nonce a.counting.count.toNat 12) [] buffer).1,
        stamped a.counting.count nonce,
        (X.encrypt_in_place a.cipher (Nonce.counting nonce a.counting.count.toNat 12) [] buffer).2) := by
  have g := generate_eval ov a.counting nonce (by omega) (by rw [hs, e12]; exact hl)
  rw [hs, e12] at g
  simp only [Authenticator.seal, g, call_ok, bind_next, run_ret]

theorem plain_size_bytes (ov : Bool) : PlainSizeParser.size_bytes X ov = PWGen.Res.ok 2 := rfl
theorem shake_size_bytes (ov : Bool) : ShakeSizeParser.size_bytes X ov = PWGen.Res.ok 2 := rfl

theorem from_be_bytes_toNat (l : List UInt8) (h : l.length = 2) : (U16.from_be_bytes l).toNat = rdBE l := by
  rw [U16.from_be_bytes]; exact port_toNat l h

/-- `PlainSizeParser::decode_size` on the two size bytes -/
theorem plain_decode_size (ov : Bool) (data : List UInt8) (h : data.length = 2) :
    PlainSizeParser.decode_size X ov data = PWGen.Res.ok (U16.as_usize (U16.from_be_bytes data)) := by
  have e2 : (2 : Usize).toNat = 2 := rfl
  have s := slice_to_ok (ρ := Usize) data 2 (by rw [e2, h]; exact Nat.le_refl _)
  rw [e2, ← h, List.take_length] at s
  have c := copy_from_slice_ok (ρ := Usize) (List.replicate (2 : Usize).toNat (0 : UInt8)) data (by rw [e2, h]; rfl)
  have d : decide (data.length = 2) = true := by simp [h]
  simp only [PlainSizeParser.decode_size, plain_size_bytes, call_ok, bind_next, s, c, d, check_true, run_ret]

/-- `PlainSizeParser::decode_size` panics on anything but two bytes (its callers hand it exactly `size_bytes()`) -/
theorem plain_decode_size_short (ov : Bool) (data : List UInt8) (h : data.length < 2) :
    PlainSizeParser.decode_size X ov data = PWGen.Res.panic := by
  have e2 : (2 : Usize).toNat = 2 := rfl
  have s : (Flow.slice_to data 2 : Flow (List UInt8) Usize) = Flow.panic := by
    simp [Flow.slice_to, e2]; omega
  simp only [PlainSizeParser.decode_size, plain_size_bytes, call_ok, bind_next, s, bind_panic, run_panic']

theorem plain_encode_size (ov : Bool) (size : Usize) :
    PlainSizeParser.encode_size X ov size = PWGen.Res.ok (U16.to_be_bytes (Usize.as_u16 size)) := rfl

theorem auth_size_bytes (ov : Bool) (a : Authenticator CM) (ht : X.tag_size a.cipher = 16) :
    Authenticator.size_bytes X ov a = PWGen.Res.ok 18 := by
  have : U64.addOk Mem.size_of_u16 16 = true := by decide
  simp only [Authenticator.size_bytes, ht, this, arith_true, bind_next, run_ret]
  rfl

theorem chunk_size_bytes (ov : Bool) (c : ChunkSizeParser CM) (ht : ∀ k, X.tag_size k = 16) :
    ChunkSizeParser.size_bytes X ov c = PWGen.Res.ok (match c with | .Auth _ => 18 | _ => 2) := by
  cases c with
  | Plain => simp only [ChunkSizeParser.size_bytes, plain_size_bytes, call_ok, bind_next, run_ret]
  | Shake => simp only [ChunkSizeParser.size_bytes, shake_size_bytes, call_ok, bind_next, run_ret]
  | Auth a => simp only [ChunkSizeParser.size_bytes, auth_size_bytes X ov a (ht _), call_ok, bind_next, run_ret]

/-- `ShakeSizeParser::next`: two more bytes of the stream -/
theorem shake_next_eval (ov : Bool) (s : ShakeSizeParser XR) :
    ShakeSizeParser.next X ov s = PWGen.Res.ok (⟨(X.xof_read s.reader s.buffer).1, (X.xof_read s.reader s.buffer).2⟩,
      U16.from_be_bytes (X.xof_read s.reader s.buffer).2) := by
  simp only [ShakeSizeParser.next, bind_next, run_ret]

end leaf

section shake
variable {CM XR RNG : Type} {X : Ext CM XR RNG} {C : Crypto}

/-- a `ShakeSizeParser` ↔ (seed, number of `u16` values drawn so far) -/
def shakeRel (A : ExtOk X C) (s : ShakeSizeParser XR) (seed : Bytes) (pos : Nat) : Prop :=
  A.xofOf s.reader = (seed, 2 * pos) ∧ s.buffer.length = 2

theorem shake_next (A : ExtOk X C) (hC : C.Lawful) (ov : Bool) (s : ShakeSizeParser XR) (seed : Bytes) (pos : Nat)
    (h : shakeRel A s seed pos) :
    ∃ s' v, ShakeSizeParser.next X ov s = PWGen.Res.ok (s', v) ∧ v.toNat = shakeU16 C seed pos ∧ shakeRel A s' seed (pos + 1) := by
  obtain ⟨hx, hb⟩ := h
  have ⟨x1, x2⟩ := A.xof s.reader s.buffer
  rw [hx, hb] at x1 x2
  simp only at x1 x2
  have hl : (X.xof_read s.reader s.buffer).2.length = 2 := by
    rw [x2, List.length_drop, hC.shake_len]; omega
  refine ⟨_, _, shake_next_eval X ov s, ?_, ?_, hl⟩
  · rw [from_be_bytes_toNat _ hl, x2]; rfl
  · show A.xofOf (X.xof_read s.reader s.buffer).1 = _
    rw [x1]; congr 1

theorem u16_xor_toNat (a b : UInt16) : (a ^^^ b).toNat = Nat.xor a.toNat b.toNat := UInt16.toNat_xor a b

theorem shake_decode_size (A : ExtOk X C) (hC : C.Lawful) (ov : Bool) (s : ShakeSizeParser XR) (seed : Bytes) (pos : Nat)
    (h : shakeRel A s seed pos) (data : List UInt8) (hd : data.length = 2) :
    ∃ s' v, ShakeSizeParser.decode_size X ov s data = PWGen.Res.ok (s', v) ∧
      v.toNat = Nat.xor (shakeU16 C seed pos) (rdBE data) ∧ shakeRel A s' seed (pos + 1) := by
  obtain ⟨s', m, hn, hm, hr⟩ := shake_next A hC ov s seed pos h
  have e2 : (2 : Usize).toNat = 2 := rfl
  have c := copy_from_slice_ok (ρ := ShakeSizeParser XR × Usize) (List.replicate (2 : Usize).toNat (0 : UInt8)) data (by rw [e2, hd]; rfl)
  refine ⟨s', U16.as_usize (m ^^^ U16.from_be_bytes data), ?_, ?_, hr⟩
  · simp only [ShakeSizeParser.decode_size, hn, call_ok, bind_next, c, run_ret]
  · rw [u16_as_usize_toNat, u16_xor_toNat, hm, from_be_bytes_toNat _ hd]

theorem shake_next_padding (A : ExtOk X C) (hC : C.Lawful) (ov : Bool) (s : ShakeSizeParser XR) (seed : Bytes) (pos : Nat)
    (h : shakeRel A s seed pos) :
    ∃ s' v, ShakeSizeParser.next_padding_length X ov s = PWGen.Res.ok (s', v) ∧
      v.toNat = shakeU16 C seed pos % 64 ∧ shakeRel A s' seed (pos + 1) := by
  obtain ⟨s', m, hn, hm, hr⟩ := shake_next A hC ov s seed pos h
  have c : ((64 : UInt16) != 0) = true := by decide
  refine ⟨s', U16.as_usize (m % 64), ?_, ?_, hr⟩
  · simp only [ShakeSizeParser.next_padding_length, hn, call_ok, bind_next, c, check_true, run_ret]
  · rw [u16_as_usize_toNat, UInt16.toNat_mod, hm]; rfl

end shake

section auth
variable {CM XR RNG : Type} {X : Ext CM XR RNG} {C : Crypto}

theorem counting_congr (nonce iv : Bytes) (c count : Nat) (hc : c = count % 65536) (h : nonce.drop 2 = iv.drop 2) :
    Nonce.counting nonce c 12 = Nonce.counting iv count 12 := by
  subst hc
  simp only [Nonce.counting, h, Nat.mod_mod]

theorem count_step (c : UInt16) (count : Nat) (h : c.toNat = count % 65536) : (c + 1).toNat = (count + 1) % 65536 := by
  rw [Octo.NonceGen.counting_step, h]; omega

def sizeRes : RResult Usize → Option Nat → Prop
  | .err, none => True
  | .ok l, some n => l.toNat = n
  | _, _ => False

/-- `Authenticator::decode_size` on the 18 sealed size bytes: the length cipher's key and counter, its own nonce -/
theorem auth_decode_size (A : ExtOk X C) (hC : C.Lawful) (ov : Bool) (a : Authenticator CM) (alg : Alg) (key iv : Bytes) (count : Nat)
    (h : authRel A a alg key count) (buffer nonce : List UInt8) (hb : buffer.length = 18)
    (hl : 12 ≤ nonce.length) (hiv : nonce.drop 2 = iv.drop 2) :
    ∃ a' buf' res, Authenticator.decode_size X ov a buffer nonce = PWGen.Res.ok (a', buf', stamped a.counting.count nonce, res) ∧
      authRel A a' alg key (count + 1) ∧
      sizeRes res ((C.openB alg key (Nonce.counting iv count 12) [] buffer).map fun p => rdBE p + 16) := by
  obtain ⟨hc, hcount, hs⟩ := h
  have ho := open_eval X ov a buffer nonce hs hl
  have hn := counting_congr nonce iv _ count hcount hiv
  have ha' : authRel A (⟨a.cipher, ⟨a.counting.count + 1, 12⟩⟩ : Authenticator CM) alg key (count + 1) :=
    ⟨hc, count_step _ _ hcount, rfl⟩
  have hk : (A.cipherOf a.cipher).1 = alg ∧ (A.cipherOf a.cipher).2 = key := by rw [hc]; exact ⟨rfl, rfl⟩
  cases hop : C.openB alg key (Nonce.counting iv count 12) [] buffer with
  | none =>
    have := A.dec_err a.cipher (Nonce.counting nonce a.counting.count.toNat 12) buffer (by rw [hk.1, hk.2, hn]; exact hop)
    refine ⟨_, (X.decrypt_in_place a.cipher (Nonce.counting nonce a.counting.count.toNat 12) [] buffer).1, RResult.err, ?_, ha', trivial⟩
    simp only [Authenticator.decode_size, ho, call_ok, bind_next, this, question_err, bind_ret, run_ret]
  | some p =>
    have := A.dec_ok a.cipher (Nonce.counting nonce a.counting.count.toNat 12) buffer p (by rw [hk.1, hk.2, hn]; exact hop)
    have hp : p.length = 2 := by have := hC.open_len _ _ _ _ _ _ hop; omega
    have g16 := get_u16_ok (ρ := Authenticator CM × Cursor × List UInt8 × RResult Usize) p (by omega)
    have ht : (U16.as_usize (UInt16.ofNat (beNat (p.take 2)))).toNat = rdBE p := by
      rw [u16_as_usize_toNat, ← hp, List.take_length]; exact port_toNat p hp
    have hlt : rdBE p < 65536 := by rw [← ht, u16_as_usize_toNat]; exact UInt16.toNat_lt _
    have e16 : (16 : Usize).toNat = 16 := rfl
    have ok : U64.addOk (U16.as_usize (UInt16.ofNat (beNat (p.take 2)))) 16 = true := by
      simp only [U64.addOk, ht, e16, decide_eq_true_eq]; omega
    refine ⟨_, p.drop 2, RResult.ok (U16.as_usize (UInt16.ofNat (beNat (p.take 2))) + 16), ?_, ha', ?_⟩
    · simp only [Authenticator.decode_size, ho, call_ok, bind_next, this, question_ok, g16, A.tag, ok, arith_true, run_ret]
    · show (_ + _ : Usize).toNat = rdBE p + 16
      rw [add_toNat _ _ (by rw [ht, e16]; omega), ht, e16]

end auth

/-! ## Part 3 — `next_padding_length`, `size_bytes`, `decode_size` against the model -/
section codec
variable {CM XR RNG : Type} {X : Ext CM XR RNG} {C : Crypto}

theorem chunkRel_congr (A : ExtOk X C) (c : ChunkSizeParser CM) (b b' : Body) (h1 : b'.size = b.size) (h2 : b'.sec = b.sec)
    (h3 : b'.sizeKey = b.sizeKey) (h4 : b'.sizeCount = b.sizeCount) (h : chunkRel A c b) : chunkRel A c b' := by
  cases c with
  | Plain => exact h1.trans h
  | Shake => exact h1.trans h
  | Auth a => exact ⟨h1.trans h.1, by rw [h2, h3, h4]; exact h.2⟩

/-- **`next_padding_length`** = `Body.nextPadding`: same value, same position in the SHAKE stream afterwards -/
theorem next_padding_length_spec (A : ExtOk X C) (hC : C.Lawful) (ov : Bool) (g : AEADBodyCodec CM XR) (b : Body)
    (h : RelCore A g b) :
    ∃ g' p, AEADBodyCodec.next_padding_length X ov g = PWGen.Res.ok (g', p) ∧ p.toNat = (b.nextPadding C).1 ∧
      RelCore A g' (b.nextPadding C).2 ∧ g'.state = g.state := by
  cases hp : g.padding with
  | Empty =>
    have hg : b.globalPadding = false := by have := h.pad; rw [hp] at this; exact this
    refine ⟨g, 0, ?_, ?_, ?_, rfl⟩
    · simp only [AEADBodyCodec.next_padding_length, hp, run_ret]
    · simp [Body.nextPadding, hg]
    · simp only [Body.nextPadding, hg]; exact h
  | Shake =>
    have hg : b.globalPadding = true := by have := h.pad; rw [hp] at this; exact this
    obtain ⟨s', v, hn, hv, hr⟩ := shake_next_padding A hC ov g.shake b.shakeSeed b.shakePos ⟨h.xof, h.buf⟩
    refine ⟨{ g with shake := s' }, v, ?_, ?_, ?_, rfl⟩
    · simp only [AEADBodyCodec.next_padding_length, hp, hn, call_ok, bind_next, run_ret]
    · simp [Body.nextPadding, hg, hv]
    · have hb' : (b.nextPadding C).2 = { b with shakePos := b.shakePos + 1 } := by
        unfold Body.nextPadding; rw [if_pos hg]
      rw [hb']
      exact ⟨h.auth, chunkRel_congr A _ b _ rfl rfl rfl rfl h.chunk, h.pad, hr.1, hr.2, h.limit⟩

/-- **`ChunkSizeParser::size_bytes`** = `Body.sizeBytes` -/
theorem size_bytes_spec (A : ExtOk X C) (ov : Bool) (g : AEADBodyCodec CM XR) (b : Body) (h : RelCore A g b) :
    ∃ sb, ChunkSizeParser.size_bytes X ov g.chunk = PWGen.Res.ok sb ∧ sb.toNat = b.sizeBytes := by
  refine ⟨_, chunk_size_bytes X ov g.chunk A.tag, ?_⟩
  have := h.chunk
  cases hc : g.chunk with
  | Plain => rw [hc] at this; simp only [chunkRel] at this; simp [Body.sizeBytes, this]
  | Shake => rw [hc] at this; simp only [chunkRel] at this; simp [Body.sizeBytes, this]
  | Auth a => rw [hc] at this; simp only [chunkRel] at this; simp [Body.sizeBytes, this.1]

theorem rdBE_two_lt' (l : Bytes) (h : l.length = 2) : rdBE l < 65536 := rdBE_two_lt l h

/-- **`decode_size`** = `Body.decodeSize` on the size field: same length or the same refusal, same counters afterwards;
the nonce buffer keeps everything but its first two bytes -/
theorem decode_size_spec (A : ExtOk X C) (hC : C.Lawful) (ov : Bool) (g : AEADBodyCodec CM XR) (b : Body) (h : RelCore A g b)
    (data nonce : List UInt8) (hd : data.length = b.sizeBytes) (hl : 12 ≤ nonce.length)
    (hiv : b.size = .auth → nonce.drop 2 = b.sizeIv.drop 2) :
    ∃ g' d' n' res, AEADBodyCodec.decode_size X ov g data nonce = PWGen.Res.ok (g', d', n', res) ∧
      n'.length = nonce.length ∧ n'.drop 2 = nonce.drop 2 ∧
      RelCore A g' (b.decodeSize C data).2 ∧ g'.state = g.state ∧ sizeRes res (b.decodeSize C data).1 := by
  have hch := h.chunk
  cases hc : g.chunk with
  | Plain =>
    rw [hc] at hch
    have hs : b.size = .plain := hch
    have hd2 : data.length = 2 := by rw [hd]; simp [Body.sizeBytes, hs]
    refine ⟨g, data, nonce, RResult.ok (U16.as_usize (U16.from_be_bytes data)), ?_, rfl, rfl, ?_, rfl, ?_⟩
    · simp only [AEADBodyCodec.decode_size, hc, plain_decode_size X ov data hd2, call_ok, bind_next, run_ret]
    · simp only [Body.decodeSize, hs]; exact h
    · simp only [Body.decodeSize, hs, sizeRes]
      rw [u16_as_usize_toNat, from_be_bytes_toNat _ hd2]
  | Shake =>
    rw [hc] at hch
    have hs : b.size = .shake := hch
    have hd2 : data.length = 2 := by rw [hd]; simp [Body.sizeBytes, hs]
    obtain ⟨s', v, hn, hv, hr⟩ := shake_decode_size A hC ov g.shake b.shakeSeed b.shakePos ⟨h.xof, h.buf⟩ data hd2
    refine ⟨{ g with shake := s' }, data, nonce, RResult.ok v, ?_, rfl, rfl, ?_, rfl, ?_⟩
    · simp only [AEADBodyCodec.decode_size, hc, hn, call_ok, bind_next, run_ret]
    · have hb' : (b.decodeSize C data).2 = { b with shakePos := b.shakePos + 1 } := by
        unfold Body.decodeSize; rw [hs]
      rw [hb']
      exact ⟨h.auth, by show chunkRel A g.chunk _; rw [hc]; exact hs, h.pad, hr.1, hr.2, h.limit⟩
    · simp only [Body.decodeSize, hs, sizeRes]; exact hv
  | Auth a =>
    rw [hc] at hch
    obtain ⟨hs, ha⟩ := hch
    have hd18 : data.length = 18 := by rw [hd]; simp [Body.sizeBytes, hs]
    obtain ⟨a', buf', res, he, ha', hres⟩ := auth_decode_size A hC ov a b.sec.alg b.sizeKey b.sizeIv b.sizeCount ha data nonce hd18 hl (hiv hs)
    refine ⟨{ g with chunk := .Auth a' }, buf', stamped a.counting.count nonce, res, ?_, stamped_length _ _ (by omega), stamped_drop _ _, ?_, rfl, ?_⟩
    · simp only [AEADBodyCodec.decode_size, hc, he, call_ok, bind_next, run_ret]
    · have hb' : (b.decodeSize C data).2 = { b with sizeCount := b.sizeCount + 1 } := by
        simp only [Body.decodeSize, hs]; split <;> rfl
      rw [hb']
      exact ⟨h.auth, ⟨hs, ha'⟩, h.pad, h.xof, h.buf, h.limit⟩
    · simp only [Body.decodeSize, hs]
      cases hop : C.openB b.sec.alg b.sizeKey (Nonce.counting b.sizeIv b.sizeCount 12) [] data with
      | none => rw [hop] at hres; exact hres
      | some p => rw [hop] at hres; exact hres

end codec

/-! ## Part 4 — the decoder loops -/
section sess

theorem sessD_chunk_put (s : DynSession) (b b' : Body) (n' : List UInt8) (h : SessD s b)
    (hl : n'.length = (DynSession.chunk_nonce s).length) (hd : n'.drop 2 = (DynSession.chunk_nonce s).drop 2)
    (h1 : b'.iv = b.iv) (h2 : b'.size = b.size) (h3 : b'.sizeIv = b.sizeIv) :
    SessD (DynSession.chunk_nonce_put s n') b' := by
  obtain ⟨⟨d1, d2⟩, c1, c2⟩ := h
  rw [h1.symm] at d2
  rw [h2.symm, h3.symm] at c2
  cases s with
  | ClientSession x =>
    simp only [DynSession.chunk_nonce, DynSession.decoder_nonce_mut] at hl hd d1 d2 c1 c2
    refine ⟨⟨?_, ?_⟩, ?_, fun hh => ?_⟩ <;>
      simp only [DynSession.chunk_nonce, DynSession.decoder_nonce_mut, DynSession.chunk_nonce_put]
    · exact d1
    · exact d2
    · omega
    · rw [hd]; exact c2 hh
  | ServerSession x =>
    simp only [DynSession.chunk_nonce, DynSession.decoder_nonce_mut] at hl hd d1 d2 c1 c2
    refine ⟨⟨?_, ?_⟩, ?_, fun hh => ?_⟩ <;>
      simp only [DynSession.chunk_nonce, DynSession.decoder_nonce_mut, DynSession.chunk_nonce_put]
    · omega
    · rw [hd]; exact d2
    · omega
    · rw [hd]; exact c2 hh

theorem sessD_dec_put (s : DynSession) (b b' : Body) (n' : List UInt8) (h : SessD s b)
    (hl : n'.length = (DynSession.decoder_nonce_mut s).length) (hd : n'.drop 2 = (DynSession.decoder_nonce_mut s).drop 2)
    (h1 : b'.iv = b.iv) (h2 : b'.size = b.size) (h3 : b'.sizeIv = b.sizeIv) :
    SessD (DynSession.decoder_nonce_mut_put s n') b' := by
  obtain ⟨⟨d1, d2⟩, c1, c2⟩ := h
  rw [h1.symm] at d2
  rw [h2.symm, h3.symm] at c2
  cases s with
  | ClientSession x =>
    simp only [DynSession.chunk_nonce, DynSession.decoder_nonce_mut] at hl hd d1 d2 c1 c2
    refine ⟨⟨?_, ?_⟩, ?_, fun hh => ?_⟩ <;>
      simp only [DynSession.chunk_nonce, DynSession.decoder_nonce_mut, DynSession.decoder_nonce_mut_put]
    · omega
    · rw [hd]; exact d2
    · exact c1
    · exact c2 hh
  | ServerSession x =>
    simp only [DynSession.chunk_nonce, DynSession.decoder_nonce_mut] at hl hd d1 d2 c1 c2
    refine ⟨⟨?_, ?_⟩, ?_, fun hh => ?_⟩ <;>
      simp only [DynSession.chunk_nonce, DynSession.decoder_nonce_mut, DynSession.decoder_nonce_mut_put]
    · omega
    · rw [hd]; exact d2
    · omega
    · rw [hd]; exact c2 hh

theorem sessD_congr (s : DynSession) (b b' : Body) (h : SessD s b) (h1 : b'.iv = b.iv) (h2 : b'.size = b.size)
    (h3 : b'.sizeIv = b.sizeIv) : SessD s b' :=
  ⟨by rw [h1]; exact h.d, h.c.1, fun hh => by rw [h3]; exact h.c.2 (by rw [← h2]; exact hh)⟩

end sess

section norm
variable (C : Crypto)

/-- the code draws the padding length as soon as it is in state `Padding`, the model when the size field is complete:
a model state `padding` and the state the code is in after the draw are the same state -/
def norm (b : Body) : Body :=
  match b.st with
  | .padding => { (b.nextPadding C).2 with st := .length (b.nextPadding C).1 }
  | _ => b

theorem decodeSize_st (b : Body) (x : BodySt) (data : Bytes) :
    ({ b with st := x } : Body).decodeSize C data = ((b.decodeSize C data).1, { (b.decodeSize C data).2 with st := x }) := by
  obtain ⟨sec, key, iv, count, size, sizeKey, sizeIv, sizeCount, gp, seed, pos, st⟩ := b
  cases size with
  | plain => rfl
  | shake => rfl
  | auth => simp only [Body.decodeSize]; split <;> rfl

theorem nextPadding_st' (b : Body) : (b.nextPadding C).2.st = b.st := by
  unfold Body.nextPadding; split <;> rfl

/-- the model's unit step does not see the difference -/
theorem unit_norm (b : Body) (buf : Bytes) : Body.unit C (norm C b) buf = Body.unit C b buf := by
  cases hs : b.st with
  | padding =>
    have hn : norm C b = { (b.nextPadding C).2 with st := .length (b.nextPadding C).1 } := by simp only [norm, hs]
    rw [hn, Body.unit_length C _ buf (b.nextPadding C).1 rfl, Body.unit_padding C b buf hs, decodeSize_st]
    have e : ({ (b.nextPadding C).2 with st := BodySt.length (b.nextPadding C).1 } : Body).sizeBytes = b.sizeBytes := by
      rw [← Body.nextPadding_sizeBytes C b]; rfl
    rw [e]
    split
    · rfl
    · generalize (b.nextPadding C).2.decodeSize C (List.take b.sizeBytes buf) = r
      obtain ⟨o, b'⟩ := r
      cases o <;> rfl
  | length pl => simp only [norm, hs]
  | body pl len => simp only [norm, hs]

theorem norm_of_not_padding (b : Body) (h : b.st ≠ .padding) : norm C b = b := by
  cases hs : b.st with
  | padding => exact absurd hs h
  | length pl => simp only [norm, hs]
  | body pl len => simp only [norm, hs]

theorem norm_iv (b : Body) : (norm C b).iv = b.iv ∧ (norm C b).size = b.size ∧ (norm C b).sizeIv = b.sizeIv := by
  cases hs : b.st with
  | padding => simp only [norm, hs]; unfold Body.nextPadding; split <;> exact ⟨rfl, rfl, rfl⟩
  | length pl => simp [norm, hs]
  | body pl len => simp [norm, hs]

end norm

section loop
variable {CM XR RNG : Type} {X : Ext CM XR RNG} {C : Crypto}
open Octo.Fr

/-- the correspondence up to the early draw of the padding length -/
def RelN (A : ExtOk X C) (g : AEADBodyCodec CM XR) (b : Body) : Prop :=
  match g.state with
  | .Padding => Rel A g b
  | _ => Rel A g (norm C b)

theorem relN_of_rel (A : ExtOk X C) (g : AEADBodyCodec CM XR) (b : Body) (h : Rel A g b) : RelN A g b := by
  unfold RelN
  cases hs : g.state with
  | Padding => exact h
  | Length p =>
    have := h.st; rw [hs] at this
    rw [norm_of_not_padding C b (by intro hb; rw [hb] at this; exact this)]; exact h
  | Body p l =>
    have := h.st; rw [hs] at this
    rw [norm_of_not_padding C b (by intro hb; rw [hb] at this; exact this)]; exact h

theorem relCore_state (A : ExtOk X C) (g : AEADBodyCodec CM XR) (b : Body) (x : DecodeState) (h : RelCore A g b) :
    RelCore A { g with state := x } b := ⟨h.auth, h.chunk, h.pad, h.xof, h.buf, h.limit⟩

theorem relCore_st (A : ExtOk X C) (g : AEADBodyCodec CM XR) (b : Body) (x : BodySt) (h : RelCore A g b) :
    RelCore A g { b with st := x } := ⟨h.auth, chunkRel_congr A _ b _ rfl rfl rfl rfl h.chunk, h.pad, h.xof, h.buf, h.limit⟩

def stM : DecodeState → Nat
  | .Padding => 2
  | .Length _ => 1
  | .Body _ _ => 0

abbrev PSt (CM XR : Type) := AEADBodyCodec CM XR × Cursor × DynSession × Cursor

/-- what the model still has to do, in terms of what it will have done in the end -/
def Agree (C : Crypto) (R0 : Out Body UInt8) (b : Body) (src dst : Bytes) : Prop :=
  R0 = ⟨(run (Body.unit C) b src).st, (run (Body.unit C) b src).buf, dst ++ (run (Body.unit C) b src).out,
    (run (Body.unit C) b src).failed⟩

def PInv (A : ExtOk X C) (R0 : Out Body UInt8) : PSt CM XR → Prop
  | (g, src, sess, dst) => ∃ b, RelN A g b ∧ SessD sess b ∧ src.length < 2 ^ 64 ∧ Agree C R0 b src dst

def PM : PSt CM XR → Nat
  | (g, src, _, _) => 3 * src.length + stM g.state

/-- after the loop (`break`) -/
def PQn (A : ExtOk X C) (R0 : Out Body UInt8) : PSt CM XR → Prop
  | (g, src, sess, dst) => RelN A g R0.st ∧ SessD sess R0.st ∧ R0.buf = src ∧ R0.out = dst ∧ R0.failed = false

/-- what a `decode_payload` call hands back, in the model's terms -/
def embedOut (R : Out Body UInt8) : RResult (Option Cursor) :=
  if R.failed then RResult.err else if R.out.isEmpty then RResult.ok none else RResult.ok (some R.out)

def PQr (A : ExtOk X C) (R0 : Out Body UInt8) : AEADBodyCodec CM XR × Cursor × DynSession × RResult (Option Cursor) → Prop
  | (g, src, sess, res) => RelN A g R0.st ∧ SessD sess R0.st ∧ src = R0.buf ∧ res = embedOut R0

theorem step_padding (A : ExtOk X C) (g g1 : AEADBodyCodec CM XR) (b : Body) (p : Usize)
    (hg : g.state = .Padding) (h : RelN A g b) (hp : p.toNat = (b.nextPadding C).1) (hc : RelCore A g1 (b.nextPadding C).2) :
    RelN A { g1 with state := .Length p } b := by
  unfold RelN at h ⊢
  rw [hg] at h
  have hst := h.st
  rw [hg] at hst
  cases hb : b.st with
  | padding =>
    have hn : norm C b = { (b.nextPadding C).2 with st := .length (b.nextPadding C).1 } := by simp only [norm, hb]
    simp only
    rw [hn]
    exact ⟨relCore_state A _ _ _ (relCore_st A _ _ _ hc), ⟨hp, Body.nextPadding_le C b⟩⟩
  | length pl => rw [hb] at hst; exact hst.elim
  | body pl len => rw [hb] at hst; exact hst.elim

theorem decodeSize_fields (C : Crypto) (b : Body) (d : Bytes) :
    (b.decodeSize C d).2.iv = b.iv ∧ (b.decodeSize C d).2.size = b.size ∧ (b.decodeSize C d).2.sizeIv = b.sizeIv ∧
      (b.decodeSize C d).2.st = b.st := by
  obtain ⟨sec, key, iv, count, size, sizeKey, sizeIv, sizeCount, gp, seed, pos, st⟩ := b
  cases size with
  | plain => exact ⟨rfl, rfl, rfl, rfl⟩
  | shake => exact ⟨rfl, rfl, rfl, rfl⟩
  | auth => simp only [Body.decodeSize]; split <;> exact ⟨rfl, rfl, rfl, rfl⟩

/-- in state `Length` the model's state (normalised) is `.length` with the same padding -/
theorem length_facts (A : ExtOk X C) (g : AEADBodyCodec CM XR) (b : Body) (p : Usize) (hg : g.state = .Length p)
    (h : RelN A g b) : Rel A g (norm C b) ∧ (norm C b).st = .length p.toNat ∧ p.toNat ≤ 63 := by
  unfold RelN at h
  rw [hg] at h
  simp only at h
  have hst := h.st
  rw [hg] at hst
  refine ⟨h, ?_⟩
  cases hb : (norm C b).st with
  | padding => rw [hb] at hst; exact hst.elim
  | length pl => rw [hb] at hst; obtain ⟨h1, h2⟩ := hst; subst h1; exact ⟨rfl, h2⟩
  | body pl len => rw [hb] at hst; exact hst.elim

theorem unit_at_length (C : Crypto) (b : Body) (pl : Nat) (src : Bytes) (h : (norm C b).st = .length pl) :
    Body.unit C b src =
      if src.length < (norm C b).sizeBytes then .need else
      match (norm C b).decodeSize C (src.take (norm C b).sizeBytes) with
      | (none, b') => .fail b' (norm C b).sizeBytes
      | (some len, b') => .take { b' with st := .body pl len } (norm C b).sizeBytes [] := by
  rw [← unit_norm C b src, Body.unit_length C _ src pl h]
  rfl

theorem step_length_need (A : ExtOk X C) (R0 : Out Body UInt8) (g : AEADBodyCodec CM XR) (b : Body) (p : Usize)
    (src dst : Bytes) (sess : DynSession) (hg : g.state = .Length p) (h : RelN A g b) (hs : SessD sess b)
    (ha : Agree C R0 b src dst) (hlt : src.length < (norm C b).sizeBytes) : PQn A R0 (g, src, sess, dst) := by
  obtain ⟨_, hst, _⟩ := length_facts A g b p hg h
  have hu : Body.unit C b src = .need := by rw [unit_at_length C b _ src hst, if_pos hlt]
  rw [Agree, run_need _ _ _ hu] at ha
  subst ha
  exact ⟨h, hs, rfl, by simp, rfl⟩

theorem step_length_fail (A : ExtOk X C) (R0 : Out Body UInt8) (g g1 : AEADBodyCodec CM XR) (b : Body) (p : Usize)
    (src dst : Bytes) (sess' : DynSession) (hg : g.state = .Length p) (h : RelN A g b)
    (ha : Agree C R0 b src dst) (hlt : ¬ src.length < (norm C b).sizeBytes)
    (hn : ((norm C b).decodeSize C (src.take (norm C b).sizeBytes)).1 = none)
    (hc : RelCore A g1 ((norm C b).decodeSize C (src.take (norm C b).sizeBytes)).2) (hg1 : g1.state = g.state)
    (hs : SessD sess' ((norm C b).decodeSize C (src.take (norm C b).sizeBytes)).2) :
    PQr A R0 (g1, src.drop (norm C b).sizeBytes, sess', RResult.err) := by
  obtain ⟨_, hst, hp63⟩ := length_facts A g b p hg h
  have hf := decodeSize_fields C (norm C b) (src.take (norm C b).sizeBytes)
  have hu : Body.unit C b src = .fail ((norm C b).decodeSize C (src.take (norm C b).sizeBytes)).2 (norm C b).sizeBytes := by
    rw [unit_at_length C b _ src hst, if_neg hlt]
    generalize (norm C b).decodeSize C (src.take (norm C b).sizeBytes) = r at hn
    obtain ⟨o, b'⟩ := r
    simp only at hn; subst hn; rfl
  rw [Agree, run_fail _ _ _ _ _ hu] at ha
  subst ha
  have hst' : ((norm C b).decodeSize C (src.take (norm C b).sizeBytes)).2.st = .length p.toNat := by rw [hf.2.2.2, hst]
  refine ⟨?_, hs, rfl, by simp [embedOut]⟩
  unfold RelN
  rw [hg1, hg]
  simp only
  rw [norm_of_not_padding C _ (by rw [hst']; simp)]
  exact ⟨hc, by rw [hg1, hg, hst']; exact ⟨rfl, hp63⟩⟩

theorem step_length_take (A : ExtOk X C) (R0 : Out Body UInt8) (g g1 : AEADBodyCodec CM XR) (b : Body) (p l : Usize) (len : Nat)
    (src dst : Bytes) (sess' : DynSession) (hg : g.state = .Length p) (h : RelN A g b)
    (ha : Agree C R0 b src dst) (hlt : ¬ src.length < (norm C b).sizeBytes) (h64 : src.length < 2 ^ 64)
    (hn : ((norm C b).decodeSize C (src.take (norm C b).sizeBytes)).1 = some len) (hl : l.toNat = len)
    (hc : RelCore A g1 ((norm C b).decodeSize C (src.take (norm C b).sizeBytes)).2)
    (hs : SessD sess' ((norm C b).decodeSize C (src.take (norm C b).sizeBytes)).2) :
    PInv A R0 ({ g1 with state := .Body p l }, src.drop (norm C b).sizeBytes, sess', dst) := by
  obtain ⟨_, hst, hp63⟩ := length_facts A g b p hg h
  have hf := decodeSize_fields C (norm C b) (src.take (norm C b).sizeBytes)
  have hu : Body.unit C b src = .take { ((norm C b).decodeSize C (src.take (norm C b).sizeBytes)).2 with st := .body p.toNat len }
      (norm C b).sizeBytes [] := by
    rw [unit_at_length C b _ src hst, if_neg hlt]
    generalize (norm C b).decodeSize C (src.take (norm C b).sizeBytes) = r at hn
    obtain ⟨o, b'⟩ := r
    simp only at hn; subst hn; rfl
  rw [Agree, run_take _ (body_unit_good C) _ _ _ _ _ hu] at ha
  refine ⟨{ ((norm C b).decodeSize C (src.take (norm C b).sizeBytes)).2 with st := .body p.toNat len }, ?_,
    sessD_congr _ _ _ hs rfl rfl rfl, by rw [List.length_drop]; omega, ?_⟩
  · unfold RelN
    simp only
    rw [norm_of_not_padding C _ (by simp)]
    exact ⟨relCore_state A _ _ _ (relCore_st A _ _ _ hc), ⟨rfl, hp63, hl⟩⟩
  · subst ha
    simp only [Agree, List.nil_append]

/-- in state `Body` the model's state is `.body` with the same padding and length -/
theorem body_facts (A : ExtOk X C) (g : AEADBodyCodec CM XR) (b : Body) (p l : Usize) (hg : g.state = .Body p l)
    (h : RelN A g b) : Rel A g b ∧ b.st = .body p.toNat l.toNat ∧ p.toNat ≤ 63 := by
  unfold RelN at h
  rw [hg] at h
  simp only at h
  have hst := h.st
  rw [hg] at hst
  cases hb : b.st with
  | padding =>
    have hn : (norm C b).st = .length (b.nextPadding C).1 := by simp only [norm, hb]
    rw [hn] at hst; exact hst.elim
  | length pl =>
    rw [norm_of_not_padding C b (by rw [hb]; simp), hb] at hst; exact hst.elim
  | body pl len =>
    rw [norm_of_not_padding C b (by rw [hb]; simp)] at h hst
    rw [hb] at hst
    obtain ⟨h1, h2, h3⟩ := hst
    subst h1; subst h3
    exact ⟨h, rfl, h2⟩

theorem relCore_auth (A : ExtOk X C) (g : AEADBodyCodec CM XR) (b : Body) (a' : Authenticator CM) (h : RelCore A g b)
    (ha : authRel A a' b.sec.alg b.key (b.count + 1)) : RelCore A { g with auth := a' } { b with count := b.count + 1 } :=
  ⟨ha, chunkRel_congr A _ b _ rfl rfl rfl rfl h.chunk, h.pad, h.xof, h.buf, h.limit⟩

theorem step_body_short (A : ExtOk X C) (R0 : Out Body UInt8) (g : AEADBodyCodec CM XR) (b : Body) (p l : Usize)
    (src dst : Bytes) (sess : DynSession) (hg : g.state = .Body p l) (h : RelN A g b) (hs : SessD sess b)
    (ha : Agree C R0 b src dst) (hlt : l.toNat < p.toNat + 16) : PQr A R0 (g, src, sess, RResult.err) := by
  obtain ⟨_, hst, _⟩ := body_facts A g b p l hg h
  have hu : Body.unit C b src = .fail b 0 := by rw [Body.unit_body C b src _ _ hst, if_pos hlt]
  rw [Agree, run_fail _ _ _ _ _ hu] at ha
  subst ha
  exact ⟨h, hs, by simp, by simp [embedOut]⟩

theorem step_body_need (A : ExtOk X C) (R0 : Out Body UInt8) (g : AEADBodyCodec CM XR) (b : Body) (p l : Usize)
    (src dst : Bytes) (sess : DynSession) (hg : g.state = .Body p l) (h : RelN A g b) (hs : SessD sess b)
    (ha : Agree C R0 b src dst) (hge : ¬ l.toNat < p.toNat + 16) (hlt : src.length < l.toNat) : PQn A R0 (g, src, sess, dst) := by
  obtain ⟨_, hst, _⟩ := body_facts A g b p l hg h
  have hu : Body.unit C b src = .need := by rw [Body.unit_body C b src _ _ hst, if_neg hge, if_pos hlt]
  rw [Agree, run_need _ _ _ hu] at ha
  subst ha
  exact ⟨h, hs, rfl, by simp, rfl⟩

theorem step_body_fail (A : ExtOk X C) (R0 : Out Body UInt8) (g : AEADBodyCodec CM XR) (b : Body) (p l : Usize)
    (a' : Authenticator CM) (src dst : Bytes) (sess' : DynSession) (hg : g.state = .Body p l) (h : RelN A g b)
    (ha : Agree C R0 b src dst) (hge : ¬ l.toNat < p.toNat + 16) (hlt : ¬ src.length < l.toNat)
    (hop : C.openB b.sec.alg b.key (Nonce.counting b.iv b.count 12) [] (src.take (l.toNat - p.toNat)) = none)
    (hauth : authRel A a' b.sec.alg b.key (b.count + 1)) (hs : SessD sess' b) :
    PQr A R0 ({ g with auth := a', state := .Body p l }, src.drop (l.toNat - p.toNat), sess', RResult.err) := by
  obtain ⟨hr, hst, hp63⟩ := body_facts A g b p l hg h
  have hu : Body.unit C b src = .fail { b with count := b.count + 1 } (l.toNat - p.toNat) := by
    rw [Body.unit_body C b src _ _ hst, if_neg hge, if_neg hlt, hop]
  rw [Agree, run_fail _ _ _ _ _ hu] at ha
  subst ha
  refine ⟨?_, sessD_congr _ _ _ hs rfl rfl rfl, rfl, by simp [embedOut]⟩
  unfold RelN
  simp only
  rw [norm_of_not_padding C _ (by show b.st ≠ _; rw [hst]; simp)]
  exact ⟨relCore_state A _ _ (.Body p l) (relCore_auth A g b a' hr.core hauth),
    by show stRel (.Body p l) b.st; rw [hst]; exact ⟨rfl, hp63, rfl⟩⟩

theorem step_body_take (A : ExtOk X C) (R0 : Out Body UInt8) (g : AEADBodyCodec CM XR) (b : Body) (p l : Usize)
    (a' : Authenticator CM) (src dst pt : Bytes) (sess' : DynSession) (hg : g.state = .Body p l) (h : RelN A g b)
    (ha : Agree C R0 b src dst) (hge : ¬ l.toNat < p.toNat + 16) (hlt : ¬ src.length < l.toNat) (h64 : src.length < 2 ^ 64)
    (hop : C.openB b.sec.alg b.key (Nonce.counting b.iv b.count 12) [] (src.take (l.toNat - p.toNat)) = some pt)
    (hauth : authRel A a' b.sec.alg b.key (b.count + 1)) (hs : SessD sess' b) :
    PInv A R0 ({ g with auth := a', state := .Padding }, src.drop l.toNat, sess', dst ++ pt) := by
  obtain ⟨hr, hst, hp63⟩ := body_facts A g b p l hg h
  have hu : Body.unit C b src = .take { b with count := b.count + 1, st := .padding } l.toNat pt := by
    rw [Body.unit_body C b src _ _ hst, if_neg hge, if_neg hlt, hop]
  rw [Agree, run_take _ (body_unit_good C) _ _ _ _ _ hu] at ha
  refine ⟨{ b with count := b.count + 1, st := .padding }, ?_, sessD_congr _ _ _ hs rfl rfl rfl,
    by rw [List.length_drop]; omega, ?_⟩
  · unfold RelN
    simp only
    exact ⟨relCore_state A _ _ _ (relCore_st A _ _ _ (relCore_auth A g b a' hr.core hauth)), trivial⟩
  · subst ha
    simp only [Agree, List.append_assoc]

theorem relN_core_padding (A : ExtOk X C) (g : AEADBodyCodec CM XR) (b : Body) (hg : g.state = .Padding) (h : RelN A g b) :
    RelCore A g b := by
  unfold RelN at h; rw [hg] at h; exact h.core

theorem dec_true (c : Prop) [Decidable c] (h : c) : decide c = true := decide_eq_true h
theorem dec_false (c : Prop) [Decidable c] (h : ¬ c) : decide c = false := decide_eq_false h

theorem rem_lt_iff (b : List UInt8) (hl : b.length < 2 ^ 64) (k : Usize) : Cursor.remaining b < k ↔ b.length < k.toNat := by
  rw [lt_iff_toNat, remaining_toNat b hl]

theorem sizeRes_none (res : RResult Usize) (h : sizeRes res none) : res = RResult.err := by
  cases res with
  | ok l => exact h.elim
  | err => rfl

theorem sizeRes_some (res : RResult Usize) (n : Nat) (h : sizeRes res (some n)) : ∃ l, res = RResult.ok l ∧ l.toNat = n := by
  cases res with
  | ok l => exact ⟨l, rfl, h⟩
  | err => exact h.elim

theorem decode_payload_spec (A : ExtOk X C) (hC : C.Lawful) (ov : Bool) (g : AEADBodyCodec CM XR) (b : Body) (src : Bytes)
    (sess : DynSession) (h : RelN A g b) (hs : SessD sess b) (h64 : src.length < 2 ^ 64) :
    ∃ r, AEADBodyCodec.decode_payload X ov g src sess = PWGen.Res.ok r ∧ PQr A (run (Body.unit C) b src) r := by
  unfold AEADBodyCodec.decode_payload
  apply run_of_post
  simp only [post_bind]
  refine post_mono (post_loopFuel _ PM (PInv A (run (Body.unit C) b src)) (PQn A (run (Body.unit C) b src))
    (PQr A (run (Body.unit C) b src)) ?hstep _ (g, src, sess, []) ?hI ?hM) ?hend
  case hI => exact ⟨b, h, hs, h64, by simp [Agree]⟩
  case hM => simp only [PM, List.length_nil]; cases g.state <;> simp [stM] <;> omega
  case hend =>
    intro ⟨g', src', sess', dst'⟩ ⟨h1, h2, h3, h4, h5⟩
    dsimp only
    cases he : Cursor.is_empty dst' with
    | true =>
      simp only [↓reduceIte, post_ret]
      refine ⟨h1, h2, h3.symm, ?_⟩
      have : dst'.isEmpty = true := he
      simp [embedOut, h5, h4, this]
    | false =>
      simp only [Bool.false_eq_true, ↓reduceIte, post_ret]
      refine ⟨h1, h2, h3.symm, ?_⟩
      have : dst'.isEmpty = false := he
      simp [embedOut, h5, h4, this]
  case hstep =>
    intro ⟨g, src, sess, dst⟩ ⟨b, hN, hS, h64, hA⟩
    cases hst : g.state with
    | Padding =>
      obtain ⟨g1, p, hcall, hp, hcore, hstate⟩ := next_padding_length_spec A hC ov g b (relN_core_padding A g b hst hN)
      simp only [hst, hcall, call_ok, bind_next, post_next]
      exact ⟨⟨b, step_padding A g g1 b p hst hN hp hcore, hS, h64, hA⟩, by simp only [PM, stM, hst]; omega⟩
    | Length p =>
      obtain ⟨hrel, hbst, hp63⟩ := length_facts A g b p hst hN
      obtain ⟨sb, hsb, hsbn⟩ := size_bytes_spec A ov g (norm C b) hrel.core
      by_cases hlt : src.length < (norm C b).sizeBytes
      · have c := dec_true _ ((rem_lt_iff src h64 sb).mpr (by rw [hsbn]; exact hlt))
        simp only [hst, hsb, call_ok, bind_next, c, ↓reduceIte, bind_ret, post_ret, post_brk]
        exact step_length_need A _ g b p src dst sess hst hN hS hA hlt
      · have c := dec_false _ (fun hh => hlt (by rw [← hsbn]; exact (rem_lt_iff src h64 sb).mp hh))
        have spl : (Flow.split_to src sb : Flow (Cursor × Cursor) (LoopExit (PSt CM XR) (AEADBodyCodec CM XR × Cursor × DynSession × RResult (Option Cursor))))
            = Flow.next (src.drop (norm C b).sizeBytes, src.take (norm C b).sizeBytes) := by
          rw [← hsbn]; exact split_to_ok src sb (by rw [hsbn]; omega)
        have hni := norm_iv C b
        obtain ⟨g1, d', n', res, hcall, hnl, hnd, hcore, hstate, hres⟩ := decode_size_spec A hC ov g (norm C b) hrel.core
          (src.take (norm C b).sizeBytes) (DynSession.chunk_nonce sess) (by rw [List.length_take]; omega) hS.c.1
          (fun ha => by rw [hni.2.2]; exact hS.c.2 (by rw [← hni.2.1]; exact ha))
        have hf := decodeSize_fields C (norm C b) (src.take (norm C b).sizeBytes)
        have hS' : SessD (DynSession.chunk_nonce_put sess n') ((norm C b).decodeSize C (src.take (norm C b).sizeBytes)).2 :=
          sessD_chunk_put sess b _ n' hS hnl hnd (by rw [hf.1, hni.1]) (by rw [hf.2.1, hni.2.1]) (by rw [hf.2.2.1, hni.2.2])
        cases hds : ((norm C b).decodeSize C (src.take (norm C b).sizeBytes)).1 with
        | none =>
          rw [hds] at hres
          have hr := sizeRes_none res hres
          subst hr
          simp only [hst, hsb, call_ok, bind_next, c, Bool.false_eq_true, ↓reduceIte, spl, hcall, question_err, bind_ret, post_ret, post_lret]
          exact step_length_fail A _ g g1 b p src dst _ hst hN hA hlt hds hcore hstate hS'
        | some len =>
          rw [hds] at hres
          obtain ⟨l, hr, hl⟩ := sizeRes_some res len hres
          subst hr
          simp only [hst, hsb, call_ok, bind_next, c, Bool.false_eq_true, ↓reduceIte, spl, hcall, question_ok, post_next]
          refine ⟨step_length_take A _ g g1 b p l len src dst _ hst hN hA hlt h64 hds hl hcore hS', ?_⟩
          simp only [PM, stM, hst, List.length_drop]
          have := (norm C b).sizeBytes_cases
          omega
    | Body p l =>
      obtain ⟨hrel, hbst, hp63⟩ := body_facts A g b p l hst hN
      have e16 : (16 : Usize).toNat = 16 := rfl
      have hadd : (p + 16).toNat = p.toNat + 16 := by rw [add_toNat _ _ (by rw [e16]; omega), e16]
      have aok : U64.addOk p 16 = true := by simp only [U64.addOk, e16, decide_eq_true_eq]; omega
      by_cases h1 : l.toNat < p.toNat + 16
      · have c1 := dec_true _ ((lt_iff_toNat l (p + 16)).mpr (by rw [hadd]; exact h1))
        simp only [hst, A.tag, aok, arith_true, bind_next, c1, ↓reduceIte, bind_ret, post_ret, post_lret]
        exact step_body_short A _ g b p l src dst sess hst hN hS hA h1
      · have c1 := dec_false _ (fun hh => h1 (by rw [← hadd]; exact (lt_iff_toNat l (p + 16)).mp hh))
        by_cases h2 : src.length < l.toNat
        · have c2 := dec_true _ ((rem_lt_iff src h64 l).mpr h2)
          simp only [hst, A.tag, aok, arith_true, bind_next, c1, c2, Bool.false_eq_true, ↓reduceIte, bind_ret, post_ret, post_brk]
          exact step_body_need A _ g b p l src dst sess hst hN hS hA h1 h2
        · have c2 := dec_false _ (fun hh => h2 ((rem_lt_iff src h64 l).mp hh))
          have sok : U64.subOk l p = true := by simp only [U64.subOk, decide_eq_true_eq]; omega
          have hsub : (l - p).toNat = l.toNat - p.toNat := sub_toNat l p (by omega)
          have spl : (Flow.split_to src (l - p) : Flow (Cursor × Cursor) (LoopExit (PSt CM XR) (AEADBodyCodec CM XR × Cursor × DynSession × RResult (Option Cursor))))
              = Flow.next (src.drop (l.toNat - p.toNat), src.take (l.toNat - p.toNat)) := by
            rw [← hsub]; exact split_to_ok src (l - p) (by rw [hsub]; omega)
          obtain ⟨hac, hacount, hans⟩ := hrel.core.auth
          have ho := open_eval X ov g.auth (src.take (l.toNat - p.toNat)) (DynSession.decoder_nonce_mut sess) hans hS.d.1
          have hn := counting_congr (DynSession.decoder_nonce_mut sess) b.iv _ b.count hacount hS.d.2
          have hk : (A.cipherOf g.auth.cipher).1 = b.sec.alg ∧ (A.cipherOf g.auth.cipher).2 = b.key := by rw [hac]; exact ⟨rfl, rfl⟩
          have hauth : authRel A (⟨g.auth.cipher, ⟨g.auth.counting.count + 1, 12⟩⟩ : Authenticator CM) b.sec.alg b.key (b.count + 1) :=
            ⟨hac, count_step _ _ hacount, rfl⟩
          have hS' : SessD (DynSession.decoder_nonce_mut_put sess (stamped g.auth.counting.count (DynSession.decoder_nonce_mut sess))) b :=
            sessD_dec_put sess b b _ hS (stamped_length _ _ (by have := hS.d.1; omega)) (stamped_drop _ _) rfl rfl rfl
          cases hop : C.openB b.sec.alg b.key (Nonce.counting b.iv b.count 12) [] (src.take (l.toNat - p.toNat)) with
          | none =>
            have hd := A.dec_err g.auth.cipher (Nonce.counting (DynSession.decoder_nonce_mut sess) g.auth.counting.count.toNat 12)
              (src.take (l.toNat - p.toNat)) (by rw [hk.1, hk.2, hn]; exact hop)
            simp only [hst, A.tag, aok, sok, arith_true, bind_next, c1, c2, Bool.false_eq_true, ↓reduceIte, spl, ho, call_ok, hd,
              question_err, bind_ret, post_ret, post_lret]
            exact step_body_fail A _ g b p l _ src dst _ hst hN hA h1 h2 hop hauth hS'
          | some pt =>
            have hd := A.dec_ok g.auth.cipher (Nonce.counting (DynSession.decoder_nonce_mut sess) g.auth.counting.count.toNat 12)
              (src.take (l.toNat - p.toNat)) pt (by rw [hk.1, hk.2, hn]; exact hop)
            have adv : (Flow.advance (src.drop (l.toNat - p.toNat)) p : Flow Cursor (LoopExit (PSt CM XR) (AEADBodyCodec CM XR × Cursor × DynSession × RResult (Option Cursor))))
                = Flow.next (src.drop l.toNat) := by
              rw [advance_ok _ _ (by rw [List.length_drop]; omega), List.drop_drop]
              congr 2; omega
            simp only [hst, A.tag, aok, sok, arith_true, bind_next, c1, c2, Bool.false_eq_true, ↓reduceIte, spl, ho, call_ok, hd,
              question_ok, Cursor.extend_from_slice, adv, post_next]
            refine ⟨step_body_take A _ g b p l _ src dst pt _ hst hN hA h1 h2 h64 hop hauth hS', ?_⟩
            simp only [PM, stM, hst, List.length_drop]
            omega

/-! ### `decode_packet` -/

abbrev KSt (CM XR : Type) := AEADBodyCodec CM XR × Cursor × DynSession

def stNeed : DecodeState → Nat
  | .Body _ _ => 1
  | _ => 2

def KInv (A : ExtOk X C) (R0 : Body × Bytes × Octo.Res Bytes) : KSt CM XR → Prop
  | (g, src, sess) => ∃ b k, RelN A g b ∧ SessD sess b ∧ src.length < 2 ^ 64 ∧ stNeed g.state ≤ k ∧ R0 = bodyDrainPacket C k b src

def KM : KSt CM XR → Nat
  | (g, src, _) => 3 * src.length + stM g.state

def embedPkt : Octo.Res Bytes → RResult (Option Cursor)
  | .ok o => RResult.ok (some o)
  | .more => RResult.ok none
  | _ => RResult.err

def KQr (A : ExtOk X C) (R0 : Body × Bytes × Octo.Res Bytes) : AEADBodyCodec CM XR × Cursor × DynSession × RResult (Option Cursor) → Prop
  | (g, src, sess, res) => RelN A g R0.1 ∧ SessD sess R0.1 ∧ src = R0.2.1 ∧ res = embedPkt R0.2.2 ∧ R0.2.2 ≠ .panic

theorem drain_need (C : Crypto) (k : Nat) (b : Body) (src : Bytes) (hu : Body.unit C b src = .need) :
    bodyDrainPacket C (k + 1) b src = (b, src, .more) := by simp only [bodyDrainPacket, hu]

theorem drain_fail (C : Crypto) (k : Nat) (b b' : Body) (n : Nat) (src : Bytes) (hu : Body.unit C b src = .fail b' n) :
    bodyDrainPacket C (k + 1) b src = (b', src.drop n, .err) := by simp only [bodyDrainPacket, hu]

theorem kstep_length_need (A : ExtOk X C) (R0 : Body × Bytes × Octo.Res Bytes) (g : AEADBodyCodec CM XR) (b : Body) (p : Usize) (k : Nat)
    (src : Bytes) (sess : DynSession) (hg : g.state = .Length p) (h : RelN A g b) (hs : SessD sess b) (hk : 1 ≤ k)
    (ha : R0 = bodyDrainPacket C k b src) (hlt : src.length < (norm C b).sizeBytes) : KQr A R0 (g, src, sess, RResult.ok none) := by
  obtain ⟨_, hst, _⟩ := length_facts A g b p hg h
  have hu : Body.unit C b src = .need := by rw [unit_at_length C b _ src hst, if_pos hlt]
  obtain ⟨k', rfl⟩ : ∃ k', k = k' + 1 := ⟨k - 1, by omega⟩
  rw [drain_need C k' b src hu] at ha
  subst ha
  exact ⟨h, hs, rfl, rfl, by simp⟩

theorem kstep_length_fail (A : ExtOk X C) (R0 : Body × Bytes × Octo.Res Bytes) (g g1 : AEADBodyCodec CM XR) (b : Body) (p : Usize) (k : Nat)
    (src : Bytes) (sess' : DynSession) (hg : g.state = .Length p) (h : RelN A g b) (hk : 1 ≤ k)
    (ha : R0 = bodyDrainPacket C k b src) (hlt : ¬ src.length < (norm C b).sizeBytes)
    (hn : ((norm C b).decodeSize C (src.take (norm C b).sizeBytes)).1 = none)
    (hc : RelCore A g1 ((norm C b).decodeSize C (src.take (norm C b).sizeBytes)).2) (hg1 : g1.state = g.state)
    (hs : SessD sess' ((norm C b).decodeSize C (src.take (norm C b).sizeBytes)).2) :
    KQr A R0 (g1, src.drop (norm C b).sizeBytes, sess', RResult.err) := by
  obtain ⟨_, hst, hp63⟩ := length_facts A g b p hg h
  have hf := decodeSize_fields C (norm C b) (src.take (norm C b).sizeBytes)
  have hu : Body.unit C b src = .fail ((norm C b).decodeSize C (src.take (norm C b).sizeBytes)).2 (norm C b).sizeBytes := by
    rw [unit_at_length C b _ src hst, if_neg hlt]
    generalize (norm C b).decodeSize C (src.take (norm C b).sizeBytes) = r at hn
    obtain ⟨o, b'⟩ := r
    simp only at hn; subst hn; rfl
  obtain ⟨k', rfl⟩ : ∃ k', k = k' + 1 := ⟨k - 1, by omega⟩
  rw [drain_fail C k' b _ _ src hu] at ha
  subst ha
  have hst' : ((norm C b).decodeSize C (src.take (norm C b).sizeBytes)).2.st = .length p.toNat := by rw [hf.2.2.2, hst]
  refine ⟨?_, hs, rfl, rfl, by simp⟩
  unfold RelN
  rw [hg1, hg]
  simp only
  rw [norm_of_not_padding C _ (by rw [hst']; simp)]
  exact ⟨hc, by rw [hg1, hg, hst']; exact ⟨rfl, hp63⟩⟩

theorem kstep_length_take (A : ExtOk X C) (R0 : Body × Bytes × Octo.Res Bytes) (g g1 : AEADBodyCodec CM XR) (b : Body) (p l : Usize)
    (len k : Nat) (src : Bytes) (sess' : DynSession) (hg : g.state = .Length p) (h : RelN A g b) (hk : 2 ≤ k)
    (ha : R0 = bodyDrainPacket C k b src) (hlt : ¬ src.length < (norm C b).sizeBytes) (h64 : src.length < 2 ^ 64)
    (hn : ((norm C b).decodeSize C (src.take (norm C b).sizeBytes)).1 = some len) (hl : l.toNat = len)
    (hc : RelCore A g1 ((norm C b).decodeSize C (src.take (norm C b).sizeBytes)).2)
    (hs : SessD sess' ((norm C b).decodeSize C (src.take (norm C b).sizeBytes)).2) :
    KInv A R0 ({ g1 with state := .Body p l }, src.drop (norm C b).sizeBytes, sess') := by
  obtain ⟨_, hst, hp63⟩ := length_facts A g b p hg h
  have hu : Body.unit C b src = .take { ((norm C b).decodeSize C (src.take (norm C b).sizeBytes)).2 with st := .body p.toNat len }
      (norm C b).sizeBytes [] := by
    rw [unit_at_length C b _ src hst, if_neg hlt]
    generalize (norm C b).decodeSize C (src.take (norm C b).sizeBytes) = r at hn
    obtain ⟨o, b'⟩ := r
    simp only at hn; subst hn; rfl
  obtain ⟨k', rfl⟩ : ∃ k', k = k' + 1 := ⟨k - 1, by omega⟩
  refine ⟨{ ((norm C b).decodeSize C (src.take (norm C b).sizeBytes)).2 with st := .body p.toNat len }, k', ?_,
    sessD_congr _ _ _ hs rfl rfl rfl, by rw [List.length_drop]; omega, by simp only [stNeed]; omega, ?_⟩
  · unfold RelN
    simp only
    rw [norm_of_not_padding C _ (by simp)]
    exact ⟨relCore_state A _ _ _ (relCore_st A _ _ _ hc), ⟨rfl, hp63, hl⟩⟩
  · rw [ha]
    simp only [bodyDrainPacket, hu]
    rw [if_neg (by simp)]

theorem kstep_body_short (A : ExtOk X C) (R0 : Body × Bytes × Octo.Res Bytes) (g : AEADBodyCodec CM XR) (b : Body) (p l : Usize) (k : Nat)
    (src : Bytes) (sess : DynSession) (hg : g.state = .Body p l) (h : RelN A g b) (hs : SessD sess b) (hk : 1 ≤ k)
    (ha : R0 = bodyDrainPacket C k b src) (hlt : l.toNat < p.toNat + 16) : KQr A R0 (g, src, sess, RResult.err) := by
  obtain ⟨_, hst, _⟩ := body_facts A g b p l hg h
  have hu : Body.unit C b src = .fail b 0 := by rw [Body.unit_body C b src _ _ hst, if_pos hlt]
  obtain ⟨k', rfl⟩ : ∃ k', k = k' + 1 := ⟨k - 1, by omega⟩
  rw [drain_fail C k' b _ _ src hu] at ha
  subst ha
  exact ⟨h, hs, by simp, rfl, by simp⟩

theorem kstep_body_need (A : ExtOk X C) (R0 : Body × Bytes × Octo.Res Bytes) (g : AEADBodyCodec CM XR) (b : Body) (p l : Usize) (k : Nat)
    (src : Bytes) (sess : DynSession) (hg : g.state = .Body p l) (h : RelN A g b) (hs : SessD sess b) (hk : 1 ≤ k)
    (ha : R0 = bodyDrainPacket C k b src) (hge : ¬ l.toNat < p.toNat + 16) (hlt : src.length < l.toNat) :
    KQr A R0 (g, src, sess, RResult.ok none) := by
  obtain ⟨_, hst, _⟩ := body_facts A g b p l hg h
  have hu : Body.unit C b src = .need := by rw [Body.unit_body C b src _ _ hst, if_neg hge, if_pos hlt]
  obtain ⟨k', rfl⟩ : ∃ k', k = k' + 1 := ⟨k - 1, by omega⟩
  rw [drain_need C k' b src hu] at ha
  subst ha
  exact ⟨h, hs, rfl, rfl, by simp⟩

theorem kstep_body_fail (A : ExtOk X C) (R0 : Body × Bytes × Octo.Res Bytes) (g : AEADBodyCodec CM XR) (b : Body) (p l : Usize) (k : Nat)
    (a' : Authenticator CM) (src : Bytes) (sess' : DynSession) (hg : g.state = .Body p l) (h : RelN A g b) (hk : 1 ≤ k)
    (ha : R0 = bodyDrainPacket C k b src) (hge : ¬ l.toNat < p.toNat + 16) (hlt : ¬ src.length < l.toNat)
    (hop : C.openB b.sec.alg b.key (Nonce.counting b.iv b.count 12) [] (src.take (l.toNat - p.toNat)) = none)
    (hauth : authRel A a' b.sec.alg b.key (b.count + 1)) (hs : SessD sess' b) :
    KQr A R0 ({ g with auth := a', state := .Body p l }, src.drop (l.toNat - p.toNat), sess', RResult.err) := by
  obtain ⟨hr, hst, hp63⟩ := body_facts A g b p l hg h
  have hu : Body.unit C b src = .fail { b with count := b.count + 1 } (l.toNat - p.toNat) := by
    rw [Body.unit_body C b src _ _ hst, if_neg hge, if_neg hlt, hop]
  obtain ⟨k', rfl⟩ : ∃ k', k = k' + 1 := ⟨k - 1, by omega⟩
  rw [drain_fail C k' b _ _ src hu] at ha
  subst ha
  refine ⟨?_, sessD_congr _ _ _ hs rfl rfl rfl, rfl, rfl, by simp⟩
  unfold RelN
  simp only
  rw [norm_of_not_padding C _ (by show b.st ≠ _; rw [hst]; simp)]
  exact ⟨relCore_state A _ _ (.Body p l) (relCore_auth A g b a' hr.core hauth),
    by show stRel (.Body p l) b.st; rw [hst]; exact ⟨rfl, hp63, rfl⟩⟩

theorem kstep_body_take (A : ExtOk X C) (R0 : Body × Bytes × Octo.Res Bytes) (g : AEADBodyCodec CM XR) (b : Body) (p l : Usize) (k : Nat)
    (a' : Authenticator CM) (src pt : Bytes) (sess' : DynSession) (hg : g.state = .Body p l) (h : RelN A g b) (hk : 1 ≤ k)
    (ha : R0 = bodyDrainPacket C k b src) (hge : ¬ l.toNat < p.toNat + 16) (hlt : ¬ src.length < l.toNat)
    (hop : C.openB b.sec.alg b.key (Nonce.counting b.iv b.count 12) [] (src.take (l.toNat - p.toNat)) = some pt)
    (hauth : authRel A a' b.sec.alg b.key (b.count + 1)) (hs : SessD sess' b) :
    KQr A R0 ({ g with auth := a', state := .Padding }, src.drop l.toNat, sess', RResult.ok (some pt)) := by
  obtain ⟨hr, hst, hp63⟩ := body_facts A g b p l hg h
  have hu : Body.unit C b src = .take { b with count := b.count + 1, st := .padding } l.toNat pt := by
    rw [Body.unit_body C b src _ _ hst, if_neg hge, if_neg hlt, hop]
  obtain ⟨k', rfl⟩ : ∃ k', k = k' + 1 := ⟨k - 1, by omega⟩
  have hd : bodyDrainPacket C (k' + 1) b src = ({ b with count := b.count + 1, st := .padding }, src.drop l.toNat, .ok pt) := by
    simp only [bodyDrainPacket, hu, if_true]
  rw [hd] at ha
  subst ha
  refine ⟨?_, sessD_congr _ _ _ hs rfl rfl rfl, rfl, rfl, by simp⟩
  unfold RelN
  simp only
  exact ⟨relCore_state A _ _ _ (relCore_st A _ _ _ (relCore_auth A g b a' hr.core hauth)), trivial⟩

theorem decode_packet_spec (A : ExtOk X C) (hC : C.Lawful) (ov : Bool) (g : AEADBodyCodec CM XR) (b : Body) (src : Bytes)
    (sess : DynSession) (h : RelN A g b) (hs : SessD sess b) (h64 : src.length < 2 ^ 64) :
    ∃ r, AEADBodyCodec.decode_packet X ov g src sess = PWGen.Res.ok r ∧ KQr A (bodyDrainPacket C 3 b src) r := by
  unfold AEADBodyCodec.decode_packet
  apply run_of_post
  simp only [post_bind]
  refine post_mono (post_loopFuel _ KM (KInv A (bodyDrainPacket C 3 b src)) (fun _ => False)
    (KQr A (bodyDrainPacket C 3 b src)) ?hstep _ (g, src, sess) ?hI ?hM) ?hend
  case hI => exact ⟨b, 3, h, hs, h64, by cases g.state <;> simp [stNeed], rfl⟩
  case hM => simp only [KM]; cases g.state <;> simp [stM] <;> omega
  case hend => intro s hF; exact hF.elim
  case hstep =>
    intro ⟨g, src, sess⟩ ⟨b, k, hN, hS, h64, hk, hA⟩
    cases hst : g.state with
    | Padding =>
      obtain ⟨g1, p, hcall, hp, hcore, hstate⟩ := next_padding_length_spec A hC ov g b (relN_core_padding A g b hst hN)
      simp only [hst, hcall, call_ok, bind_next, post_next]
      rw [hst] at hk
      exact ⟨⟨b, k, step_padding A g g1 b p hst hN hp hcore, hS, h64, hk, hA⟩, by simp only [KM, stM, hst]; omega⟩
    | Length p =>
      rw [hst] at hk
      simp only [stNeed] at hk
      obtain ⟨hrel, hbst, hp63⟩ := length_facts A g b p hst hN
      obtain ⟨sb, hsb, hsbn⟩ := size_bytes_spec A ov g (norm C b) hrel.core
      by_cases hlt : src.length < (norm C b).sizeBytes
      · have c := dec_true _ ((rem_lt_iff src h64 sb).mpr (by rw [hsbn]; exact hlt))
        simp only [hst, hsb, call_ok, bind_next, c, ↓reduceIte, bind_ret, post_ret, post_lret]
        exact kstep_length_need A _ g b p k src sess hst hN hS (by omega) hA hlt
      · have c := dec_false _ (fun hh => hlt (by rw [← hsbn]; exact (rem_lt_iff src h64 sb).mp hh))
        have spl : (Flow.split_to src sb : Flow (Cursor × Cursor) (LoopExit (KSt CM XR) (AEADBodyCodec CM XR × Cursor × DynSession × RResult (Option Cursor))))
            = Flow.next (src.drop (norm C b).sizeBytes, src.take (norm C b).sizeBytes) := by
          rw [← hsbn]; exact split_to_ok src sb (by rw [hsbn]; omega)
        have hni := norm_iv C b
        obtain ⟨g1, d', n', res, hcall, hnl, hnd, hcore, hstate, hres⟩ := decode_size_spec A hC ov g (norm C b) hrel.core
          (src.take (norm C b).sizeBytes) (DynSession.chunk_nonce sess) (by rw [List.length_take]; omega) hS.c.1
          (fun ha => by rw [hni.2.2]; exact hS.c.2 (by rw [← hni.2.1]; exact ha))
        have hf := decodeSize_fields C (norm C b) (src.take (norm C b).sizeBytes)
        have hS' : SessD (DynSession.chunk_nonce_put sess n') ((norm C b).decodeSize C (src.take (norm C b).sizeBytes)).2 :=
          sessD_chunk_put sess b _ n' hS hnl hnd (by rw [hf.1, hni.1]) (by rw [hf.2.1, hni.2.1]) (by rw [hf.2.2.1, hni.2.2])
        cases hds : ((norm C b).decodeSize C (src.take (norm C b).sizeBytes)).1 with
        | none =>
          rw [hds] at hres
          have hr := sizeRes_none res hres
          subst hr
          simp only [hst, hsb, call_ok, bind_next, c, Bool.false_eq_true, ↓reduceIte, spl, hcall, question_err, bind_ret, post_ret, post_lret]
          exact kstep_length_fail A _ g g1 b p k src _ hst hN (by omega) hA hlt hds hcore hstate hS'
        | some len =>
          rw [hds] at hres
          obtain ⟨l, hr, hl⟩ := sizeRes_some res len hres
          subst hr
          simp only [hst, hsb, call_ok, bind_next, c, Bool.false_eq_true, ↓reduceIte, spl, hcall, question_ok, post_next]
          refine ⟨kstep_length_take A _ g g1 b p l len k src _ hst hN hk hA hlt h64 hds hl hcore hS', ?_⟩
          simp only [KM, stM, hst, List.length_drop]
          have := (norm C b).sizeBytes_cases
          omega
    | Body p l =>
      rw [hst] at hk
      simp only [stNeed] at hk
      obtain ⟨hrel, hbst, hp63⟩ := body_facts A g b p l hst hN
      have e16 : (16 : Usize).toNat = 16 := rfl
      have hadd : (p + 16).toNat = p.toNat + 16 := by rw [add_toNat _ _ (by rw [e16]; omega), e16]
      have aok : U64.addOk p 16 = true := by simp only [U64.addOk, e16, decide_eq_true_eq]; omega
      by_cases h1 : l.toNat < p.toNat + 16
      · have c1 := dec_true _ ((lt_iff_toNat l (p + 16)).mpr (by rw [hadd]; exact h1))
        simp only [hst, A.tag, aok, arith_true, bind_next, c1, ↓reduceIte, bind_ret, post_ret, post_lret]
        exact kstep_body_short A _ g b p l k src sess hst hN hS hk hA h1
      · have c1 := dec_false _ (fun hh => h1 (by rw [← hadd]; exact (lt_iff_toNat l (p + 16)).mp hh))
        by_cases h2 : src.length < l.toNat
        · have c2 := dec_true _ ((rem_lt_iff src h64 l).mpr h2)
          simp only [hst, A.tag, aok, arith_true, bind_next, c1, c2, Bool.false_eq_true, ↓reduceIte, bind_ret, post_ret, post_lret]
          exact kstep_body_need A _ g b p l k src sess hst hN hS hk hA h1 h2
        · have c2 := dec_false _ (fun hh => h2 ((rem_lt_iff src h64 l).mp hh))
          have sok : U64.subOk l p = true := by simp only [U64.subOk, decide_eq_true_eq]; omega
          have hsub : (l - p).toNat = l.toNat - p.toNat := sub_toNat l p (by omega)
          have spl : (Flow.split_to src (l - p) : Flow (Cursor × Cursor) (LoopExit (KSt CM XR) (AEADBodyCodec CM XR × Cursor × DynSession × RResult (Option Cursor))))
              = Flow.next (src.drop (l.toNat - p.toNat), src.take (l.toNat - p.toNat)) := by
            rw [← hsub]; exact split_to_ok src (l - p) (by rw [hsub]; omega)
          obtain ⟨hac, hacount, hans⟩ := hrel.core.auth
          have ho := open_eval X ov g.auth (src.take (l.toNat - p.toNat)) (DynSession.decoder_nonce_mut sess) hans hS.d.1
          have hn := counting_congr (DynSession.decoder_nonce_mut sess) b.iv _ b.count hacount hS.d.2
          have hk' : (A.cipherOf g.auth.cipher).1 = b.sec.alg ∧ (A.cipherOf g.auth.cipher).2 = b.key := by rw [hac]; exact ⟨rfl, rfl⟩
          have hauth : authRel A (⟨g.auth.cipher, ⟨g.auth.counting.count + 1, 12⟩⟩ : Authenticator CM) b.sec.alg b.key (b.count + 1) :=
            ⟨hac, count_step _ _ hacount, rfl⟩
          have hS' : SessD (DynSession.decoder_nonce_mut_put sess (stamped g.auth.counting.count (DynSession.decoder_nonce_mut sess))) b :=
            sessD_dec_put sess b b _ hS (stamped_length _ _ (by have := hS.d.1; omega)) (stamped_drop _ _) rfl rfl rfl
          cases hop : C.openB b.sec.alg b.key (Nonce.counting b.iv b.count 12) [] (src.take (l.toNat - p.toNat)) with
          | none =>
            have hd := A.dec_err g.auth.cipher (Nonce.counting (DynSession.decoder_nonce_mut sess) g.auth.counting.count.toNat 12)
              (src.take (l.toNat - p.toNat)) (by rw [hk'.1, hk'.2, hn]; exact hop)
            simp only [hst, A.tag, aok, sok, arith_true, bind_next, c1, c2, Bool.false_eq_true, ↓reduceIte, spl, ho, call_ok, hd,
              question_err, bind_ret, post_ret, post_lret]
            exact kstep_body_fail A _ g b p l k _ src _ hst hN hk hA h1 h2 hop hauth hS'
          | some pt =>
            have hd := A.dec_ok g.auth.cipher (Nonce.counting (DynSession.decoder_nonce_mut sess) g.auth.counting.count.toNat 12)
              (src.take (l.toNat - p.toNat)) pt (by rw [hk'.1, hk'.2, hn]; exact hop)
            have adv : (Flow.advance (src.drop (l.toNat - p.toNat)) p : Flow Cursor (LoopExit (KSt CM XR) (AEADBodyCodec CM XR × Cursor × DynSession × RResult (Option Cursor))))
                = Flow.next (src.drop l.toNat) := by
              rw [advance_ok _ _ (by rw [List.length_drop]; omega), List.drop_drop]
              congr 2; omega
            simp only [hst, A.tag, aok, sok, arith_true, bind_next, c1, c2, Bool.false_eq_true, ↓reduceIte, spl, ho, call_ok, hd,
              question_ok, adv, bind_ret, post_ret, post_lret]
            exact kstep_body_take A _ g b p l k _ src pt _ hst hN hk hA h1 h2 hop hauth hS'

end loop

/-! ## Part 5 — corollaries: from `Rel`, no panic, a stream of reads -/
section cor
variable {CM XR RNG : Type} {X : Ext CM XR RNG} {C : Crypto}
open Octo.Fr

/-- **`decode_payload` = the model's run of body units** (from the exact correspondence `Rel`) -/
theorem decode_payload_eq (A : ExtOk X C) (hC : C.Lawful) (ov : Bool) (g : AEADBodyCodec CM XR) (b : Body) (src : Bytes)
    (sess : DynSession) (h : Rel A g b) (hs : SessD sess b) (h64 : src.length < 2 ^ 64) :
    ∃ g' sess', AEADBodyCodec.decode_payload X ov g src sess =
        PWGen.Res.ok (g', (run (Body.unit C) b src).buf, sess', embedOut (run (Body.unit C) b src)) ∧
      RelN A g' (run (Body.unit C) b src).st ∧ SessD sess' (run (Body.unit C) b src).st := by
  obtain ⟨⟨g', src', sess', res⟩, he, h1, h2, h3, h4⟩ := decode_payload_spec A hC ov g b src sess (relN_of_rel A g b h) hs h64
  subst h3; subst h4
  exact ⟨g', sess', he, h1, h2⟩

theorem decode_payload_no_panic (A : ExtOk X C) (hC : C.Lawful) (ov : Bool) (g : AEADBodyCodec CM XR) (b : Body) (src : Bytes)
    (sess : DynSession) (h : RelN A g b) (hs : SessD sess b) (h64 : src.length < 2 ^ 64) :
    AEADBodyCodec.decode_payload X ov g src sess ≠ PWGen.Res.panic := by
  obtain ⟨r, he, _⟩ := decode_payload_spec A hC ov g b src sess h hs h64
  rw [he]; simp

/-- **`decode_packet` = the model's `bodyDrainPacket`** (at most one datagram per call) -/
theorem decode_packet_eq (A : ExtOk X C) (hC : C.Lawful) (ov : Bool) (g : AEADBodyCodec CM XR) (b : Body) (src : Bytes)
    (sess : DynSession) (h : RelN A g b) (hs : SessD sess b) (h64 : src.length < 2 ^ 64) :
    ∃ g' sess', AEADBodyCodec.decode_packet X ov g src sess =
        PWGen.Res.ok (g', (bodyDrainPacket C 3 b src).2.1, sess', embedPkt (bodyDrainPacket C 3 b src).2.2) ∧
      RelN A g' (bodyDrainPacket C 3 b src).1 ∧ SessD sess' (bodyDrainPacket C 3 b src).1 ∧
      (bodyDrainPacket C 3 b src).2.2 ≠ .panic := by
  obtain ⟨⟨g', src', sess', res⟩, he, h1, h2, h3, h4, h5⟩ := decode_packet_spec A hC ov g b src sess h hs h64
  subst h3; subst h4
  exact ⟨g', sess', he, h1, h2, h5⟩

theorem decode_packet_no_panic (A : ExtOk X C) (hC : C.Lawful) (ov : Bool) (g : AEADBodyCodec CM XR) (b : Body) (src : Bytes)
    (sess : DynSession) (h : RelN A g b) (hs : SessD sess b) (h64 : src.length < 2 ^ 64) :
    AEADBodyCodec.decode_packet X ov g src sess ≠ PWGen.Res.panic := by
  obtain ⟨r, he, _⟩ := decode_packet_spec A hC ov g b src sess h hs h64
  rw [he]; simp

theorem drain_buf_le (unit : Body → Bytes → Step Body UInt8) : ∀ (fuel : Nat) (s : Body) (b : Bytes),
    (drain unit fuel s b).buf.length ≤ b.length := by
  intro fuel
  induction fuel with
  | zero => intro s b; exact Nat.le_refl _
  | succ n ih =>
    intro s b
    simp only [drain]
    cases unit s b with
    | need => exact Nat.le_refl _
    | fail s' k => simp only [List.length_drop]; omega
    | take s' k o => have := ih s' (b.drop k); simp only [List.length_drop] at this ⊢; omega

/-- the generated decoder as the read loop drives it: what has been buffered, delivered, and whether it has failed -/
structure GenSt (CM XR : Type) where
  g : AEADBodyCodec CM XR
  buf : Bytes
  sess : DynSession
  out : Bytes
  failed : Bool

/-- one read: append the piece, call `decode_payload` once; `none` = the call panicked; an `Err` ends the stream and
delivers nothing of that call -/
def genFeed (X : Ext CM XR RNG) (ov : Bool) (s : GenSt CM XR) (piece : Bytes) : Option (GenSt CM XR) :=
  if s.failed then some { s with buf := s.buf ++ piece } else
  match AEADBodyCodec.decode_payload X ov s.g (s.buf ++ piece) s.sess with
  | .panic => none
  | .ok (g', buf', sess', .ok (some d)) => some ⟨g', buf', sess', s.out ++ d, false⟩
  | .ok (g', buf', sess', .ok none) => some ⟨g', buf', sess', s.out, false⟩
  | .ok (g', buf', sess', .err) => some ⟨g', buf', sess', s.out, true⟩

def genFeedAll (X : Ext CM XR RNG) (ov : Bool) : GenSt CM XR → List Bytes → Option (GenSt CM XR)
  | s, [] => some s
  | s, p :: ps => (genFeed X ov s p).bind fun s' => genFeedAll X ov s' ps

/-- the generated decoder and the model after the same reads: same state, same buffer, same failure; the same bytes
delivered as long as nothing failed, and after a failure a prefix of what the model's run has released (the code drops
what the failing call had decoded before the failure) -/
def Sim (A : ExtOk X C) (s : GenSt CM XR) (r : Out Body UInt8) : Prop :=
  RelN A s.g r.st ∧ SessD s.sess r.st ∧ s.buf = r.buf ∧ s.failed = r.failed ∧ (∃ t, r.out = s.out ++ t) ∧
    (r.failed = false → s.out = r.out)

theorem genFeed_sim (A : ExtOk X C) (hC : C.Lawful) (ov : Bool) (s : GenSt CM XR) (r : Out Body UInt8) (piece : Bytes)
    (h : Sim A s r) (h64 : (r.buf ++ piece).length < 2 ^ 64) :
    ∃ s', genFeed X ov s piece = some s' ∧ Sim A s' (feed (Body.unit C) r piece) := by
  obtain ⟨h1, h2, h3, h4, ⟨t, h5⟩, h6⟩ := h
  cases hf : r.failed with
  | true =>
    refine ⟨{ s with buf := s.buf ++ piece }, by simp [genFeed, h4, hf], ?_⟩
    simp only [feed, hf, if_true]
    exact ⟨h1, h2, by simp [h3], by simp [h4, hf], ⟨t, h5⟩, by simp⟩
  | false =>
    have h6' := h6 hf
    obtain ⟨⟨g', src', sess', res⟩, he, k1, k2, k3, k4⟩ := decode_payload_spec A hC ov s.g r.st (s.buf ++ piece) s.sess h1 h2
      (by rw [h3]; exact h64)
    rw [h3] at he k1 k2 k3 k4
    simp only [genFeed, h4, hf, Bool.false_eq_true, if_false, h3, he, feed]
    subst k3; subst k4
    cases hff : (run (Body.unit C) r.st (r.buf ++ piece)).failed with
    | true =>
      simp only [embedOut, hff, if_true]
      exact ⟨_, rfl, k1, k2, rfl, by simp [hff], ⟨(run (Body.unit C) r.st (r.buf ++ piece)).out, by simp [h6']⟩, by simp [hff]⟩
    | false =>
      cases hoe : (run (Body.unit C) r.st (r.buf ++ piece)).out.isEmpty with
      | true =>
        simp only [embedOut, hff, hoe, Bool.false_eq_true, if_false, if_true]
        have : (run (Body.unit C) r.st (r.buf ++ piece)).out = [] := List.isEmpty_iff.mp hoe
        exact ⟨_, rfl, k1, k2, rfl, by simp [hff], ⟨[], by simp [h6', this]⟩, by simp [h6', this]⟩
      | false =>
        simp only [embedOut, hff, hoe, Bool.false_eq_true, if_false]
        exact ⟨_, rfl, k1, k2, rfl, by simp [hff], ⟨[], by simp [h6']⟩, by simp [h6']⟩

theorem feed_buf_le (unit : Body → Bytes → Step Body UInt8) (r : Out Body UInt8) (piece : Bytes) :
    (feed unit r piece).buf.length ≤ r.buf.length + piece.length := by
  unfold feed
  split
  · simp
  · have := drain_buf_le unit ((r.buf ++ piece).length + 1) r.st (r.buf ++ piece)
    simp only [run, List.length_append] at this ⊢
    exact this

/-- **any sequence of reads**: the generated decoder never panics and stays in step with the model's `feed` -/
theorem genFeedAll_sim (A : ExtOk X C) (hC : C.Lawful) (ov : Bool) (pieces : List Bytes) : ∀ (s : GenSt CM XR) (r : Out Body UInt8),
    Sim A s r → r.buf.length + pieces.flatten.length < 2 ^ 64 →
    ∃ s', genFeedAll X ov s pieces = some s' ∧ Sim A s' (pieces.foldl (feed (Body.unit C)) r) := by
  induction pieces with
  | nil => intro s r h _; exact ⟨s, rfl, h⟩
  | cons p ps ih =>
    intro s r h hl
    simp only [List.flatten_cons, List.length_append] at hl
    obtain ⟨s1, e1, h1⟩ := genFeed_sim A hC ov s r p h (by rw [List.length_append]; omega)
    have := feed_buf_le (Body.unit C) r p
    obtain ⟨s2, e2, h2⟩ := ih s1 (feed (Body.unit C) r p) h1 (by omega)
    exact ⟨s2, by simp only [genFeedAll, e1, Option.bind_some, e2], by simpa using h2⟩

end cor

/-! ## Part 6 — the hypotheses are satisfiable: externals built from any `Crypto`, a generated codec value for any fresh `Body` -/
section witness
open Octo.Fr

/-- externals that satisfy `ExtOk` for a given `Crypto`: a cipher is (algorithm, key), a reader is (seed, position) -/
def extOf (C : Crypto) : Ext (Alg × Bytes) (Bytes × Nat) Unit where
  tag_size := fun _ => 16
  nonce_size := fun _ => 12
  encrypt_in_place := fun c n ad b => (C.sealB c.1 c.2 n ad b, RResult.ok ())
  decrypt_in_place := fun c n ad b => match C.openB c.1 c.2 n ad b with
    | some p => (p, RResult.ok ())
    | none => (b, RResult.err)
  xof_read := fun r buf => ((r.1, r.2 + buf.length), (C.shake128 r.1 (r.2 + buf.length)).drop r.2)
  fill_bytes := fun g buf => (g, buf)

def extOf_ok (C : Crypto) : ExtOk (extOf C) C where
  cipherOf := id
  xofOf := id
  tag := fun _ => rfl
  nonce := fun _ => rfl
  dec_ok := by intro c n b p h; simp only [extOf, id] at h ⊢; rw [h]
  dec_err := by intro c n b h; simp only [extOf, id] at h ⊢; rw [h]
  enc := fun _ _ _ => rfl
  xof := fun _ _ => ⟨rfl, rfl⟩
  fill := fun _ _ => rfl

/-- a generated codec value for a model `Body` in state `padding` (what `AEADBodyCodec::new` builds, which is not translated) -/
def genOf (b : Body) : AEADBodyCodec (Alg × Bytes) (Bytes × Nat) where
  auth := ⟨(b.sec.alg, b.key), ⟨UInt16.ofNat b.count, 12⟩⟩
  chunk := match b.size with
    | .plain => .Plain
    | .shake => .Shake
    | .auth => .Auth ⟨(b.sec.alg, b.sizeKey), ⟨UInt16.ofNat b.sizeCount, 12⟩⟩
  padding := if b.globalPadding then .Shake else .Empty
  shake := ⟨(b.shakeSeed, 2 * b.shakePos), [0, 0]⟩
  payload_limit := UInt64.ofNat Consts.vmessPayloadLimit
  state := .Padding

theorem rel_genOf (C : Crypto) (b : Body) (h : b.st = .padding) : Rel (extOf_ok C) (genOf b) b := by
  refine ⟨⟨⟨rfl, by simp [genOf], rfl⟩, ?_, ?_, rfl, rfl, (by decide : (UInt64.ofNat Consts.vmessPayloadLimit).toNat = Consts.vmessPayloadLimit)⟩, by simp [genOf, h, stRel]⟩
  · cases hs : b.size <;> simp [genOf, hs, chunkRel, authRel, extOf_ok]
  · cases hg : b.globalPadding <;> simp [genOf, hg, padRel]

/-- a session whose decoder / chunk nonce buffers are the model's IVs (a client: the two are different fields) -/
def sessOf (b : Body) : DynSession :=
  .ClientSession ⟨b.sizeIv, [], b.iv, [], 0⟩

theorem sessD_sessOf (b : Body) (h1 : 12 ≤ b.iv.length) (h2 : 12 ≤ b.sizeIv.length) : SessD (sessOf b) b :=
  ⟨⟨h1, rfl⟩, h2, fun _ => rfl⟩

theorem run_nil (C : Crypto) (d : Body) (h : d.st = .padding) : run (Body.unit C) d [] = ⟨d, [], [], false⟩ :=
  run_need _ _ _ (Body.unit_nil C d h)

theorem sim_start {CM XR RNG : Type} {X : Ext CM XR RNG} {C : Crypto} (A : ExtOk X C) (g : AEADBodyCodec CM XR) (sess : DynSession)
    (d : Body) (hd : d.st = .padding) (h : Rel A g d) (hs : SessD sess d) :
    Sim A ⟨g, [], sess, [], false⟩ (run (Body.unit C) d []) := by
  rw [run_nil C d hd]
  exact ⟨relN_of_rel A g d h, hs, rfl, rfl, ⟨[], rfl⟩, fun _ => rfl⟩

end witness

/-! ## Part 7 — the encoder: `encode_size`, `encode_chunk`, `encode_packet`, `encode_payload` -/
section enc
variable {CM XR RNG : Type} {X : Ext CM XR RNG} {C : Crypto}
open Octo.Fr

theorem to_be_bytes_eq (x : UInt16) : U16.to_be_bytes x = be16 x.toNat := by
  have := UInt16.toNat_lt x
  simp only [U16.to_be_bytes, be16, u8, List.cons.injEq, and_true]
  constructor
  · apply UInt8.toNat_inj.mp
    simp [UInt16.toNat_shiftRight, Nat.shiftRight_eq_div_pow]
  · apply UInt8.toNat_inj.mp
    simp

theorem as_u16_toNat (x : Usize) (h : x.toNat < 65536) : (Usize.as_u16 x).toNat = x.toNat := by
  rw [Usize.as_u16, UInt16.toNat_ofNat']; exact Nat.mod_eq_of_lt h

theorem shake_encode_size (A : ExtOk X C) (hC : C.Lawful) (ov : Bool) (s : ShakeSizeParser XR) (seed : Bytes) (pos : Nat)
    (h : shakeRel A s seed pos) (size : Usize) (hs : size.toNat < 65536) :
    ∃ s', ShakeSizeParser.encode_size X ov s size =
        PWGen.Res.ok (s', be16 (Nat.xor (shakeU16 C seed pos) size.toNat % 65536)) ∧ shakeRel A s' seed (pos + 1) := by
  obtain ⟨s', m, hn, hm, hr⟩ := shake_next A hC ov s seed pos h
  refine ⟨s', ?_, hr⟩
  have hx : (m ^^^ Usize.as_u16 size).toNat = Nat.xor (shakeU16 C seed pos) size.toNat % 65536 := by
    rw [u16_xor_toNat, hm, as_u16_toNat size hs]
    exact (Nat.mod_eq_of_lt (xor16_lt _ _ (shakeU16_lt C hC seed pos) hs)).symm
  simp only [ShakeSizeParser.encode_size, hn, call_ok, bind_next, run_ret, Cursor.to_vec, to_be_bytes_eq, hx]

/-- `Authenticator::encode_size`: the length cipher seals `size - tag` under its own key, with its own counter -/
theorem auth_encode_size (A : ExtOk X C) (ov : Bool) (a : Authenticator CM) (alg : Alg) (key iv : Bytes) (count : Nat)
    (h : authRel A a alg key count) (size : Usize) (nonce : List UInt8) (h16 : 16 ≤ size.toNat) (hs : size.toNat < 65536)
    (hl : 12 ≤ nonce.length) (hiv : nonce.drop 2 = iv.drop 2) :
    ∃ a', Authenticator.encode_size X ov a size nonce = PWGen.Res.ok (a', stamped a.counting.count nonce,
        RResult.ok (C.sealB alg key (Nonce.counting iv count 12) [] (be16 (size.toNat - 16)))) ∧
      authRel A a' alg key (count + 1) := by
  obtain ⟨hc, hcount, hns⟩ := h
  have e16 : (16 : Usize).toNat = 16 := rfl
  have sok : U64.subOk size 16 = true := by simp only [U64.subOk, e16, decide_eq_true_eq]; exact h16
  have hsub : (size - 16).toNat = size.toNat - 16 := sub_toNat size 16 (by rw [e16]; exact h16)
  have hbuf : U16.to_be_bytes (Usize.as_u16 (size - 16)) = be16 (size.toNat - 16) := by
    rw [to_be_bytes_eq, as_u16_toNat _ (by rw [hsub]; omega), hsub]
  have hse := seal_eval X ov a (be16 (size.toNat - 16)) nonce hns hl
  have hn := counting_congr nonce iv _ count hcount hiv
  have he := A.enc a.cipher (Nonce.counting nonce a.counting.count.toNat 12) (be16 (size.toNat - 16))
  rw [hc, hn] at he
  rw [hn] at hse
  refine ⟨⟨a.cipher, ⟨a.counting.count + 1, 12⟩⟩, ?_, ⟨hc, count_step _ _ hcount, rfl⟩⟩
  simp only [Authenticator.encode_size, A.tag, sok, arith_true, bind_next, Cursor.to_vec, hbuf, hse, call_ok, he, question_ok, run_ret]

/-- **`encode_size`** = `Body.encodeSize` -/
theorem encode_size_spec (A : ExtOk X C) (hC : C.Lawful) (ov : Bool) (g : AEADBodyCodec CM XR) (b : Body) (h : RelCore A g b)
    (size : Usize) (nonce : List UInt8) (h16 : 16 ≤ size.toNat) (hs : size.toNat < 65536) (hl : 12 ≤ nonce.length)
    (hiv : b.size = .auth → nonce.drop 2 = b.sizeIv.drop 2) :
    ∃ g' n', AEADBodyCodec.encode_size X ov g size nonce = PWGen.Res.ok (g', n', RResult.ok (b.encodeSize C size.toNat).1) ∧
      n'.length = nonce.length ∧ n'.drop 2 = nonce.drop 2 ∧ RelCore A g' (b.encodeSize C size.toNat).2 ∧ g'.state = g.state := by
  have hch := h.chunk
  cases hc : g.chunk with
  | Plain =>
    rw [hc] at hch
    have hsz : b.size = .plain := hch
    refine ⟨g, nonce, ?_, rfl, rfl, ?_, rfl⟩
    · simp only [AEADBodyCodec.encode_size, hc, plain_encode_size, call_ok, bind_next, run_ret, to_be_bytes_eq,
        as_u16_toNat size hs, Body.encodeSize, hsz]
    · simp only [Body.encodeSize, hsz]; exact h
  | Shake =>
    rw [hc] at hch
    have hsz : b.size = .shake := hch
    obtain ⟨s', hn, hr⟩ := shake_encode_size A hC ov g.shake b.shakeSeed b.shakePos ⟨h.xof, h.buf⟩ size hs
    refine ⟨{ g with shake := s' }, nonce, ?_, rfl, rfl, ?_, rfl⟩
    · simp only [AEADBodyCodec.encode_size, hc, hn, call_ok, bind_next, run_ret, Body.encodeSize, hsz]
    · have hb' : (b.encodeSize C size.toNat).2 = { b with shakePos := b.shakePos + 1 } := by
        unfold Body.encodeSize; rw [hsz]
      rw [hb']
      exact ⟨h.auth, by show chunkRel A g.chunk _; rw [hc]; exact hsz, h.pad, hr.1, hr.2, h.limit⟩
  | Auth a =>
    rw [hc] at hch
    obtain ⟨hsz, ha⟩ := hch
    obtain ⟨a', he, ha'⟩ := auth_encode_size A ov a b.sec.alg b.sizeKey b.sizeIv b.sizeCount ha size nonce h16 hs hl (hiv hsz)
    refine ⟨{ g with chunk := .Auth a' }, stamped a.counting.count nonce, ?_, stamped_length _ _ (by omega), stamped_drop _ _, ?_, rfl⟩
    · simp only [AEADBodyCodec.encode_size, hc, he, call_ok, bind_next, run_ret, Body.encodeSize, hsz]
    · have hb' : (b.encodeSize C size.toNat).2 = { b with sizeCount := b.sizeCount + 1 } := by
        unfold Body.encodeSize; rw [hsz]
      rw [hb']
      exact ⟨h.auth, ⟨hsz, ha'⟩, h.pad, h.xof, h.buf, h.limit⟩

theorem sessE_chunk_put (s : DynSession) (b b' : Body) (n' : List UInt8) (h : SessE s b)
    (hl : n'.length = (DynSession.chunk_nonce s).length) (hd : n'.drop 2 = (DynSession.chunk_nonce s).drop 2)
    (h1 : b'.iv = b.iv) (h2 : b'.size = b.size) (h3 : b'.sizeIv = b.sizeIv) :
    SessE (DynSession.chunk_nonce_put s n') b' := by
  obtain ⟨⟨d1, d2⟩, c1, c2⟩ := h
  rw [h1.symm] at d2
  rw [h2.symm, h3.symm] at c2
  cases s with
  | ClientSession x =>
    simp only [DynSession.chunk_nonce, DynSession.encoder_nonce_mut] at hl hd d1 d2 c1 c2
    refine ⟨⟨?_, ?_⟩, ?_, fun hh => ?_⟩ <;>
      simp only [DynSession.chunk_nonce, DynSession.encoder_nonce_mut, DynSession.chunk_nonce_put]
    · omega
    · rw [hd]; exact d2
    · omega
    · rw [hd]; exact c2 hh
  | ServerSession x =>
    simp only [DynSession.chunk_nonce, DynSession.encoder_nonce_mut] at hl hd d1 d2 c1 c2
    refine ⟨⟨?_, ?_⟩, ?_, fun hh => ?_⟩ <;>
      simp only [DynSession.chunk_nonce, DynSession.encoder_nonce_mut, DynSession.chunk_nonce_put]
    · exact d1
    · exact d2
    · omega
    · rw [hd]; exact c2 hh

theorem sessE_enc_put (s : DynSession) (b b' : Body) (n' : List UInt8) (h : SessE s b)
    (hl : n'.length = (DynSession.encoder_nonce_mut s).length) (hd : n'.drop 2 = (DynSession.encoder_nonce_mut s).drop 2)
    (h1 : b'.iv = b.iv) (h2 : b'.size = b.size) (h3 : b'.sizeIv = b.sizeIv) :
    SessE (DynSession.encoder_nonce_mut_put s n') b' := by
  obtain ⟨⟨d1, d2⟩, c1, c2⟩ := h
  rw [h1.symm] at d2
  rw [h2.symm, h3.symm] at c2
  cases s with
  | ClientSession x =>
    simp only [DynSession.chunk_nonce, DynSession.encoder_nonce_mut] at hl hd d1 d2 c1 c2
    refine ⟨⟨?_, ?_⟩, ?_, fun hh => ?_⟩ <;>
      simp only [DynSession.chunk_nonce, DynSession.encoder_nonce_mut, DynSession.encoder_nonce_mut_put]
    · omega
    · rw [hd]; exact d2
    · omega
    · rw [hd]; exact c2 hh
  | ServerSession x =>
    simp only [DynSession.chunk_nonce, DynSession.encoder_nonce_mut] at hl hd d1 d2 c1 c2
    refine ⟨⟨?_, ?_⟩, ?_, fun hh => ?_⟩ <;>
      simp only [DynSession.chunk_nonce, DynSession.encoder_nonce_mut, DynSession.encoder_nonce_mut_put]
    · omega
    · rw [hd]; exact d2
    · exact c1
    · exact c2 hh

theorem usize_min_toNat (a c : Usize) : (Usize.min a c).toNat = min a.toNat c.toNat := by
  unfold Usize.min
  by_cases h : a ≤ c
  · rw [if_pos h]; have := UInt64.le_iff_toNat_le.mp h; omega
  · rw [if_neg h]; have : ¬ a.toNat ≤ c.toNat := fun hh => h (UInt64.le_iff_toNat_le.mpr hh); omega

theorem nextPadding_fields (C : Crypto) (b : Body) :
    (b.nextPadding C).2.iv = b.iv ∧ (b.nextPadding C).2.size = b.size ∧ (b.nextPadding C).2.sizeIv = b.sizeIv := by
  unfold Body.nextPadding; split <;> exact ⟨rfl, rfl, rfl⟩

theorem encodeSize_fields (C : Crypto) (b : Body) (n : Nat) :
    (b.encodeSize C n).2.iv = b.iv ∧ (b.encodeSize C n).2.size = b.size ∧ (b.encodeSize C n).2.sizeIv = b.sizeIv ∧
      (b.encodeSize C n).2.sec = b.sec ∧ (b.encodeSize C n).2.key = b.key ∧ (b.encodeSize C n).2.count = b.count := by
  obtain ⟨sec, key, iv, count, size, sizeKey, sizeIv, sizeCount, gp, seed, pos, st⟩ := b
  cases size <;> exact ⟨rfl, rfl, rfl, rfl, rfl, rfl⟩

/-- the chunk limit of the code is the model's: `payload_limit - tag_size - size_bytes - padding` -/
theorem limit_facts (p sb lim : Usize) (hl : lim.toNat = Consts.vmessPayloadLimit) (hsb : sb.toNat = 2 ∨ sb.toNat = 18) (hp : p.toNat ≤ 63) :
    U64.subOk lim 16 = true ∧ U64.subOk (lim - 16) sb = true ∧ U64.subOk (lim - 16 - sb) p = true ∧
      (lim - 16 - sb - p).toNat = Consts.vmessPayloadLimit - 16 - sb.toNat - p.toNat := by
  have e16 : (16 : Usize).toNat = 16 := rfl
  have hL : Consts.vmessPayloadLimit = 2048 := rfl
  have s1 : (lim - 16).toNat = lim.toNat - 16 := sub_toNat lim 16 (by rw [e16, hl, hL]; omega)
  have s2 : (lim - 16 - sb).toNat = lim.toNat - 16 - sb.toNat := by rw [sub_toNat _ _ (by rw [s1, hl, hL]; omega), s1]
  have s3 : (lim - 16 - sb - p).toNat = lim.toNat - 16 - sb.toNat - p.toNat := by
    rw [sub_toNat _ _ (by rw [s2, hl, hL]; omega), s2]
  refine ⟨?_, ?_, ?_, by rw [s3, hl]⟩
  · simp only [U64.subOk, e16, decide_eq_true_eq]; rw [hl, hL]; omega
  · simp only [U64.subOk, s1, decide_eq_true_eq]; rw [hl, hL]; omega
  · simp only [U64.subOk, s2, decide_eq_true_eq]; rw [hl, hL]; omega

/-- **`encode_chunk`** = `Body.encodeChunk`, the padding bytes being those the random source hands out: what is appended to
`dst`, what is left of `src`, the new codec state (padding draw, size counter / SHAKE position, payload counter + 1), the
session (nonce buffers keep all but their first two bytes), the random source -/
theorem encode_chunk_spec (A : ExtOk X C) (hC : C.Lawful) (ov : Bool) (g : AEADBodyCodec CM XR) (b : Body) (h : RelCore A g b)
    (rng : RNG) (src dst : Bytes) (sess : DynSession) (hs : SessE sess b) (h64 : src.length < 2 ^ 64) :
    ∃ g' sess', AEADBodyCodec.encode_chunk X ov g rng src dst sess =
        PWGen.Res.ok (g', (X.fill_bytes rng (List.replicate (b.nextPadding C).1 0)).1,
          (b.encodeChunk C src (X.fill_bytes rng (List.replicate (b.nextPadding C).1 0)).2).2.1,
          dst ++ (b.encodeChunk C src (X.fill_bytes rng (List.replicate (b.nextPadding C).1 0)).2).1, sess', RResult.ok ()) ∧
      RelCore A g' (b.encodeChunk C src (X.fill_bytes rng (List.replicate (b.nextPadding C).1 0)).2).2.2 ∧
      SessE sess' (b.encodeChunk C src (X.fill_bytes rng (List.replicate (b.nextPadding C).1 0)).2).2.2 ∧ g'.state = g.state := by
  obtain ⟨g1, p, hnp, hp, hc1, hst1⟩ := next_padding_length_spec A hC ov g b h
  have hp63 : p.toNat ≤ 63 := by rw [hp]; exact Body.nextPadding_le C b
  obtain ⟨sb, hsbe, hsbn⟩ := size_bytes_spec A ov g1 _ hc1
  rw [Body.nextPadding_sizeBytes] at hsbn
  have hsbc : sb.toNat = 2 ∨ sb.toNat = 18 := by rw [hsbn]; exact b.sizeBytes_cases
  obtain ⟨k1, k2, k3, hL⟩ := limit_facts p sb g1.payload_limit hc1.limit hsbc hp63
  have hn : (Usize.min (Cursor.remaining src) (g1.payload_limit - 16 - sb - p)).toNat = b.chunkLen C src := by
    rw [usize_min_toNat, remaining_toNat src h64, hL, hsbn, hp]; rfl
  generalize hes : Usize.min (Cursor.remaining src) (g1.payload_limit - 16 - sb - p) = es at hn
  have hlt := Body.chunkLen_size_lt C b src
  have hle := Body.chunkLen_le C b src
  have e16 : (16 : Usize).toNat = 16 := rfl
  have a1 : (es + p).toNat = es.toNat + p.toNat := add_toNat _ _ (by rw [hn, hp]; omega)
  have a2 : (es + p + 16).toNat = b.chunkLen C src + (b.nextPadding C).1 + 16 := by
    rw [add_toNat _ _ (by rw [a1, hn, hp, e16]; omega), a1, hn, hp, e16]
  have ok1 : U64.addOk es p = true := by simp only [U64.addOk, decide_eq_true_eq]; rw [hn, hp]; omega
  have ok2 : U64.addOk (es + p) 16 = true := by simp only [U64.addOk, decide_eq_true_eq, a1, e16]; rw [hn, hp]; omega
  have hf1 := nextPadding_fields C b
  obtain ⟨g2, n', hese, hnl, hnd, hc2, hst2⟩ := encode_size_spec A hC ov g1 _ hc1 (es + p + 16) (DynSession.chunk_nonce sess)
    (by rw [a2]; omega) (by rw [a2]; exact hlt) hs.c.1 (fun ha => by rw [hf1.2.2]; exact hs.c.2 (by rw [← hf1.2.1]; exact ha))
  rw [a2] at hese hc2
  have hf2 := encodeSize_fields C (b.nextPadding C).2 (b.chunkLen C src + (b.nextPadding C).1 + 16)
  have hs1 : SessE (DynSession.chunk_nonce_put sess n') ((b.nextPadding C).2.encodeSize C (b.chunkLen C src + (b.nextPadding C).1 + 16)).2 :=
    sessE_chunk_put sess b _ n' hs hnl hnd (by rw [hf2.1, hf1.1]) (by rw [hf2.2.1, hf1.2.1]) (by rw [hf2.2.2.1, hf1.2.2])
  have spl : (Flow.split_to src es : Flow (Cursor × Cursor) (AEADBodyCodec CM XR × RNG × Cursor × Cursor × DynSession × RResult Unit))
      = Flow.next (src.drop (b.chunkLen C src), src.take (b.chunkLen C src)) := by
    rw [← hn]; exact split_to_ok src es (by rw [hn]; exact hle)
  obtain ⟨hac, hacount, hans⟩ := hc2.auth
  have hse := seal_eval X ov g2.auth (src.take (b.chunkLen C src)) (DynSession.encoder_nonce_mut (DynSession.chunk_nonce_put sess n')) hans hs1.d.1
  have hcn := counting_congr _ _ _ _ hacount hs1.d.2
  have hen := A.enc g2.auth.cipher (Nonce.counting (DynSession.encoder_nonce_mut (DynSession.chunk_nonce_put sess n')) g2.auth.counting.count.toNat 12)
    (src.take (b.chunkLen C src))
  rw [hac, hcn] at hen
  rw [hcn] at hse
  have hfl := A.fill rng (List.replicate (b.nextPadding C).1 0)
  rw [List.length_replicate] at hfl
  have htk : (X.fill_bytes rng (List.replicate (b.nextPadding C).1 0)).2.take (b.nextPadding C).1 =
      (X.fill_bytes rng (List.replicate (b.nextPadding C).1 0)).2 := List.take_of_length_le (by omega)
  refine ⟨{ g2 with auth := ⟨g2.auth.cipher, ⟨g2.auth.counting.count + 1, 12⟩⟩ },
    DynSession.encoder_nonce_mut_put (DynSession.chunk_nonce_put sess n')
      (stamped g2.auth.counting.count (DynSession.encoder_nonce_mut (DynSession.chunk_nonce_put sess n'))), ?_, ?_, ?_, ?_⟩
  · rw [Body.encodeChunk_eq]
    simp only [AEADBodyCodec.encode_chunk, hnp, call_ok, bind_next, A.tag, k1, arith_true, hsbe, k2, k3, hes, ok1, ok2, hese, question_ok,
      Cursor.extend_from_slice, spl, hse, hen, hp, htk, run_ret, List.append_assoc]
  · rw [Body.encodeChunk_eq]
    exact relCore_auth A g2 _ _ hc2 ⟨hac, count_step _ _ hacount, rfl⟩
  · rw [Body.encodeChunk_eq]
    exact sessE_enc_put _ _ _ _ hs1 (stamped_length _ _ (by have := hs1.d.1; omega)) (stamped_drop _ _) rfl rfl rfl
  · show g2.state = g.state
    rw [hst2, hst1]

theorem beq_shake (x : PaddingLengthGenerator) : (x == PaddingLengthGenerator.Shake) = true ↔ x = .Shake := by
  cases x <;> simp

/-- **`encode_packet`** = `Body.encodePacket`: a datagram that might not fit one chunk whatever the padding turns out to be is
refused (`Err`, nothing written, nothing drawn); otherwise exactly one chunk -/
theorem encode_packet_spec (A : ExtOk X C) (hC : C.Lawful) (ov : Bool) (g : AEADBodyCodec CM XR) (b : Body) (h : RelCore A g b)
    (rng : RNG) (src dst : Bytes) (sess : DynSession) (hs : SessE sess b) (h64 : src.length < 2 ^ 64) :
    (b.packetLimit < src.length →
      AEADBodyCodec.encode_packet X ov g rng src dst sess = PWGen.Res.ok (g, rng, dst, sess, RResult.err)) ∧
    (src.length ≤ b.packetLimit → ∃ g' sess', AEADBodyCodec.encode_packet X ov g rng src dst sess =
        PWGen.Res.ok (g', (X.fill_bytes rng (List.replicate (b.nextPadding C).1 0)).1,
          dst ++ (b.encodeChunk C src (X.fill_bytes rng (List.replicate (b.nextPadding C).1 0)).2).1, sess', RResult.ok ()) ∧
      RelCore A g' (b.encodeChunk C src (X.fill_bytes rng (List.replicate (b.nextPadding C).1 0)).2).2.2 ∧
      SessE sess' (b.encodeChunk C src (X.fill_bytes rng (List.replicate (b.nextPadding C).1 0)).2).2.2 ∧ g'.state = g.state) := by
  obtain ⟨sb, hsbe, hsbn⟩ := size_bytes_spec A ov g b h
  have hsbc : sb.toNat = 2 ∨ sb.toNat = 18 := by rw [hsbn]; exact b.sizeBytes_cases
  have key : ∀ mp : Usize, mp.toNat = (if b.globalPadding then 63 else 0) →
      U64.subOk g.payload_limit 16 = true ∧ U64.subOk (g.payload_limit - 16) sb = true ∧ U64.subOk (g.payload_limit - 16 - sb) mp = true ∧
      (g.payload_limit - 16 - sb - mp).toNat = b.packetLimit := by
    intro mp hmp
    obtain ⟨k1, k2, k3, hL⟩ := limit_facts mp sb g.payload_limit h.limit hsbc (by rw [hmp]; split <;> omega)
    exact ⟨k1, k2, k3, by rw [hL, hsbn, hmp]; rfl⟩
  have hpad := h.pad
  obtain ⟨g', sess', hce, hc', hs', hst'⟩ := encode_chunk_spec A hC ov g b h rng src dst sess hs h64
  cases hp : g.padding with
  | Empty =>
    rw [hp] at hpad
    have hgp : b.globalPadding = false := hpad
    have hb : (PaddingLengthGenerator.Empty == PaddingLengthGenerator.Shake) = false := by decide
    obtain ⟨k1, k2, k3, hL⟩ := key 0 (by rw [hgp]; rfl)
    constructor
    · intro hgt
      have c := dec_true (Cursor.remaining src > g.payload_limit - 16 - sb - 0)
        ((lt_iff_toNat _ _).mpr (by rw [remaining_toNat src h64, hL]; exact hgt))
      simp only [AEADBodyCodec.encode_packet, hp, hb, Bool.false_eq_true, ↓reduceIte, bind_next, A.tag, k1, arith_true, hsbe, call_ok,
        k2, k3, c, bind_ret, run_ret]
    · intro hle
      have c := dec_false (Cursor.remaining src > g.payload_limit - 16 - sb - 0)
        (fun hh => by have := (lt_iff_toNat _ _).mp hh; rw [remaining_toNat src h64, hL] at this; omega)
      refine ⟨g', sess', ?_, hc', hs', hst'⟩
      simp only [AEADBodyCodec.encode_packet, hp, hb, Bool.false_eq_true, ↓reduceIte, bind_next, A.tag, k1, arith_true, hsbe, call_ok,
        k2, k3, c, hce, run_ret]
  | Shake =>
    rw [hp] at hpad
    have hgp : b.globalPadding = true := hpad
    have hb : (PaddingLengthGenerator.Shake == PaddingLengthGenerator.Shake) = true := by decide
    obtain ⟨k1, k2, k3, hL⟩ := key 63 (by rw [hgp]; rfl)
    constructor
    · intro hgt
      have c := dec_true (Cursor.remaining src > g.payload_limit - 16 - sb - 63)
        ((lt_iff_toNat _ _).mpr (by rw [remaining_toNat src h64, hL]; exact hgt))
      simp only [AEADBodyCodec.encode_packet, hp, hb, ↓reduceIte, bind_next, A.tag, k1, arith_true, hsbe, call_ok,
        k2, k3, c, bind_ret, run_ret]
    · intro hle
      have c := dec_false (Cursor.remaining src > g.payload_limit - 16 - sb - 63)
        (fun hh => by have := (lt_iff_toNat _ _).mp hh; rw [remaining_toNat src h64, hL] at this; omega)
      refine ⟨g', sess', ?_, hc', hs', hst'⟩
      simp only [AEADBodyCodec.encode_packet, hp, hb, Bool.false_eq_true, ↓reduceIte, bind_next, A.tag, k1, arith_true, hsbe, call_ok,
        k2, k3, c, hce, run_ret]

/-- the model's `encode_payload` with the padding bytes of each chunk drawn from the random source `X.fill_bytes`
(fuel: any number above the source length) -/
def encodePayloadR (X : Ext CM XR RNG) (C : Crypto) : Nat → Body → RNG → Bytes → Bytes × Body × RNG
  | 0, b, r, _ => ([], b, r)
  | k + 1, b, r, src =>
    if src.isEmpty then ([], b, r) else
    ((b.encodeChunk C src (X.fill_bytes r (List.replicate (b.nextPadding C).1 0)).2).1 ++
        (encodePayloadR X C k (b.encodeChunk C src (X.fill_bytes r (List.replicate (b.nextPadding C).1 0)).2).2.2
          (X.fill_bytes r (List.replicate (b.nextPadding C).1 0)).1
          (b.encodeChunk C src (X.fill_bytes r (List.replicate (b.nextPadding C).1 0)).2).2.1).1,
      (encodePayloadR X C k (b.encodeChunk C src (X.fill_bytes r (List.replicate (b.nextPadding C).1 0)).2).2.2
          (X.fill_bytes r (List.replicate (b.nextPadding C).1 0)).1
          (b.encodeChunk C src (X.fill_bytes r (List.replicate (b.nextPadding C).1 0)).2).2.1).2)

/-- the padding bytes it draws, chunk by chunk -/
def padsR (X : Ext CM XR RNG) (C : Crypto) : Nat → Body → RNG → Bytes → List Bytes
  | 0, _, _, _ => []
  | k + 1, b, r, src =>
    if src.isEmpty then [] else
    (X.fill_bytes r (List.replicate (b.nextPadding C).1 0)).2 ::
      padsR X C k (b.encodeChunk C src (X.fill_bytes r (List.replicate (b.nextPadding C).1 0)).2).2.2
        (X.fill_bytes r (List.replicate (b.nextPadding C).1 0)).1
        (b.encodeChunk C src (X.fill_bytes r (List.replicate (b.nextPadding C).1 0)).2).2.1

/-- it is the hand model's `encodePayloadP` on those padding lists -/
theorem encodePayloadR_eq_P (X : Ext CM XR RNG) (C : Crypto) : ∀ (k : Nat) (b : Body) (r : RNG) (src : Bytes),
    (encodePayloadR X C k b r src).1 = (Body.encodePayloadP C k b src (padsR X C k b r src)).1 ∧
    (encodePayloadR X C k b r src).2.1 = (Body.encodePayloadP C k b src (padsR X C k b r src)).2 := by
  intro k
  induction k with
  | zero => intro b r src; exact ⟨rfl, rfl⟩
  | succ k ih =>
    intro b r src
    cases he : src.isEmpty with
    | true => simp only [encodePayloadR, Body.encodePayloadP, he, if_true]; exact ⟨trivial, trivial⟩
    | false =>
      have := ih (b.encodeChunk C src (X.fill_bytes r (List.replicate (b.nextPadding C).1 0)).2).2.2
        (X.fill_bytes r (List.replicate (b.nextPadding C).1 0)).1
        (b.encodeChunk C src (X.fill_bytes r (List.replicate (b.nextPadding C).1 0)).2).2.1
      simp only [encodePayloadR, Body.encodePayloadP, padsR, he, Bool.false_eq_true, if_false, List.headD_cons, List.tail_cons]
      exact ⟨by rw [this.1], this.2⟩

theorem padsR_ok (A : ExtOk X C) : ∀ (k : Nat) (b : Body) (r : RNG) (src : Bytes), Body.PadsOk C k b src (padsR X C k b r src) := by
  intro k
  induction k with
  | zero => intro b r src; trivial
  | succ k ih =>
    intro b r src
    cases he : src.isEmpty with
    | true => exact Or.inl (List.isEmpty_iff.mp he)
    | false =>
      refine Or.inr ?_
      simp only [padsR, he, Bool.false_eq_true, if_false, List.headD_cons, List.tail_cons]
      exact ⟨by rw [A.fill, List.length_replicate]; exact Nat.le_refl _, ih _ _ _⟩

abbrev ESt (CM XR RNG : Type) := AEADBodyCodec CM XR × RNG × Cursor × Cursor × DynSession

def EInv (A : ExtOk X C) (wF : Bytes) (bF : Body) (rF : RNG) (st0 : DecodeState) : ESt CM XR RNG → Prop
  | (g, rng, src, dst, sess) => ∃ b k, RelCore A g b ∧ SessE sess b ∧ src.length < k ∧ src.length < 2 ^ 64 ∧
      dst ++ (encodePayloadR X C k b rng src).1 = wF ∧ (encodePayloadR X C k b rng src).2 = (bF, rF) ∧ g.state = st0

def EQn (A : ExtOk X C) (wF : Bytes) (bF : Body) (rF : RNG) (st0 : DecodeState) : ESt CM XR RNG → Prop
  | (g, rng, _, dst, sess) => RelCore A g bF ∧ SessE sess bF ∧ dst = wF ∧ rng = rF ∧ g.state = st0

def EM : ESt CM XR RNG → Nat
  | (_, _, src, _, _) => src.length

/-- **`encode_payload`** = the model's chunk loop with the padding bytes of every chunk drawn from the random source
(`encodePayloadR`; `encodePayloadR_eq_P`: that is `Body.encodePayloadP` on those bytes): never panics, never `Err`, the loop
ends within its fuel, `dst` grows by exactly the model's wire bytes, codec / session / random source end in the model's state -/
theorem encode_payload_spec (A : ExtOk X C) (hC : C.Lawful) (ov : Bool) (g : AEADBodyCodec CM XR) (b : Body) (h : RelCore A g b)
    (rng : RNG) (src dst : Bytes) (sess : DynSession) (hs : SessE sess b) (h64 : src.length < 2 ^ 64) :
    ∃ g' sess', AEADBodyCodec.encode_payload X ov g rng src dst sess =
        PWGen.Res.ok (g', (encodePayloadR X C (src.length + 1) b rng src).2.2,
          dst ++ (encodePayloadR X C (src.length + 1) b rng src).1, sess', RResult.ok ()) ∧
      RelCore A g' (encodePayloadR X C (src.length + 1) b rng src).2.1 ∧
      SessE sess' (encodePayloadR X C (src.length + 1) b rng src).2.1 ∧ g'.state = g.state := by
  generalize hR : encodePayloadR X C (src.length + 1) b rng src = R
  suffices hx : ∃ r, AEADBodyCodec.encode_payload X ov g rng src dst sess = PWGen.Res.ok r ∧
      (RelCore A r.1 R.2.1 ∧ SessE r.2.2.2.1 R.2.1 ∧ r.2.2.1 = dst ++ R.1 ∧ r.2.1 = R.2.2 ∧
        r.1.state = g.state ∧ r.2.2.2.2 = RResult.ok ()) by
    obtain ⟨⟨g', r', d', s', res⟩, he, h1, h2, h3, h4, h5, h6⟩ := hx
    simp only at h1 h2 h3 h4 h5 h6
    subst h3; subst h4; subst h6
    exact ⟨g', s', he, h1, h2, h5⟩
  unfold AEADBodyCodec.encode_payload
  apply run_of_post
  simp only [post_bind]
  refine post_mono (post_loopFuel _ EM (EInv A (dst ++ R.1) R.2.1 R.2.2 g.state) (EQn A (dst ++ R.1) R.2.1 R.2.2 g.state) _
    ?hstep _ (g, rng, src, dst, sess) ?hI ?hM) ?hend
  case hI => exact ⟨b, src.length + 1, h, hs, Nat.lt_succ_self _, h64, by rw [hR], by rw [hR], rfl⟩
  case hM => simp only [EM]; omega
  case hend =>
    intro ⟨g', r', s', d', ss'⟩ ⟨h1, h2, h3, h4, h5⟩
    simp only [post_ret]
    exact ⟨h1, h2, h3, h4, h5, trivial⟩
  case hstep =>
    intro ⟨g1, r1, s1, d1, ss1⟩ ⟨b1, k, hc, hse, hk, hl, hw, hb, hst⟩
    obtain ⟨k', rfl⟩ : ∃ k', k = k' + 1 := ⟨k - 1, by omega⟩
    cases he : s1.isEmpty with
    | true =>
      have hr : (!(Cursor.has_remaining s1)) = true := by simp [Cursor.has_remaining, he]
      simp only [hr, ↓reduceIte, post_ret, post_brk]
      simp only [encodePayloadR, he, if_true, List.append_nil] at hw hb
      simp only [Prod.mk.injEq] at hb
      exact ⟨by rw [← hb.1]; exact hc, by rw [← hb.1]; exact hse, hw, hb.2, hst⟩
    | false =>
      have hr : (!(Cursor.has_remaining s1)) = false := by simp [Cursor.has_remaining, he]
      obtain ⟨g2, ss2, hce, hc2, hs2, hst2⟩ := encode_chunk_spec A hC ov g1 b1 hc r1 s1 d1 ss1 hse hl
      simp only [hr, Bool.false_eq_true, ↓reduceIte, hce, call_ok, bind_next, question_ok, post_next]
      simp only [encodePayloadR, he, Bool.false_eq_true, if_false] at hw hb
      have hne : s1 ≠ [] := fun hh => by rw [hh] at he; simp at he
      have hpos := Body.chunkLen_pos C b1 s1 hne
      have hrest := Body.encodeChunk_rest C b1 s1 (X.fill_bytes r1 (List.replicate (b1.nextPadding C).1 0)).2
      have hlen : ((b1.encodeChunk C s1 (X.fill_bytes r1 (List.replicate (b1.nextPadding C).1 0)).2).2.1).length < s1.length := by
        rw [hrest, List.length_drop]
        have : 0 < s1.length := List.length_pos_iff.mpr hne
        omega
      refine ⟨⟨_, k', hc2, hs2, by omega, by omega, ?_, hb, by rw [hst2, hst]⟩, ?_⟩
      · rw [← hw, List.append_assoc]
      · simp only [EM]; exact hlen

end enc
end Octo.VmessBodyGen
