import Octo.Proofs.SsTcpGen
/-!
  `Octo.SsTcpGen` (generated from `codec/shadowsocks/tcp.rs`) against the hand model — the ENCODER:
  `with_identity`, `init_payload_encoder`, `handle_payload_header`, `encode` (the recursive group) = `Ss.encode`.
-/
set_option linter.unusedSimpArgs false
set_option linter.unusedVariables false
namespace Octo.SsTcpGen
open Octo Octo.PWGen Octo.AddrGen

/-- the randomness / clock the model's encoder consumes for one first write, as the instantiated externals deliver it:
padding only for an empty first payload (`next_padding_length`), its bytes from `dice::roll_bytes` -/
def encRand (E : MEnv) (item : Bytes) : Ss.EncRand := ⟨if item.isEmpty then E.padding.take E.padLen else [], E.now⟩

theorem with_identity_eval (ov : Bool) (E : MEnv) (k : Ss.Kind) (N : Usize) (context : Context MT) (session : Session)
    (key : Bytes) (iks : List Bytes) (dst : Bytes) (hk : toKind context.kind = some k) :
    AEADCipherCodec.with_identity ov (XM E) N context session key iks dst =
      PWGen.Res.ok (context, dst ++ session.identity.salt ++
        (if toMode session.mode = .client ∧ k.supportEih = true then Ss.withEih E.C k key session.identity.salt iks else []), ()) := by
  unfold AEADCipherCodec.with_identity
  cases hm : session.mode
  · cases hs : k.supportEih <;>
      simp [support_eih_eval ov _ k hk, hs, call_ok, bind_next, run_ret, XM, hk, toMode, Cursor.extend_from_slice]
  · simp [call_ok, bind_next, run_ret, toMode, Cursor.extend_from_slice]

/-- which key seals: the session's user's key on a 2022 cipher when the session has a user, else the context's key -/
def encKey (k : Ss.Kind) (context : Context MT) (session : Session) : Bytes :=
  match k.is2022, session.identity.user with
  | true, some u => u.key
  | _, _ => context.key

theorem init_payload_encoder_eval (ov : Bool) (E : MEnv) (k : Ss.Kind) (N : Usize) (context : Context MT) (session : Session)
    (dst : Bytes) (hk : toKind context.kind = some k) :
    AEADCipherCodec.init_payload_encoder ov (XM E) N context session dst =
      PWGen.Res.ok (context, dst ++ session.identity.salt ++
        (if toMode session.mode = .client ∧ k.supportEih = true then
          Ss.withEih E.C k context.key session.identity.salt context.identity_keys else []),
        RResult.ok ⟨UInt64.ofNat k.payloadLimit, Ss.newAuth E.C k (encKey k context session) session.identity.salt⟩) := by
  unfold AEADCipherCodec.init_payload_encoder
  simp only [with_identity_eval ov E k N _ _ _ _ _ hk, call_ok, bind_next, is_aead_2022_eval ov _ k hk]
  cases h2 : k.is2022
  · simp [XM, hk, call_ok, bind_next, q_ok, run_ret, Ss.newAuth, h2, encKey, Ss.Kind.payloadLimit]
  · cases hu : session.identity.user <;>
      simp [XM, hk, call_ok, bind_next, run_ret, Ss.newAuth, h2, encKey, hu, auth2022, Ss.Kind.payloadLimit]


/-- the plaintext the first write seals: (client) target address, then - 2022 only - padding length and padding, then the payload -/
def firstMsg (E : MEnv) (k : Ss.Kind) (session : Session) (item : Bytes) : Bytes :=
  match toMode session.mode with
  | .client =>
    let addr := match session.address.map toAddr with
      | some ad => Socks5Addr.encode ad
      | none => []
    if k.is2022 then addr ++ be16 (encRand E item).padding.length ++ (encRand E item).padding ++ item else addr ++ item
  | .server => item

theorem u16_as_usize_toNat (x : UInt16) : (U16.as_usize x).toNat = x.toNat := by
  have := x.toNat_lt
  rw [U16.as_usize]; exact UInt64.toNat_ofNat_of_lt' (Nat.lt_trans this (by decide))

/-- padding length and padding bytes as the externals deliver them = the model's `EncRand.padding` -/
theorem padding_eval (E : MEnv) (item : Bytes) (hpl : E.padLen < 65536) (hpd : E.padLen ≤ E.padding.length) :
    beBytes 2 (if item.isEmpty then UInt16.ofNat E.padLen else (0 : UInt16)).toNat ++
      E.padding.take (U16.as_usize (if item.isEmpty then UInt16.ofNat E.padLen else (0 : UInt16))).toNat =
    be16 (encRand E item).padding.length ++ (encRand E item).padding := by
  rw [beBytes_two, u16_as_usize_toNat]
  cases h : item.isEmpty
  · simp [encRand, h]
  · have e : (UInt16.ofNat E.padLen).toNat = E.padLen := UInt16.toNat_ofNat_of_lt' (by simp [UInt16.size]; omega)
    simp only [encRand, h, if_true, e, List.length_take]
    rw [Nat.min_eq_left hpd]

theorem new_header_eval (E : MEnv) (a : Ss.Auth) (msg : Bytes) (mode : Mode) (rs : Option Bytes) :
    (XM E).aead_2022_tcp_new_header a msg mode rs =
      PWGen.Res.ok ((Ss.newHeader E.C a msg (toMode mode) rs E.now).2.2, (Ss.newHeader E.C a msg (toMode mode) rs E.now).2.1,
        RResult.ok ((Ss.newHeader E.C a msg (toMode mode) rs E.now).1.take (1 + 8 + (rs.getD []).length + 2 + 16),
          (Ss.newHeader E.C a msg (toMode mode) rs E.now).1.drop (1 + 8 + (rs.getD []).length + 2 + 16))) := rfl

theorem handle_payload_header_eval (ov : Bool) (E : MEnv) (k : Ss.Kind) (N : Usize) (encoder : ChunkEncoder MT)
    (context : Context MT) (session : Session) (item dst : Bytes) (hk : toKind context.kind = some k)
    (haddr : session.mode = .Client → ∃ ad, session.address = some ad)
    (hitem : item.length < 2 ^ 64) (hpl : E.padLen < 65536) (hpd : E.padLen ≤ E.padding.length) :
    AEADCipherCodec.handle_payload_header ov (XM E) N encoder context session item dst =
      PWGen.Res.ok (
        if k.is2022 then
          ({ encoder with auth := (Ss.newHeader E.C encoder.auth (firstMsg E k session item) (toMode session.mode)
              session.identity.request_salt E.now).2.2 }, context,
            (Ss.newHeader E.C encoder.auth (firstMsg E k session item) (toMode session.mode) session.identity.request_salt E.now).2.1,
            dst ++ (Ss.newHeader E.C encoder.auth (firstMsg E k session item) (toMode session.mode)
              session.identity.request_salt E.now).1, RResult.ok ())
        else (encoder, context, firstMsg E k session item, dst, RResult.ok ())) := by
  unfold AEADCipherCodec.handle_payload_header
  have hlen : (Cursor.len item).toNat = item.length := by
    simp only [Cursor.len]; exact UInt64.toNat_ofNat_of_lt' (by simp [UInt64.size]; omega)
  cases hm : session.mode
  · obtain ⟨ad, had⟩ := haddr hm
    simp only [had, unwrap_some, bind_next, encode_eq, call_ok, is_aead_2022_eval ov _ k hk]
    rw [split_to_eval item _ (by rw [hlen]; exact Nat.le_refl _)]
    simp only [bind_next, hlen, List.drop_length, List.take_length, List.nil_append]
    cases h2 : k.is2022
    · simp [firstMsg, toMode, hm, had, h2, bind_next, run_ret, Cursor.extend_from_slice]
    · have hp := padding_eval E item hpl hpd
      simp only [if_true, XM, call_ok, bind_next, Cursor.put_u16, Cursor.extend_from_slice, q_ok, run_ret, List.append_assoc] at hp ⊢
      have hp' := congrArg (· ++ item) hp
      simp only [List.append_assoc] at hp'
      simp only [hp']
      simp [firstMsg, toMode, hm, had, h2, List.append_assoc, new_header_eval]
  · simp only [is_aead_2022_eval ov _ k hk, call_ok, bind_next]
    cases h2 : k.is2022
    · simp [firstMsg, toMode, hm, h2, bind_next, run_ret]
    · simp [firstMsg, toMode, hm, h2, new_header_eval, call_ok, bind_next, q_ok, run_ret, Cursor.extend_from_slice, List.append_assoc]


theorem payloadLimit_toNat (k : Ss.Kind) : (UInt64.ofNat k.payloadLimit).toNat = k.payloadLimit := by
  cases k <;> decide

/-- later writes (an encoder exists): one `encode_payload` of the chunk layer on the whole item -/
theorem encode_some (ov : Bool) (E : MEnv) (N : Usize) (self : AEADCipherCodec MT) (context : Context MT) (session : Session)
    (item dst : Bytes) (e : ChunkEncoder MT) (he : self.encoder = some e) :
    AEADCipherCodec.encode ov (XM E) N self context session item dst =
      PWGen.Res.ok ({ self with encoder := some ⟨e.payload_limit, (Ss.encPayload E.C e.auth e.payload_limit.toNat item).2⟩ },
        context, dst ++ (Ss.encPayload E.C e.auth e.payload_limit.toNat item).1, RResult.ok ()) := by
  rw [AEADCipherCodec.encode]
  split
  · rename_i v hv
    rw [he] at hv; cases hv
    simp [XM, call_ok, bind_next, run_ret]
  · rename_i hv; rw [he] at hv; cases hv

theorem encKey_eq (k : Ss.Kind) (context : Context MT) (session : Session) :
    encKey k context session = (match k.is2022, (toSess session).user with
      | true, some u => u.key
      | _, _ => (toCtx k context).key) := by
  unfold encKey
  cases k.is2022 <;> cases hu : session.identity.user <;> simp [toSess, hu, toCtx, toUser]

/-- **the first `encode` of a connection = the model's `Ss.encode`** (every mode, every cipher): own salt, identity headers
(client, AES-2022 only), then - 2022 - the fixed and variable header of `new_header` over address ‖ padding length ‖ padding ‖
payload (client) / payload (server) and the rest in chunks, or - legacy - address ‖ payload in chunks; sealed under the session
user's key when the session has one; the encoder is kept for the later writes. -/
theorem encode_first_is_model (ov : Bool) (E : MEnv) (k : Ss.Kind) (N : Usize) (self : AEADCipherCodec MT) (context : Context MT)
    (session : Session) (item dst : Bytes) (hk : toKind context.kind = some k) (hself : self.encoder = none)
    (haddr : session.mode = .Client → ∃ ad, session.address = some ad)
    (hitem : item.length < 2 ^ 64) (hpl : E.padLen < 65536) (hpd : E.padLen ≤ E.padding.length) :
    AEADCipherCodec.encode ov (XM E) N self context session item dst =
      PWGen.Res.ok ({ self with encoder := ((Ss.encode E.C (toCtx k context) (toSess session) ⟨none⟩ item (encRand E item)).2.auth.map
          (fun a => (⟨UInt64.ofNat k.payloadLimit, a⟩ : ChunkEncoder MT))) }, context,
        dst ++ (Ss.encode E.C (toCtx k context) (toSess session) ⟨none⟩ item (encRand E item)).1, RResult.ok ()) := by
  have hfm : firstMsg E k session item =
      (match (toSess session).mode with
       | .client =>
         let addr := match (toSess session).address with
           | some ad => Socks5Addr.encode ad
           | none => []
         if k.is2022 then addr ++ be16 (encRand E item).padding.length ++ (encRand E item).padding ++ item else addr ++ item
       | .server => item) := rfl
  rw [AEADCipherCodec.encode]
  split
  · rename_i v hv; rw [hself] at hv; cases hv
  · simp only [init_payload_encoder_eval ov E k N _ _ _ hk, call_ok, bind_next, q_ok,
      handle_payload_header_eval ov E k N _ _ _ _ _ hk haddr hitem hpl hpd]
    cases h2 : k.is2022
    · simp only [Bool.false_eq_true, if_false, call_ok, bind_next, q_ok]
      rw [encode_some ov E N _ _ _ _ _ ⟨UInt64.ofNat k.payloadLimit, Ss.newAuth E.C k (encKey k context session) session.identity.salt⟩ rfl]
      simp only [call_ok, bind_next, run_ret, payloadLimit_toNat]
      simp only [Ss.encode, h2, Bool.false_eq_true, if_false, hfm, encKey_eq]
      simp [toSess, toCtx, List.append_assoc, Ss.Kind.payloadLimit, h2]
      all_goals exact ⟨rfl, rfl⟩
    · simp only [if_true, call_ok, bind_next, q_ok]
      rw [encode_some ov E N _ _ _ _ _ ⟨UInt64.ofNat k.payloadLimit, _⟩ rfl]
      simp only [call_ok, bind_next, run_ret, payloadLimit_toNat]
      simp only [Ss.encode, h2, if_true, hfm, encKey_eq]
      simp [toSess, toCtx, List.append_assoc, Ss.Kind.payloadLimit, h2]
      all_goals exact ⟨rfl, rfl⟩


/-- **every later `encode` = the model's `Ss.encode`** with the encoder in place: the item in chunks, nothing else (no salt,
no header, no address, no padding) -/
theorem encode_later_is_model (ov : Bool) (E : MEnv) (k : Ss.Kind) (N : Usize) (self : AEADCipherCodec MT) (context : Context MT)
    (session : Session) (item dst : Bytes) (e : ChunkEncoder MT) (r : Ss.EncRand) (he : self.encoder = some e)
    (hlim : e.payload_limit.toNat = k.payloadLimit) :
    AEADCipherCodec.encode ov (XM E) N self context session item dst =
      PWGen.Res.ok ({ self with encoder := ((Ss.encode E.C (toCtx k context) (toSess session) ⟨some e.auth⟩ item r).2.auth.map
          (fun a => (⟨e.payload_limit, a⟩ : ChunkEncoder MT))) }, context,
        dst ++ (Ss.encode E.C (toCtx k context) (toSess session) ⟨some e.auth⟩ item r).1, RResult.ok ()) := by
  rw [encode_some ov E N self context session item dst e he, hlim]
  rfl

/-- all writes of a connection through the generated `encode`, in order (a failing or panicking write ends it) -/
def genEncodeAll (ov : Bool) (E : MEnv) (N : Usize) (context : Context MT) (session : Session) :
    AEADCipherCodec MT → Bytes → List Bytes → Option (AEADCipherCodec MT × Bytes)
  | c, dst, [] => some (c, dst)
  | c, dst, w :: ws =>
    match AEADCipherCodec.encode ov (XM E) N c context session w dst with
    | .ok (c', _, dst', .ok ()) => genEncodeAll ov E N context session c' dst' ws
    | _ => none

theorem genEncodeAll_some (ov : Bool) (E : MEnv) (k : Ss.Kind) (N : Usize) (context : Context MT) (session : Session)
    (ws : List Bytes) : ∀ (c : AEADCipherCodec MT) (dst : Bytes) (e : ChunkEncoder MT) (rs : List Ss.EncRand),
    c.encoder = some e → e.payload_limit.toNat = k.payloadLimit → rs.length = ws.length →
    ∃ c', genEncodeAll ov E N context session c dst ws = some (c', dst ++
      (Ss.encodeAll E.C (toCtx k context) (toSess session) ⟨some e.auth⟩ (ws.zip rs)).1) := by
  induction ws with
  | nil => intro c dst e rs _ _ _; exact ⟨c, by simp [genEncodeAll, Ss.encodeAll]⟩
  | cons w ws ih =>
    intro c dst e rs he hlim hlen
    cases rs with
    | nil => simp at hlen
    | cons r rs =>
      simp only [genEncodeAll, encode_later_is_model ov E k N c context session w dst e r he hlim]
      have hs : Ss.encode E.C (toCtx k context) (toSess session) ⟨some e.auth⟩ w r =
          ((Ss.encPayload E.C e.auth k.payloadLimit w).1, ⟨some (Ss.encPayload E.C e.auth k.payloadLimit w).2⟩) := rfl
      obtain ⟨c', hc'⟩ := ih { c with encoder := some ⟨e.payload_limit, (Ss.encPayload E.C e.auth k.payloadLimit w).2⟩ }
        (dst ++ (Ss.encPayload E.C e.auth k.payloadLimit w).1) ⟨e.payload_limit, (Ss.encPayload E.C e.auth k.payloadLimit w).2⟩ rs rfl hlim
        (by simpa using hlen)
      refine ⟨c', ?_⟩
      simp only [hs, Option.map_some]
      rw [hc']
      simp [Ss.encodeAll, hs, List.append_assoc]

/-- **whole stream, encoder**: all writes of a connection through the generated `encode` put on the wire exactly what the
model's `encodeAll` says (first write: salt, identity headers, header, address, padding, payload; then chunks) -/
theorem genEncodeAll_is_model (ov : Bool) (E : MEnv) (k : Ss.Kind) (N : Usize) (self : AEADCipherCodec MT) (context : Context MT)
    (session : Session) (w : Bytes) (ws : List Bytes) (rs : List Ss.EncRand) (dst : Bytes)
    (hk : toKind context.kind = some k) (hself : self.encoder = none)
    (haddr : session.mode = .Client → ∃ ad, session.address = some ad)
    (hitem : w.length < 2 ^ 64) (hpl : E.padLen < 65536) (hpd : E.padLen ≤ E.padding.length) (hlen : rs.length = ws.length) :
    ∃ c', genEncodeAll ov E N context session self dst (w :: ws) = some (c', dst ++
      (Ss.encodeAll E.C (toCtx k context) (toSess session) {} ((w, encRand E w) :: ws.zip rs)).1) := by
  simp only [genEncodeAll, encode_first_is_model ov E k N self context session w dst hk hself haddr hitem hpl hpd]
  cases hen : Ss.encode E.C (toCtx k context) (toSess session) ⟨none⟩ w (encRand E w) with
  | mk wire en =>
  have hsome : ∃ a, en = ⟨some a⟩ := by
    simp only [Ss.encode] at hen
    split at hen <;> (cases hen; exact ⟨_, rfl⟩)
  obtain ⟨a, rfl⟩ := hsome
  simp only [Option.map_some]
  obtain ⟨c', hc'⟩ := genEncodeAll_some ov E k N context session ws { self with encoder := some ⟨UInt64.ofNat k.payloadLimit, a⟩ }
    (dst ++ wire) ⟨UInt64.ofNat k.payloadLimit, a⟩ rs rfl (payloadLimit_toNat k) hlen
  refine ⟨c', ?_⟩
  rw [hc']
  have : Ss.encodeAll E.C (toCtx k context) (toSess session) {} ((w, encRand E w) :: ws.zip rs) =
      (wire ++ (Ss.encodeAll E.C (toCtx k context) (toSess session) ⟨some a⟩ (ws.zip rs)).1,
        (Ss.encodeAll E.C (toCtx k context) (toSess session) ⟨some a⟩ (ws.zip rs)).2) := by
    simp only [Ss.encodeAll]
    rw [show ({} : Ss.Enc) = ⟨none⟩ from rfl, hen]
  rw [this]
  simp [List.append_assoc]

end Octo.SsTcpGen
