import Octo.Gen.AddrGen
import Octo.Proofs.PacketWindowGen
import Octo.Props.C14
/-!
  The generated code (`Octo.AddrGen`, written by `translate_addr.py` from `protocol/socks5/address.rs`) equals
  the hand-written model `Octo.Socks5Addr` (`Octo/Model/Addr.lean`).

  Part 1: big-endian bytes (`beNat`/`beBytes` of the generated support section vs `rdBE`/`be16` of the model).
  Part 2: the representation maps `toAddr` / `ofAddr` between the Rust-shaped `Address` and the model's `Addr`.
  Part 3: equational evaluation rules for `Flow` programs without loops.
  Part 4: `encode`, `length`, `decode`, `try_decode_at` = the model, on every input.
-/
set_option linter.unusedSimpArgs false
namespace Octo.AddrGen
open Octo Octo.PWGen

/-! ## Part 1 — big-endian bytes -/

theorem beNat_eq_rdBE (b : List UInt8) : beNat b = rdBE b := rfl

theorem beNat_concat (b : List UInt8) (x : UInt8) : beNat (b ++ [x]) = beNat b * 256 + x.toNat := by
  simp [beNat, List.foldl_append]

theorem beBytes_length (n x : Nat) : (beBytes n x).length = n := by
  induction n generalizing x with
  | zero => rfl
  | succ n ih => simp [beBytes, ih]

theorem snoc_induction {α : Type} {P : List α → Prop} (nil : P []) (snoc : ∀ l a, P l → P (l ++ [a])) (l : List α) : P l := by
  generalize hn : l.length = n
  induction n generalizing l with
  | zero => rw [List.length_eq_zero_iff.mp hn]; exact nil
  | succ n ih =>
    have hne : l ≠ [] := by intro h; simp [h] at hn
    rw [← List.dropLast_concat_getLast hne]
    exact snoc _ _ (ih _ (by simp [hn]))

theorem beNat_lt (b : List UInt8) : beNat b < 256 ^ b.length := by
  induction b using snoc_induction with
  | nil => simp [beNat]
  | snoc l a ih =>
    have := a.toNat_lt
    rw [beNat_concat, List.length_append, List.length_singleton, Nat.pow_succ]
    omega

/-- the bytes written for the value read from `b` are `b` again -/
theorem beBytes_beNat (n : Nat) (b : List UInt8) (h : b.length = n) : beBytes n (beNat b) = b := by
  induction b using snoc_induction generalizing n with
  | nil => subst h; rfl
  | snoc l a ih =>
    have ha := a.toNat_lt
    subst h
    rw [List.length_append, List.length_singleton, beBytes, beNat_concat]
    have e1 : (beNat l * 256 + a.toNat) / 256 = beNat l := by omega
    have e2 : (beNat l * 256 + a.toNat) % 256 = a.toNat := by omega
    rw [e1, e2, ih _ rfl, UInt8.ofNat_toNat]

/-- the value read from the `n` bytes written for `x` is `x` (mod `256^n`) -/
theorem beNat_beBytes (n x : Nat) : beNat (beBytes n x) = x % 256 ^ n := by
  induction n generalizing x with
  | zero => simp [beBytes, beNat, Nat.mod_one]
  | succ n ih =>
    rw [beBytes, beNat_concat, ih, Nat.pow_succ, Nat.mul_comm (256 ^ n) 256, Nat.mod_mul]
    simp only [UInt8.toNat_ofNat']
    omega

/-! ## Part 2 — representation -/

/-- the model's view of a Rust `Address` (`flowinfo`/`scope_id` of an IPv6 socket address are not part of it) -/
def toAddr : Address → Addr
  | .Domain h p => .domain h.bytes p.toNat
  | .Socket (.V4 a) => .v4 a.ip.octets a.port.toNat
  | .Socket (.V6 a) => .v6 a.ip.octets a.port.toNat

/-- the Rust `Address` of a well-formed model address (`flowinfo = scope_id = 0`, as `decode` builds it) -/
def ofAddr : Addr → Address
  | .domain h p => .Domain ⟨h⟩ (UInt16.ofNat p)
  | .v4 ip p => .Socket (.V4 ⟨⟨UInt32.ofNat (beNat ip)⟩, UInt16.ofNat p⟩)
  | .v6 ip p => .Socket (.V6 ⟨⟨BitVec.ofNat 128 (beNat ip)⟩, UInt16.ofNat p, 0, 0⟩)

/-- `x` with `flowinfo`/`scope_id` cleared: what `decode` can return at all -/
def normalize : Address → Address
  | .Socket (.V6 a) => .Socket (.V6 ⟨a.ip, a.port, 0, 0⟩)
  | x => x

theorem toAddr_wf (x : Address) : (toAddr x).WF := by
  match x with
  | .Domain h p => exact p.toNat_lt
  | .Socket (.V4 a) => exact ⟨beBytes_length _ _, a.port.toNat_lt⟩
  | .Socket (.V6 a) => exact ⟨beBytes_length _ _, a.port.toNat_lt⟩

theorem toAddr_ofAddr (a : Addr) (h : a.WF) : toAddr (ofAddr a) = a := by
  cases a with
  | domain host p =>
    have h' : p < 65536 := h
    simp [toAddr, ofAddr, UInt16.toNat_ofNat_of_lt' h']
  | v4 ip p =>
    obtain ⟨h1, h2⟩ := h
    have hb := beNat_lt ip
    rw [h1] at hb
    simp only [toAddr, ofAddr, Ipv4Addr.octets]
    rw [UInt32.toNat_ofNat_of_lt' (by omega), beBytes_beNat 4 ip h1, UInt16.toNat_ofNat_of_lt' (by omega)]
  | v6 ip p =>
    obtain ⟨h1, h2⟩ := h
    have hb := beNat_lt ip
    rw [h1] at hb
    simp only [toAddr, ofAddr, Ipv6Addr.octets]
    rw [BitVec.toNat_ofNat, Nat.mod_eq_of_lt (by omega), beBytes_beNat 16 ip h1, UInt16.toNat_ofNat_of_lt' (by omega)]

theorem ofAddr_toAddr (x : Address) : ofAddr (toAddr x) = normalize x := by
  match x with
  | .Domain h p => simp [toAddr, ofAddr, normalize]
  | .Socket (.V4 a) =>
    obtain ⟨⟨bits⟩, port⟩ := a
    have := bits.toNat_lt
    simp only [toAddr, ofAddr, normalize, Ipv4Addr.octets, beNat_beBytes]
    rw [Nat.mod_eq_of_lt (by omega)]
    simp
  | .Socket (.V6 a) =>
    obtain ⟨⟨bits⟩, port, fl, sc⟩ := a
    have := bits.isLt
    simp only [toAddr, ofAddr, normalize, Ipv6Addr.octets, beNat_beBytes]
    rw [Nat.mod_eq_of_lt (by omega)]
    simp

/-! ## Part 3 — evaluation rules -/
section eval
variable {α β ρ : Type}
theorem bind_next (a : α) (k : α → Flow β ρ) : (Flow.next a : Flow α ρ).bind k = k a := rfl
theorem bind_ret (r : ρ) (k : α → Flow β ρ) : (Flow.ret r : Flow α ρ).bind k = Flow.ret r := rfl
theorem bind_panic (k : α → Flow β ρ) : (Flow.panic : Flow α ρ).bind k = Flow.panic := rfl
theorem bind_ite (c : Prop) [Decidable c] (x y : Flow α ρ) (k : α → Flow β ρ) :
    (if c then x else y).bind k = if c then x.bind k else y.bind k := by split <;> rfl
theorem run_ite (c : Prop) [Decidable c] (x y : Flow Empty ρ) :
    Flow.run (if c then x else y) = if c then Flow.run x else Flow.run y := by split <;> rfl
theorem run_ret (r : ρ) : Flow.run (Flow.ret r : Flow Empty ρ) = PWGen.Res.ok r := rfl
theorem run_panic' : Flow.run (Flow.panic : Flow Empty ρ) = PWGen.Res.panic := rfl
/-- an arithmetic check that cannot fail -/
theorem arith_true (ov : Bool) : (Flow.arith ov true : Flow Unit ρ) = Flow.next () := by
  cases ov <;> rfl
theorem arith_release (c : Bool) : (Flow.arith false c : Flow Unit ρ) = Flow.next () := rfl
theorem arith_debug_false : (Flow.arith true false : Flow Unit ρ) = Flow.panic := rfl
end eval

theorem u8_as_usize_toNat (v : UInt8) : (U8.as_usize v).toNat = v.toNat := by
  have := v.toNat_lt
  rw [U8.as_usize, UInt64.toNat_ofNat_of_lt' (Nat.lt_trans this (by decide))]

theorem usize_as_u8 (n : Nat) : Usize.as_u8 (UInt64.ofNat n) = u8 n := by
  rw [Usize.as_u8, u8, UInt64.toNat_ofNat']
  apply UInt8.toNat_inj.mp
  simp only [UInt8.toNat_ofNat']
  omega

theorem beBytes_two (p : UInt16) : beBytes 2 p.toNat = be16 p.toNat := by
  simp only [beBytes, be16, u8, List.nil_append, List.cons_append]
  
/-! ## Part 4 — the four functions -/

/-- **`encode`** (both profiles, every address, every buffer content): never panics and appends exactly the model's bytes -/
theorem encode_eq (ov : Bool) (x : Address) (dst : List UInt8) :
    encode ov x dst = PWGen.Res.ok (dst ++ Socks5Addr.encode (toAddr x), ()) := by
  match x with
  | .Domain h p =>
    simp only [encode, run_ret, toAddr, Socks5Addr.encode, Cursor.put_u8, Cursor.extend_from_slice, Cursor.put_slice, Cursor.put_u16,
      Socks5AddressType.as_u8, RString.len, RString.as_bytes, usize_as_u8, beBytes_two, List.append_assoc, List.cons_append, List.nil_append]
  | .Socket (.V4 a) =>
    simp only [encode, run_ret, toAddr, Socks5Addr.encode, Cursor.put_u8, Cursor.extend_from_slice, Cursor.put_slice, Cursor.put_u16,
      Socks5AddressType.as_u8, beBytes_two, List.append_assoc, List.cons_append, List.nil_append]
  | .Socket (.V6 a) =>
    simp only [encode, run_ret, toAddr, Socks5Addr.encode, Cursor.put_u8, Cursor.extend_from_slice, Cursor.put_slice, Cursor.put_u16,
      Socks5AddressType.as_u8, beBytes_two, List.append_assoc, List.cons_append, List.nil_append]


theorem length_socket (ov : Bool) (a : SocketAddr) :
    length ov (.Socket a) = PWGen.Res.ok (UInt64.ofNat (Socks5Addr.length (toAddr (.Socket a)))) := by
  cases a <;> simp [length, toAddr, Socks5Addr.length, U64.addOk, U64.mulOk, arith_true, bind_next, run_ret]


theorem length_domain_value (n : Nat) : ((1 : UInt64) + 1 + UInt64.ofNat n + 2) = UInt64.ofNat (1 + 1 + n + 2) := by
  apply UInt64.toNat_inj.mp
  have h1 : (1 : UInt64).toNat = 1 := rfl
  have h2 : (2 : UInt64).toNat = 2 := rfl
  simp only [UInt64.toNat_add, UInt64.toNat_ofNat', h1, h2]
  omega

/-- in the range of lengths a Rust `String` can have (in fact whenever `len + 4` fits a `usize`) no check fails -/
theorem length_domain (ov : Bool) (h : RString) (p : UInt16) (hb : h.bytes.length + 4 < 2 ^ 64) :
    length ov (.Domain h p) = PWGen.Res.ok (UInt64.ofNat (Socks5Addr.length (toAddr (.Domain h p)))) := by
  have e : (UInt64.ofNat h.bytes.length).toNat = h.bytes.length := UInt64.toNat_ofNat_of_lt' (show _ < 18446744073709551616 by omega)
  have c1 : U64.addOk ((1 : Usize) + 1) (UInt64.ofNat h.bytes.length) = true := by
    simp [U64.addOk, e]; omega
  have c2 : U64.addOk ((1 : Usize) + 1 + UInt64.ofNat h.bytes.length) 2 = true := by
    simp [U64.addOk, UInt64.toNat_add, e]; omega
  have c0 : U64.addOk (1 : Usize) 1 = true := by decide
  simp only [length, c0, c1, c2, arith_true, bind_next, run_ret, toAddr, Socks5Addr.length, RString.len, length_domain_value]

/-- release profile: the sum wraps, which is the model's value modulo `2^64` -/
theorem length_domain_release (h : RString) (p : UInt16) :
    length false (.Domain h p) = PWGen.Res.ok (UInt64.ofNat (Socks5Addr.length (toAddr (.Domain h p)))) := by
  simp only [length, arith_release, bind_next, run_ret, toAddr, Socks5Addr.length, RString.len, length_domain_value]

/-- debug profile, outside the range: the addition overflows and panics (no Rust `String` is that long) -/
theorem length_domain_debug_overflow (h : RString) (p : UInt16) (hb : 2 ^ 64 ≤ h.bytes.length % 2 ^ 64 + 4) :
    length true (.Domain h p) = PWGen.Res.panic := by
  have e : (UInt64.ofNat h.bytes.length).toNat = h.bytes.length % 2 ^ 64 := UInt64.toNat_ofNat'
  have c0 : U64.addOk (1 : Usize) 1 = true := by decide
  by_cases h1 : 2 ^ 64 ≤ h.bytes.length % 2 ^ 64 + 2
  · have c1 : U64.addOk ((1 : Usize) + 1) (UInt64.ofNat h.bytes.length) = false := by
      simp [U64.addOk, e]; omega
    simp only [length, RString.len, c0, c1, arith_true, arith_debug_false, bind_next, bind_panic, run_panic']
  · have c1 : U64.addOk ((1 : Usize) + 1) (UInt64.ofNat h.bytes.length) = true := by
      simp [U64.addOk, e]; omega
    have c2 : U64.addOk ((1 : Usize) + 1 + UInt64.ofNat h.bytes.length) 2 = false := by
      simp [U64.addOk, UInt64.toNat_add, e]; omega
    simp only [length, RString.len, c0, c1, c2, arith_true, arith_debug_false, bind_next, bind_panic, run_panic']


/-- **`length`** = the model's length, in both profiles, whenever that length fits a `usize` (always, for a value of the
Rust type: a `String` has at most `isize::MAX` bytes); outside that range see `length_domain_release` (wraps) and
`length_domain_debug_overflow` (panics) -/
theorem length_eq (ov : Bool) (x : Address) (h : Socks5Addr.length (toAddr x) < 2 ^ 64) :
    length ov x = PWGen.Res.ok (UInt64.ofNat (Socks5Addr.length (toAddr x))) := by
  match x with
  | .Domain host p =>
    apply length_domain
    simp only [toAddr, Socks5Addr.length] at h
    omega
  | .Socket a => exact length_socket ov a

/-! ### the model's `decode`, case by case -/
theorem buf_take_ok (n : Nat) (b : Bytes) (h : n ≤ b.length) : Buf.take n b = .ok (b.take n, b.drop n) := by
  simp [Buf.take, Nat.not_lt.mpr h]
theorem buf_getU16_ok (b : Bytes) (h : 2 ≤ b.length) : Buf.getU16 b = .ok (rdBE (b.take 2), b.drop 2) := by
  simp [Buf.getU16, Buf.getBE, Nat.not_lt.mpr h]

theorem model_decode_nil : Socks5Addr.decode [] = .err := rfl

theorem model_decode_v4 (r : Bytes) : Socks5Addr.decode (1 :: r) =
    if r.length < 6 then .err else .ok (.v4 (r.take 4) (rdBE ((r.drop 4).take 2)), (r.drop 4).drop 2) := by
  by_cases hl : r.length < 6
  · simp [Socks5Addr.decode, Buf.getU8, hl]
  · have h2 : 2 ≤ (r.drop 4).length := by rw [List.length_drop]; omega
    simp [Socks5Addr.decode, Buf.getU8, hl, buf_take_ok 4 r (by omega), buf_getU16_ok _ h2]

theorem model_decode_v6 (r : Bytes) : Socks5Addr.decode (4 :: r) =
    if r.length < 18 then .err else .ok (.v6 (r.take 16) (rdBE ((r.drop 16).take 2)), (r.drop 16).drop 2) := by
  by_cases hl : r.length < 18
  · simp [Socks5Addr.decode, Buf.getU8, hl]
  · have h2 : 2 ≤ (r.drop 16).length := by rw [List.length_drop]; omega
    simp [Socks5Addr.decode, Buf.getU8, hl, buf_take_ok 16 r (by omega), buf_getU16_ok _ h2]

theorem model_decode_domain_nil : Socks5Addr.decode [3] = .err := by
  simp [Socks5Addr.decode, Buf.getU8]

theorem model_decode_domain (l : UInt8) (r : Bytes) : Socks5Addr.decode (3 :: l :: r) =
    if r.length < l.toNat + 2 then .err
    else .ok (.domain (r.take l.toNat) (rdBE ((r.drop l.toNat).take 2)), (r.drop l.toNat).drop 2) := by
  by_cases hl : r.length < l.toNat + 2
  · have : r.length + 1 < 1 + l.toNat + 2 := by omega
    simp [Socks5Addr.decode, Buf.getU8, hl, this]
  · have h2 : 2 ≤ (r.drop l.toNat).length := by rw [List.length_drop]; omega
    have : ¬ r.length + 1 < 1 + l.toNat + 2 := by omega
    simp [Socks5Addr.decode, Buf.getU8, hl, this, buf_take_ok l.toNat r (by omega), buf_getU16_ok _ h2]

theorem model_decode_other (t : UInt8) (r : Bytes) (h1 : t ≠ 1) (h3 : t ≠ 3) (h4 : t ≠ 4) :
    Socks5Addr.decode (t :: r) = .err := by
  simp [Socks5Addr.decode, Buf.getU8, h1, h3, h4]

/-- the model's reading of a result of the generated `decode` -/
def embedDecode : PWGen.Res (Cursor × RResult Address) → Octo.Res (Addr × Bytes)
  | .ok (b, .ok a) => .ok (toAddr a, b)
  | .ok (_, .err) => .err
  | .panic => .panic

theorem question_ok {τ ρ : Type} (v : τ) (e : ρ) : (Flow.question (RResult.ok v) e : Flow τ ρ) = Flow.next v := rfl
theorem question_err {τ ρ : Type} (e : ρ) : (Flow.question (RResult.err : RResult τ) e : Flow τ ρ) = Flow.ret e := rfl

theorem try_from_1 : Socks5AddressType.try_from 1 = .ok .Ipv4 := rfl
theorem try_from_3 : Socks5AddressType.try_from 3 = .ok .Domain := rfl
theorem try_from_4 : Socks5AddressType.try_from 4 = .ok .Ipv6 := rfl
theorem try_from_other (t : UInt8) (h1 : t ≠ 1) (h3 : t ≠ 3) (h4 : t ≠ 4) : Socks5AddressType.try_from t = .err := by
  simp [Socks5AddressType.try_from, Socks5AddressType.as_u8, Ne.symm h1, Ne.symm h3, Ne.symm h4]

theorem remaining_lt (r : List UInt8) (h : r.length < 2 ^ 64) (k : UInt64) :
    Cursor.remaining r < k ↔ r.length < k.toNat := by
  rw [UInt64.lt_iff_toNat_lt, Cursor.remaining, UInt64.toNat_ofNat_of_lt' (show _ < 18446744073709551616 by omega)]

theorem octets_from_u32 (l : List UInt8) (h : l.length = 4) :
    Ipv4Addr.octets (Ipv4Addr.from_u32 (UInt32.ofNat (beNat l))) = l := by
  have hb := beNat_lt l
  rw [h] at hb
  rw [Ipv4Addr.octets, Ipv4Addr.from_u32, UInt32.toNat_ofNat_of_lt' (show _ < 4294967296 by omega), beBytes_beNat 4 l h]

theorem octets_from_u128 (l : List UInt8) (h : l.length = 16) :
    Ipv6Addr.octets (Ipv6Addr.from_u128 (BitVec.ofNat 128 (beNat l))) = l := by
  have hb := beNat_lt l
  rw [h] at hb
  rw [Ipv6Addr.octets, Ipv6Addr.from_u128, BitVec.toNat_ofNat, Nat.mod_eq_of_lt (by omega), beBytes_beNat 16 l h]

theorem octets_from_u32' (l : List UInt8) (h : l.length = 4) :
    Ipv4Addr.octets ⟨UInt32.ofNat (beNat l)⟩ = l := octets_from_u32 l h

theorem octets_from_u128' (l : List UInt8) (h : l.length = 16) :
    Ipv6Addr.octets ⟨BitVec.ofNat 128 (beNat l)⟩ = l := octets_from_u128 l h

theorem port_toNat (l : List UInt8) (h : l.length = 2) : (UInt16.ofNat (beNat l)).toNat = rdBE l := by
  have hb := beNat_lt l
  rw [h] at hb
  rw [UInt16.toNat_ofNat_of_lt' (show _ < 65536 by omega), beNat_eq_rdBE]

section reads
variable {ρ : Type}
theorem get_u16_ok (r : List UInt8) (h : 2 ≤ r.length) :
    (Flow.get_u16 r : Flow _ ρ) = .next (r.drop 2, UInt16.ofNat (beNat (r.take 2))) := by simp [Flow.get_u16, h]
theorem get_u32_ok (r : List UInt8) (h : 4 ≤ r.length) :
    (Flow.get_u32 r : Flow _ ρ) = .next (r.drop 4, UInt32.ofNat (beNat (r.take 4))) := by simp [Flow.get_u32, h]
theorem get_u128_ok (r : List UInt8) (h : 16 ≤ r.length) :
    (Flow.get_u128 r : Flow _ ρ) = .next (r.drop 16, BitVec.ofNat 128 (beNat (r.take 16))) := by simp [Flow.get_u128, h]
theorem split_to_ok (r : List UInt8) (n : Usize) (h : n.toNat ≤ r.length) :
    (Flow.split_to r n : Flow _ ρ) = .next (r.drop n.toNat, r.take n.toNat) := by simp [Flow.split_to, h]
theorem get_u8_cons (x : UInt8) (r : List UInt8) : (Flow.get_u8 (x :: r) : Flow _ ρ) = .next (r, x) := rfl
theorem byteAt_zero_cons (x : UInt8) (r : List UInt8) : (Flow.byteAt (x :: r) 0 : Flow _ ρ) = .next x := rfl
end reads

theorem remaining_ge (r : List UInt8) (k : UInt64) (h : ¬ Cursor.remaining r < k) : k.toNat ≤ r.length := by
  rw [UInt64.lt_iff_toNat_lt, Cursor.remaining, UInt64.toNat_ofNat'] at h
  have := Nat.mod_le r.length (2 ^ 64)
  omega

/-! ### `decode`, case by case: the exact result on every input (no bound on the length needed) -/

theorem decode_nil_eval (ov : Bool) : decode ov [] = PWGen.Res.ok ([], RResult.err) := by
  simp [decode, Cursor.has_remaining, bind_ret, run_ret]

theorem decode_other_eval (ov : Bool) (t : UInt8) (r : List UInt8) (h1 : t ≠ 1) (h3 : t ≠ 3) (h4 : t ≠ 4) :
    decode ov (t :: r) = PWGen.Res.ok (r, RResult.err) := by
  simp [decode, Cursor.has_remaining, bind_next, get_u8_cons, try_from_other t h1 h3 h4, question_err, bind_ret, run_ret]

theorem decode_v4_eval (ov : Bool) (r : List UInt8) : decode ov (1 :: r) =
    if Cursor.remaining r < 6 then PWGen.Res.ok (r, RResult.err)
    else PWGen.Res.ok ((r.drop 4).drop 2, RResult.ok (Address.Socket (SocketAddr.V4
      ⟨⟨UInt32.ofNat (beNat (r.take 4))⟩, UInt16.ofNat (beNat ((r.drop 4).take 2))⟩))) := by
  by_cases hl : Cursor.remaining r < 6
  · simp [decode, Cursor.has_remaining, bind_next, get_u8_cons, try_from_1, question_ok, U64.addOk, arith_true, bind_ite, bind_ret,
      hl, run_ret]
  · have h6 : 6 ≤ r.length := remaining_ge r 6 hl
    have h2 : 2 ≤ (r.drop 4).length := by rw [List.length_drop]; omega
    simp [decode, Cursor.has_remaining, bind_next, get_u8_cons, try_from_1, question_ok, U64.addOk, arith_true, bind_ite, bind_ret,
      hl, run_ret, get_u32_ok r (by omega), get_u16_ok _ h2, SocketAddrV4.new, Ipv4Addr.from_u32]

theorem decode_v6_eval (ov : Bool) (r : List UInt8) : decode ov (4 :: r) =
    if Cursor.remaining r < 18 then PWGen.Res.ok (r, RResult.err)
    else PWGen.Res.ok ((r.drop 16).drop 2, RResult.ok (Address.Socket (SocketAddr.V6
      ⟨⟨BitVec.ofNat 128 (beNat (r.take 16))⟩, UInt16.ofNat (beNat ((r.drop 16).take 2)), 0, 0⟩))) := by
  by_cases hl : Cursor.remaining r < 18
  · simp [decode, Cursor.has_remaining, bind_next, get_u8_cons, try_from_4, question_ok, U64.addOk, arith_true, bind_ite, bind_ret,
      hl, run_ret]
  · have h6 : 18 ≤ r.length := remaining_ge r 18 hl
    have h2 : 2 ≤ (r.drop 16).length := by rw [List.length_drop]; omega
    simp [decode, Cursor.has_remaining, bind_next, get_u8_cons, try_from_4, question_ok, U64.addOk, arith_true, bind_ite, bind_ret,
      hl, run_ret, get_u128_ok r (by omega), get_u16_ok _ h2, SocketAddrV6.new, Ipv6Addr.from_u128]

theorem decode_domain_nil_eval (ov : Bool) : decode ov [3] = PWGen.Res.ok ([], RResult.err) := by
  simp [decode, Cursor.has_remaining, bind_next, get_u8_cons, try_from_3, question_ok, bind_ite, bind_ret, Cursor.remaining, run_ret]

theorem required_toNat (l : UInt8) : ((1 : Usize) + U8.as_usize l + 2).toNat = 1 + l.toNat + 2 := by
  have hl8 := l.toNat_lt
  have e1 : ((1 : Usize) + U8.as_usize l).toNat = 1 + l.toNat := by
    rw [UInt64.toNat_add, u8_as_usize_toNat]; show (1 + l.toNat) % 2 ^ 64 = _; omega
  rw [UInt64.toNat_add, e1]; show (1 + l.toNat + 2) % 2 ^ 64 = _; omega

theorem decode_domain_eval (ov : Bool) (l : UInt8) (r : List UInt8) : decode ov (3 :: l :: r) =
    if Cursor.remaining (l :: r) < 1 + U8.as_usize l + 2 then PWGen.Res.ok (l :: r, RResult.err)
    else PWGen.Res.ok ((r.drop l.toNat).drop 2, RResult.ok (Address.Domain ⟨r.take l.toNat⟩
      (UInt16.ofNat (beNat ((r.drop l.toNat).take 2))))) := by
  have hl8 := l.toNat_lt
  have el := u8_as_usize_toNat l
  have c1 : U64.addOk (1 : Usize) (U8.as_usize l) = true := by
    simp [U64.addOk, el]; omega
  have e1 : ((1 : Usize) + U8.as_usize l).toNat = 1 + l.toNat := by
    rw [UInt64.toNat_add, el]; show (1 + l.toNat) % 2 ^ 64 = _; omega
  have c2 : U64.addOk ((1 : Usize) + U8.as_usize l) 2 = true := by
    simp [U64.addOk, e1]; omega
  by_cases hl : Cursor.remaining (l :: r) < 1 + U8.as_usize l + 2
  · simp [decode, Cursor.has_remaining, bind_next, get_u8_cons, byteAt_zero_cons, try_from_3, question_ok, c1, c2, arith_true,
      bind_ite, bind_ret, hl, run_ret]
  · have hge := remaining_ge _ _ hl
    rw [required_toNat, List.length_cons] at hge
    have h2 : 2 ≤ (r.drop l.toNat).length := by rw [List.length_drop]; omega
    have hs : (U8.as_usize l).toNat ≤ r.length := by rw [el]; omega
    simp [decode, Cursor.has_remaining, bind_next, get_u8_cons, byteAt_zero_cons, try_from_3, question_ok, c1, c2, arith_true,
      bind_ite, bind_ret, hl, run_ret, split_to_ok r _ hs, el, get_u16_ok _ h2, RString.from_utf8_unchecked, Cursor.to_vec]

/-- **the generated `decode` never panics**: on every buffer content whatsoever, in both profiles -/
theorem decode_no_panic (ov : Bool) (b : List UInt8) : decode ov b ≠ PWGen.Res.panic := by
  match b with
  | [] => rw [decode_nil_eval]; simp
  | t :: r =>
    by_cases h1 : t = 1
    · subst h1; rw [decode_v4_eval]; split <;> simp
    by_cases h4 : t = 4
    · subst h4; rw [decode_v6_eval]; split <;> simp
    by_cases h3 : t = 3
    · subst h3
      match r with
      | [] => rw [decode_domain_nil_eval]; simp
      | l :: r => rw [decode_domain_eval]; split <;> simp
    rw [decode_other_eval ov t r h1 h3 h4]; simp

/-- **`decode`** = the model's `decode`, in both profiles, on every buffer content (of a length a Rust buffer can have):
same outcome class, same address, same unread rest -/
theorem decode_eq (ov : Bool) (b : List UInt8) (h : b.length < 2 ^ 64) :
    embedDecode (decode ov b) = Socks5Addr.decode b := by
  match b with
  | [] => rw [decode_nil_eval]; rfl
  | t :: r =>
    have hr : r.length + 1 < 2 ^ 64 := by simpa using h
    by_cases h1 : t = 1
    · subst h1
      have e6 : (6 : UInt64).toNat = 6 := rfl
      rw [decode_v4_eval, model_decode_v4]
      simp only [remaining_lt r (by omega), e6]
      split
      · rfl
      · rename_i hl
        simp only [embedDecode, toAddr]
        rw [octets_from_u32' _ (by rw [List.length_take]; omega), port_toNat _ (by rw [List.length_take, List.length_drop]; omega)]
    by_cases h4 : t = 4
    · subst h4
      have e18 : (18 : UInt64).toNat = 18 := rfl
      rw [decode_v6_eval, model_decode_v6]
      simp only [remaining_lt r (by omega), e18]
      split
      · rfl
      · rename_i hl
        simp only [embedDecode, toAddr]
        rw [octets_from_u128' _ (by rw [List.length_take]; omega), port_toNat _ (by rw [List.length_take, List.length_drop]; omega)]
    by_cases h3 : t = 3
    · subst h3
      match r with
      | [] => rw [decode_domain_nil_eval, model_decode_domain_nil]; rfl
      | l :: r =>
        rw [decode_domain_eval, model_decode_domain]
        simp only [remaining_lt (l :: r) (by simp only [List.length_cons] at hr ⊢; omega), required_toNat, List.length_cons]
        have e : (r.length + 1 < 1 + l.toNat + 2) = (r.length < l.toNat + 2) := by apply propext; omega
        simp only [e]
        split
        · rfl
        · rename_i hl
          simp only [embedDecode, toAddr]
          rw [port_toNat _ (by rw [List.length_take, List.length_drop]; omega)]
    rw [decode_other_eval ov t r h1 h3 h4, model_decode_other t r h1 h3 h4]; rfl

/-- what `decode` returns is always in normal form (`flowinfo = scope_id = 0`) -/
theorem decode_normal (ov : Bool) (b r : List UInt8) (x : Address) (h : decode ov b = PWGen.Res.ok (r, RResult.ok x)) :
    normalize x = x := by
  match b with
  | [] => rw [decode_nil_eval] at h; simp at h
  | t :: b =>
    by_cases h1 : t = 1
    · subst h1; rw [decode_v4_eval] at h; split at h <;> simp at h; rw [← h.2]; rfl
    by_cases h4 : t = 4
    · subst h4; rw [decode_v6_eval] at h; split at h <;> simp at h; rw [← h.2]; rfl
    by_cases h3 : t = 3
    · subst h3
      match b with
      | [] => rw [decode_domain_nil_eval] at h; simp at h
      | l :: b => rw [decode_domain_eval] at h; split at h <;> simp at h; rw [← h.2]; rfl
    rw [decode_other_eval ov t b h1 h3 h4] at h; simp at h

/-- on `Err` the cursor has consumed exactly the type byte (nothing of an empty buffer) -/
theorem decode_err_rest (ov : Bool) (b r : List UInt8) (h : decode ov b = PWGen.Res.ok (r, RResult.err)) :
    r = b.drop 1 := by
  match b with
  | [] => rw [decode_nil_eval] at h; simp at h; simp [h]
  | t :: b =>
    by_cases h1 : t = 1
    · subst h1; rw [decode_v4_eval] at h; split at h <;> simp at h; simp [h]
    by_cases h4 : t = 4
    · subst h4; rw [decode_v6_eval] at h; split at h <;> simp at h; simp [h]
    by_cases h3 : t = 3
    · subst h3
      match b with
      | [] => rw [decode_domain_nil_eval] at h; simp at h; simp [h]
      | l :: b => rw [decode_domain_eval] at h; split at h <;> simp at h; simp [h]
    rw [decode_other_eval ov t b h1 h3 h4] at h; simp at h; simp [h]


/-! ### `try_decode_at` -/

/-- the model's reading of a result of the generated `try_decode_at` -/
def embedTry : PWGen.Res (RResult Usize) → Octo.Res Nat
  | .ok (.ok n) => .ok n.toNat
  | .ok .err => .err
  | .panic => .panic

theorem byteAt_some {ρ : Type} (b : List UInt8) (i : Usize) (v : UInt8) (h : b[i.toNat]? = some v) :
    (Flow.byteAt b i : Flow UInt8 ρ) = Flow.next v := by simp [Flow.byteAt, h]
theorem byteAt_none {ρ : Type} (b : List UInt8) (i : Usize) (h : b[i.toNat]? = none) :
    (Flow.byteAt b i : Flow UInt8 ρ) = Flow.panic := by simp [Flow.byteAt, h]

/-- **`try_decode_at`** = the model's `tryDecodeAt` at every offset, in both profiles, on every buffer content (of a length a
Rust buffer can have): same outcome class — in particular the same panics — and the same length -/
theorem try_decode_at_eq (ov : Bool) (b : List UInt8) (i : Usize) (h : b.length < 2 ^ 64) :
    embedTry (try_decode_at ov b i) = Socks5Addr.tryDecodeAt b i.toNat := by
  cases hget : b[i.toNat]? with
  | none => simp [try_decode_at, Socks5Addr.tryDecodeAt, hget, byteAt_none b i hget, bind_panic, run_panic', embedTry]
  | some t =>
    have hi : i.toNat < b.length := by
      rcases List.getElem?_eq_some_iff.mp hget with ⟨hlt, _⟩; exact hlt
    by_cases h1 : t = 1
    · subst h1
      simp [try_decode_at, Socks5Addr.tryDecodeAt, hget, byteAt_some b i _ hget, bind_next, try_from_1, question_ok, U64.addOk,
        arith_true, run_ret, embedTry]
    by_cases h4 : t = 4
    · subst h4
      simp [try_decode_at, Socks5Addr.tryDecodeAt, hget, byteAt_some b i _ hget, bind_next, try_from_4, question_ok, U64.addOk,
        U64.mulOk, arith_true, run_ret, embedTry]
    by_cases h3 : t = 3
    · subst h3
      have e1 : (i + 1).toNat = i.toNat + 1 := by
        rw [UInt64.toNat_add]; show (i.toNat + 1) % 2 ^ 64 = _; omega
      have c1 : U64.addOk i 1 = true := by
        simp [U64.addOk]; omega
      have c0 : U64.addOk (1 : Usize) 1 = true := by decide
      cases hget2 : b[i.toNat + 1]? with
      | none =>
        have hget2' : b[(i + 1).toNat]? = none := by rw [e1]; exact hget2
        simp [try_decode_at, Socks5Addr.tryDecodeAt, hget, hget2, byteAt_some b i _ hget, byteAt_none b _ hget2', bind_next,
          try_from_3, question_ok, c0, c1, arith_true, bind_panic, run_panic', embedTry]
      | some l =>
        have hget2' : b[(i + 1).toNat]? = some l := by rw [e1]; exact hget2
        have hl8 := l.toNat_lt
        have el := u8_as_usize_toNat l
        have e2 : ((1 : Usize) + 1 + U8.as_usize l).toNat = 1 + 1 + l.toNat := by
          rw [UInt64.toNat_add, el]; show (2 + l.toNat) % 2 ^ 64 = _; omega
        have c2 : U64.addOk ((1 : Usize) + 1) (U8.as_usize l) = true := by
          simp [U64.addOk, el]; omega
        have c3 : U64.addOk ((1 : Usize) + 1 + U8.as_usize l) 2 = true := by
          simp [U64.addOk, e2]; omega
        have e3 : ((1 : Usize) + 1 + U8.as_usize l + 2).toNat = 1 + 1 + l.toNat + 2 := by
          rw [UInt64.toNat_add, e2]; show (1 + 1 + l.toNat + 2) % 2 ^ 64 = _; omega
        simp only [try_decode_at, Socks5Addr.tryDecodeAt, hget, hget2, byteAt_some b i _ hget, byteAt_some b _ _ hget2', bind_next,
          try_from_3, question_ok, c0, c1, c2, c3, arith_true, run_ret, embedTry, e3]
        simp
    simp [try_decode_at, Socks5Addr.tryDecodeAt, hget, byteAt_some b i _ hget, bind_next, try_from_other t h1 h3 h4, question_err,
      bind_ret, run_ret, embedTry, h1, h3, h4]


theorem embedTry_panic (r : PWGen.Res (RResult Usize)) : embedTry r = .panic ↔ r = PWGen.Res.panic := by
  match r with
  | .ok (.ok n) => simp [embedTry]
  | .ok .err => simp [embedTry]
  | .panic => simp [embedTry]

/-- inside the precondition the callers establish (`at + 1 < src.len()`): no panic -/
theorem try_decode_at_no_panic (ov : Bool) (b : List UInt8) (i : Usize) (h : b.length < 2 ^ 64)
    (hpre : i.toNat + 1 < b.length) : try_decode_at ov b i ≠ PWGen.Res.panic := by
  intro hp
  have := try_decode_at_eq ov b i h
  rw [hp] at this
  have h0 : b[i.toNat]? = some b[i.toNat] := List.getElem?_eq_getElem (by omega)
  have h1 : b[i.toNat + 1]? = some b[i.toNat + 1] := List.getElem?_eq_getElem (by omega)
  simp only [embedTry, Socks5Addr.tryDecodeAt, h0, h1] at this
  repeat' split at this
  all_goals exact absurd this (by simp)

/-- outside it, (a) `at` beyond the end: the index panics (every profile, no condition on the length) -/
theorem try_decode_at_oob (ov : Bool) (b : List UInt8) (i : Usize) (h : b.length ≤ i.toNat) :
    try_decode_at ov b i = PWGen.Res.panic := by
  have hget : b[i.toNat]? = none := List.getElem?_eq_none h
  simp [try_decode_at, byteAt_none b i hget, bind_panic, run_panic']

/-- outside it, (b) `at` is the last byte and it announces a domain name: `src[at + 1]` panics -/
theorem try_decode_at_last_domain (ov : Bool) (b : List UInt8) (i : Usize) (h : b.length < 2 ^ 64)
    (hlast : i.toNat + 1 = b.length) (ht : b[i.toNat]? = some 3) : try_decode_at ov b i = PWGen.Res.panic := by
  rw [← embedTry_panic, try_decode_at_eq ov b i h]
  have h1 : b[i.toNat + 1]? = none := List.getElem?_eq_none (by omega)
  simp [Socks5Addr.tryDecodeAt, ht, h1]

/-- outside it, (c) `at` is the last byte and it is anything else: the answer does not need `src[at + 1]` -/
theorem try_decode_at_last_other (ov : Bool) (b : List UInt8) (i : Usize) (h : b.length < 2 ^ 64) (t : UInt8)
    (ht : b[i.toNat]? = some t) (h3 : t ≠ 3) : try_decode_at ov b i ≠ PWGen.Res.panic := by
  rw [Ne, ← embedTry_panic, try_decode_at_eq ov b i h]
  simp only [Socks5Addr.tryDecodeAt, ht, h3, if_false]
  split <;> try split
  all_goals simp

end Octo.AddrGen
