import Octo.Model.AddrOrd
/-!
  `Addr.cmp` is a total order (helper lemmas; the property theorems are in `Octo/Props/C09Addr.lean`).
-/
namespace Octo.Addr

/-- what an ordered map needs of its comparison -/
structure TotalCmp {α : Type} (c : α → α → Ordering) : Prop where
  eq_iff : ∀ a b, c a b = .eq ↔ a = b
  swap : ∀ a b, c b a = (c a b).swap
  trans : ∀ a b d, c a b = .lt → c b d = .lt → c a d = .lt

theorem natCmp_total : TotalCmp (fun a b : Nat => compare a b) where
  eq_iff a b := by simp [Nat.compare_eq_eq]
  swap a b := by
    show compare b a = (compare a b).swap
    rw [Nat.compare_swap]
  trans a b d h1 h2 := by
    simp only [Nat.compare_eq_lt] at *
    omega

theorem then_eq_eq' (o1 o2 : Ordering) : o1.then o2 = .eq ↔ o1 = .eq ∧ o2 = .eq := by
  cases o1 <;> cases o2 <;> simp [Ordering.then]

theorem then_eq_lt' (o1 o2 : Ordering) : o1.then o2 = .lt ↔ o1 = .lt ∨ (o1 = .eq ∧ o2 = .lt) := by
  cases o1 <;> cases o2 <;> simp [Ordering.then]

theorem swap_then' (o1 o2 : Ordering) : (o1.then o2).swap = o1.swap.then o2.swap := by
  cases o1 <;> cases o2 <;> simp [Ordering.then, Ordering.swap]

/-- lexicographic combination of two total comparisons -/
theorem TotalCmp.lex {α β : Type} {c1 : α → α → Ordering} {c2 : β → β → Ordering} (h1 : TotalCmp c1) (h2 : TotalCmp c2) :
    TotalCmp (fun (x y : α × β) => (c1 x.1 y.1).then (c2 x.2 y.2)) where
  eq_iff x y := by
    obtain ⟨x1, x2⟩ := x
    obtain ⟨y1, y2⟩ := y
    simp only [then_eq_eq', h1.eq_iff, h2.eq_iff, Prod.mk.injEq]
  swap x y := by
    simp only [swap_then', ← h1.swap, ← h2.swap]
  trans x y z hxy hyz := by
    simp only [then_eq_lt'] at *
    rcases hxy with hxy | ⟨hxy1, hxy2⟩ <;> rcases hyz with hyz | ⟨hyz1, hyz2⟩
    · exact .inl (h1.trans _ _ _ hxy hyz)
    · rw [h1.eq_iff] at hyz1
      exact .inl (hyz1 ▸ hxy)
    · rw [h1.eq_iff] at hxy1
      exact .inl (hxy1 ▸ hyz)
    · rw [h1.eq_iff] at hxy1 hyz1
      refine .inr ⟨?_, h2.trans _ _ _ hxy2 hyz2⟩
      rw [h1.eq_iff]
      exact hxy1.trans hyz1

/-- a total comparison pulled back along an injective key -/
theorem TotalCmp.pullback {α γ : Type} {c : α → α → Ordering} (f : γ → α) (inj : ∀ x y, f x = f y → x = y) (h : TotalCmp c) :
    TotalCmp (fun x y => c (f x) (f y)) where
  eq_iff x y := by
    constructor
    · intro e
      exact inj _ _ ((h.eq_iff _ _).mp e)
    · intro e
      exact (h.eq_iff _ _).mpr (by rw [e])
  swap x y := h.swap _ _
  trans x y z := h.trans _ _ _

theorem bytesCmp_eq_iff : ∀ a b : Bytes, bytesCmp a b = .eq ↔ a = b
  | [], [] => by simp [bytesCmp]
  | [], _ :: _ => by simp [bytesCmp]
  | _ :: _, [] => by simp [bytesCmp]
  | a :: as, b :: bs => by
    simp only [bytesCmp, then_eq_eq', Nat.compare_eq_eq, bytesCmp_eq_iff as bs, List.cons.injEq]
    constructor
    · rintro ⟨h1, h2⟩
      exact ⟨UInt8.toNat_inj.mp h1, h2⟩
    · rintro ⟨h1, h2⟩
      exact ⟨by rw [h1], h2⟩

theorem bytesCmp_swap : ∀ a b : Bytes, bytesCmp b a = (bytesCmp a b).swap
  | [], [] => by simp [bytesCmp]
  | [], _ :: _ => by simp [bytesCmp]
  | _ :: _, [] => by simp [bytesCmp]
  | a :: as, b :: bs => by
    simp only [bytesCmp, swap_then', ← bytesCmp_swap as bs]
    rw [Nat.compare_swap]

theorem bytesCmp_trans : ∀ a b d : Bytes, bytesCmp a b = .lt → bytesCmp b d = .lt → bytesCmp a d = .lt
  | [], [], _ => by simp [bytesCmp]
  | [], _ :: _, [] => by simp [bytesCmp]
  | [], _ :: _, _ :: _ => by simp [bytesCmp]
  | _ :: _, [], _ => by simp [bytesCmp]
  | _ :: _, _ :: _, [] => by simp [bytesCmp]
  | a :: as, b :: bs, d :: ds => by
    simp only [bytesCmp, then_eq_lt', Nat.compare_eq_lt, Nat.compare_eq_eq]
    intro h1 h2
    rcases h1 with h1 | ⟨h1, h1'⟩ <;> rcases h2 with h2 | ⟨h2, h2'⟩
    · exact .inl (by omega)
    · exact .inl (by omega)
    · exact .inl (by omega)
    · exact .inr ⟨by omega, bytesCmp_trans as bs ds h1' h2'⟩

theorem bytesCmp_total : TotalCmp bytesCmp := ⟨bytesCmp_eq_iff, bytesCmp_swap, bytesCmp_trans⟩

/-- the key `cmp` compares by -/
def key (a : Addr) : Nat × (Bytes × Nat) := (a.port, (a.hostBytes, a.rank))

theorem key_inj (a b : Addr) (h : key a = key b) : a = b := by
  cases a <;> cases b <;> simp_all [key, port, hostBytes, rank]

theorem cmp_total : TotalCmp cmp :=
  TotalCmp.pullback key key_inj (natCmp_total.lex (bytesCmp_total.lex natCmp_total))

/-! ### a sorted table under a total comparison -/

def Sorted (c : Addr → Addr → Ordering) : List Addr → Prop
  | [] => True
  | x :: xs => (∀ y ∈ xs, c x y = .lt) ∧ Sorted c xs

theorem mem_insertSorted (c : Addr → Addr → Ordering) (hc : TotalCmp c) (k : Addr) : ∀ t, k ∈ insertSorted c k t
  | [] => by simp [insertSorted]
  | x :: xs => by
    unfold insertSorted
    split
    · simp
    · rename_i h
      rw [(hc.eq_iff _ _).mp h]
      simp
    · simp [mem_insertSorted c hc k xs]

theorem mem_insertSorted_of_mem (c : Addr → Addr → Ordering) (k y : Addr) : ∀ t, y ∈ t → y ∈ insertSorted c k t
  | [], h => by simp at h
  | x :: xs, h => by
    unfold insertSorted
    split
    · simp only [List.mem_cons] at *
      exact .inr h
    · exact h
    · simp only [List.mem_cons] at *
      rcases h with h | h
      · exact .inl h
      · exact .inr (mem_insertSorted_of_mem c k y xs h)

theorem mem_of_mem_insertSorted (c : Addr → Addr → Ordering) (k y : Addr) : ∀ t, y ∈ insertSorted c k t → y = k ∨ y ∈ t
  | [], h => by simpa [insertSorted] using h
  | x :: xs, h => by
    unfold insertSorted at h
    split at h
    · simp only [List.mem_cons] at *
      rcases h with h | h | h
      · exact .inl h
      · exact .inr (.inl h)
      · exact .inr (.inr h)
    · exact .inr h
    · simp only [List.mem_cons] at *
      rcases h with h | h
      · exact .inr (.inl h)
      · rcases mem_of_mem_insertSorted c k y xs h with h | h
        · exact .inl h
        · exact .inr (.inr h)

theorem sorted_insertSorted (c : Addr → Addr → Ordering) (hc : TotalCmp c) (k : Addr) :
    ∀ t, Sorted c t → Sorted c (insertSorted c k t)
  | [], _ => by simp [insertSorted, Sorted]
  | x :: xs, ⟨hx, hs⟩ => by
    unfold insertSorted
    split
    · rename_i hlt
      refine ⟨?_, hx, hs⟩
      intro y hy
      simp only [List.mem_cons] at hy
      rcases hy with hy | hy
      · rw [hy]
        exact hlt
      · exact hc.trans _ _ _ hlt (hx y hy)
    · exact ⟨hx, hs⟩
    · rename_i hgt
      refine ⟨?_, sorted_insertSorted c hc k xs hs⟩
      intro y hy
      rcases mem_of_mem_insertSorted c k y xs hy with hy | hy
      · rw [hy, hc.swap, hgt]
        rfl
      · exact hx y hy

theorem findSorted_of_mem (c : Addr → Addr → Ordering) (hc : TotalCmp c) (k : Addr) :
    ∀ t, Sorted c t → k ∈ t → findSorted c k t = true
  | [], _, h => by simp at h
  | x :: xs, ⟨hx, hs⟩, h => by
    unfold findSorted
    simp only [List.mem_cons] at h
    rcases h with h | h
    · rw [h, (hc.eq_iff x x).mpr rfl]
    · have hlt := hx k h
      have : c k x = .gt := by rw [hc.swap, hlt]; rfl
      rw [this]
      exact findSorted_of_mem c hc k xs hs h

/-- the table after a history of insertions -/
def build (c : Addr → Addr → Ordering) (ks : List Addr) : List Addr := ks.foldl (fun t k => insertSorted c k t) []

theorem build_spec (c : Addr → Addr → Ordering) (hc : TotalCmp c) (ks : List Addr) :
    Sorted c (build c ks) ∧ ∀ k ∈ ks, k ∈ build c ks := by
  unfold build
  suffices h : ∀ (t : List Addr), Sorted c t →
      Sorted c (ks.foldl (fun t k => insertSorted c k t) t) ∧
      (∀ k, k ∈ t ∨ k ∈ ks → k ∈ ks.foldl (fun t k => insertSorted c k t) t) by
    have := h [] (by simp [Sorted])
    exact ⟨this.1, fun k hk => this.2 k (.inr hk)⟩
  induction ks with
  | nil => intro t ht; exact ⟨ht, fun k hk => by simpa using hk⟩
  | cons x xs ih =>
    intro t ht
    have := ih (insertSorted c x t) (sorted_insertSorted c hc x t ht)
    refine ⟨this.1, fun k hk => this.2 k ?_⟩
    simp only [List.mem_cons] at hk
    rcases hk with hk | hk | hk
    · exact .inl (mem_insertSorted_of_mem c x k t hk)
    · rw [hk]
      exact .inl (mem_insertSorted c hc x t)
    · exact .inr hk

end Octo.Addr
