import Octo.Proofs.SsTcpGen
/-!
  `Octo.SsTcpGen` (generated from `codec/shadowsocks/tcp.rs`) against the hand model — server mode WITH identity header:
  `require_eih`, the 16 identity bytes split off the fixed header, `new_decoder_with_eih` (user looked up by the decrypted
  identity hash, `identity.user` set, the session key derived from THAT user's key), then the same tail as without.
-/
set_option linter.unusedSimpArgs false
set_option linter.unusedVariables false
namespace Octo.SsTcpGen
open Octo Octo.PWGen Octo.AddrGen

theorem findUser_map (m : List ServerUser) (h : Bytes) :
    Ss.findUser (m.map toUser) h = (m.find? (fun u => u.identity_hash = h)).map toUser := by
  unfold Ss.findUser
  rw [List.find?_map]
  rfl

theorem with_eih_eval (E : MEnv) (kind : CipherKind) (k : Ss.Kind) (hk : toKind kind = some k) (hse : k.supportEih = true)
    (key salt eih : Bytes) (identity : Identity) (m : List ServerUser) :
    (XM E).aead_2022_tcp_new_decoder_with_eih kind key salt eih identity m =
      match m.find? (fun u => u.identity_hash =
          E.C.aesDec ((E.C.blake3Derive Ss.identitySubkeyCtx (key ++ salt)).take k.alg.keyLen) (eih.take 16)) with
      | some u => PWGen.Res.ok ({ identity with user := some u }, RResult.ok ⟨auth2022 E.C k u.key salt, .Length⟩)
      | none => PWGen.Res.ok (identity, RResult.err) := by
  simp only [XM, hk, hse, if_true]
  rfl

theorem key_match (r : Option ServerUser) :
    (match r.map toUser with | some u => some (u.key, some u) | none => none) =
      (match r with | some u => some (u.key, some (toUser u)) | none => (none : Option (Bytes × Option Ss.User))) := by
  cases r <;> rfl

theorem ucount_pos (n : Nat) (h0 : 0 < n) (h : n < 2 ^ 64) : decide (UInt64.ofNat n > 0) = true := by
  rw [decide_eq_true_eq, gt_iff_lt, UInt64.lt_iff_toNat_lt, UInt64.toNat_ofNat_of_lt' (by simp [UInt64.size]; omega)]
  exact h0

theorem init2022_server_eih (ov : Bool) (E : MEnv) (k : Ss.Kind) (N : Usize) (self : AEADCipherCodec MT) (context : Context MT)
    (session : Session) (src : List UInt8) (m : List ServerUser)
    (hk : toKind context.kind = some k) (h22 : k.is2022 = true) (hN : N.toNat = k.n)
    (hm : session.mode = .Server)
    (hse : k.supportEih = true) (hum : context.user_manager = some m) (hm0 : 0 < m.length) (hm64 : m.length < 2 ^ 64)
    (hself : self.decoder = none)
    (hb : src.length < 2 ^ 64) (hn : k.n ≤ src.length) (hnow : E.now < 2 ^ 64)
    (hopen : ∀ a key n ad c p, E.C.openB a key n ad c = some p → c.length = p.length + 16) :
    ∃ out, AEADCipherCodec.init_aead_2022_payload_decoder ov (XM E) N self context session src = PWGen.Res.ok out ∧
      Agree E k self context session src out := by
  unfold AEADCipherCodec.init_aead_2022_payload_decoder
  have hmm : (toSess session).mode = .server := by simp [toSess, hm, toMode]
  have hR : Ss.requireEih (toCtx k context) (toSess session) = true := by
    simp only [Ss.requireEih, hmm, decide_true, Bool.true_and]
    show (k.supportEih && decide (((context.user_manager.getD []).map toUser).length > 0)) = true
    rw [List.length_map, hse, hum]; simpa using hm0
  have hR' := hR
  simp only [toCtx] at hR'
  have hus : (toCtx k context).users = m.map toUser := by simp [toCtx, hum]
  have hkk : (toCtx k context).kind = k := rfl
  simp only [tag_size_eval E _ k hk, call_ok, bind_next, hm, support_eih_eval ov _ k hk, user_count_eval, hse, hum,
    ucount_pos _ hm0 hm64]
  rcases kn_cases k N hN with ⟨rfl, hkn⟩ | ⟨rfl, hkn⟩
  · simp only [if_true, Bool.not_false, Bool.not_true, Bool.false_eq_true, if_false, bind_next, call_ok,
      U64.addOk, UInt64.reduceAdd, UInt64.reduceToNat, UInt64.reduceOfNat, Nat.reduceAdd, Nat.reducePow, Nat.reduceLT, decide_true, arith_true,
      remaining_lt src hb, ite_self]
    by_cases g1 : src.length < 59
    · simp only [g1, decide_true, if_true, bind_ret, run_ret]
      refine ⟨_, rfl, ?_⟩
      have hM : Ss.init2022 E.C (toCtx k context) (envOf E context.nonce_cache) ⟨none, toSess session⟩ src = .fail ⟨none, toSess session⟩ 0 := by
        simp only [Ss.init2022, hR, hR', hmm, if_true, Bool.false_eq_true, if_false, toCtx, hkn]
        rw [if_neg (by omega), if_pos (by omega)]
      exact ⟨by simp [hM, stepView, absRes, hself], by simp [hM, isTake], ⟨by simp [hm], rfl, rfl⟩,
        by simp [hM, cacheAfter, hR, hmm, hkn, g1]⟩
    · simp only [g1, decide_false, Bool.false_eq_true, if_false, bind_next, IoCursor.new, Cursor.len, List.length_replicate,
        UInt64.reduceOfNat]
      rw [io_slice_eval src 0 16 (by simp; omega)]
      simp only [bind_next, UInt64.reduceToNat, List.drop_zero, UInt64.reduceAdd]
      have hsne : src.take 16 ≠ [] := by
        intro h
        have h16 : (src.take 16).length = 16 := by rw [List.length_take]; omega
        rw [h] at h16; simp at h16
      rw [check_nonce_eval ov E 16 context (src.take 16) hsne]
      simp only [call_ok, bind_next]
      by_cases g2 : (SaltCache.get E.ttl E.nowMs context.nonce_cache (src.take 16)).1 = true
      · simp only [g2, if_true, bind_ret, run_ret]
        refine ⟨_, rfl, ?_⟩
        have hM : Ss.init2022 E.C (toCtx k context) (envOf E context.nonce_cache) ⟨none, toSess session⟩ src = .fail ⟨none, toSess session⟩ 0 := by
          simp only [Ss.init2022, hR, hR', hmm, if_true, Bool.false_eq_true, if_false, toCtx, hkn]
          rw [if_neg (by omega), if_neg (by omega), if_pos (by simpa [envOf] using g2)]
        exact ⟨by simp [hM, stepView, absRes, hself], by simp [hM, isTake], ⟨by simp [hm], rfl, rfl⟩,
          by simp [hM, cacheAfter, hR, hmm, hkn, g1, hum]⟩
      · simp only [g2, Bool.false_eq_true, if_false, bind_next]
        rw [io_bytes_eval src 16 43 (by simp; omega)]
        have hlt : ((src.drop 16).take 43).length = 43 := by rw [List.length_take, List.length_drop]; omega
        simp only [bind_next, UInt64.reduceToNat, UInt64.reduceAdd, if_true]
        rw [split_to_eval ((src.drop 16).take 43) 16 (by simp only [UInt64.reduceToNat]; omega)]
        simp only [bind_next, hum, unwrap_some, UInt64.reduceToNat, with_eih_eval E _ k hk hse, List.take_take, (by decide : min 16 (min 16 43) = 16)]
        have g2' : (envOf E context.nonce_cache).saltSeen (src.take 16) = false := by simpa [envOf] using g2
        have hld : (((src.drop 16).take 43).drop 16).length = 27 := by rw [List.length_drop, hlt]
        -- the model's key selection
        have hKey : ∀ s : Ss.Sess, Ss.init2022Key E.C (toCtx k context) s true
            (src.take 16) ((src.drop 16).take 43) =
            (match m.find? (fun u => u.identity_hash = E.C.aesDec ((E.C.blake3Derive Ss.identitySubkeyCtx
                (context.key ++ src.take 16)).take k.alg.keyLen) (((src.drop 16).take 43).take 16)) with
             | some u => some (u.key, some (toUser u))
             | none => none) := by
          intro s
          simp only [Ss.init2022Key, if_true, hus, findUser_map]
          exact key_match _
        have htt : ((src.drop 16).take 43).take 16 = (src.drop 16).take 16 := by rw [List.take_take]; rfl
        rw [htt] at hKey
        cases hf : m.find? (fun u => u.identity_hash = E.C.aesDec ((E.C.blake3Derive Ss.identitySubkeyCtx
            (context.key ++ src.take 16)).take k.alg.keyLen) ((src.drop 16).take 16)) with
        | none =>
          rw [hf] at hKey
          simp only [call_ok, bind_next, q_err, bind_ret, run_ret]
          refine ⟨_, rfl, ?_⟩
          have hM : Ss.init2022 E.C (toCtx k context) (envOf E context.nonce_cache) ⟨none, toSess session⟩ src =
              .fail ⟨none, { toSess session with requestSalt := some (src.take 16) }⟩ 0 := by
            simp only [Ss.init2022, hR, hmm, if_true, hkk, hkn, Nat.reduceAdd]
            rw [if_neg (by omega), if_neg (by omega), if_neg (by simp [g2'])]
            simp only [hKey]
          exact ⟨by simp [hM, stepView, absRes, hself], by simp [hM, isTake], ⟨by simp [hm], rfl, rfl⟩,
            by simp [hM, cacheAfter, hR, hmm, hkn, g1, hum]⟩
        | some u =>
          rw [hf] at hKey
          simp only [call_ok, bind_next, q_ok, open_eval]
          -- the model up to the open of the fixed header, under the user's key
          have hMk : Ss.init2022 E.C (toCtx k context) (envOf E context.nonce_cache) ⟨none, toSess session⟩ src =
              (match Ss.Auth.openB E.C (auth2022 E.C k u.key (src.take 16)) (((src.drop 16).take 43).drop 16) with
               | (none, _) => .fail ⟨none, { toSess session with requestSalt := some (src.take 16), user := some (toUser u) }⟩ 0
               | (some h, a) => Ss.init2022Tail E.C (envOf E context.nonce_cache)
                   ⟨none, { toSess session with requestSalt := some (src.take 16), user := some (toUser u) }⟩
                   { toSess session with requestSalt := some (src.take 16), user := some (toUser u) } src 16 43 0 (src.take 16) a h) := by
            simp only [Ss.init2022, hR, hmm, if_true, hkk, hkn, Nat.reduceAdd]
            rw [if_neg (by omega), if_neg (by omega), if_neg (by simp [g2'])]
            simp only [hKey, newAuth_2022 _ _ _ _ h22]
            rfl
          cases hop : Ss.Auth.openB E.C (auth2022 E.C k u.key (src.take 16)) (((src.drop 16).take 43).drop 16) with
          | mk o a1 =>
          cases o with
          | none =>
            simp only [call_ok, bind_next, q_err, bind_ret, run_ret]
            refine ⟨_, rfl, ?_⟩
            have hM := hMk
            rw [hop] at hM
            exact ⟨by simp [hM, stepView, absRes, hself], by simp [hM, isTake], ⟨by simp [hm], rfl, rfl⟩,
              by simp [hM, cacheAfter, hR, hmm, hkn, g1, hum]⟩
          | some h =>
            have hl : h.length = 11 := by
              have := hopen _ _ _ _ _ _ (congrArg Prod.fst hop)
              omega
            simp only [call_ok, bind_next, q_ok]
            rw [get_u8_eval h (by omega)]
            simp only [bind_next, expect_u8_eval, call_ok, toMode, Ss.Mode.expectU8]
            have hM0 : Ss.init2022 E.C (toCtx k context) (envOf E context.nonce_cache) ⟨none, toSess session⟩ src =
                Ss.init2022Tail E.C (envOf E context.nonce_cache) ⟨none, { toSess session with requestSalt := some (src.take 16), user := some (toUser u) }⟩
                  { toSess session with requestSalt := some (src.take 16), user := some (toUser u) } src 16 43 0 (src.take 16) a1 h := by
              rw [hMk]; simp only [hop]
            have hs1 : ({ toSess session with requestSalt := some (src.take 16), user := some (toUser u) } : Ss.Sess).mode = .server := hmm
            by_cases g3 : h.headD 0 = 0
            · simp only [g3, bne_self_eq_false, Bool.false_eq_true, if_false, bind_next]
              rw [get_u64_eval (h.drop 1) (by rw [List.length_drop]; omega)]
              simp only [bind_next, validate_timestamp_eval ov E _ hnow, call_ok, u64_of_be8]
              by_cases g4 : Ss.absDiff E.now (rdBE ((h.drop 1).take 8)) > Consts.ssMaxTimeDiff
              · simp only [g4, if_true, q_err, bind_ret, run_ret]
                refine ⟨_, rfl, ?_⟩
                have hM : Ss.init2022 E.C (toCtx k context) (envOf E context.nonce_cache) ⟨none, toSess session⟩ src =
                    .fail ⟨none, { toSess session with requestSalt := some (src.take 16), user := some (toUser u) }⟩ 0 := by
                  rw [hM0]; simp only [Ss.init2022Tail, hmm, envOf]; rw [if_neg (fun hne => hne g3), if_pos g4]
                exact ⟨by simp [hM, stepView, absRes, hself], by simp [hM, isTake], ⟨by simp [hm], rfl, rfl⟩,
                  by simp [hM, cacheAfter, hR, hmm, hkn, g1, hum]⟩
              · simp only [g4, if_false, q_ok, bind_next, Bool.false_eq_true]
                rw [get_u16_eval ((h.drop 1).drop 8) (by simp only [List.length_drop]; omega)]
                simp only [bind_next]
                rw [io_remaining_ge src 59 _ hb]
                simp only [addOk_u16, addOk_u16', arith_true, bind_next, len_add16, UInt64.reduceToNat, List.drop_drop, Nat.reduceAdd]
                have hdl : (src.drop 59).length = src.length - 59 := List.length_drop
                by_cases g5 : (src.drop 59).length < rdBE ((h.drop 9).take 2) + 16
                · have e5 : ¬ (rdBE ((h.drop 9).take 2) + 16 ≤ src.length - 59) := by omega
                  simp only [e5, decide_false, Bool.false_eq_true, if_false, bind_next, run_ret]
                  refine ⟨_, rfl, ?_⟩
                  have hM : Ss.init2022 E.C (toCtx k context) (envOf E context.nonce_cache) ⟨none, toSess session⟩ src = .need := by
                    rw [hM0]; simp only [Ss.init2022Tail, hmm, envOf]
                    rw [if_neg (fun hne => hne g3), if_neg g4, if_neg (by simp), if_pos g5]
                  exact ⟨by simp [hM, stepView, absRes, hself], by simp [hM, isTake], ⟨by simp [hm], rfl, rfl⟩,
                    by simp [hM, cacheAfter, hkn, hum]⟩
                · have e5 : (rdBE ((h.drop 9).take 2) + 16 ≤ src.length - 59) := by omega
                  simp only [e5, decide_true, if_true, set_nonce_eval, call_ok, bind_next,
                    insert_after_get _ _ _ _ _ (by simpa using g2), Bool.not_false, Bool.not_true, Bool.false_eq_true, if_false,
                    IoCursor.position, U64.as_usize]
                  rw [advance_eval src 59 (by simp; omega)]
                  simp only [bind_next, addOk_u16, addOk_u16', arith_true, UInt64.reduceToNat]
                  rw [split_to_eval (src.drop 59) _ (by rw [len_add16]; omega)]
                  simp only [bind_next, len_add16, List.drop_drop, open_eval]
                  have g2f : (SaltCache.get E.ttl E.nowMs context.nonce_cache (src.take 16)).1 = false := by simpa using g2
                  have hMt : Ss.init2022 E.C (toCtx k context) (envOf E context.nonce_cache) ⟨none, toSess session⟩ src =
                      (match Ss.Auth.openB E.C a1 ((src.drop 59).take (rdBE ((h.drop 9).take 2) + 16)) with
                       | (none, _) => .fail ⟨none, { toSess session with requestSalt := some (src.take 16), user := some (toUser u) }⟩
                           (16 + 43 + rdBE ((h.drop 9).take 2) + 16)
                       | (some via, a) =>
                         if (toSess session).address.isNone then
                           match Socks5Addr.decode via with
                           | .ok (addr, via) =>
                             if via.length < 2 then .fail ⟨some ⟨a, .length⟩, { toSess session with requestSalt := some (src.take 16), user := some (toUser u) }⟩
                               (16 + 43 + rdBE ((h.drop 9).take 2) + 16) else
                             if via.length < 2 + rdBE (via.take 2) then
                               .fail ⟨some ⟨a, .length⟩, { toSess session with requestSalt := some (src.take 16), user := some (toUser u) }⟩
                                 (16 + 43 + rdBE ((h.drop 9).take 2) + 16) else
                             .take ⟨some ⟨a, .length⟩, { toSess session with requestSalt := some (src.take 16), user := some (toUser u), address := some addr }⟩
                               (16 + 43 + rdBE ((h.drop 9).take 2) + 16)
                               (.accepted (src.take 16) :: (via.drop (2 + rdBE (via.take 2))).map .byte)
                           | _ => .fail ⟨some ⟨a, .length⟩, { toSess session with requestSalt := some (src.take 16), user := some (toUser u) }⟩
                               (16 + 43 + rdBE ((h.drop 9).take 2) + 16)
                         else .take ⟨some ⟨a, .length⟩, { toSess session with requestSalt := some (src.take 16), user := some (toUser u) }⟩
                           (16 + 43 + rdBE ((h.drop 9).take 2) + 16) (.accepted (src.take 16) :: via.map .byte)) := by
                    rw [hM0]; simp only [Ss.init2022Tail, hmm, envOf]
                    rw [if_neg (fun hne => hne g3), if_neg g4, if_neg (by simp), if_neg g5]
                    simp only [Nat.add_zero, Nat.reduceAdd, reduceCtorEq, if_false, true_and]
                    rfl
                  have hc : 59 + (rdBE ((h.drop 9).take 2) + 16) = 16 + 43 + rdBE ((h.drop 9).take 2) + 16 := by omega
                  rw [hc]
                  have hctl : ((src.drop 59).take (rdBE ((h.drop 9).take 2) + 16)).length = rdBE ((h.drop 9).take 2) + 16 := by
                    rw [List.length_take]; omega
                  have hL : rdBE ((h.drop 9).take 2) < 65536 := beNat_take_lt (h.drop 9) 2
                  cases hop2 : Ss.Auth.openB E.C a1 ((src.drop 59).take (rdBE ((h.drop 9).take 2) + 16)) with
                  | mk o2 a2 =>
                  rw [hop2] at hMt
                  cases o2 with
                  | none =>
                    simp only [call_ok, bind_next, q_err, bind_ret, run_ret]
                    refine ⟨_, rfl, ?_⟩
                    exact ⟨by simp [hMt, stepView, absRes, hself], by simp [hMt, isTake], ⟨by simp [hm], rfl, rfl⟩,
                      by rw [hMt, cacheAfter_fail_pos _ _ _ _ _ _ (by omega), hkn] <;> simp [hum]⟩
                  | some via =>
                    have hvl : via.length < 65536 := by
                      have := hopen _ _ _ _ _ _ (congrArg Prod.fst hop2)
                      omega
                    simp only [call_ok, bind_next, q_ok, Bool.true_and]
                    cases hadr : session.address with
                    | some ad =>
                      have hta : (toSess session).address = some (toAddr ad) := by simp [toSess, hadr]
                      simp only [hta, Option.isNone_some, Bool.false_eq_true, if_false] at hMt
                      simp only [Option.isNone_some, Bool.false_eq_true, if_false, bind_next, run_ret]
                      refine ⟨_, rfl, ?_⟩
                      exact ⟨by simp [hMt, stepView, absRes, toCD, toState, hkn], by intro _; rw [hMt]; simp [stepView, toSess, hm, hadr, toMode, toUser],
                        ⟨by simp [hm], rfl, rfl⟩, by rw [hMt]; simp [cacheAfter, hkn, hum]⟩
                    | none =>
                      have hta : (toSess session).address = none := by simp [toSess, hadr]
                      simp only [hta, Option.isNone_none, if_true] at hMt
                      simp only [Option.isNone_none, if_true]
                      have hde := decode_eq ov via (Nat.lt_trans hvl (by decide))
                      cases hdc : AddrGen.decode ov via with
                      | panic =>
                        rw [hdc] at hde
                        exact absurd hde.symm (c14_socks5_decode_total via)
                      | ok r =>
                        obtain ⟨b', ra⟩ := r
                        cases ra with
                        | err =>
                          rw [hdc] at hde
                          simp only [embedDecode] at hde
                          rw [← hde] at hMt
                          simp only [call_ok, bind_next, q_err, bind_ret, run_ret]
                          refine ⟨_, rfl, ?_⟩
                          exact ⟨by simp [hMt, stepView, absRes, toCD, toState], by simp [hMt, isTake],
                            ⟨by simp [hm], rfl, rfl⟩, by rw [hMt, cacheAfter_fail_pos _ _ _ _ _ _ (by omega), hkn] <;> simp [hum]⟩
                        | ok a =>
                          rw [hdc] at hde
                          simp only [embedDecode] at hde
                          rw [← hde] at hMt
                          simp only [] at hMt
                          have hb' : b'.length < 2 ^ 64 := by
                            have := model_decode_rest_le via b' (toAddr a) hde.symm
                            omega
                          simp only [call_ok, bind_next, q_ok, remaining_lt b' hb', UInt64.reduceToNat]
                          by_cases p1 : b'.length < 2
                          · simp only [p1, if_true] at hMt
                            simp only [p1, decide_true, if_true, bind_ret, run_ret]
                            refine ⟨_, rfl, ?_⟩
                            exact ⟨by simp [hMt, stepView, absRes, toCD, toState], by simp [hMt, isTake],
                              ⟨by simp [hm], rfl, rfl⟩, by rw [hMt, cacheAfter_fail_pos _ _ _ _ _ _ (by omega), hkn] <;> simp [hum]⟩
                          · simp only [p1, if_false] at hMt
                            simp only [p1, decide_false, Bool.false_eq_true, if_false, bind_next]
                            rw [get_u16_eval b' (by omega)]
                            have hb2 : (b'.drop 2).length < 2 ^ 64 := by rw [List.length_drop]; omega
                            simp only [bind_next, remaining_lt _ hb2, u16_len]
                            have hd2 : (b'.drop 2).length = b'.length - 2 := List.length_drop
                            by_cases p2 : (b'.drop 2).length < rdBE (b'.take 2)
                            · rw [if_pos (by omega)] at hMt
                              simp only [p2, decide_true, if_true, bind_ret, run_ret]
                              refine ⟨_, rfl, ?_⟩
                              exact ⟨by simp [hMt, stepView, absRes, toCD, toState], by simp [hMt, isTake],
                                ⟨by simp [hm], rfl, rfl⟩, by rw [hMt, cacheAfter_fail_pos _ _ _ _ _ _ (by omega), hkn] <;> simp [hum]⟩
                            · rw [if_neg (by omega)] at hMt
                              simp only [p2, decide_false, Bool.false_eq_true, if_false, bind_next]
                              rw [advance_eval (b'.drop 2) _ (by rw [u16_len]; omega)]
                              simp only [bind_next, u16_len, List.drop_drop, run_ret]
                              refine ⟨_, rfl, ?_⟩
                              exact ⟨by simp [hMt, stepView, absRes, toCD, toState, hkn],
                                by intro _; rw [hMt]; simp [stepView, toSess, hm, hadr, toMode, toUser],
                                ⟨by simp [hm], rfl, rfl⟩, by rw [hMt]; simp [cacheAfter, hkn, hum]⟩
            · have g3' : (h.headD 0 != 0) = true := by simpa using g3
              simp only [g3', if_true, bind_ret, run_ret]
              refine ⟨_, rfl, ?_⟩
              have hM : Ss.init2022 E.C (toCtx k context) (envOf E context.nonce_cache) ⟨none, toSess session⟩ src =
                  .fail ⟨none, { toSess session with requestSalt := some (src.take 16), user := some (toUser u) }⟩ 0 := by
                rw [hM0]; simp only [Ss.init2022Tail, hmm, envOf]; rw [if_pos (show h.headD 0 ≠ Ss.Mode.server.expectU8 from g3)]
              exact ⟨by simp [hM, stepView, absRes, hself], by simp [hM, isTake], ⟨by simp [hm], rfl, rfl⟩,
                by simp [hM, cacheAfter, hR, hmm, hkn, g1, hum]⟩
  · simp only [if_true, Bool.not_false, Bool.not_true, Bool.false_eq_true, if_false, bind_next, call_ok,
      U64.addOk, UInt64.reduceAdd, UInt64.reduceToNat, UInt64.reduceOfNat, Nat.reduceAdd, Nat.reducePow, Nat.reduceLT, decide_true, arith_true,
      remaining_lt src hb, ite_self]
    by_cases g1 : src.length < 75
    · simp only [g1, decide_true, if_true, bind_ret, run_ret]
      refine ⟨_, rfl, ?_⟩
      have hM : Ss.init2022 E.C (toCtx k context) (envOf E context.nonce_cache) ⟨none, toSess session⟩ src = .fail ⟨none, toSess session⟩ 0 := by
        simp only [Ss.init2022, hR, hR', hmm, if_true, Bool.false_eq_true, if_false, toCtx, hkn]
        rw [if_neg (by omega), if_pos (by omega)]
      exact ⟨by simp [hM, stepView, absRes, hself], by simp [hM, isTake], ⟨by simp [hm], rfl, rfl⟩,
        by simp [hM, cacheAfter, hR, hmm, hkn, g1]⟩
    · simp only [g1, decide_false, Bool.false_eq_true, if_false, bind_next, IoCursor.new, Cursor.len, List.length_replicate,
        UInt64.reduceOfNat]
      rw [io_slice_eval src 0 32 (by simp; omega)]
      simp only [bind_next, UInt64.reduceToNat, List.drop_zero, UInt64.reduceAdd]
      have hsne : src.take 32 ≠ [] := by
        intro h
        have h32 : (src.take 32).length = 32 := by rw [List.length_take]; omega
        rw [h] at h32; simp at h32
      rw [check_nonce_eval ov E 32 context (src.take 32) hsne]
      simp only [call_ok, bind_next]
      by_cases g2 : (SaltCache.get E.ttl E.nowMs context.nonce_cache (src.take 32)).1 = true
      · simp only [g2, if_true, bind_ret, run_ret]
        refine ⟨_, rfl, ?_⟩
        have hM : Ss.init2022 E.C (toCtx k context) (envOf E context.nonce_cache) ⟨none, toSess session⟩ src = .fail ⟨none, toSess session⟩ 0 := by
          simp only [Ss.init2022, hR, hR', hmm, if_true, Bool.false_eq_true, if_false, toCtx, hkn]
          rw [if_neg (by omega), if_neg (by omega), if_pos (by simpa [envOf] using g2)]
        exact ⟨by simp [hM, stepView, absRes, hself], by simp [hM, isTake], ⟨by simp [hm], rfl, rfl⟩,
          by simp [hM, cacheAfter, hR, hmm, hkn, g1, hum]⟩
      · simp only [g2, Bool.false_eq_true, if_false, bind_next]
        rw [io_bytes_eval src 32 43 (by simp; omega)]
        have hlt : ((src.drop 32).take 43).length = 43 := by rw [List.length_take, List.length_drop]; omega
        simp only [bind_next, UInt64.reduceToNat, UInt64.reduceAdd, if_true]
        rw [split_to_eval ((src.drop 32).take 43) 16 (by simp only [UInt64.reduceToNat]; omega)]
        simp only [bind_next, hum, unwrap_some, UInt64.reduceToNat, with_eih_eval E _ k hk hse, List.take_take, (by decide : min 16 (min 16 43) = 16)]
        have g2' : (envOf E context.nonce_cache).saltSeen (src.take 32) = false := by simpa [envOf] using g2
        have hld : (((src.drop 32).take 43).drop 16).length = 27 := by rw [List.length_drop, hlt]
        -- the model's key selection
        have hKey : ∀ s : Ss.Sess, Ss.init2022Key E.C (toCtx k context) s true
            (src.take 32) ((src.drop 32).take 43) =
            (match m.find? (fun u => u.identity_hash = E.C.aesDec ((E.C.blake3Derive Ss.identitySubkeyCtx
                (context.key ++ src.take 32)).take k.alg.keyLen) (((src.drop 32).take 43).take 16)) with
             | some u => some (u.key, some (toUser u))
             | none => none) := by
          intro s
          simp only [Ss.init2022Key, if_true, hus, findUser_map]
          exact key_match _
        have htt : ((src.drop 32).take 43).take 16 = (src.drop 32).take 16 := by rw [List.take_take]; rfl
        rw [htt] at hKey
        cases hf : m.find? (fun u => u.identity_hash = E.C.aesDec ((E.C.blake3Derive Ss.identitySubkeyCtx
            (context.key ++ src.take 32)).take k.alg.keyLen) ((src.drop 32).take 16)) with
        | none =>
          rw [hf] at hKey
          simp only [call_ok, bind_next, q_err, bind_ret, run_ret]
          refine ⟨_, rfl, ?_⟩
          have hM : Ss.init2022 E.C (toCtx k context) (envOf E context.nonce_cache) ⟨none, toSess session⟩ src =
              .fail ⟨none, { toSess session with requestSalt := some (src.take 32) }⟩ 0 := by
            simp only [Ss.init2022, hR, hmm, if_true, hkk, hkn, Nat.reduceAdd]
            rw [if_neg (by omega), if_neg (by omega), if_neg (by simp [g2'])]
            simp only [hKey]
          exact ⟨by simp [hM, stepView, absRes, hself], by simp [hM, isTake], ⟨by simp [hm], rfl, rfl⟩,
            by simp [hM, cacheAfter, hR, hmm, hkn, g1, hum]⟩
        | some u =>
          rw [hf] at hKey
          simp only [call_ok, bind_next, q_ok, open_eval]
          -- the model up to the open of the fixed header, under the user's key
          have hMk : Ss.init2022 E.C (toCtx k context) (envOf E context.nonce_cache) ⟨none, toSess session⟩ src =
              (match Ss.Auth.openB E.C (auth2022 E.C k u.key (src.take 32)) (((src.drop 32).take 43).drop 16) with
               | (none, _) => .fail ⟨none, { toSess session with requestSalt := some (src.take 32), user := some (toUser u) }⟩ 0
               | (some h, a) => Ss.init2022Tail E.C (envOf E context.nonce_cache)
                   ⟨none, { toSess session with requestSalt := some (src.take 32), user := some (toUser u) }⟩
                   { toSess session with requestSalt := some (src.take 32), user := some (toUser u) } src 32 43 0 (src.take 32) a h) := by
            simp only [Ss.init2022, hR, hmm, if_true, hkk, hkn, Nat.reduceAdd]
            rw [if_neg (by omega), if_neg (by omega), if_neg (by simp [g2'])]
            simp only [hKey, newAuth_2022 _ _ _ _ h22]
            rfl
          cases hop : Ss.Auth.openB E.C (auth2022 E.C k u.key (src.take 32)) (((src.drop 32).take 43).drop 16) with
          | mk o a1 =>
          cases o with
          | none =>
            simp only [call_ok, bind_next, q_err, bind_ret, run_ret]
            refine ⟨_, rfl, ?_⟩
            have hM := hMk
            rw [hop] at hM
            exact ⟨by simp [hM, stepView, absRes, hself], by simp [hM, isTake], ⟨by simp [hm], rfl, rfl⟩,
              by simp [hM, cacheAfter, hR, hmm, hkn, g1, hum]⟩
          | some h =>
            have hl : h.length = 11 := by
              have := hopen _ _ _ _ _ _ (congrArg Prod.fst hop)
              omega
            simp only [call_ok, bind_next, q_ok]
            rw [get_u8_eval h (by omega)]
            simp only [bind_next, expect_u8_eval, call_ok, toMode, Ss.Mode.expectU8]
            have hM0 : Ss.init2022 E.C (toCtx k context) (envOf E context.nonce_cache) ⟨none, toSess session⟩ src =
                Ss.init2022Tail E.C (envOf E context.nonce_cache) ⟨none, { toSess session with requestSalt := some (src.take 32), user := some (toUser u) }⟩
                  { toSess session with requestSalt := some (src.take 32), user := some (toUser u) } src 32 43 0 (src.take 32) a1 h := by
              rw [hMk]; simp only [hop]
            have hs1 : ({ toSess session with requestSalt := some (src.take 32), user := some (toUser u) } : Ss.Sess).mode = .server := hmm
            by_cases g3 : h.headD 0 = 0
            · simp only [g3, bne_self_eq_false, Bool.false_eq_true, if_false, bind_next]
              rw [get_u64_eval (h.drop 1) (by rw [List.length_drop]; omega)]
              simp only [bind_next, validate_timestamp_eval ov E _ hnow, call_ok, u64_of_be8]
              by_cases g4 : Ss.absDiff E.now (rdBE ((h.drop 1).take 8)) > Consts.ssMaxTimeDiff
              · simp only [g4, if_true, q_err, bind_ret, run_ret]
                refine ⟨_, rfl, ?_⟩
                have hM : Ss.init2022 E.C (toCtx k context) (envOf E context.nonce_cache) ⟨none, toSess session⟩ src =
                    .fail ⟨none, { toSess session with requestSalt := some (src.take 32), user := some (toUser u) }⟩ 0 := by
                  rw [hM0]; simp only [Ss.init2022Tail, hmm, envOf]; rw [if_neg (fun hne => hne g3), if_pos g4]
                exact ⟨by simp [hM, stepView, absRes, hself], by simp [hM, isTake], ⟨by simp [hm], rfl, rfl⟩,
                  by simp [hM, cacheAfter, hR, hmm, hkn, g1, hum]⟩
              · simp only [g4, if_false, q_ok, bind_next, Bool.false_eq_true]
                rw [get_u16_eval ((h.drop 1).drop 8) (by simp only [List.length_drop]; omega)]
                simp only [bind_next]
                rw [io_remaining_ge src 75 _ hb]
                simp only [addOk_u16, addOk_u16', arith_true, bind_next, len_add16, UInt64.reduceToNat, List.drop_drop, Nat.reduceAdd]
                have hdl : (src.drop 75).length = src.length - 75 := List.length_drop
                by_cases g5 : (src.drop 75).length < rdBE ((h.drop 9).take 2) + 16
                · have e5 : ¬ (rdBE ((h.drop 9).take 2) + 16 ≤ src.length - 75) := by omega
                  simp only [e5, decide_false, Bool.false_eq_true, if_false, bind_next, run_ret]
                  refine ⟨_, rfl, ?_⟩
                  have hM : Ss.init2022 E.C (toCtx k context) (envOf E context.nonce_cache) ⟨none, toSess session⟩ src = .need := by
                    rw [hM0]; simp only [Ss.init2022Tail, hmm, envOf]
                    rw [if_neg (fun hne => hne g3), if_neg g4, if_neg (by simp), if_pos g5]
                  exact ⟨by simp [hM, stepView, absRes, hself], by simp [hM, isTake], ⟨by simp [hm], rfl, rfl⟩,
                    by simp [hM, cacheAfter, hkn, hum]⟩
                · have e5 : (rdBE ((h.drop 9).take 2) + 16 ≤ src.length - 75) := by omega
                  simp only [e5, decide_true, if_true, set_nonce_eval, call_ok, bind_next,
                    insert_after_get _ _ _ _ _ (by simpa using g2), Bool.not_false, Bool.not_true, Bool.false_eq_true, if_false,
                    IoCursor.position, U64.as_usize]
                  rw [advance_eval src 75 (by simp; omega)]
                  simp only [bind_next, addOk_u16, addOk_u16', arith_true, UInt64.reduceToNat]
                  rw [split_to_eval (src.drop 75) _ (by rw [len_add16]; omega)]
                  simp only [bind_next, len_add16, List.drop_drop, open_eval]
                  have g2f : (SaltCache.get E.ttl E.nowMs context.nonce_cache (src.take 32)).1 = false := by simpa using g2
                  have hMt : Ss.init2022 E.C (toCtx k context) (envOf E context.nonce_cache) ⟨none, toSess session⟩ src =
                      (match Ss.Auth.openB E.C a1 ((src.drop 75).take (rdBE ((h.drop 9).take 2) + 16)) with
                       | (none, _) => .fail ⟨none, { toSess session with requestSalt := some (src.take 32), user := some (toUser u) }⟩
                           (32 + 43 + rdBE ((h.drop 9).take 2) + 16)
                       | (some via, a) =>
                         if (toSess session).address.isNone then
                           match Socks5Addr.decode via with
                           | .ok (addr, via) =>
                             if via.length < 2 then .fail ⟨some ⟨a, .length⟩, { toSess session with requestSalt := some (src.take 32), user := some (toUser u) }⟩
                               (32 + 43 + rdBE ((h.drop 9).take 2) + 16) else
                             if via.length < 2 + rdBE (via.take 2) then
                               .fail ⟨some ⟨a, .length⟩, { toSess session with requestSalt := some (src.take 32), user := some (toUser u) }⟩
                                 (32 + 43 + rdBE ((h.drop 9).take 2) + 16) else
                             .take ⟨some ⟨a, .length⟩, { toSess session with requestSalt := some (src.take 32), user := some (toUser u), address := some addr }⟩
                               (32 + 43 + rdBE ((h.drop 9).take 2) + 16)
                               (.accepted (src.take 32) :: (via.drop (2 + rdBE (via.take 2))).map .byte)
                           | _ => .fail ⟨some ⟨a, .length⟩, { toSess session with requestSalt := some (src.take 32), user := some (toUser u) }⟩
                               (32 + 43 + rdBE ((h.drop 9).take 2) + 16)
                         else .take ⟨some ⟨a, .length⟩, { toSess session with requestSalt := some (src.take 32), user := some (toUser u) }⟩
                           (32 + 43 + rdBE ((h.drop 9).take 2) + 16) (.accepted (src.take 32) :: via.map .byte)) := by
                    rw [hM0]; simp only [Ss.init2022Tail, hmm, envOf]
                    rw [if_neg (fun hne => hne g3), if_neg g4, if_neg (by simp), if_neg g5]
                    simp only [Nat.add_zero, Nat.reduceAdd, reduceCtorEq, if_false, true_and]
                    rfl
                  have hc : 75 + (rdBE ((h.drop 9).take 2) + 16) = 32 + 43 + rdBE ((h.drop 9).take 2) + 16 := by omega
                  rw [hc]
                  have hctl : ((src.drop 75).take (rdBE ((h.drop 9).take 2) + 16)).length = rdBE ((h.drop 9).take 2) + 16 := by
                    rw [List.length_take]; omega
                  have hL : rdBE ((h.drop 9).take 2) < 65536 := beNat_take_lt (h.drop 9) 2
                  cases hop2 : Ss.Auth.openB E.C a1 ((src.drop 75).take (rdBE ((h.drop 9).take 2) + 16)) with
                  | mk o2 a2 =>
                  rw [hop2] at hMt
                  cases o2 with
                  | none =>
                    simp only [call_ok, bind_next, q_err, bind_ret, run_ret]
                    refine ⟨_, rfl, ?_⟩
                    exact ⟨by simp [hMt, stepView, absRes, hself], by simp [hMt, isTake], ⟨by simp [hm], rfl, rfl⟩,
                      by rw [hMt, cacheAfter_fail_pos _ _ _ _ _ _ (by omega), hkn] <;> simp [hum]⟩
                  | some via =>
                    have hvl : via.length < 65536 := by
                      have := hopen _ _ _ _ _ _ (congrArg Prod.fst hop2)
                      omega
                    simp only [call_ok, bind_next, q_ok, Bool.true_and]
                    cases hadr : session.address with
                    | some ad =>
                      have hta : (toSess session).address = some (toAddr ad) := by simp [toSess, hadr]
                      simp only [hta, Option.isNone_some, Bool.false_eq_true, if_false] at hMt
                      simp only [Option.isNone_some, Bool.false_eq_true, if_false, bind_next, run_ret]
                      refine ⟨_, rfl, ?_⟩
                      exact ⟨by simp [hMt, stepView, absRes, toCD, toState, hkn], by intro _; rw [hMt]; simp [stepView, toSess, hm, hadr, toMode, toUser],
                        ⟨by simp [hm], rfl, rfl⟩, by rw [hMt]; simp [cacheAfter, hkn, hum]⟩
                    | none =>
                      have hta : (toSess session).address = none := by simp [toSess, hadr]
                      simp only [hta, Option.isNone_none, if_true] at hMt
                      simp only [Option.isNone_none, if_true]
                      have hde := decode_eq ov via (Nat.lt_trans hvl (by decide))
                      cases hdc : AddrGen.decode ov via with
                      | panic =>
                        rw [hdc] at hde
                        exact absurd hde.symm (c14_socks5_decode_total via)
                      | ok r =>
                        obtain ⟨b', ra⟩ := r
                        cases ra with
                        | err =>
                          rw [hdc] at hde
                          simp only [embedDecode] at hde
                          rw [← hde] at hMt
                          simp only [call_ok, bind_next, q_err, bind_ret, run_ret]
                          refine ⟨_, rfl, ?_⟩
                          exact ⟨by simp [hMt, stepView, absRes, toCD, toState], by simp [hMt, isTake],
                            ⟨by simp [hm], rfl, rfl⟩, by rw [hMt, cacheAfter_fail_pos _ _ _ _ _ _ (by omega), hkn] <;> simp [hum]⟩
                        | ok a =>
                          rw [hdc] at hde
                          simp only [embedDecode] at hde
                          rw [← hde] at hMt
                          simp only [] at hMt
                          have hb' : b'.length < 2 ^ 64 := by
                            have := model_decode_rest_le via b' (toAddr a) hde.symm
                            omega
                          simp only [call_ok, bind_next, q_ok, remaining_lt b' hb', UInt64.reduceToNat]
                          by_cases p1 : b'.length < 2
                          · simp only [p1, if_true] at hMt
                            simp only [p1, decide_true, if_true, bind_ret, run_ret]
                            refine ⟨_, rfl, ?_⟩
                            exact ⟨by simp [hMt, stepView, absRes, toCD, toState], by simp [hMt, isTake],
                              ⟨by simp [hm], rfl, rfl⟩, by rw [hMt, cacheAfter_fail_pos _ _ _ _ _ _ (by omega), hkn] <;> simp [hum]⟩
                          · simp only [p1, if_false] at hMt
                            simp only [p1, decide_false, Bool.false_eq_true, if_false, bind_next]
                            rw [get_u16_eval b' (by omega)]
                            have hb2 : (b'.drop 2).length < 2 ^ 64 := by rw [List.length_drop]; omega
                            simp only [bind_next, remaining_lt _ hb2, u16_len]
                            have hd2 : (b'.drop 2).length = b'.length - 2 := List.length_drop
                            by_cases p2 : (b'.drop 2).length < rdBE (b'.take 2)
                            · rw [if_pos (by omega)] at hMt
                              simp only [p2, decide_true, if_true, bind_ret, run_ret]
                              refine ⟨_, rfl, ?_⟩
                              exact ⟨by simp [hMt, stepView, absRes, toCD, toState], by simp [hMt, isTake],
                                ⟨by simp [hm], rfl, rfl⟩, by rw [hMt, cacheAfter_fail_pos _ _ _ _ _ _ (by omega), hkn] <;> simp [hum]⟩
                            · rw [if_neg (by omega)] at hMt
                              simp only [p2, decide_false, Bool.false_eq_true, if_false, bind_next]
                              rw [advance_eval (b'.drop 2) _ (by rw [u16_len]; omega)]
                              simp only [bind_next, u16_len, List.drop_drop, run_ret]
                              refine ⟨_, rfl, ?_⟩
                              exact ⟨by simp [hMt, stepView, absRes, toCD, toState, hkn],
                                by intro _; rw [hMt]; simp [stepView, toSess, hm, hadr, toMode, toUser],
                                ⟨by simp [hm], rfl, rfl⟩, by rw [hMt]; simp [cacheAfter, hkn, hum]⟩
            · have g3' : (h.headD 0 != 0) = true := by simpa using g3
              simp only [g3', if_true, bind_ret, run_ret]
              refine ⟨_, rfl, ?_⟩
              have hM : Ss.init2022 E.C (toCtx k context) (envOf E context.nonce_cache) ⟨none, toSess session⟩ src =
                  .fail ⟨none, { toSess session with requestSalt := some (src.take 32), user := some (toUser u) }⟩ 0 := by
                rw [hM0]; simp only [Ss.init2022Tail, hmm, envOf]; rw [if_pos (show h.headD 0 ≠ Ss.Mode.server.expectU8 from g3)]
              exact ⟨by simp [hM, stepView, absRes, hself], by simp [hM, isTake], ⟨by simp [hm], rfl, rfl⟩,
                by simp [hM, cacheAfter, hR, hmm, hkn, g1, hum]⟩


/-- **one `decode` call, Shadowsocks 2022, server with identity header**: never panics, terminates, is the model's `cipherDecode` -/
theorem decode_2022_server_eih (ov : Bool) (E : MEnv) (k : Ss.Kind) (N : Usize) (self : AEADCipherCodec MT) (context : Context MT)
    (session : Session) (src : List UInt8) (m : List ServerUser)
    (hk : toKind context.kind = some k) (h22 : k.is2022 = true) (hN : N.toNat = k.n)
    (hsalt : session.identity.salt.length = N.toNat)
    (hm : session.mode = .Server)
    (hse : k.supportEih = true) (hum : context.user_manager = some m) (hm0 : 0 < m.length) (hm64 : m.length < 2 ^ 64)
    (hself : self.decoder = none)
    (hb : src.length < 2 ^ 64) (hnow : E.now < 2 ^ 64)
    (hopen : ∀ a key n ad c p, E.C.openB a key n ad c = some p → c.length = p.length + 16) :
    ∃ out, AEADCipherCodec.decode ov (XM E) N self context session src = PWGen.Res.ok out ∧
      AgreeCall E k self context session src out :=
  decode_2022_of_init ov E k N self context session src hk h22 hN hsalt hself hb
    (fun hn => init2022_server_eih ov E k N self context session src m hk h22 hN hm hse hum hm0 hm64 hself hb hn hnow hopen)

/-- the tail of the header parser never changes the session's user -/
theorem init2022Tail_take_user (C : Crypto) (env : Ss.DecEnv) (d : Ss.Dec) (s : Ss.Sess) (b : Bytes) (n hl rsl : Nat)
    (salt : Bytes) (a : Ss.Auth) (hh : Bytes) (d' : Ss.Dec) (k : Nat) (o : List Ss.Ev)
    (h : Ss.init2022Tail C env d s b n hl rsl salt a hh = .take d' k o) : d'.sess.user = s.user := by
  unfold Ss.init2022Tail at h
  simp only [] at h
  repeat' (split at h)
  all_goals first
    | (cases h; done)
    | (cases h; first | rfl | (split <;> rfl))

/-- the model's accepting step under a required identity header selected a registered user: the one whose identity hash the
identity header decrypts to (`findUser`), and that user is the session's user afterwards -/
theorem init2022_take_user (C : Crypto) (ctx : Ss.Ctx) (env : Ss.DecEnv) (d : Ss.Dec) (b : Bytes) (d' : Ss.Dec) (n : Nat)
    (o : List Ss.Ev) (hreq : Ss.requireEih ctx d.sess = true) (h : Ss.init2022 C ctx env d b = .take d' n o) :
    ∃ (u : Ss.User) (hdr : Bytes), Ss.findUser ctx.users (C.aesDec ((C.blake3Derive Ss.identitySubkeyCtx (ctx.key ++ b.take ctx.kind.n)).take
        ctx.kind.alg.keyLen) (hdr.take 16)) = some u ∧ d'.sess.user = some u := by
  unfold Ss.init2022 at h
  simp only [hreq, if_true] at h
  generalize (if d.sess.mode = .server then 0 else ctx.kind.n) = rsl at h
  split at h
  · cases h
  split at h
  · cases h
  split at h
  · cases h
  split at h
  · cases h
  · rename_i key user hkey
    simp only [Ss.init2022Key, if_true] at hkey
    split at hkey
    · rename_i u hu
      cases hkey
      split at h
      · cases h
      · rename_i hh a hop
        refine ⟨u, _, hu, ?_⟩
        exact init2022Tail_take_user _ _ _ _ _ _ _ _ _ _ _ _ _ _ h
    · cases hkey

end Octo.SsTcpGen
