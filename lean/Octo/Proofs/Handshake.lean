import Octo.Model.Handshake
namespace Octo.Hs

/-! ### byte search lemmas -/

theorem findByte_none {c : UInt8} {l : Bytes} (h : c ∉ l) : findByte c l = none := by
  induction l with
  | nil => rfl
  | cons x r ih =>
    have hx : x ≠ c := fun e => h (e ▸ List.mem_cons_self)
    have hr : c ∉ r := fun m => h (List.mem_cons_of_mem _ m)
    simp [findByte, hx, ih hr]

theorem findByte_append_cons {c : UInt8} {a : Bytes} (b : Bytes) (h : c ∉ a) :
    findByte c (a ++ c :: b) = some a.length := by
  induction a with
  | nil => simp [findByte]
  | cons x r ih =>
    have hx : x ≠ c := fun e => h (e ▸ List.mem_cons_self)
    have hr : c ∉ r := fun m => h (List.mem_cons_of_mem _ m)
    simp [findByte, hx, ih hr]

theorem rfindByte_none {c : UInt8} {l : Bytes} (h : c ∉ l) : rfindByte c l = none := by
  induction l with
  | nil => rfl
  | cons x r ih =>
    have hx : x ≠ c := fun e => h (e ▸ List.mem_cons_self)
    have hr : c ∉ r := fun m => h (List.mem_cons_of_mem _ m)
    simp [rfindByte, hx, ih hr]

theorem rfindByte_append_of_not_mem {c : UInt8} (a : Bytes) {b : Bytes} (h : c ∉ b) :
    rfindByte c (a ++ b) = rfindByte c a := by
  induction a with
  | nil => simpa [rfindByte] using rfindByte_none h
  | cons x r ih => simp [rfindByte, ih]

theorem rfindByte_append_cons {c : UInt8} (a : Bytes) {b : Bytes} (h : c ∉ b) :
    rfindByte c (a ++ c :: b) = some a.length := by
  induction a with
  | nil => simp [rfindByte, rfindByte_none h]
  | cons x r ih => simp [rfindByte, ih]

theorem rfindByte_lt {c : UInt8} {l : Bytes} {i : Nat} (h : rfindByte c l = some i) : i < l.length := by
  induction l generalizing i with
  | nil => simp [rfindByte] at h
  | cons x r ih =>
    simp only [rfindByte] at h
    split at h
    · rename_i j hj
      have := ih hj
      simp at h; simp; omega
    · split at h <;> simp at h
      simp [← h]

theorem sep_eq : str "://" = [ch ':', ch '/', ch '/'] := by decide +kernel

theorem findSep_here (r : Bytes) : findSep (ch ':' :: ch '/' :: ch '/' :: r) = some 0 := by
  simp [findSep]

theorem findSep_skip {s : Bytes} (r : Bytes) (h : ch ':' ∉ s) :
    findSep (s ++ r) = (findSep r).map (· + s.length) := by
  induction s with
  | nil => simp
  | cons x t ih =>
    have hx : x ≠ ch ':' := fun e => h (e ▸ List.mem_cons_self)
    have hr : ch ':' ∉ t := fun m => h (List.mem_cons_of_mem _ m)
    simp [findSep, hx, ih hr]
    cases findSep r <;> simp; omega

theorem findSep_scheme {s : Bytes} (r : Bytes) (h : ch ':' ∉ s) :
    findSep (s ++ str "://" ++ r) = some s.length := by
  rw [List.append_assoc, findSep_skip _ h, sep_eq]
  simp [findSep_here]

theorem findSep_prefix_none {a b : Bytes} (h : findSep (a ++ b) = none) : findSep a = none := by
  induction a with
  | nil => rfl
  | cons x t ih =>
    simp only [List.cons_append, findSep] at h ⊢
    split at h
    · simp at h
    · rename_i hne
      simp at h
      have : ¬ (x :: t).take 3 = [ch ':', ch '/', ch '/'] := by
        intro e
        apply hne
        have hl : 3 ≤ (x :: t).length := by
          have := congrArg List.length e
          simp at this; simp; omega
        rw [← List.cons_append, List.take_append_of_le_length hl]; exact e
      rw [if_neg this, ih h]; rfl

theorem findSep_none_of_no_slash {l : Bytes} (h : ch '/' ∉ l) : findSep l = none := by
  induction l with
  | nil => rfl
  | cons x t ih =>
    have hr : ch '/' ∉ t := fun m => h (List.mem_cons_of_mem _ m)
    have : ¬ (x :: t).take 3 = [ch ':', ch '/', ch '/'] := by
      intro e
      apply h
      have : ch '/' ∈ (x :: t).take 3 := by rw [e]; simp
      exact List.mem_of_mem_take this
    rw [findSep, if_neg this, ih hr]; rfl

/-! ### the scheme filter -/

theorem schemeByteOk_ne {b : UInt8} (h : schemeByteOk b = true) :
    b ≠ ch ':' ∧ b ≠ ch '/' ∧ b ≠ ch '?' := by
  refine ⟨?_, ?_, ?_⟩ <;> (rintro rfl; revert h; decide)

theorem findScheme_none_of_findSep_none {l : Bytes} (h : findSep l = none) : findScheme l = none := by
  simp [findScheme, h]

/-- "://" right after a non-empty run of scheme bytes is the scheme separator -/
theorem findScheme_scheme {s : Bytes} (r : Bytes) (hne : s ≠ [])
    (h : ∀ b ∈ s, schemeByteOk b = true) :
    findScheme (s ++ str "://" ++ r) = some s.length := by
  have hc : ch ':' ∉ s := fun m => (schemeByteOk_ne (h _ m)).1 rfl
  have hl : 0 < s.length := List.length_pos_iff.2 hne
  have ht : (s ++ str "://" ++ r).take s.length = s := by
    rw [List.append_assoc, List.take_left]
  have ha : s.all schemeByteOk = true := List.all_eq_true.2 h
  unfold findScheme
  rw [findSep_scheme r hc]
  simp only [ht, ha, hl, and_self, if_true]

/-- a target starting with '/' has no scheme, whether or not "://" occurs later -/
theorem findScheme_none_of_slash (r : Bytes) : findScheme (ch '/' :: r) = none := by
  unfold findScheme
  cases findSep (ch '/' :: r) with
  | none => rfl
  | some i =>
    cases i with
    | zero => simp
    | succ i =>
      have : schemeByteOk (ch '/') = false := by decide
      simp [this]

theorem findByte_cut {c : UInt8} {a : Bytes} (p : Bytes) (h : c ∉ a)
    (hp : p = [] ∨ ∃ r, p = c :: r) :
    (match findByte c (a ++ p) with
      | some j => some ((a ++ p).take j)
      | none => some (a ++ p)) = some a := by
  rcases hp with rfl | ⟨r, rfl⟩
  · simp [findByte_none h]
  · simp [findByte_append_cons r h]

/-! ### digits and `parse::<u16>()` -/

theorem parseU16_ne_nil {p : Bytes} {v : Nat} (h : parseU16 p = some v) : p ≠ [] := by
  rintro rfl; simp [parseU16] at h

theorem isDigit_ne {b : UInt8} (h : isDigit b = true) :
    b ≠ ch ':' ∧ b ≠ ch '/' ∧ b ≠ ch '?' ∧ b ≠ ch ']' ∧ b ≠ ch '[' := by
  refine ⟨?_, ?_, ?_, ?_, ?_⟩ <;> (rintro rfl; revert h; decide)

/-! ### `recognize_http` in stages -/

/-- the target up to the first '?' -/
def beforeQuery (path : Bytes) : Bytes :=
  match findByte (ch '?') path with
  | some i => path.take i
  | none => path

/-- one trailing '/' removed -/
def trimSlash (l : Bytes) : Bytes := if l.getLast? = some (ch '/') then l.dropLast else l

/-- the authority the code cuts out of the (query-less, trimmed) target -/
def authorityOf (isConnect : Prop) [Decidable isConnect] (path : Bytes) : Option Bytes :=
  match findScheme path with
  | some i =>
    let rest := path.drop (i + 3)
    match findByte (ch '/') rest with
    | some j => some (rest.take j)
    | none => some rest
  | none => if isConnect then some path else none

/-- host / port split of the authority -/
def splitAuthority (isConnect : Prop) [Decidable isConnect] (a : Bytes) : Option Proxy :=
  if isConnect then
    match rfindByte (ch ':') a with
    | none => none
    | some h => (parseU16 (a.drop (h + 1))).map fun p => .https (a.take h) p
  else
    match rfindByte (ch ':') a, rfindByte (ch ']') a with
    | none, _ => some (.http a 80)
    | some h, none => (parseU16 (a.drop (h + 1))).map fun p => .http (a.take h) p
    | some h, some v =>
      if h < v then some (.http a 80) else (parseU16 (a.drop (h + 1))).map fun p => .http (a.take h) p

theorem recognizeHttp_eq (method path : Bytes) :
    recognizeHttp method path =
      match authorityOf (method = str "CONNECT") (trimSlash (beforeQuery path)) with
      | none => none
      | some a => splitAuthority (method = str "CONNECT") a := rfl


/-! ### the trailing-'/' trim -/

theorem getLast?_append_of_ne_nil (l : Bytes) {l' : Bytes} (h : l' ≠ []) :
    (l ++ l').getLast? = l'.getLast? := by
  rw [List.getLast?_append, List.getLast?_eq_some_getLast h]; rfl

theorem getLast?_ne_of_not_mem {c : UInt8} {l : Bytes} (h : c ∉ l) : l.getLast? ≠ some c := by
  intro e; exact h (List.mem_of_getLast? e)

theorem trimSlash_of_not_mem {l : Bytes} (h : ch '/' ∉ l) : trimSlash l = l := by
  simp [trimSlash, getLast?_ne_of_not_mem h]

/-- the trim only ever touches the path: the authority is non-empty and has no '/' -/
theorem trimSlash_append (x : Bytes) {a : Bytes} (p : Bytes) (hne : a ≠ []) (hs : ch '/' ∉ a) :
    trimSlash (x ++ a ++ p) = x ++ a ++ trimSlash p := by
  by_cases hp : p = []
  · subst hp
    have : (x ++ a).getLast? ≠ some (ch '/') := by
      rw [getLast?_append_of_ne_nil _ hne]; exact getLast?_ne_of_not_mem hs
    have e : trimSlash ([] : Bytes) = [] := rfl
    rw [e, List.append_nil, trimSlash, if_neg this]
  · simp only [trimSlash, getLast?_append_of_ne_nil _ hp, List.dropLast_append_of_ne_nil hp]
    split <;> simp_all

theorem trimSlash_shape {p : Bytes} (h : p = [] ∨ p.head? = some (ch '/')) :
    trimSlash p = [] ∨ ∃ r, trimSlash p = ch '/' :: r := by
  rcases h with rfl | h
  · left; rfl
  · match p, h with
    | x :: r, h =>
      simp at h; subst h
      unfold trimSlash
      split
      · cases r with
        | nil => left; rfl
        | cons y r => right; exact ⟨_, rfl⟩
      · right; exact ⟨_, rfl⟩

theorem trimSlash_prefix (l : Bytes) : ∃ r, l = trimSlash l ++ r := by
  unfold trimSlash
  split
  · rename_i h
    obtain ⟨ys, rfl⟩ := List.getLast?_eq_some_iff.1 h
    exact ⟨[ch '/'], by simp⟩
  · exact ⟨[], by simp⟩

theorem beforeQuery_prefix (l : Bytes) : ∃ r, l = beforeQuery l ++ r := by
  unfold beforeQuery
  split
  · exact ⟨_, (List.take_append_drop _ _).symm⟩
  · exact ⟨[], by simp⟩

theorem beforeQuery_of_not_mem {l : Bytes} (h : ch '?' ∉ l) : beforeQuery l = l := by
  simp [beforeQuery, findByte_none h]

theorem beforeQuery_append_query {l : Bytes} (q : Bytes) (h : ch '?' ∉ l) :
    beforeQuery (l ++ ch '?' :: q) = l := by
  simp [beforeQuery, findByte_append_cons q h]


/-! ### host / port split -/

theorem splitAuthority_plain {c : Prop} [Decidable c] (hc : ¬ c) {a : Bytes} (h : ch ':' ∉ a) :
    splitAuthority c a = some (.http a 80) := by
  simp [splitAuthority, hc, rfindByte_none h]

/-- a bracketed IPv6 literal without a port: the last ':' is inside the brackets -/
theorem splitAuthority_bracketed {c : Prop} [Decidable c] (hc : ¬ c) (host : Bytes) :
    splitAuthority c (ch '[' :: host ++ [ch ']']) = some (.http (ch '[' :: host ++ [ch ']']) 80) := by
  have h1 : rfindByte (ch ':') (ch '[' :: host ++ [ch ']']) = rfindByte (ch ':') (ch '[' :: host) := by
    exact rfindByte_append_of_not_mem _ (by decide)
  have h2 : rfindByte (ch ']') (ch '[' :: host ++ [ch ']']) = some (host.length + 1) := by
    rw [rfindByte_append_cons _ (by simp)]; rfl
  simp only [splitAuthority, if_neg hc, h1, h2]
  cases hr : rfindByte (ch ':') (ch '[' :: host) with
  | none => rfl
  | some i =>
    have := rfindByte_lt hr
    simp only [List.length_cons] at this
    simp [this]

/-- an authority ending in `":" port`: the last ':' is the port separator and no ']' follows it -/
theorem splitAuthority_port {c : Prop} [Decidable c] (hc : ¬ c) (a : Bytes) {p : Bytes}
    (h1 : ch ':' ∉ p) (h2 : ch ']' ∉ p) :
    splitAuthority c (a ++ ch ':' :: p) = (parseU16 p).map fun v => .http a v := by
  have e1 : rfindByte (ch ':') (a ++ ch ':' :: p) = some a.length := rfindByte_append_cons _ h1
  have e2 : rfindByte (ch ']') (a ++ ch ':' :: p) = rfindByte (ch ']') a :=
    rfindByte_append_of_not_mem _ (by
      intro m; rcases List.mem_cons.1 m with e | m
      · exact absurd e (by decide)
      · exact h2 m)
  simp only [splitAuthority, if_neg hc, e1, e2]
  cases hr : rfindByte (ch ']') a with
  | none => simp
  | some i =>
    have := rfindByte_lt hr
    have : ¬ a.length < i := by omega
    simp [this]

theorem splitAuthority_connect {c : Prop} [Decidable c] (hc : c) (a : Bytes) {p : Bytes}
    (h1 : ch ':' ∉ p) :
    splitAuthority c (a ++ ch ':' :: p) = (parseU16 p).map fun v => .https a v := by
  simp [splitAuthority, hc, rfindByte_append_cons a h1]


/-! ### well-formed absolute-form targets -/

/-- an absolute-form request target `scheme "://" host [":" port] path ["?" query]` -/
structure Target where
  scheme : Bytes        -- letters
  host : Bytes          -- reg-name / IPv4 bytes, or the inside of an IPv6 literal when `v6`
  v6 : Bool             -- rendered as "[" host "]"
  port : Option Bytes   -- the port as written
  path : Bytes          -- empty or starting with '/', no '?'; may contain ':' and "://"
  query : Option Bytes  -- anything (may contain '?', ':', '/', "://")

namespace Target

def authHost (t : Target) : Bytes := if t.v6 then ch '[' :: t.host ++ [ch ']'] else t.host

def render (t : Target) : Bytes :=
  t.scheme ++ str "://" ++ t.authHost
    ++ (match t.port with | some p => ch ':' :: p | none => [])
    ++ t.path
    ++ (match t.query with | some q => ch '?' :: q | none => [])

/-- the shape of the target, with no condition on the port's value: whatever stands between the
last ':' of the authority and the path -/
structure Shape (t : Target) : Prop where
  scheme_ok : t.scheme ≠ [] ∧ ∀ b ∈ t.scheme, schemeByteOk b = true
  host_ne : t.host ≠ []
  host_ok : if t.v6 then (∀ b ∈ t.host, b ≠ ch '/' ∧ b ≠ ch '?' ∧ b ≠ ch ']' ∧ b ≠ ch '[')
    else (∀ b ∈ t.host, b ≠ ch ':' ∧ b ≠ ch '/' ∧ b ≠ ch '?' ∧ b ≠ ch ']' ∧ b ≠ ch '[')
  port_chars : ∀ p, t.port = some p → ∀ b ∈ p, b ≠ ch ':' ∧ b ≠ ch '/' ∧ b ≠ ch '?' ∧ b ≠ ch ']'
  path_ok : (t.path = [] ∨ t.path.head? = some (ch '/')) ∧ ∀ b ∈ t.path, b ≠ ch '?'

/-- a well-formed target: the port, when present, is a decimal `u16` -/
structure WF (t : Target) : Prop where
  scheme_ok : t.scheme ≠ [] ∧ ∀ b ∈ t.scheme, schemeByteOk b = true
  host_ne : t.host ≠ []
  host_ok : if t.v6 then (∀ b ∈ t.host, b ≠ ch '/' ∧ b ≠ ch '?' ∧ b ≠ ch ']' ∧ b ≠ ch '[')
    else (∀ b ∈ t.host, b ≠ ch ':' ∧ b ≠ ch '/' ∧ b ≠ ch '?' ∧ b ≠ ch ']' ∧ b ≠ ch '[')
  port_ok : ∀ p, t.port = some p → ∃ v, parseU16 p = some v ∧ (∀ b ∈ p, isDigit b = true)
  path_ok : (t.path = [] ∨ t.path.head? = some (ch '/')) ∧ ∀ b ∈ t.path, b ≠ ch '?'

theorem WF.shape {t : Target} (h : t.WF) : t.Shape where
  scheme_ok := h.scheme_ok
  host_ne := h.host_ne
  host_ok := h.host_ok
  path_ok := h.path_ok
  port_chars := by
    intro p hp b hb
    obtain ⟨_, _, hd⟩ := h.port_ok p hp
    have := isDigit_ne (hd b hb)
    exact ⟨this.1, this.2.1, this.2.2.1, this.2.2.2.1⟩

/-- `host [":" port]` as rendered -/
def authority (t : Target) : Bytes :=
  t.authHost ++ (match t.port with | some p => ch ':' :: p | none => [])

theorem Shape.authHost_ne {t : Target} (h : t.Shape) : t.authHost ≠ [] := by
  unfold authHost; split
  · simp
  · exact h.host_ne

theorem Shape.authHost_not_mem {t : Target} (h : t.Shape) :
    ch '/' ∉ t.authHost ∧ ch '?' ∉ t.authHost := by
  have hk := h.host_ok
  unfold authHost
  cases hv : t.v6 <;> simp only [hv, if_true, if_false, Bool.false_eq_true] at hk ⊢
  · exact ⟨fun m => (hk _ m).2.1 rfl, fun m => (hk _ m).2.2.1 rfl⟩
  · constructor
    · intro m
      rcases List.mem_append.1 m with m | m
      · rcases List.mem_cons.1 m with e | m
        · exact absurd e (by decide)
        · exact (hk _ m).1 rfl
      · exact absurd (List.mem_singleton.1 m) (by decide)
    · intro m
      rcases List.mem_append.1 m with m | m
      · rcases List.mem_cons.1 m with e | m
        · exact absurd e (by decide)
        · exact (hk _ m).2.1 rfl
      · exact absurd (List.mem_singleton.1 m) (by decide)

theorem Shape.authority_ne {t : Target} (h : t.Shape) : t.authority ≠ [] := by
  unfold authority
  intro e
  exact h.authHost_ne (List.append_eq_nil_iff.1 e).1

theorem Shape.authority_not_mem {t : Target} (h : t.Shape) :
    ch '/' ∉ t.authority ∧ ch '?' ∉ t.authority := by
  have ha := h.authHost_not_mem
  have hp := h.port_chars
  unfold authority
  cases hq : t.port with
  | none => simpa using ha
  | some p =>
    have hp := hp p hq
    constructor
    · intro m
      rcases List.mem_append.1 m with m | m
      · exact ha.1 m
      · rcases List.mem_cons.1 m with e | m
        · exact absurd e (by decide)
        · exact (hp _ m).2.1 rfl
    · intro m
      rcases List.mem_append.1 m with m | m
      · exact ha.2 m
      · rcases List.mem_cons.1 m with e | m
        · exact absurd e (by decide)
        · exact (hp _ m).2.2.1 rfl

theorem render_eq (t : Target) :
    t.render = t.scheme ++ str "://" ++ t.authority ++ t.path
      ++ (match t.query with | some q => ch '?' :: q | none => []) := by
  simp [render, authority]

/-- the code's view of a well-shaped target after cutting the query and the trailing '/' -/
theorem Shape.trim_beforeQuery {t : Target} (h : t.Shape) :
    trimSlash (beforeQuery t.render) = t.scheme ++ str "://" ++ t.authority ++ trimSlash t.path := by
  have hnq : ch '?' ∉ t.scheme ++ str "://" ++ t.authority ++ t.path := by
    intro m
    rcases List.mem_append.1 m with m | m
    · rcases List.mem_append.1 m with m | m
      · rcases List.mem_append.1 m with m | m
        · exact (schemeByteOk_ne (h.scheme_ok.2 _ m)).2.2 rfl
        · rw [sep_eq] at m; revert m; decide
      · exact h.authority_not_mem.2 m
    · exact h.path_ok.2 _ m rfl
  have hb : beforeQuery t.render = t.scheme ++ str "://" ++ t.authority ++ t.path := by
    rw [render_eq]
    cases t.query with
    | none => simpa using beforeQuery_of_not_mem hnq
    | some q => exact beforeQuery_append_query q hnq
  rw [hb]
  exact trimSlash_append _ _ h.authority_ne h.authority_not_mem.1

theorem Shape.authorityOf {t : Target} (h : t.Shape) (c : Prop) [Decidable c] :
    authorityOf c (trimSlash (beforeQuery t.render)) = some t.authority := by
  rw [h.trim_beforeQuery, List.append_assoc _ t.authority]
  unfold Hs.authorityOf
  rw [findScheme_scheme _ h.scheme_ok.1 h.scheme_ok.2]
  have hd : (t.scheme ++ str "://" ++ (t.authority ++ trimSlash t.path)).drop (t.scheme.length + 3)
      = t.authority ++ trimSlash t.path := by
    have : (t.scheme ++ str "://").length = t.scheme.length + 3 := by simp [sep_eq]
    rw [← this, List.drop_left]
  simp only [hd]
  exact findByte_cut _ h.authority_not_mem.1 (trimSlash_shape h.path_ok.1)

/-- what `recognize_http` does with a well-shaped absolute-form target, whatever the port bytes are -/
theorem Shape.recognizeHttp {t : Target} (h : t.Shape) (method : Bytes) (hm : method ≠ str "CONNECT") :
    recognizeHttp method t.render =
      match t.port with
      | some p => (parseU16 p).map fun v => .http t.authHost v
      | none => some (.http t.authHost 80) := by
  rw [recognizeHttp_eq, h.authorityOf]
  simp only [authority]
  cases hq : t.port with
  | some p =>
    have hp := h.port_chars p hq
    exact splitAuthority_port hm _ (fun m => (hp _ m).1 rfl) (fun m => (hp _ m).2.2.2 rfl)
  | none =>
    simp only [List.append_nil]
    have hk := h.host_ok
    unfold authHost
    cases hv : t.v6 <;> simp only [hv, if_true, if_false, Bool.false_eq_true] at hk ⊢
    · exact splitAuthority_plain hm (fun m => (hk _ m).1 rfl)
    · exact splitAuthority_bracketed hm _

end Target


/-! ### the theorems -/

/-- **absolute-form targets**: from `scheme://host[:port]path[?query]` the code extracts exactly the
authority's host and port (80 when absent), whatever ':' '/' "://" '?' the path and query contain -/
theorem recognizeHttp_absolute (t : Target) (h : t.WF) (method : Bytes) (hm : method ≠ str "CONNECT") :
    recognizeHttp method t.render =
      some (.http t.authHost (match t.port with | some p => (parseU16 p).getD 0 | none => 80)) := by
  rw [h.shape.recognizeHttp method hm]
  cases hq : t.port with
  | none => rfl
  | some p =>
    obtain ⟨v, hv, _⟩ := h.port_ok p hq
    simp [hv]

/-- **bad port**: a port that is present but is not a decimal `u16` (empty, non-numeric, > 65535)
refuses the request -/
theorem recognizeHttp_bad_port_refused (t : Target) (h : t.Shape) (p : Bytes) (hp : t.port = some p)
    (hbad : parseU16 p = none) (method : Bytes) (hm : method ≠ str "CONNECT") :
    recognizeHttp method t.render = none := by
  rw [h.recognizeHttp method hm, hp]
  simp [hbad]

/-- CONNECT with an authority-form target `host:port`, whatever the port bytes are -/
theorem recognizeHttp_connect_gen (host p : Bytes) (hhost : ∀ b ∈ host, b ≠ ch '/' ∧ b ≠ ch '?')
    (hp : ∀ b ∈ p, b ≠ ch ':' ∧ b ≠ ch '/' ∧ b ≠ ch '?') :
    recognizeHttp (str "CONNECT") (host ++ ch ':' :: p) = (parseU16 p).map fun v => .https host v := by
  have hs : ch '/' ∉ host ++ ch ':' :: p := by
    intro m
    rcases List.mem_append.1 m with m | m
    · exact (hhost _ m).1 rfl
    · rcases List.mem_cons.1 m with e | m
      · exact absurd e (by decide)
      · exact (hp _ m).2.1 rfl
  have hq : ch '?' ∉ host ++ ch ':' :: p := by
    intro m
    rcases List.mem_append.1 m with m | m
    · exact (hhost _ m).2 rfl
    · rcases List.mem_cons.1 m with e | m
      · exact absurd e (by decide)
      · exact (hp _ m).2.2 rfl
  rw [recognizeHttp_eq, beforeQuery_of_not_mem hq, trimSlash_of_not_mem hs]
  have : authorityOf (str "CONNECT" = str "CONNECT") (host ++ ch ':' :: p) = some (host ++ ch ':' :: p) := by
    simp [authorityOf, findScheme_none_of_findSep_none (findSep_none_of_no_slash hs)]
  rw [this]
  exact splitAuthority_connect rfl _ (fun m => (hp _ m).1 rfl)

/-- **CONNECT**: `host:port` (the host may be a bracketed IPv6 literal) opens a tunnel to exactly
that host and port. (`findSep (host ++ ch ':' :: p) = none` follows from the hypotheses.) -/
theorem recognizeHttp_connect (host p : Bytes) (v : Nat) (hhost : ∀ b ∈ host, b ≠ ch '/' ∧ b ≠ ch '?')
    (hp : parseU16 p = some v) (hd : ∀ b ∈ p, isDigit b = true) :
    recognizeHttp (str "CONNECT") (host ++ ch ':' :: p) = some (.https host v) := by
  rw [recognizeHttp_connect_gen host p hhost, hp]; rfl
  intro b hb
  have := isDigit_ne (hd b hb)
  exact ⟨this.1, this.2.1, this.2.2.1⟩

/-- CONNECT with a bad port is refused -/
theorem recognizeHttp_connect_bad_port_refused (host p : Bytes)
    (hhost : ∀ b ∈ host, b ≠ ch '/' ∧ b ≠ ch '?')
    (hp : ∀ b ∈ p, b ≠ ch ':' ∧ b ≠ ch '/' ∧ b ≠ ch '?') (hbad : parseU16 p = none) :
    recognizeHttp (str "CONNECT") (host ++ ch ':' :: p) = none := by
  rw [recognizeHttp_connect_gen host p hhost hp, hbad]; rfl

/-- CONNECT without a port is refused -/
theorem recognizeHttp_connect_no_port_refused (a : Bytes)
    (ha : ∀ b ∈ a, b ≠ ch ':' ∧ b ≠ ch '/' ∧ b ≠ ch '?') :
    recognizeHttp (str "CONNECT") a = none := by
  have hs : ch '/' ∉ a := fun m => (ha _ m).2.1 rfl
  have hq : ch '?' ∉ a := fun m => (ha _ m).2.2 rfl
  have hc : ch ':' ∉ a := fun m => (ha _ m).1 rfl
  rw [recognizeHttp_eq, beforeQuery_of_not_mem hq, trimSlash_of_not_mem hs]
  simp [authorityOf, findScheme_none_of_findSep_none (findSep_none_of_no_slash hs), splitAuthority,
    rfindByte_none hc]

/-- whatever the code finds no scheme in (after cutting the query and the trailing '/') opens no
tunnel for a non-CONNECT method -/
theorem recognizeHttp_no_scheme_refused (method path : Bytes) (hm : method ≠ str "CONNECT")
    (h : findScheme (trimSlash (beforeQuery path)) = none) : recognizeHttp method path = none := by
  rw [recognizeHttp_eq]
  simp [authorityOf, h, hm]

/-- **origin-form**: a target whose part before the query starts with '/' opens no tunnel for any
non-CONNECT method, whatever follows (in particular a later "://") -/
theorem recognizeHttp_origin_form_refused (method path : Bytes) (hm : method ≠ str "CONNECT")
    (h : (beforeQuery path).head? = some (ch '/')) : recognizeHttp method path = none := by
  apply recognizeHttp_no_scheme_refused method path hm
  rcases trimSlash_shape (Or.inr h) with e | ⟨r, e⟩
  · rw [e]; rfl
  · rw [e]; exact findScheme_none_of_slash r

/-- no "://" before the query: refused -/
theorem recognizeHttp_no_sep_before_query_refused (method path : Bytes) (hm : method ≠ str "CONNECT")
    (h : findSep (beforeQuery path) = none) : recognizeHttp method path = none := by
  apply recognizeHttp_no_scheme_refused method path hm
  obtain ⟨r, hr⟩ := trimSlash_prefix (beforeQuery path)
  rw [hr] at h
  exact findScheme_none_of_findSep_none (findSep_prefix_none h)

/-- in particular: no "://" anywhere in the target -/
theorem recognizeHttp_no_sep_refused (method path : Bytes) (hm : method ≠ str "CONNECT")
    (h : findSep path = none) : recognizeHttp method path = none := by
  apply recognizeHttp_no_sep_before_query_refused method path hm
  obtain ⟨r, hr⟩ := beforeQuery_prefix path
  rw [hr] at h
  exact findSep_prefix_none h

/-- in particular: an origin-form target whose path (the part before the query) has no ':' -/
theorem recognizeHttp_no_colon_refused (method path : Bytes) (hm : method ≠ str "CONNECT")
    (h : ch ':' ∉ beforeQuery path) : recognizeHttp method path = none := by
  apply recognizeHttp_no_sep_before_query_refused method path hm
  have := findSep_skip [] h
  simpa [findSep] using this


/-! ### concrete instances (the hypotheses are satisfiable; the function's value) -/

section Examples

/-- `http://www.example.com:8080/?a=b&c=d` -/
def ex1 : Target := ⟨str "http", str "www.example.com", false, some (str "8080"), str "/", some (str "a=b&c=d")⟩
/-- `http://[::1]` -/
def ex2 : Target := ⟨str "http", str "::1", true, none, [], none⟩
/-- `http://h?a?b` -/
def ex3 : Target := ⟨str "http", str "h", false, none, [], some (str "a?b")⟩
/-- `http://[fe80::1]:8443/a:b/c://d/?x=http://y/` -/
def ex4 : Target := ⟨str "http", str "fe80::1", true, some (str "8443"), str "/a:b/c://d/", some (str "x=http://y/")⟩

example : ex1.render = str "http://www.example.com:8080/?a=b&c=d" := by decide +kernel
example : ex2.render = str "http://[::1]" := by decide +kernel
example : ex3.render = str "http://h?a?b" := by decide +kernel
example : ex4.render = str "http://[fe80::1]:8443/a:b/c://d/?x=http://y/" := by decide +kernel

theorem ex1_wf : ex1.WF :=
  ⟨by decide +kernel, by decide +kernel, by decide +kernel,
   fun p hp => ⟨8080, by cases hp; decide +kernel, by cases hp; decide +kernel⟩, by decide +kernel⟩
theorem ex2_wf : ex2.WF :=
  ⟨by decide +kernel, by decide +kernel, by decide +kernel, (fun p hp => by cases hp), by decide +kernel⟩
theorem ex3_wf : ex3.WF :=
  ⟨by decide +kernel, by decide +kernel, by decide +kernel, (fun p hp => by cases hp), by decide +kernel⟩
theorem ex4_wf : ex4.WF :=
  ⟨by decide +kernel, by decide +kernel, by decide +kernel,
   fun p hp => ⟨8443, by cases hp; decide +kernel, by cases hp; decide +kernel⟩, by decide +kernel⟩

-- the theorem applied
example : recognizeHttp (str "POST") ex1.render = some (.http (str "www.example.com") 8080) :=
  (recognizeHttp_absolute ex1 ex1_wf _ (by decide +kernel)).trans (by decide +kernel)
example : recognizeHttp (str "CONNECT") (str "www.example.com" ++ ch ':' :: str "443")
    = some (.https (str "www.example.com") 443) :=
  recognizeHttp_connect _ _ 443 (by decide +kernel) (by decide +kernel) (by decide +kernel)

-- the function evaluated
example : recognizeHttp (str "POST") (str "http://www.example.com:8080/?a=b&c=d")
    = some (.http (str "www.example.com") 8080) := by decide +kernel
example : recognizeHttp (str "GET") (str "http://[::1]") = some (.http (str "[::1]") 80) := by decide +kernel
example : recognizeHttp (str "GET") (str "http://h?a?b") = some (.http (str "h") 80) := by decide +kernel
example : recognizeHttp (str "GET") (str "http://[fe80::1]:8443/a:b/c://d/?x=http://y/")
    = some (.http (str "[fe80::1]") 8443) := by decide +kernel
example : recognizeHttp (str "GET") (str "/x") = none := by decide +kernel
example : recognizeHttp (str "GET") (str "/index.html?u=http://a/") = none := by decide +kernel
example : recognizeHttp (str "CONNECT") (str "www.example.com:443")
    = some (.https (str "www.example.com") 443) := by decide +kernel
example : recognizeHttp (str "CONNECT") (str "[::1]:443") = some (.https (str "[::1]") 443) := by decide +kernel
-- bad ports
example : recognizeHttp (str "GET") (str "http://h:65536/") = none := by decide +kernel
example : recognizeHttp (str "GET") (str "http://h:/") = none := by decide +kernel
example : recognizeHttp (str "GET") (str "http://h:8o/") = none := by decide +kernel
example : recognizeHttp (str "CONNECT") (str "h") = none := by decide +kernel
-- an origin-form target whose path contains "://" is refused too (it used to be taken for an
-- absolute-form one), as is "://" after something that is not a scheme
example : recognizeHttp (str "GET") (str "/x://evil.example/") = none := by decide +kernel
example : recognizeHttp (str "GET") (str "/") = none := by decide +kernel
example : recognizeHttp (str "GET") (str "://evil.example/") = none := by decide +kernel
example : recognizeHttp (str "GET") (str "a b://evil.example/") = none := by decide +kernel
example : recognizeHttp (str "GET") (str "/x://evil.example/") = none :=
  recognizeHttp_origin_form_refused _ _ (by decide +kernel) (by decide +kernel)

end Examples

end Octo.Hs
