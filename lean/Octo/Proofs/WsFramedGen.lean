import Octo.Gen.WsFramedGen
import Octo.Model.Stream
set_option linter.unusedSimpArgs false
namespace Octo.WsFramedGen
open Octo Octo.PWGen Octo.AddrGen

variable {WS C E D : Type}

/-- a state of the adapter by its components (the two `PhantomData` fields are `()`) -/
def mk (s : WS) (c : C) (ob : Option Cursor) (errored readable : Bool) : WebSocketFramed WS C E D :=
  { stream := s, codec := c, encode_item := (), decode_item := (), buffer := ob, errored := errored, readable := readable }

theorem mk_eta (w : WebSocketFramed WS C E D) : w = mk w.stream w.codec w.buffer w.errored w.readable := rfl

/-- what the code keeps of a buffer: `None` when it is empty -/
def nb (b : Cursor) : Option Cursor := if b.isEmpty then none else some b

/-- the result of one poll once the decoder has answered `r` on the bytes at hand (`again` = what `Ok(None)` leads to) -/
def afterDecode (s : WS) (r : PWGen.Res (C × Cursor × RResult (Option D)))
    (again : WebSocketFramed WS C E D → PWGen.Res (Option (WebSocketFramed WS C E D × Poll (Option (RResult D))))) :
    PWGen.Res (Option (WebSocketFramed WS C E D × Poll (Option (RResult D)))) :=
  match r with
  | .panic => .panic
  | .ok (c', b', .ok (some d)) => .ok (some (mk s c' (nb b') false (nb b').isSome, .Ready (some (.ok d))))
  | .ok (c', b', .err) => .ok (some (mk s c' (nb b') true false, .Ready (some .err)))
  | .ok (c', b', .ok none) => again (mk s c' (nb b') false false)

theorem poll_errored (X : Ext WS C E D) (ov : Bool) (n : Nat) (s : WS) (c : C) (ob : Option Cursor) (r : Bool) :
    WebSocketFramed.poll_next X ov (n + 1) (mk s c ob true r) = .ok (some (mk s c ob true r, .Ready none)) := by
  unfold WebSocketFramed.poll_next
  rw [Flow.loop]
  simp [mk, Flow.bind, Flow.run]

theorem poll_readable (X : Ext WS C E D) (ov : Bool) (n : Nat) (s : WS) (c : C) (b : Cursor) :
    WebSocketFramed.poll_next X ov (n + 1) (mk s c (some b) false true) =
      afterDecode s (X.codec_decode c b) (WebSocketFramed.poll_next X ov (n + 1)) := by
  unfold WebSocketFramed.poll_next
  conv => lhs; rw [Flow.loop]
  cases hd : X.codec_decode c b with
  | panic => simp [mk, afterDecode, hd, Flow.bind, Flow.run, Flow.call]
  | ok t =>
    obtain ⟨c', b', r⟩ := t
    by_cases hb : b' = [] <;> cases r with
    | err => simp [mk, afterDecode, hd, Flow.bind, Flow.run, Flow.call, nb, Cursor.is_empty, hb]
    | ok o =>
      cases o with
      | some d => simp [mk, afterDecode, hd, Flow.bind, Flow.run, Flow.call, nb, Cursor.is_empty, hb]
      | none =>
        simp only [afterDecode, hd]
        conv => rhs; rw [Flow.loop]
        simp [mk, hd, Flow.bind, Flow.run, Flow.call, nb, Cursor.is_empty, hb]

/-- `readable` with nothing buffered (not reachable from `new`): the flag is cleared and the transport is polled -/
theorem poll_readable_none (X : Ext WS C E D) (ov : Bool) (n : Nat) (s : WS) (c : C) :
    WebSocketFramed.poll_next X ov (n + 1) (mk s c none false true) =
      WebSocketFramed.poll_next X ov (n + 1) (mk s c none false false) := by
  unfold WebSocketFramed.poll_next
  conv => lhs; rw [Flow.loop]
  conv => rhs; rw [Flow.loop]
  simp [mk, Flow.bind, Flow.run]

/-- a message whose payload is handed to the decoder -/
def isData (m : Message) : Bool := m.is_binary || m.is_text

/-- joining what was kept with a new payload does not panic: `buffer.len() + msg_payload.len()` (overflow-checked
when `ov`) and `BytesMut::with_capacity` of the sum (at most `isize::MAX`) -/
def joinOk (ov : Bool) (b p : Cursor) : Bool :=
  (!ov || U64.addOk (Cursor.len b) (Cursor.len p)) && decide ((Cursor.len b + Cursor.len p).toNat ≤ 2 ^ 63 - 1)

/-- one poll of a state that is neither `errored` nor `readable`, by what the inner stream answers -/
theorem poll_transport (X : Ext WS C E D) (ov : Bool) (n : Nat) (s : WS) (c : C) (ob : Option Cursor) :
    WebSocketFramed.poll_next X ov (n + 1) (mk s c ob false false) =
      (match (X.stream_poll_next s).2 with
       | .Pending => .ok (some (mk (X.stream_poll_next s).1 c ob false false, .Pending))
       | .Ready none => .ok (some (mk (X.stream_poll_next s).1 c ob false false, .Ready none))
       | .Ready (some .err) => .ok (some (mk (X.stream_poll_next s).1 c ob false false, .Ready (some .err)))
       | .Ready (some (.ok m)) =>
         if isData m then
           (match ob with
            | none => afterDecode (X.stream_poll_next s).1 (X.codec_decode c m.payload) (WebSocketFramed.poll_next X ov n)
            | some b =>
              if joinOk ov b m.payload then
                afterDecode (X.stream_poll_next s).1 (X.codec_decode c (b ++ m.payload)) (WebSocketFramed.poll_next X ov n)
              else .panic)
         else WebSocketFramed.poll_next X ov n (mk (X.stream_poll_next s).1 c ob false false)) := by
  unfold WebSocketFramed.poll_next
  conv => lhs; rw [Flow.loop]
  cases hp : (X.stream_poll_next s).2 with
  | Pending => simp [mk, hp, Flow.bind, Flow.run, Flow.ready]
  | Ready o =>
    cases o with
    | none => simp [mk, hp, Flow.bind, Flow.run, Flow.ready]
    | some r =>
      cases r with
      | err => simp [mk, hp, Flow.bind, Flow.run, Flow.ready]
      | ok m =>
        by_cases hm : isData m
        · have hm' : m.is_binary = true ∨ m.is_text = true := by simpa [isData] using hm
          cases ob with
          | none =>
            simp only [hm, if_true]
            cases hd : X.codec_decode c m.payload with
            | panic => simp [mk, hp, hm', afterDecode, hd, Flow.bind, Flow.run, Flow.ready, Flow.call, Message.into_payload]
            | ok t =>
              obtain ⟨c', b', r⟩ := t
              by_cases hb : b' = [] <;> cases r with
              | err => simp [mk, hp, hm', afterDecode, hd, Flow.bind, Flow.run, Flow.ready, Flow.call, Message.into_payload, nb, Cursor.is_empty, hb]
              | ok o =>
                cases o with
                | some d => simp [mk, hp, hm', afterDecode, hd, Flow.bind, Flow.run, Flow.ready, Flow.call, Message.into_payload, nb, Cursor.is_empty, hb]
                | none => simp [mk, hp, hm', afterDecode, hd, Flow.bind, Flow.run, Flow.ready, Flow.call, Message.into_payload, nb, Cursor.is_empty, hb]
          | some b =>
            simp only [hm, if_true]
            by_cases hj : joinOk ov b m.payload = true
            · simp only [hj, if_true]
              have h1 : (!ov || U64.addOk (Cursor.len b) (Cursor.len m.payload)) = true := by
                simp only [joinOk, Bool.and_eq_true] at hj; exact hj.1
              have h2 : (Cursor.len b + Cursor.len m.payload).toNat ≤ 2 ^ 63 - 1 := by
                simp only [joinOk, Bool.and_eq_true, decide_eq_true_eq] at hj; exact hj.2
              have h1 : ov = false ∨ U64.addOk (Cursor.len b) (Cursor.len m.payload) = true := by simpa using h1
              have h2 : (UInt64.toNat (Cursor.len b) + UInt64.toNat (Cursor.len m.payload)) % 18446744073709551616 ≤
                  9223372036854775807 := by simpa using h2
              cases hd : X.codec_decode c (b ++ m.payload) with
              | panic => simp [mk, hp, hm', afterDecode, hd, Flow.bind, Flow.run, Flow.ready, Flow.call, Message.as_payload, Flow.arith, Flow.check, Flow.with_capacity, Cursor.extend_from_slice, h1, h2]
              | ok t =>
                obtain ⟨c', b', r⟩ := t
                by_cases hb : b' = [] <;> cases r with
                | err => simp [mk, hp, hm', afterDecode, hd, Flow.bind, Flow.run, Flow.ready, Flow.call, Message.as_payload, Flow.arith, Flow.check, Flow.with_capacity, Cursor.extend_from_slice, h1, h2, nb, Cursor.is_empty, hb]
                | ok o =>
                  cases o with
                  | some d => simp [mk, hp, hm', afterDecode, hd, Flow.bind, Flow.run, Flow.ready, Flow.call, Message.as_payload, Flow.arith, Flow.check, Flow.with_capacity, Cursor.extend_from_slice, h1, h2, nb, Cursor.is_empty, hb]
                  | none => simp [mk, hp, hm', afterDecode, hd, Flow.bind, Flow.run, Flow.ready, Flow.call, Message.as_payload, Flow.arith, Flow.check, Flow.with_capacity, Cursor.extend_from_slice, h1, h2, nb, Cursor.is_empty, hb]
            · simp only [hj]
              by_cases h1 : (!ov || U64.addOk (Cursor.len b) (Cursor.len m.payload)) = true
              · have h2 : ¬ (Cursor.len b + Cursor.len m.payload).toNat ≤ 2 ^ 63 - 1 := by
                  intro h; apply hj; simp only [joinOk, Bool.and_eq_true, decide_eq_true_eq]; exact ⟨h1, h⟩
                have h1 : ov = false ∨ U64.addOk (Cursor.len b) (Cursor.len m.payload) = true := by simpa using h1
                have h2 : ¬ (UInt64.toNat (Cursor.len b) + UInt64.toNat (Cursor.len m.payload)) % 18446744073709551616 ≤
                    9223372036854775807 := by simpa using h2
                simp [mk, hp, hm', Flow.bind, Flow.run, Flow.ready, Message.as_payload, Flow.arith, Flow.check, Flow.with_capacity, h1, h2]
              · have h1 : ¬ (ov = false ∨ U64.addOk (Cursor.len b) (Cursor.len m.payload) = true) := by simpa using h1
                simp [mk, hp, hm', Flow.bind, Flow.run, Flow.ready, Message.as_payload, Flow.arith, Flow.check, h1]
        · have hm' : m.is_binary = false ∧ m.is_text = false := by simpa [isData] using hm
          simp [mk, hp, hm, hm'.1, hm'.2, Flow.bind, Flow.run, Flow.ready]

/-! ## the inner stream as a script of poll results; the hand model's view of the decoder -/

/-- what one poll of the inner WebSocket stream can answer -/
abbrev Inner := Poll (Option (RResult Message))

/-- the inner stream as a script: each poll takes the next answer; an exhausted script is `Pending` -/
def scriptPoll : List Inner → List Inner × Inner
  | [] => ([], .Pending)
  | e :: r => (r, e)

/-- the external decoder as the hand model sees a `Decoder::decode` call (`Octo.Call`) -/
def callOf (dec : C → Cursor → PWGen.Res (C × Cursor × RResult (Option D))) (toItem : D → Item) (c : C) (b : Bytes) : Call C :=
  match dec c b with
  | .panic => ⟨c, b, .panic⟩
  | .ok (c', b', .ok (some d)) => ⟨c', b', .ok (toItem d)⟩
  | .ok (c', b', .ok none) => ⟨c', b', .more⟩
  | .ok (c', b', .err) => ⟨c', b', .err⟩

/-- the two things the adapter relies on in a decoder: asked about an empty buffer it says "not yet" and changes
nothing (the code does not ask: an empty buffer is `None`), and it never hands back more bytes than it was given -/
structure DecOk (dec : C → Cursor → PWGen.Res (C × Cursor × RResult (Option D))) : Prop where
  quiet : ∀ c, dec c [] = .ok (c, [], .ok none)
  shrink : ∀ c b c' b' r, dec c b = .ok (c', b', r) → b'.length ≤ b.length

/-- the hand model (`wsMsg` / `wsEof` of `Octo/Model/Stream.lean`) run over a script of inner poll results: a data
message is `wsMsg`, the end of the transport is `wsEof`, a control message and `Pending` are invisible, a transport
error is handed on (the model has no event of its own for it; this is what the code does) -/
def wsScript (decode : C → Bytes → Call C) : FrSt C → List Inner → List FrEv
  | _, [] => []
  | f, .Pending :: r => wsScript decode f r
  | f, .Ready none :: _ => (wsEof f).2
  | f, .Ready (some .err) :: r => if f.ended then [] else .err :: wsScript decode f r
  | f, .Ready (some (.ok m)) :: r =>
    if isData m then (wsMsg decode f m.payload).2 ++ wsScript decode (wsMsg decode f m.payload).1 r
    else wsScript decode f r

/-- bytes the script delivers to the decoder -/
def scriptBytes : List Inner → Nat
  | [] => 0
  | .Ready (some (.ok m)) :: r => (if isData m then m.payload.length else 0) + scriptBytes r
  | _ :: r => scriptBytes r

/-- polling the generated `poll_next` again and again over a script: the events the caller sees.  A `Pending` with
answers still to come is followed by another poll (the waker); `None` and a panic end the observation. -/
inductive Drives (X : Ext (List Inner) C E D) (ov : Bool) (toItem : D → Item) :
    WebSocketFramed (List Inner) C E D → List FrEv → Prop where
  | idle (w w') : WebSocketFramed.poll_next X ov (w.stream.length + 1) w = .ok (some (w', .Pending)) → w'.stream = [] →
      Drives X ov toItem w []
  | woken (w w' evs) : WebSocketFramed.poll_next X ov (w.stream.length + 1) w = .ok (some (w', .Pending)) → w'.stream ≠ [] →
      Drives X ov toItem w' evs → Drives X ov toItem w evs
  | ended (w w') : WebSocketFramed.poll_next X ov (w.stream.length + 1) w = .ok (some (w', .Ready none)) →
      Drives X ov toItem w [.ended]
  | panic (w) : WebSocketFramed.poll_next X ov (w.stream.length + 1) w = .panic → Drives X ov toItem w [.panic]
  | item (w w' d evs) : WebSocketFramed.poll_next X ov (w.stream.length + 1) w = .ok (some (w', .Ready (some (.ok d)))) →
      Drives X ov toItem w' evs → Drives X ov toItem w (.item (toItem d) :: evs)
  | err (w w' evs) : WebSocketFramed.poll_next X ov (w.stream.length + 1) w = .ok (some (w', .Ready (some .err))) →
      Drives X ov toItem w' evs → Drives X ov toItem w (.err :: evs)

theorem Drives.congr {X : Ext (List Inner) C E D} {ov : Bool} {toItem : D → Item}
    {w w1 : WebSocketFramed (List Inner) C E D} {evs : List FrEv}
    (h : WebSocketFramed.poll_next X ov (w.stream.length + 1) w = WebSocketFramed.poll_next X ov (w1.stream.length + 1) w1)
    (d : Drives X ov toItem w1 evs) : Drives X ov toItem w evs := by
  cases d with
  | idle _ w' h1 h2 => exact .idle w w' (h.trans h1) h2
  | woken _ w' _ h1 h2 h3 => exact .woken w w' _ (h.trans h1) h2 h3
  | ended _ w' h1 => exact .ended w w' (h.trans h1)
  | panic _ h1 => exact .panic w (h.trans h1)
  | item _ w' d _ h1 h2 => exact .item w w' d _ (h.trans h1) h2
  | err _ w' _ h1 h2 => exact .err w w' _ (h.trans h1) h2

theorem frLoop_succ (decode : C → Bytes → Call C) (n : Nat) (f : FrSt C) :
    frLoop decode (n + 1) f =
      (match (decode f.st f.buf).res with
       | .ok i => ((frLoop decode n { f with st := (decode f.st f.buf).st, buf := (decode f.st f.buf).buf }).1,
                   .item i :: (frLoop decode n { f with st := (decode f.st f.buf).st, buf := (decode f.st f.buf).buf }).2)
       | .more => ({ f with st := (decode f.st f.buf).st, buf := (decode f.st f.buf).buf }, [])
       | .err => ({ st := (decode f.st f.buf).st, buf := (decode f.st f.buf).buf, ended := true }, [.err, .ended])
       | .panic => ({ st := (decode f.st f.buf).st, buf := (decode f.st f.buf).buf, ended := true }, [.panic])) := by
  rw [frLoop]
  cases (decode f.st f.buf).res <;> rfl

theorem poll_kept (X : Ext (List Inner) C E D) (hD : DecOk X.codec_decode) (ov : Bool) (s : List Inner) (c : C) (b : Bytes) :
    WebSocketFramed.poll_next X ov (s.length + 1) (mk s c (nb b) false (nb b).isSome) =
      afterDecode s (X.codec_decode c b) (WebSocketFramed.poll_next X ov (s.length + 1)) := by
  by_cases hb : b = []
  · subst hb
    simp [hD.quiet, afterDecode, nb]
  · have : nb b = some b := by simp [nb, hb]
    rw [this]
    exact poll_readable X ov s.length s c b

/-- the decode phase of one message: from a poll that is about to hand `data` to the decoder, polling again and
again yields exactly what the model's `frLoop` yields on `data`, then whatever follows (`T`) -/
theorem drives_decode (X : Ext (List Inner) C E D) (hD : DecOk X.codec_decode) (ov : Bool) (toItem : D → Item)
    (s : List Inner) (T : FrSt C → List FrEv) :
    ∀ (n : Nat) (c : C) (data : Bytes) (w : WebSocketFramed (List Inner) C E D),
      WebSocketFramed.poll_next X ov (w.stream.length + 1) w =
        afterDecode s (X.codec_decode c data) (WebSocketFramed.poll_next X ov (s.length + 1)) →
      FrEv.spin ∉ (frLoop (callOf X.codec_decode toItem) n ⟨c, data, false⟩).2 →
      ((frLoop (callOf X.codec_decode toItem) n ⟨c, data, false⟩).1.ended = false →
        Drives X ov toItem (mk s (frLoop (callOf X.codec_decode toItem) n ⟨c, data, false⟩).1.st
          (nb (frLoop (callOf X.codec_decode toItem) n ⟨c, data, false⟩).1.buf) false false)
          (T (frLoop (callOf X.codec_decode toItem) n ⟨c, data, false⟩).1)) →
      Drives X ov toItem w
        ((frLoop (callOf X.codec_decode toItem) n ⟨c, data, false⟩).2 ++
          if (frLoop (callOf X.codec_decode toItem) n ⟨c, data, false⟩).1.ended then [] else
            T (frLoop (callOf X.codec_decode toItem) n ⟨c, data, false⟩).1) := by
  intro n
  induction n with
  | zero => intro c data w _ hspin; exact absurd (by simp [frLoop]) hspin
  | succ n ih =>
    intro c data w hw hspin hT
    cases hd : X.codec_decode c data with
    | panic =>
      simp only [frLoop_succ, callOf, hd] at hspin hT ⊢
      simp only [hd, afterDecode] at hw
      simpa using Drives.panic w hw
    | ok t =>
      obtain ⟨c', b', r⟩ := t
      cases r with
      | err =>
        simp only [frLoop_succ, callOf, hd] at hspin hT ⊢
        simp only [hd, afterDecode] at hw
        refine Drives.err w _ _ hw ?_
        simpa using Drives.ended _ _ (poll_errored X ov s.length s c' (nb b') false)
      | ok o =>
        cases o with
        | none =>
          simp only [frLoop_succ, callOf, hd] at hspin hT ⊢
          simp only [hd, afterDecode] at hw
          have := hT trivial
          simp only [Bool.false_eq_true, if_false, List.nil_append]
          exact Drives.congr hw this
        | some d =>
          simp only [frLoop_succ, callOf, hd] at hspin hT ⊢
          simp only [hd, afterDecode] at hw
          have hspin' : FrEv.spin ∉ (frLoop (callOf X.codec_decode toItem) n ⟨c', b', false⟩).2 := by
            intro h; exact hspin (List.mem_cons_of_mem _ h)
          exact Drives.item w _ d _ hw (ih c' b' _ (poll_kept X hD ov s c' b') hspin' hT)

theorem frLoop_buf_le (dec : C → Cursor → PWGen.Res (C × Cursor × RResult (Option D))) (hD : DecOk dec) (toItem : D → Item) :
    ∀ (n : Nat) (c : C) (b : Bytes), (frLoop (callOf dec toItem) n ⟨c, b, false⟩).1.buf.length ≤ b.length := by
  intro n
  induction n with
  | zero => intro c b; simp [frLoop]
  | succ n ih =>
    intro c b
    cases hd : dec c b with
    | panic => simp [frLoop_succ, callOf, hd]
    | ok t =>
      obtain ⟨c', b', r⟩ := t
      have hs := hD.shrink c b c' b' r hd
      cases r with
      | err => simpa [frLoop_succ, callOf, hd] using hs
      | ok o =>
        cases o with
        | none => simpa [frLoop_succ, callOf, hd] using hs
        | some d =>
          simp only [frLoop_succ, callOf, hd]
          exact Nat.le_trans (ih c' b') hs

theorem wsScript_ended (decode : C → Bytes → Call C) : ∀ (script : List Inner) (f : FrSt C), f.ended = true →
    wsScript decode f script = [] := by
  intro script
  induction script with
  | nil => intro f _; rfl
  | cons e r ih =>
    intro f hf
    cases e with
    | Pending => simpa [wsScript] using ih f hf
    | Ready o =>
      cases o with
      | none => simp [wsScript, wsEof, hf]
      | some x =>
        cases x with
        | err => simp [wsScript, hf]
        | ok m =>
          by_cases hm : isData m
          · simp [wsScript, hm, wsMsg, hf, ih f hf]
          · simpa [wsScript, hm] using ih f hf

theorem FrSt_eta (f : FrSt C) (h : f.ended = false) : (⟨f.st, f.buf, false⟩ : FrSt C) = f := by
  cases f; simp_all

theorem joinOk_of_lt (ov : Bool) (b p : Cursor) (h : b.length + p.length < 2 ^ 63) : joinOk ov b p = true := by
  have hb : (UInt64.ofNat b.length).toNat = b.length := by
    simp only [UInt64.toNat_ofNat']; exact Nat.mod_eq_of_lt (by omega)
  have hp : (UInt64.ofNat p.length).toNat = p.length := by
    simp only [UInt64.toNat_ofNat']; exact Nat.mod_eq_of_lt (by omega)
  simp only [joinOk, Cursor.len, U64.addOk, UInt64.toNat_add, hb, hp, Bool.and_eq_true, Bool.or_eq_true, decide_eq_true_eq]
  refine ⟨Or.inr (by omega), ?_⟩
  rw [Nat.mod_eq_of_lt (by omega)]; omega

/-- one poll of a state that is neither `errored` nor `readable`, over a script -/
theorem poll_script (X : Ext (List Inner) C E D) (hX : X.stream_poll_next = scriptPoll) (ov : Bool)
    (e : Inner) (r : List Inner) (c : C) (ob : Option Cursor) :
    WebSocketFramed.poll_next X ov ((mk (e :: r) c ob false false : WebSocketFramed (List Inner) C E D).stream.length + 1)
        (mk (e :: r) c ob false false) =
      (match e with
       | .Pending => .ok (some (mk r c ob false false, .Pending))
       | .Ready none => .ok (some (mk r c ob false false, .Ready none))
       | .Ready (some .err) => .ok (some (mk r c ob false false, .Ready (some .err)))
       | .Ready (some (.ok m)) =>
         if isData m then
           (match ob with
            | none => afterDecode r (X.codec_decode c m.payload) (WebSocketFramed.poll_next X ov (r.length + 1))
            | some b =>
              if joinOk ov b m.payload then
                afterDecode r (X.codec_decode c (b ++ m.payload)) (WebSocketFramed.poll_next X ov (r.length + 1))
              else .panic)
         else WebSocketFramed.poll_next X ov (r.length + 1) (mk r c ob false false)) := by
  show WebSocketFramed.poll_next X ov (r.length + 1 + 1) _ = _
  rw [poll_transport]
  simp only [hX, scriptPoll]
  rfl

theorem poll_script_nil (X : Ext (List Inner) C E D) (hX : X.stream_poll_next = scriptPoll) (ov : Bool) (c : C) (ob : Option Cursor) :
    WebSocketFramed.poll_next X ov ((mk [] c ob false false : WebSocketFramed (List Inner) C E D).stream.length + 1)
        (mk [] c ob false false) = .ok (some (mk [] c ob false false, .Pending)) := by
  show WebSocketFramed.poll_next X ov (0 + 1) _ = _
  rw [poll_transport]
  simp only [hX, scriptPoll]

/-- **the generated `poll_next`, polled over any script of inner events, yields exactly the events of the hand model**
(`wsMsg` per data message, `wsEof` at the end of the transport) -/
theorem drives_script (X : Ext (List Inner) C E D) (hX : X.stream_poll_next = scriptPoll) (hD : DecOk X.codec_decode)
    (ov : Bool) (toItem : D → Item) :
    ∀ (script : List Inner) (c : C) (b : Bytes),
      b.length + scriptBytes script < 2 ^ 63 →
      FrEv.spin ∉ wsScript (callOf X.codec_decode toItem) ⟨c, b, false⟩ script →
      Drives X ov toItem (mk script c (nb b) false false) (wsScript (callOf X.codec_decode toItem) ⟨c, b, false⟩ script) := by
  intro script
  induction script with
  | nil =>
    intro c b _ _
    exact Drives.idle _ _ (poll_script_nil X hX ov c (nb b)) rfl
  | cons e r ih =>
    intro c b hlen hspin
    have hp := poll_script X hX ov e r c (nb b)
    cases e with
    | Pending =>
      simp only [wsScript] at hspin ⊢
      simp only [scriptBytes] at hlen
      by_cases hr : r = []
      · subst hr
        exact Drives.idle _ _ hp rfl
      · exact Drives.woken _ _ _ hp hr (ih c b hlen hspin)
    | Ready o =>
      cases o with
      | none =>
        simp only [wsScript, wsEof] at hspin ⊢
        exact Drives.ended _ _ hp
      | some x =>
        cases x with
        | err =>
          simp only [wsScript, Bool.false_eq_true, if_false] at hspin ⊢
          simp only [scriptBytes] at hlen
          exact Drives.err _ _ _ hp (ih c b hlen (fun h => hspin (List.mem_cons_of_mem _ h)))
        | ok m =>
          by_cases hm : isData m
          · simp only [wsScript, hm, if_true, wsMsg, Bool.false_eq_true, if_false] at hspin ⊢
            simp only [scriptBytes, hm, if_true] at hlen
            simp only [hm, if_true] at hp
            have hw : WebSocketFramed.poll_next X ov ((mk (Poll.Ready (some (RResult.ok m)) :: r) c (nb b) false false :
                  WebSocketFramed (List Inner) C E D).stream.length + 1) (mk (Poll.Ready (some (RResult.ok m)) :: r) c (nb b) false false) =
                afterDecode r (X.codec_decode c (b ++ m.payload)) (WebSocketFramed.poll_next X ov (r.length + 1)) := by
              by_cases hb : b = []
              · subst hb
                simpa [nb] using hp
              · have hnb : nb b = some b := by simp [nb, hb]
                rw [hnb] at hp ⊢
                simpa [joinOk_of_lt ov b m.payload (by omega)] using hp
            have hfin := frLoop_buf_le X.codec_decode hD toItem (b.length + m.payload.length + 2) c (b ++ m.payload)
            rw [List.length_append] at hfin
            have key := drives_decode X hD ov toItem r (fun f' => wsScript (callOf X.codec_decode toItem) f' r)
              (b.length + m.payload.length + 2) c (b ++ m.payload) _ hw
              (fun h => hspin (List.mem_append_left _ h))
              (fun hend => by
                have := ih (frLoop (callOf X.codec_decode toItem) (b.length + m.payload.length + 2) ⟨c, b ++ m.payload, false⟩).1.st
                  (frLoop (callOf X.codec_decode toItem) (b.length + m.payload.length + 2) ⟨c, b ++ m.payload, false⟩).1.buf
                  (by omega)
                rw [FrSt_eta _ hend] at this
                exact this (fun h => hspin (List.mem_append_right _ h)))
            by_cases hend : (frLoop (callOf X.codec_decode toItem) (b.length + m.payload.length + 2) ⟨c, b ++ m.payload, false⟩).1.ended = true
            · simpa [hend, wsScript_ended _ r _ hend] using key
            · simpa [hend] using key
          · simp only [wsScript, hm, Bool.false_eq_true, if_false] at hspin ⊢
            simp only [scriptBytes, hm, Bool.false_eq_true, if_false, Nat.zero_add] at hlen
            simp only [hm, Bool.false_eq_true, if_false] at hp
            exact Drives.congr hp (ih c b hlen hspin)

/-- the observation is a function of the state: `Drives` relates a state to at most one event list -/
theorem Drives.unique {X : Ext (List Inner) C E D} {ov : Bool} {toItem : D → Item}
    {w : WebSocketFramed (List Inner) C E D} {e1 e2 : List FrEv}
    (d1 : Drives X ov toItem w e1) (d2 : Drives X ov toItem w e2) : e1 = e2 := by
  induction d1 generalizing e2 with
  | idle w w' h1 h2 =>
    cases d2 with
    | idle _ _ _ _ => rfl
    | woken _ w'' _ g1 g2 _ => rw [h1] at g1; cases g1; exact absurd h2 g2
    | ended _ _ g1 => rw [h1] at g1; cases g1
    | panic _ g1 => rw [h1] at g1; cases g1
    | item _ _ _ _ g1 _ => rw [h1] at g1; cases g1
    | err _ _ _ g1 _ => rw [h1] at g1; cases g1
  | woken w w' evs h1 h2 _ ih =>
    cases d2 with
    | idle _ w'' g1 g2 => rw [h1] at g1; cases g1; exact absurd g2 h2
    | woken _ w'' _ g1 _ g3 => rw [h1] at g1; cases g1; exact ih g3
    | ended _ _ g1 => rw [h1] at g1; cases g1
    | panic _ g1 => rw [h1] at g1; cases g1
    | item _ _ _ _ g1 _ => rw [h1] at g1; cases g1
    | err _ _ _ g1 _ => rw [h1] at g1; cases g1
  | ended w w' h1 =>
    cases d2 with
    | idle _ _ g1 _ => rw [h1] at g1; cases g1
    | woken _ _ _ g1 _ _ => rw [h1] at g1; cases g1
    | ended _ _ _ => rfl
    | panic _ g1 => rw [h1] at g1; cases g1
    | item _ _ _ _ g1 _ => rw [h1] at g1; cases g1
    | err _ _ _ g1 _ => rw [h1] at g1; cases g1
  | panic w h1 =>
    cases d2 with
    | idle _ _ g1 _ => rw [h1] at g1; cases g1
    | woken _ _ _ g1 _ _ => rw [h1] at g1; cases g1
    | ended _ _ g1 => rw [h1] at g1; cases g1
    | panic _ _ => rfl
    | item _ _ _ _ g1 _ => rw [h1] at g1; cases g1
    | err _ _ _ g1 _ => rw [h1] at g1; cases g1
  | item w w' d evs h1 _ ih =>
    cases d2 with
    | idle _ _ g1 _ => rw [h1] at g1; cases g1
    | woken _ _ _ g1 _ _ => rw [h1] at g1; cases g1
    | ended _ _ g1 => rw [h1] at g1; cases g1
    | panic _ g1 => rw [h1] at g1; cases g1
    | item _ _ _ _ g1 g2 => rw [h1] at g1; cases g1; rw [ih g2]
    | err _ _ _ g1 _ => rw [h1] at g1; cases g1
  | err w w' evs h1 _ ih =>
    cases d2 with
    | idle _ _ g1 _ => rw [h1] at g1; cases g1
    | woken _ _ _ g1 _ _ => rw [h1] at g1; cases g1
    | ended _ _ g1 => rw [h1] at g1; cases g1
    | panic _ g1 => rw [h1] at g1; cases g1
    | item _ _ _ _ g1 _ => rw [h1] at g1; cases g1
    | err _ _ _ g1 g2 => rw [h1] at g1; cases g1; rw [ih g2]

/-! ## the fuel: one more than the number of answers the inner stream still has suffices -/

theorem afterDecode_congr (s : WS) (r : PWGen.Res (C × Cursor × RResult (Option D)))
    (a1 a2 : WebSocketFramed WS C E D → PWGen.Res (Option (WebSocketFramed WS C E D × Poll (Option (RResult D)))))
    (h : ∀ c ob, a1 (mk s c ob false false) = a2 (mk s c ob false false)) : afterDecode s r a1 = afterDecode s r a2 := by
  cases r with
  | panic => rfl
  | ok t =>
    obtain ⟨c', b', r⟩ := t
    cases r with
    | err => rfl
    | ok o => cases o <;> simp [afterDecode, h]

theorem afterDecode_ne_none (s : WS) (r : PWGen.Res (C × Cursor × RResult (Option D)))
    (a : WebSocketFramed WS C E D → PWGen.Res (Option (WebSocketFramed WS C E D × Poll (Option (RResult D)))))
    (h : ∀ c ob, a (mk s c ob false false) ≠ .ok none) : afterDecode s r a ≠ .ok none := by
  cases r with
  | panic => simp [afterDecode]
  | ok t =>
    obtain ⟨c', b', r⟩ := t
    cases r with
    | err => simp [afterDecode]
    | ok o => cases o <;> simp [afterDecode, h]

theorem fuel_transport (X : Ext (List Inner) C E D) (hX : X.stream_poll_next = scriptPoll) (ov : Bool) :
    ∀ (s : List Inner) (c : C) (ob : Option Cursor) (k : Nat),
      WebSocketFramed.poll_next X ov (s.length + 1 + k) (mk s c ob false false) =
        WebSocketFramed.poll_next X ov (s.length + 1) (mk s c ob false false) ∧
      WebSocketFramed.poll_next X ov (s.length + 1) (mk s c ob false false) ≠ .ok none := by
  intro s
  induction s with
  | nil =>
    intro c ob k
    have e1 : ([] : List Inner).length + 1 + k = k + 1 := by simp; omega
    rw [e1]
    show WebSocketFramed.poll_next X ov (k + 1) _ = WebSocketFramed.poll_next X ov (0 + 1) _ ∧ WebSocketFramed.poll_next X ov (0 + 1) _ ≠ _
    rw [poll_transport, poll_transport]
    simp [hX, scriptPoll]
  | cons e r ih =>
    intro c ob k
    have e1 : (e :: r).length + 1 + k = (r.length + 1 + k) + 1 := by simp; omega
    rw [e1]
    show WebSocketFramed.poll_next X ov ((r.length + 1 + k) + 1) _ = WebSocketFramed.poll_next X ov ((r.length + 1) + 1) _ ∧
      WebSocketFramed.poll_next X ov ((r.length + 1) + 1) _ ≠ _
    rw [poll_transport, poll_transport]
    simp only [hX, scriptPoll]
    cases e with
    | Pending => simp
    | Ready o =>
      cases o with
      | none => simp
      | some x =>
        cases x with
        | err => simp
        | ok m =>
          by_cases hm : isData m
          · simp only [hm, if_true]
            cases ob with
            | none =>
              exact ⟨afterDecode_congr _ _ _ _ (fun c' ob' => (ih c' ob' k).1), afterDecode_ne_none _ _ _ (fun c' ob' => (ih c' ob' k).2)⟩
            | some b =>
              by_cases hj : joinOk ov b m.payload = true
              · simp only [hj, if_true]
                exact ⟨afterDecode_congr _ _ _ _ (fun c' ob' => (ih c' ob' k).1), afterDecode_ne_none _ _ _ (fun c' ob' => (ih c' ob' k).2)⟩
              · simp [hj]
          · simp only [hm, Bool.false_eq_true, if_false]
            exact ih c ob k

/-- **the fuel suffices**: over a script, `poll_next` with one round more than the inner stream has answers never
reports "still running", and more fuel changes nothing - whatever the state -/
theorem poll_next_fuel (X : Ext (List Inner) C E D) (hX : X.stream_poll_next = scriptPoll) (ov : Bool)
    (w : WebSocketFramed (List Inner) C E D) (k : Nat) :
    WebSocketFramed.poll_next X ov (w.stream.length + 1 + k) w = WebSocketFramed.poll_next X ov (w.stream.length + 1) w ∧
      WebSocketFramed.poll_next X ov (w.stream.length + 1) w ≠ .ok none := by
  obtain ⟨s, c, u1, u2, ob, e, r⟩ := w
  cases u1; cases u2
  show WebSocketFramed.poll_next X ov (s.length + 1 + k) (mk s c ob e r) = WebSocketFramed.poll_next X ov (s.length + 1) (mk s c ob e r) ∧
    WebSocketFramed.poll_next X ov (s.length + 1) (mk s c ob e r) ≠ .ok none
  have e1 : s.length + 1 + k = (s.length + k) + 1 := by omega
  cases e with
  | true => rw [e1, poll_errored, poll_errored]; simp
  | false =>
    cases r with
    | false => exact fuel_transport X hX ov s c ob k
    | true =>
      cases ob with
      | none =>
        rw [e1, poll_readable_none, poll_readable_none, ← e1]
        exact fuel_transport X hX ov s c none k
      | some b =>
        rw [e1, poll_readable, poll_readable, ← e1]
        exact ⟨afterDecode_congr _ _ _ _ (fun c' ob' => (fuel_transport X hX ov s c' ob' k).1),
          afterDecode_ne_none _ _ _ (fun c' ob' => (fuel_transport X hX ov s c' ob' k).2)⟩

/-! ## no panic of its own -/

theorem frLoop_no_panic (dec : C → Cursor → PWGen.Res (C × Cursor × RResult (Option D))) (toItem : D → Item)
    (hdec : ∀ c b, dec c b ≠ .panic) : ∀ (n : Nat) (f : FrSt C), FrEv.panic ∉ (frLoop (callOf dec toItem) n f).2 := by
  intro n
  induction n with
  | zero => intro f; simp [frLoop]
  | succ n ih =>
    intro f
    cases hd : dec f.st f.buf with
    | panic => exact absurd hd (hdec _ _)
    | ok t =>
      obtain ⟨c', b', r⟩ := t
      cases r with
      | err => simp [frLoop_succ, callOf, hd]
      | ok o =>
        cases o with
        | none => simp [frLoop_succ, callOf, hd]
        | some d =>
          simp only [frLoop_succ, callOf, hd, List.mem_cons, not_or]
          exact ⟨by simp, ih _⟩

theorem wsScript_no_panic (dec : C → Cursor → PWGen.Res (C × Cursor × RResult (Option D))) (toItem : D → Item)
    (hdec : ∀ c b, dec c b ≠ .panic) : ∀ (script : List Inner) (f : FrSt C),
    FrEv.panic ∉ wsScript (callOf dec toItem) f script := by
  intro script
  induction script with
  | nil => intro f; simp [wsScript]
  | cons e r ih =>
    intro f
    cases e with
    | Pending => simpa [wsScript] using ih f
    | Ready o =>
      cases o with
      | none => simp only [wsScript, wsEof]; split <;> simp
      | some x =>
        cases x with
        | err => simp only [wsScript]; split <;> simp [ih f]
        | ok m =>
          by_cases hm : isData m
          · simp only [wsScript, hm, if_true, List.mem_append, not_or]
            refine ⟨?_, ih _⟩
            simp only [wsMsg]; split
            · simp
            · exact frLoop_no_panic dec toItem hdec _ _
          · simpa [wsScript, hm] using ih f

/-! ## binary messages are reads: the link to every `…_framed` theorem -/

/-- the events of `FramedRead` (`frFeed`) over a list of reads -/
def feedAllEv (decode : C → Bytes → Call C) : FrSt C → List Bytes → List FrEv
  | _, [] => []
  | f, p :: ps => (frFeed decode f p).2 ++ feedAllEv decode (frFeed decode f p).1 ps

/-- the inner stream hands over one binary message with payload `p` -/
def dataMsg (p : Bytes) : Inner := .Ready (some (.ok (Message.binary p)))

theorem wsScript_binary (decode : C → Bytes → Call C) : ∀ (ps : List Bytes) (f : FrSt C),
    wsScript decode f (ps.map dataMsg) = feedAllEv decode f ps := by
  intro ps
  induction ps with
  | nil => intro f; rfl
  | cons p ps ih =>
    intro f
    have hm : isData (Message.binary p) = true := rfl
    simp only [List.map_cons, dataMsg, wsScript, hm, if_true, feedAllEv]
    rw [show (Message.binary p).payload = p from rfl]
    have hw : wsMsg decode f p = frFeed decode f p := rfl
    rw [hw]
    exact congrArg _ (ih _)

theorem scriptBytes_binary : ∀ ps : List Bytes, scriptBytes (ps.map dataMsg) = ps.flatten.length := by
  intro ps
  induction ps with
  | nil => rfl
  | cons p ps ih =>
    have hm : isData (Message.binary p) = true := rfl
    simp only [List.map_cons, dataMsg, scriptBytes, hm, if_true, List.flatten_cons, List.length_append]
    rw [show (Message.binary p).payload = p from rfl]
    exact congrArg _ ih

/-! ## `new`, the `Sink` half, `QuicStream::poll_shutdown` -/

theorem new_eq (X : Ext WS C E D) (ov : Bool) (s : WS) (c : C) :
    WebSocketFramed.new X ov s c = .ok (mk s c none false false) := by
  simp [WebSocketFramed.new, mk, Flow.run]

theorem poll_ready_eq (X : Ext WS C E D) (ov : Bool) (w : WebSocketFramed WS C E D) :
    WebSocketFramed.poll_ready X ov w = .ok ({ w with stream := (X.stream_poll_ready w.stream).1 }, (X.stream_poll_ready w.stream).2) := by
  simp [WebSocketFramed.poll_ready, Flow.run, Poll.map_err]

theorem poll_flush_eq (X : Ext WS C E D) (ov : Bool) (w : WebSocketFramed WS C E D) :
    WebSocketFramed.poll_flush X ov w = .ok ({ w with stream := (X.stream_poll_flush w.stream).1 }, (X.stream_poll_flush w.stream).2) := by
  simp [WebSocketFramed.poll_flush, Flow.run, Poll.map_err]

theorem poll_close_eq (X : Ext WS C E D) (ov : Bool) (w : WebSocketFramed WS C E D) :
    WebSocketFramed.poll_close X ov w = .ok ({ w with stream := (X.stream_poll_close w.stream).1 }, (X.stream_poll_close w.stream).2) := by
  simp [WebSocketFramed.poll_close, Flow.run, Poll.map_err]

/-- `start_send`: the item is encoded into a fresh buffer; exactly that buffer goes out as ONE binary message; an
encoder error sends nothing; the decode-side fields are untouched -/
theorem start_send_eq (X : Ext WS C E D) (ov : Bool) (w : WebSocketFramed WS C E D) (item : E) :
    WebSocketFramed.start_send X ov w item =
      (match X.codec_encode w.codec item [] with
       | .panic => .panic
       | .ok (c', _, .err) => .ok ({ w with codec := c' }, .err)
       | .ok (c', dst, .ok ()) =>
         .ok ({ w with codec := c', stream := (X.stream_start_send w.stream (Message.binary dst)).1 },
              (X.stream_start_send w.stream (Message.binary dst)).2)) := by
  unfold WebSocketFramed.start_send
  cases he : X.codec_encode w.codec item [] with
  | panic => simp [he, Flow.run, Flow.bind, Flow.call]
  | ok t =>
    obtain ⟨c', dst, r⟩ := t
    cases r with
    | err => simp [he, Flow.run, Flow.bind, Flow.call, Flow.question]
    | ok u => simp [he, Flow.run, Flow.bind, Flow.call, Flow.question, RResult.map_err]

variable {Snd Rcv Fut V : Type}

/-- `poll_shutdown`, first call (`delivered` is `None`): the send side is finished (its result is ignored), the
`stopped()` future is created, stored and polled once; `Pending` while the peer has not taken delivery -/
theorem poll_shutdown_first (X : QExt Snd Fut V) (ov : Bool) (snd : Snd) (rcv : Rcv) :
    QuicStream.poll_shutdown X ov (⟨snd, rcv, none⟩ : QuicStream Snd Rcv Fut) =
      .ok (⟨(X.send_finish snd).1, rcv, some (X.delivered_poll (X.send_stopped (X.send_finish snd).1)).1⟩,
        match (X.delivered_poll (X.send_stopped (X.send_finish snd).1)).2 with
        | .Pending => .Pending
        | .Ready .err => .Ready .err
        | .Ready (.ok _) => .Ready (.ok ())) := by
  unfold QuicStream.poll_shutdown
  cases hp : (X.delivered_poll (X.send_stopped (X.send_finish snd).1)).2 with
  | Pending => simp [Flow.run, Flow.bind, Option.as_mut_map_poll, hp]
  | Ready r => cases r <;> simp [Flow.run, Flow.bind, Option.as_mut_map_poll, hp]

/-- `poll_shutdown`, later calls (`delivered` is `Some(f)`): `finish` is NOT called again, the stored future is
polled; shutdown is reported complete only when that future is ready -/
theorem poll_shutdown_again (X : QExt Snd Fut V) (ov : Bool) (snd : Snd) (rcv : Rcv) (f : Fut) :
    QuicStream.poll_shutdown X ov (⟨snd, rcv, some f⟩ : QuicStream Snd Rcv Fut) =
      .ok (⟨snd, rcv, some (X.delivered_poll f).1⟩,
        match (X.delivered_poll f).2 with
        | .Pending => .Pending
        | .Ready .err => .Ready .err
        | .Ready (.ok _) => .Ready (.ok ())) := by
  unfold QuicStream.poll_shutdown
  cases hp : (X.delivered_poll f).2 with
  | Pending => simp [Flow.run, Flow.bind, Option.as_mut_map_poll, hp]
  | Ready r => cases r <;> simp [Flow.run, Flow.bind, Option.as_mut_map_poll, hp]

end Octo.WsFramedGen
