import Octo.Model.Flows
/-!
  Generic theorems about adaptor chains, `forward`, `try_join!` and terminal arms (`Octo.Model.Flows`), for all chains, all
  scripts, all pump states - and the shapes that violate them.
-/
namespace Octo.Flows

/-! ## forward -/

theorem forward_of_allOk : ∀ (s : Script), s.all Item.isOk = true → forward s = ⟨payloads s, true⟩
  | [], _ => rfl
  | .ok p c :: r, h => by
    have hr : r.all Item.isOk = true := by simpa [Item.isOk] using h
    simp [forward, payloads, forward_of_allOk r hr]
  | .srcErr :: _, h => by simp [Item.isOk] at h
  | .convErr :: _, h => by simp [Item.isOk] at h

/-- an `Err` item in front of which everything is `Ok`: what was decoded so far is handed to the sink but the sink is neither
    flushed nor closed -/
theorem forward_of_err : ∀ (pre : Script) (e : Item) (post : Script), pre.all Item.isOk = true → e.isOk = false →
    forward (pre ++ e :: post) = ⟨payloads pre, false⟩
  | [], e, post, _, he => by cases e <;> simp_all [forward, payloads, Item.isOk]
  | .ok p c :: r, e, post, h, he => by
    have hr : r.all Item.isOk = true := by simpa [Item.isOk] using h
    simp [forward, payloads, forward_of_err r e post hr he]
  | .srcErr :: _, _, _, h, _ => by simp [Item.isOk] at h
  | .convErr :: _, _, _, h, _ => by simp [Item.isOk] at h

/-! ## adaptors -/

theorem takeWhile_all (p : Item → Bool) : ∀ (s : Script), (s.takeWhile p).all p = true
  | [] => rfl
  | x :: r => by
    by_cases h : p x = true
    · simp [h, takeWhile_all p r]
    · simp [h]

theorem mem_of_mem_takeWhile' (p : Item → Bool) : ∀ (s : Script) (x : Item), x ∈ s.takeWhile p → x ∈ s
  | [], _, h => by simp at h
  | y :: r, x, h => by
    by_cases hy : p y = true
    · simp only [List.takeWhile_cons, hy, if_true, List.mem_cons] at h ⊢
      rcases h with h | h
      · exact Or.inl h
      · exact Or.inr (mem_of_mem_takeWhile' p r x h)
    · simp [hy] at h

theorem apply_allOk_of_allOk (a : Adaptor) (s : Script) (hs : s.all Item.isOk = true)
    (hc : a = .mapFallible → s.all Item.converts = true) : (a.apply s).all Item.isOk = true := by
  cases a with
  | dropErr => simp [Adaptor.apply]
  | endOnErr =>
    exact takeWhile_all Item.isOk s
  | wrapOk => simpa [Adaptor.apply] using hs
  | mapInfallible => simpa [Adaptor.apply] using hs
  | thenPassErr => simpa [Adaptor.apply] using hs
  | other => simpa [Adaptor.apply] using hs
  | mapFallible =>
    have hc := hc rfl
    simp only [Adaptor.apply, List.all_map, List.all_eq_true] at *
    intro x hx
    have h1 := hs x hx
    have h2 := hc x hx
    cases x with
    | ok p c => cases c <;> simp_all [Item.isOk, Item.converts]
    | srcErr => simp [Item.isOk] at h1
    | convErr => simp [Item.isOk] at h1

theorem apply_converts (a : Adaptor) (s : Script) (hc : s.all Item.converts = true) :
    (a.apply s).all Item.converts = true := by
  cases a with
  | dropErr => simp only [Adaptor.apply, List.all_eq_true] at *; intro x hx; exact hc x (List.mem_filter.mp hx).1
  | endOnErr =>
    simp only [Adaptor.apply, List.all_eq_true] at *
    intro x hx; exact hc x (mem_of_mem_takeWhile' _ _ _ hx)
  | wrapOk => simpa [Adaptor.apply] using hc
  | mapInfallible => simpa [Adaptor.apply] using hc
  | thenPassErr => simpa [Adaptor.apply] using hc
  | other => simpa [Adaptor.apply] using hc
  | mapFallible =>
    simp only [Adaptor.apply, List.all_map, List.all_eq_true] at *
    intro x hx
    have h2 := hc x hx
    cases x with
    | ok p c => cases c <;> simp_all [Item.converts]
    | srcErr => simp [Item.converts]
    | convErr => simp [Item.converts]

/-- the invariant behind `errFree`: once the stream is free of `Err` items it stays so through the rest of the chain (when
    `strict = false`: provided every decoded item converts) -/
theorem applyChain_allOk (strict : Bool) : ∀ (c : List Adaptor) (b : Bool) (s : Script),
    errFree strict b c = true → (b = true → s.all Item.isOk = true) → (strict = false → s.all Item.converts = true) →
    (applyChain c s).all Item.isOk = true := by
  intro c
  induction c with
  | nil => intro b s h hb _; simp only [errFree] at h; simpa [applyChain] using hb h
  | cons a r ih =>
    intro b s h hb hc
    have hconv : strict = false → (a.apply s).all Item.converts = true := fun hs => apply_converts a s (hc hs)
    cases a with
    | dropErr => exact ih true _ (by simpa [errFree] using h) (fun _ => by simp [Adaptor.apply]) hconv
    | endOnErr =>
      exact ih true _ (by simpa [errFree] using h) (fun _ => takeWhile_all Item.isOk s) hconv
    | wrapOk => exact ih b _ (by simpa [errFree] using h) (fun hb' => by simpa [Adaptor.apply] using hb hb') hconv
    | mapInfallible => exact ih b _ (by simpa [errFree] using h) (fun hb' => by simpa [Adaptor.apply] using hb hb') hconv
    | thenPassErr => exact ih b _ (by simpa [errFree] using h) (fun hb' => by simpa [Adaptor.apply] using hb hb') hconv
    | other => simp [errFree] at h
    | mapFallible =>
      cases strict with
      | true =>
        refine ih false _ (by simpa [errFree] using h) (fun hf => by cases hf) (fun hf => by cases hf)
      | false =>
        refine ih b _ (by simpa [errFree] using h) (fun hb' => ?_) hconv
        exact apply_allOk_of_allOk .mapFallible s (hb hb') (fun _ => hc rfl)

theorem payloads_filter_isOk : ∀ (s : Script), payloads (s.filter Item.isOk) = payloads s
  | [] => rfl
  | .ok p c :: r => by simp [List.filter, Item.isOk, payloads, payloads_filter_isOk r]
  | .srcErr :: r => by simp [List.filter, Item.isOk, payloads, payloads_filter_isOk r]
  | .convErr :: r => by simp [List.filter, Item.isOk, payloads, payloads_filter_isOk r]

theorem payloads_mapFallible : ∀ (s : Script), s.all Item.converts = true →
    payloads (s.map (fun i => match i with | .ok _ false => Item.convErr | x => x)) = payloads s
  | [], _ => rfl
  | .ok p c :: r, h => by
    have hr : r.all Item.converts = true := by
      simp only [List.all_cons, Bool.and_eq_true] at h; exact h.2
    have hcv : c = true := by
      simp only [List.all_cons, Bool.and_eq_true, Item.converts] at h; exact h.1
    subst hcv
    simp [payloads, payloads_mapFallible r hr]
  | .srcErr :: r, h => by
    have hr : r.all Item.converts = true := by
      simp only [List.all_cons, Bool.and_eq_true] at h; exact h.2
    simp [payloads, payloads_mapFallible r hr]
  | .convErr :: r, h => by
    have hr : r.all Item.converts = true := by
      simp only [List.all_cons, Bool.and_eq_true] at h; exact h.2
    simp [payloads, payloads_mapFallible r hr]

/-- a lossless chain hands `forward` exactly the payloads the source decoded (when they all convert) -/
theorem applyChain_payloads : ∀ (c : List Adaptor) (s : Script), lossless c = true → s.all Item.converts = true →
    payloads (applyChain c s) = payloads s := by
  intro c
  induction c with
  | nil => intro s _ _; rfl
  | cons a r ih =>
    intro s hl hc
    have hr : lossless r = true := by
      simp only [lossless, List.all_cons, Bool.and_eq_true] at hl ⊢; exact hl.2
    have hconv := apply_converts a s hc
    simp only [applyChain]
    rw [ih _ hr hconv]
    cases a with
    | dropErr => exact payloads_filter_isOk s
    | wrapOk => rfl
    | mapInfallible => rfl
    | thenPassErr => rfl
    | mapFallible => exact payloads_mapFallible s hc
    | endOnErr => simp [lossless] at hl
    | other => simp [lossless] at hl

/-- **(a)** a pump whose chain drops the source's errors: however the source ends - cleanly or by an error, at any point -
    `forward` flushes and closes the sink (the other side sees end-of-stream), provided the decoded items convert -/
theorem Pump.flushes_of_errorsDropped (p : Pump) (h : p.errorsDropped = true) (s : Script)
    (hc : s.all Item.converts = true) : (forward (applyChain p.chain s)).flushedClosed = true := by
  have := applyChain_allOk false p.chain false s h (fun hf => by cases hf) (fun _ => hc)
  rw [forward_of_allOk _ this]

/-- .. with no adaptor that makes errors behind the drop, this needs no proviso -/
theorem Pump.flushes_of_noNewErrors (p : Pump) (h : p.noNewErrors = true) (s : Script) :
    (forward (applyChain p.chain s)).flushedClosed = true := by
  have := applyChain_allOk true p.chain false s h (fun hf => by cases hf) (fun hf => by cases hf)
  rw [forward_of_allOk _ this]

/-- .. and everything the source decoded - before and after its error - has been handed to the sink before it is closed -/
theorem Pump.delivers_of_errorsDropped (p : Pump) (h : p.errorsDropped = true) (hl : lossless p.chain = true) (s : Script)
    (hc : s.all Item.converts = true) : forward (applyChain p.chain s) = ⟨payloads s, true⟩ := by
  have := applyChain_allOk false p.chain false s h (fun hf => by cases hf) (fun _ => hc)
  rw [forward_of_allOk _ this, applyChain_payloads _ _ hl hc]

theorem errFree_mono (strict : Bool) : ∀ (c : List Adaptor) (b : Bool), errFree strict false c = true → errFree strict b c = true := by
  intro c
  induction c with
  | nil => intro b h; simp [errFree] at h
  | cons a r ih =>
    intro b h
    cases a with
    | dropErr => simpa [errFree] using h
    | endOnErr => simpa [errFree] using h
    | wrapOk => exact (by simpa [errFree] using ih b (by simpa [errFree] using h))
    | mapInfallible => exact (by simpa [errFree] using ih b (by simpa [errFree] using h))
    | thenPassErr => exact (by simpa [errFree] using ih b (by simpa [errFree] using h))
    | other => simp [errFree] at h
    | mapFallible =>
      cases strict with
      | true => simpa [errFree] using h
      | false => exact (by simpa [errFree] using ih b (by simpa [errFree] using h))

/-- the prefix of a chain does not matter: adaptors in front of a chain that drops errors (e.g. the `then(..)` of
    `relay_udp_bidirectional` in front of `relay_bidirectional`'s own chain) keep it dropping -/
theorem errFree_prefix (strict : Bool) : ∀ (pre c : List Adaptor) (b : Bool), pre.all (· != .other) = true →
    errFree strict false c = true → errFree strict b (pre ++ c) = true := by
  intro pre
  induction pre with
  | nil => intro c b _ h; simpa using errFree_mono strict c b h
  | cons a r ih =>
    intro c b hp h
    have hr : r.all (· != .other) = true := by
      simp only [List.all_cons, Bool.and_eq_true] at hp; exact hp.2
    cases a with
    | other => simp at hp
    | dropErr => simpa [errFree] using ih c true hr h
    | endOnErr => simpa [errFree] using ih c true hr h
    | wrapOk => simpa [errFree] using ih c b hr h
    | mapInfallible => simpa [errFree] using ih c b hr h
    | thenPassErr => simpa [errFree] using ih c b hr h
    | mapFallible => simpa [errFree] using ih c _ hr h

/-- conversely: a chain with no adaptor at all (the source is forwarded as it is): an error of the source, after any number of
    decoded items, leaves the sink unflushed and unclosed -/
theorem forward_unadapted_err (pre post : Script) (hpre : pre.all Item.isOk = true) :
    (forward (applyChain [] (pre ++ .srcErr :: post))).flushedClosed = false := by
  simp [applyChain, forward_of_err pre .srcErr post hpre rfl]

/-! ## (b) try_join -/

theorem any_err_of_all_err : ∀ (ps : List Pump) (states : List PumpState), ps.length = states.length →
    ps.all (fun p => p.okArmErr && p.errArmErr) = true → states.any (· != .running) = true →
    (List.zipWith Pump.returns ps states).any (· == some true) = true
  | [], [], _, _, h => by simp at h
  | [], _ :: _, hl, _, _ => by simp at hl
  | _ :: _, [], hl, _, _ => by simp at hl
  | p :: ps, st :: sts, hl, hp, hs => by
    simp only [List.all_cons, Bool.and_eq_true] at hp
    simp only [List.any_cons, Bool.or_eq_true] at hs
    simp only [List.zipWith_cons_cons, List.any_cons, Bool.or_eq_true]
    rcases hs with h | h
    · left
      cases st <;> simp_all [Pump.returns]
    · right
      exact any_err_of_all_err ps sts (by simpa using hl) hp.2 h

/-- **(b)** both arms of every pump map to `Err(..)` and the pumps are joined by `try_join!`: as soon as EITHER pump has
    ended - cleanly or not - the join has returned, whatever the other pump is doing -/
theorem Flow.joinDone_of_eitherEndsBoth (f : Flow) (h : f.eitherEndsBoth = true) (states : List PumpState)
    (hl : states.length = f.pumps.length) (hs : states.any (· != .running) = true) : f.joinDone states = true := by
  simp only [Flow.eitherEndsBoth, Bool.and_eq_true, beq_iff_eq] at h
  obtain ⟨⟨⟨hj, hp⟩, _⟩, _⟩ := h
  simp only [Flow.joinDone, hj, joinReturns, Bool.or_eq_true]
  left
  exact any_err_of_all_err f.pumps states hl.symm hp hs

/-! ## (c) terminal arms -/

theorem sum_map_zero (l : List Nat) (g : Nat → Nat) (h : l = []) : (l.map g).sum = 0 := by subst h; rfl

/-- **(c)** a terminal arm without await and loop, with no await behind its fork: the function has returned - and dropped the
    inbound connection it owns - without waiting for anything, whatever the delays -/
theorem TerminalArm.elapsed_zero_of_prompt (a : TerminalArm) (h : a.prompt = true) (delay : Nat → Nat) :
    a.elapsed delay = 0 := by
  simp only [TerminalArm.prompt, Bool.and_eq_true, beq_iff_eq] at h
  obtain ⟨⟨h1, h2⟩, h3⟩ := h
  simp [TerminalArm.elapsed, h1, h2, h3]

/-- conversely an arm with a suspension point takes as long as the peer likes -/
theorem TerminalArm.elapsed_unbounded (a : TerminalArm) (h : a.prompt = false) (bound : Nat) :
    ∃ delay, a.elapsed delay > bound := by
  refine ⟨fun _ => bound + 1, ?_⟩
  have hn : a.awaits + a.loops + a.awaitsAfter ≠ 0 := by
    intro hz
    have h1 : a.awaits = 0 := by omega
    have h2 : a.loops = 0 := by omega
    have h3 : a.awaitsAfter = 0 := by omega
    simp [TerminalArm.prompt, h1, h2, h3] at h
  simp only [TerminalArm.elapsed]
  generalize a.awaits + a.loops + a.awaitsAfter = n at hn
  cases n with
  | zero => exact absurd rfl hn
  | succ m =>
    rw [List.range_succ_eq_map]
    simp only [List.map_cons, List.sum_cons]
    omega

/-! ## (d) close after relay -/

theorem reachesClose_of : ∀ (sites : List FSite) (k : Nat) (fails : Nat → Bool),
    sites.any FSite.isClose = true →
    (sites.takeWhile (fun s => !s.isClose)).all (fun s => s.kind == .question && s.awaitFree && s.depth == 0) = true →
    (∀ i (s : FSite), s ∈ sites → s.kind = .question → s.awaitFree = true → fails i = false) →
    reachesClose fails k sites = true
  | [], _, _, h, _, _ => by simp at h
  | s :: r, k, fails, h, hq, hf => by
    unfold reachesClose
    by_cases hc : s.isClose = true
    · simp [hc]
    · have hc' : s.isClose = false := by simpa using hc
      simp only [hc', Bool.false_eq_true, if_false]
      simp only [List.takeWhile_cons, hc', Bool.not_false, if_true, List.all_cons, Bool.and_eq_true, beq_iff_eq] at hq
      obtain ⟨⟨⟨hk, haf⟩, _⟩, hrest⟩ := hq
      have hnr : (s.kind == FKind.return_) = false := by rw [hk]; rfl
      have hfl : fails k = false := hf k s (by simp) hk haf
      simp only [hnr, Bool.false_eq_true, if_false, hfl, Bool.and_false]
      apply reachesClose_of r (k + 1) fails
      · simpa [hc'] using h
      · exact hrest
      · intro i s' hs'; exact hf i s' (by simp [hs'])

/-- **(d)** after the relay the function goes on, in its straight line, to `close().await`; the only things in between are `?`
    on expressions without await (they fail for local reasons only, not by anything the peer does later): unless one of those
    fails, `close` is reached -/
theorem closeReached (f : Flow) (h : closeAfterRelay f = true) (fails : Nat → Bool)
    (hf : ∀ i (s : FSite), s ∈ afterRelay f → s.kind = .question → s.awaitFree = true → fails i = false) :
    reachesClose fails 0 (afterRelay f) = true := by
  simp only [closeAfterRelay, Bool.and_eq_true] at h
  exact reachesClose_of _ 0 fails h.1.2 h.2 hf

end Octo.Flows
