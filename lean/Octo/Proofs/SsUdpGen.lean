import Octo.Gen.SsUdpGen
import Octo.Proofs.AddrGen
import Octo.Proofs.AddrOrd
import Octo.Model.SsUdp
import Octo.Proofs.SsUdpRound
/-!
  The generated code (`Octo.SsUdpGen`, written by `translate_ssudp.py` from `octo-squirrel/src/codec/shadowsocks/udp.rs`
  and the files it names) against the hand-written model `Octo.SsUdp` (`Octo/Model/SsUdp.lean`).

  Part 0: the instantiation `XM` of the assumed externals by the hand model's `Crypto` interface.
  Part 1: evaluation of the small translated functions and of the primitives.
  Part 2: `decode_client_packet_aead_2022` (server side) = `SsUdp.decode .. .server`.
  Part 3: `CipherKey::cmp` is a total order consistent with equality of all three fields.
-/
set_option linter.unusedSimpArgs false
set_option linter.unusedVariables false
namespace Octo.SsUdpGen
open Octo Octo.PWGen Octo.AddrGen Octo.Addr

/-! ## Part 0 — the externals, instantiated by the hand model -/

def toKind : CipherKind → Option Ss.Kind
  | .Aes128Gcm => some .aes128
  | .Aes256Gcm => some .aes256
  | .ChaCha20Poly1305 => some .chacha20
  | .Aead2022Blake3Aes128Gcm => some .b3aes128
  | .Aead2022Blake3Aes256Gcm => some .b3aes256
  | .Aead2022Blake3ChaCha8Poly1305 => some .b3chacha8
  | .Aead2022Blake3ChaCha20Poly1305 => some .b3chacha20
  | .Unknown => none

def toMode : Mode → Ss.Mode
  | .Client => .client
  | .Server => .server

def toUser (u : ServerUser) : Ss.User := ⟨String.ofList (u.name.bytes.map fun b => Char.ofNat b.toNat), u.key, u.identity_hash⟩

/-- the types behind the externals: the list of registered users, a keyed AEAD (algorithm, key), the model's authenticator -/
@[reducible] def MT : ExtTypes := ⟨List ServerUser, Alg × Bytes, Ss.Auth, Ss.Auth⟩

def toSession (s : Session) : SsUdp.Session :=
  ⟨s.client_session_id.toNat, s.server_session_id.toNat, s.packet_id.toNat, s.user.map toUser⟩

def toCtx (k : Ss.Kind) (c : Context MT) : Ss.Ctx := ⟨k, c.key, c.identity_keys, (c.user_manager.getD []).map toUser⟩

structure MEnv where
  C : Crypto
  now : Nat
  trace : Bool
  /-- randomness of the encoder: padding length drawn for an empty payload, the padding bytes, the bytes `fill_bytes` writes
  (salt / XChaCha nonce) -/
  padLen : Nat := 0
  padding : Bytes := []
  rnd : Bytes := []
  /-- what the spare capacity holds where `advance_mut` exposes it -/
  junk : UInt64 → Bytes := fun _ => []

/-- the assumed externals, instantiated by the functions of the hand model -/
def XM (E : MEnv) : Ext MT where
  udp_nonce_length kind := match toKind kind with
    | some k => if k.is2022 then .ok (UInt64.ofNat (SsUdp.nonceLen k)) else .panic
    | none => .panic
  udp_aes_decrypt_in_place kind key buf := match toKind kind with
    | some k => if k.supportEih then .ok (E.C.aesDec key buf, .ok ()) else .ok (buf, .err)
    | none => .ok (buf, .err)
  get_cipher kind key sid := match toKind kind with
    | some k => if k.is2022 then
        (match SsUdp.xAlg k with
         | none => .ok (k.alg, SsUdp.aesSessionKey E.C k key sid.toNat)
         | some xa => .ok (xa, key.take 32))
      else .panic
    | none => .panic
  CipherMethod_decrypt_in_place c nonce aad buf := match E.C.openB c.1 c.2 nonce aad buf with
    | some p => .ok (p, .ok ())
    | none => .ok (buf, .err)
  CipherMethod_decrypt_in_place_detached c nonce aad buf :=
    if buf.length < 16 then .panic else
    match E.C.openB c.1 c.2 nonce aad buf with
    | some p => .ok (p ++ buf.drop (buf.length - 16), .ok ())
    | none => .ok (buf, .err)
  CipherKind_tag_size kind := match toKind kind with
    | some _ => .ok 16
    | none => .panic
  ServerUserManager_user_count m := .ok (UInt64.ofNat m.length)
  ServerUserManager_clone_user_by_hash m h := .ok (m.find? (fun u => u.identity_hash = h))
  aead_new_decoder kind key salt := match toKind kind with
    | some k => .ok (.ok (Ss.newAuth E.C k key salt))
    | none => .panic
  ChunkDecoder_decode_packet a src := match Ss.Auth.openB E.C a src with
    | (some p, a') => .ok (a', [], .ok p)
    | (none, a') => .ok (a', [], .err)
  aead_2022_now := .ok (.ok (UInt64.ofNat E.now))
  aead_2022_next_padding_length msg := .ok (if msg.isEmpty then UInt16.ofNat E.padLen else 0)
  dice_roll_bytes n := .ok (E.padding.take n.toNat)
  dice_fill_bytes buf := .ok ((E.rnd ++ List.replicate buf.length 0).take buf.length, ())
  udp_with_eih kind key iks sidPid dst := match toKind kind with
    | some k => if k.supportEih then .ok (dst ++ SsUdp.withEih E.C key sidPid iks, .ok ()) else .ok (dst, .err)
    | none => .ok (dst, .err)
  udp_aes_encrypt_in_place kind key buf := match toKind kind with
    | some k => if k.supportEih then .ok (E.C.aesEnc key buf, .ok ()) else .ok (buf, .err)
    | none => .ok (buf, .err)
  CipherMethod_encrypt_in_place_detached c nonce aad buf :=
    if buf.length < 16 then .panic else .ok (E.C.sealB c.1 c.2 nonce aad (buf.take (buf.length - 16)), .ok ())
  aead_new_encoder kind key salt := match toKind kind with
    | some k => .ok (.ok (Ss.newAuth E.C k key salt))
    | none => .panic
  ChunkEncoder_encode_packet a src dst := .ok ((Ss.Auth.sealB E.C a src).2, dst ++ (Ss.Auth.sealB E.C a src).1, .ok ())
  spare_bytes n := E.junk n

/-- how a result of the generated decoders is read: the final `*src` is not part of the datagram's outcome -/
def embed : PWGen.Res (Cursor × RResult (Cursor × Address × Session)) → Octo.Res (Bytes × Addr × SsUdp.Session)
  | .ok (_, .ok (p, a, s)) => .ok (p, toAddr a, toSession s)
  | .ok (_, .err) => .err
  | .panic => .panic

/-! ## Part 1 — evaluation of the small functions and of the primitives -/

section flow
variable {α β ρ : Type}
theorem bind_next (a : α) (k : α → Flow β ρ) : (Flow.next a : Flow α ρ).bind k = k a := rfl
theorem bind_ret (r : ρ) (k : α → Flow β ρ) : (Flow.ret r : Flow α ρ).bind k = Flow.ret r := rfl
theorem bind_panic (k : α → Flow β ρ) : (Flow.panic : Flow α ρ).bind k = Flow.panic := rfl
theorem run_ret (r : ρ) : Flow.run (Flow.ret r : Flow Empty ρ) = PWGen.Res.ok r := rfl
theorem run_panic : Flow.run (Flow.panic : Flow Empty ρ) = PWGen.Res.panic := rfl
theorem call_ok (a : α) : (Flow.call (PWGen.Res.ok a) : Flow α ρ) = Flow.next a := rfl
theorem call_panic : (Flow.call (PWGen.Res.panic : PWGen.Res α) : Flow α ρ) = Flow.panic := rfl
theorem unwrap_some (a : α) : (Flow.unwrap (some a) : Flow α ρ) = Flow.next a := rfl
theorem arith_true (ov : Bool) : (Flow.arith ov true : Flow Unit ρ) = Flow.next () := by cases ov <;> rfl
theorem q_ok (v : α) (e : ρ) : (Flow.question (RResult.ok v) e : Flow α ρ) = Flow.next v := rfl
theorem q_err (e : ρ) : (Flow.question (RResult.err : RResult α) e : Flow α ρ) = Flow.ret e := rfl
end flow

theorem to_u8_eval (ov : Bool) (m : Mode) : Mode.to_u8 ov m = PWGen.Res.ok (toMode m).toU8 := by cases m <;> rfl
theorem expect_u8_eval (ov : Bool) (m : Mode) : Mode.expect_u8 ov m = PWGen.Res.ok (toMode m).expectU8 := by cases m <;> rfl

theorem is_aead_2022_eval (ov : Bool) (kind : CipherKind) (k : Ss.Kind) (h : toKind kind = some k) :
    CipherKind.is_aead_2022 ov kind = PWGen.Res.ok k.is2022 := by
  cases kind <;> simp [toKind] at h <;> subst h <;> rfl

theorem support_eih_eval (ov : Bool) (kind : CipherKind) (k : Ss.Kind) (h : toKind kind = some k) :
    CipherKind.support_eih ov kind = PWGen.Res.ok k.supportEih := by
  cases kind <;> simp [toKind] at h <;> subst h <;> rfl

theorem window_eq : SERVER_STREAM_TIMESTAMP_MAX_DIFF.toNat = Consts.ssMaxTimeDiff := by decide

theorem abs_diff_toNat (a b : UInt64) : (U64.abs_diff a b).toNat = Ss.absDiff a.toNat b.toNat := by
  unfold U64.abs_diff Ss.absDiff
  by_cases h : a ≤ b
  · have h' : a.toNat ≤ b.toNat := UInt64.le_iff_toNat_le.mp h
    rw [if_pos h, if_pos h', UInt64.toNat_sub_of_le _ _ h]
  · have h' : ¬ a.toNat ≤ b.toNat := fun x => h (UInt64.le_iff_toNat_le.mpr x)
    have h2 : b ≤ a := UInt64.le_iff_toNat_le.mpr (by omega)
    rw [if_neg h, if_neg h', UInt64.toNat_sub_of_le _ _ h2]

/-- `validate_timestamp` is the model's window test (clock `E.now`, the constant read from the source) -/
theorem validate_timestamp_eval (ov : Bool) (E : MEnv) (ts : UInt64) (hnow : E.now < 2 ^ 64) :
    validate_timestamp ov (XM E) ts =
      PWGen.Res.ok (if Ss.absDiff E.now ts.toNat > Consts.ssMaxTimeDiff then RResult.err else RResult.ok ()) := by
  have e1 : (UInt64.ofNat E.now).toNat = E.now := by simp [UInt64.toNat_ofNat']; omega
  have e2 : (U64.abs_diff (UInt64.ofNat E.now) ts > SERVER_STREAM_TIMESTAMP_MAX_DIFF) ↔
      Ss.absDiff E.now ts.toNat > Consts.ssMaxTimeDiff := by
    rw [GT.gt, UInt64.lt_iff_toNat_lt, abs_diff_toNat, e1, window_eq]
  unfold validate_timestamp
  simp only [XM, call_ok, bind_next, q_ok]
  by_cases h : Ss.absDiff E.now ts.toNat > Consts.ssMaxTimeDiff
  · rw [if_pos h, decide_eq_true (e2.mpr h)]; rfl
  · rw [if_neg h, decide_eq_false (fun x => h (e2.mp x))]; rfl

theorem remaining_toNat (b : List UInt8) (hb : b.length < 2 ^ 64) : (Cursor.remaining b).toNat = b.length := by
  simp [Cursor.remaining, UInt64.toNat_ofNat']; omega

theorem remaining_lt (b : List UInt8) (hb : b.length < 2 ^ 64) (x : Usize) :
    decide (Cursor.remaining b < x) = decide (b.length < x.toNat) := by
  rw [decide_eq_decide, UInt64.lt_iff_toNat_lt, remaining_toNat b hb]

theorem get_u8_eval {ρ : Type} (h : List UInt8) (hl : 1 ≤ h.length) :
    (Flow.get_u8 h : Flow _ ρ) = Flow.next (h.drop 1, h.headD 0) := by
  cases h with
  | nil => simp at hl
  | cons x r => rfl
theorem get_u64_eval {ρ : Type} (h : List UInt8) (hl : 8 ≤ h.length) :
    (Flow.get_u64 h : Flow _ ρ) = Flow.next (h.drop 8, UInt64.ofNat (beNat (h.take 8))) := by simp [Flow.get_u64, hl]
theorem get_u16_eval {ρ : Type} (h : List UInt8) (hl : 2 ≤ h.length) :
    (Flow.get_u16 h : Flow _ ρ) = Flow.next (h.drop 2, UInt16.ofNat (beNat (h.take 2))) := by simp [Flow.get_u16, hl]
theorem advance_eval {ρ : Type} (b : List UInt8) (n : Usize) (h : n.toNat ≤ b.length) :
    (Flow.advance b n : Flow _ ρ) = Flow.next (b.drop n.toNat) := by simp [Flow.advance, h]
theorem split_to_eval {ρ : Type} (b : List UInt8) (n : Usize) (h : n.toNat ≤ b.length) :
    (Flow.split_to b n : Flow _ ρ) = Flow.next (b.drop n.toNat, b.take n.toNat) := by simp [Flow.split_to, h]
theorem split_off_eval {ρ : Type} (b : List UInt8) (n : Usize) (h : n.toNat ≤ b.length) :
    (Flow.split_off b n : Flow _ ρ) = Flow.next (b.take n.toNat, b.drop n.toNat) := by simp [Flow.split_off, h]
theorem split_at_eval {ρ : Type} (b : List UInt8) (n : Usize) (h : n.toNat ≤ b.length) :
    (Flow.split_at b n : Flow _ ρ) = Flow.next (b.take n.toNat, b.drop n.toNat) := by simp [Flow.split_at, h]
theorem slice_eval {ρ : Type} (b : List UInt8) (lo hi : Usize) (h1 : lo.toNat ≤ hi.toNat) (h2 : hi.toNat ≤ b.length) :
    (Flow.slice b lo hi : Flow _ ρ) = Flow.next ((b.take hi.toNat).drop lo.toNat) := by simp [Flow.slice, h1, h2]
theorem copy_from_slice_eval {ρ : Type} (d s : List UInt8) (h : d.length = s.length) :
    (Flow.copy_from_slice d s : Flow _ ρ) = Flow.next s := by simp [Flow.copy_from_slice, h]
theorem io_get_u64_eval {ρ : Type} (b : List UInt8) (pos : Usize) (h : 8 ≤ b.length - pos.toNat) :
    (Flow.io_get_u64 ⟨b, pos⟩ : Flow _ ρ) = Flow.next (⟨b, pos + 8⟩, UInt64.ofNat (beNat ((b.drop pos.toNat).take 8))) := by
  simp [Flow.io_get_u64, h]

theorem beNat_take_lt (h : List UInt8) (n : Nat) : beNat (h.take n) < 256 ^ n := by
  have := beNat_lt (h.take n)
  have hl : (h.take n).length ≤ n := by simp [List.length_take]; omega
  exact Nat.lt_of_lt_of_le this (Nat.pow_le_pow_right (by decide) hl)

theorem u64_of_be8 (h : List UInt8) : (UInt64.ofNat (beNat (h.take 8))).toNat = rdBE (h.take 8) := by
  have := beNat_take_lt h 8
  rw [UInt64.toNat_ofNat_of_lt' (Nat.lt_of_lt_of_le this (by decide))]; rfl

theorem u16_len (h : List UInt8) : (U16.as_usize (UInt16.ofNat (beNat (h.take 2)))).toNat = rdBE (h.take 2) := by
  have := beNat_take_lt h 2
  have e : (UInt16.ofNat (beNat (h.take 2))).toNat = beNat (h.take 2) := UInt16.toNat_ofNat_of_lt' (Nat.lt_of_lt_of_le this (by decide))
  have e2 : (UInt64.ofNat (beNat (h.take 2))).toNat = beNat (h.take 2) := UInt64.toNat_ofNat_of_lt' (Nat.lt_of_lt_of_le this (by decide))
  rw [U16.as_usize, e, e2]; rfl

theorem xor_zip_eq : ∀ (a b : List UInt8), a.length ≤ b.length → Bytes.xor_zip a b = xorBytes a b
  | [], b, _ => by cases b <;> simp [Bytes.xor_zip, xorBytes]
  | x :: a, [], h => by simp at h
  | x :: a, y :: b, h => by
    have := xor_zip_eq a b (by simpa using h)
    simp only [Bytes.xor_zip, this, xorBytes, List.zipWith_cons_cons]

/-! the externals under `XM`, one evaluation lemma each (so that `XM` itself stays folded) -/
section ext
variable (E : MEnv) (kind : CipherKind) (k : Ss.Kind) (hk : toKind kind = some k)
include hk
theorem nonce_length_eval (h22 : k.is2022 = true) :
    (XM E).udp_nonce_length kind = PWGen.Res.ok (UInt64.ofNat (SsUdp.nonceLen k)) := by simp [XM, hk, h22]
theorem tag_size_eval : (XM E).CipherKind_tag_size kind = PWGen.Res.ok 16 := by simp [XM, hk]
theorem aes_dec_eval (he : k.supportEih = true) (key buf : Bytes) :
    (XM E).udp_aes_decrypt_in_place kind key buf = PWGen.Res.ok (E.C.aesDec key buf, RResult.ok ()) := by simp [XM, hk, he]
theorem get_cipher_aes_eval (h22 : k.is2022 = true) (hx : SsUdp.xAlg k = none) (key : Bytes) (sid : UInt64) :
    (XM E).get_cipher kind key sid = PWGen.Res.ok (k.alg, SsUdp.aesSessionKey E.C k key sid.toNat) := by simp [XM, hk, h22, hx]
theorem get_cipher_x_eval (h22 : k.is2022 = true) (xa : Alg) (hx : SsUdp.xAlg k = some xa) (key : Bytes) (sid : UInt64) :
    (XM E).get_cipher kind key sid = PWGen.Res.ok (xa, key.take 32) := by simp [XM, hk, h22, hx]
end ext

theorem dip_eval (E : MEnv) (c : Alg × Bytes) (nonce aad buf : Bytes) :
    (XM E).CipherMethod_decrypt_in_place c nonce aad buf = match E.C.openB c.1 c.2 nonce aad buf with
      | some p => PWGen.Res.ok (p, RResult.ok ())
      | none => PWGen.Res.ok (buf, RResult.err) := rfl
theorem dipd_eval (E : MEnv) (c : Alg × Bytes) (nonce aad buf : Bytes) (h : 16 ≤ buf.length) :
    (XM E).CipherMethod_decrypt_in_place_detached c nonce aad buf = match E.C.openB c.1 c.2 nonce aad buf with
      | some p => PWGen.Res.ok (p ++ buf.drop (buf.length - 16), RResult.ok ())
      | none => PWGen.Res.ok (buf, RResult.err) := by
  have : ¬ buf.length < 16 := by omega
  simp [XM, this]
theorem user_count_eval (E : MEnv) (m : List ServerUser) :
    (XM E).ServerUserManager_user_count m = PWGen.Res.ok (UInt64.ofNat m.length) := rfl
theorem clone_eval (E : MEnv) (m : List ServerUser) (h : Bytes) :
    (XM E).ServerUserManager_clone_user_by_hash m h = PWGen.Res.ok (m.find? (fun u => u.identity_hash = h)) := rfl

theorem findUser_map (m : List ServerUser) (h : Bytes) :
    Ss.findUser (m.map toUser) h = (m.find? (fun u => u.identity_hash = h)).map toUser := by
  induction m with
  | nil => rfl
  | cons u m ih =>
    simp only [List.map_cons, Ss.findUser, List.find?_cons] at ih ⊢
    by_cases hu : u.identity_hash = h
    · simp [toUser, hu]
    · simp only [toUser, hu, decide_false] at ih ⊢
      exact ih

/-! ## Part 2 — `decode_client_packet_aead_2022` -/

/-- the part common to all cipher families: type, timestamp, padding, address -/
theorem tail_server (ov : Bool) (E : MEnv) (N : Usize) (src p : List UInt8) (sid pid : UInt64) (user : Option ServerUser)
    (hnow : E.now < 2 ^ 64) (hp : 11 ≤ p.length) (hp2 : p.length < 2 ^ 64) :
    embed (Flow.run (
      (Flow.get_u8 p).bind fun x_1 =>
            ((Flow.call (Mode.to_u8 ov Mode.Client)).bind fun v73 =>
                  if (x_1.snd != v73) = true then
                    (Flow.call (Mode.to_u8 ov Mode.Client)).bind fun v74 => Flow.ret (src, RResult.err)
                  else Flow.next ()).bind
              fun x_2 =>
              (Flow.get_u64 x_1.fst).bind fun x_3 =>
                (Flow.call (validate_timestamp ov (XM E) x_3.snd)).bind fun v76 =>
                  (Flow.question v76 (src, RResult.err)).bind fun v77 =>
                    (Flow.get_u16 x_3.fst).bind fun x_4 =>
                      (if decide (Cursor.remaining x_4.fst < U16.as_usize x_4.snd) = true then
                            Flow.ret (src, RResult.err)
                          else Flow.next ()).bind
                        fun x_5 =>
                        (if decide (0 < x_4.snd) = true then
                              (Flow.advance x_4.fst (U16.as_usize x_4.snd)).bind fun packet => Flow.next packet
                            else Flow.next x_4.fst).bind
                          fun packet =>
                          (Flow.call (Session.new ov (XM E) N sid 0 pid user)).bind fun v79 =>
                            (Flow.call (decode ov packet)).bind fun x_6 =>
                              (Flow.question x_6.snd (src, RResult.err)).bind fun v81 =>
                                Flow.ret (src, RResult.ok (x_6.fst, v81, v79)))) =
    (if List.headD p 0 ≠ Ss.Mode.server.expectU8 then Res.err
      else
        if Consts.ssMaxTimeDiff < Ss.absDiff E.now (rdBE (List.take 8 (List.drop 1 p))) then Res.err
        else
          if (List.drop 9 p).length < 2 + rdBE (List.take 2 (List.drop 9 p)) then Res.err
          else
            match Socks5Addr.decode (List.drop (2 + rdBE (List.take 2 (List.drop 9 p))) (List.drop 9 p)) with
            | .ok (addr, rest) => .ok (rest, addr, ⟨sid.toNat, 0, pid.toNat, user.map toUser⟩)
            | .panic => .panic
            | _ => .err) := by
  rw [get_u8_eval p (by omega)]
  simp only [bind_next, to_u8_eval, call_ok, toMode, Ss.Mode.toU8, Ss.Mode.expectU8]
  by_cases g2' : ¬ p.headD 0 = 0
  · simp only [g2', bne_iff_ne, ne_eq, not_false_eq_true, if_true, bind_ret, Flow.run, embed]
  have g2 : p.headD 0 = 0 := Classical.not_not.mp g2'
  simp only [g2, bne_self_eq_false, Bool.false_eq_true, if_false, bind_next, ne_eq, not_true_eq_false]
  rw [get_u64_eval _ (by simp only [List.length_drop]; omega)]
  simp only [bind_next, validate_timestamp_eval ov E _ hnow, call_ok, u64_of_be8]
  by_cases g3 : Consts.ssMaxTimeDiff < Ss.absDiff E.now (rdBE (List.take 8 (List.drop 1 p)))
  · simp only [gt_iff_lt, g3, if_true, q_err, bind_ret, Flow.run, embed]
  simp only [gt_iff_lt, g3, if_false, q_ok, bind_next]
  rw [get_u16_eval _ (by simp only [List.length_drop]; omega)]
  simp only [bind_next, List.drop_drop, Nat.reduceAdd]
  rw [remaining_lt _ (by simp only [List.length_drop]; omega), u16_len]
  by_cases g4 : (List.drop 9 p).length < 2 + rdBE (List.take 2 (List.drop 9 p))
  · have : (List.drop 11 p).length < rdBE (List.take 2 (List.drop 9 p)) := by simp only [List.length_drop] at g4 ⊢; omega
    simp only [this, g4, decide_true, if_true, bind_ret, Flow.run, embed]
  have g4' : ¬ (List.drop 11 p).length < rdBE (List.take 2 (List.drop 9 p)) := by simp only [List.length_drop] at g4 ⊢; omega
  simp only [g4, g4', decide_false, Bool.false_eq_true, if_false, bind_next]
  have hadv : (if decide (0 < UInt16.ofNat (beNat (List.take 2 (List.drop 9 p)))) = true then
        (Flow.advance (List.drop 11 p) (U16.as_usize (UInt16.ofNat (beNat (List.take 2 (List.drop 9 p)))))).bind fun packet => Flow.next packet
      else (Flow.next (List.drop 11 p) : Flow (List UInt8) (Cursor × RResult (Cursor × Address × Session)))) =
      Flow.next (List.drop (2 + rdBE (List.take 2 (List.drop 9 p))) (List.drop 9 p)) := by
    have e : List.drop (2 + rdBE (List.take 2 (List.drop 9 p))) (List.drop 9 p) =
        List.drop (rdBE (List.take 2 (List.drop 9 p))) (List.drop 11 p) := by
      rw [List.drop_drop, List.drop_drop]; congr 1; omega
    rw [e]
    split
    · rw [advance_eval _ _ (by rw [u16_len]; omega), u16_len]; rfl
    · rename_i h0
      have : rdBE (List.take 2 (List.drop 9 p)) = 0 := by
        rw [← u16_len]
        have : UInt16.ofNat (beNat (List.take 2 (List.drop 9 p))) = 0 := by
          simp only [decide_eq_true_eq] at h0
          exact UInt16.le_antisymm (UInt16.not_lt.mp h0) (by simp [UInt16.le_iff_toNat_le])
        rw [this]; rfl
      rw [this]; rfl
  rw [hadv]
  simp only [bind_next, Session.new, Flow.run, call_ok, List.drop_drop]
  have hl : (List.drop (9 + (2 + rdBE (List.take 2 (List.drop 9 p)))) p).length < 2 ^ 64 := by
    simp only [List.length_drop]; omega
  rw [← decode_eq ov _ hl]
  cases hd : decode ov (List.drop (9 + (2 + rdBE (List.take 2 (List.drop 9 p)))) p) with
  | panic => simp only [call_panic, bind_panic, embed, embedDecode]
  | ok v =>
    obtain ⟨r, res⟩ := v
    cases res with
    | err => simp only [call_ok, bind_next, bind_ret, q_err, embed, embedDecode]
    | ok a => simp only [call_ok, bind_next, q_ok, embed, embedDecode, toSession]; rfl

/-- **`decode_client_packet_aead_2022`, AES kinds, no registered users** = the model's `decode` in server mode: same outcome
class (never a panic), same payload, address, session id, packet id -/
theorem decode_client_aes_psk_eq (ov : Bool) (E : MEnv) (N : Usize) (codec : AEADCipherCodec) (c : Context MT) (b : List UInt8) (k : Ss.Kind)
    (hk : toKind codec.kind = some k) (hx : SsUdp.xAlg k = none) (h22 : k.is2022 = true)
    (hum : (c.user_manager.getD []) = [])
    (hb : b.length < 2 ^ 64) (hnow : E.now < 2 ^ 64)
    (hopen : ∀ a key n ad ct p, E.C.openB a key n ad ct = some p → ct.length = p.length + 16)
    (haes : ∀ key x, (E.C.aesDec key x).length = 16) :
    embed (AEADCipherCodec.decode_client_packet_aead_2022 ov (XM E) N codec c b) =
      SsUdp.decode E.C (toCtx k c) .server E.now b := by
  have he : k.supportEih = true := by cases k <;> simp_all [SsUdp.xAlg, Ss.Kind.is2022, Ss.Kind.supportEih]
  have hnl : SsUdp.nonceLen k = 0 := by simp [SsUdp.nonceLen, hx]
  unfold AEADCipherCodec.decode_client_packet_aead_2022 SsUdp.decode
  simp only [nonce_length_eval E _ k hk h22, tag_size_eval E _ k hk, support_eih_eval ov _ k hk, he, hnl, h22, call_ok, bind_next,
    toCtx, hum, hx, List.map_nil, List.length_nil]
  have hum' : c.user_manager = none ∨ c.user_manager = some [] := by
    cases hm : c.user_manager with
    | none => exact .inl rfl
    | some u => simp [hm] at hum; subst hum; exact .inr rfl
  have hkk : codec.kind = .Aead2022Blake3Aes128Gcm ∨ codec.kind = .Aead2022Blake3Aes256Gcm := by
    cases hkd : codec.kind <;> simp [hkd, toKind] at hk <;> subst hk <;> simp_all [SsUdp.xAlg, Ss.Kind.is2022]
  rcases hum' with hm | hm <;> rcases hkk with hkd | hkd
  all_goals
    simp only [hm, hkd, user_count_eval, call_ok, bind_next, List.length_nil, UInt64.reduceOfNat, UInt64.lt_irrefl, gt_iff_lt,
      Bool.not_true, Bool.false_eq_true, if_false, if_true, U64.addOk, UInt64.reduceAdd,
      UInt64.reduceToNat, Nat.reduceAdd, Nat.reduceLT, Nat.reducePow, decide_true, arith_true, remaining_lt b hb, Nat.lt_irrefl,
      decide_false, and_false, Bool.and_false, not_true_eq_false, not_false_eq_true]
    by_cases g1 : b.length < 43
    · simp only [g1, decide_true, if_true, bind_ret, Flow.run, embed]
    simp only [g1, decide_false, Bool.false_eq_true, if_false, bind_next]
    rw [split_to_eval b 16 (by show 16 ≤ b.length; omega)]
    simp only [bind_next, ← hkd, aes_dec_eval E _ k hk he, call_ok, q_ok]
    rw [slice_eval _ 4 16 (by decide) (by rw [haes]; decide)]
    rw [bind_next, copy_from_slice_eval _ _ (by simp [haes])]
    simp only [bind_next, IoCursor.new]
    rw [io_get_u64_eval _ 0 (by rw [haes]; decide)]
    simp only [bind_next]
    rw [io_get_u64_eval _ _ (by rw [haes]; decide)]
    simp only [bind_next, get_cipher_aes_eval E _ k hk h22 hx, call_ok]
    rw [split_off_eval _ 0 (by simp)]
    simp only [bind_next, dip_eval]
    simp only [UInt64.reduceToNat, UInt64.reduceAdd, List.drop_zero, List.take_zero, u64_of_be8,
      List.take_of_length_le (Nat.le_of_eq (haes _ _))]
    cases ho : E.C.openB k.alg (SsUdp.aesSessionKey E.C k c.key (rdBE (List.take 8 (E.C.aesDec c.key (List.take 16 b)))))
        (List.drop 4 (E.C.aesDec c.key (List.take 16 b))) [] (List.drop 16 b) with
    | none => simp only [call_ok, bind_next, q_err, bind_ret, Flow.run, embed, Option.map_none]
    | some p =>
      have hp : p.length + 16 = b.length - 16 := by have := hopen _ _ _ _ _ _ ho; simp only [List.length_drop] at this; omega
      simp only [call_ok, bind_next, q_ok, Option.map_some]
      rw [tail_server ov E N [] p _ _ none hnow (by omega) (by omega)]
      have e8 : List.take 8 (List.drop 8 (E.C.aesDec c.key (List.take 16 b))) = List.drop 8 (E.C.aesDec c.key (List.take 16 b)) :=
        List.take_of_length_le (by simp [haes])
      have e9 : (UInt64.ofNat (beNat (List.drop 8 (E.C.aesDec c.key (List.take 16 b))))).toNat =
          rdBE (List.drop 8 (E.C.aesDec c.key (List.take 16 b))) := by rw [← e8]; exact u64_of_be8 _
      simp only [reduceCtorEq, if_false, u64_of_be8, e8, e9, Option.map_none]
      rfl

/-- **`decode_client_packet_aead_2022`, AES kinds, with registered users (identity header required)** = the model's `decode`
in server mode; in particular an identity hash that names no registered user is `Err` (never a fall-back to the server key),
and the body is opened under the key of the user found -/
theorem decode_client_aes_eih_eq (ov : Bool) (E : MEnv) (N : Usize) (codec : AEADCipherCodec) (c : Context MT) (b : List UInt8) (k : Ss.Kind)
    (u0 : ServerUser) (us : List ServerUser)
    (hk : toKind codec.kind = some k) (hx : SsUdp.xAlg k = none) (h22 : k.is2022 = true)
    (hm : c.user_manager = some (u0 :: us)) (hlen : (u0 :: us).length < 2 ^ 64)
    (hb : b.length < 2 ^ 64) (hnow : E.now < 2 ^ 64)
    (hopen : ∀ a key n ad ct p, E.C.openB a key n ad ct = some p → ct.length = p.length + 16)
    (haes : ∀ key x, (E.C.aesDec key x).length = 16) :
    embed (AEADCipherCodec.decode_client_packet_aead_2022 ov (XM E) N codec c b) =
      SsUdp.decode E.C (toCtx k c) .server E.now b := by
  have he : k.supportEih = true := by cases k <;> simp_all [SsUdp.xAlg, Ss.Kind.is2022, Ss.Kind.supportEih]
  have hnl : SsUdp.nonceLen k = 0 := by simp [SsUdp.nonceLen, hx]
  have hcnt : decide ((0 : Usize) < UInt64.ofNat (us.length + 1)) = true := by
    rw [decide_eq_true_eq, UInt64.lt_iff_toNat_lt, UInt64.toNat_ofNat_of_lt' (by simpa using hlen)]; simp
  unfold AEADCipherCodec.decode_client_packet_aead_2022 SsUdp.decode
  simp only [nonce_length_eval E _ k hk h22, tag_size_eval E _ k hk, support_eih_eval ov _ k hk, he, hnl, h22, call_ok, bind_next,
    toCtx, hm, Option.getD, hx, List.map_cons, List.length_cons, List.length_map]
  have hkk : codec.kind = .Aead2022Blake3Aes128Gcm ∨ codec.kind = .Aead2022Blake3Aes256Gcm := by
    cases hkd : codec.kind <;> simp [hkd, toKind] at hk <;> subst hk <;> simp_all [SsUdp.xAlg, Ss.Kind.is2022]
  rcases hkk with hkd | hkd
  all_goals
    simp only [hkd, user_count_eval, call_ok, bind_next, List.length_cons, gt_iff_lt, hcnt,
      Bool.not_true, Bool.false_eq_true, if_false, if_true, U64.addOk, UInt64.reduceAdd, UInt64.reduceOfNat,
      UInt64.reduceToNat, Nat.reduceAdd, Nat.reduceLT, Nat.reducePow, decide_true, arith_true, remaining_lt b hb, Nat.lt_irrefl,
      decide_false, and_true, Bool.and_true, not_true_eq_false, not_false_eq_true, Nat.zero_lt_succ, true_and, and_self]
    by_cases g1 : b.length < 59
    · simp only [g1, decide_true, if_true, bind_ret, Flow.run, embed]
    simp only [g1, decide_false, Bool.false_eq_true, if_false, bind_next]
    rw [split_to_eval b 16 (by show 16 ≤ b.length; omega)]
    simp only [bind_next, ← hkd, aes_dec_eval E _ k hk he, call_ok, q_ok]
    rw [slice_eval _ 4 16 (by decide) (by rw [haes]; decide)]
    rw [bind_next, copy_from_slice_eval _ _ (by simp [haes])]
    simp only [bind_next, IoCursor.new]
    rw [io_get_u64_eval _ 0 (by rw [haes]; decide)]
    simp only [bind_next]
    rw [io_get_u64_eval _ _ (by rw [haes]; decide)]
    rw [split_to_eval _ 16 (by simp only [List.length_drop]; show 16 ≤ b.length - 16; omega)]
    simp only [bind_next, aes_dec_eval E _ k hk he, call_ok, q_ok, unwrap_some, clone_eval]
    simp only [UInt64.reduceToNat, UInt64.reduceAdd, List.drop_zero, List.take_zero, u64_of_be8, List.drop_drop, Nat.reduceAdd,
      List.take_of_length_le (Nat.le_of_eq (haes _ _))]
    have hxl : (E.C.aesDec c.key (List.take 16 (List.drop 16 b))).length ≤ (E.C.aesDec c.key (List.take 16 b)).length := by
      rw [haes, haes]; exact Nat.le_refl _
    simp only [xor_zip_eq _ _ hxl]
    rw [← List.map_cons, findUser_map]
    cases hf : List.find? (fun u => decide (u.identity_hash =
        xorBytes (E.C.aesDec c.key (List.take 16 (List.drop 16 b))) (E.C.aesDec c.key (List.take 16 b)))) (u0 :: us) with
    | none => simp only [bind_ret, Flow.run, embed, Option.map_none]
    | some u =>
      simp only [bind_next, Option.map_some, get_cipher_aes_eval E _ k hk h22 hx, call_ok, toUser]
      rw [split_off_eval _ 0 (by simp)]
      simp only [bind_next, dip_eval, UInt64.reduceToNat, List.drop_zero, List.take_zero, u64_of_be8]
      cases ho : E.C.openB k.alg (SsUdp.aesSessionKey E.C k u.key (rdBE (List.take 8 (E.C.aesDec c.key (List.take 16 b)))))
          (List.drop 4 (E.C.aesDec c.key (List.take 16 b))) [] (List.drop 32 b) with
      | none => simp only [call_ok, bind_next, q_err, bind_ret, Flow.run, embed, Option.map_none]
      | some p =>
        have hp : p.length + 16 = b.length - 32 := by have := hopen _ _ _ _ _ _ ho; simp only [List.length_drop] at this; omega
        simp only [call_ok, bind_next, q_ok, Option.map_some]
        rw [tail_server ov E N [] p _ _ (some u) hnow (by omega) (by omega)]
        have e8 : List.take 8 (List.drop 8 (E.C.aesDec c.key (List.take 16 b))) = List.drop 8 (E.C.aesDec c.key (List.take 16 b)) :=
          List.take_of_length_le (by simp [haes])
        have e9 : (UInt64.ofNat (beNat (List.drop 8 (E.C.aesDec c.key (List.take 16 b))))).toNat =
            rdBE (List.drop 8 (E.C.aesDec c.key (List.take 16 b))) := by rw [← e8]; exact u64_of_be8 _
        simp only [reduceCtorEq, if_false, u64_of_be8, e8, e9, Option.map_some, toUser]
        rfl

/-- **`decode_client_packet_aead_2022` for the AES kinds, any user table** (none, empty, or with users) = the model -/
theorem decode_client_aes_eq (ov : Bool) (E : MEnv) (N : Usize) (codec : AEADCipherCodec) (c : Context MT) (b : List UInt8) (k : Ss.Kind)
    (hk : toKind codec.kind = some k) (hx : SsUdp.xAlg k = none) (h22 : k.is2022 = true)
    (hul : (c.user_manager.getD []).length < 2 ^ 64)
    (hb : b.length < 2 ^ 64) (hnow : E.now < 2 ^ 64)
    (hopen : ∀ a key n ad ct p, E.C.openB a key n ad ct = some p → ct.length = p.length + 16)
    (haes : ∀ key x, (E.C.aesDec key x).length = 16) :
    embed (AEADCipherCodec.decode_client_packet_aead_2022 ov (XM E) N codec c b) =
      SsUdp.decode E.C (toCtx k c) .server E.now b := by
  cases hm : c.user_manager with
  | none => exact decode_client_aes_psk_eq ov E N codec c b k hk hx h22 (by simp [hm]) hb hnow hopen haes
  | some l =>
    cases l with
    | nil => exact decode_client_aes_psk_eq ov E N codec c b k hk hx h22 (by simp [hm]) hb hnow hopen haes
    | cons u us => exact decode_client_aes_eih_eq ov E N codec c b k u us hk hx h22 hm (by simpa [hm] using hul) hb hnow hopen haes

theorem len_toNat (b : List UInt8) (h : b.length < 2 ^ 64) : (Cursor.len b).toNat = b.length := by
  simp [Cursor.len, UInt64.toNat_ofNat']; omega

theorem from_be_take8 (t : List UInt8) : (U64.from_be_bytes (t.take 8)).toNat = rdBE (t.take 8) := u64_of_be8 t

/-- the plaintext ‖ tag buffer that an in-place detached open leaves: what the code reads from it -/
theorem x_text (ρ : Type) (ov : Bool) (p tag : List UInt8) (ht : tag.length = 16) (hp : 16 ≤ p.length) (hl : p.length + 16 < 2 ^ 64) :
    (List.take 8 (p ++ tag) = List.take 8 p) ∧ (List.take 8 (List.drop 8 (p ++ tag)) = List.take 8 (List.drop 8 p)) ∧
    U64.subOk (Cursor.len (p ++ tag)) 16 = true ∧
    (Flow.slice (p ++ tag) 16 (Cursor.len (p ++ tag) - 16) : Flow _ ρ) = Flow.next (List.drop 16 p) := by
  have hlen : (Cursor.len (p ++ tag)).toNat = p.length + 16 := by rw [len_toNat _ (by simp [ht]; omega)]; simp [ht]
  have h16 : (16 : UInt64) ≤ Cursor.len (p ++ tag) := by rw [UInt64.le_iff_toNat_le, hlen]; show 16 ≤ _; omega
  have hsub : (Cursor.len (p ++ tag) - 16).toNat = p.length := by
    rw [UInt64.toNat_sub_of_le _ _ h16, hlen]; show p.length + 16 - 16 = _; omega
  refine ⟨?_, ?_, ?_, ?_⟩
  · rw [List.take_append_of_le_length (by omega)]
  · rw [List.drop_append_of_le_length (by omega), List.take_append_of_le_length (by simp; omega)]
  · simp only [U64.subOk, hlen, decide_eq_true_eq]; show 16 ≤ _; omega
  · rw [slice_eval _ _ _ (by rw [hsub]; exact hp) (by rw [hsub]; simp)]
    rw [hsub, List.take_append_of_le_length (Nat.le_refl _), List.take_length]; rfl

/-- **`decode_client_packet_aead_2022`, XChaCha kinds** (24-byte nonce on the wire, session id and packet id inside the
sealed part) = the model's `decode` in server mode -/
theorem decode_client_x_eq (ov : Bool) (E : MEnv) (N : Usize) (codec : AEADCipherCodec) (c : Context MT) (b : List UInt8) (k : Ss.Kind)
    (xa : Alg)
    (hk : toKind codec.kind = some k) (hx : SsUdp.xAlg k = some xa)
    (hb : b.length < 2 ^ 64) (hnow : E.now < 2 ^ 64)
    (hopen : ∀ a key n ad ct p, E.C.openB a key n ad ct = some p → ct.length = p.length + 16) :
    embed (AEADCipherCodec.decode_client_packet_aead_2022 ov (XM E) N codec c b) =
      SsUdp.decode E.C (toCtx k c) .server E.now b := by
  have h22 : k.is2022 = true := by cases k <;> simp_all [SsUdp.xAlg, Ss.Kind.is2022]
  have he : k.supportEih = false := by cases k <;> simp_all [SsUdp.xAlg, Ss.Kind.supportEih]
  have hnl : SsUdp.nonceLen k = 24 := by simp [SsUdp.nonceLen, hx]
  unfold AEADCipherCodec.decode_client_packet_aead_2022 SsUdp.decode
  simp only [nonce_length_eval E _ k hk h22, tag_size_eval E _ k hk, support_eih_eval ov _ k hk, he, hnl, h22, call_ok, bind_next,
    toCtx, hx]
  have hkk : codec.kind = .Aead2022Blake3ChaCha8Poly1305 ∨ codec.kind = .Aead2022Blake3ChaCha20Poly1305 := by
    cases hkd : codec.kind <;> simp [hkd, toKind] at hk <;> subst hk <;> simp_all [SsUdp.xAlg, Ss.Kind.is2022]
  rcases hkk with hkd | hkd
  all_goals
    simp only [hkd, call_ok, bind_next, gt_iff_lt,
      Bool.not_true, Bool.not_false, Bool.false_eq_true, if_false, if_true, U64.addOk, UInt64.reduceAdd, UInt64.reduceOfNat,
      UInt64.reduceToNat, Nat.reduceAdd, Nat.reduceLT, Nat.reducePow, decide_true, arith_true, remaining_lt b hb, Nat.lt_irrefl,
      decide_false, false_and, and_false, Bool.false_and, not_true_eq_false, not_false_eq_true, true_and, and_self]
    by_cases g1 : b.length < 67
    · simp only [g1, decide_true, if_true, bind_ret, Flow.run, embed]
    simp only [g1, decide_false, Bool.false_eq_true, if_false, bind_next]
    rw [split_at_eval b 24 (by show 24 ≤ b.length; omega)]
    simp only [bind_next]
    rw [slice_eval _ 0 8 (by decide) (by simp only [List.length_drop]; show 8 ≤ b.length - 24; omega)]
    simp only [bind_next]
    rw [copy_from_slice_eval _ _ (by simp only [List.length_replicate, List.length_drop, List.length_take]; show 8 = min 8 (b.length - 24); omega)]
    simp only [bind_next, ← hkd, get_cipher_x_eval E _ k hk h22 xa hx, call_ok]
    rw [dipd_eval _ _ _ _ _ (by simp only [List.length_drop]; show 16 ≤ b.length - 24; omega)]
    simp only [UInt64.reduceToNat]
    cases ho : E.C.openB xa (List.take 32 c.key) (List.take 24 b) [] (List.drop 24 b) with
    | none => simp only [call_ok, bind_next, q_err, bind_ret, Flow.run, embed, Option.map_none]
    | some p =>
      have hp : p.length + 16 = b.length - 24 := by have := hopen _ _ _ _ _ _ ho; simp only [List.length_drop] at this; omega
      have hx4 := x_text (Cursor × RResult (Cursor × Address × Session)) ov p (List.drop ((List.drop 24 b).length - 16) (List.drop 24 b))
        (by simp only [List.length_drop]; omega) (by omega) (by omega)
      simp only [call_ok, bind_next, q_ok, Option.map_some, IoCursor.new]
      rw [io_get_u64_eval _ 0 (by simp only [List.length_append, UInt64.reduceToNat]; omega)]
      simp only [bind_next]
      rw [io_get_u64_eval _ _ (by simp only [List.length_append, UInt64.reduceAdd, UInt64.reduceToNat]; omega)]
      simp only [bind_next, UInt64.reduceToNat, UInt64.reduceAdd, List.drop_zero, hx4.1, hx4.2.1, hx4.2.2.1, arith_true, hx4.2.2.2]
      rw [tail_server ov E N _ (List.drop 16 p) _ _ none hnow (by simp only [List.length_drop]; omega) (by simp only [List.length_drop]; omega)]
      simp only [reduceCtorEq, if_false, u64_of_be8, Option.map_none]
      rfl

/-- **`decode_client_packet_aead_2022`, every 2022 kind, any user table** = the model's `decode` in server mode -/
theorem decode_client_eq (ov : Bool) (E : MEnv) (N : Usize) (codec : AEADCipherCodec) (c : Context MT) (b : List UInt8) (k : Ss.Kind)
    (hk : toKind codec.kind = some k) (h22 : k.is2022 = true)
    (hul : (c.user_manager.getD []).length < 2 ^ 64)
    (hb : b.length < 2 ^ 64) (hnow : E.now < 2 ^ 64)
    (hopen : ∀ a key n ad ct p, E.C.openB a key n ad ct = some p → ct.length = p.length + 16)
    (haes : ∀ key x, (E.C.aesDec key x).length = 16) :
    embed (AEADCipherCodec.decode_client_packet_aead_2022 ov (XM E) N codec c b) =
      SsUdp.decode E.C (toCtx k c) .server E.now b := by
  cases hx : SsUdp.xAlg k with
  | none => exact decode_client_aes_eq ov E N codec c b k hk hx h22 hul hb hnow hopen haes
  | some xa => exact decode_client_x_eq ov E N codec c b k xa hk hx hb hnow hopen

/-! ## Part 2b — `decode_server_packet_aead_2022` (client side) and its nested `decrypt_message` -/

theorem x_text0 (ρ : Type) (p tag : List UInt8) (ht : tag.length = 16) (hl : p.length + 16 < 2 ^ 64) :
    (Flow.slice (p ++ tag) 0 (Cursor.len (p ++ tag) - 16) : Flow _ ρ) = Flow.next p := by
  have hlen : (Cursor.len (p ++ tag)).toNat = p.length + 16 := by rw [len_toNat _ (by simp [ht]; omega)]; simp [ht]
  have h16 : (16 : UInt64) ≤ Cursor.len (p ++ tag) := by rw [UInt64.le_iff_toNat_le, hlen]; show 16 ≤ _; omega
  have hsub : (Cursor.len (p ++ tag) - 16).toNat = p.length := by
    rw [UInt64.toNat_sub_of_le _ _ h16, hlen]; show p.length + 16 - 16 = _; omega
  rw [slice_eval _ _ _ (by rw [hsub]; exact Nat.zero_le _) (by rw [hsub]; simp)]
  rw [hsub, List.take_append_of_le_length (Nat.le_refl _), List.take_length]; rfl

/-- what `decrypt_message` hands to its caller, read off the AEAD result -/
def dmResult (sid pid : UInt64) : Option Bytes → RResult (UInt64 × UInt64 × List UInt8)
  | some p => .ok (sid, pid, p)
  | none => .err

theorem decrypt_message_aes (ov : Bool) (E : MEnv) (N : Usize) (kind : CipherKind) (c : Context MT) (b : List UInt8) (k : Ss.Kind)
    (hk : toKind kind = some k) (hx : SsUdp.xAlg k = none) (h22 : k.is2022 = true)
    (hb : b.length < 2 ^ 64) (hlen : 51 ≤ b.length)
    (hopen : ∀ a key n ad ct p, E.C.openB a key n ad ct = some p → ct.length = p.length + 16)
    (haes : ∀ key x, (E.C.aesDec key x).length = 16) :
    ∃ s', AEADCipherCodec.decode_server_packet_aead_2022.decrypt_message ov (XM E) N kind b c = .ok (s',
      dmResult (UInt64.ofNat (beNat (List.take 8 (E.C.aesDec c.key (List.take 16 b)))))
        (UInt64.ofNat (beNat (List.take 8 (List.drop 8 (E.C.aesDec c.key (List.take 16 b))))))
        (E.C.openB k.alg (SsUdp.aesSessionKey E.C k c.key (rdBE (List.take 8 (E.C.aesDec c.key (List.take 16 b)))))
          (List.drop 4 (E.C.aesDec c.key (List.take 16 b))) [] (List.drop 16 b))) := by
  have he : k.supportEih = true := by cases k <;> simp_all [SsUdp.xAlg, Ss.Kind.is2022, Ss.Kind.supportEih]
  unfold AEADCipherCodec.decode_server_packet_aead_2022.decrypt_message
  have hkk : kind = .Aead2022Blake3Aes128Gcm ∨ kind = .Aead2022Blake3Aes256Gcm := by
    cases hkd : kind <;> simp [hkd, toKind] at hk <;> subst hk <;> simp_all [SsUdp.xAlg, Ss.Kind.is2022]
  simp only [tag_size_eval E _ k hk, call_ok, bind_next]
  rcases hkk with hkd | hkd
  all_goals
    simp only [hkd]
    rw [split_at_eval b 16 (by show 16 ≤ b.length; omega)]
    simp only [bind_next, ← hkd, aes_dec_eval E _ k hk he, call_ok, q_ok, IoCursor.new]
    rw [io_get_u64_eval _ 0 (by rw [haes]; decide)]
    simp only [bind_next]
    rw [io_get_u64_eval _ _ (by rw [haes]; decide)]
    simp only [bind_next]
    rw [slice_eval _ 4 16 (by decide) (by rw [haes]; decide)]
    simp only [bind_next, get_cipher_aes_eval E _ k hk h22 hx, call_ok]
    rw [dipd_eval _ _ _ _ _ (by simp only [List.length_drop]; show 16 ≤ b.length - 16; omega)]
    simp only [UInt64.reduceToNat, UInt64.reduceAdd, List.drop_zero, u64_of_be8, List.take_of_length_le (Nat.le_of_eq (haes _ _))]
    cases ho : E.C.openB k.alg (SsUdp.aesSessionKey E.C k c.key (rdBE (List.take 8 (E.C.aesDec c.key (List.take 16 b)))))
        (List.drop 4 (E.C.aesDec c.key (List.take 16 b))) [] (List.drop 16 b) with
    | none =>
      refine ⟨E.C.aesDec c.key (List.take 16 b) ++ List.drop 16 b, ?_⟩
      simp only [call_ok, bind_next, q_err, bind_ret, Flow.run, dmResult]
    | some p =>
      have hp : p.length + 16 = b.length - 16 := by have := hopen _ _ _ _ _ _ ho; simp only [List.length_drop] at this; omega
      have hx4 := x_text (Cursor × RResult (UInt64 × UInt64 × List UInt8)) ov p (List.drop ((List.drop 16 b).length - 16) (List.drop 16 b))
        (by simp only [List.length_drop]; omega) (by omega) (by omega)
      refine ⟨E.C.aesDec c.key (List.take 16 b) ++ (p ++ List.drop ((List.drop 16 b).length - 16) (List.drop 16 b)), ?_⟩
      simp only [call_ok, bind_next, q_ok, hx4.2.2.1, arith_true]
      rw [x_text0 _ p _ (by simp only [List.length_drop]; omega) (by omega)]
      simp only [bind_next, Flow.run, dmResult]

theorem decrypt_message_x (ov : Bool) (E : MEnv) (N : Usize) (kind : CipherKind) (c : Context MT) (b : List UInt8) (k : Ss.Kind) (xa : Alg)
    (hk : toKind kind = some k) (hx : SsUdp.xAlg k = some xa)
    (hb : b.length < 2 ^ 64) (hlen : 75 ≤ b.length)
    (hopen : ∀ a key n ad ct p, E.C.openB a key n ad ct = some p → ct.length = p.length + 16) :
    ∃ s', AEADCipherCodec.decode_server_packet_aead_2022.decrypt_message ov (XM E) N kind b c = .ok (s',
      match E.C.openB xa (List.take 32 c.key) (List.take 24 b) [] (List.drop 24 b) with
      | some p => .ok (UInt64.ofNat (beNat (List.take 8 p)), UInt64.ofNat (beNat (List.take 8 (List.drop 8 p))), List.drop 16 p)
      | none => .err) := by
  have h22 : k.is2022 = true := by cases k <;> simp_all [SsUdp.xAlg, Ss.Kind.is2022]
  have hnl : SsUdp.nonceLen k = 24 := by simp [SsUdp.nonceLen, hx]
  unfold AEADCipherCodec.decode_server_packet_aead_2022.decrypt_message
  have hkk : kind = .Aead2022Blake3ChaCha8Poly1305 ∨ kind = .Aead2022Blake3ChaCha20Poly1305 := by
    cases hkd : kind <;> simp [hkd, toKind] at hk <;> subst hk <;> simp_all [SsUdp.xAlg, Ss.Kind.is2022]
  simp only [tag_size_eval E _ k hk, call_ok, bind_next]
  rcases hkk with hkd | hkd
  all_goals
    simp only [hkd]
    simp only [← hkd, nonce_length_eval E _ k hk h22, hnl, call_ok, bind_next, UInt64.reduceOfNat]
    rw [split_at_eval b 24 (by show 24 ≤ b.length; omega)]
    simp only [bind_next]
    rw [slice_eval _ 0 8 (by decide) (by simp only [List.length_drop]; show 8 ≤ b.length - 24; omega)]
    simp only [bind_next]
    rw [copy_from_slice_eval _ _ (by simp only [List.length_replicate, List.length_drop, List.length_take]; show 8 = min 8 (b.length - 24); omega)]
    simp only [bind_next, get_cipher_x_eval E _ k hk h22 xa hx, call_ok]
    rw [dipd_eval _ _ _ _ _ (by simp only [List.length_drop]; show 16 ≤ b.length - 24; omega)]
    simp only [UInt64.reduceToNat]
    cases ho : E.C.openB xa (List.take 32 c.key) (List.take 24 b) [] (List.drop 24 b) with
    | none =>
      refine ⟨List.take 24 b ++ List.drop 24 b, ?_⟩
      simp only [call_ok, bind_next, q_err, bind_ret, Flow.run]
    | some p =>
      have hp : p.length + 16 = b.length - 24 := by have := hopen _ _ _ _ _ _ ho; simp only [List.length_drop] at this; omega
      have hx4 := x_text (Cursor × RResult (UInt64 × UInt64 × List UInt8)) ov p (List.drop ((List.drop 24 b).length - 16) (List.drop 24 b))
        (by simp only [List.length_drop]; omega) (by omega) (by omega)
      refine ⟨List.take 24 b ++ (p ++ List.drop ((List.drop 24 b).length - 16) (List.drop 24 b)), ?_⟩
      simp only [call_ok, bind_next, q_ok, IoCursor.new]
      rw [io_get_u64_eval _ 0 (by simp only [List.length_append, UInt64.reduceToNat]; omega)]
      simp only [bind_next]
      rw [io_get_u64_eval _ _ (by simp only [List.length_append, UInt64.reduceAdd, UInt64.reduceToNat]; omega)]
      simp only [bind_next, UInt64.reduceToNat, UInt64.reduceAdd, List.drop_zero, hx4.1, hx4.2.1, hx4.2.2.1, arith_true, hx4.2.2.2, Flow.run]

/-- the part of the client-side decoder after the body was opened: server type byte, timestamp window, echoed client
session id, padding, address = the model's `bodyParse .client` -/
theorem tail_client (ov : Bool) (E : MEnv) (N : Usize) (src p : List UInt8) (ssid pid : UInt64) (st : Mode) (hst : st = .Client)
    (hnow : E.now < 2 ^ 64) (hp : 19 ≤ p.length) (hp2 : p.length < 2 ^ 64) :
    embed (Flow.run (
      (Flow.get_u8 (Cursor.extend_from_slice [] p)).bind fun x =>
            (Flow.call (Mode.expect_u8 ov st)).bind fun v132 =>
              (if (x.snd != v132) = true then Flow.ret (src, RResult.err) else Flow.next ()).bind fun x_1 =>
                (Flow.get_u64 x.fst).bind fun x =>
                  (Flow.call (validate_timestamp ov (XM E) x.snd)).bind fun v134 =>
                    (Flow.question v134 (src, RResult.err)).bind fun v135 =>
                      (Flow.get_u64 x.fst).bind fun x =>
                        (Flow.get_u16 x.fst).bind fun x_2 =>
                          (if decide (Cursor.remaining x_2.fst < U16.as_usize x_2.snd) = true then
                                Flow.ret (src, RResult.err)
                              else Flow.next ()).bind
                            fun x_3 =>
                            (if decide (0 < x_2.snd) = true then
                                  (Flow.advance x_2.fst (U16.as_usize x_2.snd)).bind fun packet => Flow.next packet
                                else Flow.next x_2.fst).bind
                              fun packet =>
                              (Flow.call (Session.new ov (XM E) N x.snd ssid pid none)).bind fun v138 =>
                                (Flow.call (decode ov packet)).bind fun x =>
                                  (Flow.question x.snd (src, RResult.err)).bind fun v140 =>
                                    Flow.ret (src, RResult.ok (x.fst, v140, v138)))) =
      SsUdp.bodyParse .client E.now ssid.toNat pid.toNat p none := by
  subst hst
  unfold SsUdp.bodyParse
  simp only [Cursor.extend_from_slice, List.nil_append]
  rw [get_u8_eval p (by omega)]
  simp only [bind_next, expect_u8_eval, call_ok, toMode, Ss.Mode.expectU8, if_true]
  by_cases g2' : ¬ p.headD 0 = 1
  · simp only [g2', bne_iff_ne, ne_eq, not_false_eq_true, if_true, bind_ret, Flow.run, embed]
  have g2 : p.headD 0 = 1 := Classical.not_not.mp g2'
  simp only [g2, bne_self_eq_false, Bool.false_eq_true, if_false, bind_next, ne_eq, not_true_eq_false]
  rw [get_u64_eval _ (by simp only [List.length_drop]; omega)]
  simp only [bind_next, validate_timestamp_eval ov E _ hnow, call_ok, u64_of_be8]
  by_cases g3 : Consts.ssMaxTimeDiff < Ss.absDiff E.now (rdBE (List.take 8 (List.drop 1 p)))
  · simp only [gt_iff_lt, g3, if_true, q_err, bind_ret, Flow.run, embed]
  simp only [gt_iff_lt, g3, if_false, q_ok, bind_next]
  rw [get_u64_eval _ (by simp only [List.length_drop]; omega)]
  simp only [bind_next, List.drop_drop, Nat.reduceAdd]
  rw [get_u16_eval _ (by simp only [List.length_drop]; omega)]
  simp only [bind_next, List.drop_drop, Nat.reduceAdd]
  rw [remaining_lt _ (by simp only [List.length_drop]; omega), u16_len]
  by_cases g4 : (List.drop 17 p).length < 2 + rdBE (List.take 2 (List.drop 17 p))
  · have : (List.drop 19 p).length < rdBE (List.take 2 (List.drop 17 p)) := by simp only [List.length_drop] at g4 ⊢; omega
    simp only [this, g4, decide_true, if_true, bind_ret, Flow.run, embed]
  have g4' : ¬ (List.drop 19 p).length < rdBE (List.take 2 (List.drop 17 p)) := by simp only [List.length_drop] at g4 ⊢; omega
  simp only [g4, g4', decide_false, Bool.false_eq_true, if_false, bind_next]
  have hadv : (if decide (0 < UInt16.ofNat (beNat (List.take 2 (List.drop 17 p)))) = true then
        (Flow.advance (List.drop 19 p) (U16.as_usize (UInt16.ofNat (beNat (List.take 2 (List.drop 17 p)))))).bind fun packet => Flow.next packet
      else (Flow.next (List.drop 19 p) : Flow (List UInt8) (Cursor × RResult (Cursor × Address × Session)))) =
      Flow.next (List.drop (2 + rdBE (List.take 2 (List.drop 17 p))) (List.drop 17 p)) := by
    have e : List.drop (2 + rdBE (List.take 2 (List.drop 17 p))) (List.drop 17 p) =
        List.drop (rdBE (List.take 2 (List.drop 17 p))) (List.drop 19 p) := by
      rw [List.drop_drop, List.drop_drop]; congr 1; omega
    rw [e]
    split
    · rw [advance_eval _ _ (by rw [u16_len]; omega), u16_len]; rfl
    · rename_i h0
      have : rdBE (List.take 2 (List.drop 17 p)) = 0 := by
        rw [← u16_len]
        have : UInt16.ofNat (beNat (List.take 2 (List.drop 17 p))) = 0 := by
          simp only [decide_eq_true_eq] at h0
          exact UInt16.le_antisymm (UInt16.not_lt.mp h0) (by simp [UInt16.le_iff_toNat_le])
        rw [this]; rfl
      rw [this]; rfl
  rw [hadv]
  simp only [bind_next, Session.new, Flow.run, call_ok, List.drop_drop]
  have hl : (List.drop (17 + (2 + rdBE (List.take 2 (List.drop 17 p)))) p).length < 2 ^ 64 := by
    simp only [List.length_drop]; omega
  rw [← decode_eq ov _ hl]
  cases hd : decode ov (List.drop (17 + (2 + rdBE (List.take 2 (List.drop 17 p)))) p) with
  | panic => simp only [call_panic, bind_panic, embed, embedDecode]
  | ok v =>
    obtain ⟨r, res⟩ := v
    cases res with
    | err => simp only [call_ok, bind_next, bind_ret, q_err, embed, embedDecode]
    | ok a => simp only [call_ok, bind_next, q_ok, embed, embedDecode, toSession, u64_of_be8]; rfl

theorem decode_server_aes_eq (ov : Bool) (E : MEnv) (N : Usize) (codec : AEADCipherCodec) (c : Context MT) (b : List UInt8) (k : Ss.Kind)
    (hk : toKind codec.kind = some k) (hx : SsUdp.xAlg k = none) (h22 : k.is2022 = true)
    (hm : c.stream_type = .Client)
    (hb : b.length < 2 ^ 64) (hnow : E.now < 2 ^ 64)
    (hopen : ∀ a key n ad ct p, E.C.openB a key n ad ct = some p → ct.length = p.length + 16)
    (haes : ∀ key x, (E.C.aesDec key x).length = 16) :
    embed (AEADCipherCodec.decode_server_packet_aead_2022 ov (XM E) N codec c b) =
      SsUdp.decode E.C (toCtx k c) .client E.now b := by
  have hnl : SsUdp.nonceLen k = 0 := by simp [SsUdp.nonceLen, hx]
  rw [SsUdp.decode_2022 _ _ h22]
  unfold AEADCipherCodec.decode_server_packet_aead_2022 SsUdp.headerLen SsUdp.opened
  simp only [nonce_length_eval E _ k hk h22, tag_size_eval E _ k hk, hnl, call_ok, bind_next, toCtx, hx, reduceCtorEq, if_false,
    UInt64.reduceOfNat, U64.addOk, UInt64.reduceAdd, UInt64.reduceToNat, Nat.reduceAdd, Nat.reduceLT, Nat.reducePow, decide_true,
    arith_true, remaining_lt b hb, SsUdp.requireEih, false_and]
  by_cases g1 : b.length < 51
  · simp only [g1, decide_true, if_true, bind_ret, Flow.run, embed]
  simp only [g1, decide_false, Bool.false_eq_true, if_false, bind_next]
  obtain ⟨s', hs⟩ := decrypt_message_aes ov E N codec.kind c b k hk hx h22 hb (by omega) hopen haes
  rw [hs]
  simp only [call_ok, bind_next, gt_iff_lt]
  cases ho : E.C.openB k.alg (SsUdp.aesSessionKey E.C k c.key (rdBE (List.take 8 (E.C.aesDec c.key (List.take 16 b)))))
      (List.drop 4 (E.C.aesDec c.key (List.take 16 b))) [] (List.drop 16 b) with
  | none => simp only [dmResult, q_err, bind_ret, Flow.run, embed, Option.map_none]
  | some p =>
    have hp : p.length + 16 = b.length - 16 := by have := hopen _ _ _ _ _ _ ho; simp only [List.length_drop] at this; omega
    simp only [dmResult, q_ok, bind_next, Option.map_some]
    rw [tail_client ov E N s' p _ _ _ hm hnow (by omega) (by omega)]
    have e8 : List.take 8 (List.drop 8 (E.C.aesDec c.key (List.take 16 b))) = List.drop 8 (E.C.aesDec c.key (List.take 16 b)) :=
      List.take_of_length_le (by simp [haes])
    have e9 : (UInt64.ofNat (beNat (List.drop 8 (E.C.aesDec c.key (List.take 16 b))))).toNat =
        rdBE (List.drop 8 (E.C.aesDec c.key (List.take 16 b))) := by rw [← e8]; exact u64_of_be8 _
    simp only [u64_of_be8, e8, e9]

theorem decode_server_x_eq (ov : Bool) (E : MEnv) (N : Usize) (codec : AEADCipherCodec) (c : Context MT) (b : List UInt8) (k : Ss.Kind)
    (xa : Alg) (hk : toKind codec.kind = some k) (hx : SsUdp.xAlg k = some xa)
    (hm : c.stream_type = .Client)
    (hb : b.length < 2 ^ 64) (hnow : E.now < 2 ^ 64)
    (hopen : ∀ a key n ad ct p, E.C.openB a key n ad ct = some p → ct.length = p.length + 16) :
    embed (AEADCipherCodec.decode_server_packet_aead_2022 ov (XM E) N codec c b) =
      SsUdp.decode E.C (toCtx k c) .client E.now b := by
  have h22 : k.is2022 = true := by cases k <;> simp_all [SsUdp.xAlg, Ss.Kind.is2022]
  have hnl : SsUdp.nonceLen k = 24 := by simp [SsUdp.nonceLen, hx]
  rw [SsUdp.decode_2022 _ _ h22]
  unfold AEADCipherCodec.decode_server_packet_aead_2022 SsUdp.headerLen SsUdp.opened
  simp only [nonce_length_eval E _ k hk h22, tag_size_eval E _ k hk, hnl, call_ok, bind_next, toCtx, hx, reduceCtorEq, if_false,
    UInt64.reduceOfNat, U64.addOk, UInt64.reduceAdd, UInt64.reduceToNat, Nat.reduceAdd, Nat.reduceLT, Nat.reducePow, decide_true,
    arith_true, remaining_lt b hb]
  by_cases g1 : b.length < 75
  · simp only [g1, decide_true, if_true, bind_ret, Flow.run, embed]
  simp only [g1, decide_false, Bool.false_eq_true, if_false, bind_next]
  obtain ⟨s', hs⟩ := decrypt_message_x ov E N codec.kind c b k xa hk hx hb (by omega) hopen
  rw [hs]
  simp only [call_ok, bind_next, gt_iff_lt]
  cases ho : E.C.openB xa (List.take 32 c.key) (List.take 24 b) [] (List.drop 24 b) with
  | none => simp only [q_err, bind_ret, Flow.run, embed, Option.map_none]
  | some p =>
    have hp : p.length + 16 = b.length - 24 := by have := hopen _ _ _ _ _ _ ho; simp only [List.length_drop] at this; omega
    simp only [q_ok, bind_next, Option.map_some]
    rw [tail_client ov E N s' (List.drop 16 p) _ _ _ hm hnow (by simp only [List.length_drop]; omega) (by simp only [List.length_drop]; omega)]
    simp only [u64_of_be8]

/-- **`decode_server_packet_aead_2022` (client side), every 2022 kind** = the model's `decode` in client mode: the type byte
must be the server type, the echoed client session id / server session id / packet id are the model's, timestamp window,
padding, address; never a panic -/
theorem decode_server_eq (ov : Bool) (E : MEnv) (N : Usize) (codec : AEADCipherCodec) (c : Context MT) (b : List UInt8) (k : Ss.Kind)
    (hk : toKind codec.kind = some k) (h22 : k.is2022 = true) (hm : c.stream_type = .Client)
    (hb : b.length < 2 ^ 64) (hnow : E.now < 2 ^ 64)
    (hopen : ∀ a key n ad ct p, E.C.openB a key n ad ct = some p → ct.length = p.length + 16)
    (haes : ∀ key x, (E.C.aesDec key x).length = 16) :
    embed (AEADCipherCodec.decode_server_packet_aead_2022 ov (XM E) N codec c b) =
      SsUdp.decode E.C (toCtx k c) .client E.now b := by
  cases hx : SsUdp.xAlg k with
  | none => exact decode_server_aes_eq ov E N codec c b k hk hx h22 hm hb hnow hopen haes
  | some xa => exact decode_server_x_eq ov E N codec c b k xa hk hx hm hb hnow hopen

/-! ## Part 2c — `AEADCipherCodec::decode` (dispatch, legacy branch) and `SessionCodec::decode` -/

/-- the legacy branch of `AEADCipherCodec::decode`: salt ‖ seal(address ‖ payload) -/
theorem decode_legacy_eq (ov : Bool) (E : MEnv) (N : Usize) (codec : AEADCipherCodec) (c : Context MT) (b : List UInt8) (k : Ss.Kind)
    (hk : toKind codec.kind = some k) (h22 : k.is2022 = false) (hkey : c.key.length = k.n)
    (hb : b.length < 2 ^ 64)
    (hopen : ∀ a key n ad ct p, E.C.openB a key n ad ct = some p → ct.length = p.length + 16) :
    embed (AEADCipherCodec.decode ov (XM E) N codec c b) = SsUdp.decode E.C (toCtx k c) (toMode c.stream_type) E.now b := by
  unfold AEADCipherCodec.decode SsUdp.decode
  simp only [is_aead_2022_eval ov _ k hk, h22, call_ok, bind_next, toCtx, Bool.false_eq_true, not_false_eq_true, if_true]
  have hkn : k.n < 2 ^ 64 := by cases k <;> simp [Ss.Kind.n]
  have hkl : (Cursor.len c.key).toNat = k.n := by rw [len_toNat _ (by omega), hkey]
  rw [remaining_lt b hb, hkl]
  by_cases g1 : b.length < k.n
  · simp only [g1, decide_true, if_true, bind_ret, Flow.run, embed]
  simp only [g1, decide_false, Bool.false_eq_true, if_false, bind_next]
  rw [split_to_eval b _ (by rw [hkl]; omega), hkl]
  simp only [bind_next, AEADCipherCodec.new_decoder, Flow.run, call_ok]
  have hnd : (XM E).aead_new_decoder codec.kind c.key (List.take k.n b) = PWGen.Res.ok (RResult.ok (Ss.newAuth E.C k c.key (List.take k.n b))) := by
    simp [XM, hk]
  have hdp : ∀ a src, (XM E).ChunkDecoder_decode_packet a src = match Ss.Auth.openB E.C a src with
      | (some p, a') => PWGen.Res.ok (a', [], RResult.ok p)
      | (none, a') => PWGen.Res.ok (a', [], RResult.err) := fun _ _ => rfl
  simp only [hnd, call_ok, bind_next, q_ok, hdp, Ss.Auth.openB]
  cases ho : E.C.openB (Ss.newAuth E.C k c.key (List.take k.n b)).alg (Ss.newAuth E.C k c.key (List.take k.n b)).key
      (Nonce.incStep (Ss.newAuth E.C k c.key (List.take k.n b)).nonce) [] (List.drop k.n b) with
  | none => simp only [call_ok, bind_next, q_err, bind_ret, embed]
  | some p =>
    have hp : p.length < 2 ^ 64 := by have := hopen _ _ _ _ _ _ ho; simp only [List.length_drop] at this; omega
    simp only [call_ok, bind_next, q_ok]
    rw [← decode_eq ov _ hp]
    cases hd : decode ov p with
    | panic => simp only [call_panic, bind_panic, embed, embedDecode]
    | ok v =>
      obtain ⟨r, res⟩ := v
      cases res with
      | err => simp only [call_ok, bind_next, bind_ret, q_err, embed, embedDecode]
      | ok a => simp only [call_ok, bind_next, q_ok, embed, embedDecode, toSession]; rfl

theorem run_call_id {α : Type} (r : PWGen.Res (Cursor × α)) :
    Flow.run ((Flow.call r : Flow (Cursor × α) (Cursor × α)).bind fun x => Flow.ret (x.1, x.2)) = r := by
  cases r with
  | panic => rfl
  | ok v => rfl

/-- **`AEADCipherCodec::decode`** (the dispatch on cipher family and on who is decoding, incl. the legacy salt ‖ seal branch)
= the model's `decode` in the mode of the context -/
theorem decode_eq_model (ov : Bool) (E : MEnv) (N : Usize) (codec : AEADCipherCodec) (c : Context MT) (b : List UInt8) (k : Ss.Kind)
    (hk : toKind codec.kind = some k) (hkey : k.is2022 = false → c.key.length = k.n)
    (hul : (c.user_manager.getD []).length < 2 ^ 64)
    (hb : b.length < 2 ^ 64) (hnow : E.now < 2 ^ 64)
    (hopen : ∀ a key n ad ct p, E.C.openB a key n ad ct = some p → ct.length = p.length + 16)
    (haes : ∀ key x, (E.C.aesDec key x).length = 16) :
    embed (AEADCipherCodec.decode ov (XM E) N codec c b) = SsUdp.decode E.C (toCtx k c) (toMode c.stream_type) E.now b := by
  cases h22 : k.is2022 with
  | false => exact decode_legacy_eq ov E N codec c b k hk h22 (hkey h22) hb hopen
  | true =>
    unfold AEADCipherCodec.decode
    simp only [is_aead_2022_eval ov _ k hk, h22, call_ok, bind_next]
    cases hm : c.stream_type with
    | Client =>
      simp only [toMode]
      rw [run_call_id, decode_server_eq ov E N codec c b k hk h22 hm hb hnow hopen haes]
    | Server =>
      simp only [toMode]
      rw [run_call_id, decode_client_eq ov E N codec c b k hk h22 hul hb hnow hopen haes]

/-- how a result of `SessionCodec::decode` is read -/
def embedS : PWGen.Res (Cursor × RResult (Option (Cursor × Address × Session))) → Octo.Res (Option (Bytes × Addr × SsUdp.Session))
  | .ok (_, .ok (some (p, a, s))) => .ok (some (p, toAddr a, toSession s))
  | .ok (_, .ok none) => .ok none
  | .ok (_, .err) => .err
  | .panic => .panic

/-- **`SessionCodec::decode`**: an empty datagram is `Ok(None)`, anything else is decoded whole = the model's `sessionDecode` -/
theorem session_decode_eq (ov : Bool) (E : MEnv) (N : Usize) (sc : SessionCodec MT) (b : List UInt8) (k : Ss.Kind)
    (hk : toKind sc.cipher.kind = some k) (hkey : k.is2022 = false → sc.context.key.length = k.n)
    (hul : (sc.context.user_manager.getD []).length < 2 ^ 64)
    (hb : b.length < 2 ^ 64) (hnow : E.now < 2 ^ 64)
    (hopen : ∀ a key n ad ct p, E.C.openB a key n ad ct = some p → ct.length = p.length + 16)
    (haes : ∀ key x, (E.C.aesDec key x).length = 16) :
    embedS (SessionCodec.decode ov (XM E) N sc b) =
      SsUdp.sessionDecode E.C (toCtx k sc.context) (toMode sc.context.stream_type) E.now b := by
  unfold SessionCodec.decode SsUdp.sessionDecode
  cases b with
  | nil => rfl
  | cons x r =>
    have hl : (Cursor.len (x :: r)).toNat = (x :: r).length := len_toNat _ hb
    simp only [Cursor.is_empty, List.isEmpty_cons, Bool.false_eq_true, if_false]
    rw [split_to_eval _ _ (by rw [hl]; exact Nat.le_refl _), hl, List.take_length, List.drop_length]
    simp only [bind_next]
    rw [← decode_eq_model ov E N sc.cipher sc.context (x :: r) k hk hkey hul hb hnow hopen haes]
    cases hd : AEADCipherCodec.decode ov (XM E) N sc.cipher sc.context (x :: r) with
    | panic => simp only [call_panic, bind_panic, Flow.run, embedS, embed]
    | ok v =>
      obtain ⟨s', res⟩ := v
      cases res with
      | err => simp only [call_ok, bind_next, bind_ret, q_err, Flow.run, embedS, embed]
      | ok t =>
        obtain ⟨p, a, s⟩ := t
        simp only [call_ok, bind_next, q_ok, Flow.run, embedS, embed]

/-! ## Part 4 — the ENCODE side: `encode_client_packet_aead_2022`, `encode_server_packet_aead_2022` -/

theorem u8_ofNat_mod (a : Nat) : UInt8.ofNat (a % 256) = u8 a := rfl

theorem beBytes_eight (x : Nat) : beBytes 8 x = be64 x := by
  simp only [beBytes, be64, be32, List.nil_append, List.cons_append, u8_ofNat_mod, Nat.div_div_eq_div_mul]

theorem beBytes_two' (x : Nat) : beBytes 2 x = be16 x := by
  simp only [beBytes, be16, List.nil_append, List.cons_append, u8_ofNat_mod]

/-- a chain of `usize` additions whose true sum fits does not overflow -/
theorem arith_add {ρ : Type} (ov : Bool) (a b : UInt64) (h : a.toNat + b.toNat < 2 ^ 64) :
    (Flow.arith ov (U64.addOk a b) : Flow Unit ρ) = Flow.next () := by
  have : U64.addOk a b = true := by simp [U64.addOk, h]
  rw [this, arith_true]

theorem add_toNat (a b : UInt64) (h : a.toNat + b.toNat < 2 ^ 64) : (a + b).toNat = a.toNat + b.toNat := by
  rw [UInt64.toNat_add]; exact Nat.mod_eq_of_lt h

/-- the padding length the encoder uses -/
def padLenOf (E : MEnv) (item : List UInt8) : UInt16 := if item.isEmpty then UInt16.ofNat E.padLen else 0
def padOf (E : MEnv) (item : List UInt8) : Bytes := if item.isEmpty then E.padding else []

theorem padLen_toNat (E : MEnv) (item : List UInt8) (hpad : E.padding.length = E.padLen) (hpl : E.padLen < 65536) :
    (U16.as_usize (padLenOf E item)).toNat = (padOf E item).length := by
  unfold padLenOf padOf U16.as_usize
  cases item.isEmpty
  · rfl
  · simp only [if_true, hpad]
    rw [UInt16.toNat_ofNat_of_lt' (by simpa using hpl), UInt64.toNat_ofNat_of_lt' (by simp [UInt64.size]; omega)]

theorem padLen_toNat16 (E : MEnv) (item : List UInt8) (hpad : E.padding.length = E.padLen) (hpl : E.padLen < 65536) :
    (padLenOf E item).toNat = (padOf E item).length := by
  unfold padLenOf padOf
  cases item.isEmpty
  · rfl
  · simp only [if_true, hpad]
    rw [UInt16.toNat_ofNat_of_lt' (by simpa using hpl)]

theorem be64_length (n : Nat) : (be64 n).length = 8 := rfl

theorem junk_len (n : Usize) (j : List UInt8) : ((j ++ List.replicate n.toNat 0).take n.toNat).length = n.toNat := by
  simp [List.length_take]

theorem aes_enc_eval (E : MEnv) (kind : CipherKind) (k : Ss.Kind) (hk : toKind kind = some k) (he : k.supportEih = true) (key buf : Bytes) :
    (XM E).udp_aes_encrypt_in_place kind key buf = PWGen.Res.ok (E.C.aesEnc key buf, RResult.ok ()) := by simp [XM, hk, he]

theorem eipd_eval (E : MEnv) (c : Alg × Bytes) (nonce aad buf : Bytes) (h : 16 ≤ buf.length) :
    (XM E).CipherMethod_encrypt_in_place_detached c nonce aad buf =
      PWGen.Res.ok (E.C.sealB c.1 c.2 nonce aad (buf.take (buf.length - 16)), RResult.ok ()) := by
  have : ¬ buf.length < 16 := by omega
  simp [XM, this]

/-- the randomness the model's encoder is given, read off the environment of the externals -/
def randOf (E : MEnv) (item : List UInt8) : SsUdp.Rand := { salt := E.rnd, nonce := E.rnd.take 24, padding := padOf E item, now := E.now }

theorem enc_client_aes (ov : Bool) (E : MEnv) (N : Usize) (codec : AEADCipherCodec) (c : Context MT) (s : Session) (addr : Address)
    (item : List UInt8) (k : Ss.Kind)
    (hk : toKind codec.kind = some k) (hx : SsUdp.xAlg k = none) (h22 : k.is2022 = true)
    (hik : c.identity_keys = [])
    (hitem : Socks5Addr.length (toAddr addr) + item.length + 70000 < 2 ^ 64) (hnow : E.now < 2 ^ 64)
    (hpad : E.padding.length = E.padLen) (hpl : E.padLen < 65536) :
    AEADCipherCodec.encode_client_packet_aead_2022 ov (XM E) N codec c s addr item [] =
      .ok (SsUdp.encode E.C (toCtx k c) .client (toSession s) (toAddr addr) item (randOf E item), .ok ()) := by
  have he : k.supportEih = true := by cases k <;> simp_all [SsUdp.xAlg, Ss.Kind.is2022, Ss.Kind.supportEih]
  have hnl : SsUdp.nonceLen k = 0 := by simp [SsUdp.nonceLen, hx]
  unfold AEADCipherCodec.encode_client_packet_aead_2022
  have hnp : (XM E).aead_2022_next_padding_length item = .ok (padLenOf E item) := rfl
  have hP := padLen_toNat E item hpad hpl
  have hPl : (padOf E item).length ≤ 65535 := by
    unfold padOf; split
    · rw [hpad]; omega
    · simp
  have hR : (Cursor.remaining item).toNat = item.length := remaining_toNat item (by omega)
  have hL : (UInt64.ofNat (Socks5Addr.length (toAddr addr))).toNat = Socks5Addr.length (toAddr addr) :=
    UInt64.toNat_ofNat_of_lt' (by simp [UInt64.size]; omega)
  simp only [hnp, nonce_length_eval E _ k hk h22, tag_size_eval E _ k hk, support_eih_eval ov _ k hk, he, hnl, call_ok, bind_next, hik,
    List.isEmpty_nil, Bool.not_true, Bool.and_false, Bool.false_eq_true, if_false, UInt64.reduceOfNat, UInt64.reduceAdd,
    length_eq ov addr (by omega)]
  generalize hPd : U16.as_usize (padLenOf E item) = P at *
  generalize hLd : UInt64.ofNat (Socks5Addr.length (toAddr addr)) = L at *
  generalize hRd : Cursor.remaining item = R at *
  have s1 : ((27 : UInt64) + P).toNat = 27 + P.toNat := add_toNat _ _ (by show 27 + _ < _; omega)
  have s2 : ((27 : UInt64) + P + L).toNat = 27 + P.toNat + L.toNat := by rw [add_toNat _ _ (by rw [s1]; omega), s1]
  have s3 : ((27 : UInt64) + P + L + R).toNat = 27 + P.toNat + L.toNat + R.toNat := by rw [add_toNat _ _ (by rw [s2]; omega), s2]
  rw [arith_add ov 0 8 (by decide), bind_next, arith_add ov 8 8 (by decide), bind_next, arith_add ov 16 0 (by decide), bind_next,
    arith_add ov 16 1 (by decide), bind_next, arith_add ov 17 8 (by decide), bind_next, arith_add ov 25 2 (by decide), bind_next,
    arith_add ov 27 P (by show 27 + _ < _; omega), bind_next, arith_add ov _ L (by rw [s1]; omega), bind_next,
    arith_add ov _ R (by rw [s2]; omega), bind_next, arith_add ov _ 16 (by rw [s3]; show _ + 16 < _; omega), bind_next]
  have hroll : (XM E).dice_roll_bytes P = PWGen.Res.ok (padOf E item) := by
    show PWGen.Res.ok (E.padding.take P.toNat) = _
    rw [hP]; unfold padOf; split
    · rw [List.take_length]
    · simp
  have hnowx : (XM E).aead_2022_now = PWGen.Res.ok (RResult.ok (UInt64.ofNat E.now)) := rfl
  have hkk : codec.kind = .Aead2022Blake3Aes128Gcm ∨ codec.kind = .Aead2022Blake3Aes256Gcm := by
    cases hkd : codec.kind <;> simp [hkd, toKind] at hk <;> subst hk <;> simp_all [SsUdp.xAlg, Ss.Kind.is2022]
  simp only [gt_iff_lt, UInt64.lt_irrefl, decide_false, Bool.false_eq_true, if_false, bind_next, to_u8_eval, call_ok, hnowx, q_ok, hroll,
    encode_eq, toMode, Ss.Mode.toU8, if_true]
  have hP16 := padLen_toNat16 E item hpad hpl
  have hnow' : (UInt64.ofNat E.now).toNat = E.now := UInt64.toNat_ofNat_of_lt' (by simpa [UInt64.size] using hnow)
  have hmodel : SsUdp.encode E.C (toCtx k c) .client (toSession s) (toAddr addr) item (randOf E item) =
      E.C.aesEnc c.key (be64 s.client_session_id.toNat ++ be64 s.packet_id.toNat) ++
        E.C.sealB k.alg (SsUdp.aesSessionKey E.C k c.key s.client_session_id.toNat)
          ((be64 s.client_session_id.toNat ++ be64 s.packet_id.toNat).drop 4) []
          ([0] ++ be64 E.now ++ be16 (padOf E item).length ++ padOf E item ++ Socks5Addr.encode (toAddr addr) ++ item) := by
    simp only [SsUdp.encode, toCtx, h22, not_true_eq_false, if_false, hx, hik, toSession, randOf, Ss.Mode.toU8, ne_eq, and_false,
      List.append_nil, not_false_eq_true]
  rw [hmodel]
  have hD : ∀ J : List UInt8, (Cursor.extend_from_slice
                (Cursor.extend_from_slice
                    (Cursor.put_u16
                      (Cursor.put_u64
                        (Cursor.put_u8 (Cursor.put_u64 (Cursor.put_u64 [] s.client_session_id) s.packet_id) 0)
                        (UInt64.ofNat E.now))
                      (padLenOf E item))
                    (padOf E item) ++
                  Socks5Addr.encode (toAddr addr))
                item) ++ J =
      (be64 s.client_session_id.toNat ++ be64 s.packet_id.toNat) ++
        (([0] ++ be64 E.now ++ be16 (padOf E item).length ++ padOf E item ++ Socks5Addr.encode (toAddr addr) ++ item) ++ J) := by
    intro J
    simp only [Cursor.extend_from_slice, Cursor.put_u16, Cursor.put_u64, Cursor.put_u8, beBytes_eight, beBytes_two', hnow', hP16,
      List.nil_append, List.append_assoc, List.cons_append]
  generalize hH : be64 s.client_session_id.toNat ++ be64 s.packet_id.toNat = H at *
  have hHl : H.length = 16 := by rw [← hH]; rfl
  generalize hB : [0] ++ be64 E.now ++ be16 (padOf E item).length ++ padOf E item ++ Socks5Addr.encode (toAddr addr) ++ item = B at *
  have hJ := junk_len 16 ((XM E).spare_bytes 16)
  generalize hJd : List.take (16 : Usize).toNat ((XM E).spare_bytes 16 ++ List.replicate (16 : Usize).toNat 0) = J at *
  have hJ16 : J.length = 16 := hJ
  rcases hkk with hkd | hkd
  all_goals
    simp only [hkd, Cursor.advance_mut, hJd, hD]
    rw [split_at_eval _ 16 (by simp only [List.length_append, hHl]; show 16 ≤ _; omega)]
    simp only [bind_next, UInt64.reduceToNat, List.take_left' hHl, List.drop_left' hHl]
    rw [slice_eval _ 4 16 (by decide) (by rw [hHl]; decide)]
    simp only [bind_next, UInt64.reduceToNat, List.take_of_length_le (Nat.le_of_eq hHl)]
    rw [copy_from_slice_eval _ _ (by simp [hHl])]
    simp only [bind_next, ← hkd, aes_enc_eval E _ k hk he, get_cipher_aes_eval E _ k hk h22 hx, call_ok, q_ok]
    rw [eipd_eval _ _ _ _ _ (by simp only [List.length_append, hJ16]; omega)]
    simp only [call_ok, bind_next, q_ok, Flow.run, List.append_nil, List.length_append, hJ16, Nat.add_sub_cancel,
      List.take_left' rfl]

theorem enc_server_aes_key (ov : Bool) (E : MEnv) (N : Usize) (codec : AEADCipherCodec) (c : Context MT) (s : Session) (addr : Address)
    (item : List UInt8) (k : Ss.Kind) (key : Bytes)
    (hu : (s.user = none ∧ c.key = key) ∨ (∃ u, s.user = some u ∧ u.key = key))
    (hk : toKind codec.kind = some k) (hx : SsUdp.xAlg k = none) (h22 : k.is2022 = true)
    (hitem : Socks5Addr.length (toAddr addr) + item.length + 70000 < 2 ^ 64) (hnow : E.now < 2 ^ 64)
    (hpad : E.padding.length = E.padLen) (hpl : E.padLen < 65536) :
    AEADCipherCodec.encode_server_packet_aead_2022 ov (XM E) N codec c s addr item [] =
      .ok (SsUdp.encode E.C (toCtx k c) .server (toSession s) (toAddr addr) item (randOf E item), .ok ()) := by
  have he : k.supportEih = true := by cases k <;> simp_all [SsUdp.xAlg, Ss.Kind.is2022, Ss.Kind.supportEih]
  have hnl : SsUdp.nonceLen k = 0 := by simp [SsUdp.nonceLen, hx]
  unfold AEADCipherCodec.encode_server_packet_aead_2022
  have hnp : (XM E).aead_2022_next_padding_length item = .ok (padLenOf E item) := rfl
  have hP := padLen_toNat E item hpad hpl
  have hPl : (padOf E item).length ≤ 65535 := by
    unfold padOf; split
    · rw [hpad]; omega
    · simp
  have hR : (Cursor.remaining item).toNat = item.length := remaining_toNat item (by omega)
  have hL : (UInt64.ofNat (Socks5Addr.length (toAddr addr))).toNat = Socks5Addr.length (toAddr addr) :=
    UInt64.toNat_ofNat_of_lt' (by simp [UInt64.size]; omega)
  simp only [hnp, nonce_length_eval E _ k hk h22, tag_size_eval E _ k hk, hnl, call_ok, bind_next,
    UInt64.reduceOfNat, UInt64.reduceAdd, length_eq ov addr (by omega)]
  generalize hPd : U16.as_usize (padLenOf E item) = P at *
  generalize hLd : UInt64.ofNat (Socks5Addr.length (toAddr addr)) = L at *
  generalize hRd : Cursor.remaining item = R at *
  have s1 : ((35 : UInt64) + P).toNat = 35 + P.toNat := add_toNat _ _ (by show 35 + _ < _; omega)
  have s2 : ((35 : UInt64) + P + L).toNat = 35 + P.toNat + L.toNat := by rw [add_toNat _ _ (by rw [s1]; omega), s1]
  have s3 : ((35 : UInt64) + P + L + R).toNat = 35 + P.toNat + L.toNat + R.toNat := by rw [add_toNat _ _ (by rw [s2]; omega), s2]
  rw [arith_add ov 0 8 (by decide), bind_next, arith_add ov 8 8 (by decide), bind_next, arith_add ov 16 1 (by decide), bind_next,
    arith_add ov 17 8 (by decide), bind_next, arith_add ov 25 8 (by decide), bind_next, arith_add ov 33 2 (by decide), bind_next,
    arith_add ov 35 P (by show 35 + _ < _; omega), bind_next, arith_add ov _ L (by rw [s1]; omega), bind_next,
    arith_add ov _ R (by rw [s2]; omega), bind_next, arith_add ov _ 16 (by rw [s3]; show _ + 16 < _; omega), bind_next]
  have hroll : (XM E).dice_roll_bytes P = PWGen.Res.ok (padOf E item) := by
    show PWGen.Res.ok (E.padding.take P.toNat) = _
    rw [hP]; unfold padOf; split
    · rw [List.take_length]
    · simp
  have hnowx : (XM E).aead_2022_now = PWGen.Res.ok (RResult.ok (UInt64.ofNat E.now)) := rfl
  have hkk : codec.kind = .Aead2022Blake3Aes128Gcm ∨ codec.kind = .Aead2022Blake3Aes256Gcm := by
    cases hkd : codec.kind <;> simp [hkd, toKind] at hk <;> subst hk <;> simp_all [SsUdp.xAlg, Ss.Kind.is2022]
  simp only [gt_iff_lt, UInt64.lt_irrefl, decide_false, Bool.false_eq_true, if_false, bind_next, to_u8_eval, call_ok, hnowx, q_ok, hroll,
    encode_eq, toMode, Ss.Mode.toU8, if_true]
  have hP16 := padLen_toNat16 E item hpad hpl
  have hnow' : (UInt64.ofNat E.now).toNat = E.now := UInt64.toNat_ofNat_of_lt' (by simpa [UInt64.size] using hnow)
  have hmodel : SsUdp.encode E.C (toCtx k c) .server (toSession s) (toAddr addr) item (randOf E item) =
      E.C.aesEnc key (be64 s.server_session_id.toNat ++ be64 s.packet_id.toNat) ++
        E.C.sealB k.alg (SsUdp.aesSessionKey E.C k key s.server_session_id.toNat)
          ((be64 s.server_session_id.toNat ++ be64 s.packet_id.toNat).drop 4) []
          ([1] ++ be64 E.now ++ be64 s.client_session_id.toNat ++ be16 (padOf E item).length ++ padOf E item ++
            Socks5Addr.encode (toAddr addr) ++ item) := by
    simp only [SsUdp.encode, toCtx, h22, not_true_eq_false, if_false, hx, toSession, randOf, Ss.Mode.toU8]
    rcases hu with ⟨hu, hkey⟩ | ⟨u, hu, hkey⟩
    · simp only [hu, Option.map_none, hkey]
    · simp only [hu, Option.map_some, toUser, hkey]
  rw [hmodel]
  have hD : ∀ J : List UInt8, (Cursor.extend_from_slice
                (Cursor.extend_from_slice
                    (Cursor.put_u16
                      (Cursor.put_u64
                        (Cursor.put_u64
                          (Cursor.put_u8 (Cursor.put_u64 (Cursor.put_u64 [] s.server_session_id) s.packet_id) 1)
                          (UInt64.ofNat E.now))
                        s.client_session_id)
                      (padLenOf E item))
                    (padOf E item) ++
                  Socks5Addr.encode (toAddr addr))
                item) ++ J =
      (be64 s.server_session_id.toNat ++ be64 s.packet_id.toNat) ++
        (([1] ++ be64 E.now ++ be64 s.client_session_id.toNat ++ be16 (padOf E item).length ++ padOf E item ++
            Socks5Addr.encode (toAddr addr) ++ item) ++ J) := by
    intro J
    simp only [Cursor.extend_from_slice, Cursor.put_u16, Cursor.put_u64, Cursor.put_u8, beBytes_eight, beBytes_two', hnow', hP16,
      List.nil_append, List.append_assoc, List.cons_append]
  generalize hH : be64 s.server_session_id.toNat ++ be64 s.packet_id.toNat = H at *
  have hHl : H.length = 16 := by rw [← hH]; rfl
  generalize hB : [1] ++ be64 E.now ++ be64 s.client_session_id.toNat ++ be16 (padOf E item).length ++ padOf E item ++
            Socks5Addr.encode (toAddr addr) ++ item = B at *
  have hJ := junk_len 16 ((XM E).spare_bytes 16)
  generalize hJd : List.take (16 : Usize).toNat ((XM E).spare_bytes 16 ++ List.replicate (16 : Usize).toNat 0) = J at *
  have hJ16 : J.length = 16 := hJ
  rcases hkk with hkd | hkd <;> rcases hu with ⟨hu, hkey⟩ | ⟨u, hu, hkey⟩
  all_goals
    simp only [hkd, hu, hkey, Cursor.advance_mut, hJd, hD]
    rw [split_at_eval _ 16 (by simp only [List.length_append, hHl]; show 16 ≤ _; omega)]
    simp only [bind_next, UInt64.reduceToNat, List.take_left' hHl, List.drop_left' hHl]
    rw [slice_eval _ 4 16 (by decide) (by rw [hHl]; decide)]
    simp only [bind_next, UInt64.reduceToNat, List.take_of_length_le (Nat.le_of_eq hHl)]
    rw [copy_from_slice_eval _ _ (by simp [hHl])]
    simp only [bind_next, hkey, ← hkd, aes_enc_eval E _ k hk he, get_cipher_aes_eval E _ k hk h22 hx, call_ok, q_ok]
    rw [eipd_eval _ _ _ _ _ (by simp only [List.length_append, hJ16]; omega)]
    simp only [call_ok, bind_next, q_ok, Flow.run, List.append_nil, List.length_append, hJ16, Nat.add_sub_cancel,
      List.take_left' rfl]

theorem enc_client_x (ov : Bool) (E : MEnv) (N : Usize) (codec : AEADCipherCodec) (c : Context MT) (s : Session) (addr : Address)
    (item : List UInt8) (k : Ss.Kind) (xa : Alg)
    (hk : toKind codec.kind = some k) (hx : SsUdp.xAlg k = some xa)
    (hitem : Socks5Addr.length (toAddr addr) + item.length + 70000 < 2 ^ 64) (hnow : E.now < 2 ^ 64)
    (hpad : E.padding.length = E.padLen) (hpl : E.padLen < 65536) (hrnd : 24 ≤ E.rnd.length) :
    AEADCipherCodec.encode_client_packet_aead_2022 ov (XM E) N codec c s addr item [] =
      .ok (SsUdp.encode E.C (toCtx k c) .client (toSession s) (toAddr addr) item (randOf E item), .ok ()) := by
  have h22 : k.is2022 = true := by cases k <;> simp_all [SsUdp.xAlg, Ss.Kind.is2022]
  have he : k.supportEih = false := by cases k <;> simp_all [SsUdp.xAlg, Ss.Kind.supportEih]
  have hnl : SsUdp.nonceLen k = 24 := by simp [SsUdp.nonceLen, hx]
  unfold AEADCipherCodec.encode_client_packet_aead_2022
  have hnp : (XM E).aead_2022_next_padding_length item = .ok (padLenOf E item) := rfl
  have hP := padLen_toNat E item hpad hpl
  have hPl : (padOf E item).length ≤ 65535 := by
    unfold padOf; split
    · rw [hpad]; omega
    · simp
  have hR : (Cursor.remaining item).toNat = item.length := remaining_toNat item (by omega)
  have hL : (UInt64.ofNat (Socks5Addr.length (toAddr addr))).toNat = Socks5Addr.length (toAddr addr) :=
    UInt64.toNat_ofNat_of_lt' (by simp [UInt64.size]; omega)
  simp only [hnp, nonce_length_eval E _ k hk h22, tag_size_eval E _ k hk, hnl, call_ok, bind_next, support_eih_eval ov _ k hk, he, Bool.false_and, Bool.false_eq_true, if_false,
    UInt64.reduceOfNat, UInt64.reduceAdd, length_eq ov addr (by omega)]
  generalize hPd : U16.as_usize (padLenOf E item) = P at *
  generalize hLd : UInt64.ofNat (Socks5Addr.length (toAddr addr)) = L at *
  generalize hRd : Cursor.remaining item = R at *
  have s1 : ((51 : UInt64) + P).toNat = 51 + P.toNat := add_toNat _ _ (by show 51 + _ < _; omega)
  have s2 : ((51 : UInt64) + P + L).toNat = 51 + P.toNat + L.toNat := by rw [add_toNat _ _ (by rw [s1]; omega), s1]
  have s3 : ((51 : UInt64) + P + L + R).toNat = 51 + P.toNat + L.toNat + R.toNat := by rw [add_toNat _ _ (by rw [s2]; omega), s2]
  rw [arith_add ov 24 8 (by decide), bind_next, arith_add ov 32 8 (by decide), bind_next, arith_add ov 40 0 (by decide), bind_next,
    arith_add ov 40 1 (by decide), bind_next, arith_add ov 41 8 (by decide), bind_next, arith_add ov 49 2 (by decide), bind_next,
    arith_add ov 51 P (by show 51 + _ < _; omega), bind_next, arith_add ov _ L (by rw [s1]; omega), bind_next,
    arith_add ov _ R (by rw [s2]; omega), bind_next, arith_add ov _ 16 (by rw [s3]; show _ + 16 < _; omega), bind_next]
  have hroll : (XM E).dice_roll_bytes P = PWGen.Res.ok (padOf E item) := by
    show PWGen.Res.ok (E.padding.take P.toNat) = _
    rw [hP]; unfold padOf; split
    · rw [List.take_length]
    · simp
  have hnowx : (XM E).aead_2022_now = PWGen.Res.ok (RResult.ok (UInt64.ofNat E.now)) := rfl
  have hkk : codec.kind = .Aead2022Blake3ChaCha8Poly1305 ∨ codec.kind = .Aead2022Blake3ChaCha20Poly1305 := by
    cases hkd : codec.kind <;> simp [hkd, toKind] at hk <;> subst hk <;> simp_all [SsUdp.xAlg, Ss.Kind.is2022]
  have hfill : ∀ b : List UInt8, b.length = 24 → (XM E).dice_fill_bytes b = PWGen.Res.ok (E.rnd.take 24, ()) := by
    intro b hb
    show PWGen.Res.ok ((E.rnd ++ List.replicate b.length 0).take b.length, ()) = _
    rw [hb, List.take_append_of_le_length hrnd]
  have hJ24 := junk_len 24 ((XM E).spare_bytes 24)
  have hg : decide ((24 : UInt64) > 0) = true := by decide
  simp only [hg, if_true, Cursor.advance_mut, List.nil_append]
  rw [split_at_eval _ 24 (by rw [hJ24]; exact Nat.le_refl _), List.take_of_length_le (Nat.le_of_eq hJ24), List.drop_of_length_le (Nat.le_of_eq hJ24)]
  simp only [bind_next, hfill _ hJ24, call_ok, to_u8_eval, hnowx, q_ok, hroll, encode_eq, toMode, Ss.Mode.toU8]
  have hP16 := padLen_toNat16 E item hpad hpl
  have hnow' : (UInt64.ofNat E.now).toNat = E.now := UInt64.toNat_ofNat_of_lt' (by simpa [UInt64.size] using hnow)
  have hmodel : SsUdp.encode E.C (toCtx k c) .client (toSession s) (toAddr addr) item (randOf E item) =
      E.rnd.take 24 ++ E.C.sealB xa (c.key.take 32) (E.rnd.take 24) []
          ((be64 s.client_session_id.toNat ++ be64 s.packet_id.toNat) ++ ([0] ++ be64 E.now ++ be16 (padOf E item).length ++ padOf E item ++ Socks5Addr.encode (toAddr addr) ++ item)) := by
    simp only [SsUdp.encode, toCtx, h22, not_true_eq_false, if_false, hx, toSession, randOf, Ss.Mode.toU8]
  rw [hmodel]
  generalize hNn : List.take 24 E.rnd = Nn at *
  have hNl : Nn.length = 24 := by rw [← hNn, List.length_take]; omega
  have hD : ∀ J : List UInt8, (Cursor.extend_from_slice
                (Cursor.extend_from_slice
                    (Cursor.put_u16
                      (Cursor.put_u64
                        (Cursor.put_u8 (Cursor.put_u64 (Cursor.put_u64 (Nn ++ []) s.client_session_id) s.packet_id) 0)
                        (UInt64.ofNat E.now))
                      (padLenOf E item))
                    (padOf E item) ++
                  Socks5Addr.encode (toAddr addr))
                item) ++ J =
      Nn ++ (((be64 s.client_session_id.toNat ++ be64 s.packet_id.toNat) ++ ([0] ++ be64 E.now ++ be16 (padOf E item).length ++ padOf E item ++ Socks5Addr.encode (toAddr addr) ++ item)) ++ J) := by
    intro J
    simp only [Cursor.extend_from_slice, Cursor.put_u16, Cursor.put_u64, Cursor.put_u8, beBytes_eight, beBytes_two', hnow', hP16,
      List.nil_append, List.append_nil, List.append_assoc, List.cons_append]
  generalize hB : (be64 s.client_session_id.toNat ++ be64 s.packet_id.toNat) ++ ([0] ++ be64 E.now ++ be16 (padOf E item).length ++ padOf E item ++ Socks5Addr.encode (toAddr addr) ++ item) = B at *
  have hJ := junk_len 16 ((XM E).spare_bytes 16)
  generalize hJd : List.take (16 : Usize).toNat ((XM E).spare_bytes 16 ++ List.replicate (16 : Usize).toNat 0) = J at *
  have hJ16 : J.length = 16 := hJ
  rcases hkk with hkd | hkd
  all_goals
    simp only [hkd, hD]
    rw [split_at_eval _ 24 (by simp only [List.length_append, hNl]; show 24 ≤ _; omega)]
    simp only [bind_next, UInt64.reduceToNat, List.take_left' hNl, List.drop_left' hNl]
    simp only [← hkd, get_cipher_x_eval E _ k hk h22 xa hx, call_ok, bind_next]
    rw [eipd_eval _ _ _ _ _ (by simp only [List.length_append, hJ16]; omega)]
    simp only [call_ok, bind_next, q_ok, Flow.run, List.length_append, hJ16, Nat.add_sub_cancel, List.take_left' rfl]

theorem enc_server_x (ov : Bool) (E : MEnv) (N : Usize) (codec : AEADCipherCodec) (c : Context MT) (s : Session) (addr : Address)
    (item : List UInt8) (k : Ss.Kind) (xa : Alg)
    (hk : toKind codec.kind = some k) (hx : SsUdp.xAlg k = some xa)
    (hitem : Socks5Addr.length (toAddr addr) + item.length + 70000 < 2 ^ 64) (hnow : E.now < 2 ^ 64)
    (hpad : E.padding.length = E.padLen) (hpl : E.padLen < 65536) (hrnd : 24 ≤ E.rnd.length) :
    AEADCipherCodec.encode_server_packet_aead_2022 ov (XM E) N codec c s addr item [] =
      .ok (SsUdp.encode E.C (toCtx k c) .server (toSession s) (toAddr addr) item (randOf E item), .ok ()) := by
  have h22 : k.is2022 = true := by cases k <;> simp_all [SsUdp.xAlg, Ss.Kind.is2022]
  have he : k.supportEih = false := by cases k <;> simp_all [SsUdp.xAlg, Ss.Kind.supportEih]
  have hnl : SsUdp.nonceLen k = 24 := by simp [SsUdp.nonceLen, hx]
  unfold AEADCipherCodec.encode_server_packet_aead_2022
  have hnp : (XM E).aead_2022_next_padding_length item = .ok (padLenOf E item) := rfl
  have hP := padLen_toNat E item hpad hpl
  have hPl : (padOf E item).length ≤ 65535 := by
    unfold padOf; split
    · rw [hpad]; omega
    · simp
  have hR : (Cursor.remaining item).toNat = item.length := remaining_toNat item (by omega)
  have hL : (UInt64.ofNat (Socks5Addr.length (toAddr addr))).toNat = Socks5Addr.length (toAddr addr) :=
    UInt64.toNat_ofNat_of_lt' (by simp [UInt64.size]; omega)
  simp only [hnp, nonce_length_eval E _ k hk h22, tag_size_eval E _ k hk, hnl, call_ok, bind_next, 
    UInt64.reduceOfNat, UInt64.reduceAdd, length_eq ov addr (by omega)]
  generalize hPd : U16.as_usize (padLenOf E item) = P at *
  generalize hLd : UInt64.ofNat (Socks5Addr.length (toAddr addr)) = L at *
  generalize hRd : Cursor.remaining item = R at *
  have s1 : ((59 : UInt64) + P).toNat = 59 + P.toNat := add_toNat _ _ (by show 59 + _ < _; omega)
  have s2 : ((59 : UInt64) + P + L).toNat = 59 + P.toNat + L.toNat := by rw [add_toNat _ _ (by rw [s1]; omega), s1]
  have s3 : ((59 : UInt64) + P + L + R).toNat = 59 + P.toNat + L.toNat + R.toNat := by rw [add_toNat _ _ (by rw [s2]; omega), s2]
  rw [arith_add ov 24 8 (by decide), bind_next, arith_add ov 32 8 (by decide), bind_next, arith_add ov 40 1 (by decide), bind_next,
    arith_add ov 41 8 (by decide), bind_next, arith_add ov 49 8 (by decide), bind_next, arith_add ov 57 2 (by decide), bind_next,
    arith_add ov 59 P (by show 59 + _ < _; omega), bind_next, arith_add ov _ L (by rw [s1]; omega), bind_next,
    arith_add ov _ R (by rw [s2]; omega), bind_next, arith_add ov _ 16 (by rw [s3]; show _ + 16 < _; omega), bind_next]
  have hroll : (XM E).dice_roll_bytes P = PWGen.Res.ok (padOf E item) := by
    show PWGen.Res.ok (E.padding.take P.toNat) = _
    rw [hP]; unfold padOf; split
    · rw [List.take_length]
    · simp
  have hnowx : (XM E).aead_2022_now = PWGen.Res.ok (RResult.ok (UInt64.ofNat E.now)) := rfl
  have hkk : codec.kind = .Aead2022Blake3ChaCha8Poly1305 ∨ codec.kind = .Aead2022Blake3ChaCha20Poly1305 := by
    cases hkd : codec.kind <;> simp [hkd, toKind] at hk <;> subst hk <;> simp_all [SsUdp.xAlg, Ss.Kind.is2022]
  have hfill : ∀ b : List UInt8, b.length = 24 → (XM E).dice_fill_bytes b = PWGen.Res.ok (E.rnd.take 24, ()) := by
    intro b hb
    show PWGen.Res.ok ((E.rnd ++ List.replicate b.length 0).take b.length, ()) = _
    rw [hb, List.take_append_of_le_length hrnd]
  have hJ24 := junk_len 24 ((XM E).spare_bytes 24)
  have hg : decide ((24 : UInt64) > 0) = true := by decide
  simp only [hg, if_true, Cursor.advance_mut, List.nil_append]
  rw [split_at_eval _ 24 (by rw [hJ24]; exact Nat.le_refl _), List.take_of_length_le (Nat.le_of_eq hJ24), List.drop_of_length_le (Nat.le_of_eq hJ24)]
  simp only [bind_next, hfill _ hJ24, call_ok, to_u8_eval, hnowx, q_ok, hroll, encode_eq, toMode, Ss.Mode.toU8]
  have hP16 := padLen_toNat16 E item hpad hpl
  have hnow' : (UInt64.ofNat E.now).toNat = E.now := UInt64.toNat_ofNat_of_lt' (by simpa [UInt64.size] using hnow)
  have hmodel : SsUdp.encode E.C (toCtx k c) .server (toSession s) (toAddr addr) item (randOf E item) =
      E.rnd.take 24 ++ E.C.sealB xa (c.key.take 32) (E.rnd.take 24) []
          ((be64 s.server_session_id.toNat ++ be64 s.packet_id.toNat) ++ ([1] ++ be64 E.now ++ be64 s.client_session_id.toNat ++ be16 (padOf E item).length ++ padOf E item ++ Socks5Addr.encode (toAddr addr) ++ item)) := by
    simp only [SsUdp.encode, toCtx, h22, not_true_eq_false, if_false, hx, toSession, randOf, Ss.Mode.toU8]
  rw [hmodel]
  generalize hNn : List.take 24 E.rnd = Nn at *
  have hNl : Nn.length = 24 := by rw [← hNn, List.length_take]; omega
  have hD : ∀ J : List UInt8, (Cursor.extend_from_slice
                (Cursor.extend_from_slice
                    (Cursor.put_u16
                      (Cursor.put_u64
                        (Cursor.put_u64
                          (Cursor.put_u8 (Cursor.put_u64 (Cursor.put_u64 (Nn ++ []) s.server_session_id) s.packet_id) 1)
                          (UInt64.ofNat E.now))
                        s.client_session_id)
                      (padLenOf E item))
                    (padOf E item) ++
                  Socks5Addr.encode (toAddr addr))
                item) ++ J =
      Nn ++ (((be64 s.server_session_id.toNat ++ be64 s.packet_id.toNat) ++ ([1] ++ be64 E.now ++ be64 s.client_session_id.toNat ++ be16 (padOf E item).length ++ padOf E item ++ Socks5Addr.encode (toAddr addr) ++ item)) ++ J) := by
    intro J
    simp only [Cursor.extend_from_slice, Cursor.put_u16, Cursor.put_u64, Cursor.put_u8, beBytes_eight, beBytes_two', hnow', hP16,
      List.nil_append, List.append_nil, List.append_assoc, List.cons_append]
  generalize hB : (be64 s.server_session_id.toNat ++ be64 s.packet_id.toNat) ++ ([1] ++ be64 E.now ++ be64 s.client_session_id.toNat ++ be16 (padOf E item).length ++ padOf E item ++ Socks5Addr.encode (toAddr addr) ++ item) = B at *
  have hJ := junk_len 16 ((XM E).spare_bytes 16)
  generalize hJd : List.take (16 : Usize).toNat ((XM E).spare_bytes 16 ++ List.replicate (16 : Usize).toNat 0) = J at *
  have hJ16 : J.length = 16 := hJ
  rcases hkk with hkd | hkd
  all_goals
    simp only [hkd, hD]
    rw [split_at_eval _ 24 (by simp only [List.length_append, hNl]; show 24 ≤ _; omega)]
    simp only [bind_next, UInt64.reduceToNat, List.take_left' hNl, List.drop_left' hNl]
    simp only [← hkd, get_cipher_x_eval E _ k hk h22 xa hx, call_ok, bind_next]
    rw [eipd_eval _ _ _ _ _ (by simp only [List.length_append, hJ16]; omega)]
    simp only [call_ok, bind_next, q_ok, Flow.run, List.length_append, hJ16, Nat.add_sub_cancel, List.take_left' rfl]

theorem withEih_length (C : Crypto) (hl : ∀ k b, (C.aesEnc k b).length = 16) (key sp : Bytes) :
    ∀ iks : List Bytes, (SsUdp.withEih C key sp iks).length = 16 * iks.length
  | [] => rfl
  | [_] => by simp [SsUdp.withEih, hl]
  | a :: b :: r => by
    have := withEih_length C hl key sp (b :: r)
    simp only [SsUdp.withEih, List.length_append, hl, this, List.length_cons]; omega

theorem with_eih_eval (E : MEnv) (kind : CipherKind) (k : Ss.Kind) (hk : toKind kind = some k) (he : k.supportEih = true)
    (key sp dst : Bytes) (iks : List Bytes) :
    (XM E).udp_with_eih kind key iks sp dst = PWGen.Res.ok (dst ++ SsUdp.withEih E.C key sp iks, RResult.ok ()) := by simp [XM, hk, he]

theorem mul16_toNat (n : Nat) (h : n < 2 ^ 59) : ((16 : UInt64) * UInt64.ofNat n).toNat = 16 * n := by
  have e : (UInt64.ofNat n).toNat = n := UInt64.toNat_ofNat_of_lt' (by simp [UInt64.size]; omega)
  rw [UInt64.toNat_mul, e]; show 16 * n % 2 ^ 64 = _; omega

theorem arith_mul16 {ρ : Type} (ov : Bool) (n : Nat) (h : n < 2 ^ 59) :
    (Flow.arith ov (U64.mulOk 16 (UInt64.ofNat n)) : Flow Unit ρ) = Flow.next () := by
  have e : (UInt64.ofNat n).toNat = n := UInt64.toNat_ofNat_of_lt' (by simp [UInt64.size]; omega)
  have : U64.mulOk 16 (UInt64.ofNat n) = true := by
    simp only [U64.mulOk, e, decide_eq_true_eq]; show 16 * n < 2 ^ 64; omega
  rw [this, arith_true]

/-- **`encode_client_packet_aead_2022`, AES kinds, with identity keys (any number)** = the model: ALL identity headers that
`with_eih` appended (16 bytes per identity key) stay in clear in front of the sealed body (the code as repaired in 743f501:
`eih_len = 16 * identity_keys.len()`) -/
theorem enc_client_aes_eih (ov : Bool) (E : MEnv) (N : Usize) (codec : AEADCipherCodec) (c : Context MT) (s : Session) (addr : Address)
    (item : List UInt8) (k : Ss.Kind) (ik : Bytes) (iks : List Bytes)
    (hk : toKind codec.kind = some k) (hx : SsUdp.xAlg k = none) (h22 : k.is2022 = true)
    (hik : c.identity_keys = ik :: iks) (hn : (ik :: iks).length < 2 ^ 59)
    (hitem : Socks5Addr.length (toAddr addr) + item.length + 70000 < 2 ^ 63) (hnow : E.now < 2 ^ 64)
    (hpad : E.padding.length = E.padLen) (hpl : E.padLen < 65536)
    (haesl : ∀ k b, (E.C.aesEnc k b).length = 16) :
    AEADCipherCodec.encode_client_packet_aead_2022 ov (XM E) N codec c s addr item [] =
      .ok (SsUdp.encode E.C (toCtx k c) .client (toSession s) (toAddr addr) item (randOf E item), .ok ()) := by
  have he : k.supportEih = true := by cases k <;> simp_all [SsUdp.xAlg, Ss.Kind.is2022, Ss.Kind.supportEih]
  have hnl : SsUdp.nonceLen k = 0 := by simp [SsUdp.nonceLen, hx]
  unfold AEADCipherCodec.encode_client_packet_aead_2022
  have hnp : (XM E).aead_2022_next_padding_length item = .ok (padLenOf E item) := rfl
  have hP := padLen_toNat E item hpad hpl
  have hPl : (padOf E item).length ≤ 65535 := by
    unfold padOf; split
    · rw [hpad]; omega
    · simp
  have hR : (Cursor.remaining item).toNat = item.length := remaining_toNat item (by omega)
  have hL : (UInt64.ofNat (Socks5Addr.length (toAddr addr))).toNat = Socks5Addr.length (toAddr addr) :=
    UInt64.toNat_ofNat_of_lt' (by simp [UInt64.size]; omega)
  have hEL := mul16_toNat (ik :: iks).length hn
  simp only [hnp, nonce_length_eval E _ k hk h22, tag_size_eval E _ k hk, support_eih_eval ov _ k hk, he, hnl, call_ok, bind_next, hik,
    List.isEmpty_cons, Bool.not_false, Bool.and_true, if_true, UInt64.reduceOfNat, UInt64.reduceAdd, ListArr.len,
    arith_mul16 ov _ hn, length_eq ov addr (by omega)]
  generalize hPd : U16.as_usize (padLenOf E item) = P at *
  generalize hLd : UInt64.ofNat (Socks5Addr.length (toAddr addr)) = L at *
  generalize hRd : Cursor.remaining item = R at *
  generalize hELd : (16 : UInt64) * UInt64.ofNat (ik :: iks).length = EL at *
  have hELb : EL.toNat < 2 ^ 63 := by rw [hEL]; omega
  have hELp : 16 ≤ EL.toNat := by rw [hEL]; simp only [List.length_cons]; omega
  have t1 : ((16 : UInt64) + EL).toNat = 16 + EL.toNat := add_toNat _ _ (by show 16 + _ < _; omega)
  have t2 : ((16 : UInt64) + EL + 1).toNat = 16 + EL.toNat + 1 := by rw [add_toNat _ _ (by rw [t1]; show _ + 1 < _; omega), t1]; rfl
  have t3 : ((16 : UInt64) + EL + 1 + 8).toNat = 16 + EL.toNat + 1 + 8 := by rw [add_toNat _ _ (by rw [t2]; show _ + 8 < _; omega), t2]; rfl
  have t4 : ((16 : UInt64) + EL + 1 + 8 + 2).toNat = 16 + EL.toNat + 1 + 8 + 2 := by rw [add_toNat _ _ (by rw [t3]; show _ + 2 < _; omega), t3]; rfl
  have s1 : ((16 : UInt64) + EL + 1 + 8 + 2 + P).toNat = 16 + EL.toNat + 1 + 8 + 2 + P.toNat := by rw [add_toNat _ _ (by rw [t4]; omega), t4]
  have s2 : ((16 : UInt64) + EL + 1 + 8 + 2 + P + L).toNat = 16 + EL.toNat + 1 + 8 + 2 + P.toNat + L.toNat := by rw [add_toNat _ _ (by rw [s1]; omega), s1]
  have s3 : ((16 : UInt64) + EL + 1 + 8 + 2 + P + L + R).toNat = 16 + EL.toNat + 1 + 8 + 2 + P.toNat + L.toNat + R.toNat := by
    rw [add_toNat _ _ (by rw [s2]; omega), s2]
  rw [arith_add ov 0 8 (by decide), bind_next, arith_add ov 8 8 (by decide), bind_next, arith_add ov 16 EL (by show 16 + _ < _; omega), bind_next,
    arith_add ov _ 1 (by rw [t1]; show _ + 1 < _; omega), bind_next, arith_add ov _ 8 (by rw [t2]; show _ + 8 < _; omega), bind_next,
    arith_add ov _ 2 (by rw [t3]; show _ + 2 < _; omega), bind_next,
    arith_add ov _ P (by rw [t4]; omega), bind_next, arith_add ov _ L (by rw [s1]; omega), bind_next,
    arith_add ov _ R (by rw [s2]; omega), bind_next, arith_add ov _ 16 (by rw [s3]; show _ + 16 < _; omega), bind_next]
  have hroll : (XM E).dice_roll_bytes P = PWGen.Res.ok (padOf E item) := by
    show PWGen.Res.ok (E.padding.take P.toNat) = _
    rw [hP]; unfold padOf; split
    · rw [List.take_length]
    · simp
  have hnowx : (XM E).aead_2022_now = PWGen.Res.ok (RResult.ok (UInt64.ofNat E.now)) := rfl
  have hkk : codec.kind = .Aead2022Blake3Aes128Gcm ∨ codec.kind = .Aead2022Blake3Aes256Gcm := by
    cases hkd : codec.kind <;> simp [hkd, toKind] at hk <;> subst hk <;> simp_all [SsUdp.xAlg, Ss.Kind.is2022]
  have hP16 := padLen_toNat16 E item hpad hpl
  have hnow' : (UInt64.ofNat E.now).toNat = E.now := UInt64.toNat_ofNat_of_lt' (by simpa [UInt64.size] using hnow)
  have hmodel : SsUdp.encode E.C (toCtx k c) .client (toSession s) (toAddr addr) item (randOf E item) =
      E.C.aesEnc ik (be64 s.client_session_id.toNat ++ be64 s.packet_id.toNat) ++
        SsUdp.withEih E.C c.key (be64 s.client_session_id.toNat ++ be64 s.packet_id.toNat) (ik :: iks) ++
        E.C.sealB k.alg (SsUdp.aesSessionKey E.C k c.key s.client_session_id.toNat)
          ((be64 s.client_session_id.toNat ++ be64 s.packet_id.toNat).drop 4) []
          ([0] ++ be64 E.now ++ be16 (padOf E item).length ++ padOf E item ++ Socks5Addr.encode (toAddr addr) ++ item) := by
    simp only [SsUdp.encode, toCtx, h22, not_true_eq_false, if_false, hx, hik, toSession, randOf, Ss.Mode.toU8, he, ne_eq,
      List.cons_ne_nil, not_false_eq_true, and_self, if_true, reduceCtorEq]
  rw [hmodel]
  have hH0 : Cursor.put_u64 (Cursor.put_u64 [] s.client_session_id) s.packet_id =
      be64 s.client_session_id.toNat ++ be64 s.packet_id.toNat := by
    simp only [Cursor.put_u64, beBytes_eight, List.nil_append]
  simp only [gt_iff_lt, UInt64.lt_irrefl, decide_false, Bool.false_eq_true, if_false, bind_next, hH0]
  generalize hH : be64 s.client_session_id.toNat ++ be64 s.packet_id.toNat = H at *
  have hHl : H.length = 16 := by rw [← hH]; rfl
  have hlenH : (Cursor.len H).toNat = 16 := by rw [len_toNat _ (by rw [hHl]; decide), hHl]
  rw [slice_eval _ 0 _ (by simp) (by rw [hlenH, hHl]; exact Nat.le_refl _)]
  simp only [bind_next, hlenH, UInt64.reduceToNat, List.drop_zero, List.take_of_length_le (Nat.le_of_eq hHl)]
  rw [copy_from_slice_eval _ _ (by simp [hHl])]
  simp only [bind_next, with_eih_eval E _ k hk he, call_ok, q_ok, to_u8_eval, hnowx, hroll, encode_eq, toMode, Ss.Mode.toU8]
  have hWl := withEih_length E.C haesl c.key H (ik :: iks)
  generalize hW : SsUdp.withEih E.C c.key H (ik :: iks) = W at *
  have hWEL : W.length = EL.toNat := by rw [hWl, hEL]
  have hD : ∀ J : List UInt8, (Cursor.extend_from_slice
                (Cursor.extend_from_slice
                    (Cursor.put_u16 (Cursor.put_u64 (Cursor.put_u8 (H ++ W) 0) (UInt64.ofNat E.now)) (padLenOf E item))
                    (padOf E item) ++
                  Socks5Addr.encode (toAddr addr))
                item) ++ J =
      H ++ (W ++ (([0] ++ be64 E.now ++ be16 (padOf E item).length ++ padOf E item ++ Socks5Addr.encode (toAddr addr) ++ item) ++ J)) := by
    intro J
    simp only [Cursor.extend_from_slice, Cursor.put_u16, Cursor.put_u64, Cursor.put_u8, beBytes_eight, beBytes_two', hnow', hP16,
      List.nil_append, List.append_assoc, List.cons_append]
  generalize hB : [0] ++ be64 E.now ++ be16 (padOf E item).length ++ padOf E item ++ Socks5Addr.encode (toAddr addr) ++ item = B at *
  have hJ := junk_len 16 ((XM E).spare_bytes 16)
  generalize hJd : List.take (16 : Usize).toNat ((XM E).spare_bytes 16 ++ List.replicate (16 : Usize).toNat 0) = J at *
  have hJ16 : J.length = 16 := hJ
  have hg : decide ((0 : UInt64) < EL) = true := by
    rw [decide_eq_true_eq, UInt64.lt_iff_toNat_lt]; show 0 < EL.toNat; omega
  have hla : ∀ ρ : Type, (Flow.listAt (ik :: iks) 0 : Flow _ ρ) = Flow.next ik := fun _ => rfl
  rcases hkk with hkd | hkd
  all_goals
    simp only [hkd, Cursor.advance_mut, hJd, hD]
    rw [split_at_eval _ 16 (by simp only [List.length_append, hHl]; show 16 ≤ _; omega)]
    simp only [bind_next, UInt64.reduceToNat, List.take_left' hHl, List.drop_left' hHl]
    rw [slice_eval _ 4 16 (by decide) (by rw [hHl]; decide)]
    simp only [bind_next, UInt64.reduceToNat, List.take_of_length_le (Nat.le_of_eq hHl)]
    rw [copy_from_slice_eval _ _ (by simp [hHl])]
    simp only [bind_next, hla, ← hkd, aes_enc_eval E _ k hk he, call_ok, q_ok, hg, if_true]
    rw [split_at_eval _ EL (by simp only [List.length_append, hWEL]; omega)]
    simp only [bind_next, List.take_left' hWEL, List.drop_left' hWEL, get_cipher_aes_eval E _ k hk h22 hx, call_ok]
    rw [eipd_eval _ _ _ _ _ (by simp only [List.length_append, hJ16]; omega)]
    simp only [call_ok, bind_next, q_ok, Flow.run, List.nil_append, List.length_append, hJ16, Nat.add_sub_cancel,
      List.take_left' rfl, List.append_assoc]

/-- one identity key (kept under its old name): an instance of `enc_client_aes_eih` -/
theorem enc_client_aes_eih1 (ov : Bool) (E : MEnv) (N : Usize) (codec : AEADCipherCodec) (c : Context MT) (s : Session) (addr : Address)
    (item : List UInt8) (k : Ss.Kind) (ik : Bytes)
    (hk : toKind codec.kind = some k) (hx : SsUdp.xAlg k = none) (h22 : k.is2022 = true)
    (hik : c.identity_keys = [ik])
    (hitem : Socks5Addr.length (toAddr addr) + item.length + 70000 < 2 ^ 63) (hnow : E.now < 2 ^ 64)
    (hpad : E.padding.length = E.padLen) (hpl : E.padLen < 65536)
    (haesl : ∀ k b, (E.C.aesEnc k b).length = 16) :
    AEADCipherCodec.encode_client_packet_aead_2022 ov (XM E) N codec c s addr item [] =
      .ok (SsUdp.encode E.C (toCtx k c) .client (toSession s) (toAddr addr) item (randOf E item), .ok ()) :=
  enc_client_aes_eih ov E N codec c s addr item k ik [] hk hx h22 hik (by simp) hitem hnow hpad hpl haesl

/-- **`encode_client_packet_aead_2022`** (any 2022 kind, ANY number of identity keys below 2^59, `dst` empty at entry) writes
exactly the model's wire bytes -/
theorem encode_client_eq (ov : Bool) (E : MEnv) (N : Usize) (codec : AEADCipherCodec) (c : Context MT) (s : Session) (addr : Address)
    (item : List UInt8) (k : Ss.Kind)
    (hk : toKind codec.kind = some k) (h22 : k.is2022 = true) (hik : c.identity_keys.length < 2 ^ 59)
    (hitem : Socks5Addr.length (toAddr addr) + item.length + 70000 < 2 ^ 63) (hnow : E.now < 2 ^ 64)
    (hpad : E.padding.length = E.padLen) (hpl : E.padLen < 65536) (hrnd : 24 ≤ E.rnd.length)
    (haesl : ∀ k b, (E.C.aesEnc k b).length = 16) :
    AEADCipherCodec.encode_client_packet_aead_2022 ov (XM E) N codec c s addr item [] =
      .ok (SsUdp.encode E.C (toCtx k c) .client (toSession s) (toAddr addr) item (randOf E item), .ok ()) := by
  cases hx : SsUdp.xAlg k with
  | some xa => exact enc_client_x ov E N codec c s addr item k xa hk hx (by omega) hnow hpad hpl hrnd
  | none =>
    cases hi : c.identity_keys with
    | nil => exact enc_client_aes ov E N codec c s addr item k hk hx h22 hi (by omega) hnow hpad hpl
    | cons ik iks => exact enc_client_aes_eih ov E N codec c s addr item k ik iks hk hx h22 hi (by rw [← hi]; exact hik) hitem hnow hpad hpl haesl

/-- **`encode_server_packet_aead_2022`** (any 2022 kind, `dst` empty at entry) writes exactly the model's wire bytes; the AES
kinds use the key of the session's user (when there is one) for the separate header AND the body -/
theorem encode_server_eq (ov : Bool) (E : MEnv) (N : Usize) (codec : AEADCipherCodec) (c : Context MT) (s : Session) (addr : Address)
    (item : List UInt8) (k : Ss.Kind)
    (hk : toKind codec.kind = some k) (h22 : k.is2022 = true)
    (hitem : Socks5Addr.length (toAddr addr) + item.length + 70000 < 2 ^ 64) (hnow : E.now < 2 ^ 64)
    (hpad : E.padding.length = E.padLen) (hpl : E.padLen < 65536) (hrnd : 24 ≤ E.rnd.length) :
    AEADCipherCodec.encode_server_packet_aead_2022 ov (XM E) N codec c s addr item [] =
      .ok (SsUdp.encode E.C (toCtx k c) .server (toSession s) (toAddr addr) item (randOf E item), .ok ()) := by
  cases hx : SsUdp.xAlg k with
  | some xa => exact enc_server_x ov E N codec c s addr item k xa hk hx hitem hnow hpad hpl hrnd
  | none =>
    cases hu : s.user with
    | none => exact enc_server_aes_key ov E N codec c s addr item k c.key (.inl ⟨hu, rfl⟩) hk hx h22 hitem hnow hpad hpl
    | some u => exact enc_server_aes_key ov E N codec c s addr item k u.key (.inr ⟨u, hu, rfl⟩) hk hx h22 hitem hnow hpad hpl

/-- the legacy branch of `AEADCipherCodec::encode`: salt ‖ seal(address ‖ payload) -/
theorem encode_legacy_eq (ov : Bool) (E : MEnv) (N : Usize) (codec : AEADCipherCodec) (c : Context MT) (s : Session) (addr : Address)
    (item : List UInt8) (k : Ss.Kind)
    (hk : toKind codec.kind = some k) (h22 : k.is2022 = false)
    (hitem : Socks5Addr.length (toAddr addr) + item.length + 70000 < 2 ^ 64)
    (hrnd : E.rnd.length = N.toNat) :
    AEADCipherCodec.encode ov (XM E) N codec c s addr item [] =
      .ok (SsUdp.encode E.C (toCtx k c) (toMode c.stream_type) (toSession s) (toAddr addr) item (randOf E item), .ok ()) := by
  unfold AEADCipherCodec.encode SsUdp.encode
  have hfill : (XM E).dice_fill_bytes (List.replicate N.toNat 0) = PWGen.Res.ok (E.rnd, ()) := by
    show PWGen.Res.ok ((E.rnd ++ List.replicate (List.replicate N.toNat (0 : UInt8)).length 0).take (List.replicate N.toNat (0 : UInt8)).length, ()) = _
    rw [List.length_replicate, ← hrnd, List.take_left' rfl]
  have hR : (Cursor.remaining item).toNat = item.length := remaining_toNat item (by omega)
  have hL : (UInt64.ofNat (Socks5Addr.length (toAddr addr))).toNat = Socks5Addr.length (toAddr addr) :=
    UInt64.toNat_ofNat_of_lt' (by simp [UInt64.size]; omega)
  have hne : (XM E).aead_new_encoder codec.kind c.key E.rnd = PWGen.Res.ok (RResult.ok (Ss.newAuth E.C k c.key E.rnd)) := by simp [XM, hk]
  simp only [is_aead_2022_eval ov _ k hk, h22, call_ok, bind_next, toCtx, Bool.false_eq_true, not_false_eq_true, if_true, hfill,
    length_eq ov addr (by omega), encode_eq, AEADCipherCodec.new_encoder, Flow.run, hne, q_ok, randOf, Cursor.extend_from_slice,
    List.nil_append]
  rw [arith_add ov _ _ (by rw [hL, hR]; omega)]
  rfl

/-- **`AEADCipherCodec::encode`** (dispatch on cipher family and on who is encoding) = the model's `encode`, byte for byte,
with the randomness the externals hand out (`dst` empty at entry) -/
theorem encode_eq_model (ov : Bool) (E : MEnv) (N : Usize) (codec : AEADCipherCodec) (c : Context MT) (s : Session) (addr : Address)
    (item : List UInt8) (k : Ss.Kind)
    (hk : toKind codec.kind = some k) (hik : c.identity_keys.length < 2 ^ 59)
    (hitem : Socks5Addr.length (toAddr addr) + item.length + 70000 < 2 ^ 63) (hnow : E.now < 2 ^ 64)
    (hpad : E.padding.length = E.padLen) (hpl : E.padLen < 65536)
    (hrnd : if k.is2022 then 24 ≤ E.rnd.length else E.rnd.length = N.toNat)
    (haesl : ∀ k b, (E.C.aesEnc k b).length = 16) :
    AEADCipherCodec.encode ov (XM E) N codec c s addr item [] =
      .ok (SsUdp.encode E.C (toCtx k c) (toMode c.stream_type) (toSession s) (toAddr addr) item (randOf E item), .ok ()) := by
  cases h22 : k.is2022 with
  | false => exact encode_legacy_eq ov E N codec c s addr item k hk h22 (by omega) (by simpa [h22] using hrnd)
  | true =>
    have hr : 24 ≤ E.rnd.length := by simpa [h22] using hrnd
    unfold AEADCipherCodec.encode
    simp only [is_aead_2022_eval ov _ k hk, h22, call_ok, bind_next]
    cases hm : c.stream_type with
    | Client =>
      simp only [toMode]
      rw [run_call_id, encode_client_eq ov E N codec c s addr item k hk h22 hik hitem hnow hpad hpl hr haesl]
    | Server =>
      simp only [toMode]
      rw [run_call_id, encode_server_eq ov E N codec c s addr item k hk h22 (by omega) hnow hpad hpl hr]

/-- **`SessionCodec::encode`** = the model's `encode` of the packet's content, address and session -/
theorem session_encode_eq (ov : Bool) (E : MEnv) (N : Usize) (sc : SessionCodec MT) (content : List UInt8) (addr : Address) (s : Session)
    (k : Ss.Kind) (hk : toKind sc.cipher.kind = some k) (hik : sc.context.identity_keys.length < 2 ^ 59)
    (hitem : Socks5Addr.length (toAddr addr) + content.length + 70000 < 2 ^ 63) (hnow : E.now < 2 ^ 64)
    (hpad : E.padding.length = E.padLen) (hpl : E.padLen < 65536)
    (hrnd : if k.is2022 then 24 ≤ E.rnd.length else E.rnd.length = N.toNat)
    (haesl : ∀ k b, (E.C.aesEnc k b).length = 16) :
    SessionCodec.encode ov (XM E) N sc (content, addr, s) [] =
      .ok (SsUdp.encode E.C (toCtx k sc.context) (toMode sc.context.stream_type) (toSession s) (toAddr addr) content (randOf E content),
        .ok ()) := by
  unfold SessionCodec.encode
  rw [run_call_id]
  exact encode_eq_model ov E N sc.cipher sc.context s addr content k hk hik hitem hnow hpad hpl hrnd haesl

/-- **`Session::increase_packet_id`**: the packet id steps by exactly one (wrapping at 2^64, never a panic); everything else of
the session is unchanged.  With the model's `ClientCodec.encode` refusing to step past 2^64 − 1 (`c12_udp_client_ends_rather_than_wrap`)
consecutive datagrams of a session carry strictly increasing ids -/
theorem increase_packet_id_eval (ov : Bool) {T : ExtTypes} (X : Ext T) (N : Usize) (s : Session) :
    Session.increase_packet_id ov X N s = PWGen.Res.ok ({ s with packet_id := s.packet_id + 1 }, ()) := rfl

theorem increase_packet_id_toNat (s : Session) (h : s.packet_id.toNat + 1 < 2 ^ 64) :
    (toSession { s with packet_id := s.packet_id + 1 }).packetId = (toSession s).packetId + 1 := by
  simp only [toSession]
  rw [UInt64.toNat_add]; exact Nat.mod_eq_of_lt h

/-! ## Part 3 — `impl Ord for CipherKey` -/

theorem u64_cmp_def (a b : UInt64) : compare a b = compare a.toNat b.toNat := by
  show compareOfLessAndEq a b = compareOfLessAndEq a.toNat b.toNat
  unfold compareOfLessAndEq
  simp only [UInt64.lt_iff_toNat_lt, ← UInt64.toNat_inj]

theorem u8_cmp_def (a b : UInt8) : compare a b = compare a.toNat b.toNat := by
  show compareOfLessAndEq a b = compareOfLessAndEq a.toNat b.toNat
  unfold compareOfLessAndEq
  simp only [UInt8.lt_iff_toNat_lt, ← UInt8.toNat_inj]

theorem u64Cmp_total : TotalCmp (fun a b : UInt64 => compare a b) := by
  have e : (fun a b : UInt64 => compare a b) = fun a b => compare a.toNat b.toNat := by funext a b; exact u64_cmp_def a b
  rw [e]; exact TotalCmp.pullback UInt64.toNat (fun _ _ h => UInt64.toNat_inj.mp h) natCmp_total

theorem u8Cmp_total : TotalCmp (fun a b : UInt8 => compare a b) := by
  have e : (fun a b : UInt8 => compare a b) = fun a b => compare a.toNat b.toNat := by funext a b; exact u8_cmp_def a b
  rw [e]; exact TotalCmp.pullback UInt8.toNat (fun _ _ h => UInt8.toNat_inj.mp h) natCmp_total

theorem kind_as_u8_inj (a b : CipherKind) (h : CipherKind.as_u8 a = CipherKind.as_u8 b) : a = b := by
  cases a <;> cases b <;> first | rfl | (exact absurd h (by decide))

theorem cmp_eval (ov : Bool) {T : ExtTypes} (X : Ext T) (a b : CipherKey) :
    CipherKey.cmp ov X a b = PWGen.Res.ok (((compare a.session_id b.session_id).then (compare a.key b.key)).then
      (compare (CipherKind.as_u8 a.kind) (CipherKind.as_u8 b.kind))) := rfl

/-- **`CipherKey::cmp`** never panics, does not depend on the profile or the externals, and is a total order whose `Equal`
is equality of ALL three fields (kind, key, session id): two cache keys that differ anywhere are distinct entries -/
theorem cipher_key_cmp_total (ov : Bool) {T : ExtTypes} (X : Ext T) :
    ∃ cmp : CipherKey → CipherKey → Ordering, (∀ a b, CipherKey.cmp ov X a b = PWGen.Res.ok (cmp a b)) ∧ TotalCmp cmp := by
  refine ⟨fun a b => ((compare a.session_id b.session_id).then (compare a.key b.key)).then
      (compare (CipherKind.as_u8 a.kind) (CipherKind.as_u8 b.kind)), fun a b => cmp_eval ov X a b, ?_⟩
  have h := TotalCmp.pullback (fun x : CipherKey => ((x.session_id, x.key), CipherKind.as_u8 x.kind))
    (by
      intro x y e
      cases x; cases y
      simp only [Prod.mk.injEq] at e
      obtain ⟨⟨e1, e2⟩, e3⟩ := e
      simp only [CipherKey.mk.injEq]
      exact ⟨kind_as_u8_inj _ _ e3, e2, e1⟩)
    (TotalCmp.lex (TotalCmp.lex u64Cmp_total u64Cmp_total) u8Cmp_total)
  exact h

end Octo.SsUdpGen
