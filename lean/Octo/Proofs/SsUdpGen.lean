import Octo.Gen.SsUdpGen
import Octo.Proofs.AddrGen
import Octo.Proofs.AddrOrd
import Octo.Model.SsUdp
/-!
  The generated code (`Octo.SsUdpGen`, written by `translate_ssudp.py` from `octo-squirrel/src/codec/shadowsocks/udp.rs`
  and the files it names) against the hand-written model `Octo.SsUdp` (`Octo/Model/SsUdp.lean`).

  Part 0: the instantiation `XM` of the assumed externals by the hand model's `Crypto` interface.
  Part 1: evaluation of the small translated functions and of the primitives.
  Part 2: `decode_client_packet_aead_2022` (server side) = `SsUdp.decode .. .server`.
  Part 3: `CipherKey::cmp` is a total order consistent with equality of all three fields.
-/
set_option linter.unusedSimpArgs false
set_option linter.unusedVariables false
namespace Octo.SsUdpGen
open Octo Octo.PWGen Octo.AddrGen Octo.Addr

/-! ## Part 0 — the externals, instantiated by the hand model -/

def toKind : CipherKind → Option Ss.Kind
  | .Aes128Gcm => some .aes128
  | .Aes256Gcm => some .aes256
  | .ChaCha20Poly1305 => some .chacha20
  | .Aead2022Blake3Aes128Gcm => some .b3aes128
  | .Aead2022Blake3Aes256Gcm => some .b3aes256
  | .Aead2022Blake3ChaCha8Poly1305 => some .b3chacha8
  | .Aead2022Blake3ChaCha20Poly1305 => some .b3chacha20
  | .Unknown => none

def toMode : Mode → Ss.Mode
  | .Client => .client
  | .Server => .server

def toUser (u : ServerUser) : Ss.User := ⟨String.ofList (u.name.bytes.map fun b => Char.ofNat b.toNat), u.key, u.identity_hash⟩

/-- the types behind the externals: the list of registered users, a keyed AEAD (algorithm, key), the model's authenticator -/
@[reducible] def MT : ExtTypes := ⟨List ServerUser, Alg × Bytes, Ss.Auth⟩

def toSession (s : Session) : SsUdp.Session :=
  ⟨s.client_session_id.toNat, s.server_session_id.toNat, s.packet_id.toNat, s.user.map toUser⟩

def toCtx (k : Ss.Kind) (c : Context MT) : Ss.Ctx := ⟨k, c.key, c.identity_keys, (c.user_manager.getD []).map toUser⟩

structure MEnv where
  C : Crypto
  now : Nat
  trace : Bool

/-- the assumed externals, instantiated by the functions of the hand model -/
def XM (E : MEnv) : Ext MT where
  udp_nonce_length kind := match toKind kind with
    | some k => if k.is2022 then .ok (UInt64.ofNat (SsUdp.nonceLen k)) else .panic
    | none => .panic
  udp_aes_decrypt_in_place kind key buf := match toKind kind with
    | some k => if k.supportEih then .ok (E.C.aesDec key buf, .ok ()) else .ok (buf, .err)
    | none => .ok (buf, .err)
  get_cipher kind key sid := match toKind kind with
    | some k => if k.is2022 then
        (match SsUdp.xAlg k with
         | none => .ok (k.alg, SsUdp.aesSessionKey E.C k key sid.toNat)
         | some xa => .ok (xa, key.take 32))
      else .panic
    | none => .panic
  CipherMethod_decrypt_in_place c nonce aad buf := match E.C.openB c.1 c.2 nonce aad buf with
    | some p => .ok (p, .ok ())
    | none => .ok (buf, .err)
  CipherMethod_decrypt_in_place_detached c nonce aad buf :=
    if buf.length < 16 then .panic else
    match E.C.openB c.1 c.2 nonce aad buf with
    | some p => .ok (p ++ buf.drop (buf.length - 16), .ok ())
    | none => .ok (buf, .err)
  CipherKind_tag_size kind := match toKind kind with
    | some _ => .ok 16
    | none => .panic
  ServerUserManager_user_count m := .ok (UInt64.ofNat m.length)
  ServerUserManager_clone_user_by_hash m h := .ok (m.find? (fun u => u.identity_hash = h))
  aead_new_decoder kind key salt := match toKind kind with
    | some k => .ok (.ok (Ss.newAuth E.C k key salt))
    | none => .panic
  ChunkDecoder_decode_packet a src := match Ss.Auth.openB E.C a src with
    | (some p, a') => .ok (a', [], .ok p)
    | (none, a') => .ok (a', [], .err)
  aead_2022_now := .ok (.ok (UInt64.ofNat E.now))

/-- how a result of the generated decoders is read: the final `*src` is not part of the datagram's outcome -/
def embed : PWGen.Res (Cursor × RResult (Cursor × Address × Session)) → Octo.Res (Bytes × Addr × SsUdp.Session)
  | .ok (_, .ok (p, a, s)) => .ok (p, toAddr a, toSession s)
  | .ok (_, .err) => .err
  | .panic => .panic

/-! ## Part 1 — evaluation of the small functions and of the primitives -/

section flow
variable {α β ρ : Type}
theorem bind_next (a : α) (k : α → Flow β ρ) : (Flow.next a : Flow α ρ).bind k = k a := rfl
theorem bind_ret (r : ρ) (k : α → Flow β ρ) : (Flow.ret r : Flow α ρ).bind k = Flow.ret r := rfl
theorem bind_panic (k : α → Flow β ρ) : (Flow.panic : Flow α ρ).bind k = Flow.panic := rfl
theorem run_ret (r : ρ) : Flow.run (Flow.ret r : Flow Empty ρ) = PWGen.Res.ok r := rfl
theorem run_panic : Flow.run (Flow.panic : Flow Empty ρ) = PWGen.Res.panic := rfl
theorem call_ok (a : α) : (Flow.call (PWGen.Res.ok a) : Flow α ρ) = Flow.next a := rfl
theorem call_panic : (Flow.call (PWGen.Res.panic : PWGen.Res α) : Flow α ρ) = Flow.panic := rfl
theorem unwrap_some (a : α) : (Flow.unwrap (some a) : Flow α ρ) = Flow.next a := rfl
theorem arith_true (ov : Bool) : (Flow.arith ov true : Flow Unit ρ) = Flow.next () := by cases ov <;> rfl
theorem q_ok (v : α) (e : ρ) : (Flow.question (RResult.ok v) e : Flow α ρ) = Flow.next v := rfl
theorem q_err (e : ρ) : (Flow.question (RResult.err : RResult α) e : Flow α ρ) = Flow.ret e := rfl
end flow

theorem to_u8_eval (ov : Bool) (m : Mode) : Mode.to_u8 ov m = PWGen.Res.ok (toMode m).toU8 := by cases m <;> rfl
theorem expect_u8_eval (ov : Bool) (m : Mode) : Mode.expect_u8 ov m = PWGen.Res.ok (toMode m).expectU8 := by cases m <;> rfl

theorem is_aead_2022_eval (ov : Bool) (kind : CipherKind) (k : Ss.Kind) (h : toKind kind = some k) :
    CipherKind.is_aead_2022 ov kind = PWGen.Res.ok k.is2022 := by
  cases kind <;> simp [toKind] at h <;> subst h <;> rfl

theorem support_eih_eval (ov : Bool) (kind : CipherKind) (k : Ss.Kind) (h : toKind kind = some k) :
    CipherKind.support_eih ov kind = PWGen.Res.ok k.supportEih := by
  cases kind <;> simp [toKind] at h <;> subst h <;> rfl

theorem window_eq : SERVER_STREAM_TIMESTAMP_MAX_DIFF.toNat = Consts.ssMaxTimeDiff := by decide

theorem abs_diff_toNat (a b : UInt64) : (U64.abs_diff a b).toNat = Ss.absDiff a.toNat b.toNat := by
  unfold U64.abs_diff Ss.absDiff
  by_cases h : a ≤ b
  · have h' : a.toNat ≤ b.toNat := UInt64.le_iff_toNat_le.mp h
    rw [if_pos h, if_pos h', UInt64.toNat_sub_of_le _ _ h]
  · have h' : ¬ a.toNat ≤ b.toNat := fun x => h (UInt64.le_iff_toNat_le.mpr x)
    have h2 : b ≤ a := UInt64.le_iff_toNat_le.mpr (by omega)
    rw [if_neg h, if_neg h', UInt64.toNat_sub_of_le _ _ h2]

/-- `validate_timestamp` is the model's window test (clock `E.now`, the constant read from the source) -/
theorem validate_timestamp_eval (ov : Bool) (E : MEnv) (ts : UInt64) (hnow : E.now < 2 ^ 64) :
    validate_timestamp ov (XM E) ts =
      PWGen.Res.ok (if Ss.absDiff E.now ts.toNat > Consts.ssMaxTimeDiff then RResult.err else RResult.ok ()) := by
  have e1 : (UInt64.ofNat E.now).toNat = E.now := by simp [UInt64.toNat_ofNat']; omega
  have e2 : (U64.abs_diff (UInt64.ofNat E.now) ts > SERVER_STREAM_TIMESTAMP_MAX_DIFF) ↔
      Ss.absDiff E.now ts.toNat > Consts.ssMaxTimeDiff := by
    rw [GT.gt, UInt64.lt_iff_toNat_lt, abs_diff_toNat, e1, window_eq]
  unfold validate_timestamp
  simp only [XM, call_ok, bind_next, q_ok]
  by_cases h : Ss.absDiff E.now ts.toNat > Consts.ssMaxTimeDiff
  · rw [if_pos h, decide_eq_true (e2.mpr h)]; rfl
  · rw [if_neg h, decide_eq_false (fun x => h (e2.mp x))]; rfl

theorem remaining_toNat (b : List UInt8) (hb : b.length < 2 ^ 64) : (Cursor.remaining b).toNat = b.length := by
  simp [Cursor.remaining, UInt64.toNat_ofNat']; omega

theorem remaining_lt (b : List UInt8) (hb : b.length < 2 ^ 64) (x : Usize) :
    decide (Cursor.remaining b < x) = decide (b.length < x.toNat) := by
  rw [decide_eq_decide, UInt64.lt_iff_toNat_lt, remaining_toNat b hb]

theorem get_u8_eval {ρ : Type} (h : List UInt8) (hl : 1 ≤ h.length) :
    (Flow.get_u8 h : Flow _ ρ) = Flow.next (h.drop 1, h.headD 0) := by
  cases h with
  | nil => simp at hl
  | cons x r => rfl
theorem get_u64_eval {ρ : Type} (h : List UInt8) (hl : 8 ≤ h.length) :
    (Flow.get_u64 h : Flow _ ρ) = Flow.next (h.drop 8, UInt64.ofNat (beNat (h.take 8))) := by simp [Flow.get_u64, hl]
theorem get_u16_eval {ρ : Type} (h : List UInt8) (hl : 2 ≤ h.length) :
    (Flow.get_u16 h : Flow _ ρ) = Flow.next (h.drop 2, UInt16.ofNat (beNat (h.take 2))) := by simp [Flow.get_u16, hl]
theorem advance_eval {ρ : Type} (b : List UInt8) (n : Usize) (h : n.toNat ≤ b.length) :
    (Flow.advance b n : Flow _ ρ) = Flow.next (b.drop n.toNat) := by simp [Flow.advance, h]
theorem split_to_eval {ρ : Type} (b : List UInt8) (n : Usize) (h : n.toNat ≤ b.length) :
    (Flow.split_to b n : Flow _ ρ) = Flow.next (b.drop n.toNat, b.take n.toNat) := by simp [Flow.split_to, h]
theorem split_off_eval {ρ : Type} (b : List UInt8) (n : Usize) (h : n.toNat ≤ b.length) :
    (Flow.split_off b n : Flow _ ρ) = Flow.next (b.take n.toNat, b.drop n.toNat) := by simp [Flow.split_off, h]
theorem split_at_eval {ρ : Type} (b : List UInt8) (n : Usize) (h : n.toNat ≤ b.length) :
    (Flow.split_at b n : Flow _ ρ) = Flow.next (b.take n.toNat, b.drop n.toNat) := by simp [Flow.split_at, h]
theorem slice_eval {ρ : Type} (b : List UInt8) (lo hi : Usize) (h1 : lo.toNat ≤ hi.toNat) (h2 : hi.toNat ≤ b.length) :
    (Flow.slice b lo hi : Flow _ ρ) = Flow.next ((b.take hi.toNat).drop lo.toNat) := by simp [Flow.slice, h1, h2]
theorem copy_from_slice_eval {ρ : Type} (d s : List UInt8) (h : d.length = s.length) :
    (Flow.copy_from_slice d s : Flow _ ρ) = Flow.next s := by simp [Flow.copy_from_slice, h]
theorem io_get_u64_eval {ρ : Type} (b : List UInt8) (pos : Usize) (h : 8 ≤ b.length - pos.toNat) :
    (Flow.io_get_u64 ⟨b, pos⟩ : Flow _ ρ) = Flow.next (⟨b, pos + 8⟩, UInt64.ofNat (beNat ((b.drop pos.toNat).take 8))) := by
  simp [Flow.io_get_u64, h]

theorem beNat_take_lt (h : List UInt8) (n : Nat) : beNat (h.take n) < 256 ^ n := by
  have := beNat_lt (h.take n)
  have hl : (h.take n).length ≤ n := by simp [List.length_take]; omega
  exact Nat.lt_of_lt_of_le this (Nat.pow_le_pow_right (by decide) hl)

theorem u64_of_be8 (h : List UInt8) : (UInt64.ofNat (beNat (h.take 8))).toNat = rdBE (h.take 8) := by
  have := beNat_take_lt h 8
  rw [UInt64.toNat_ofNat_of_lt' (Nat.lt_of_lt_of_le this (by decide))]; rfl

theorem u16_len (h : List UInt8) : (U16.as_usize (UInt16.ofNat (beNat (h.take 2)))).toNat = rdBE (h.take 2) := by
  have := beNat_take_lt h 2
  have e : (UInt16.ofNat (beNat (h.take 2))).toNat = beNat (h.take 2) := UInt16.toNat_ofNat_of_lt' (Nat.lt_of_lt_of_le this (by decide))
  have e2 : (UInt64.ofNat (beNat (h.take 2))).toNat = beNat (h.take 2) := UInt64.toNat_ofNat_of_lt' (Nat.lt_of_lt_of_le this (by decide))
  rw [U16.as_usize, e, e2]; rfl

theorem xor_zip_eq : ∀ (a b : List UInt8), a.length ≤ b.length → Bytes.xor_zip a b = xorBytes a b
  | [], b, _ => by cases b <;> simp [Bytes.xor_zip, xorBytes]
  | x :: a, [], h => by simp at h
  | x :: a, y :: b, h => by
    have := xor_zip_eq a b (by simpa using h)
    simp only [Bytes.xor_zip, this, xorBytes, List.zipWith_cons_cons]

/-! the externals under `XM`, one evaluation lemma each (so that `XM` itself stays folded) -/
section ext
variable (E : MEnv) (kind : CipherKind) (k : Ss.Kind) (hk : toKind kind = some k)
include hk
theorem nonce_length_eval (h22 : k.is2022 = true) :
    (XM E).udp_nonce_length kind = PWGen.Res.ok (UInt64.ofNat (SsUdp.nonceLen k)) := by simp [XM, hk, h22]
theorem tag_size_eval : (XM E).CipherKind_tag_size kind = PWGen.Res.ok 16 := by simp [XM, hk]
theorem aes_dec_eval (he : k.supportEih = true) (key buf : Bytes) :
    (XM E).udp_aes_decrypt_in_place kind key buf = PWGen.Res.ok (E.C.aesDec key buf, RResult.ok ()) := by simp [XM, hk, he]
theorem get_cipher_aes_eval (h22 : k.is2022 = true) (hx : SsUdp.xAlg k = none) (key : Bytes) (sid : UInt64) :
    (XM E).get_cipher kind key sid = PWGen.Res.ok (k.alg, SsUdp.aesSessionKey E.C k key sid.toNat) := by simp [XM, hk, h22, hx]
theorem get_cipher_x_eval (h22 : k.is2022 = true) (xa : Alg) (hx : SsUdp.xAlg k = some xa) (key : Bytes) (sid : UInt64) :
    (XM E).get_cipher kind key sid = PWGen.Res.ok (xa, key.take 32) := by simp [XM, hk, h22, hx]
end ext

theorem dip_eval (E : MEnv) (c : Alg × Bytes) (nonce aad buf : Bytes) :
    (XM E).CipherMethod_decrypt_in_place c nonce aad buf = match E.C.openB c.1 c.2 nonce aad buf with
      | some p => PWGen.Res.ok (p, RResult.ok ())
      | none => PWGen.Res.ok (buf, RResult.err) := rfl
theorem dipd_eval (E : MEnv) (c : Alg × Bytes) (nonce aad buf : Bytes) (h : 16 ≤ buf.length) :
    (XM E).CipherMethod_decrypt_in_place_detached c nonce aad buf = match E.C.openB c.1 c.2 nonce aad buf with
      | some p => PWGen.Res.ok (p ++ buf.drop (buf.length - 16), RResult.ok ())
      | none => PWGen.Res.ok (buf, RResult.err) := by
  have : ¬ buf.length < 16 := by omega
  simp [XM, this]
theorem user_count_eval (E : MEnv) (m : List ServerUser) :
    (XM E).ServerUserManager_user_count m = PWGen.Res.ok (UInt64.ofNat m.length) := rfl
theorem clone_eval (E : MEnv) (m : List ServerUser) (h : Bytes) :
    (XM E).ServerUserManager_clone_user_by_hash m h = PWGen.Res.ok (m.find? (fun u => u.identity_hash = h)) := rfl

theorem findUser_map (m : List ServerUser) (h : Bytes) :
    Ss.findUser (m.map toUser) h = (m.find? (fun u => u.identity_hash = h)).map toUser := by
  induction m with
  | nil => rfl
  | cons u m ih =>
    simp only [List.map_cons, Ss.findUser, List.find?_cons] at ih ⊢
    by_cases hu : u.identity_hash = h
    · simp [toUser, hu]
    · simp only [toUser, hu, decide_false] at ih ⊢
      exact ih

/-! ## Part 2 — `decode_client_packet_aead_2022` -/

/-- the part common to all cipher families: type, timestamp, padding, address -/
theorem tail_server (ov : Bool) (E : MEnv) (N : Usize) (src p : List UInt8) (sid pid : UInt64) (user : Option ServerUser)
    (hnow : E.now < 2 ^ 64) (hp : 11 ≤ p.length) (hp2 : p.length < 2 ^ 64) :
    embed (Flow.run (
      (Flow.get_u8 p).bind fun x_1 =>
            ((Flow.call (Mode.to_u8 ov Mode.Client)).bind fun v73 =>
                  if (x_1.snd != v73) = true then
                    (Flow.call (Mode.to_u8 ov Mode.Client)).bind fun v74 => Flow.ret (src, RResult.err)
                  else Flow.next ()).bind
              fun x_2 =>
              (Flow.get_u64 x_1.fst).bind fun x_3 =>
                (Flow.call (validate_timestamp ov (XM E) x_3.snd)).bind fun v76 =>
                  (Flow.question v76 (src, RResult.err)).bind fun v77 =>
                    (Flow.get_u16 x_3.fst).bind fun x_4 =>
                      (if decide (Cursor.remaining x_4.fst < U16.as_usize x_4.snd) = true then
                            Flow.ret (src, RResult.err)
                          else Flow.next ()).bind
                        fun x_5 =>
                        (if decide (0 < x_4.snd) = true then
                              (Flow.advance x_4.fst (U16.as_usize x_4.snd)).bind fun packet => Flow.next packet
                            else Flow.next x_4.fst).bind
                          fun packet =>
                          (Flow.call (Session.new ov (XM E) N sid 0 pid user)).bind fun v79 =>
                            (Flow.call (decode ov packet)).bind fun x_6 =>
                              (Flow.question x_6.snd (src, RResult.err)).bind fun v81 =>
                                Flow.ret (src, RResult.ok (x_6.fst, v81, v79)))) =
    (if List.headD p 0 ≠ Ss.Mode.server.expectU8 then Res.err
      else
        if Consts.ssMaxTimeDiff < Ss.absDiff E.now (rdBE (List.take 8 (List.drop 1 p))) then Res.err
        else
          if (List.drop 9 p).length < 2 + rdBE (List.take 2 (List.drop 9 p)) then Res.err
          else
            match Socks5Addr.decode (List.drop (2 + rdBE (List.take 2 (List.drop 9 p))) (List.drop 9 p)) with
            | .ok (addr, rest) => .ok (rest, addr, ⟨sid.toNat, 0, pid.toNat, user.map toUser⟩)
            | .panic => .panic
            | _ => .err) := by
  rw [get_u8_eval p (by omega)]
  simp only [bind_next, to_u8_eval, call_ok, toMode, Ss.Mode.toU8, Ss.Mode.expectU8]
  by_cases g2' : ¬ p.headD 0 = 0
  · simp only [g2', bne_iff_ne, ne_eq, not_false_eq_true, if_true, bind_ret, Flow.run, embed]
  have g2 : p.headD 0 = 0 := Classical.not_not.mp g2'
  simp only [g2, bne_self_eq_false, Bool.false_eq_true, if_false, bind_next, ne_eq, not_true_eq_false]
  rw [get_u64_eval _ (by simp only [List.length_drop]; omega)]
  simp only [bind_next, validate_timestamp_eval ov E _ hnow, call_ok, u64_of_be8]
  by_cases g3 : Consts.ssMaxTimeDiff < Ss.absDiff E.now (rdBE (List.take 8 (List.drop 1 p)))
  · simp only [gt_iff_lt, g3, if_true, q_err, bind_ret, Flow.run, embed]
  simp only [gt_iff_lt, g3, if_false, q_ok, bind_next]
  rw [get_u16_eval _ (by simp only [List.length_drop]; omega)]
  simp only [bind_next, List.drop_drop, Nat.reduceAdd]
  rw [remaining_lt _ (by simp only [List.length_drop]; omega), u16_len]
  by_cases g4 : (List.drop 9 p).length < 2 + rdBE (List.take 2 (List.drop 9 p))
  · have : (List.drop 11 p).length < rdBE (List.take 2 (List.drop 9 p)) := by simp only [List.length_drop] at g4 ⊢; omega
    simp only [this, g4, decide_true, if_true, bind_ret, Flow.run, embed]
  have g4' : ¬ (List.drop 11 p).length < rdBE (List.take 2 (List.drop 9 p)) := by simp only [List.length_drop] at g4 ⊢; omega
  simp only [g4, g4', decide_false, Bool.false_eq_true, if_false, bind_next]
  have hadv : (if decide (0 < UInt16.ofNat (beNat (List.take 2 (List.drop 9 p)))) = true then
        (Flow.advance (List.drop 11 p) (U16.as_usize (UInt16.ofNat (beNat (List.take 2 (List.drop 9 p)))))).bind fun packet => Flow.next packet
      else (Flow.next (List.drop 11 p) : Flow (List UInt8) (Cursor × RResult (Cursor × Address × Session)))) =
      Flow.next (List.drop (2 + rdBE (List.take 2 (List.drop 9 p))) (List.drop 9 p)) := by
    have e : List.drop (2 + rdBE (List.take 2 (List.drop 9 p))) (List.drop 9 p) =
        List.drop (rdBE (List.take 2 (List.drop 9 p))) (List.drop 11 p) := by
      rw [List.drop_drop, List.drop_drop]; congr 1; omega
    rw [e]
    split
    · rw [advance_eval _ _ (by rw [u16_len]; omega), u16_len]; rfl
    · rename_i h0
      have : rdBE (List.take 2 (List.drop 9 p)) = 0 := by
        rw [← u16_len]
        have : UInt16.ofNat (beNat (List.take 2 (List.drop 9 p))) = 0 := by
          simp only [decide_eq_true_eq] at h0
          exact UInt16.le_antisymm (UInt16.not_lt.mp h0) (by simp [UInt16.le_iff_toNat_le])
        rw [this]; rfl
      rw [this]; rfl
  rw [hadv]
  simp only [bind_next, Session.new, Flow.run, call_ok, List.drop_drop]
  have hl : (List.drop (9 + (2 + rdBE (List.take 2 (List.drop 9 p)))) p).length < 2 ^ 64 := by
    simp only [List.length_drop]; omega
  rw [← decode_eq ov _ hl]
  cases hd : decode ov (List.drop (9 + (2 + rdBE (List.take 2 (List.drop 9 p)))) p) with
  | panic => simp only [call_panic, bind_panic, embed, embedDecode]
  | ok v =>
    obtain ⟨r, res⟩ := v
    cases res with
    | err => simp only [call_ok, bind_next, bind_ret, q_err, embed, embedDecode]
    | ok a => simp only [call_ok, bind_next, q_ok, embed, embedDecode, toSession]; rfl

/-- **`decode_client_packet_aead_2022`, AES kinds, no registered users** = the model's `decode` in server mode: same outcome
class (never a panic), same payload, address, session id, packet id -/
theorem decode_client_aes_psk_eq (ov : Bool) (E : MEnv) (N : Usize) (codec : AEADCipherCodec) (c : Context MT) (b : List UInt8) (k : Ss.Kind)
    (hk : toKind codec.kind = some k) (hx : SsUdp.xAlg k = none) (h22 : k.is2022 = true)
    (hum : (c.user_manager.getD []) = [])
    (hb : b.length < 2 ^ 64) (hnow : E.now < 2 ^ 64)
    (hopen : ∀ a key n ad ct p, E.C.openB a key n ad ct = some p → ct.length = p.length + 16)
    (haes : ∀ key x, (E.C.aesDec key x).length = 16) :
    embed (AEADCipherCodec.decode_client_packet_aead_2022 ov (XM E) N codec c b) =
      SsUdp.decode E.C (toCtx k c) .server E.now b := by
  have he : k.supportEih = true := by cases k <;> simp_all [SsUdp.xAlg, Ss.Kind.is2022, Ss.Kind.supportEih]
  have hnl : SsUdp.nonceLen k = 0 := by simp [SsUdp.nonceLen, hx]
  unfold AEADCipherCodec.decode_client_packet_aead_2022 SsUdp.decode
  simp only [nonce_length_eval E _ k hk h22, tag_size_eval E _ k hk, support_eih_eval ov _ k hk, he, hnl, h22, call_ok, bind_next,
    toCtx, hum, hx, List.map_nil, List.length_nil]
  have hum' : c.user_manager = none ∨ c.user_manager = some [] := by
    cases hm : c.user_manager with
    | none => exact .inl rfl
    | some u => simp [hm] at hum; subst hum; exact .inr rfl
  have hkk : codec.kind = .Aead2022Blake3Aes128Gcm ∨ codec.kind = .Aead2022Blake3Aes256Gcm := by
    cases hkd : codec.kind <;> simp [hkd, toKind] at hk <;> subst hk <;> simp_all [SsUdp.xAlg, Ss.Kind.is2022]
  rcases hum' with hm | hm <;> rcases hkk with hkd | hkd
  all_goals
    simp only [hm, hkd, user_count_eval, call_ok, bind_next, List.length_nil, UInt64.reduceOfNat, UInt64.lt_irrefl, gt_iff_lt,
      Bool.not_true, Bool.false_eq_true, if_false, if_true, U64.addOk, UInt64.reduceAdd,
      UInt64.reduceToNat, Nat.reduceAdd, Nat.reduceLT, Nat.reducePow, decide_true, arith_true, remaining_lt b hb, Nat.lt_irrefl,
      decide_false, and_false, Bool.and_false, not_true_eq_false, not_false_eq_true]
    by_cases g1 : b.length < 43
    · simp only [g1, decide_true, if_true, bind_ret, Flow.run, embed]
    simp only [g1, decide_false, Bool.false_eq_true, if_false, bind_next]
    rw [split_to_eval b 16 (by show 16 ≤ b.length; omega)]
    simp only [bind_next, ← hkd, aes_dec_eval E _ k hk he, call_ok, q_ok]
    rw [slice_eval _ 4 16 (by decide) (by rw [haes]; decide)]
    rw [bind_next, copy_from_slice_eval _ _ (by simp [haes])]
    simp only [bind_next, IoCursor.new]
    rw [io_get_u64_eval _ 0 (by rw [haes]; decide)]
    simp only [bind_next]
    rw [io_get_u64_eval _ _ (by rw [haes]; decide)]
    simp only [bind_next, get_cipher_aes_eval E _ k hk h22 hx, call_ok]
    rw [split_off_eval _ 0 (by simp)]
    simp only [bind_next, dip_eval]
    simp only [UInt64.reduceToNat, UInt64.reduceAdd, List.drop_zero, List.take_zero, u64_of_be8,
      List.take_of_length_le (Nat.le_of_eq (haes _ _))]
    cases ho : E.C.openB k.alg (SsUdp.aesSessionKey E.C k c.key (rdBE (List.take 8 (E.C.aesDec c.key (List.take 16 b)))))
        (List.drop 4 (E.C.aesDec c.key (List.take 16 b))) [] (List.drop 16 b) with
    | none => simp only [call_ok, bind_next, q_err, bind_ret, Flow.run, embed, Option.map_none]
    | some p =>
      have hp : p.length + 16 = b.length - 16 := by have := hopen _ _ _ _ _ _ ho; simp only [List.length_drop] at this; omega
      simp only [call_ok, bind_next, q_ok, Option.map_some]
      rw [tail_server ov E N [] p _ _ none hnow (by omega) (by omega)]
      have e8 : List.take 8 (List.drop 8 (E.C.aesDec c.key (List.take 16 b))) = List.drop 8 (E.C.aesDec c.key (List.take 16 b)) :=
        List.take_of_length_le (by simp [haes])
      have e9 : (UInt64.ofNat (beNat (List.drop 8 (E.C.aesDec c.key (List.take 16 b))))).toNat =
          rdBE (List.drop 8 (E.C.aesDec c.key (List.take 16 b))) := by rw [← e8]; exact u64_of_be8 _
      simp only [reduceCtorEq, if_false, u64_of_be8, e8, e9, Option.map_none]
      rfl

/-- **`decode_client_packet_aead_2022`, AES kinds, with registered users (identity header required)** = the model's `decode`
in server mode; in particular an identity hash that names no registered user is `Err` (never a fall-back to the server key),
and the body is opened under the key of the user found -/
theorem decode_client_aes_eih_eq (ov : Bool) (E : MEnv) (N : Usize) (codec : AEADCipherCodec) (c : Context MT) (b : List UInt8) (k : Ss.Kind)
    (u0 : ServerUser) (us : List ServerUser)
    (hk : toKind codec.kind = some k) (hx : SsUdp.xAlg k = none) (h22 : k.is2022 = true)
    (hm : c.user_manager = some (u0 :: us)) (hlen : (u0 :: us).length < 2 ^ 64)
    (hb : b.length < 2 ^ 64) (hnow : E.now < 2 ^ 64)
    (hopen : ∀ a key n ad ct p, E.C.openB a key n ad ct = some p → ct.length = p.length + 16)
    (haes : ∀ key x, (E.C.aesDec key x).length = 16) :
    embed (AEADCipherCodec.decode_client_packet_aead_2022 ov (XM E) N codec c b) =
      SsUdp.decode E.C (toCtx k c) .server E.now b := by
  have he : k.supportEih = true := by cases k <;> simp_all [SsUdp.xAlg, Ss.Kind.is2022, Ss.Kind.supportEih]
  have hnl : SsUdp.nonceLen k = 0 := by simp [SsUdp.nonceLen, hx]
  have hcnt : decide ((0 : Usize) < UInt64.ofNat (us.length + 1)) = true := by
    rw [decide_eq_true_eq, UInt64.lt_iff_toNat_lt, UInt64.toNat_ofNat_of_lt' (by simpa using hlen)]; simp
  unfold AEADCipherCodec.decode_client_packet_aead_2022 SsUdp.decode
  simp only [nonce_length_eval E _ k hk h22, tag_size_eval E _ k hk, support_eih_eval ov _ k hk, he, hnl, h22, call_ok, bind_next,
    toCtx, hm, Option.getD, hx, List.map_cons, List.length_cons, List.length_map]
  have hkk : codec.kind = .Aead2022Blake3Aes128Gcm ∨ codec.kind = .Aead2022Blake3Aes256Gcm := by
    cases hkd : codec.kind <;> simp [hkd, toKind] at hk <;> subst hk <;> simp_all [SsUdp.xAlg, Ss.Kind.is2022]
  rcases hkk with hkd | hkd
  all_goals
    simp only [hkd, user_count_eval, call_ok, bind_next, List.length_cons, gt_iff_lt, hcnt,
      Bool.not_true, Bool.false_eq_true, if_false, if_true, U64.addOk, UInt64.reduceAdd, UInt64.reduceOfNat,
      UInt64.reduceToNat, Nat.reduceAdd, Nat.reduceLT, Nat.reducePow, decide_true, arith_true, remaining_lt b hb, Nat.lt_irrefl,
      decide_false, and_true, Bool.and_true, not_true_eq_false, not_false_eq_true, Nat.zero_lt_succ, true_and, and_self]
    by_cases g1 : b.length < 59
    · simp only [g1, decide_true, if_true, bind_ret, Flow.run, embed]
    simp only [g1, decide_false, Bool.false_eq_true, if_false, bind_next]
    rw [split_to_eval b 16 (by show 16 ≤ b.length; omega)]
    simp only [bind_next, ← hkd, aes_dec_eval E _ k hk he, call_ok, q_ok]
    rw [slice_eval _ 4 16 (by decide) (by rw [haes]; decide)]
    rw [bind_next, copy_from_slice_eval _ _ (by simp [haes])]
    simp only [bind_next, IoCursor.new]
    rw [io_get_u64_eval _ 0 (by rw [haes]; decide)]
    simp only [bind_next]
    rw [io_get_u64_eval _ _ (by rw [haes]; decide)]
    rw [split_to_eval _ 16 (by simp only [List.length_drop]; show 16 ≤ b.length - 16; omega)]
    simp only [bind_next, aes_dec_eval E _ k hk he, call_ok, q_ok, unwrap_some, clone_eval]
    simp only [UInt64.reduceToNat, UInt64.reduceAdd, List.drop_zero, List.take_zero, u64_of_be8, List.drop_drop, Nat.reduceAdd,
      List.take_of_length_le (Nat.le_of_eq (haes _ _))]
    have hxl : (E.C.aesDec c.key (List.take 16 (List.drop 16 b))).length ≤ (E.C.aesDec c.key (List.take 16 b)).length := by
      rw [haes, haes]; exact Nat.le_refl _
    simp only [xor_zip_eq _ _ hxl]
    rw [← List.map_cons, findUser_map]
    cases hf : List.find? (fun u => decide (u.identity_hash =
        xorBytes (E.C.aesDec c.key (List.take 16 (List.drop 16 b))) (E.C.aesDec c.key (List.take 16 b)))) (u0 :: us) with
    | none => simp only [bind_ret, Flow.run, embed, Option.map_none]
    | some u =>
      simp only [bind_next, Option.map_some, get_cipher_aes_eval E _ k hk h22 hx, call_ok, toUser]
      rw [split_off_eval _ 0 (by simp)]
      simp only [bind_next, dip_eval, UInt64.reduceToNat, List.drop_zero, List.take_zero, u64_of_be8]
      cases ho : E.C.openB k.alg (SsUdp.aesSessionKey E.C k u.key (rdBE (List.take 8 (E.C.aesDec c.key (List.take 16 b)))))
          (List.drop 4 (E.C.aesDec c.key (List.take 16 b))) [] (List.drop 32 b) with
      | none => simp only [call_ok, bind_next, q_err, bind_ret, Flow.run, embed, Option.map_none]
      | some p =>
        have hp : p.length + 16 = b.length - 32 := by have := hopen _ _ _ _ _ _ ho; simp only [List.length_drop] at this; omega
        simp only [call_ok, bind_next, q_ok, Option.map_some]
        rw [tail_server ov E N [] p _ _ (some u) hnow (by omega) (by omega)]
        have e8 : List.take 8 (List.drop 8 (E.C.aesDec c.key (List.take 16 b))) = List.drop 8 (E.C.aesDec c.key (List.take 16 b)) :=
          List.take_of_length_le (by simp [haes])
        have e9 : (UInt64.ofNat (beNat (List.drop 8 (E.C.aesDec c.key (List.take 16 b))))).toNat =
            rdBE (List.drop 8 (E.C.aesDec c.key (List.take 16 b))) := by rw [← e8]; exact u64_of_be8 _
        simp only [reduceCtorEq, if_false, u64_of_be8, e8, e9, Option.map_some, toUser]
        rfl

/-- **`decode_client_packet_aead_2022` for the AES kinds, any user table** (none, empty, or with users) = the model -/
theorem decode_client_aes_eq (ov : Bool) (E : MEnv) (N : Usize) (codec : AEADCipherCodec) (c : Context MT) (b : List UInt8) (k : Ss.Kind)
    (hk : toKind codec.kind = some k) (hx : SsUdp.xAlg k = none) (h22 : k.is2022 = true)
    (hul : (c.user_manager.getD []).length < 2 ^ 64)
    (hb : b.length < 2 ^ 64) (hnow : E.now < 2 ^ 64)
    (hopen : ∀ a key n ad ct p, E.C.openB a key n ad ct = some p → ct.length = p.length + 16)
    (haes : ∀ key x, (E.C.aesDec key x).length = 16) :
    embed (AEADCipherCodec.decode_client_packet_aead_2022 ov (XM E) N codec c b) =
      SsUdp.decode E.C (toCtx k c) .server E.now b := by
  cases hm : c.user_manager with
  | none => exact decode_client_aes_psk_eq ov E N codec c b k hk hx h22 (by simp [hm]) hb hnow hopen haes
  | some l =>
    cases l with
    | nil => exact decode_client_aes_psk_eq ov E N codec c b k hk hx h22 (by simp [hm]) hb hnow hopen haes
    | cons u us => exact decode_client_aes_eih_eq ov E N codec c b k u us hk hx h22 hm (by simpa [hm] using hul) hb hnow hopen haes

/-! ## Part 3 — `impl Ord for CipherKey` -/

theorem u64_cmp_def (a b : UInt64) : compare a b = compare a.toNat b.toNat := by
  show compareOfLessAndEq a b = compareOfLessAndEq a.toNat b.toNat
  unfold compareOfLessAndEq
  simp only [UInt64.lt_iff_toNat_lt, ← UInt64.toNat_inj]

theorem u8_cmp_def (a b : UInt8) : compare a b = compare a.toNat b.toNat := by
  show compareOfLessAndEq a b = compareOfLessAndEq a.toNat b.toNat
  unfold compareOfLessAndEq
  simp only [UInt8.lt_iff_toNat_lt, ← UInt8.toNat_inj]

theorem u64Cmp_total : TotalCmp (fun a b : UInt64 => compare a b) := by
  have e : (fun a b : UInt64 => compare a b) = fun a b => compare a.toNat b.toNat := by funext a b; exact u64_cmp_def a b
  rw [e]; exact TotalCmp.pullback UInt64.toNat (fun _ _ h => UInt64.toNat_inj.mp h) natCmp_total

theorem u8Cmp_total : TotalCmp (fun a b : UInt8 => compare a b) := by
  have e : (fun a b : UInt8 => compare a b) = fun a b => compare a.toNat b.toNat := by funext a b; exact u8_cmp_def a b
  rw [e]; exact TotalCmp.pullback UInt8.toNat (fun _ _ h => UInt8.toNat_inj.mp h) natCmp_total

theorem kind_as_u8_inj (a b : CipherKind) (h : CipherKind.as_u8 a = CipherKind.as_u8 b) : a = b := by
  cases a <;> cases b <;> first | rfl | (exact absurd h (by decide))

theorem cmp_eval (ov : Bool) {T : ExtTypes} (X : Ext T) (a b : CipherKey) :
    CipherKey.cmp ov X a b = PWGen.Res.ok (((compare a.session_id b.session_id).then (compare a.key b.key)).then
      (compare (CipherKind.as_u8 a.kind) (CipherKind.as_u8 b.kind))) := rfl

/-- **`CipherKey::cmp`** never panics, does not depend on the profile or the externals, and is a total order whose `Equal`
is equality of ALL three fields (kind, key, session id): two cache keys that differ anywhere are distinct entries -/
theorem cipher_key_cmp_total (ov : Bool) {T : ExtTypes} (X : Ext T) :
    ∃ cmp : CipherKey → CipherKey → Ordering, (∀ a b, CipherKey.cmp ov X a b = PWGen.Res.ok (cmp a b)) ∧ TotalCmp cmp := by
  refine ⟨fun a b => ((compare a.session_id b.session_id).then (compare a.key b.key)).then
      (compare (CipherKind.as_u8 a.kind) (CipherKind.as_u8 b.kind)), fun a b => cmp_eval ov X a b, ?_⟩
  have h := TotalCmp.pullback (fun x : CipherKey => ((x.session_id, x.key), CipherKind.as_u8 x.kind))
    (by
      intro x y e
      cases x; cases y
      simp only [Prod.mk.injEq] at e
      obtain ⟨⟨e1, e2⟩, e3⟩ := e
      simp only [CipherKey.mk.injEq]
      exact ⟨kind_as_u8_inj _ _ e3, e2, e1⟩)
    (TotalCmp.lex (TotalCmp.lex u64Cmp_total u64Cmp_total) u8Cmp_total)
  exact h

end Octo.SsUdpGen
