import Octo.Model.Nonce
import Octo.Proofs.Bytes
/-! The increasing nonce generator is a little-endian counter. -/
namespace Octo.Nonce

/-- `n`-byte little-endian encoding of `i` (mod 256^n) -/
def le : Nat → Nat → Bytes
  | 0, _ => []
  | n+1, i => u8 i :: le n (i / 256)

theorem le_length (n i : Nat) : (le n i).length = n := by
  induction n generalizing i with
  | zero => rfl
  | succ n ih => simp [le, ih]

theorem u8_succ_eq_zero_iff (i : Nat) : (u8 i + 1 = 0) ↔ i % 256 = 255 := by
  unfold u8
  constructor
  · intro h
    have := congrArg UInt8.toNat h
    simp [UInt8.toNat_add, UInt8.toNat_ofNat'] at this
    omega
  · intro h
    apply UInt8.toNat_inj.mp
    simp [UInt8.toNat_add, UInt8.toNat_ofNat']
    omega

theorem u8_succ (i : Nat) : u8 i + 1 = u8 (i + 1) := by
  unfold u8
  apply UInt8.toNat_inj.mp
  simp [UInt8.toNat_add, UInt8.toNat_ofNat']

/-- one `generate` step adds one to the little-endian value (wrapping at 256^n) -/
theorem incStep_le (n i : Nat) : incStep (le n i) = le n (i + 1) := by
  induction n generalizing i with
  | zero => rfl
  | succ n ih =>
    simp only [le, incStep]
    by_cases h : u8 i + 1 = 0
    · have hm := (u8_succ_eq_zero_iff i).mp h
      rw [if_pos h, ih]
      have h1 : u8 (i + 1) = 0 := by rw [← u8_succ]; exact h
      have h2 : (i + 1) / 256 = i / 256 + 1 := by omega
      rw [h1, h2]
    · have hm : i % 256 ≠ 255 := fun e => h ((u8_succ_eq_zero_iff i).mpr e)
      rw [if_neg h]
      have h2 : (i + 1) / 256 = i / 256 := by omega
      rw [u8_succ, h2]

theorem le_allOnes (n : Nat) : le n (256 ^ n - 1) = List.replicate n (255 : UInt8) := by
  induction n with
  | zero => rfl
  | succ n ih =>
    have hp : 0 < 256 ^ n := Nat.pow_pos (by omega)
    have h1 : (256 ^ (n + 1) - 1) / 256 = 256 ^ n - 1 := by
      rw [Nat.pow_succ]; omega
    have h2 : (256 ^ (n + 1) - 1) % 256 = 255 := by
      rw [Nat.pow_succ]; omega
    simp only [le, h1, ih, List.replicate_succ]
    congr 1
    unfold u8; rw [h2]; rfl

theorem le_mod (n i : Nat) : le n (i % 256 ^ n) = le n i := by
  induction n generalizing i with
  | zero => rfl
  | succ n ih =>
    simp only [le]
    have h1 : u8 (i % 256 ^ (n + 1)) = u8 i := by
      unfold u8; congr 1
      rw [Nat.pow_succ, Nat.mul_comm]
      exact Nat.mod_mul_right_mod i 256 (256 ^ n)
    have h2 : (i % 256 ^ (n + 1)) / 256 = (i / 256) % 256 ^ n := by
      rw [Nat.pow_succ, Nat.mul_comm]
      exact Nat.mod_mul_right_div_self i 256 (256 ^ n)
    rw [h1, h2, ih]

/-- the nonce used by the k-th seal/open (k = 0, 1, …) of an authenticator is the little-endian
encoding of k: the generator starts at all-ones and steps *before* each use -/
theorem nth_nonce (k : Nat) : (Nat.repeat incStep (k + 1) incInit) = le 12 k := by
  have h0 : incInit = le 12 (256 ^ 12 - 1) := (le_allOnes 12).symm
  induction k with
  | zero =>
    simp only [Nat.repeat]
    rw [h0, incStep_le]
    have : 256 ^ 12 - 1 + 1 = 256 ^ 12 := by decide
    rw [this, ← le_mod 12 (256 ^ 12), Nat.mod_self]
  | succ k ih =>
    rw [Nat.repeat, ih, incStep_le]

/-- distinct counters below 2^96 give distinct nonces (C12) -/
theorem le_injective (n : Nat) : ∀ i j, i < 256 ^ n → j < 256 ^ n → le n i = le n j → i = j := by
  induction n with
  | zero => intro i j hi hj _; simp at hi hj; omega
  | succ n ih =>
    intro i j hi hj h
    simp only [le, List.cons.injEq] at h
    have h1 : i % 256 = j % 256 := by
      have := congrArg UInt8.toNat h.1
      simpa [u8, UInt8.toNat_ofNat'] using this
    have h2 := ih (i / 256) (j / 256) (by rw [Nat.pow_succ] at hi; omega) (by rw [Nat.pow_succ] at hj; omega) h.2
    omega

end Octo.Nonce
