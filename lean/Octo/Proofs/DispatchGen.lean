import Octo.Gen.DispatchGen
import Octo.Model.Config
/-!
  The generated dispatch tables (`Octo.DispatchGen`, written by `bin/translate_dispatch.py` from the checkout) against the
  hand model: the interpretation of a right-hand side (which module owns it, which key size, which transport
  constructor), the cipher ↦ `Ss.Kind` map, dead-arm / overlap analysis, listeners of a mode.
-/
namespace Octo.DispatchGen

/-! ### quantifying over all configurations -/

theorem Cfg.mem_all (c : Cfg) : c ∈ Cfg.all := by
  obtain ⟨p, k, s, w, q⟩ := c
  cases p <;> cases k <;> cases s <;> cases w <;> cases q <;> decide

theorem forall_cfg {P : Cfg → Bool} (h : Cfg.all.all P = true) (c : Cfg) : P c = true :=
  List.all_eq_true.mp h c (Cfg.mem_all c)

theorem Mode.mem_all (m : Mode) : m ∈ Mode.all := by cases m <;> decide

theorem forall_mode {P : Mode → Bool} (h : Mode.all.all P = true) (m : Mode) : P m = true :=
  List.all_eq_true.mp h m (Mode.mem_all m)

/-! ### reading a right-hand side -/

/-- the module that implements a protocol (the naming convention of the code base) -/
def protoMod : Proto → Mod
  | .Shadowsocks => .m_shadowsocks
  | .VMess => .m_vmess
  | .Trojan => .m_trojan

def Arg.refs : Arg → List FnRef
  | .fn r => [r]
  | .closure rs => rs
  | _ => []

def Call.argRefs (c : Call) : List FnRef := c.args.flatMap Arg.refs

/-- the call of `template::<name>` in a right-hand side -/
def Rhs.service (r : Rhs) (name : String) : Option Call :=
  r.calls.find? fun c => c.callee.segs == ["template", name]

/-- every path the right-hand side mentions is the template's or the module `m`'s own, and every function handed to a
call is module-qualified with `m` -/
def Rhs.ownedBy (m : Mod) (r : Rhs) : Bool :=
  r.calls.all fun c =>
    (c.callee.mod == some .m_template || c.callee.mod == some m || c.callee.segs.length ≤ 1
      || c.callee.segs.head? == some "tokio") &&
    c.argRefs.all fun f => f.mod == some m

/-- all integer const generics of a right-hand side: turbofishes of callees and of passed functions, type annotations -/
def Rhs.generics (r : Rhs) : List Nat :=
  r.typeGenerics ++ r.calls.flatMap fun c => c.callee.generics ++ c.argRefs.flatMap (·.generics)

/-- the argument of the service call at the position of the callee's parameter `param` -/
def Rhs.argAt (r : Rhs) (svc : String) (params : List String) (param : String) : Option Arg :=
  match r.service svc, params.findIdx? (· == param) with
  | some c, some i => c.args[i]?
  | _, _ => none

def Arg.lastSeg : Arg → Option String
  | .fn r => r.segs.getLast?
  | _ => none

/-- the outbound constructors of client/template.rs and of the protocol modules -/
inductive Ctor where
  | plain | tls | ws | wss | quic
deriving DecidableEq, Repr

def Ctor.ofName (s : String) : Option Ctor :=
  if s == "new_plain_outbound" then some .plain
  else if s == "new_tls_outbound" then some .tls
  else if s == "new_ws_outbound" then some .ws
  else if s == "new_wss_outbound" then some .wss
  else if s == "new_quic_outbound" then some .quic
  else none

/-- the hand model's cipher kinds -/
def kindOf : Cipher → Option Ss.Kind
  | .Aes128Gcm => some .aes128
  | .Aes256Gcm => some .aes256
  | .ChaCha20Poly1305 => some .chacha20
  | .Aead2022Blake3Aes128Gcm => some .b3aes128
  | .Aead2022Blake3Aes256Gcm => some .b3aes256
  | .Aead2022Blake3ChaCha8Poly1305 => some .b3chacha8
  | .Aead2022Blake3ChaCha20Poly1305 => some .b3chacha20
  | .Unknown => none

/-- the variant a serde name selects, in the translator's enum -/
def cipherOfVariant (v : String) : Option Cipher := Cipher.all.find? (·.name == v)

/-- the translator's enum and the extractor's serde table agree with the model's `Kind.ofName` on every name -/
theorem kindOf_names :
    Consts.cipherNames.all (fun (n, v) => (cipherOfVariant v).bind kindOf == Ss.Kind.ofName n) = true := by decide

/-! ### dead arms and overlaps -/

/-- arms no configuration can reach (a configuration that matches them matches an earlier arm) -/
def deadArms (t : List Arm) : List Nat :=
  (List.range t.length).filter fun i => Cfg.all.all fun c => !(selectIdx t c == some i)

/-- pairs of arms that both match some configuration (their order matters) -/
def overlaps (t : List Arm) : List (Nat × Nat) :=
  (List.range t.length).flatMap fun i => ((List.range t.length).filter fun j =>
    i < j && Cfg.all.any fun c => (t[i]?.any (·.matches c)) && (t[j]?.any (·.matches c))).map fun j => (i, j)

def deadCArms (as : List CArm) : List Nat :=
  (List.range as.length).filter fun i => Cipher.all.all fun k => !(as.findIdx? (·.matches k) == some i)

def innerTables (t : List Arm) : List (List CArm) :=
  t.filterMap fun a => match a.body with | .byCipher as => some as | .direct _ => none

/-! ### listeners -/

def opened (os : List Open) (quicSection : Bool) : Config.Listeners :=
  ⟨os.contains .tcp, os.contains .udp, os.contains .quic || (quicSection && os.contains .quicIfSection)⟩

/-- what a Shadowsocks server opens: `tokio::join!(startup_udp, startup_tcp)` -/
def ssListeners (m : Mode) (quicSection : Bool) : Config.Listeners :=
  opened (runSteps m ssStartupUdpSteps ++ runSteps m ssStartupTcpSteps) quicSection

end Octo.DispatchGen

/-! ## part 3: keys -/

namespace Octo.DispatchGen

@[simp] theorem Out.bind_ok {α β : Type} (a : α) (f : α → Out β) : Out.bind (.ok a) f = f a := rfl
@[simp] theorem Out.bind_err {α β : Type} (f : α → Out β) : Out.bind .err f = .err := rfl
@[simp] theorem Out.bind_panic {α β : Type} (f : α → Out β) : Out.bind .panic f = .panic := rfl
@[simp] theorem Out.bind_timeout {α β : Type} (f : α → Out β) : Out.bind .timeout f = .timeout := rfl

/-- the externals of the generated code, instantiated with the model's primitives -/
def extOf (C : Crypto) : Ext := ⟨C.md5, Crypto.Base64.decode, C.blake3Hash⟩

/-- the model's result as an outcome of the generated code: `none` = `Err(..)` -/
def outOfOption {α : Type} : Option α → Out α
  | some a => .ok a
  | none => .err

def userOfModel (u : Ss.User) : ServerUser := ⟨u.name, u.key, u.hash⟩

/-! ### `ServerUser::try_from` = `Ss.userOf` -/

theorem try_from_eq (C : Crypto) (hb : ∀ m, (C.blake3Hash m).length = 32) (ov : Bool) (N : Nat) (name password : String) :
    ServerUser.try_from (extOf C) ov N ⟨name, password⟩ = outOfOption ((Ss.userOf C N name password).map userOfModel) := by
  unfold ServerUser.try_from Ss.userOf Ss.decodeKey decodeInto
  simp only [extOf]
  cases hd : Crypto.Base64.decode password with
  | none => simp [outOfOption]
  | some b =>
    simp only [List.length_replicate]
    by_cases hle : b.length ≤ N
    · by_cases hN : b.length = N
      · subst hN
        simp [outOfOption, userOfModel, sliceRange, copyInto, hb]
      · simp [hle, hN, outOfOption]
    · have hN : b.length ≠ N := by omega
      simp [hle, hN, outOfOption]

/-! ### `password_to_exact_keys` = `Ss.passwordToKeys` -/

theorem decodeKey_isSome (N : Nat) (s : String) :
    (Ss.decodeKey N s).isSome = match Crypto.Base64.decode s with | none => false | some b => decide (b.length = N) := by
  unfold Ss.decodeKey
  cases Crypto.Base64.decode s with
  | none => rfl
  | some b => by_cases h : b.length = N <;> simp [h]

theorem filterMap_length_of_all {α β : Type} (f : α → Option β) (l : List α) (h : ∀ a ∈ l, (f a).isSome) :
    (l.filterMap f).length = l.length := by
  induction l with
  | nil => rfl
  | cons a rest ih =>
    obtain ⟨b, hb⟩ := Option.isSome_iff_exists.mp (h a (by simp))
    rw [List.filterMap_cons_some hb]
    simp [ih (fun a' ha' => h a' (by simp [ha']))]

theorem exact_for1_eq (C : Crypto) (ov : Bool) (N : Nat) (pw : String) (parts : List String) :
    password_to_exact_keys_for1 (extOf C) ov N pw parts () =
      if parts.all (fun s => (Ss.decodeKey N s).isSome) then .ok () else .err := by
  induction parts with
  | nil => simp [password_to_exact_keys_for1]
  | cons s rest ih =>
    unfold password_to_exact_keys_for1
    rw [List.all_cons, decodeKey_isSome N s]
    simp only [decodeVec, extOf] at ih ⊢
    cases hd : Crypto.Base64.decode s with
    | none => simp
    | some b =>
      by_cases hN : b.length = N
      · simp [hN, ih]
      · simp [hN]

theorem keys_for1_eq (C : Crypto) (ov : Bool) (N : Nat) (pw : String) (parts : List String) (st : List String)
    (acc : List (List UInt8)) (h : ∀ s ∈ parts, (Ss.decodeKey N s).isSome) :
    password_to_keys_for1 (extOf C) ov N pw parts (st, acc) = .ok (st, acc ++ parts.filterMap (Ss.decodeKey N)) := by
  induction parts generalizing acc with
  | nil => simp [password_to_keys_for1]
  | cons s rest ih =>
    unfold password_to_keys_for1
    have hs := h s (by simp)
    unfold Ss.decodeKey at hs
    simp only [decodeInto, extOf]
    cases hd : Crypto.Base64.decode s with
    | none => simp [hd] at hs
    | some b =>
      simp only [hd] at hs
      have hN : b.length = N := by
        by_cases hN : b.length = N
        · exact hN
        · simp [hN] at hs
      have hk : Ss.decodeKey N s = some b := by simp [Ss.decodeKey, hd, hN]
      simp only [List.length_replicate, hN, Nat.le_refl, if_true, Out.bind_ok]
      rw [show (b ++ List.drop N (List.replicate N (0 : UInt8))) = b by simp]
      have := ih (acc ++ [b]) (fun s' hs' => h s' (by simp [hs']))
      simp only [extOf] at this
      rw [this]
      simp [hk]

theorem model_keys_eq (N : Nat) (pw : String) :
    Ss.passwordToKeys N pw =
      if (pw.splitOn ":").all (fun s => (Ss.decodeKey N s).isSome) then
        match ((pw.splitOn ":").filterMap (Ss.decodeKey N)).getLast? with
        | some k => some (k, ((pw.splitOn ":").filterMap (Ss.decodeKey N)).dropLast)
        | none => none
      else none := by
  unfold Ss.passwordToKeys
  simp only [List.all_map, List.filterMap_map]
  rfl

/-- **equivalence**: the generated `password_to_exact_keys` returns exactly what the model's `passwordToKeys` does,
and `Err` where the model has `none` (never a panic) -/
theorem password_to_exact_keys_eq (C : Crypto) (ov : Bool) (N : Nat) (pw : String) (hne : pw.splitOn ":" ≠ []) :
    password_to_exact_keys (extOf C) ov N pw = outOfOption (Ss.passwordToKeys N pw) := by
  rw [model_keys_eq]
  unfold password_to_exact_keys
  rw [exact_for1_eq]
  by_cases hall : (pw.splitOn ":").all (fun s => (Ss.decodeKey N s).isSome) = true
  · simp only [hall, if_true, Out.bind_ok]
    unfold password_to_keys
    dsimp only
    have hmem : ∀ s ∈ pw.splitOn ":", (Ss.decodeKey N s).isSome := by
      intro s hs; exact List.all_eq_true.mp hall s hs
    rw [keys_for1_eq C ov N pw _ _ _ hmem]
    simp only [Out.bind_ok, List.nil_append]
    generalize hks : (pw.splitOn ":").filterMap (Ss.decodeKey N) = ks
    have hlen : ks.length = (pw.splitOn ":").length := by
      rw [← hks]; exact filterMap_length_of_all _ _ hmem
    have hpos : 1 ≤ ks.length := by
      rw [hlen]; cases h : pw.splitOn ":" with
      | nil => exact absurd h hne
      | cons _ _ => simp
    simp only [usub, hpos, if_true, Out.bind_ok, vecRemove]
    rw [← List.getLast?_eq_getElem?]
    cases hl : ks.getLast? with
    | none => simp [List.getLast?_eq_none_iff] at hl; subst hl; simp at hpos
    | some k => simp [outOfOption, List.eraseIdx_length_sub_one]
  · simp [hall, outOfOption]


/-! ### `openssl_bytes_to_key` = `Ss.opensslBytesToKey` for the two key sizes the dispatch instantiates -/

theorem openssl_eq_16 (C : Crypto) (hm : ∀ m, (C.md5 m).length = 16) (ov : Bool) (pw : List UInt8)
    (hlen : pw.length + 16 < 2 ^ 64) :
    openssl_bytes_to_key (extOf C) ov 16 pw = .ok (Ss.opensslBytesToKey C 16 pw) := by
  unfold openssl_bytes_to_key Ss.opensslBytesToKey
  simp only [extOf, List.length_replicate, List.nil_append, hm, uadd, hlen, if_true, Out.bind_ok, Nat.min_self,
    copyInto, Nat.le_refl, Nat.zero_le, and_self, Nat.sub_zero]
  simp [openssl_bytes_to_key_while1, hm]
  rw [List.take_of_length_le (by simp [hm])]

theorem openssl_eq_32 (C : Crypto) (hm : ∀ m, (C.md5 m).length = 16) (ov : Bool) (pw : List UInt8)
    (hlen : pw.length + 16 < 2 ^ 64) :
    openssl_bytes_to_key (extOf C) ov 32 pw = .ok (Ss.opensslBytesToKey C 32 pw) := by
  unfold openssl_bytes_to_key Ss.opensslBytesToKey
  generalize hf : (31 : Nat) = f
  simp only [extOf, List.length_replicate, List.nil_append, hm, uadd, hlen, if_true, Out.bind_ok,
    copyInto, Nat.zero_le, Nat.sub_zero, show Nat.min 32 16 = 16 from rfl, true_and,
    show (16 : Nat) ≤ 32 from by omega, show (32 + 1 : Nat) = f + 1 + 1 by omega]
  rw [openssl_bytes_to_key_while1.eq_2]
  simp [hm, copyInto, usub, uadd, sliceRange, hlen]
  rw [openssl_bytes_to_key_while1.eq_2]
  simp [hm]
  rw [List.take_of_length_le (by simp [hm]), List.drop_eq_nil_of_le (by simp [hm]), List.take_of_length_le (by simp [hm])]
  simp

/-- the array sizes the loop supports: below 16 the first `copy_from_slice` panics (the digest has 16 bytes) -/
theorem openssl_small_panics (C : Crypto) (hm : ∀ m, (C.md5 m).length = 16) (ov : Bool) (N : Nat) (pw : List UInt8)
    (hN : N < 16) (hlen : pw.length + 16 < 2 ^ 64) :
    openssl_bytes_to_key (extOf C) ov N pw = .panic := by
  unfold openssl_bytes_to_key
  have hmin : Nat.min N 16 = N := Nat.min_eq_left (by omega)
  have hne : ¬ (16 = N) := by omega
  simp [extOf, hm, uadd, hlen, copyInto, hmin, hne]

/-! ### `ServerUserManager` = the model's user list with `findUser` -/

theorem HashMap.get_map_replace {V : Type} (m : HashMap V) (k k' : List UInt8) (v : V) :
    HashMap.get (m.map (fun p => if p.1 == k then (k, v) else p)) k' =
      if k' = k then (if m.any (fun p => p.1 == k) then some v else none) else HashMap.get m k' := by
  induction m with
  | nil => simp [HashMap.get]
  | cons p m ih =>
    unfold HashMap.get at ih ⊢
    by_cases hp : p.1 = k
    · by_cases hk : k' = k
      · simp [hp, hk]
      · have : ¬ k = k' := fun h => hk h.symm
        simp [hp, hk, this] at ih ⊢
        exact ih
    · by_cases hk : k' = k
      · subst hk
        have hb : (p.1 == k') = false := by simp [hp]
        simp only [List.any_cons, hb, Bool.false_or]
        simp [hp] at ih ⊢
        exact ih
      · by_cases hpk : p.1 = k'
        · simp [hp, hk, hpk]
        · simp [hp, hk, hpk] at ih ⊢
          exact ih

theorem HashMap.get_insert {V : Type} (m : HashMap V) (k k' : List UInt8) (v : V) :
    HashMap.get (HashMap.insert m k v) k' = if k' = k then some v else HashMap.get m k' := by
  unfold HashMap.insert
  by_cases ha : m.any (fun p => p.1 == k) = true
  · rw [if_pos ha, HashMap.get_map_replace]
    by_cases hk : k' = k <;> simp [hk, ha]
  · rw [if_neg ha]
    unfold HashMap.get
    rw [List.find?_append]
    by_cases hk : k' = k
    · subst hk
      have : m.find? (fun p => p.1 == k') = none := by
        rw [List.find?_eq_none]
        intro p hp hpk
        exact ha (List.any_eq_true.mpr ⟨p, hp, hpk⟩)
      simp [this]
    · have : ¬ k = k' := fun h => hk h.symm
      simp [hk, this]

/-- the manager after `add_user` of each user in order -/
def mgrOf (us : List ServerUser) : ServerUserManager := us.foldl (fun m u => ⟨HashMap.insert m.users u.identity_hash u⟩) ⟨[]⟩

theorem add_user_eq (E : Ext) (ov : Bool) (N : Nat) (m : ServerUserManager) (u : ServerUser) :
    ServerUserManager.add_user E ov N m u = .ok ⟨HashMap.insert m.users u.identity_hash u⟩ := rfl

theorem new_eq (E : Ext) (ov : Bool) (N : Nat) : ServerUserManager.new E ov N = .ok ⟨[]⟩ := rfl

/-- **lookup**: `clone_user_by_hash` finds the user added LAST under that hash (a `HashMap` insert replaces) -/
theorem clone_user_by_hash_eq (E : Ext) (ov : Bool) (N : Nat) (us : List ServerUser) (h : List UInt8) :
    ServerUserManager.clone_user_by_hash E ov N (mgrOf us) h = .ok (us.reverse.find? (fun u => u.identity_hash == h)) := by
  unfold ServerUserManager.clone_user_by_hash
  congr 1
  have aux : ∀ l : List ServerUser,
      HashMap.get (l.foldr (fun u (m : ServerUserManager) => (⟨HashMap.insert m.users u.identity_hash u⟩ : ServerUserManager)) ⟨[]⟩).users h
        = l.find? (fun u => u.identity_hash == h) := by
    intro l
    induction l with
    | nil => rfl
    | cons u l ih =>
      simp only [List.foldr_cons, List.find?_cons]
      rw [HashMap.get_insert, ih]
      by_cases hk : h = u.identity_hash
      · simp [hk]
      · have hb : (u.identity_hash == h) = false := by simp; exact fun e => hk e.symm
        simp [hk, hb]
  rw [← aux us.reverse, List.foldr_reverse]
  rfl

/-- a user is found iff its hash was added -/
theorem found_iff_added (E : Ext) (ov : Bool) (N : Nat) (us : List ServerUser) (h : List UInt8) :
    (∃ u, ServerUserManager.clone_user_by_hash E ov N (mgrOf us) h = .ok (some u)) ↔ ∃ u ∈ us, u.identity_hash = h := by
  rw [clone_user_by_hash_eq]
  constructor
  · rintro ⟨u, hu⟩
    have hu' : us.reverse.find? (fun u => u.identity_hash == h) = some u := by injection hu
    have := List.find?_some hu'
    exact ⟨u, List.mem_reverse.mp (List.mem_of_find?_eq_some hu'), by simpa using this⟩
  · rintro ⟨u, hu, rfl⟩
    cases hf : us.reverse.find? (fun v => v.identity_hash == u.identity_hash) with
    | none =>
      rw [List.find?_eq_none] at hf
      exact absurd (by simp) (hf u (List.mem_reverse.mpr hu))
    | some v => exact ⟨v, rfl⟩

/-- with pairwise distinct hashes the model's `findUser` (first match in configuration order) is the same user -/
theorem clone_user_by_hash_model (E : Ext) (ov : Bool) (N : Nat) (us : List Ss.User) (h : List UInt8)
    (hd : (us.map (·.hash)).Nodup) :
    ServerUserManager.clone_user_by_hash E ov N (mgrOf (us.map userOfModel)) h = .ok ((Ss.findUser us h).map userOfModel) := by
  rw [clone_user_by_hash_eq]
  congr 1
  unfold Ss.findUser
  induction us with
  | nil => rfl
  | cons u rest ih =>
    have hnd := List.nodup_cons.mp hd
    simp only [List.map_cons, List.reverse_cons, List.find?_append, List.find?_cons, List.find?_nil]
    rw [ih hnd.2]
    by_cases hu : u.hash = h
    · subst hu
      have : rest.find? (fun v => decide (v.hash = u.hash)) = none := by
        rw [List.find?_eq_none]
        intro v hv hvh
        exact hnd.1 (List.mem_map.mpr ⟨v, hv, by simpa using hvh⟩)
      simp [this, userOfModel]
    · have hb : (u.hash == h) = false := by simp [hu]
      simp [hu, hb, userOfModel]

/-- **difference**: two users with the same identity hash (the same key) - the code serves the LAST, the model the FIRST -/
theorem clone_user_by_hash_last_wins (E : Ext) (ov : Bool) (N : Nat) (k hh : List UInt8) :
    ServerUserManager.clone_user_by_hash E ov N (mgrOf [⟨"a", k, hh⟩, ⟨"b", k, hh⟩]) hh = .ok (some ⟨"b", k, hh⟩)
    ∧ Ss.findUser [⟨"a", k, hh⟩, ⟨"b", k, hh⟩] hh = some ⟨"a", k, hh⟩ := by
  constructor
  · rw [clone_user_by_hash_eq]; simp
  · simp [Ss.findUser]

end Octo.DispatchGen

/-! ## the guards of the client's `main` -/

namespace Octo.DispatchGen

/-- one run of the client's `main` under a top-level mode and the selected entry's mode -/
def clientRun (top entry : Mode) : MainRun := runMain top entry clientMain {}

def MainRun.opens (r : MainRun) (o : Open) : Bool := r.binds.any (·.1 == o)

/-- the service started on the socket bound as `o`: its first argument is the name the socket was bound to -/
def MainRun.serviceOn (r : MainRun) (o : Open) : List Svc :=
  r.services.filter fun s => r.binds.any fun b => b.1 == o && s.args.head? == some b.2

def MainStep.atoms : MainStep → List (Origin × String × Pred)
  | .guarded c _ _ => c.atoms
  | .plain _ => []

theorem forall_mode₂ {P : Mode → Mode → Bool} (h : Mode.all.all (fun a => Mode.all.all (P a)) = true) (a b : Mode) :
    P a b = true :=
  List.all_eq_true.mp (List.all_eq_true.mp h a (Mode.mem_all a)) b (Mode.mem_all b)

end Octo.DispatchGen
