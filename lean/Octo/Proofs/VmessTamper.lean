import Octo.Proofs.VmessBody
import Octo.Proofs.Slices
/-!
  The VMess AEAD body decoder on an *arbitrary* byte string (C05): what it releases is a prefix of
  the chunks the honest sender sealed, and the bytes it consumed for them are the sender's bytes for
  those chunks (up to the padding bytes, which the protocol does not authenticate).

  * `Body.next` — the codec state after one chunk (it does not depend on the chunk's content);
  * `body_chunk_inv` — one chunk of the decoder, inverted: either nothing is released (more bytes
    needed / the stream failed) or a size was parsed, the block of that size opened under the next
    payload nonce, and the decoder is at the next chunk boundary in state `next`;
  * `Body.payloadBlocks` / `Body.sizeBlocks` / `VmNoForgery` — the honest sender's sealed blocks and
    the integrity hypothesis, relative to the received bytes;
  * `vm_prefix_out` (no law of the cipher needed) and `vm_prefix` (with the consumption clause).
-/
namespace Octo.Vmess
open Octo.Fr

/-! ### the codec state after one chunk -/

/-- state after `nextPadding` -/
def Body.afterPad (e : Body) : Body := if e.globalPadding then { e with shakePos := e.shakePos + 1 } else e

/-- state after `encodeSize` / `decodeSize` (whatever the size, whether or not it opened) -/
def Body.afterSize (e : Body) : Body :=
  match e.size with
  | .plain => e
  | .auth => { e with sizeCount := e.sizeCount + 1 }
  | .shake => { e with shakePos := e.shakePos + 1 }

/-- state after one whole chunk, on either side; `st` is untouched -/
def Body.next (e : Body) : Body := { e.afterPad.afterSize with count := e.count + 1 }

theorem Body.nextPadding_snd (C : Crypto) (b : Body) : (b.nextPadding C).2 = b.afterPad := by
  unfold Body.nextPadding Body.afterPad; split <;> rfl

theorem Body.encodeSize_snd (C : Crypto) (b : Body) (n : Nat) : (b.encodeSize C n).2 = b.afterSize := by
  unfold Body.encodeSize Body.afterSize; cases h : b.size <;> rfl

theorem Body.decodeSize_snd (C : Crypto) (b : Body) (data : Bytes) : (b.decodeSize C data).2 = b.afterSize := by
  unfold Body.decodeSize Body.afterSize
  cases h : b.size
  · rfl
  · simp only; split <;> rfl
  · rfl

theorem Body.afterPad_fields (e : Body) :
    e.afterPad.sec = e.sec ∧ e.afterPad.key = e.key ∧ e.afterPad.iv = e.iv ∧ e.afterPad.count = e.count ∧
    e.afterPad.size = e.size ∧ e.afterPad.sizeKey = e.sizeKey ∧ e.afterPad.sizeIv = e.sizeIv ∧
    e.afterPad.sizeCount = e.sizeCount ∧ e.afterPad.globalPadding = e.globalPadding ∧
    e.afterPad.shakeSeed = e.shakeSeed ∧ e.afterPad.st = e.st := by
  unfold Body.afterPad; split <;> simp

theorem Body.afterSize_fields (e : Body) :
    e.afterSize.sec = e.sec ∧ e.afterSize.key = e.key ∧ e.afterSize.iv = e.iv ∧ e.afterSize.count = e.count ∧
    e.afterSize.size = e.size ∧ e.afterSize.sizeKey = e.sizeKey ∧ e.afterSize.sizeIv = e.sizeIv ∧
    e.afterSize.globalPadding = e.globalPadding ∧ e.afterSize.shakeSeed = e.shakeSeed ∧ e.afterSize.st = e.st ∧
    (e.size = .auth → e.afterSize.sizeCount = e.sizeCount + 1) := by
  unfold Body.afterSize; split <;> simp_all

theorem Body.next_fields (e : Body) :
    e.next.sec = e.sec ∧ e.next.key = e.key ∧ e.next.iv = e.iv ∧ e.next.count = e.count + 1 ∧
    e.next.size = e.size ∧ e.next.sizeKey = e.sizeKey ∧ e.next.sizeIv = e.sizeIv ∧
    e.next.globalPadding = e.globalPadding ∧ e.next.shakeSeed = e.shakeSeed ∧ e.next.st = e.st ∧
    (e.size = .auth → e.next.sizeCount = e.sizeCount + 1) := by
  have h1 := e.afterPad_fields
  have h2 := e.afterPad.afterSize_fields
  obtain ⟨a1, a2, a3, a4, a5, a6, a7, a8, a9, a10, a11⟩ := h1
  obtain ⟨b1, b2, b3, b4, b5, b6, b7, b8, b9, b10, b11⟩ := h2
  refine ⟨b1.trans a1, b2.trans a2, b3.trans a3, rfl, b5.trans a5, b6.trans a6, b7.trans a7, b8.trans a9,
    b9.trans a10, b10.trans a11, ?_⟩
  intro h
  show e.afterPad.afterSize.sizeCount = _
  rw [b11 (a5.trans h), a8]

theorem Body.next_sizeBytes (e : Body) : e.next.sizeBytes = e.sizeBytes :=
  Body.sizeBytes_eq_of_size _ _ e.next_fields.2.2.2.2.1

/-- the sender's state after a chunk is `next`, whatever was sent -/
theorem Body.encodeChunk_state (C : Crypto) (e : Body) (src pad : Bytes) : (e.encodeChunk C src pad).2.2 = e.next := by
  rw [Body.encodeChunk_eq]
  simp only [Body.encodeSize_snd, Body.nextPadding_snd]
  have h := e.afterPad.afterSize_fields.2.2.2.1
  have h' := e.afterPad_fields.2.2.2.1
  unfold Body.next
  rw [h, h']

/-! ### one chunk of the decoder, inverted -/

/-- the decoder at a chunk boundary, on any bytes: either it releases nothing (it waits, or the stream
fails), or it parsed a size `len`, the block `len - padding` long behind the size field opened under
the payload key and the next payload nonce to `p`, and the run continues from `d.next` behind the
`len` bytes of the chunk -/
theorem body_chunk_inv (C : Crypto) (d : Body) (hst : d.st = .padding) (s : Bytes) :
    (run (Body.unit C) d s).out = [] ∨
    ∃ len p, d.sizeBytes ≤ s.length ∧ (d.afterPad.decodeSize C (s.take d.sizeBytes)).1 = some len ∧
      (d.nextPadding C).1 + 16 ≤ len ∧ len ≤ (s.drop d.sizeBytes).length ∧
      C.openB d.sec.alg d.key (Nonce.counting d.iv d.count 12) []
        ((s.drop d.sizeBytes).take (len - (d.nextPadding C).1)) = some p ∧
      run (Body.unit C) d s =
        ⟨(run (Body.unit C) d.next ((s.drop d.sizeBytes).drop len)).st,
         (run (Body.unit C) d.next ((s.drop d.sizeBytes).drop len)).buf,
         p ++ (run (Body.unit C) d.next ((s.drop d.sizeBytes).drop len)).out,
         (run (Body.unit C) d.next ((s.drop d.sizeBytes).drop len)).failed⟩ := by
  have G := body_unit_good C
  have hu := Body.unit_padding C d s hst
  rw [Body.nextPadding_snd] at hu
  by_cases h1 : s.length < d.sizeBytes
  · rw [if_pos h1] at hu
    left; rw [run_need _ _ _ hu]
  rw [if_neg h1] at hu
  generalize hds : d.afterPad.decodeSize C (s.take d.sizeBytes) = r at hu
  have hsnd := Body.decodeSize_snd C d.afterPad (s.take d.sizeBytes)
  rw [hds] at hsnd
  obtain ⟨o, b'⟩ := r
  simp only at hsnd
  subst hsnd
  cases o with
  | none =>
    simp only at hu
    left; rw [run_fail _ _ _ _ _ hu]
  | some len =>
    simp only at hu
    obtain ⟨f1, f2, f3, f4, f5, f6, f7, f8, f9, f10, f11⟩ := d.afterPad_fields
    obtain ⟨g1, g2, g3, g4, g5, g6, g7, g8, g9, g10, g11⟩ := d.afterPad.afterSize_fields
    generalize hdm : ({ d.afterPad.afterSize with st := .body (d.nextPadding C).1 len } : Body) = dm at hu
    have k1 : dm.sec = d.sec := by rw [← hdm]; exact g1.trans f1
    have k2 : dm.key = d.key := by rw [← hdm]; exact g2.trans f2
    have k3 : dm.iv = d.iv := by rw [← hdm]; exact g3.trans f3
    have k4 : dm.count = d.count := by rw [← hdm]; exact g4.trans f4
    have hnext : ({ dm with count := dm.count + 1, st := .padding } : Body) = d.next := by
      rw [k4, ← hdm]
      unfold Body.next
      have : d.afterPad.afterSize.st = .padding := by rw [g10, f11, hst]
      cases hd : d.afterPad.afterSize
      rw [hd] at this
      simp only at this
      subst this
      rfl
    rw [run_take _ G _ _ _ _ _ hu]
    simp only [List.nil_append]
    have hu2 := Body.unit_body C dm (s.drop d.sizeBytes) (d.nextPadding C).1 len (by rw [← hdm])
    rw [hnext] at hu2
    rw [k1, k2, k3, k4] at hu2
    by_cases h2 : len < (d.nextPadding C).1 + 16
    · rw [if_pos h2] at hu2
      left; rw [run_fail _ _ _ _ _ hu2]
    rw [if_neg h2] at hu2
    by_cases h3 : (s.drop d.sizeBytes).length < len
    · rw [if_pos h3] at hu2
      left; rw [run_need _ _ _ hu2]
    rw [if_neg h3] at hu2
    cases ho : C.openB d.sec.alg d.key (Nonce.counting d.iv d.count 12) []
        ((s.drop d.sizeBytes).take (len - (d.nextPadding C).1)) with
    | none =>
      rw [ho] at hu2
      simp only at hu2
      left; rw [run_fail _ _ _ _ _ hu2]
    | some p =>
      rw [ho] at hu2
      simp only at hu2
      right
      refine ⟨len, p, by omega, rfl, by omega, by omega, ho, ?_⟩
      rw [run_take _ G _ _ _ _ _ hu2]

/-! ### the honest sender's sealed blocks and the integrity hypothesis -/

/-- the payload blocks the honest sender seals for the chunk plaintexts `ps`, with their plaintexts:
chunk i under the payload key and payload nonce `count + i` -/
def Body.payloadBlocks (C : Crypto) : Body → List Bytes → List (Bytes × Bytes)
  | _, [] => []
  | e, p :: ps =>
    (C.sealB e.sec.alg e.key (Nonce.counting e.iv e.count 12) [] p, p) :: Body.payloadBlocks C e.next ps

/-- the size blocks of the authenticated-length option: chunk i carries `be16 (payload + padding)`
sealed under the size key and size nonce `sizeCount + i` -/
def Body.sizeBlocks (C : Crypto) : Body → List Bytes → List (Bytes × Bytes)
  | _, [] => []
  | e, p :: ps =>
    (C.sealB e.sec.alg e.sizeKey (Nonce.counting e.sizeIv e.sizeCount 12) [] (be16 (p.length + (e.nextPadding C).1)),
      be16 (p.length + (e.nextPadding C).1)) :: Body.sizeBlocks C e.next ps

/-- integrity of the payload cipher for the strings in `A`: under the payload key and the i-th payload
nonce no string of `A` opens except the i-th honest payload block (to the i-th plaintext).  Only the
nonces the receiver can reach are constrained (`i ≤ ps.length`). -/
def PayloadNoForgeryOn (A : Bytes → Prop) (C : Crypto) (e : Body) (ps : List Bytes) : Prop :=
  ∀ i x pt, i ≤ ps.length → A x →
    C.openB e.sec.alg e.key (Nonce.counting e.iv (e.count + i) 12) [] x = some pt →
    (e.payloadBlocks C ps)[i]? = some (x, pt)

/-- integrity of the size cipher (only with the authenticated-length option) -/
def SizeNoForgeryOn (A : Bytes → Prop) (C : Crypto) (e : Body) (ps : List Bytes) : Prop :=
  e.size = .auth → ∀ i x pt, i ≤ ps.length → A x →
    C.openB e.sec.alg e.sizeKey (Nonce.counting e.sizeIv (e.sizeCount + i) 12) [] x = some pt →
    (e.sizeBlocks C ps)[i]? = some (x, pt)

def VmNoForgeryOn (A : Bytes → Prop) (C : Crypto) (e : Body) (ps : List Bytes) : Prop :=
  PayloadNoForgeryOn A C e ps ∧ SizeNoForgeryOn A C e ps

/-- **the VMess analogue of `Ss.NoForgery`**, relative to the received bytes `s`: no contiguous block
of `s` opens under the payload key and the i-th payload nonce except the i-th honest payload
ciphertext, and — with the authenticated-length option — none opens under the size key and the i-th
size nonce except the i-th honest size ciphertext.  `Nonce.counting` reduces the counter mod 65536, so
for more than 65536 chunks nonces repeat and the hypothesis cannot be expected to hold: the theorems
are about sessions of fewer than 65536 chunks per direction. -/
def VmNoForgery (C : Crypto) (e : Body) (ps : List Bytes) (s : Bytes) : Prop :=
  VmNoForgeryOn (· <:+: s) C e ps

/-- the counting nonce wraps after 65536 chunks (the counter is a `u16`): beyond that the sender
itself reuses (key, nonce) pairs and integrity of ciphertexts cannot be expected -/
theorem counting_wraps (iv : Bytes) (c n : Nat) : Nonce.counting iv (c + 65536) n = Nonce.counting iv c n := by
  unfold Nonce.counting; rw [Nat.add_mod_right]

theorem PayloadNoForgeryOn.shift {A : Bytes → Prop} {C : Crypto} {e : Body} {p : Bytes} {ps : List Bytes}
    (h : PayloadNoForgeryOn A C e (p :: ps)) : PayloadNoForgeryOn A C e.next ps := by
  intro i x pt hi hx ho
  obtain ⟨f1, f2, f3, f4, _⟩ := e.next_fields
  rw [f1, f2, f3, f4, show e.count + 1 + i = e.count + (i + 1) by omega] at ho
  have := h (i + 1) x pt (by simp only [List.length_cons]; omega) hx ho
  simpa [Body.payloadBlocks] using this

theorem SizeNoForgeryOn.shift {A : Bytes → Prop} {C : Crypto} {e : Body} {p : Bytes} {ps : List Bytes}
    (h : SizeNoForgeryOn A C e (p :: ps)) : SizeNoForgeryOn A C e.next ps := by
  intro ha i x pt hi hx ho
  obtain ⟨f1, _, _, _, f5, f6, f7, _, _, _, f11⟩ := e.next_fields
  rw [f5] at ha
  rw [f1, f6, f7, f11 ha, show e.sizeCount + 1 + i = e.sizeCount + (i + 1) by omega] at ho
  have := h ha (i + 1) x pt (by simp only [List.length_cons]; omega) hx ho
  simpa [Body.sizeBlocks] using this

theorem PayloadNoForgeryOn.mono {A B : Bytes → Prop} {C : Crypto} {e : Body} {ps : List Bytes}
    (h : PayloadNoForgeryOn A C e ps) (hAB : ∀ x, B x → A x) : PayloadNoForgeryOn B C e ps :=
  fun i x pt hi hx ho => h i x pt hi (hAB x hx) ho

theorem SizeNoForgeryOn.mono {A B : Bytes → Prop} {C : Crypto} {e : Body} {ps : List Bytes}
    (h : SizeNoForgeryOn A C e ps) (hAB : ∀ x, B x → A x) : SizeNoForgeryOn B C e ps :=
  fun ha i x pt hi hx ho => h ha i x pt hi (hAB x hx) ho

/-- asked of *all* byte strings the hypothesis contradicts `Lawful` (the seals of two different
plaintexts under the first payload nonce both open): it has to be relative to the received bytes -/
theorem payloadNoForgery_global_inconsistent (C : Crypto) (hC : C.Lawful) (e : Body) (ps : List Bytes) :
    ¬ PayloadNoForgeryOn (fun _ => True) C e ps := by
  intro h
  have h1 := h 0 _ _ (Nat.zero_le _) trivial (hC.open_seal e.sec.alg e.key (Nonce.counting e.iv (e.count + 0) 12) [] [])
  have h2 := h 0 _ _ (Nat.zero_le _) trivial (hC.open_seal e.sec.alg e.key (Nonce.counting e.iv (e.count + 0) 12) [] [0])
  rw [h1] at h2
  simp at h2

/-! ### what is released is a prefix of what was sealed -/

/-- **released ⊆ sealed, in order** — needs no law of the cipher and only the payload part of the
hypothesis: whatever the size fields and padding bytes are (with the plain and the masked length they
are not authenticated), every released chunk opened under the next payload nonce, hence is the next
honest plaintext -/
theorem vm_prefix_out (C : Crypto) (ps : List Bytes) : ∀ (d : Body) (s : Bytes), d.st = .padding →
    PayloadNoForgeryOn (· <:+: s) C d ps →
    ∃ k, k ≤ ps.length ∧ (run (Body.unit C) d s).out = (ps.take k).flatten := by
  induction ps with
  | nil =>
    intro d s hst hnf
    refine ⟨0, Nat.le_refl _, ?_⟩
    rcases body_chunk_inv C d hst s with h | ⟨len, p, _, _, _, _, ho, _⟩
    · rw [h]; rfl
    · have := hnf 0 _ _ (Nat.le_refl _) (infix_take_drop s _ _) (by rw [Nat.add_zero]; exact ho)
      simp [Body.payloadBlocks] at this
  | cons p0 ps ih =>
    intro d s hst hnf
    rcases body_chunk_inv C d hst s with h | ⟨len, p, _, _, _, _, ho, hrun⟩
    · exact ⟨0, Nat.zero_le _, by rw [h]; rfl⟩
    · have h0 := hnf 0 _ _ (Nat.zero_le _) (infix_take_drop s _ _) (by rw [Nat.add_zero]; exact ho)
      simp only [Body.payloadBlocks, List.getElem?_cons_zero, Option.some.injEq, Prod.mk.injEq] at h0
      obtain ⟨k, hk, hout⟩ := ih d.next ((s.drop d.sizeBytes).drop len) (by rw [d.next_fields.2.2.2.2.2.2.2.2.2.1, hst])
        (hnf.shift.mono fun x hx => hx.trans ((List.drop_suffix _ _).isInfix.trans (List.drop_suffix _ s).isInfix))
      refine ⟨k + 1, by simp only [List.length_cons]; omega, ?_⟩
      rw [hrun]
      simp only [List.take_succ_cons, List.flatten_cons]
      rw [hout, h0.2]

/-! ### … and what was consumed for it are the sender's bytes -/

theorem be16_rdBE (l : Bytes) (h : l.length = 2) : be16 (rdBE l) = l := by
  match l, h with
  | [x, y], _ =>
    have hx := x.toNat_lt; have hy := y.toNat_lt
    simp only [rdBE, List.foldl, be16, u8]
    have h1 : ((0 * 256 + x.toNat) * 256 + y.toNat) / 256 % 256 = x.toNat := by omega
    have h2 : ((0 * 256 + x.toNat) * 256 + y.toNat) % 256 = y.toNat := by omega
    rw [h1, h2]
    simp

/-- the honest sender of a list of chunk plaintexts; `pads` = the padding bytes per chunk, in order
(as in `encodePayloadP`: a missing entry means no bytes) -/
def Body.encodeChunks (C : Crypto) : Body → List Bytes → List Bytes → Bytes × Body
  | e, [], _ => ([], e)
  | e, p :: ps, pads =>
    ((e.encodeChunk C p (pads.headD [])).1 ++ (Body.encodeChunks C (e.encodeChunk C p (pads.headD [])).2.2 ps pads.tail).1,
      (Body.encodeChunks C (e.encodeChunk C p (pads.headD [])).2.2 ps pads.tail).2)

/-- every plaintext is carried whole by its chunk (it does not exceed what one chunk holds) -/
def Body.ChunksFit (C : Crypto) : Body → List Bytes → Prop
  | _, [] => True
  | e, p :: ps => e.chunkLen C p = p.length ∧ Body.ChunksFit C e.next ps

instance Body.decChunksFit (C : Crypto) : ∀ (e : Body) (ps : List Bytes), Decidable (e.ChunksFit C ps)
  | _, [] => isTrue trivial
  | e, p :: ps => by
    unfold Body.ChunksFit
    have := Body.decChunksFit C e.next ps
    infer_instance

/-- each chunk's padding bytes are exactly as many as the codec's padding length for that chunk -/
def Body.PadsExact (C : Crypto) : Body → List Bytes → Prop
  | _, [] => True
  | e, pad :: r => pad.length = (e.nextPadding C).1 ∧ Body.PadsExact C e.next r

/-- a size field that parses to `len` is the field the sender writes for `len` — for the plain and
the masked kind because the 2-byte field is a bijection of the value, for the authenticated kind if it
is the sender's sealed size -/
theorem Body.encodeSize_of_decodeSize (C : Crypto) (b : Body) (data : Bytes) (len : Nat)
    (hl : data.length = b.sizeBytes) (h : (b.decodeSize C data).1 = some len)
    (hauth : b.size = .auth →
      data = C.sealB b.sec.alg b.sizeKey (Nonce.counting b.sizeIv b.sizeCount 12) [] (be16 (len - 16))) :
    (b.encodeSize C len).1 = data := by
  unfold Body.encodeSize
  unfold Body.decodeSize at h
  unfold Body.sizeBytes at hl
  cases hs : b.size
  · rw [hs] at h hl
    simp only [Option.some.injEq] at h
    simp only [reduceCtorEq, if_false] at hl
    show be16 len = data
    rw [← h]; exact be16_rdBE data hl
  · exact (hauth hs).symm
  · rw [hs] at h hl
    simp only [Option.some.injEq] at h
    simp only [reduceCtorEq, if_false] at hl
    show be16 (Nat.xor (shakeU16 C b.shakeSeed b.shakePos) len % 65536) = data
    rw [← h, xor_xor_cancel, Nat.mod_eq_of_lt (rdBE_two_lt data hl)]
    exact be16_rdBE data hl

theorem Body.decodeSize_auth_open (C : Crypto) (b : Body) (data : Bytes) (len : Nat) (hs : b.size = .auth)
    (h : (b.decodeSize C data).1 = some len) :
    ∃ q, C.openB b.sec.alg b.sizeKey (Nonce.counting b.sizeIv b.sizeCount 12) [] data = some q := by
  unfold Body.decodeSize at h
  rw [hs] at h
  simp only at h
  cases ho : C.openB b.sec.alg b.sizeKey (Nonce.counting b.sizeIv b.sizeCount 12) [] data with
  | none => rw [ho] at h; simp at h
  | some q => exact ⟨q, rfl⟩

/-- **C05 for the VMess body, one run**: for any received bytes `s` that contain no forgery, the
decoder at a chunk boundary releases exactly the first `k` honest chunks, and the bytes it consumed
for them are what the honest sender writes for those chunks with *some* padding bytes of the right
lengths (padding is not authenticated; everything else — size field of every kind, ciphertext, tag —
is the sender's): `s` starts with them. -/
theorem vm_prefix (C : Crypto) (hC : C.Lawful) (ps : List Bytes) : ∀ (d : Body) (s : Bytes), d.st = .padding →
    VmNoForgery C d ps s → d.ChunksFit C ps →
    ∃ k pads, k ≤ ps.length ∧ pads.length = k ∧ d.PadsExact C pads ∧
      (run (Body.unit C) d s).out = (ps.take k).flatten ∧
      (d.encodeChunks C (ps.take k) pads).1 <+: s := by
  induction ps with
  | nil =>
    intro d s hst hnf _
    obtain ⟨k, hk, hout⟩ := vm_prefix_out C [] d s hst hnf.1
    exact ⟨0, [], Nat.le_refl _, rfl, trivial, by simpa using hout, by simp [Body.encodeChunks]⟩
  | cons p0 ps ih =>
    intro d s hst hnf hfit
    rcases body_chunk_inv C d hst s with h | ⟨len, p, hsb, hsz, hlo, hhi, ho, hrun⟩
    · exact ⟨0, [], Nat.zero_le _, rfl, trivial, by rw [h]; rfl, by simp [Body.encodeChunks]⟩
    · have h0 := hnf.1 0 _ _ (Nat.zero_le _) (infix_take_drop s _ _) (by rw [Nat.add_zero]; exact ho)
      simp only [Body.payloadBlocks, List.getElem?_cons_zero, Option.some.injEq, Prod.mk.injEq] at h0
      obtain ⟨hx, hp⟩ := h0
      obtain ⟨f1, f2, f3, f4, f5, f6, f7, f8, f9, f10, f11⟩ := d.afterPad_fields
      obtain ⟨g1, g2, g3, g4, g5, g6, g7, g8, g9, g10, g11⟩ := d.afterPad.afterSize_fields
      generalize hpl : (d.nextPadding C).1 = pl at *
      -- the length is fixed by the ciphertext
      have hxl : ((s.drop d.sizeBytes).take (len - pl)).length = len - pl := by rw [List.length_take]; omega
      have hct : len - pl = p0.length + 16 := by rw [← hxl, ← hx, hC.seal_len]
      have hlen : len = p0.length + pl + 16 := by omega
      -- the size field is the sender's
      have hdata : (d.afterPad.encodeSize C len).1 = s.take d.sizeBytes := by
        apply Body.encodeSize_of_decodeSize C d.afterPad _ _ ?_ hsz ?_
        · rw [List.length_take, Body.sizeBytes_eq_of_size _ _ f5]; omega
        · intro ha
          obtain ⟨q, hq⟩ := Body.decodeSize_auth_open C d.afterPad _ _ ha hsz
          rw [f1, f6, f7, f8] at hq ⊢
          have hz := hnf.2 (f5 ▸ ha) 0 _ _ (Nat.zero_le _) (List.take_prefix _ s).isInfix (by rw [Nat.add_zero]; exact hq)
          simp only [Body.sizeBlocks, List.getElem?_cons_zero, Option.some.injEq, Prod.mk.injEq] at hz
          rw [← hz.1, hpl, show len - 16 = p0.length + pl by omega]
      -- the chunk as the honest sender writes it, with the received padding bytes
      have hjl : (((s.drop d.sizeBytes).drop (len - pl)).take pl).length = pl := by
        rw [List.length_take, List.length_drop]; omega
      have hchunk : (d.encodeChunk C p0 (((s.drop d.sizeBytes).drop (len - pl)).take pl)).1 =
          s.take d.sizeBytes ++ ((s.drop d.sizeBytes).take (len - pl) ++ ((s.drop d.sizeBytes).drop (len - pl)).take pl) := by
        rw [Body.encodeChunk_eq]
        simp only [Body.nextPadding_snd, Body.encodeSize_snd, hfit.1, hpl, List.take_length, g1, g2, g3, g4, f1, f2, f3, f4]
        rw [← hlen, hdata, hx, List.take_take, Nat.min_self, List.append_assoc]
      have hs : s = (d.encodeChunk C p0 (((s.drop d.sizeBytes).drop (len - pl)).take pl)).1 ++ (s.drop d.sizeBytes).drop len := by
        rw [hchunk]
        have e1 : ((s.drop d.sizeBytes).drop (len - pl)).drop pl = (s.drop d.sizeBytes).drop len := by
          rw [List.drop_drop]; congr 1; omega
        rw [← e1]
        simp only [List.append_assoc, List.take_append_drop]
      obtain ⟨k, pads, hk, hpadl, hpe, hout, hpre⟩ := ih d.next ((s.drop d.sizeBytes).drop len)
        (by rw [d.next_fields.2.2.2.2.2.2.2.2.2.1, hst])
        ⟨hnf.1.shift.mono fun x hx => hx.trans ((List.drop_suffix _ _).isInfix.trans (List.drop_suffix _ s).isInfix),
         hnf.2.shift.mono fun x hx => hx.trans ((List.drop_suffix _ _).isInfix.trans (List.drop_suffix _ s).isInfix)⟩
        hfit.2
      refine ⟨k + 1, ((s.drop d.sizeBytes).drop (len - pl)).take pl :: pads, by simp only [List.length_cons]; omega,
        by simp only [List.length_cons, hpadl], ⟨by rw [hjl, hpl], hpe⟩, ?_, ?_⟩
      · rw [hrun]
        simp only [List.take_succ_cons, List.flatten_cons]
        rw [hout, hp]
      · simp only [List.take_succ_cons, Body.encodeChunks, Body.encodeChunk_state, List.headD_cons, List.tail_cons]
        conv => rhs; rw [hs]
        exact (List.prefix_append_right_inj _).mpr hpre

/-! ### sender state vs receiver state: nothing above reads `st` -/

theorem Body.next_st (b : Body) (x : BodySt) : ({ b with st := x } : Body).next = { b.next with st := x } := by
  cases b with
  | mk sec key iv count size sizeKey sizeIv sizeCount gp seed pos st =>
    cases gp <;> cases size <;> rfl

theorem Body.encodeChunk_st (C : Crypto) (b : Body) (x : BodySt) (src pad : Bytes) :
    (({ b with st := x } : Body).encodeChunk C src pad).1 = (b.encodeChunk C src pad).1 := by
  cases b with
  | mk sec key iv count size sizeKey sizeIv sizeCount gp seed pos st =>
    cases gp <;> cases size <;> rfl

theorem Body.payloadBlocks_st (C : Crypto) (ps : List Bytes) : ∀ (b : Body) (x : BodySt),
    Body.payloadBlocks C { b with st := x } ps = Body.payloadBlocks C b ps := by
  induction ps with
  | nil => intro b x; rfl
  | cons p ps ih => intro b x; simp only [Body.payloadBlocks, Body.next_st, ih]

theorem Body.sizeBlocks_st (C : Crypto) (ps : List Bytes) : ∀ (b : Body) (x : BodySt),
    Body.sizeBlocks C { b with st := x } ps = Body.sizeBlocks C b ps := by
  induction ps with
  | nil => intro b x; rfl
  | cons p ps ih => intro b x; simp only [Body.sizeBlocks, Body.next_st, ih, Body.nextPadding_st]

theorem Body.chunksFit_st (C : Crypto) (ps : List Bytes) : ∀ (b : Body) (x : BodySt),
    Body.ChunksFit C { b with st := x } ps ↔ Body.ChunksFit C b ps := by
  induction ps with
  | nil => intro b x; exact Iff.rfl
  | cons p ps ih =>
    intro b x
    simp only [Body.ChunksFit, Body.next_st, ih]
    have : ({ b with st := x } : Body).chunkLen C p = b.chunkLen C p := by
      unfold Body.chunkLen; rw [Body.nextPadding_st]; rfl
    rw [this]

theorem Body.padsExact_st (C : Crypto) (pads : List Bytes) : ∀ (b : Body) (x : BodySt),
    Body.PadsExact C { b with st := x } pads ↔ Body.PadsExact C b pads := by
  induction pads with
  | nil => intro b x; exact Iff.rfl
  | cons p ps ih => intro b x; simp only [Body.PadsExact, Body.next_st, ih, Body.nextPadding_st]

theorem Body.encodeChunks_st (C : Crypto) (ps : List Bytes) : ∀ (b : Body) (x : BodySt) (pads : List Bytes),
    (Body.encodeChunks C { b with st := x } ps pads).1 = (Body.encodeChunks C b ps pads).1 := by
  induction ps with
  | nil => intro b x pads; rfl
  | cons p ps ih =>
    intro b x pads
    simp only [Body.encodeChunks, Body.encodeChunk_state, Body.next_st, ih, Body.encodeChunk_st]

theorem VmNoForgeryOn.of_sync {A : Bytes → Prop} {C : Crypto} {e d : Body} {ps : List Bytes} (hs : Body.Sync e d)
    (h : VmNoForgeryOn A C e ps) : VmNoForgeryOn A C d ps := by
  have hd : d = { e with st := .padding } := hs
  subst hd
  refine ⟨?_, ?_⟩
  · intro i x pt hi hx ho
    rw [Body.payloadBlocks_st]
    exact h.1 i x pt hi hx ho
  · intro ha i x pt hi hx ho
    rw [Body.sizeBlocks_st]
    exact h.2 ha i x pt hi hx ho

/-! ### the chunks `encodePayload(P)` cuts a source into -/

/-- the chunk plaintexts of one write (same recursion and fuel as `encodePayloadP`) -/
def Body.cut (C : Crypto) : Nat → Body → Bytes → List Bytes
  | 0, _, _ => []
  | fuel+1, e, src =>
    if src.isEmpty then [] else src.take (e.chunkLen C src) :: Body.cut C fuel e.next (src.drop (e.chunkLen C src))

/-- `encodePayloadP` is the chunk-list sender applied to the cut of the source -/
theorem Body.encodePayloadP_eq_chunks (C : Crypto) : ∀ (fuel : Nat) (e : Body) (src : Bytes) (pads : List Bytes),
    Body.encodePayloadP C fuel e src pads = Body.encodeChunks C e (Body.cut C fuel e src) pads := by
  intro fuel
  induction fuel with
  | zero => intro e src pads; rfl
  | succ fuel ih =>
    intro e src pads
    unfold Body.encodePayloadP Body.cut
    by_cases hsrc : src.isEmpty = true
    · simp only [hsrc, if_true]; rfl
    · simp only [hsrc, Bool.false_eq_true, if_false]
      have hw : (e.encodeChunk C (src.take (e.chunkLen C src)) (pads.headD [])) =
          ((e.encodeChunk C src (pads.headD [])).1, [], (e.encodeChunk C src (pads.headD [])).2.2) := by
        rw [Body.encodeChunk_eq, Body.encodeChunk_eq]
        have hn : e.chunkLen C (src.take (e.chunkLen C src)) = e.chunkLen C src := by
          unfold Body.chunkLen; rw [List.length_take]; omega
        simp only [hn, List.take_take, Nat.min_self, Prod.mk.injEq, List.drop_eq_nil_iff, List.length_take, true_and, and_true]
        omega
      simp only [Body.encodeChunks, hw, Body.encodeChunk_rest, Body.encodeChunk_state, ih]

theorem Body.cut_flatten (C : Crypto) : ∀ (fuel : Nat) (e : Body) (src : Bytes), src.length < fuel →
    (Body.cut C fuel e src).flatten = src := by
  intro fuel
  induction fuel with
  | zero => intro e src h; omega
  | succ fuel ih =>
    intro e src h
    unfold Body.cut
    cases src with
    | nil => rfl
    | cons x xs =>
      have hpos := e.chunkLen_pos C (x :: xs) (by simp)
      have hle := e.chunkLen_le C (x :: xs)
      simp only [List.isEmpty_cons, Bool.false_eq_true, if_false, List.flatten_cons]
      rw [ih _ _ (by rw [List.length_drop]; omega), List.take_append_drop]

theorem Body.cut_fits (C : Crypto) : ∀ (fuel : Nat) (e : Body) (src : Bytes), Body.ChunksFit C e (Body.cut C fuel e src) := by
  intro fuel
  induction fuel with
  | zero => intro e src; trivial
  | succ fuel ih =>
    intro e src
    unfold Body.cut
    by_cases hsrc : src.isEmpty = true
    · simp only [hsrc, if_true]; trivial
    · simp only [hsrc, Bool.false_eq_true, if_false]
      refine ⟨?_, ih _ _⟩
      unfold Body.chunkLen; simp only [List.length_take]; omega

/-! ### the hypothesis as a computation, for concrete data -/

def blocksCheck (C : Crypto) (alg : Alg) (key iv : Bytes) (c0 : Nat) (blocks : List (Bytes × Bytes)) (s : Bytes) : Bool :=
  (List.range (blocks.length + 1)).all fun i => (slices s).all fun x =>
    match C.openB alg key (Nonce.counting iv (c0 + i) 12) [] x with
    | none => true
    | some pt => blocks[i]? == some (x, pt)

def vmNoForgeryCheck (C : Crypto) (e : Body) (ps : List Bytes) (s : Bytes) : Bool :=
  blocksCheck C e.sec.alg e.key e.iv e.count (e.payloadBlocks C ps) s &&
  (e.size != .auth || blocksCheck C e.sec.alg e.sizeKey e.sizeIv e.sizeCount (e.sizeBlocks C ps) s)

theorem Body.payloadBlocks_length (C : Crypto) (ps : List Bytes) : ∀ e : Body, (e.payloadBlocks C ps).length = ps.length := by
  induction ps with
  | nil => intro e; rfl
  | cons p ps ih => intro e; simp [Body.payloadBlocks, ih]

theorem Body.sizeBlocks_length (C : Crypto) (ps : List Bytes) : ∀ e : Body, (e.sizeBlocks C ps).length = ps.length := by
  induction ps with
  | nil => intro e; rfl
  | cons p ps ih => intro e; simp [Body.sizeBlocks, ih]

theorem blocksCheck_sound (C : Crypto) (alg : Alg) (key iv : Bytes) (c0 : Nat) (blocks : List (Bytes × Bytes)) (s : Bytes)
    (h : blocksCheck C alg key iv c0 blocks s = true) (i : Nat) (x pt : Bytes) (hi : i ≤ blocks.length) (hx : x <:+: s)
    (ho : C.openB alg key (Nonce.counting iv (c0 + i) 12) [] x = some pt) : blocks[i]? = some (x, pt) := by
  simp only [blocksCheck, List.all_eq_true, List.mem_range] at h
  have := h i (by omega) x (mem_slices_of_infix hx)
  rw [ho] at this
  simpa using this

theorem vmNoForgery_of_check (C : Crypto) (e : Body) (ps : List Bytes) (s : Bytes)
    (h : vmNoForgeryCheck C e ps s = true) : VmNoForgery C e ps s := by
  simp only [vmNoForgeryCheck, Bool.and_eq_true, Bool.or_eq_true, bne_iff_ne, ne_eq] at h
  refine ⟨?_, ?_⟩
  · intro i x pt hi hx ho
    exact blocksCheck_sound C _ _ _ _ _ s h.1 i x pt (by rw [Body.payloadBlocks_length]; exact hi) hx ho
  · intro ha i x pt hi hx ho
    rcases h.2 with h2 | h2
    · exact absurd ha h2
    · exact blocksCheck_sound C _ _ _ _ _ s h2 i x pt (by rw [Body.sizeBlocks_length]; exact hi) hx ho

end Octo.Vmess

/-! ### generic: a failed stream stays failed and releases nothing more -/
namespace Octo.Fr
variable {σ ο : Type}

theorem feed_failed (unit : σ → Bytes → Step σ ο) (pieces : List Bytes) : ∀ (r : Out σ ο), r.failed = true →
    (pieces.foldl (feed unit) r).failed = true ∧ (pieces.foldl (feed unit) r).out = r.out ∧
      (pieces.foldl (feed unit) r).st = r.st := by
  induction pieces with
  | nil => intro r h; exact ⟨h, rfl, rfl⟩
  | cons p ps ih =>
    intro r h
    have hf : feed unit r p = ⟨r.st, r.buf ++ p, r.out, true⟩ := by unfold feed; rw [if_pos h]
    rw [List.foldl_cons, hf]
    exact ih _ rfl

end Octo.Fr
