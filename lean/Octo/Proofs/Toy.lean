import Octo.Model.Crypto
/-! The toy crypto instance is lawful (non-vacuity of every `C.Lawful` hypothesis). -/
namespace Octo

theorem xorBytes_length (a b : Bytes) : (xorBytes a b).length = min a.length b.length := by
  simp [xorBytes]

theorem xorBytes_cancel : ∀ (a b : Bytes), a.length ≤ b.length → xorBytes (xorBytes a b) b = a
  | [], _, _ => by simp [xorBytes]
  | x :: a, [], h => by simp at h
  | x :: a, y :: b, h => by
    have ih := xorBytes_cancel a b (by simpa using h)
    simp only [xorBytes, List.zipWith_cons_cons] at ih ⊢
    rw [ih]
    congr 1
    rw [UInt8.xor_assoc, UInt8.xor_self, UInt8.xor_zero]

namespace Toy

theorem pad_length (k n : Bytes) (l : Nat) : (pad k n l).length = l := by simp [pad]
theorem tagOf_length (k n ad p : Bytes) : (tagOf k n ad p).length = 16 := by simp [tagOf]

theorem fixLen_length (n : Nat) (b : Bytes) : (fixLen n b).length = n := by
  simp [fixLen, zeros]

theorem open_seal (a : Alg) (k n ad p : Bytes) : openB a k n ad (sealB a k n ad p) = some p := by
  have hx : (xorBytes p (pad k n p.length)).length = p.length := by
    rw [xorBytes_length, pad_length]; omega
  have hl : (sealB a k n ad p).length = p.length + 16 := by
    simp [sealB, hx, tagOf_length]
  unfold openB
  rw [if_neg (by omega), hl]
  simp only [Nat.add_sub_cancel]
  have ht : (sealB a k n ad p).take p.length = xorBytes p (pad k n p.length) := by
    unfold sealB; exact List.take_left' hx
  have hd : (sealB a k n ad p).drop p.length = tagOf k n ad p := by
    unfold sealB
    exact List.drop_left' hx
  simp only [ht, hd, hx]
  rw [xorBytes_cancel p _ (by rw [pad_length]; omega)]
  simp

theorem seal_len (a : Alg) (k n ad p : Bytes) : (sealB a k n ad p).length = p.length + 16 := by
  simp [sealB, xorBytes_length, pad_length, tagOf_length]

theorem open_len (a : Alg) (k n ad c p : Bytes) (h : openB a k n ad c = some p) : c.length = p.length + 16 := by
  unfold openB at h
  split at h
  · cases h
  · simp only at h
    split at h
    · cases h
      simp [xorBytes_length, pad_length]; omega
    · cases h

theorem blk_blk (k b : Bytes) (h : b.length = 16) : blk k (blk k b) = b := by
  have hb : fixLen 16 b = b := by
    unfold fixLen; rw [List.take_append_of_le_length (by omega), List.take_of_length_le (by omega)]
  unfold blk
  rw [hb]
  have h2 : fixLen 16 (xorBytes b (fixLen 16 (k ++ [1, 2, 3]))) = xorBytes b (fixLen 16 (k ++ [1, 2, 3])) := by
    unfold fixLen
    rw [List.take_append_of_le_length (by simp [xorBytes_length, zeros]; omega),
      List.take_of_length_le (by simp [xorBytes_length, zeros]; omega)]
  rw [h2]
  exact xorBytes_cancel b _ (by rw [fixLen_length]; omega)

theorem blk_len (k b : Bytes) : (blk k b).length = 16 := by
  simp [blk, xorBytes_length, fixLen_length]

end Toy

theorem Crypto.toy_lawful : Crypto.toy.Lawful where
  open_seal := Toy.open_seal
  seal_len := Toy.seal_len
  open_len := Toy.open_len
  aes_dec_enc := Toy.blk_blk
  aes_enc_len := Toy.blk_len
  aes_dec_len := Toy.blk_len
  blake3_len := fun _ _ => Toy.fixLen_length _ _
  blake3h_len := fun _ => Toy.fixLen_length _ _
  md5_len := fun _ => Toy.fixLen_length _ _
  sha224_len := fun _ => Toy.fixLen_length _ _
  sha256_len := fun _ => Toy.fixLen_length _ _
  hkdf_len := fun _ _ _ _ => Toy.fixLen_length _ _
  shake_len := fun _ _ => Toy.fixLen_length _ _

end Octo
