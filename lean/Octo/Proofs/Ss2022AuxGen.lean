import Octo.Gen.Ss2022AuxGen
import Octo.Proofs.SsTcpGen
import Octo.Proofs.SsUdpGen
import Octo.Spec.Wire
/-!
  The functions of `aead_2022.rs`, `aead_2022/tcp.rs`, `aead_2022/udp.rs`, `aead.rs`, translated by
  `bin/translate_ss2022aux.py` (`Octo/Gen/Ss2022AuxGen.lean`), are the functions that `translate_sstcp.py` and
  `translate_ssudp.py` ASSUME (fields of `SsTcpGen.Ext` / `SsUdpGen.Ext`) and that `Proofs/SsTcpGen.lean` / `SsUdpGen.lean`
  instantiate by the hand model (`SsTcpGen.XM E`, `SsUdpGen.XM E`).  Here the cryptographic primitives, the clock and the
  random number generator are instantiated from the model's `Crypto` (`XA E`), and each translated function is proved EQUAL to
  the corresponding field of `XM E`, for all arguments, both overflow profiles — under explicit guards where the real code
  panics / fails and the instantiation does not (each guard comes with a theorem exhibiting the difference).
-/
set_option linter.unusedVariables false
set_option linter.unusedSimpArgs false
namespace Octo.Ss2022AuxGen
open Octo Octo.PWGen Octo.AddrGen

/-! ## Part 0 — the remaining externals, instantiated from the model's `Crypto` -/

/-- the types behind the externals: those of `SsTcpGen.MT`; a keyed AEAD = (algorithm, key); HKDF after extract = (salt, ikm);
keyed AES = the key; a point in time / a duration = whole seconds; keyed XChaCha = the key -/
@[reducible] def MTA : ExtTypes := ⟨SsTcpGen.MT, Alg × Bytes, Bytes × Bytes, Bytes, Bytes, UInt64, UInt64, Bytes, Bytes⟩

/-- AES-ECB through `crypto::Aes*EcbNoPadding` on ONE block (the only way the translated code calls it): `&key[..ks]` and the
`expect`s panic on a short key / a buffer that is not one whole block -/
def ecb1 (f : Bytes → Bytes → Bytes) (ks : Nat) (key buf : Bytes) (len : Nat) : PWGen.Res (Bytes × Unit) :=
  if key.length < ks ∨ buf.length ≠ 16 ∨ len ≠ 16 then .panic else .ok (f (key.take ks) buf, ())

/-- the externals of the generated code, instantiated by the model's cryptography, clock and randomness (`E` as for `SsTcpGen.XM`) -/
def XA (E : SsTcpGen.MEnv) : Ext MTA where
  blake3_derive_key c m := .ok (E.C.blake3Derive c m)
  blake3_hash m := .ok (E.C.blake3Hash m)
  Aes128EcbNoPadding_encrypt key buf len := ecb1 E.C.aesEnc 16 key buf len.toNat
  Aes256EcbNoPadding_encrypt key buf len := ecb1 E.C.aesEnc 32 key buf len.toNat
  Aes128EcbNoPadding_decrypt key buf := ecb1 E.C.aesDec 16 key buf 16
  Aes256EcbNoPadding_decrypt key buf := ecb1 E.C.aesDec 32 key buf 16
  CipherMethod_new kind key := match SsTcpGen.toKind kind with
    | some k => if key.length < k.alg.keyLen then .panic else .ok (k.alg, key.take k.alg.keyLen)
    | none => .panic
  Authenticator_new m := .ok ⟨m.1, m.2, Nonce.incInit⟩
  ChunkEncoder_new limit a := .ok ⟨limit, a⟩
  ChunkDecoder_new a := .ok ⟨a, .Length⟩
  SystemTime_now := .ok (UInt64.ofNat E.now)
  Aes128_new_from_slice key := .ok (if key.length = 16 then .ok key else .err)
  Aes256_new_from_slice key := .ok (if key.length = 32 then .ok key else .err)
  HkdfSha1_new salt ikm := .ok (salt.getD [], ikm)
  XChaCha8Poly1305_new key := .ok key
  XChaCha20Poly1305_new key := .ok key
  CipherMethod_XChaCha8Poly1305 key := .ok (.xchacha8, key)
  CipherMethod_XChaCha20Poly1305 key := .ok (.xchacha20, key)
  Authenticator_seal a buf := .ok ((Ss.Auth.sealB E.C a buf).2, (Ss.Auth.sealB E.C a buf).1, .ok ())
  SystemTime_duration_since a b := .ok (if b ≤ a then .ok (a - b) else .err)
  Duration_as_secs d := .ok d
  ServerUserManager_get_user_by_hash m h := .ok (m.find? (fun u => u.identity_hash = h))
  HkdfSha1_expand hk info okm :=
    if okm.length ≤ 255 * 20 then .ok (E.C.hkdfSha1 hk.1 hk.2 info okm.length, .ok ()) else .ok (okm, .err)
  Aes128_encrypt_block key b := .ok (E.C.aesEnc key b, ())
  Aes128_decrypt_block key b := .ok (E.C.aesDec key b, ())
  Aes256_encrypt_block key b := .ok (E.C.aesEnc key b, ())
  Aes256_decrypt_block key b := .ok (E.C.aesDec key b, ())
  XChaCha8Poly1305_NonceSize := 24
  XChaCha20Poly1305_NonceSize := 24
  XChaCha8Poly1305_KeySize := 32
  XChaCha20Poly1305_KeySize := 32
  UNIX_EPOCH := 0
  rng_random_range_inclusive_u16 _ _ := .ok (UInt16.ofNat E.padLen)

/-! the fields of `XA E`, one rewriting lemma each (so that `XA` itself is never unfolded) -/
section fields
variable (E : SsTcpGen.MEnv)
theorem xa_derive (c m : Bytes) : (XA E).blake3_derive_key c m = .ok (E.C.blake3Derive c m) := rfl
theorem xa_hash (m : Bytes) : (XA E).blake3_hash m = .ok (E.C.blake3Hash m) := rfl
theorem xa_e128 (k b : Bytes) (l : Usize) : (XA E).Aes128EcbNoPadding_encrypt k b l = ecb1 E.C.aesEnc 16 k b l.toNat := rfl
theorem xa_e256 (k b : Bytes) (l : Usize) : (XA E).Aes256EcbNoPadding_encrypt k b l = ecb1 E.C.aesEnc 32 k b l.toNat := rfl
theorem xa_d128 (k b : Bytes) : (XA E).Aes128EcbNoPadding_decrypt k b = ecb1 E.C.aesDec 16 k b 16 := rfl
theorem xa_d256 (k b : Bytes) : (XA E).Aes256EcbNoPadding_decrypt k b = ecb1 E.C.aesDec 32 k b 16 := rfl
theorem xa_cm (kind : SsTcpGen.CipherKind) (key : Bytes) : (XA E).CipherMethod_new kind key = (match SsTcpGen.toKind kind with
    | some k => if key.length < k.alg.keyLen then .panic else .ok (k.alg, key.take k.alg.keyLen)
    | none => .panic) := rfl
theorem xa_auth (m : Alg × Bytes) : (XA E).Authenticator_new m = .ok ⟨m.1, m.2, Nonce.incInit⟩ := rfl
theorem xa_enc (l : Usize) (a : Ss.Auth) : (XA E).ChunkEncoder_new l a = .ok ⟨l, a⟩ := rfl
theorem xa_dec (a : Ss.Auth) : (XA E).ChunkDecoder_new a = .ok ⟨a, .Length⟩ := rfl
theorem xa_now : (XA E).SystemTime_now = .ok (UInt64.ofNat E.now) := rfl
theorem xa_a128 (key : Bytes) : (XA E).Aes128_new_from_slice key = .ok (if key.length = 16 then .ok key else .err) := rfl
theorem xa_a256 (key : Bytes) : (XA E).Aes256_new_from_slice key = .ok (if key.length = 32 then .ok key else .err) := rfl
theorem xa_hk (s : Option Bytes) (i : Bytes) : (XA E).HkdfSha1_new s i = .ok (s.getD [], i) := rfl
theorem xa_x8 (k : Bytes) : (XA E).XChaCha8Poly1305_new k = .ok k := rfl
theorem xa_x20 (k : Bytes) : (XA E).XChaCha20Poly1305_new k = .ok k := rfl
theorem xa_cx8 (k : Bytes) : (XA E).CipherMethod_XChaCha8Poly1305 k = .ok (.xchacha8, k) := rfl
theorem xa_cx20 (k : Bytes) : (XA E).CipherMethod_XChaCha20Poly1305 k = .ok (.xchacha20, k) := rfl
theorem xa_seal (a : Ss.Auth) (b : Bytes) : (XA E).Authenticator_seal a b = .ok ((Ss.Auth.sealB E.C a b).2, (Ss.Auth.sealB E.C a b).1, .ok ()) := rfl
theorem xa_since (a b : UInt64) : (XA E).SystemTime_duration_since a b = .ok (if b ≤ a then .ok (a - b) else .err) := rfl
theorem xa_secs (d : UInt64) : (XA E).Duration_as_secs d = .ok d := rfl
theorem xa_user (m : List SsTcpGen.ServerUser) (h : Bytes) : (XA E).ServerUserManager_get_user_by_hash m h = .ok (m.find? (fun u => u.identity_hash = h)) := rfl
theorem xa_expand (hk : Bytes × Bytes) (info okm : Bytes) : (XA E).HkdfSha1_expand hk info okm =
    (if okm.length ≤ 255 * 20 then .ok (E.C.hkdfSha1 hk.1 hk.2 info okm.length, .ok ()) else .ok (okm, .err)) := rfl
theorem xa_eb128 (k b : Bytes) : (XA E).Aes128_encrypt_block k b = .ok (E.C.aesEnc k b, ()) := rfl
theorem xa_db128 (k b : Bytes) : (XA E).Aes128_decrypt_block k b = .ok (E.C.aesDec k b, ()) := rfl
theorem xa_eb256 (k b : Bytes) : (XA E).Aes256_encrypt_block k b = .ok (E.C.aesEnc k b, ()) := rfl
theorem xa_db256 (k b : Bytes) : (XA E).Aes256_decrypt_block k b = .ok (E.C.aesDec k b, ()) := rfl
theorem xa_n8 : (XA E).XChaCha8Poly1305_NonceSize = 24 := rfl
theorem xa_n20 : (XA E).XChaCha20Poly1305_NonceSize = 24 := rfl
theorem xa_k8 : (XA E).XChaCha8Poly1305_KeySize = 32 := rfl
theorem xa_k20 : (XA E).XChaCha20Poly1305_KeySize = 32 := rfl
theorem xa_epoch : (XA E).UNIX_EPOCH = 0 := rfl
theorem xa_rng (a b : UInt16) : (XA E).rng_random_range_inclusive_u16 a b = .ok (UInt16.ofNat E.padLen) := rfl
end fields

/-! ## Part 1 — flow lemmas, context strings -/

section flow
variable {α β ρ : Type}
theorem bind_next (a : α) (k : α → Flow β ρ) : (Flow.next a : Flow α ρ).bind k = k a := rfl
theorem bind_ret (r : ρ) (k : α → Flow β ρ) : (Flow.ret r : Flow α ρ).bind k = Flow.ret r := rfl
theorem bind_panic (k : α → Flow β ρ) : (Flow.panic : Flow α ρ).bind k = Flow.panic := rfl
theorem run_ret (r : ρ) : Flow.run (Flow.ret r : Flow Empty ρ) = PWGen.Res.ok r := rfl
theorem run_panic : Flow.run (Flow.panic : Flow Empty ρ) = PWGen.Res.panic := rfl
theorem call_ok (a : α) : (Flow.call (PWGen.Res.ok a) : Flow α ρ) = Flow.next a := rfl
theorem call_panic : (Flow.call (PWGen.Res.panic : PWGen.Res α) : Flow α ρ) = Flow.panic := rfl
theorem arith_true (ov : Bool) : (Flow.arith ov true : Flow Unit ρ) = Flow.next () := by cases ov <;> rfl
theorem q_ok (v : α) (e : ρ) : (Flow.question (RResult.ok v) e : Flow α ρ) = Flow.next v := rfl
theorem q_err (e : ρ) : (Flow.question (RResult.err : RResult α) e : Flow α ρ) = Flow.ret e := rfl
end flow

/-- the context string of `session_sub_key`, byte for byte -/
theorem session_ctx_eq :
    ([115, 104, 97, 100, 111, 119, 115, 111, 99, 107, 115, 32, 50, 48, 50, 50, 32, 115, 101, 115, 115, 105, 111, 110, 32, 115, 117, 98, 107, 101, 121] : List UInt8)
      = Ss.sessionSubkeyCtx := by decide +kernel
/-- the context string of the identity sub-key, byte for byte -/
theorem identity_ctx_eq :
    ([115, 104, 97, 100, 111, 119, 115, 111, 99, 107, 115, 32, 50, 48, 50, 50, 32, 105, 100, 101, 110, 116, 105, 116, 121, 32, 115, 117, 98, 107, 101, 121] : List UInt8)
      = Ss.identitySubkeyCtx := by decide +kernel
/-- the HKDF info of the legacy sub-key, byte for byte -/
theorem ss_subkey_eq : ([115, 115, 45, 115, 117, 98, 107, 101, 121] : List UInt8) = Ss.ssSubkeyInfo := by decide +kernel
theorem session_ctx_spec : Ss.sessionSubkeyCtx = Spec.ascii "shadowsocks 2022 session subkey" := rfl
theorem identity_ctx_spec : Ss.identitySubkeyCtx = Spec.ascii "shadowsocks 2022 identity subkey" := rfl

/-! ## Part 2 — `aead_2022.rs` -/

/-- `session_sub_key` = BLAKE3 derive_key under the session context over key ‖ salt -/
theorem session_sub_key_eval (ov : Bool) (E : SsTcpGen.MEnv) (key salt : Bytes) :
    session_sub_key ov (XA E) key salt = .ok (E.C.blake3Derive Ss.sessionSubkeyCtx (key ++ salt)) := by
  simp only [session_sub_key, xa_derive, call_ok, bind_next, run_ret, session_ctx_eq]

theorem keyLen_le_32 (k : Ss.Kind) : k.alg.keyLen ≤ 32 := by cases k <;> decide

/-- DISCHARGES `SsTcpGen.Ext.aead_2022_new_decoder` -/
theorem new_decoder_eq (ov : Bool) (E : SsTcpGen.MEnv) (hC : E.C.Lawful) (kind : SsTcpGen.CipherKind) (key salt : Bytes) :
    new_decoder ov (XA E) kind key salt = (SsTcpGen.XM E).aead_2022_new_decoder kind key salt := by
  have hl := hC.blake3_len Ss.sessionSubkeyCtx (key ++ salt)
  cases hk : SsTcpGen.toKind kind with
  | none => simp [new_decoder, session_sub_key_eval, xa_cm, xa_auth, xa_enc, xa_dec, SsTcpGen.XM, hk, call_ok, call_panic, bind_next, bind_panic, run_panic]
  | some k =>
    have := keyLen_le_32 k
    have h2 : ¬ (E.C.blake3Derive Ss.sessionSubkeyCtx (key ++ salt)).length < k.alg.keyLen := by omega
    simp [new_decoder, session_sub_key_eval, xa_cm, xa_auth, xa_enc, xa_dec, SsTcpGen.XM, hk, call_ok, bind_next, run_ret, h2, SsTcpGen.auth2022, Ss.Auth.new]

/-- DISCHARGES `SsTcpGen.Ext.aead_2022_new_encoder` (payload limit 0xffff) -/
theorem new_encoder_eq (ov : Bool) (E : SsTcpGen.MEnv) (hC : E.C.Lawful) (kind : SsTcpGen.CipherKind) (key salt : Bytes) :
    new_encoder ov (XA E) kind key salt = (SsTcpGen.XM E).aead_2022_new_encoder kind key salt := by
  have hl := hC.blake3_len Ss.sessionSubkeyCtx (key ++ salt)
  cases hk : SsTcpGen.toKind kind with
  | none => simp [new_encoder, session_sub_key_eval, xa_cm, xa_auth, xa_enc, xa_dec, SsTcpGen.XM, hk, call_ok, call_panic, bind_next, bind_panic, run_panic]
  | some k =>
    have := keyLen_le_32 k
    have h2 : ¬ (E.C.blake3Derive Ss.sessionSubkeyCtx (key ++ salt)).length < k.alg.keyLen := by omega
    have h3 : (65535 : Usize) = UInt64.ofNat Consts.ss2022PayloadLimit := by decide
    simp [new_encoder, session_sub_key_eval, xa_cm, xa_auth, xa_enc, xa_dec, SsTcpGen.XM, hk, call_ok, bind_next, run_ret, h2, SsTcpGen.auth2022, Ss.Auth.new, h3]

/-- DISCHARGES `SsTcpGen.Ext.aead_2022_now` (and `SsUdpGen.Ext.aead_2022_now`) -/
theorem now_eq (ov : Bool) (E : SsTcpGen.MEnv) : now ov (XA E) = (SsTcpGen.XM E).aead_2022_now := by
  simp [now, xa_now, xa_since, xa_secs, xa_epoch, SsTcpGen.XM, call_ok, bind_next, q_ok, run_ret]

/-- DISCHARGES `SsTcpGen.Ext.aead_2022_next_padding_length` -/
theorem next_padding_length_eq (ov : Bool) (E : SsTcpGen.MEnv) (msg : Bytes) :
    next_padding_length ov (XA E) msg = (SsTcpGen.XM E).aead_2022_next_padding_length msg := by
  cases msg <;> simp [next_padding_length, xa_rng, SsTcpGen.XM, Cursor.has_remaining, call_ok, bind_next, run_ret]

/-- the RNG is consulted only for an empty payload: for a non-empty one the result is 0 whatever the externals are -/
theorem next_padding_nonempty (ov : Bool) {T : ExtTypes} (X : Ext T) (msg : Bytes) (h : msg ≠ []) :
    next_padding_length ov X msg = .ok 0 := by
  cases msg with
  | nil => exact absurd rfl h
  | cons a t => simp [next_padding_length, Cursor.has_remaining, run_ret]

/-- for an empty payload the result is exactly what the RNG returns for the range `MIN_PADDING_LENGTH ..= MAX_PADDING_LENGTH` = 0 ..= 900 -/
theorem next_padding_empty (ov : Bool) {T : ExtTypes} (X : Ext T) :
    next_padding_length ov X [] = X.rng_random_range_inclusive_u16 0 900 := by
  cases h : X.rng_random_range_inclusive_u16 0 900 <;>
    simp [next_padding_length, Cursor.has_remaining, MIN_PADDING_LENGTH, MAX_PADDING_LENGTH, h, call_ok, call_panic, bind_next, bind_panic, run_ret, run_panic]

theorem window_eq : SERVER_STREAM_TIMESTAMP_MAX_DIFF.toNat = Consts.ssMaxTimeDiff := by decide
theorem window_same : SERVER_STREAM_TIMESTAMP_MAX_DIFF = SsTcpGen.SERVER_STREAM_TIMESTAMP_MAX_DIFF := by decide

/-- `validate_timestamp` (with the translated `now`) is the function `translate_sstcp.py` generates from the same file -/
theorem validate_timestamp_eq (ov : Bool) (E : SsTcpGen.MEnv) (ts : UInt64) :
    validate_timestamp ov (XA E) ts = SsTcpGen.validate_timestamp ov (SsTcpGen.XM E) ts := by
  unfold validate_timestamp SsTcpGen.validate_timestamp
  rw [now_eq]
  simp [SsTcpGen.XM, call_ok, bind_next, q_ok, SsTcpGen.call_ok, SsTcpGen.bind_next, SsTcpGen.q_ok, window_same, U64.abs_diff, SsTcpGen.U64.abs_diff]

/-! ## Part 3 — `aead_2022/tcp.rs`: identity headers -/

theorem ecb1_ok (f : Bytes → Bytes → Bytes) (ks : Nat) (key buf : Bytes) (hk : ks ≤ key.length) (hb : buf.length = 16) :
    ecb1 f ks key buf 16 = .ok (f (key.take ks) buf, ()) := by
  have : ¬ (key.length < ks ∨ buf.length ≠ 16 ∨ 16 ≠ 16) := by omega
  simp only [ecb1, this, if_false]

/-- `make_eih` for a cipher with identity headers: appends AES-ECB(sub_key[..key size], BLAKE3(ipsk)[..16]) = the model's `makeEih` -/
theorem make_eih_eval (ov : Bool) (E : SsTcpGen.MEnv) (hC : E.C.Lawful) (kind : SsTcpGen.CipherKind) (k : Ss.Kind)
    (hk : SsTcpGen.toKind kind = some k) (he : k.supportEih = true) (sub ipsk out : Bytes) (hs : sub.length = 32) :
    tcp_make_eih ov (XA E) kind sub ipsk out = .ok (out ++ Ss.makeEih E.C k sub ipsk, ()) := by
  have hh := hC.blake3h_len ipsk
  have h16 : (16 : Usize).toNat = 16 := by decide
  have hle : (16 : Usize).toNat ≤ (E.C.blake3Hash ipsk).length := by omega
  have hcp : (List.replicate (16 : Usize).toNat (0 : UInt8)).length = ((E.C.blake3Hash ipsk).take (16 : Usize).toNat).length := by
    simp only [List.length_replicate, List.length_take]; omega
  have hb : ((E.C.blake3Hash ipsk).take 16).length = 16 := by simp only [List.length_take]; omega
  cases kind <;> simp [SsTcpGen.toKind] at hk <;> subst hk <;> simp [Ss.Kind.supportEih] at he
  all_goals
    simp [tcp_make_eih, xa_hash, xa_e128, xa_e256, call_ok, bind_next, Flow.slice_to, Flow.copy_from_slice, hh, hs, ecb1, run_ret,
      Cursor.extend_from_slice, Ss.makeEih, Ss.Kind.alg, Alg.keyLen]

/-- DIFFERENCE: for a cipher without identity headers `make_eih` is `unreachable!` — it panics -/
theorem make_eih_panics (ov : Bool) (E : SsTcpGen.MEnv) (hC : E.C.Lawful) (kind : SsTcpGen.CipherKind)
    (he : ∀ k, SsTcpGen.toKind kind = some k → k.supportEih = false) (sub ipsk out : Bytes) :
    tcp_make_eih ov (XA E) kind sub ipsk out = .panic := by
  have hh := hC.blake3h_len ipsk
  have h16 : (16 : Usize).toNat = 16 := by decide
  have hle : (16 : Usize).toNat ≤ (E.C.blake3Hash ipsk).length := by omega
  have hcp : (List.replicate (16 : Usize).toNat (0 : UInt8)).length = ((E.C.blake3Hash ipsk).take (16 : Usize).toNat).length := by
    simp only [List.length_replicate, List.length_take]; omega
  cases kind <;> first
    | (exfalso; have := he _ rfl; simp [Ss.Kind.supportEih] at this; done)
    | simp [tcp_make_eih, xa_hash, call_ok, bind_next, Flow.slice_to, Flow.copy_from_slice, hh, bind_panic, run_panic]

/-- a `for x in list.iter()` loop whose body never leaves the loop, under an invariant of the loop state -/
theorem forEach_spec {τ σ ρ : Type} (P : σ → Prop) (body : τ → σ → Flow σ ρ) (step : τ → σ → σ)
    (h : ∀ x s, P s → body x s = .next (step x s) ∧ P (step x s)) :
    ∀ (l : List τ) (s : σ), P s → Flow.forEach l body s = .next (l.foldl (fun s x => step x s) s)
  | [], s, _ => rfl
  | x :: xs, s, hs => by
    simp only [Flow.forEach, (h x s hs).1, bind_next, List.foldl_cons]
    exact forEach_spec P body step h xs _ (h x s hs).2

/-- one turn of the loop of `with_eih` on the state (dst, sub_key): the header of the PREVIOUS hop (under its own sub-key, naming
this key), then this hop's sub-key -/
def eihStep (C : Crypto) (k : Ss.Kind) (salt ipsk : Bytes) (s : Bytes × Option Bytes) : Bytes × Option Bytes :=
  (match s.2 with
   | some p => s.1 ++ Ss.makeEih C k p ipsk
   | none => s.1, some (C.blake3Derive Ss.identitySubkeyCtx (ipsk ++ salt)))

/-- what follows the loop: the last hop's header names the user key -/
def eihFinish (C : Crypto) (k : Ss.Kind) (key : Bytes) (s : Bytes × Option Bytes) : Bytes :=
  match s.2 with
  | some p => s.1 ++ Ss.makeEih C k p key
  | none => s.1

theorem eih_fold_some (C : Crypto) (k : Ss.Kind) (key salt : Bytes) : ∀ (l : List Bytes) (p dst : Bytes),
    eihFinish C k key (l.foldl (fun s x => eihStep C k salt x s) (dst, some (C.blake3Derive Ss.identitySubkeyCtx (p ++ salt))))
      = dst ++ Ss.withEih C k key salt (p :: l)
  | [], p, dst => by simp [eihFinish, Ss.withEih]
  | n :: r, p, dst => by
    rw [List.foldl_cons]
    have h1 : eihStep C k salt n (dst, some (C.blake3Derive Ss.identitySubkeyCtx (p ++ salt))) =
        (dst ++ Ss.makeEih C k (C.blake3Derive Ss.identitySubkeyCtx (p ++ salt)) n, some (C.blake3Derive Ss.identitySubkeyCtx (n ++ salt))) := rfl
    rw [h1, eih_fold_some C k key salt r n]
    simp [Ss.withEih, List.append_assoc]

theorem eih_fold (C : Crypto) (k : Ss.Kind) (key salt : Bytes) (l : List Bytes) (dst : Bytes) :
    eihFinish C k key (l.foldl (fun s x => eihStep C k salt x s) (dst, none)) = dst ++ Ss.withEih C k key salt l := by
  cases l with
  | nil => simp [eihFinish, Ss.withEih]
  | cons p r =>
    rw [List.foldl_cons]
    exact eih_fold_some C k key salt r p dst

/-- `with_eih` = the model's `withEih`, for every chain length -/
theorem with_eih_eval (ov : Bool) (E : SsTcpGen.MEnv) (hC : E.C.Lawful) (kind : SsTcpGen.CipherKind) (k : Ss.Kind)
    (hk : SsTcpGen.toKind kind = some k) (he : k.supportEih = true) (key salt dst : Bytes) (iks : List Bytes) :
    tcp_with_eih ov (XA E) kind key iks salt dst = .ok (dst ++ Ss.withEih E.C k key salt iks, ()) := by
  simp only [tcp_with_eih]
  rw [forEach_spec (fun s : Bytes × Option Bytes => ∀ p, s.2 = some p → p.length = 32) _ (eihStep E.C k salt)]
  · simp only [bind_next]
    rw [← eih_fold]
    generalize hst : (List.foldl (fun s x => eihStep E.C k salt x s) (dst, none) iks) = st
    have hinv : ∀ p, st.2 = some p → p.length = 32 := by
      subst hst
      have : ∀ (l : List Bytes) (s : Bytes × Option Bytes), (∀ p, s.2 = some p → p.length = 32) →
          ∀ p, (List.foldl (fun s x => eihStep E.C k salt x s) s l).2 = some p → p.length = 32 := by
        intro l
        induction l with
        | nil => intro s hs; simpa using hs
        | cons x xs ih =>
          intro s hs
          simp only [List.foldl_cons]
          apply ih
          intro p hp
          simp only [eihStep, Option.some.injEq] at hp
          rw [← hp]; exact hC.blake3_len _ _
      exact this iks _ (by intro p hp; simp at hp)
    obtain ⟨d, sk⟩ := st
    cases sk with
    | none => simp [eihFinish, bind_next, run_ret]
    | some p =>
      have hp := hinv p rfl
      simp only [make_eih_eval ov E hC kind k hk he p key d hp, call_ok, bind_next, run_ret, eihFinish]
  · intro x s hs
    obtain ⟨d, sk⟩ := s
    refine ⟨?_, ?_⟩
    · cases sk with
      | none => simp only [bind_next, xa_derive, call_ok, identity_ctx_eq, eihStep]
      | some p =>
        have hp := hs p rfl
        simp only [make_eih_eval ov E hC kind k hk he p x d hp, call_ok, bind_next, xa_derive, identity_ctx_eq, eihStep]
    · intro p hp
      simp only [eihStep, Option.some.injEq] at hp
      rw [← hp]; exact hC.blake3_len _ _
  · intro p hp; simp at hp

/-- DISCHARGES `SsTcpGen.Ext.aead_2022_tcp_with_eih` for the ciphers with identity headers (the only ones `tcp.rs` calls it for) -/
theorem with_eih_eq (ov : Bool) (E : SsTcpGen.MEnv) (hC : E.C.Lawful) (kind : SsTcpGen.CipherKind) (k : Ss.Kind)
    (hk : SsTcpGen.toKind kind = some k) (he : k.supportEih = true) (key salt dst : Bytes) (iks : List Bytes) :
    tcp_with_eih ov (XA E) kind key iks salt dst = (SsTcpGen.XM E).aead_2022_tcp_with_eih kind key iks salt dst := by
  rw [with_eih_eval ov E hC kind k hk he]
  simp [SsTcpGen.XM, hk]

/-- DIFFERENCE: for a cipher WITHOUT identity headers and a non-empty chain the real `with_eih` panics (`unreachable!`), where the
instantiation `XM` returns headers; with an empty chain both leave `dst` alone -/
theorem with_eih_panics (ov : Bool) (E : SsTcpGen.MEnv) (hC : E.C.Lawful) (kind : SsTcpGen.CipherKind)
    (he : ∀ k, SsTcpGen.toKind kind = some k → k.supportEih = false) (key salt dst ipsk : Bytes) :
    tcp_with_eih ov (XA E) kind key [ipsk] salt dst = .panic := by
  simp only [tcp_with_eih, Flow.forEach, bind_next, xa_derive, call_ok, make_eih_panics ov E hC kind he, call_panic, bind_panic, run_panic]

theorem with_eih_empty (ov : Bool) {T : ExtTypes} (X : Ext T) (kind : SsTcpGen.CipherKind) (key salt dst : Bytes) :
    tcp_with_eih ov X kind key [] salt dst = .ok (dst, ()) := by
  simp only [tcp_with_eih, Flow.forEach, bind_next, run_ret]

/-- DISCHARGES `SsTcpGen.Ext.aead_2022_tcp_new_decoder_with_eih`: the identity header is decrypted under the identity sub-key of the
server key and the salt, the user is looked up by the decrypted hash — always through the table — and the decoder is keyed with the
user's key.  Guards: the header has its 16 bytes (shorter: `&eih[..16]` panics), the cipher is not `Unknown`. -/
theorem new_decoder_with_eih_eq (ov : Bool) (E : SsTcpGen.MEnv) (hC : E.C.Lawful) (kind : SsTcpGen.CipherKind) (k : Ss.Kind)
    (hk : SsTcpGen.toKind kind = some k) (key salt eih : Bytes) (identity : SsTcpGen.Identity) (users : List SsTcpGen.ServerUser)
    (hl : 16 ≤ eih.length) :
    tcp_new_decoder_with_eih ov (XA E) kind key salt eih identity users =
      (SsTcpGen.XM E).aead_2022_tcp_new_decoder_with_eih kind key salt eih identity users := by
  have hd := hC.blake3_len Ss.identitySubkeyCtx (key ++ salt)
  have h16 : (16 : Usize).toNat = 16 := by decide
  have hle : (16 : Usize).toNat ≤ eih.length := by omega
  have hcp : (List.replicate (16 : Usize).toNat (0 : UInt8)).length = (eih.take (16 : Usize).toNat).length := by
    simp only [List.length_replicate, List.length_take]; omega
  have hb : (eih.take 16).length = 16 := by simp only [List.length_take]; omega
  cases kind <;> simp [SsTcpGen.toKind] at hk <;> subst hk
  all_goals
    simp only [SsTcpGen.XM, SsTcpGen.toKind, Ss.Kind.supportEih, if_true, if_false, Bool.false_eq_true]
  all_goals try rw [show Ss.Kind.b3aes128.alg.keyLen = 16 from rfl]
  all_goals try rw [show Ss.Kind.b3aes256.alg.keyLen = 32 from rfl]
  all_goals
    simp [tcp_new_decoder_with_eih, xa_derive, xa_d128, xa_d256, xa_user, identity_ctx_eq, Flow.slice_to, Flow.copy_from_slice,
      hl, Nat.min_eq_left hl, ecb1, hd, bind_next, call_ok, bind_ret, run_ret]
  all_goals
    split
    · rename_i hf; rw [hf]; simp [new_decoder_eq ov E hC, SsTcpGen.XM, SsTcpGen.toKind, call_ok, bind_next, run_ret]
    · rename_i hf; rw [hf]; simp [run_ret]

/-- DIFFERENCE: an identity header shorter than 16 bytes makes the real function panic (`&eih[..16]`); `XM` does not -/
theorem new_decoder_with_eih_short (ov : Bool) (E : SsTcpGen.MEnv) (kind : SsTcpGen.CipherKind) (key salt eih : Bytes)
    (identity : SsTcpGen.Identity) (users : List SsTcpGen.ServerUser) (hl : eih.length < 16) :
    tcp_new_decoder_with_eih ov (XA E) kind key salt eih identity users = .panic := by
  have hle : ¬ (16 : Usize).toNat ≤ eih.length := by
    have : (16 : Usize).toNat = 16 := by decide
    omega
  simp only [tcp_new_decoder_with_eih, xa_derive, call_ok, bind_next, Flow.slice_to, hle, if_false, bind_panic, run_panic]

/-- DIFFERENCE: for `CipherKind::Unknown` the real function returns `Err` (`bail!`), `XM` panics -/
theorem new_decoder_with_eih_unknown (ov : Bool) (E : SsTcpGen.MEnv) (key salt eih : Bytes)
    (identity : SsTcpGen.Identity) (users : List SsTcpGen.ServerUser) (hl : 16 ≤ eih.length) :
    tcp_new_decoder_with_eih ov (XA E) .Unknown key salt eih identity users = .ok (identity, .err) := by
  have hle : (16 : Usize).toNat ≤ eih.length := by
    have : (16 : Usize).toNat = 16 := by decide
    omega
  have hcp : (List.replicate (16 : Usize).toNat (0 : UInt8)).length = (eih.take (16 : Usize).toNat).length := by
    simp only [List.length_replicate, List.length_take]; omega
  simp only [tcp_new_decoder_with_eih, xa_derive, call_ok, bind_next, Flow.slice_to, hle, if_true, Flow.copy_from_slice, hcp, bind_ret, run_ret]

/-! ## Part 4 — `aead_2022/tcp.rs`: `new_header` -/

theorem beBytes_eight (n : Nat) : beBytes 8 n = be64 n := by
  simp [beBytes, be64, be32, u8, Nat.div_div_eq_div_mul]

theorem beBytes_two' (n : Nat) : beBytes 2 n = be16 n := by
  simp [beBytes, be16, u8]

theorem to_u8_eval (ov : Bool) (m : SsTcpGen.Mode) : SsTcpGen.Mode.to_u8 ov m = .ok (SsTcpGen.toMode m).toU8 := by cases m <;> rfl

theorem now_eval (ov : Bool) (E : SsTcpGen.MEnv) : now ov (XA E) = .ok (.ok (UInt64.ofNat E.now)) := by
  rw [now_eq]; rfl

/-- DISCHARGES `SsTcpGen.Ext.aead_2022_tcp_new_header`: fixed header = type ‖ u64 timestamp ‖ [request salt] ‖ u16 length, sealed; the
variable header = the first `min(len, 0xffff)` bytes of the message, sealed; returned separately.  Guards: lengths fit a `usize`, the
clock fits a `u64`. -/
theorem new_header_eq (ov : Bool) (E : SsTcpGen.MEnv) (hC : E.C.Lawful) (a : Ss.Auth) (msg : Bytes) (mode : SsTcpGen.Mode)
    (rs : Option Bytes) (hm : msg.length < 2 ^ 64) (hs : (rs.getD []).length + 11 < 2 ^ 64) (hn : E.now < 2 ^ 64) :
    tcp_new_header ov (XA E) a msg mode rs = (SsTcpGen.XM E).aead_2022_tcp_new_header a msg mode rs := by
  have hnow : (UInt64.ofNat E.now).toNat = E.now := by simp [UInt64.toNat_ofNat']; omega
  have hrem : (Cursor.remaining msg).toNat = msg.length := by simp [Cursor.remaining, UInt64.toNat_ofNat']; omega
  have hmin : (Usize.min (Cursor.remaining msg) (65535 : Usize)).toNat = min msg.length 65535 := by
    unfold Usize.min
    by_cases h : Cursor.remaining msg ≤ (65535 : Usize)
    · have h' : msg.length ≤ 65535 := by have := UInt64.le_iff_toNat_le.mp h; rw [hrem] at this; simpa using this
      rw [if_pos h, hrem]; omega
    · have h' : ¬ msg.length ≤ 65535 := by
        intro x; apply h; apply UInt64.le_iff_toNat_le.mpr; rw [hrem]; simpa using x
      rw [if_neg h]; simp; omega
  have hle : (Usize.min (Cursor.remaining msg) (65535 : Usize)).toNat ≤ msg.length := by rw [hmin]; omega
  have h16 : (Usize.as_u16 (Usize.min (Cursor.remaining msg) (65535 : Usize))).toNat = min msg.length 65535 := by
    simp only [Usize.as_u16, hmin, UInt16.toNat_ofNat']; omega
  have hsl : ∀ f p, (Ss.Auth.sealB E.C f p).1.length = p.length + 16 := by
    intro f p; simp [Ss.Auth.sealB, hC.seal_len]
  cases rs with
  | none =>
    simp only [tcp_new_header, to_u8_eval, now_eval, xa_seal, call_ok, bind_next, q_ok, Flow.split_to, hle, if_true, run_ret,
      U64.addOk, Cursor.put_u8, Cursor.put_u64, Cursor.put_u16, Cursor.extend_from_slice, hnow, h16, beBytes_eight, beBytes_two,
      SsTcpGen.XM, Ss.newHeader, hmin, Option.getD]
    simp [arith_true, bind_next, run_ret, hsl, Cursor.len, Nat.min_le_left, beBytes_two']
  | some salt =>
    have hsl' : salt.length + 11 < 2 ^ 64 := by simpa using hs
    have hlen : (Cursor.len salt).toNat = salt.length := by simp [Cursor.len, UInt64.toNat_ofNat']; omega
    have ha : U64.addOk ((1 : Usize) + (8 : Usize)) (Cursor.len salt) = true := by
      simp [U64.addOk, hlen]; omega
    have hb : U64.addOk (((1 : Usize) + (8 : Usize)) + Cursor.len salt) (2 : Usize) = true := by
      have : (((1 : Usize) + (8 : Usize)) + Cursor.len salt).toNat = 9 + salt.length := by
        rw [UInt64.toNat_add, hlen]; simp; omega
      simp [U64.addOk, this]; omega
    simp only [tcp_new_header, to_u8_eval, now_eval, xa_seal, call_ok, bind_next, q_ok, Flow.split_to, hle, if_true, run_ret,
      Cursor.put_u8, Cursor.put_u64, Cursor.put_u16, Cursor.extend_from_slice, hnow, h16, beBytes_eight, beBytes_two,
      SsTcpGen.XM, Ss.newHeader, hmin, Option.getD, ha, hb]
    have hfl : ∀ f, (Ss.Auth.sealB E.C f ((SsTcpGen.toMode mode).toU8 :: (be64 E.now ++ (salt ++ be16 (min msg.length 65535))))).1.length
        = 9 + salt.length + 2 + 16 := by
      intro f; rw [hsl]; simp; omega
    simp [U64.addOk, arith_true, bind_next, run_ret, Nat.min_le_left, beBytes_two', List.take_left' (hfl _), List.drop_left' (hfl _)]

/-! ## Part 5 — `aead.rs` (legacy: HKDF-SHA1, info "ss-subkey") -/

theorem hkdfsha1_eval (ov : Bool) (E : SsTcpGen.MEnv) (ikm salt : Bytes) (hs : salt.length ≤ 5100) :
    aead_hkdfsha1 ov (XA E) ikm salt = .ok (.ok (E.C.hkdfSha1 salt ikm Ss.ssSubkeyInfo salt.length)) := by
  have hlen : (Cursor.len salt).toNat = salt.length := by simp [Cursor.len, UInt64.toNat_ofNat']; omega
  simp [aead_hkdfsha1, xa_hk, xa_expand, call_ok, bind_next, q_ok, run_ret, hlen, hs, ss_subkey_eq]

/-- DIFFERENCE: a salt longer than 255 SHA-1 lengths makes HKDF-expand fail: `Err(InvalidLength)`, where `XM` never fails -/
theorem hkdfsha1_too_long (ov : Bool) (E : SsTcpGen.MEnv) (ikm salt : Bytes) (hs : 5100 < salt.length) (hs2 : salt.length < 2 ^ 64) :
    aead_hkdfsha1 ov (XA E) ikm salt = .ok .err := by
  have hlen : (Cursor.len salt).toNat = salt.length := by simp [Cursor.len, UInt64.toNat_ofNat']; omega
  have : ¬ salt.length ≤ 5100 := by omega
  simp [aead_hkdfsha1, xa_hk, xa_expand, call_ok, bind_next, q_err, bind_ret, run_ret, hlen, this]

/-- DISCHARGES `SsTcpGen.Ext.aead_new_decoder`, under the guards key size ≤ salt length ≤ 5100 (in the code salt length = N = key size) -/
theorem aead_new_decoder_eq (ov : Bool) (E : SsTcpGen.MEnv) (hC : E.C.Lawful) (kind : SsTcpGen.CipherKind) (k : Ss.Kind)
    (hk : SsTcpGen.toKind kind = some k) (key salt : Bytes) (h1 : k.alg.keyLen ≤ salt.length) (h2 : salt.length ≤ 5100) :
    aead_new_decoder ov (XA E) kind key salt = (SsTcpGen.XM E).aead_new_decoder kind key salt := by
  have hl := hC.hkdf_len salt key Ss.ssSubkeyInfo salt.length
  have h3 : ¬ (E.C.hkdfSha1 salt key Ss.ssSubkeyInfo salt.length).length < k.alg.keyLen := by omega
  simp [aead_new_decoder, aead_new_auth, hkdfsha1_eval ov E key salt h2, xa_cm, xa_auth, xa_dec, hk, h3, call_ok, bind_next, q_ok, run_ret,
    SsTcpGen.XM, Ss.Auth.new]

/-- DISCHARGES `SsTcpGen.Ext.aead_new_encoder` (payload limit 0x3fff + 16 + 2 + 16), same guards -/
theorem aead_new_encoder_eq (ov : Bool) (E : SsTcpGen.MEnv) (hC : E.C.Lawful) (kind : SsTcpGen.CipherKind) (k : Ss.Kind)
    (hk : SsTcpGen.toKind kind = some k) (key salt : Bytes) (h1 : k.alg.keyLen ≤ salt.length) (h2 : salt.length ≤ 5100) :
    aead_new_encoder ov (XA E) kind key salt = (SsTcpGen.XM E).aead_new_encoder kind key salt := by
  have hl := hC.hkdf_len salt key Ss.ssSubkeyInfo salt.length
  have h3 : ¬ (E.C.hkdfSha1 salt key Ss.ssSubkeyInfo salt.length).length < k.alg.keyLen := by omega
  have h4 : ((((16383 : Usize) + (16 : Usize)) + (2 : Usize)) + (16 : Usize)) = UInt64.ofNat Consts.ssLegacyPayloadLimit := by decide
  have a1 : U64.addOk (16383 : Usize) (16 : Usize) = true := by decide
  have a2 : U64.addOk ((16383 : Usize) + (16 : Usize)) (2 : Usize) = true := by decide
  have a3 : U64.addOk (((16383 : Usize) + (16 : Usize)) + (2 : Usize)) (16 : Usize) = true := by decide
  simp only [aead_new_encoder, aead_new_auth, hkdfsha1_eval ov E key salt h2, xa_cm, xa_auth, xa_enc, hk, h3, call_ok, bind_next, q_ok, run_ret,
    a1, a2, a3, arith_true, h4, if_false]
  simp [SsTcpGen.XM, hk, Ss.Auth.new]

/-- DIFFERENCE: a salt shorter than the key makes the real `new_decoder` panic (`&key[..key size]` in `CipherMethod::new`); `XM` does not -/
theorem aead_new_decoder_short_salt (ov : Bool) (E : SsTcpGen.MEnv) (hC : E.C.Lawful) (kind : SsTcpGen.CipherKind) (k : Ss.Kind)
    (hk : SsTcpGen.toKind kind = some k) (key salt : Bytes) (h1 : salt.length < k.alg.keyLen) :
    aead_new_decoder ov (XA E) kind key salt = .panic := by
  have hl := hC.hkdf_len salt key Ss.ssSubkeyInfo salt.length
  have := keyLen_le_32 k
  have h3 : (E.C.hkdfSha1 salt key Ss.ssSubkeyInfo salt.length).length < k.alg.keyLen := by omega
  simp [aead_new_decoder, aead_new_auth, hkdfsha1_eval ov E key salt (by omega), xa_cm, hk, h3, call_ok, call_panic, bind_next, bind_panic, q_ok, run_panic]

/-! ## Part 6 — `aead_2022/udp.rs` -/

/-- `SsUdpGen` declares its own copy of `CipherKind` (same source, same order) -/
def ofUdpKind : SsUdpGen.CipherKind → SsTcpGen.CipherKind
  | .Aes128Gcm => .Aes128Gcm
  | .Aes256Gcm => .Aes256Gcm
  | .ChaCha20Poly1305 => .ChaCha20Poly1305
  | .Aead2022Blake3Aes128Gcm => .Aead2022Blake3Aes128Gcm
  | .Aead2022Blake3Aes256Gcm => .Aead2022Blake3Aes256Gcm
  | .Aead2022Blake3ChaCha8Poly1305 => .Aead2022Blake3ChaCha8Poly1305
  | .Aead2022Blake3ChaCha20Poly1305 => .Aead2022Blake3ChaCha20Poly1305
  | .Unknown => .Unknown

theorem toKind_ofUdp (kind : SsUdpGen.CipherKind) : SsTcpGen.toKind (ofUdpKind kind) = SsUdpGen.toKind kind := by cases kind <;> rfl

/-- the environment of `SsUdpGen.XM` inside the one of `SsTcpGen.XM` -/
def udpEnv (E : SsTcpGen.MEnv) : SsUdpGen.MEnv := { C := E.C, now := E.now, trace := E.trace }

/-- DISCHARGES `SsUdpGen.Ext.udp_nonce_length` (no side condition) -/
theorem udp_nonce_length_eq (ov : Bool) (E : SsTcpGen.MEnv) (kind : SsUdpGen.CipherKind) :
    udp_nonce_length ov (XA E) (ofUdpKind kind) = (SsUdpGen.XM (udpEnv E)).udp_nonce_length kind := by
  cases kind <;> simp [udp_nonce_length, ofUdpKind, SsUdpGen.XM, SsUdpGen.toKind, xa_n8, xa_n20, run_ret, run_panic, Ss.Kind.is2022, SsUdp.nonceLen, SsUdp.xAlg]

/-- DISCHARGES `SsUdpGen.Ext.udp_aes_decrypt_in_place`, under the guards: the key has the cipher's key size and the buffer is one block -/
theorem udp_aes_decrypt_in_place_eq (ov : Bool) (E : SsTcpGen.MEnv) (kind : SsUdpGen.CipherKind) (key buf : Bytes)
    (hk : ∀ k, SsUdpGen.toKind kind = some k → k.supportEih = true → key.length = k.alg.keyLen) (hb : buf.length = 16) :
    udp_aes_decrypt_in_place ov (XA E) (ofUdpKind kind) key buf = (SsUdpGen.XM (udpEnv E)).udp_aes_decrypt_in_place kind key buf := by
  cases kind <;>
    simp [udp_aes_decrypt_in_place, ofUdpKind, SsUdpGen.XM, SsUdpGen.toKind, Ss.Kind.supportEih, run_ret, udpEnv] <;>
    (have h := hk _ rfl rfl; simp [Ss.Kind.alg, Alg.keyLen] at h;
     simp [xa_a128, xa_a256, xa_db128, xa_db256, h, hb, call_ok, bind_next, q_ok, Flow.block_of, run_ret])

/-- DIFFERENCE: a key of the wrong length → the real function returns `Err` (buffer untouched), `XM` decrypts -/
theorem udp_aes_decrypt_wrong_key (ov : Bool) (E : SsTcpGen.MEnv) (key buf : Bytes) (hk : key.length ≠ 16) :
    udp_aes_decrypt_in_place ov (XA E) .Aead2022Blake3Aes128Gcm key buf = .ok (buf, .err) := by
  simp [udp_aes_decrypt_in_place, xa_a128, hk, call_ok, bind_next, q_err, bind_ret, run_ret]

/-- DIFFERENCE: a buffer that is not one block → the real function panics (`Block::from_mut_slice`), `XM` decrypts -/
theorem udp_aes_decrypt_wrong_block (ov : Bool) (E : SsTcpGen.MEnv) (key buf : Bytes) (hk : key.length = 16) (hb : buf.length ≠ 16) :
    udp_aes_decrypt_in_place ov (XA E) .Aead2022Blake3Aes128Gcm key buf = .panic := by
  simp [udp_aes_decrypt_in_place, xa_a128, hk, hb, call_ok, bind_next, q_ok, Flow.block_of, bind_panic, run_panic]

/-- `aes_encrypt_in_place`: one AES block under the whole key (key of the cipher's size, buffer of one block) -/
theorem udp_aes_encrypt_in_place_eval (ov : Bool) (E : SsTcpGen.MEnv) (kind : SsTcpGen.CipherKind) (k : Ss.Kind)
    (hk : SsTcpGen.toKind kind = some k) (he : k.supportEih = true) (key buf : Bytes) (hkl : key.length = k.alg.keyLen) (hb : buf.length = 16) :
    udp_aes_encrypt_in_place ov (XA E) kind key buf = .ok (E.C.aesEnc key buf, .ok ()) := by
  cases kind <;> simp [SsTcpGen.toKind] at hk <;> subst hk <;> simp [Ss.Kind.supportEih] at he <;>
    simp [Ss.Kind.alg, Alg.keyLen] at hkl <;>
    simp [udp_aes_encrypt_in_place, xa_a128, xa_a256, xa_eb128, xa_eb256, hkl, hb, call_ok, bind_next, q_ok, Flow.block_of, run_ret]

/-- DISCHARGES `SsUdpGen.Ext.get_cipher` up to its cache (`get_cipher` = `new_cipher` behind an LRU cache): `new_cipher` is the AEAD under
the session sub-key of (key, session id) for the AES kinds, under the first 32 key bytes for the XChaCha kinds (guard: 32 ≤ key length) -/
theorem udp_new_cipher_eq (ov : Bool) (E : SsTcpGen.MEnv) (hC : E.C.Lawful) (kind : SsUdpGen.CipherKind) (key : Bytes) (sid : UInt64)
    (hk : 32 ≤ key.length) :
    udp_new_cipher ov (XA E) (ofUdpKind kind) key sid = (SsUdpGen.XM (udpEnv E)).get_cipher kind key sid := by
  have hl := hC.blake3_len Ss.sessionSubkeyCtx (key ++ be64 sid.toNat)
  have h32 : (32 : Usize).toNat = 32 := by decide
  cases kind <;>
    simp [udp_new_cipher, ofUdpKind, SsUdpGen.XM, SsUdpGen.toKind, Ss.Kind.is2022, run_panic, udpEnv, SsUdp.xAlg, session_sub_key_eval,
      beBytes_eight, xa_cm, xa_k8, xa_k20, xa_x8, xa_x20, xa_cx8, xa_cx20, SsTcpGen.toKind, call_ok, bind_next, run_ret, hl, Ss.Kind.alg, Alg.keyLen,
      SsUdp.aesSessionKey, Flow.slice_to, Flow.exact_len, hk, Nat.min_eq_left hk]

end Octo.Ss2022AuxGen
