import Octo.Gen.HandshakeGen
import Octo.Proofs.AddrGen
import Octo.Proofs.Handshake
/-!
  The generated code (`Octo.HandshakeGen`, written by `translate_handshake.py` from
  `octo-squirrel-client/src/client/handshake.rs`) equals the hand-written model `Octo.Hs` (`Octo/Model/Handshake.lean`).

  Part 1: the `std` string operations of the generated support section = the byte-list functions of the model
          (`find` / `rfind` / `find("://")` / the scheme-byte predicate / `parse::<u16>`).
  Part 2: char boundaries: which range indexings cannot panic (`Flow.strTo` at a byte that is not a continuation byte,
          `Flow.strFrom` just after an ASCII byte of a string satisfying `OkAfterAscii`, which every valid UTF-8 string does).
  Part 3: `recognize_http` cut into its five statements (`recognize_http_stages`, by `rfl`), each evaluated in closed form.
  Part 4: `recognize_http` = `Hs.recognizeHttp`, `check_address` = `Hs.admitHost`, for both overflow profiles; the precise
          guard, and what happens outside it.
-/
set_option linter.unusedSimpArgs false
namespace Octo.HandshakeGen
open Octo Octo.PWGen Octo.AddrGen

/-! ## Part 1 — library operations = model functions -/

theorem findByte_eq (c : UInt8) (s : List UInt8) : Str.findByte c s = Hs.findByte c s := by
  induction s with
  | nil => rfl
  | cons x r ih => simp [Str.findByte, Hs.findByte, ih]

theorem rfindByte_eq (c : UInt8) (s : List UInt8) : Str.rfindByte c s = Hs.rfindByte c s := by
  induction s with
  | nil => rfl
  | cons x r ih =>
    rw [Str.rfindByte, Hs.rfindByte, ih]
    cases Hs.rfindByte c r <;> rfl

theorem ch_colon : Hs.ch ':' = 58 := by decide
theorem ch_slash : Hs.ch '/' = 47 := by decide
theorem ch_query : Hs.ch '?' = 63 := by decide
theorem ch_rbracket : Hs.ch ']' = 93 := by decide
theorem ch_plus : Hs.ch '+' = 43 := by decide
theorem str_connect : Hs.str "CONNECT" = [67, 79, 78, 78, 69, 67, 84] := by decide +kernel

theorem findSub_eq (s : List UInt8) : Str.findSub [58, 47, 47] s = Hs.findSep s := by
  induction s with
  | nil => rfl
  | cons x r ih => simp [Str.findSub, Hs.findSep, ih, ch_colon, ch_slash]

theorem byte_cases (P : UInt8 → Prop) (h : ∀ n, n < 256 → P (UInt8.ofNat n)) (b : UInt8) : P b := by
  have := h b.toNat b.toNat_lt
  rwa [UInt8.ofNat_toNat] at this

theorem schemeByteOk_eq (b : UInt8) :
    ((U8.is_ascii_alphanumeric b) || (b == (43 : UInt8) || b == (45 : UInt8) || b == (46 : UInt8))) = Hs.schemeByteOk b := by
  revert b; apply byte_cases; decide +kernel

theorem isDigit_eq (b : UInt8) : U8.is_ascii_digit b = Hs.isDigit b := by
  revert b; apply byte_cases; decide +kernel

theorem is_cont_of_lt (b : UInt8) (h : b.toNat < 128) : U8.is_cont b = false := by
  simp [U8.is_cont]; omega

/-- the model's left fold over decimal digits -/
def digitsVal (acc : Nat) (d : List UInt8) : Nat := d.foldl (fun acc x => acc * 10 + (x.toNat - 48)) acc

theorem digitsVal_ge (acc : Nat) (d : List UInt8) : acc ≤ digitsVal acc d := by
  induction d generalizing acc with
  | nil => exact Nat.le_refl _
  | cons x r ih =>
    have := ih (acc * 10 + (x.toNat - 48))
    simp only [digitsVal, List.foldl_cons] at this ⊢
    omega

theorem parseDigits_eq (acc : Nat) (ha : acc ≤ 65535) (d : List UInt8) :
    Str.parseDigits acc d = if d.all Hs.isDigit = true ∧ digitsVal acc d ≤ 65535 then some (digitsVal acc d) else none := by
  induction d generalizing acc with
  | nil => simp [Str.parseDigits, digitsVal, ha]
  | cons x r ih =>
    simp only [Str.parseDigits, isDigit_eq, List.all_cons, Bool.and_eq_true]
    by_cases hx : Hs.isDigit x = true
    · simp only [hx, if_true, true_and]
      have e : digitsVal acc (x :: r) = digitsVal (acc * 10 + (x.toNat - 48)) r := rfl
      by_cases hv : acc * 10 + (x.toNat - 48) ≤ 65535
      · simp only [hv, if_true, ih _ hv, e]
      · have := digitsVal_ge (acc * 10 + (x.toNat - 48)) r
        have h2 : ¬ (r.all Hs.isDigit = true ∧ digitsVal acc (x :: r) ≤ 65535) := by rw [e]; omega
        simp only [hv, if_false, h2]
    · simp [hx]

/-- `parse::<u16>()` of the generated support = `Hs.parseU16` of the model -/
theorem parse_u16_eq (s : List UInt8) :
    Str.parse_u16 s = match Hs.parseU16 s with | some v => .ok (UInt16.ofNat v) | none => .err := by
  cases s with
  | nil => simp [Str.parse_u16, Hs.parseU16]
  | cons c r =>
    simp only [Str.parse_u16, Hs.parseU16, ch_plus]
    generalize (if c = 43 then r else c :: r) = d
    cases d with
    | nil => simp
    | cons y t =>
      have e : digitsVal 0 (y :: t) = List.foldl (fun acc x => acc * 10 + (x.toNat - 48)) 0 (y :: t) := rfl
      rw [parseDigits_eq 0 (by decide)]
      simp only [List.isEmpty_cons, Bool.false_eq_true, false_or, if_false, e]
      by_cases h1 : (y :: t).all Hs.isDigit = true
      · by_cases h2 : List.foldl (fun acc x => acc * 10 + (x.toNat - 48)) 0 (y :: t) ≤ 65535
        · simp [h1, h2]; rfl
        · simp [h1, h2]; rfl
      · simp [h1]

theorem parseU16_le (s : List UInt8) (v : Nat) (h : Hs.parseU16 s = some v) : v ≤ 65535 := by
  simp only [Hs.parseU16] at h
  repeat' split at h
  all_goals first | (cases h; done) | (injection h with h; subst h; assumption)

/-! ## Part 2 — char boundaries -/

/-- no continuation byte directly after an ASCII byte: all that the absence of panics needs of UTF-8 validity -/
def OkAfterAscii (s : List UInt8) : Prop :=
  ∀ k a b, s[k]? = some a → s[k + 1]? = some b → a.toNat < 128 → U8.is_cont b = false

theorem OkAfterAscii.take {s : List UInt8} (h : OkAfterAscii s) (n : Nat) : OkAfterAscii (s.take n) := by
  intro k a b ha hb hlt
  rw [List.getElem?_take] at ha hb
  split at ha <;> split at hb <;> first | exact h k a b ha hb hlt | cases ha | cases hb

theorem OkAfterAscii.drop {s : List UInt8} (h : OkAfterAscii s) (n : Nat) : OkAfterAscii (s.drop n) := by
  intro k a b ha hb hlt
  rw [List.getElem?_drop] at ha hb
  exact h (n + k) a b ha (by rw [Nat.add_assoc]; exact hb) hlt

theorem boundary_at_byte (s : List UInt8) (k : Nat) (b : UInt8) (h : s[k]? = some b) (hb : U8.is_cont b = false) :
    Str.is_char_boundary s k = true := by
  unfold Str.is_char_boundary
  split
  · rfl
  · simp [h, hb]

theorem boundary_at_len (s : List UInt8) : Str.is_char_boundary s s.length = true := by
  unfold Str.is_char_boundary
  split
  · rfl
  · simp

theorem boundary_after_ascii (s : List UInt8) (hs : OkAfterAscii s) (k : Nat) (a : UInt8) (h : s[k]? = some a)
    (ha : a.toNat < 128) : Str.is_char_boundary s (k + 1) = true := by
  cases hb : s[k + 1]? with
  | some b => exact boundary_at_byte s (k + 1) b hb (hs k a b h hb ha)
  | none =>
    have h1 : k < s.length := (List.getElem?_eq_some_iff.1 h).1
    have h2 : s.length ≤ k + 1 := List.getElem?_eq_none_iff.1 hb
    have : k + 1 = s.length := by omega
    rw [this]; exact boundary_at_len s

theorem toNat_ofNat_lt (n : Nat) (h : n < 2 ^ 64) : (UInt64.ofNat n).toNat = n :=
  UInt64.toNat_ofNat_of_lt' h

theorem strTo_eval {ρ : Type} (s : List UInt8) (n : Nat) (hn : n < 2 ^ 64) (hb : Str.is_char_boundary s n = true) :
    (Flow.strTo s (UInt64.ofNat n) : Flow Str ρ) = .next (s.take n) := by
  simp [Flow.strTo, toNat_ofNat_lt n hn, hb]

theorem strFrom_eval {ρ : Type} (s : List UInt8) (n : Nat) (hn : n < 2 ^ 64) (hb : Str.is_char_boundary s n = true) :
    (Flow.strFrom s (UInt64.ofNat n) : Flow Str ρ) = .next (s.drop n) := by
  simp [Flow.strFrom, toNat_ofNat_lt n hn, hb]

theorem strRange_eval {ρ : Type} (s : List UInt8) (i j : Nat) (hi : i < 2 ^ 64) (hj : j < 2 ^ 64) (hij : i ≤ j)
    (hbi : Str.is_char_boundary s i = true) (hbj : Str.is_char_boundary s j = true) :
    (Flow.strRange s (UInt64.ofNat i) (UInt64.ofNat j) : Flow Str ρ) = .next ((s.take j).drop i) := by
  simp [Flow.strRange, toNat_ofNat_lt i hi, toNat_ofNat_lt j hj, hbi, hbj, hij]

/-! what the searches say about the byte at the index they return -/

theorem findByte_spec (c : UInt8) (s : List UInt8) (i : Nat) (h : Hs.findByte c s = some i) : s[i]? = some c := by
  induction s generalizing i with
  | nil => simp [Hs.findByte] at h
  | cons x r ih =>
    simp only [Hs.findByte] at h
    split at h
    · cases h; simp [*]
    · cases hr : Hs.findByte c r with
      | none => simp [hr] at h
      | some j => simp [hr] at h; subst h; simpa using ih j hr

theorem rfindByte_spec (c : UInt8) (s : List UInt8) (i : Nat) (h : Hs.rfindByte c s = some i) : s[i]? = some c := by
  induction s generalizing i with
  | nil => simp [Hs.rfindByte] at h
  | cons x r ih =>
    simp only [Hs.rfindByte] at h
    split at h
    · rename_i j hj
      cases h; simpa using ih j hj
    · split at h
      · cases h; simp [*]
      · cases h

theorem findSep_spec (s : List UInt8) (i : Nat) (h : Hs.findSep s = some i) :
    s[i]? = some 58 ∧ s[i + 1]? = some 47 ∧ s[i + 2]? = some 47 := by
  induction s generalizing i with
  | nil => simp [Hs.findSep] at h
  | cons x r ih =>
    simp only [Hs.findSep] at h
    split at h
    · rename_i e
      cases h
      rw [ch_colon, ch_slash] at e
      match r, e with
      | y :: z :: t, e => simp at e; simp [e.1, e.2.1, e.2.2]
      | [y], e => simp at e
      | [], e => simp at e
    · cases hr : Hs.findSep r with
      | none => simp [hr] at h
      | some j =>
        simp [hr] at h; subst h
        have := ih j hr
        simpa [Nat.add_right_comm] using this

theorem lt_of_getElem? {s : List UInt8} {k : Nat} {b : UInt8} (h : s[k]? = some b) : k < s.length :=
  (List.getElem?_eq_some_iff.1 h).1

theorem getLast_spec (s : List UInt8) (c : UInt8) (h : s.getLast? = some c) : 0 < s.length ∧ s[s.length - 1]? = some c := by
  obtain ⟨ys, rfl⟩ := List.getLast?_eq_some_iff.1 h
  simp

/-! ## Part 3 — `recognize_http` statement by statement

The five statements of the generated function, written out once more; `recognize_http_stages` checks by `rfl`
(definitional unfolding) that their sequence *is* the generated function - any change of the generated code that is
more than a renaming or a re-ordering of independent `let`s makes it fail. -/

abbrev R := RResult Proxy

/-- L115-117: cut the query -/
def st1 (path : Str) : Flow Str R :=
  match (Str.find_char path 63) with
  | (some i) => Flow.bind (Flow.strTo path i) fun v1 => Flow.next v1
  | _ => Flow.next path

/-- L118-120: drop one trailing '/' -/
def st2 (ov : Bool) (path : Str) : Flow Str R :=
  if (Str.ends_with_char path 47) then
    Flow.bind (Flow.arith ov (U64.subOk (Str.len path) (1 : Usize))) fun () =>
    Flow.bind (Flow.strTo path ((Str.len path) - (1 : Usize))) fun v2 => Flow.next v2
  else Flow.next path

/-- L122: `path.find("://").filter(..)` -/
def st3 (path : Str) : Flow (Option Usize) R :=
  match (Str.find_str path [58, 47, 47]) with
  | none => Flow.next (none : Option Usize)
  | some i =>
    Flow.bind (
      if !(decide (i > (0 : Usize))) then Flow.next false else
      Flow.bind (Flow.strTo path i) fun v3 =>
      Flow.next (Str.bytes_all v3 fun b => ((U8.is_ascii_alphanumeric b) || (b == (43 : UInt8) || b == (45 : UInt8) || b == (46 : UInt8))))
    ) fun v4 =>
    Flow.next (if v4 then some i else none)

/-- L123-128: the authority of an absolute-form target / refusal of the origin form -/
def st4 (ov : Bool) (method path : Str) (scheme_end : Option Usize) : Flow Str R :=
  Flow.bind (
    match scheme_end with
    | none => Flow.next (none : Option Usize)
    | some i =>
      Flow.bind (Flow.arith ov (U64.addOk i (3 : Usize))) fun () =>
      Flow.next (some (i + (3 : Usize)))
  ) fun v6 =>
  (match v6 with
  | (some i) =>
    Flow.bind (
      Flow.bind (Flow.strFrom path i) fun v7 =>
      Flow.bind (
        match (Str.find_char v7 47) with
        | none => Flow.next (none : Option Usize)
        | some j =>
          Flow.bind (Flow.arith ov (U64.addOk j i)) fun () =>
          Flow.next (some (j + i))
      ) fun v8 =>
      (match v8 with
      | (some j) => Flow.bind (Flow.strRange path i j) fun v9 => Flow.next v9
      | _ => Flow.bind (Flow.strFrom path i) fun v10 => Flow.next v10)
    ) fun path => Flow.next path
  | _ =>
    Flow.bind (
      if (([67, 79, 78, 78, 69, 67, 84] : Str) != method) then Flow.ret RResult.err else Flow.next ()
    ) fun () => Flow.next path)

/-- L129-160: host / port split -/
def st5 (ov : Bool) (method path : Str) : Flow Empty R :=
  if (([67, 79, 78, 78, 69, 67, 84] : Str) == method) then
    Flow.bind (Flow.question (Option.ok_or_else (Str.rfind_char path 58)) RResult.err) fun v11 =>
    Flow.bind (Flow.strTo path v11) fun v12 =>
    Flow.bind (Flow.arith ov (U64.addOk v11 (1 : Usize))) fun () =>
    Flow.bind (Flow.strFrom path (v11 + (1 : Usize))) fun v13 =>
    Flow.bind (Flow.question (Str.parse_u16 v13) RResult.err) fun v14 =>
    Flow.ret (RResult.ok (Proxy.Https (Address.Domain (Str.to_owned v12) v14)))
  else
    (match (match (Str.rfind_char path 58), (Str.rfind_char path 93) with
        | none, _ => recognize_http.Port.Default
        | (some h_end), none => (recognize_http.Port.Parse h_end)
        | (some h_end), (some h_v6_end) =>
          (if (decide (h_end < h_v6_end)) then recognize_http.Port.Default else (recognize_http.Port.Parse h_end))) with
    | (recognize_http.Port.Parse index) =>
      Flow.bind (Flow.arith ov (U64.addOk index (1 : Usize))) fun () =>
      Flow.bind (Flow.strTo path index) fun v15 =>
      Flow.bind (Flow.strFrom path (index + (1 : Usize))) fun v16 =>
      Flow.bind (Flow.question (Str.parse_u16 v16) RResult.err) fun v17 =>
      Flow.ret (RResult.ok (Proxy.Http (Address.Domain (Str.to_owned v15) v17)))
    | _ => Flow.ret (RResult.ok (Proxy.Http (Address.Domain (Str.to_owned path) (80 : UInt16)))))

theorem recognize_http_stages (ov : Bool) (method path : Str) :
    recognize_http ov method path =
      Flow.run ((st1 path).bind fun path => (st2 ov path).bind fun path => (st3 path).bind fun scheme_end =>
        (st4 ov method path scheme_end).bind fun path => st5 ov method path) := rfl

/-! evaluation of the stages -/

theorem st1_eval (path : Str) (hl : path.length < 2 ^ 64) : st1 path = .next (Hs.beforeQuery path) := by
  unfold st1 Hs.beforeQuery
  rw [Str.find_char, findByte_eq, ch_query]
  cases h : Hs.findByte 63 path with
  | none => rfl
  | some i =>
    have hb := findByte_spec _ _ _ h
    have hi := lt_of_getElem? hb
    simp only [Option.map]
    rw [strTo_eval path i (by omega) (boundary_at_byte _ _ _ hb (by decide))]
    rfl

theorem len_sub_one (path : Str) (hl : path.length < 2 ^ 64) (h0 : 0 < path.length) :
    Str.len path - (1 : Usize) = UInt64.ofNat (path.length - 1) := by
  apply UInt64.toNat_inj.1
  have h1 : (Str.len path).toNat = path.length := toNat_ofNat_lt _ hl
  have h2 : ((1 : Usize)).toNat = 1 := rfl
  rw [UInt64.toNat_sub_of_le _ _ (by rw [UInt64.le_iff_toNat_le, h1, h2]; omega), h1, h2, toNat_ofNat_lt _ (by omega)]

theorem st2_eval (ov : Bool) (path : Str) (hl : path.length < 2 ^ 64) : st2 ov path = .next (Hs.trimSlash path) := by
  unfold st2 Hs.trimSlash
  rw [ch_slash]
  by_cases h : path.getLast? = some 47
  · obtain ⟨h0, hb⟩ := getLast_spec _ _ h
    have e1 : Str.ends_with_char path 47 = true := by simp [Str.ends_with_char, h]
    have e2 : U64.subOk (Str.len path) (1 : Usize) = true := by
      have h1 : (Str.len path).toNat = path.length := toNat_ofNat_lt _ hl
      have h2 : ((1 : Usize)).toNat = 1 := rfl
      simp only [U64.subOk, h1, h2, decide_eq_true_eq]; omega
    rw [if_pos e1, if_pos h, e2, arith_true, bind_next, len_sub_one path hl h0,
      strTo_eval path _ (by omega) (boundary_at_byte _ _ _ hb (by decide)), bind_next, List.dropLast_eq_take]
  · have e1 : Str.ends_with_char path 47 = false := by simp [Str.ends_with_char, h]
    rw [if_neg (by simp [e1]), if_neg h]

theorem ofNat_gt_zero (i : Nat) (hi : i < 2 ^ 64) : decide (UInt64.ofNat i > (0 : Usize)) = decide (0 < i) := by
  have : (UInt64.ofNat i > (0 : Usize)) ↔ 0 < i := by
    show (0 : UInt64) < UInt64.ofNat i ↔ _
    rw [UInt64.lt_iff_toNat_lt, toNat_ofNat_lt i hi]; rfl
  simp [this]

theorem st3_eval (path : Str) (hl : path.length < 2 ^ 64) :
    st3 path = .next ((Hs.findScheme path).map UInt64.ofNat) := by
  unfold st3 Hs.findScheme
  rw [Str.find_str, findSub_eq]
  cases h : Hs.findSep path with
  | none => rfl
  | some i =>
    obtain ⟨hb, _, _⟩ := findSep_spec _ _ h
    have hi := lt_of_getElem? hb
    simp only [Option.map]
    rw [ofNat_gt_zero i (by omega)]
    by_cases h0 : 0 < i
    · rw [strTo_eval path i (by omega) (boundary_at_byte _ _ _ hb (by decide))]
      simp only [h0, decide_true, Bool.not_true, Bool.false_eq_true, if_false, bind_next, Str.bytes_all, schemeByteOk_eq, true_and]
      cases (path.take i).all Hs.schemeByteOk <;> rfl
    · simp [h0, bind_next]

/-- the Rust value of a model result -/
def ofProxy : Hs.Proxy → Proxy
  | .http h p => .Http (.Domain ⟨h⟩ (UInt16.ofNat p))
  | .https h p => .Https (.Domain ⟨h⟩ (UInt16.ofNat p))

def ofModel : Option Hs.Proxy → R
  | none => .err
  | some x => .ok (ofProxy x)

theorem ofNat_add (a b : Nat) : UInt64.ofNat a + UInt64.ofNat b = UInt64.ofNat (a + b) := by
  apply UInt64.toNat_inj.1
  simp [UInt64.toNat_add, UInt64.toNat_ofNat']

theorem addOk_ofNat (a b : Nat) (h : a + b < 2 ^ 64) : U64.addOk (UInt64.ofNat a) (UInt64.ofNat b) = true := by
  simp only [U64.addOk, toNat_ofNat_lt a (by omega), toNat_ofNat_lt b (by omega), decide_eq_true_eq]; exact h

theorem three_eq : (3 : Usize) = UInt64.ofNat 3 := rfl
theorem one_eq : (1 : Usize) = UInt64.ofNat 1 := rfl

theorem take_drop_comm (l : List UInt8) (m j : Nat) : (l.take (j + m)).drop m = (l.drop m).take j := by
  apply List.ext_getElem?
  intro k
  simp only [List.getElem?_take, List.getElem?_drop]
  split <;> split <;> first | rfl | omega

theorem findScheme_some {path : List UInt8} {i : Nat} (h : Hs.findScheme path = some i) : Hs.findSep path = some i := by
  unfold Hs.findScheme at h
  split at h
  · split at h
    · cases h; assumption
    · cases h
  · cases h

theorem connect_ne (m : Str) : (([67, 79, 78, 78, 69, 67, 84] : Str) != m) = !decide (m = Hs.str "CONNECT") := by
  rw [str_connect]
  by_cases h : m = [67, 79, 78, 78, 69, 67, 84]
  · subst h; rfl
  · have : ([67, 79, 78, 78, 69, 67, 84] : Str) ≠ m := fun e => h e.symm
    simp [h, this]

theorem connect_eq (m : Str) : (([67, 79, 78, 78, 69, 67, 84] : Str) == m) = decide (m = Hs.str "CONNECT") := by
  rw [str_connect]
  by_cases h : m = [67, 79, 78, 78, 69, 67, 84]
  · subst h; simp
  · have : ([67, 79, 78, 78, 69, 67, 84] : Str) ≠ m := fun e => h e.symm
    simp [h, this]

theorem st4_eval (ov : Bool) (m path : Str) (hl : path.length < 2 ^ 64) (hok : OkAfterAscii path) :
    st4 ov m path ((Hs.findScheme path).map UInt64.ofNat) =
      match Hs.authorityOf (m = Hs.str "CONNECT") path with
      | some a => .next a
      | none => .ret .err := by
  unfold st4 Hs.authorityOf
  cases hs : Hs.findScheme path with
  | none =>
    simp only [Option.map, bind_next, connect_ne]
    by_cases hm : m = Hs.str "CONNECT" <;> simp [hm, bind_next, bind_ret]
  | some i =>
    obtain ⟨h0, h1, h2⟩ := findSep_spec _ _ (findScheme_some hs)
    have hi := lt_of_getElem? h2
    have hb3 : Str.is_char_boundary path (i + 3) = true := boundary_after_ascii path hok (i + 2) 47 h2 (by decide)
    simp only [Option.map, three_eq, addOk_ofNat i 3 (by omega), arith_true, bind_next, ofNat_add,
      strFrom_eval path (i + 3) (by omega) hb3, Str.find_char, findByte_eq, ch_slash]
    cases hj : Hs.findByte 47 (path.drop (i + 3)) with
    | none => simp only [Option.map, bind_next]
    | some j =>
      have hbj := findByte_spec _ _ _ hj
      rw [List.getElem?_drop] at hbj
      have hjl := lt_of_getElem? hbj
      simp only [Option.map, addOk_ofNat j (i + 3) (by omega), arith_true, bind_next, ofNat_add]
      rw [strRange_eval path (i + 3) (j + (i + 3)) (by omega) (by omega) (by omega) hb3
        (boundary_at_byte _ _ _ (by rw [Nat.add_comm]; exact hbj) (by decide)), take_drop_comm]
      rfl

theorem ofNat_lt_ofNat (a b : Nat) (ha : a < 2 ^ 64) (hb : b < 2 ^ 64) :
    decide (UInt64.ofNat a < UInt64.ofNat b) = decide (a < b) := by
  have : UInt64.ofNat a < UInt64.ofNat b ↔ a < b := by
    rw [UInt64.lt_iff_toNat_lt, toNat_ofNat_lt a ha, toNat_ofNat_lt b hb]
  simp [this]

/-- `host = path[..h]`, `port = path[h + 1..].parse()?` at a ':' found at `h` -/
theorem port_tail (_ov : Bool) (a : Str) (h : Nat) (hb : a[h]? = some 58) (hl : a.length < 2 ^ 64) (hok : OkAfterAscii a)
    (mk : Address → Proxy) :
    (Flow.bind (Flow.strTo a (UInt64.ofNat h)) fun v15 =>
      Flow.bind (Flow.strFrom a (UInt64.ofNat (h + 1))) fun v16 =>
      Flow.bind (Flow.question (Str.parse_u16 v16) RResult.err) fun v17 =>
      (Flow.ret (RResult.ok (mk (Address.Domain (Str.to_owned v15) v17))) : Flow Empty R)) =
    Flow.ret (match Hs.parseU16 (a.drop (h + 1)) with
      | some p => RResult.ok (mk (Address.Domain ⟨a.take h⟩ (UInt16.ofNat p)))
      | none => RResult.err) := by
  have hh := lt_of_getElem? hb
  rw [strTo_eval a h (by omega) (boundary_at_byte _ _ _ hb (by decide)), bind_next,
    strFrom_eval a (h + 1) (by omega) (boundary_after_ascii a hok h 58 hb (by decide)), bind_next, parse_u16_eq]
  cases Hs.parseU16 (a.drop (h + 1)) <;> rfl

theorem st5_eval (ov : Bool) (m a : Str) (hl : a.length < 2 ^ 64) (hok : OkAfterAscii a) :
    st5 ov m a = .ret (ofModel (Hs.splitAuthority (m = Hs.str "CONNECT") a)) := by
  unfold st5 Hs.splitAuthority
  rw [connect_eq, Str.rfind_char, Str.rfind_char, rfindByte_eq, rfindByte_eq, ch_colon, ch_rbracket]
  by_cases hm : m = Hs.str "CONNECT"
  · simp only [hm, decide_true, if_true]
    cases hc : Hs.rfindByte 58 a with
    | none => rfl
    | some h =>
      have hb := rfindByte_spec _ _ _ hc
      have hh := lt_of_getElem? hb
      simp only [Option.map, Option.ok_or_else, Flow.question, bind_next, one_eq, ofNat_add,
        addOk_ofNat h 1 (by omega), arith_true]
      rw [strTo_eval a h (by omega) (boundary_at_byte _ _ _ hb (by decide)), bind_next,
        strFrom_eval a (h + 1) (by omega) (boundary_after_ascii a hok h 58 hb (by decide)), bind_next, parse_u16_eq]
      cases Hs.parseU16 (a.drop (h + 1)) <;> rfl
  · simp only [hm, decide_false, Bool.false_eq_true, if_false]
    cases hc : Hs.rfindByte 58 a with
    | none => rfl
    | some h =>
      have hb := rfindByte_spec _ _ _ hc
      have hh := lt_of_getElem? hb
      have tail := port_tail ov a h hb hl hok Proxy.Http
      cases hv : Hs.rfindByte 93 a with
      | none =>
        simp only [Option.map, one_eq, ofNat_add, addOk_ofNat h 1 (by omega), arith_true, bind_next]
        rw [tail]
        cases Hs.parseU16 (a.drop (h + 1)) <;> rfl
      | some v =>
        have hvl := lt_of_getElem? (rfindByte_spec _ _ _ hv)
        simp only [Option.map, ofNat_lt_ofNat h v (by omega) (by omega)]
        by_cases hlt : h < v
        · simp only [hlt, decide_true, if_true]; rfl
        · simp only [hlt, decide_false, Bool.false_eq_true, if_false, one_eq, ofNat_add, addOk_ofNat h 1 (by omega),
            arith_true, bind_next]
          rw [tail]
          cases Hs.parseU16 (a.drop (h + 1)) <;> rfl

/-! ## Part 4 — the equivalences -/

theorem beforeQuery_take (p : List UInt8) : ∃ n, Hs.beforeQuery p = p.take n := by
  unfold Hs.beforeQuery
  split
  · exact ⟨_, rfl⟩
  · exact ⟨p.length, by simp⟩

theorem trimSlash_take (p : List UInt8) : ∃ n, Hs.trimSlash p = p.take n := by
  unfold Hs.trimSlash
  split
  · exact ⟨_, List.dropLast_eq_take⟩
  · exact ⟨p.length, by simp⟩

theorem authorityOf_sub (c : Prop) [Decidable c] (p a : List UInt8) (h : Hs.authorityOf c p = some a) :
    ∃ m n, a = (p.drop m).take n := by
  unfold Hs.authorityOf at h
  split at h
  · simp only at h
    split at h
    · cases h; exact ⟨_, _, rfl⟩
    · cases h; exact ⟨_, p.length, by rw [List.take_of_length_le]; simp⟩
  · split at h
    · cases h; exact ⟨0, p.length, by simp⟩
    · cases h

/-- **`recognize_http` = the model**, for every method and every target whose length fits a `usize` and in which no
continuation byte directly follows an ASCII byte (every valid UTF-8 string, hence every `&str`): the generated code does
not panic - every range index is in range and on a char boundary, no arithmetic overflows, in both profiles - and
returns exactly what `Hs.recognizeHttp` says -/
theorem recognize_http_eq_model (ov : Bool) (method path : List UInt8) (hl : path.length < 2 ^ 64)
    (hok : OkAfterAscii path) :
    recognize_http ov method path = .ok (ofModel (Hs.recognizeHttp method path)) := by
  obtain ⟨n1, e1⟩ := beforeQuery_take path
  obtain ⟨n2, e2⟩ := trimSlash_take (Hs.beforeQuery path)
  have hl1 : (Hs.beforeQuery path).length < 2 ^ 64 := by rw [e1, List.length_take]; omega
  have hl2 : (Hs.trimSlash (Hs.beforeQuery path)).length < 2 ^ 64 := by rw [e2, List.length_take]; omega
  have hok2 : OkAfterAscii (Hs.trimSlash (Hs.beforeQuery path)) := by rw [e2, e1]; exact (hok.take _).take _
  rw [recognize_http_stages, st1_eval path hl, bind_next, st2_eval ov _ hl1, bind_next, st3_eval _ hl2, bind_next,
    st4_eval ov method _ hl2 hok2, Hs.recognizeHttp_eq]
  cases ha : Hs.authorityOf (method = Hs.str "CONNECT") (Hs.trimSlash (Hs.beforeQuery path)) with
  | none => rfl
  | some a =>
    obtain ⟨m, n, e3⟩ := authorityOf_sub _ _ _ ha
    have hl3 : a.length < 2 ^ 64 := by rw [e3, List.length_take, List.length_drop]; omega
    have hok3 : OkAfterAscii a := by rw [e3]; exact (hok2.drop _).take _
    show Flow.run ((Flow.next a : Flow Str R).bind fun path => st5 ov method path) = _
    rw [bind_next, st5_eval ov method a hl3 hok3]
    rfl

/-! valid UTF-8 satisfies the guard -/

theorem okAA_cons_hi (x : UInt8) (s : List UInt8) (hx : 128 ≤ x.toNat) (hs : OkAfterAscii s) : OkAfterAscii (x :: s) := by
  intro k a b ha hb hlt
  cases k with
  | zero => simp at ha; subst ha; omega
  | succ k => exact hs k a b (by simpa using ha) (by simpa using hb) hlt

theorem okAA_cons_lo (x : UInt8) (s : List UInt8) (hs : OkAfterAscii s) (hh : ∀ b, s[0]? = some b → U8.is_cont b = false) :
    OkAfterAscii (x :: s) := by
  intro k a b ha hb hlt
  cases k with
  | zero => exact hh b (by simpa using hb)
  | succ k => exact hs k a b (by simpa using ha) (by simpa using hb) hlt

theorem okAA_nil : OkAfterAscii [] := by intro k a b ha; simp at ha

theorem is_cont_ge (b : UInt8) (h : U8.is_cont b = true) : 128 ≤ b.toNat := by
  simp [U8.is_cont] at h; exact h.1

theorem validFuel_head (n : Nat) (b0 : UInt8) (r : List UInt8) (h : Str.validFuel n (b0 :: r) = true) : U8.is_cont b0 = false := by
  cases n with
  | zero => simp [Str.validFuel] at h
  | succ n =>
    simp only [Str.validFuel] at h
    simp only [U8.is_cont, decide_eq_false_iff_not]
    split at h
    · omega
    · split at h
      · omega
      · split at h
        · omega
        · split at h
          · omega
          · cases h

theorem validFuel_ok (n : Nat) (s : List UInt8) (h : Str.validFuel n s = true) : OkAfterAscii s := by
  induction n generalizing s with
  | zero =>
    cases s with
    | nil => exact okAA_nil
    | cons x r => simp [Str.validFuel] at h
  | succ n ih =>
    cases s with
    | nil => exact okAA_nil
    | cons b0 r =>
      simp only [Str.validFuel] at h
      split at h
      · refine okAA_cons_lo b0 r (ih r h) ?_
        intro b hb
        cases r with
        | nil => simp at hb
        | cons y t => simp at hb; subst hb; exact validFuel_head n _ _ h
      · rename_i h128
        have hb0 : 128 ≤ b0.toNat := by omega
        split at h
        · cases r with
          | nil => cases h
          | cons b1 r1 =>
            simp only [Bool.and_eq_true] at h
            exact okAA_cons_hi _ _ hb0 (okAA_cons_hi _ _ (is_cont_ge _ h.1) (ih _ h.2))
        · split at h
          · match r, h with
            | b1 :: b2 :: r2, h =>
              simp only [Bool.and_eq_true, decide_eq_true_eq] at h
              have h1 : 128 ≤ b1.toNat := by have := h.1.1.1; split at this <;> omega
              exact okAA_cons_hi _ _ hb0 (okAA_cons_hi _ _ h1 (okAA_cons_hi _ _ (is_cont_ge _ h.1.2) (ih _ h.2)))
            | [_], h => cases h
            | [], h => cases h
          · split at h
            · match r, h with
              | b1 :: b2 :: b3 :: r3, h =>
                simp only [Bool.and_eq_true, decide_eq_true_eq] at h
                have h1 : 128 ≤ b1.toNat := by have := h.1.1.1.1; split at this <;> omega
                exact okAA_cons_hi _ _ hb0 (okAA_cons_hi _ _ h1 (okAA_cons_hi _ _ (is_cont_ge _ h.1.1.2)
                  (okAA_cons_hi _ _ (is_cont_ge _ h.1.2) (ih _ h.2))))
              | [_, _], h => cases h
              | [_], h => cases h
              | [], h => cases h
            · cases h

/-- every valid UTF-8 string - every value of type `&str` - satisfies the guard -/
theorem valid_ok (s : List UInt8) (h : Str.valid s = true) : OkAfterAscii s := validFuel_ok _ _ h

/-- `recognize_http` = the model on every `&str` -/
theorem recognize_http_eq_model_utf8 (ov : Bool) (method path : List UInt8) (hl : path.length < 2 ^ 64)
    (hv : Str.valid path = true) :
    recognize_http ov method path = .ok (ofModel (Hs.recognizeHttp method path)) :=
  recognize_http_eq_model ov method path hl (valid_ok path hv)

/-- outside the guard the byte-level functions part: after "a://" a lone continuation byte is not a char boundary, the
Rust would panic at `path[i..]` (it cannot be reached: a `&str` is valid UTF-8 and `httparse` checks the target with
`from_utf8`), while the model - defined on all byte strings - names a host -/
theorem recognize_http_off_utf8 (ov : Bool) :
    recognize_http ov [71, 69, 84] [97, 58, 47, 47, 128] = .panic
    ∧ Hs.recognizeHttp [71, 69, 84] [97, 58, 47, 47, 128] = some (.http [128] 80)
    ∧ Str.valid [97, 58, 47, 47, 128] = false := by
  refine ⟨?_, by decide +kernel, by decide +kernel⟩
  cases ov <;> decide +kernel

/-! `check_address` -/

theorem rstring_len_gt (h : RString) (hl : h.bytes.length < 2 ^ 64) :
    decide (RString.len h > U8.as_usize (255 : UInt8)) = decide (h.bytes.length > 255) := by
  have : (RString.len h > U8.as_usize (255 : UInt8)) ↔ h.bytes.length > 255 := by
    show U8.as_usize (255 : UInt8) < RString.len h ↔ _
    rw [UInt64.lt_iff_toNat_lt, RString.len, toNat_ofNat_lt _ hl, u8_as_usize_toNat]; rfl
  simp [this]

/-- **`check_address` = `Hs.admitHost`** on a domain name (and never panics) -/
theorem check_address_domain (ov : Bool) (h : RString) (p : UInt16) (hl : h.bytes.length < 2 ^ 64) :
    check_address ov (.Domain h p) =
      .ok (match Hs.admitHost h.bytes p.toNat with
        | some _ => .ok (.Domain h p)
        | none => .err) := by
  simp only [check_address, rstring_len_gt h hl, RString.is_empty, Hs.admitHost]
  by_cases h0 : h.bytes.length = 0
  · have : h.bytes.isEmpty = true := by simpa using h0
    simp [h0, this, bind_ret, run_ret]
  · have : h.bytes.isEmpty = false := by simpa using h0
    by_cases h1 : h.bytes.length > 255
    · simp [h0, this, h1, bind_ret, run_ret]
    · simp [h0, this, h1, bind_next, run_ret]

/-- a socket address passes unchanged -/
theorem check_address_socket (ov : Bool) (a : SocketAddr) : check_address ov (.Socket a) = .ok (.ok (.Socket a)) := rfl

/-! ## Part 5 — the C13 / C14 / C07 statements for the generated code -/

theorem recognize_http_no_panic (ov : Bool) (method path : List UInt8) (hl : path.length < 2 ^ 64) (hok : OkAfterAscii path) :
    recognize_http ov method path ≠ .panic := by
  rw [recognize_http_eq_model ov method path hl hok]; intro h; cases h

theorem recognize_http_profile_independent (method path : List UInt8) (hl : path.length < 2 ^ 64) (hok : OkAfterAscii path) :
    recognize_http true method path = recognize_http false method path := by
  rw [recognize_http_eq_model true method path hl hok, recognize_http_eq_model false method path hl hok]

theorem gen_http_authority (ov : Bool) (t : Hs.Target) (h : t.WF) (method : List UInt8) (hm : method ≠ Hs.str "CONNECT")
    (hl : t.render.length < 2 ^ 64) (hv : Str.valid t.render = true) :
    recognize_http ov method t.render =
      .ok (.ok (.Http (.Domain ⟨t.authHost⟩
        (UInt16.ofNat (match t.port with | some p => (Hs.parseU16 p).getD 0 | none => 80))))) := by
  rw [recognize_http_eq_model_utf8 ov method _ hl hv, Hs.recognizeHttp_absolute t h method hm]; rfl

theorem gen_connect_authority (ov : Bool) (host p : List UInt8) (v : Nat) (hhost : ∀ b ∈ host, b ≠ Hs.ch '/' ∧ b ≠ Hs.ch '?')
    (hp : Hs.parseU16 p = some v) (hd : ∀ b ∈ p, Hs.isDigit b = true)
    (hl : (host ++ Hs.ch ':' :: p).length < 2 ^ 64) (hv : Str.valid (host ++ Hs.ch ':' :: p) = true) :
    recognize_http ov (Hs.str "CONNECT") (host ++ Hs.ch ':' :: p) =
      .ok (.ok (.Https (.Domain ⟨host⟩ (UInt16.ofNat v)))) := by
  rw [recognize_http_eq_model_utf8 ov _ _ hl hv, Hs.recognizeHttp_connect host p v hhost hp hd]; rfl

theorem gen_origin_form_refused (ov : Bool) (method path : List UInt8) (hm : method ≠ Hs.str "CONNECT")
    (h : (Hs.beforeQuery path).head? = some (Hs.ch '/')) (hl : path.length < 2 ^ 64) (hv : Str.valid path = true) :
    recognize_http ov method path = .ok .err := by
  rw [recognize_http_eq_model_utf8 ov _ _ hl hv, Hs.recognizeHttp_origin_form_refused method path hm h]; rfl

theorem gen_bad_port_refused (ov : Bool) (t : Hs.Target) (h : t.Shape) (p : List UInt8) (hp : t.port = some p)
    (hbad : Hs.parseU16 p = none) (method : List UInt8) (hm : method ≠ Hs.str "CONNECT")
    (hl : t.render.length < 2 ^ 64) (hv : Str.valid t.render = true) :
    recognize_http ov method t.render = .ok .err := by
  rw [recognize_http_eq_model_utf8 ov _ _ hl hv, Hs.recognizeHttp_bad_port_refused t h p hp hbad method hm]; rfl

theorem gen_connect_bad_port_refused (ov : Bool) (host p : List UInt8) (hhost : ∀ b ∈ host, b ≠ Hs.ch '/' ∧ b ≠ Hs.ch '?')
    (hp : ∀ b ∈ p, b ≠ Hs.ch ':' ∧ b ≠ Hs.ch '/' ∧ b ≠ Hs.ch '?') (hbad : Hs.parseU16 p = none)
    (hl : (host ++ Hs.ch ':' :: p).length < 2 ^ 64) (hv : Str.valid (host ++ Hs.ch ':' :: p) = true) :
    recognize_http ov (Hs.str "CONNECT") (host ++ Hs.ch ':' :: p) = .ok .err := by
  rw [recognize_http_eq_model_utf8 ov _ _ hl hv, Hs.recognizeHttp_connect_bad_port_refused host p hhost hp hbad]; rfl

theorem gen_connect_without_port_refused (ov : Bool) (a : List UInt8)
    (ha : ∀ b ∈ a, b ≠ Hs.ch ':' ∧ b ≠ Hs.ch '/' ∧ b ≠ Hs.ch '?') (hl : a.length < 2 ^ 64) (hv : Str.valid a = true) :
    recognize_http ov (Hs.str "CONNECT") a = .ok .err := by
  rw [recognize_http_eq_model_utf8 ov _ _ hl hv, Hs.recognizeHttp_connect_no_port_refused a ha]; rfl

theorem check_address_long_refused (ov : Bool) (h : RString) (p : UInt16) (hl : h.bytes.length < 2 ^ 64)
    (hlong : 255 < h.bytes.length) : check_address ov (.Domain h p) = .ok .err := by
  rw [check_address_domain ov h p hl]
  have : Hs.admitHost h.bytes p.toNat = none := by simp [Hs.admitHost]; omega
  rw [this]

theorem check_address_empty_refused (ov : Bool) (p : UInt16) : check_address ov (.Domain ⟨[]⟩ p) = .ok .err := by
  rw [check_address_domain ov _ p (by decide)]; rfl

theorem check_address_ok_inv (ov : Bool) (h : RString) (p : UInt16) (hl : h.bytes.length < 2 ^ 64) (a' : Address)
    (hok : check_address ov (.Domain h p) = .ok (.ok a')) : a' = .Domain h p ∧ (toAddr a').Accepted := by
  rw [check_address_domain ov h p hl] at hok
  cases ha : Hs.admitHost h.bytes p.toNat with
  | none => rw [ha] at hok; cases hok
  | some a =>
    rw [ha] at hok
    injection hok with hok; injection hok with hok
    subst hok
    refine ⟨rfl, ?_⟩
    have hp := p.toNat_lt
    simp only [Hs.admitHost] at ha
    split at ha
    · cases ha
    · rename_i hc
      simp only [toAddr, Addr.Accepted]
      omega

/-- the tunnel target is representable: whatever `recognize_http` extracts and `check_address` lets through has a
domain name of 1..=255 bytes -/
theorem gen_http_then_check (ov : Bool) (method path : List UInt8) (a a' : Address) (h : RString) (p : UInt16)
    (ha : a = .Domain h p) (hl : h.bytes.length < 2 ^ 64)
    (_hr : recognize_http ov method path = .ok (.ok (.Http a)) ∨ recognize_http ov method path = .ok (.ok (.Https a)))
    (hc : check_address ov a = .ok (.ok a')) : a' = a ∧ (toAddr a').Accepted := by
  subst ha; exact check_address_ok_inv ov h p hl a' hc

/-! ## Part 6 — the scan for the end of the CONNECT request (`connect_scan`, the pure fragment of `get_request_addr`) -/

theorem windows_eq (s : List UInt8) :
    (Bytes.windows_position [13, 10, 13, 10] s).map (· + 4) = Hs.findBlankLine s := by
  induction s with
  | nil => rfl
  | cons x r ih =>
    simp only [Bytes.windows_position, Hs.findBlankLine, List.length_cons, List.length_nil]
    split
    · rfl
    · rw [← ih]; cases Bytes.windows_position [13, 10, 13, 10] r <;> rfl

theorem windows_bound (pat s : List UInt8) (e : Nat) (h : Bytes.windows_position pat s = some e) :
    e + pat.length ≤ s.length := by
  induction s generalizing e with
  | nil => simp [Bytes.windows_position] at h
  | cons x r ih =>
    simp only [Bytes.windows_position] at h
    split at h
    · rename_i heq
      cases h
      have := congrArg List.length heq
      rw [List.length_take] at this
      omega
    · cases hr : Bytes.windows_position pat r with
      | none => simp [hr] at h
      | some j =>
        simp [hr] at h; subst h
        have := ih j hr
        simp only [List.length_cons]; omega

/-- **`connect_scan` = `Hs.findBlankLine`** on the peeked bytes: the number of bytes `read_exact` then consumes is the
model's "index just after the first blank line", and nothing panics (the `buf[..len]` and `buf[..end + 4]` slices are in
range, `end + 4` does not overflow) whenever `len` is what `peek` can report (`len <= buf.len()`) -/
theorem connect_scan_eq (ov : Bool) (buf : List UInt8) (len : Usize) (hl : buf.length < 2 ^ 64)
    (hlen : len.toNat ≤ buf.length) :
    connect_scan ov buf len = .ok ((Hs.findBlankLine (buf.take len.toNat)).map UInt64.ofNat) := by
  unfold connect_scan
  simp only [Flow.bytesTo, hlen, if_true, bind_next, Bytes.windows_position_usize]
  rw [← windows_eq]
  cases hw : Bytes.windows_position [13, 10, 13, 10] (buf.take len.toNat) with
  | none => rfl
  | some e =>
    have hb := windows_bound _ _ _ hw
    simp only [List.length_take, List.length_cons, List.length_nil] at hb
    have h4 : (4 : Usize) = UInt64.ofNat 4 := rfl
    have hle : e + 4 ≤ buf.length := by omega
    simp only [Option.map, h4, addOk_ofNat e 4 (by omega), arith_true, bind_next, ofNat_add, toNat_ofNat_lt (e + 4) (by omega),
      hle, if_true, Cursor.len, List.length_take, Nat.min_eq_left hle]
    rfl

/-- without the bound on `len` the first slice is out of range (cannot happen: `peek` fills at most the buffer) -/
theorem connect_scan_len_out_of_range (ov : Bool) (buf : List UInt8) (len : Usize) (h : buf.length < len.toNat) :
    connect_scan ov buf len = .panic := by
  unfold connect_scan
  have : ¬ len.toNat ≤ buf.length := by omega
  simp only [Flow.bytesTo, this, if_false]
  rfl

end Octo.HandshakeGen
