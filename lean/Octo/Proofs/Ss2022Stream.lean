import Octo.Proofs.SsStream
import Octo.Proofs.Toy
import Octo.Props.C14
/-!
# Shadowsocks 2022 TCP: whole-stream round trip and segmentation independence

The receiver's first unit step for a 2022 cipher (`init2022`) consumes salt ‖ [identity header] ‖
fixed-length header ‖ variable-length header in one go; the specification (and the Rust code) wants
salt and fixed-length header in the first read — that single boundary is exempt from the
"any segmentation" property.  Everything after it is the chunk layer of `Octo/Proofs/SsChunk.lean`.
-/
namespace Octo.Ss
open Octo.Fr

/-! ### the bytes that must come with the first read -/

/-- `headerLen` of `init2022`: [identity header] ‖ sealed (type ‖ timestamp ‖ [request salt] ‖ length) -/
def hdrLen (ctx : Ctx) (s : Sess) : Nat :=
  (if requireEih ctx s then 16 else 0) + 1 + 8 + (if s.mode = .server then 0 else ctx.kind.n) + 2 + 16

/-- the last part of `init2022Tail` (after the variable-length header has been opened), verbatim -/
def finish2022 (d : Dec) (s : Sess) (salt : Bytes) (cd : ChunkDec) (consumed : Nat) (via : Bytes) : Fr.Step Dec Ev :=
  if s.mode = .server ∧ s.address.isNone then
    match Socks5Addr.decode via with
    | .ok (addr, via) =>
      if via.length < 2 then .fail { d with chunk := some cd } consumed else
      let pl := rdBE (via.take 2)
      if via.length < 2 + pl then .fail { d with chunk := some cd } consumed else
      .take { chunk := some cd, sess := { s with address := some addr } } consumed
        (.accepted salt :: (via.drop (2 + pl)).map .byte)
    | _ => .fail { d with chunk := some cd } consumed
  else
    .take { chunk := some cd, sess := s } consumed (.accepted salt :: via.map .byte)

/-- the plaintext of the fixed-length header, cut back into its fields -/
theorem fixed_parts (x : UInt8) (now : Nat) (rsb : Bytes) (len : Nat) :
    ([x] ++ be64 now ++ rsb ++ be16 len).headD 0 = x ∧
    (([x] ++ be64 now ++ rsb ++ be16 len).drop 1).take 8 = be64 now ∧
    (([x] ++ be64 now ++ rsb ++ be16 len).drop 9).take rsb.length = rsb ∧
    (([x] ++ be64 now ++ rsb ++ be16 len).drop (9 + rsb.length)).take 2 = be16 len := by
  refine ⟨rfl, ?_, ?_, ?_⟩
  · simp [be64, be32]
  · simp [be64, be32]
  · have h9 : ([x] ++ be64 now).length = 9 := by simp
    have hd : ([x] ++ be64 now ++ rsb ++ be16 len).drop (9 + rsb.length) = be16 len := by
      rw [← h9, ← List.length_append, List.drop_left]
    rw [hd]; rfl

/-- `init2022Tail` on an honest fixed-length header followed by an honest variable-length header -/
theorem init2022Tail_accept (C : Crypto) (hC : C.Lawful) (env : DecEnv) (d : Dec) (s : Sess) (b : Bytes)
    (n hl : Nat) (salt : Bytes) (a : Auth) (now : Nat) (rsb via tail : Bytes)
    (hvia : via.length < 65536)
    (hnow : now < 18446744073709551616) (htime : absDiff env.now now ≤ Consts.ssMaxTimeDiff)
    (hecho : s.mode = .client → rsb = s.salt)
    (hb : b.drop (n + hl) = (a.sealB C via).1 ++ tail) :
    init2022Tail C env d s b n hl rsb.length salt a ([s.mode.expectU8] ++ be64 now ++ rsb ++ be16 via.length) =
      finish2022 { d with sess := if s.mode = .client then { s with requestSalt := some rsb } else s }
        (if s.mode = .client then { s with requestSalt := some rsb } else s) salt
        ⟨(a.sealB C via).2, .length⟩ (n + hl + via.length + 16) via := by
  obtain ⟨h1, h2, h3, h4⟩ := fixed_parts s.mode.expectU8 now rsb via.length
  unfold init2022Tail
  simp only [h1, h2, h3, h4, rdBE_be64 now hnow, rdBE_be16 _ hvia, hb]
  rw [if_neg (by simp), if_neg (by omega), if_neg (by intro ⟨hm, hne⟩; exact hne (hecho hm))]
  have hlen := sealB_len C hC a via
  rw [if_neg (by simp only [List.length_append, hlen]; omega)]
  rw [take_app _ _ _ (by omega), List.take_of_length_le (by omega), open_seal_auth C hC a via]
  rfl

/-- `init2022` on salt ‖ [identity header] ‖ sealed fixed header ‖ sealed variable header ‖ anything:
all checks pass and what is left is the address / padding parse of `finish2022` -/
theorem init2022_accept (C : Crypto) (hC : C.Lawful) (ctx : Ctx) (env : DecEnv) (ds : Sess)
    (salt eih rsb via tail key : Bytes) (user : Option User) (now : Nat)
    (hsalt : salt.length = ctx.kind.n)
    (heih : eih.length = if requireEih ctx ds then 16 else 0)
    (hrsb : rsb.length = if ds.mode = .server then 0 else ctx.kind.n)
    (hvia : via.length < 65536)
    (hnow : now < 18446744073709551616) (htime : absDiff env.now now ≤ Consts.ssMaxTimeDiff)
    (hseen : env.saltSeen salt = false)
    (hecho : ds.mode = .client → rsb = ds.salt)
    (hkey : init2022Key C ctx { ds with requestSalt := some salt } (requireEih ctx ds) salt
        (eih ++ ((newAuth C ctx.kind key salt).sealB C
          ([ds.mode.expectU8] ++ be64 now ++ rsb ++ be16 via.length)).1) = some (key, user)) :
    init2022 C ctx env ⟨none, ds⟩
        (salt ++ eih ++ ((newAuth C ctx.kind key salt).sealB C ([ds.mode.expectU8] ++ be64 now ++ rsb ++ be16 via.length)).1 ++
          ((((newAuth C ctx.kind key salt).sealB C ([ds.mode.expectU8] ++ be64 now ++ rsb ++ be16 via.length)).2).sealB C via).1 ++ tail) =
      finish2022
        ⟨none, if ds.mode = .client then { ds with requestSalt := some rsb, user := user }
               else { ds with requestSalt := some salt, user := user }⟩
        (if ds.mode = .client then { ds with requestSalt := some rsb, user := user }
               else { ds with requestSalt := some salt, user := user }) salt
        ⟨((((newAuth C ctx.kind key salt).sealB C ([ds.mode.expectU8] ++ be64 now ++ rsb ++ be16 via.length)).2).sealB C via).2, .length⟩
        (ctx.kind.n + hdrLen ctx ds + via.length + 16) via := by
  generalize hfx : (newAuth C ctx.kind key salt).sealB C ([ds.mode.expectU8] ++ be64 now ++ rsb ++ be16 via.length) = fx at hkey ⊢
  have hfl : fx.1.length = 1 + 8 + rsb.length + 2 + 16 := by
    rw [← hfx, sealB_len C hC]; simp; omega
  have hhl : (eih ++ fx.1).length = hdrLen ctx ds := by
    simp only [List.length_append, hfl, heih, hrsb, hdrLen]; omega
  have hb : salt ++ eih ++ fx.1 ++ (fx.2.sealB C via).1 ++ tail = salt ++ ((eih ++ fx.1) ++ ((fx.2.sealB C via).1 ++ tail)) := by
    simp only [List.append_assoc]
  rw [hb]
  generalize hb' : salt ++ ((eih ++ fx.1) ++ ((fx.2.sealB C via).1 ++ tail)) = b
  have hlen : ctx.kind.n + hdrLen ctx ds ≤ b.length := by
    rw [← hb']; simp only [List.length_append] at hhl ⊢; omega
  have htk : b.take ctx.kind.n = salt := by rw [← hb', ← hsalt, List.take_left]
  have hdr : b.drop ctx.kind.n = (eih ++ fx.1) ++ ((fx.2.sealB C via).1 ++ tail) := by rw [← hb', ← hsalt, List.drop_left]
  have hhd : (b.drop ctx.kind.n).take (hdrLen ctx ds) = eih ++ fx.1 := by rw [hdr, ← hhl, List.take_left]
  have hdd : b.drop (ctx.kind.n + hdrLen ctx ds) = (fx.2.sealB C via).1 ++ tail := by
    rw [← List.drop_drop, hdr, ← hhl, List.drop_left]
  have hde : (eih ++ fx.1).drop (if requireEih ctx ds then 16 else 0) = fx.1 := by rw [← heih, List.drop_left]
  have hop : (newAuth C ctx.kind key salt).openB C fx.1 = (some ([ds.mode.expectU8] ++ be64 now ++ rsb ++ be16 via.length), fx.2) := by
    rw [← hfx]; exact open_seal_auth C hC _ _
  have htail := init2022Tail_accept C hC env
    ⟨none, { ds with requestSalt := some salt, user := user }⟩ { ds with requestSalt := some salt, user := user }
    b ctx.kind.n (hdrLen ctx ds) salt fx.2 now rsb via tail hvia hnow htime hecho hdd
  unfold init2022
  simp only [← hdrLen.eq_1]
  rw [if_neg (by omega), if_neg (by omega)]
  simp only [htk, hhd, hseen, hkey, hde, hop, ← hrsb, htail, Bool.false_eq_true, if_false]

/-- for a 2022 cipher the first unit step on a non-empty buffer is `init2022` -/
theorem unit_first (C : Crypto) (ctx : Ctx) (env : DecEnv) (hk : ctx.kind.is2022 = true) (ds : Sess) (b : Bytes)
    (hb : b ≠ []) : unit C ctx env ⟨none, ds⟩ b = init2022 C ctx env ⟨none, ds⟩ b := by
  have : b.length ≠ 0 := by simpa using hb
  simp [unit, hk, this]

/-- a first step that creates the chunk decoder, followed by the chunk layer -/
theorem run_take_first (C : Crypto) (hC : C.Lawful) (ctx : Ctx) (env : DecEnv) (s : Dec) (b : Bytes)
    (cd : ChunkDec) (sess : Sess) (n : Nat) (o : List Ev)
    (hu : unit C ctx env s b = .take ⟨some cd, sess⟩ n o) (hn : 0 < n) (hle : n ≤ b.length) :
    run (unit C ctx env) s b =
      ⟨⟨some (run (chunkUnit C) cd (b.drop n)).st, sess⟩, (run (chunkUnit C) cd (b.drop n)).buf,
        o ++ (run (chunkUnit C) cd (b.drop n)).out.map .byte, (run (chunkUnit C) cd (b.drop n)).failed⟩ := by
  unfold run
  rw [drain]
  simp only [hu]
  rw [drain_lift, drain_fuel (chunkUnit C) (chunkUnit_good C hC) b.length ((b.drop n).length + 1) cd (b.drop n)
    (by simp only [List.length_drop]; omega) (by omega)]
  rfl

/-- the parse of address ‖ padding length ‖ padding ‖ payload on the server -/
theorem finish2022_server (d : Dec) (s : Sess) (salt : Bytes) (cd : ChunkDec) (consumed : Nat) (ad ad' : Addr)
    (pad body : Bytes) (hm : s.mode = .server) (ha : s.address = none) (hpad : pad.length < 65536)
    (hdec : Socks5Addr.decode (Socks5Addr.encode ad ++ (be16 pad.length ++ pad ++ body)) =
      .ok (ad', be16 pad.length ++ pad ++ body)) :
    finish2022 d s salt cd consumed (Socks5Addr.encode ad ++ be16 pad.length ++ pad ++ body) =
      .take ⟨some cd, { s with address := some ad' }⟩ consumed (.accepted salt :: body.map .byte) := by
  unfold finish2022
  rw [if_pos (by simp [hm, ha])]
  simp only [List.append_assoc] at hdec ⊢
  rw [hdec]
  simp only
  have h2 : (be16 pad.length ++ (pad ++ body)).take 2 = be16 pad.length := by
    rw [← be16_length pad.length, List.take_left]
  have hd : (be16 pad.length ++ (pad ++ body)).drop (2 + pad.length) = body := by
    rw [← List.drop_drop, ← be16_length pad.length, List.drop_left, List.drop_left]
  rw [if_neg (by simp), h2, rdBE_be16 _ hpad, if_neg (by simp), hd]

/-- the client has nothing to parse -/
theorem finish2022_client (d : Dec) (s : Sess) (salt : Bytes) (cd : ChunkDec) (consumed : Nat) (via : Bytes)
    (hm : s.mode = .client) :
    finish2022 d s salt cd consumed via = .take ⟨some cd, s⟩ consumed (.accepted salt :: via.map .byte) := by
  unfold finish2022
  rw [if_neg (by simp [hm])]

/-! ### the sender's first write -/

/-- the key the first write's session subkey is derived from -/
def encKey (ctx : Ctx) (s : Sess) : Bytes :=
  match ctx.kind.is2022, s.user with
  | true, some u => u.key
  | _, _ => ctx.key

/-- identity headers of the first write -/
def encEih (C : Crypto) (ctx : Ctx) (s : Sess) : Bytes :=
  if s.mode = .client ∧ ctx.kind.supportEih then withEih C ctx.kind ctx.key s.salt ctx.identityKeys else []

/-- the plaintext behind the fixed-length header of the first write (2022) -/
def firstMsg (s : Sess) (item : Bytes) (r : EncRand) : Bytes :=
  match s.mode with
  | .client =>
    (match s.address with
      | some ad => Socks5Addr.encode ad
      | none => []) ++ be16 r.padding.length ++ r.padding ++ item
  | .server => item

theorem encode_first (C : Crypto) (ctx : Ctx) (hk : ctx.kind.is2022 = true) (s : Sess) (item : Bytes) (r : EncRand) :
    encode C ctx s {} item r =
      (s.salt ++ encEih C ctx s ++
        (((newAuth C ctx.kind (encKey ctx s) s.salt).sealB C
            ([s.mode.toU8] ++ be64 r.now ++ s.requestSalt.getD [] ++ be16 (min (firstMsg s item r).length 0xffff))).1 ++
          ((((newAuth C ctx.kind (encKey ctx s) s.salt).sealB C
            ([s.mode.toU8] ++ be64 r.now ++ s.requestSalt.getD [] ++ be16 (min (firstMsg s item r).length 0xffff))).2).sealB C
              ((firstMsg s item r).take (min (firstMsg s item r).length 0xffff))).1) ++
        (encPayload C
          ((((newAuth C ctx.kind (encKey ctx s) s.salt).sealB C
            ([s.mode.toU8] ++ be64 r.now ++ s.requestSalt.getD [] ++ be16 (min (firstMsg s item r).length 0xffff))).2).sealB C
              ((firstMsg s item r).take (min (firstMsg s item r).length 0xffff))).2
          ctx.kind.payloadLimit ((firstMsg s item r).drop (min (firstMsg s item r).length 0xffff))).1,
       ⟨some (encPayload C
          ((((newAuth C ctx.kind (encKey ctx s) s.salt).sealB C
            ([s.mode.toU8] ++ be64 r.now ++ s.requestSalt.getD [] ++ be16 (min (firstMsg s item r).length 0xffff))).2).sealB C
              ((firstMsg s item r).take (min (firstMsg s item r).length 0xffff))).2
          ctx.kind.payloadLimit ((firstMsg s item r).drop (min (firstMsg s item r).length 0xffff))).2⟩) := by
  simp only [encode, hk, newHeader, encKey, encEih, firstMsg, if_true]
  cases s.mode <;> rfl

/-! ### whole stream, decoder side -/

/-- the session the decoder holds once the fixed-length header has been accepted -/
def sessAfter (ds : Sess) (salt rsb : Bytes) (user : Option User) : Sess :=
  if ds.mode = .client then { ds with requestSalt := some rsb, user := user }
  else { ds with requestSalt := some salt, user := user }

/-- the first unit step on salt ‖ [identity header] ‖ fixed header ‖ variable header ‖ anything -/
theorem unit2022_first (C : Crypto) (hC : C.Lawful) (ctx : Ctx) (env : DecEnv) (hk : ctx.kind.is2022 = true) (ds : Sess)
    (salt eih rsb via tail key : Bytes) (user : Option User) (now : Nat) (fx vx : Bytes × Auth)
    (hfx : fx = (newAuth C ctx.kind key salt).sealB C ([ds.mode.expectU8] ++ be64 now ++ rsb ++ be16 via.length))
    (hvx : vx = fx.2.sealB C via)
    (hsalt : salt.length = ctx.kind.n)
    (heih : eih.length = if requireEih ctx ds then 16 else 0)
    (hrsb : rsb.length = if ds.mode = .server then 0 else ctx.kind.n)
    (hvia : via.length < 65536)
    (hnow : now < 18446744073709551616) (htime : absDiff env.now now ≤ Consts.ssMaxTimeDiff)
    (hseen : env.saltSeen salt = false)
    (hecho : ds.mode = .client → rsb = ds.salt)
    (hkey : init2022Key C ctx { ds with requestSalt := some salt } (requireEih ctx ds) salt (eih ++ fx.1) = some (key, user)) :
    unit C ctx env ⟨none, ds⟩ (salt ++ eih ++ fx.1 ++ vx.1 ++ tail) =
      finish2022 ⟨none, sessAfter ds salt rsb user⟩ (sessAfter ds salt rsb user) salt ⟨vx.2, .length⟩
        (ctx.kind.n + hdrLen ctx ds + via.length + 16) via ∧
    ctx.kind.n + hdrLen ctx ds + via.length + 16 = (salt ++ eih ++ fx.1 ++ vx.1).length := by
  have hn := kind_n_pos ctx.kind
  have hne : salt ++ eih ++ fx.1 ++ vx.1 ++ tail ≠ [] := by
    intro h
    have := congrArg List.length h
    simp only [List.length_append, List.length_nil] at this
    omega
  have hfl : fx.1.length = 1 + 8 + rsb.length + 2 + 16 := by
    rw [hfx, sealB_len C hC]; simp; omega
  have hvl : vx.1.length = via.length + 16 := by rw [hvx, sealB_len C hC]
  have hcons : ctx.kind.n + hdrLen ctx ds + via.length + 16 = (salt ++ eih ++ fx.1 ++ vx.1).length := by
    simp only [List.length_append, hfl, hvl, heih, hrsb, hsalt, hdrLen]; omega
  refine ⟨?_, hcons⟩
  rw [unit_first C ctx env hk ds _ hne]
  subst hfx hvx
  rw [init2022_accept C hC ctx env ds salt eih rsb via tail key user now hsalt heih hrsb hvia hnow htime hseen hecho hkey]
  rfl

/-- salt ‖ [identity header] ‖ fixed header ‖ variable header ‖ chunks: one `init2022` step, then the
chunk layer -/
theorem run2022_core (C : Crypto) (hC : C.Lawful) (ctx : Ctx) (env : DecEnv) (hk : ctx.kind.is2022 = true) (ds : Sess)
    (salt eih rsb via tail key : Bytes) (user : Option User) (now : Nat) (fx vx : Bytes × Auth)
    (hfx : fx = (newAuth C ctx.kind key salt).sealB C ([ds.mode.expectU8] ++ be64 now ++ rsb ++ be16 via.length))
    (hvx : vx = fx.2.sealB C via)
    (hsalt : salt.length = ctx.kind.n)
    (heih : eih.length = if requireEih ctx ds then 16 else 0)
    (hrsb : rsb.length = if ds.mode = .server then 0 else ctx.kind.n)
    (hvia : via.length < 65536)
    (hnow : now < 18446744073709551616) (htime : absDiff env.now now ≤ Consts.ssMaxTimeDiff)
    (hseen : env.saltSeen salt = false)
    (hecho : ds.mode = .client → rsb = ds.salt)
    (hkey : init2022Key C ctx { ds with requestSalt := some salt } (requireEih ctx ds) salt (eih ++ fx.1) = some (key, user))
    (sess' : Sess) (body rest : Bytes) (a' : Auth)
    (hfin : ∀ cd consumed, finish2022 ⟨none, sessAfter ds salt rsb user⟩ (sessAfter ds salt rsb user) salt cd consumed via =
      .take ⟨some cd, sess'⟩ consumed (.accepted salt :: body.map .byte))
    (hrest : run (chunkUnit C) ⟨vx.2, .length⟩ tail = ⟨⟨a', .length⟩, [], rest, false⟩) :
    run (unit C ctx env) ⟨none, ds⟩ (salt ++ eih ++ fx.1 ++ vx.1 ++ tail) =
      ⟨⟨some ⟨a', .length⟩, sess'⟩, [], .accepted salt :: (body ++ rest).map .byte, false⟩ := by
  obtain ⟨hu, hcons⟩ := unit2022_first C hC ctx env hk ds salt eih rsb via tail key user now fx vx hfx hvx hsalt heih hrsb
    hvia hnow htime hseen hecho hkey
  rw [hfin] at hu
  rw [run_take_first C hC ctx env _ _ _ _ _ _ hu (by omega) (by rw [hcons]; simp only [List.length_append]; omega)]
  rw [hcons, List.drop_left, hrest]
  simp

/-- cutting `pre ‖ item` at `min length L` when `pre` fits -/
theorem take_drop_min (pre item : Bytes) (L : Nat) (h : pre.length ≤ L) :
    (pre ++ item).take (min (pre ++ item).length L) = pre ++ item.take (L - pre.length) ∧
    (pre ++ item).drop (min (pre ++ item).length L) = item.drop (L - pre.length) ∧
    ((pre ++ item).take (min (pre ++ item).length L)).length = min (pre ++ item).length L := by
  refine ⟨?_, ?_, ?_⟩
  · rw [List.take_append, List.take_of_length_le (by simp only [List.length_append]; omega)]
    congr 1
    by_cases hc : (pre ++ item).length ≤ L
    · rw [Nat.min_eq_left hc, List.take_of_length_le (by simp only [List.length_append]; omega),
        List.take_of_length_le (by simp only [List.length_append] at hc; omega)]
    · rw [Nat.min_eq_right (by omega)]
  · rw [List.drop_append, List.drop_eq_nil_of_le (by simp only [List.length_append]; omega), List.nil_append]
    by_cases hc : (pre ++ item).length ≤ L
    · rw [Nat.min_eq_left hc, List.drop_eq_nil_of_le (by simp only [List.length_append]; omega),
        List.drop_eq_nil_of_le (by simp only [List.length_append] at hc; omega)]
    · rw [Nat.min_eq_right (by omega)]
  · rw [List.length_take]; omega

/-! ### request direction (client → server) -/

/-- Request, two contexts (client `cctx`, server `sctx`), whatever the identity-header arrangement:
`hkey` says the server's key selection arrives at the client's key. -/
theorem request_core (C : Crypto) (hC : C.Lawful) (cctx sctx : Ctx) (hkind : cctx.kind = sctx.kind)
    (hk : sctx.kind.is2022 = true) (cs ds : Sess) (env : DecEnv) (ad ad' : Addr) (user : Option User)
    (hm : cs.mode = .client) (ha : cs.address = some ad) (hs : cs.salt.length = sctx.kind.n)
    (hrs : cs.requestSalt = none) (hdm : ds.mode = .server) (hda : ds.address = none)
    (w : Bytes) (r : EncRand) (ws : List (Bytes × EncRand))
    (hpad : (Socks5Addr.encode ad).length + 2 + r.padding.length ≤ 0xffff)
    (hnow : r.now < 18446744073709551616) (htime : absDiff env.now r.now ≤ Consts.ssMaxTimeDiff)
    (hseen : env.saltSeen cs.salt = false)
    (hdec : ∀ t, Socks5Addr.decode (Socks5Addr.encode ad ++ t) = .ok (ad', t))
    (heih : (encEih C cctx cs).length = if requireEih sctx ds then 16 else 0)
    (hkey : ∀ f, init2022Key C sctx { ds with requestSalt := some cs.salt } (requireEih sctx ds) cs.salt
      (encEih C cctx cs ++ f) = some (encKey cctx cs, user)) :
    ∃ a', (encodeAll C cctx cs {} ((w, r) :: ws)).2 = ⟨some a'⟩ ∧
      run (unit C sctx env) ⟨none, ds⟩ (encodeAll C cctx cs {} ((w, r) :: ws)).1 =
        ⟨⟨some ⟨a', .length⟩, { ds with requestSalt := some cs.salt, user := user, address := some ad' }⟩, [],
          .accepted cs.salt :: ((w :: ws.map Prod.fst).flatten).map .byte, false⟩ := by
  have hk' : cctx.kind.is2022 = true := by rw [hkind]; exact hk
  have hmsg : firstMsg cs w r = (Socks5Addr.encode ad ++ be16 r.padding.length ++ r.padding) ++ w := by
    simp [firstMsg, hm, ha]
  have hprelen : (Socks5Addr.encode ad ++ be16 r.padding.length ++ r.padding).length ≤ 0xffff := by
    simp only [List.length_append, be16_length]; omega
  obtain ⟨htk, hdr, htl⟩ := take_drop_min _ w 0xffff hprelen
  generalize hkk : 0xffff - (Socks5Addr.encode ad ++ be16 r.padding.length ++ r.padding).length = k at htk hdr
  rw [← hmsg] at htk hdr htl
  simp only [encodeAll, encode_first C cctx hk', hkind]
  generalize hfx : (newAuth C sctx.kind (encKey cctx cs) cs.salt).sealB C
            ([cs.mode.toU8] ++ be64 r.now ++ cs.requestSalt.getD [] ++ be16 (min (firstMsg cs w r).length 0xffff)) = fx
  generalize hvx : fx.2.sealB C ((firstMsg cs w r).take (min (firstMsg cs w r).length 0xffff)) = vx
  rw [hdr]
  obtain ⟨a', h2, h3⟩ := encodeAll_some_roundtrip C hC cctx cs ws
    (encPayload C vx.2 sctx.kind.payloadLimit (w.drop k)).2
  refine ⟨a', h2, ?_⟩
  have hrest : run (chunkUnit C) ⟨vx.2, .length⟩
      ((encPayload C vx.2 sctx.kind.payloadLimit (w.drop k)).1 ++
        (encodeAll C cctx cs ⟨some (encPayload C vx.2 sctx.kind.payloadLimit (w.drop k)).2⟩ ws).1) =
      ⟨⟨a', .length⟩, [], w.drop k ++ (ws.map Prod.fst).flatten, false⟩ := by
    rw [run_concat _ (chunkUnit_good C hC) _ _ _ _ _ (payload_roundtrip C hC vx.2 _ (payloadLimit_good sctx.kind) _), h3]
  have hcore := run2022_core C hC sctx env hk ds cs.salt (encEih C cctx cs) []
    ((firstMsg cs w r).take (min (firstMsg cs w r).length 0xffff)) _ (encKey cctx cs) user r.now fx vx
    (by rw [← hfx, htl, hm, hdm, hrs]; rfl) hvx.symm hs heih (by simp [hdm]) (by rw [htl]; omega) hnow htime hseen
    (by simp [hdm]) (hkey _)
    { ds with requestSalt := some cs.salt, user := user, address := some ad' } (w.take k) _ a'
    (by
      intro cd consumed
      rw [htk]
      have := finish2022_server ⟨none, sessAfter ds cs.salt [] user⟩ (sessAfter ds cs.salt [] user) cs.salt cd consumed
        ad ad' r.padding (w.take k) (by simp [sessAfter, hdm]) (by simp [sessAfter, hdm, hda]) (by omega) (hdec _)
      rw [this]
      simp [sessAfter, hdm])
    hrest
  simp only [List.append_assoc] at hcore ⊢
  rw [hcore]
  simp [← List.append_assoc]

theorem requireEih_client (ctx : Ctx) (s : Sess) (h : s.mode = .client) : requireEih ctx s = false := by
  simp [requireEih, h]

theorem requireEih_noUsers (ctx : Ctx) (s : Sess) (h : ctx.users = []) : requireEih ctx s = false := by
  simp [requireEih, h]

/-- Request, pre-shared-key mode (no users, no identity keys), one context -/
theorem request_psk (C : Crypto) (hC : C.Lawful) (ctx : Ctx) (hk : ctx.kind.is2022 = true)
    (hu : ctx.users = []) (hik : ctx.identityKeys = []) (cs ds : Sess) (env : DecEnv) (ad : Addr)
    (hm : cs.mode = .client) (ha : cs.address = some ad) (hs : cs.salt.length = ctx.kind.n)
    (hcu : cs.user = none) (hrs : cs.requestSalt = none) (hdm : ds.mode = .server) (hda : ds.address = none)
    (w : Bytes) (r : EncRand) (ws : List (Bytes × EncRand))
    (hpad : (Socks5Addr.encode ad).length + 2 + r.padding.length ≤ 0xffff)
    (hnow : r.now < 18446744073709551616) (htime : absDiff env.now r.now ≤ Consts.ssMaxTimeDiff)
    (hseen : env.saltSeen cs.salt = false) (had : ad.Accepted) :
    ∃ a', (encodeAll C ctx cs {} ((w, r) :: ws)).2 = ⟨some a'⟩ ∧
      run (unit C ctx env) ⟨none, ds⟩ (encodeAll C ctx cs {} ((w, r) :: ws)).1 =
        ⟨⟨some ⟨a', .length⟩, { ds with requestSalt := some cs.salt, address := some ad }⟩, [],
          .accepted cs.salt :: ((w :: ws.map Prod.fst).flatten).map .byte, false⟩ := by
  have hreq := requireEih_noUsers ctx ds hu
  have he : encEih C ctx cs = [] := by simp [encEih, hik, withEih]
  have hkey : encKey ctx cs = ctx.key := by simp [encKey, hcu]
  exact request_core C hC ctx ctx rfl hk cs ds env ad ad ds.user hm ha hs hrs hdm hda w r ws hpad hnow htime hseen
    (fun t => c14_socks5_roundtrip ad t had) (by simp [he, hreq])
    (by intro f; simp [init2022Key, hreq, hkey])

/-- when address ‖ padding length ‖ padding do not fit into the variable-length header the server's
parse runs off its end -/
theorem finish2022_server_overflow (d : Dec) (s : Sess) (salt : Bytes) (cd : ChunkDec) (consumed : Nat) (ad : Addr)
    (pad body : Bytes) (m : Nat) (hm : s.mode = .server) (ha : s.address = none) (hpad : pad.length < 65536)
    (had : ad.Accepted) (hm2 : 2 ≤ m) (hm3 : m < 2 + pad.length) :
    finish2022 d s salt cd consumed (Socks5Addr.encode ad ++ (be16 pad.length ++ pad ++ body).take m) =
      .fail { d with chunk := some cd } consumed := by
  unfold finish2022
  rw [if_pos (by simp [hm, ha]), c14_socks5_roundtrip ad _ had]
  simp only
  have hl : ((be16 pad.length ++ pad ++ body).take m).length = m := by
    rw [List.length_take]; simp only [List.length_append, be16_length]; omega
  have h2 : ((be16 pad.length ++ pad ++ body).take m).take 2 = be16 pad.length := by
    rw [List.take_take, Nat.min_eq_left hm2, List.append_assoc, ← be16_length pad.length, List.take_left]
  rw [if_neg (by omega), h2, rdBE_be16 _ hpad, if_pos (by omega)]

/-- **The fit condition of the request theorems is sharp**: if address ‖ padding length ‖ padding
exceed 0xffff bytes (and everything else is as in `request_psk`), the honest stream is *refused*. -/
theorem request_pad_overflow_fails (C : Crypto) (hC : C.Lawful) (ctx : Ctx) (hk : ctx.kind.is2022 = true)
    (hu : ctx.users = []) (hik : ctx.identityKeys = []) (cs ds : Sess) (env : DecEnv) (ad : Addr)
    (hm : cs.mode = .client) (ha : cs.address = some ad) (hs : cs.salt.length = ctx.kind.n)
    (hcu : cs.user = none) (hrs : cs.requestSalt = none) (hdm : ds.mode = .server) (hda : ds.address = none)
    (w : Bytes) (r : EncRand) (ws : List (Bytes × EncRand))
    (hpl : r.padding.length < 65536)
    (hover : 0xffff < (Socks5Addr.encode ad).length + 2 + r.padding.length)
    (hnow : r.now < 18446744073709551616) (htime : absDiff env.now r.now ≤ Consts.ssMaxTimeDiff)
    (hseen : env.saltSeen cs.salt = false) (had : ad.Accepted) :
    (run (unit C ctx env) ⟨none, ds⟩ (encodeAll C ctx cs {} ((w, r) :: ws)).1).failed = true := by
  have hreq := requireEih_noUsers ctx ds hu
  have he : encEih C ctx cs = [] := by simp [encEih, hik, withEih]
  have hkey : encKey ctx cs = ctx.key := by simp [encKey, hcu]
  have hA : (Socks5Addr.encode ad).length ≤ 259 := by
    cases ad with
    | domain h p => obtain ⟨_, h2, _⟩ := had; simp [Socks5Addr.encode]; omega
    | v4 ip p => obtain ⟨h1, _⟩ := had; simp [Socks5Addr.encode, h1]
    | v6 ip p => obtain ⟨h1, _⟩ := had; simp [Socks5Addr.encode, h1]
  have hmsg : firstMsg cs w r = Socks5Addr.encode ad ++ (be16 r.padding.length ++ r.padding ++ w) := by
    simp [firstMsg, hm, ha]
  have hlen : min (firstMsg cs w r).length 0xffff = 0xffff := by
    rw [hmsg]; simp only [List.length_append, be16_length]; omega
  have htk : (firstMsg cs w r).take 0xffff =
      Socks5Addr.encode ad ++ (be16 r.padding.length ++ r.padding ++ w).take (0xffff - (Socks5Addr.encode ad).length) := by
    rw [hmsg, List.take_append, List.take_of_length_le (by omega)]
  have htl : ((firstMsg cs w r).take 0xffff).length = 0xffff := by
    rw [List.length_take, hmsg]; simp only [List.length_append, be16_length]; omega
  simp only [encodeAll, encode_first C ctx hk, hlen, he, hkey, hrs, Option.getD_none, List.append_nil, List.append_assoc]
  generalize hfx : (newAuth C ctx.kind ctx.key cs.salt).sealB C
            ([cs.mode.toU8] ++ (be64 r.now ++ be16 0xffff)) = fx
  generalize hvx : fx.2.sealB C ((firstMsg cs w r).take 0xffff) = vx
  generalize htail : (encPayload C vx.2 ctx.kind.payloadLimit ((firstMsg cs w r).drop 0xffff)).1 ++
    (encodeAll C ctx cs ⟨some (encPayload C vx.2 ctx.kind.payloadLimit ((firstMsg cs w r).drop 0xffff)).2⟩ ws).1 = tail
  obtain ⟨hunit, hcons⟩ := unit2022_first C hC ctx env hk ds cs.salt [] [] ((firstMsg cs w r).take 0xffff) tail ctx.key ds.user
    r.now fx vx (by rw [← hfx, htl, hm, hdm]; rfl) hvx.symm hs (by simp [hreq]) (by simp [hdm]) (by rw [htl]; omega) hnow htime
    hseen (by simp [hdm]) (by simp [init2022Key, hreq])
  clear hcons
  rw [htk, finish2022_server_overflow _ _ _ _ _ ad r.padding w _ (by simp [sessAfter, hdm]) (by simp [sessAfter, hdm, hda])
    hpl had (by omega) (by omega)] at hunit
  simp only [List.append_assoc, List.append_nil] at hunit
  rw [run_fail _ _ _ _ _ hunit]

/-! ### response direction (server → client) -/

/-- Response, two contexts (server `sctx`, client `cctx`): the server seals under the key of the
user it identified (or the context key), which must be the client's key. -/
theorem response_core (C : Crypto) (hC : C.Lawful) (sctx cctx : Ctx) (hkind : sctx.kind = cctx.kind)
    (hk : cctx.kind.is2022 = true) (ss ds : Sess) (env : DecEnv) (reqSalt : Bytes)
    (hm : ss.mode = .server) (hs : ss.salt.length = cctx.kind.n) (hrs : ss.requestSalt = some reqSalt)
    (hdm : ds.mode = .client) (hdsalt : ds.salt = reqSalt) (hrl : reqSalt.length = cctx.kind.n)
    (hkeyeq : encKey sctx ss = cctx.key)
    (w : Bytes) (r : EncRand) (ws : List (Bytes × EncRand))
    (hnow : r.now < 18446744073709551616) (htime : absDiff env.now r.now ≤ Consts.ssMaxTimeDiff)
    (hseen : env.saltSeen ss.salt = false) :
    ∃ a', (encodeAll C sctx ss {} ((w, r) :: ws)).2 = ⟨some a'⟩ ∧
      run (unit C cctx env) ⟨none, ds⟩ (encodeAll C sctx ss {} ((w, r) :: ws)).1 =
        ⟨⟨some ⟨a', .length⟩, { ds with requestSalt := some reqSalt }⟩, [],
          .accepted ss.salt :: ((w :: ws.map Prod.fst).flatten).map .byte, false⟩ := by
  have hk' : sctx.kind.is2022 = true := by rw [hkind]; exact hk
  have hmsg : firstMsg ss w r = w := by simp [firstMsg, hm]
  have hreq := requireEih_client cctx ds hdm
  have he : encEih C sctx ss = [] := by simp [encEih, hm]
  simp only [encodeAll, encode_first C sctx hk', hkind, hmsg, he, hkeyeq, hrs, Option.getD_some, List.append_nil]
  generalize hfx : (newAuth C cctx.kind cctx.key ss.salt).sealB C
            ([ss.mode.toU8] ++ be64 r.now ++ reqSalt ++ be16 (min w.length 0xffff)) = fx
  generalize hvx : fx.2.sealB C (w.take (min w.length 0xffff)) = vx
  obtain ⟨a', h2, h3⟩ := encodeAll_some_roundtrip C hC sctx ss ws
    (encPayload C vx.2 cctx.kind.payloadLimit (w.drop (min w.length 0xffff))).2
  refine ⟨a', h2, ?_⟩
  have htl : (w.take (min w.length 0xffff)).length = min w.length 0xffff := by rw [List.length_take]; omega
  have hrest : run (chunkUnit C) ⟨vx.2, .length⟩
      ((encPayload C vx.2 cctx.kind.payloadLimit (w.drop (min w.length 0xffff))).1 ++
        (encodeAll C sctx ss ⟨some (encPayload C vx.2 cctx.kind.payloadLimit (w.drop (min w.length 0xffff))).2⟩ ws).1) =
      ⟨⟨a', .length⟩, [], w.drop (min w.length 0xffff) ++ (ws.map Prod.fst).flatten, false⟩ := by
    rw [run_concat _ (chunkUnit_good C hC) _ _ _ _ _ (payload_roundtrip C hC vx.2 _ (payloadLimit_good cctx.kind) _), h3]
  have hcore := run2022_core C hC cctx env hk ds ss.salt [] reqSalt
    (w.take (min w.length 0xffff)) _ cctx.key ds.user r.now fx vx
    (by rw [← hfx, htl, hm, hdm]; rfl) hvx.symm hs (by simp [hreq]) (by simp [hdm, hrl]) (by rw [htl]; omega) hnow htime hseen
    (fun _ => hdsalt.symm) (by simp [init2022Key, hreq])
    { ds with requestSalt := some reqSalt } (w.take (min w.length 0xffff)) _ a'
    (by
      intro cd consumed
      rw [finish2022_client _ _ _ _ _ _ (by simp [sessAfter, hdm])]
      simp [sessAfter, hdm])
    hrest
  simp only [List.append_assoc, List.append_nil] at hcore ⊢
  rw [hcore]
  simp [← List.append_assoc]

/-- Response, one context, the server did not identify a user (pre-shared-key mode) -/
theorem response_psk (C : Crypto) (hC : C.Lawful) (ctx : Ctx) (hk : ctx.kind.is2022 = true)
    (ss ds : Sess) (env : DecEnv) (reqSalt : Bytes)
    (hm : ss.mode = .server) (hs : ss.salt.length = ctx.kind.n) (hrs : ss.requestSalt = some reqSalt)
    (hsu : ss.user = none)
    (hdm : ds.mode = .client) (hdsalt : ds.salt = reqSalt) (hrl : reqSalt.length = ctx.kind.n)
    (w : Bytes) (r : EncRand) (ws : List (Bytes × EncRand))
    (hnow : r.now < 18446744073709551616) (htime : absDiff env.now r.now ≤ Consts.ssMaxTimeDiff)
    (hseen : env.saltSeen ss.salt = false) :
    ∃ a', (encodeAll C ctx ss {} ((w, r) :: ws)).2 = ⟨some a'⟩ ∧
      run (unit C ctx env) ⟨none, ds⟩ (encodeAll C ctx ss {} ((w, r) :: ws)).1 =
        ⟨⟨some ⟨a', .length⟩, { ds with requestSalt := some reqSalt }⟩, [],
          .accepted ss.salt :: ((w :: ws.map Prod.fst).flatten).map .byte, false⟩ :=
  response_core C hC ctx ctx rfl hk ss ds env reqSalt hm hs hrs hdm hdsalt hrl (by simp [encKey, hsu]) w r ws hnow htime hseen

/-! ### segmentation: the idealised unit step -/

/-- what a step may return: consumed bytes are within the buffer, a `take` makes progress and
leaves a chunk decoder behind -/
def StepOk (b : Bytes) : Fr.Step Dec Ev → Prop
  | .need => True
  | .fail _ m => m ≤ b.length
  | .take s' m _ => 0 < m ∧ m ≤ b.length ∧ s'.chunk.isSome = true

theorem finish2022_ok (b : Bytes) (d : Dec) (s : Sess) (salt : Bytes) (cd : ChunkDec) (m : Nat) (via : Bytes)
    (h0 : 0 < m) (hm : m ≤ b.length) : StepOk b (finish2022 d s salt cd m via) := by
  unfold finish2022
  split
  · split
    · split
      · exact hm
      · simp only []
        split
        · exact hm
        · exact ⟨h0, hm, rfl⟩
    · exact hm
  · exact ⟨h0, hm, rfl⟩

/-- `init2022Tail` as a function of the bytes behind the fixed-length header -/
def tail2 (C : Crypto) (env : DecEnv) (d : Dec) (s : Sess) (n hl rsl : Nat) (salt : Bytes) (a : Auth) (h : Bytes)
    (rest : Bytes) : Fr.Step Dec Ev :=
  if h.headD 0 ≠ s.mode.expectU8 then .fail d 0 else
  if absDiff env.now (rdBE ((h.drop 1).take 8)) > Consts.ssMaxTimeDiff then .fail d 0 else
  if s.mode = .client ∧ (h.drop 9).take rsl ≠ s.salt then .fail d 0 else
  if rest.length < rdBE ((h.drop (9 + rsl)).take 2) + 16 then .need else
  match a.openB C (rest.take (rdBE ((h.drop (9 + rsl)).take 2) + 16)) with
  | (none, _) =>
    .fail { d with sess := if s.mode = .client then { s with requestSalt := some ((h.drop 9).take rsl) } else s }
      (n + hl + rdBE ((h.drop (9 + rsl)).take 2) + 16)
  | (some via, a) =>
    finish2022 { d with sess := if s.mode = .client then { s with requestSalt := some ((h.drop 9).take rsl) } else s }
      (if s.mode = .client then { s with requestSalt := some ((h.drop 9).take rsl) } else s) salt ⟨a, .length⟩
      (n + hl + rdBE ((h.drop (9 + rsl)).take 2) + 16) via

theorem init2022Tail_eq (C : Crypto) (env : DecEnv) (d : Dec) (s : Sess) (b : Bytes)
    (n hl rsl : Nat) (salt : Bytes) (a : Auth) (h : Bytes) :
    init2022Tail C env d s b n hl rsl salt a h = tail2 C env d s n hl rsl salt a h (b.drop (n + hl)) := rfl

/-- once the variable-length header is complete the outcome does not change with more input -/
theorem tail2_append (C : Crypto) (env : DecEnv) (d : Dec) (s : Sess) (n hl rsl : Nat) (salt : Bytes) (a : Auth)
    (h rest t : Bytes) (hne : tail2 C env d s n hl rsl salt a h rest ≠ .need) :
    tail2 C env d s n hl rsl salt a h (rest ++ t) = tail2 C env d s n hl rsl salt a h rest := by
  unfold tail2 at hne ⊢
  by_cases c1 : h.headD 0 ≠ s.mode.expectU8
  · simp only [if_pos c1]
  simp only [if_neg c1] at hne ⊢
  by_cases c2 : absDiff env.now (rdBE ((h.drop 1).take 8)) > Consts.ssMaxTimeDiff
  · simp only [if_pos c2]
  simp only [if_neg c2] at hne ⊢
  by_cases c3 : s.mode = .client ∧ (h.drop 9).take rsl ≠ s.salt
  · simp only [if_pos c3]
  simp only [if_neg c3] at hne ⊢
  by_cases c4 : rest.length < rdBE ((h.drop (9 + rsl)).take 2) + 16
  · simp only [if_pos c4] at hne; exact absurd rfl hne
  have c5 : ¬ (rest ++ t).length < rdBE ((h.drop (9 + rsl)).take 2) + 16 := by
    simp only [List.length_append]; omega
  simp only [if_neg c4, if_neg c5, take_app _ _ _ (Nat.le_of_not_lt c4)]

theorem tail2_ok (C : Crypto) (env : DecEnv) (d : Dec) (s : Sess) (n hl rsl : Nat) (salt : Bytes) (a : Auth)
    (h rest b : Bytes) (hb : n + hl + rest.length ≤ b.length) :
    StepOk b (tail2 C env d s n hl rsl salt a h rest) := by
  unfold tail2
  by_cases c1 : h.headD 0 ≠ s.mode.expectU8
  · simp only [if_pos c1]; exact Nat.zero_le _
  simp only [if_neg c1]
  by_cases c2 : absDiff env.now (rdBE ((h.drop 1).take 8)) > Consts.ssMaxTimeDiff
  · simp only [if_pos c2]; exact Nat.zero_le _
  simp only [if_neg c2]
  by_cases c3 : s.mode = .client ∧ (h.drop 9).take rsl ≠ s.salt
  · simp only [if_pos c3]; exact Nat.zero_le _
  simp only [if_neg c3]
  by_cases c4 : rest.length < rdBE ((h.drop (9 + rsl)).take 2) + 16
  · simp only [if_pos c4]; exact True.intro
  simp only [if_neg c4]
  split
  · show _ ≤ _; omega
  · exact finish2022_ok _ _ _ _ _ _ _ (by omega) (by omega)

/-- `init2022` after its two length tests, as a function of salt, header block and the bytes behind -/
def init2 (C : Crypto) (ctx : Ctx) (env : DecEnv) (d : Dec) (salt header rest : Bytes) : Fr.Step Dec Ev :=
  if env.saltSeen salt then .fail d 0 else
  match init2022Key C ctx { d.sess with requestSalt := some salt } (requireEih ctx d.sess) salt header with
  | none => .fail { d with sess := { d.sess with requestSalt := some salt } } 0
  | some (key, user) =>
    match (newAuth C ctx.kind key salt).openB C (header.drop (if requireEih ctx d.sess then 16 else 0)) with
    | (none, _) => .fail { d with sess := { d.sess with requestSalt := some salt, user := user } } 0
    | (some h, a) =>
      tail2 C env { d with sess := { d.sess with requestSalt := some salt, user := user } }
        { d.sess with requestSalt := some salt, user := user } ctx.kind.n (hdrLen ctx d.sess)
        (if d.sess.mode = .server then 0 else ctx.kind.n) salt a h rest

theorem init2022_eq (C : Crypto) (ctx : Ctx) (env : DecEnv) (d : Dec) (b : Bytes) :
    init2022 C ctx env d b =
      if b.length < ctx.kind.n then .need else
      if b.length < ctx.kind.n + hdrLen ctx d.sess then .fail d 0 else
      init2 C ctx env d (b.take ctx.kind.n) ((b.drop ctx.kind.n).take (hdrLen ctx d.sess))
        (b.drop (ctx.kind.n + hdrLen ctx d.sess)) := rfl

theorem init2_append (C : Crypto) (ctx : Ctx) (env : DecEnv) (d : Dec) (salt header rest t : Bytes)
    (hne : init2 C ctx env d salt header rest ≠ .need) :
    init2 C ctx env d salt header (rest ++ t) = init2 C ctx env d salt header rest := by
  unfold init2 at hne ⊢
  by_cases hs : env.saltSeen salt = true
  · simp only [if_pos hs]
  simp only [if_neg hs] at hne ⊢
  split
  · rfl
  · rename_i key user hk1
    simp only [hk1] at hne
    split
    · rfl
    · rename_i h a ho
      simp only [ho] at hne
      exact tail2_append _ _ _ _ _ _ _ _ _ _ _ _ hne

theorem init2_ok (C : Crypto) (ctx : Ctx) (env : DecEnv) (d : Dec) (salt header rest b : Bytes)
    (hb : ctx.kind.n + hdrLen ctx d.sess + rest.length ≤ b.length) :
    StepOk b (init2 C ctx env d salt header rest) := by
  unfold init2
  split
  · exact Nat.zero_le _
  · split
    · exact Nat.zero_le _
    · split
      · exact Nat.zero_le _
      · exact tail2_ok _ _ _ _ _ _ _ _ _ _ _ _ hb

/-- on a buffer holding salt and fixed-length header, `init2022`'s verdict (other than "need more")
does not change with more input -/
theorem init2022_append (C : Crypto) (ctx : Ctx) (env : DecEnv) (d : Dec) (b t : Bytes)
    (hb : ctx.kind.n + hdrLen ctx d.sess ≤ b.length) (hne : init2022 C ctx env d b ≠ .need) :
    init2022 C ctx env d (b ++ t) = init2022 C ctx env d b := by
  rw [init2022_eq] at hne ⊢
  rw [init2022_eq]
  have l1 : ¬ (b ++ t).length < ctx.kind.n := by simp only [List.length_append]; omega
  have l2 : ¬ (b ++ t).length < ctx.kind.n + hdrLen ctx d.sess := by simp only [List.length_append]; omega
  have l3 : ¬ b.length < ctx.kind.n := by omega
  have l4 : ¬ b.length < ctx.kind.n + hdrLen ctx d.sess := by omega
  rw [if_neg l3, if_neg l4] at hne ⊢
  rw [if_neg l1, if_neg l2]
  have e1 : (b ++ t).take ctx.kind.n = b.take ctx.kind.n := take_app _ _ _ (by omega)
  have e2 : ((b ++ t).drop ctx.kind.n).take (hdrLen ctx d.sess) = (b.drop ctx.kind.n).take (hdrLen ctx d.sess) := by
    rw [List.drop_append_of_le_length (by omega), take_app _ _ _ (by simp only [List.length_drop]; omega)]
  have e3 : (b ++ t).drop (ctx.kind.n + hdrLen ctx d.sess) = b.drop (ctx.kind.n + hdrLen ctx d.sess) ++ t :=
    List.drop_append_of_le_length hb
  rw [e1, e2, e3]
  exact init2_append _ _ _ _ _ _ _ _ hne

theorem init2022_ok (C : Crypto) (ctx : Ctx) (env : DecEnv) (d : Dec) (b : Bytes) :
    StepOk b (init2022 C ctx env d b) := by
  rw [init2022_eq]
  split
  · exact True.intro
  · split
    · exact Nat.zero_le _
    · exact init2_ok _ _ _ _ _ _ _ _ (by simp only [List.length_drop]; omega)

/-- the unit step with the exempt boundary idealised away: while salt ‖ fixed-length header are
incomplete it waits instead of failing; otherwise it is `unit` -/
def unitIdeal (C : Crypto) (ctx : Ctx) (env : DecEnv) (d : Dec) (b : Bytes) : Fr.Step Dec Ev :=
  if d.chunk.isNone = true ∧ b.length < ctx.kind.n + hdrLen ctx d.sess then .need else unit C ctx env d b

/-- the buffers on which `unit` and `unitIdeal` agree: salt and fixed-length header are there (or the
header step is already over) -/
def Primed (ctx : Ctx) (d : Dec) (b : Bytes) : Prop :=
  d.chunk.isNone = true → ctx.kind.n + hdrLen ctx d.sess ≤ b.length

theorem unitIdeal_eq (C : Crypto) (ctx : Ctx) (env : DecEnv) (d : Dec) (b : Bytes) (h : Primed ctx d b) :
    unit C ctx env d b = unitIdeal C ctx env d b := by
  unfold unitIdeal
  rw [if_neg]
  intro ⟨h1, h2⟩
  have := h h1
  omega

theorem unit_ok (C : Crypto) (hC : C.Lawful) (ctx : Ctx) (env : DecEnv) (hk : ctx.kind.is2022 = true) (d : Dec) (b : Bytes) :
    StepOk b (unit C ctx env d b) := by
  unfold unit
  split
  · simp only [hk, if_true]
    split
    · exact True.intro
    · exact init2022_ok C ctx env d b
  · rename_i cd hcd
    cases hu : chunkUnit C cd b with
    | need => exact True.intro
    | fail cd' m => exact (chunkUnit_good C hC).fail_le cd b cd' m hu
    | take cd' m o =>
      have := (chunkUnit_good C hC).progress cd b cd' m o hu
      exact ⟨this.1, this.2, rfl⟩

theorem unitIdeal_good (C : Crypto) (hC : C.Lawful) (ctx : Ctx) (env : DecEnv) (hk : ctx.kind.is2022 = true) :
    Good (unitIdeal C ctx env) := by
  have hn := kind_n_pos ctx.kind
  -- the ideal step, when it is not `need`, is `unit` on a primed buffer
  have hpr : ∀ d b, unitIdeal C ctx env d b ≠ .need → Primed ctx d b ∧ unitIdeal C ctx env d b = unit C ctx env d b := by
    intro d b hne
    unfold unitIdeal at hne ⊢
    split at hne
    · exact absurd rfl hne
    · rename_i hc
      rw [if_neg hc]
      refine ⟨?_, rfl⟩
      intro h1
      by_cases h2 : b.length < ctx.kind.n + hdrLen ctx d.sess
      · exact absurd ⟨h1, h2⟩ hc
      · omega
  -- stability of `unit` on a primed buffer
  have hst : ∀ d b t, Primed ctx d b → unit C ctx env d b ≠ .need → unit C ctx env d (b ++ t) = unit C ctx env d b := by
    intro d b t hp hne
    cases hc : d.chunk with
    | none =>
      have hlen := hp (by simp [hc])
      have hb0 : b.length ≠ 0 := by omega
      have hbt0 : (b ++ t).length ≠ 0 := by simp only [List.length_append]; omega
      simp only [unit, hc, hk, if_true, if_neg hb0, if_neg hbt0] at hne ⊢
      exact init2022_append C ctx env d b t hlen hne
    | some cd =>
      simp only [unit, hc] at hne ⊢
      cases hu : chunkUnit C cd b with
      | need => simp [hu] at hne
      | fail cd' m => rw [(chunkUnit_good C hC).stable_fail cd b t cd' m hu]
      | take cd' m o => rw [(chunkUnit_good C hC).stable_take cd b t cd' m o hu]
  have hmono : ∀ d b t, Primed ctx d b → Primed ctx d (b ++ t) := by
    intro d b t hp h1
    have := hp h1
    simp only [List.length_append]; omega
  have hstI : ∀ d b t, unitIdeal C ctx env d b ≠ .need → unitIdeal C ctx env d (b ++ t) = unitIdeal C ctx env d b := by
    intro d b t hne
    obtain ⟨hp, he⟩ := hpr d b hne
    rw [← unitIdeal_eq C ctx env d (b ++ t) (hmono d b t hp), he]
    exact hst d b t hp (by rw [← he]; exact hne)
  have hok : ∀ d b, StepOk b (unitIdeal C ctx env d b) := by
    intro d b
    unfold unitIdeal
    split
    · exact True.intro
    · exact unit_ok C hC ctx env hk d b
  constructor
  · intro s b s' n o h
    have := hok s b
    rw [h] at this
    exact ⟨this.1, this.2.1⟩
  · intro s b t s' n o h
    rw [hstI s b t (by rw [h]; intro hc; cases hc), h]
  · intro s b t s' n h
    rw [hstI s b t (by rw [h]; intro hc; cases hc), h]
  · intro s b s' n h
    have := hok s b
    rw [h] at this
    exact this

/-! ### two unit steps that agree on an invariant set of (state, buffer) pairs -/

section Congr
variable {σ ο : Type}

/-- `u` and `v` agree wherever `P` holds and `P` survives every `take`: the drains agree, and the
result is failed or still in `P` -/
theorem drain_congr (u v : σ → Bytes → Step σ ο) (P : σ → Bytes → Prop)
    (hagree : ∀ s b, P s b → u s b = v s b)
    (hclosed : ∀ s b s' n o, P s b → u s b = .take s' n o → P s' (b.drop n)) :
    ∀ (fuel : Nat) (s : σ) (b : Bytes), P s b →
      drain u fuel s b = drain v fuel s b ∧
        ((drain u fuel s b).failed = true ∨ P (drain u fuel s b).st (drain u fuel s b).buf) := by
  intro fuel
  induction fuel with
  | zero => intro s b hp; exact ⟨rfl, Or.inr hp⟩
  | succ fuel ih =>
    intro s b hp
    simp only [drain]
    rw [← hagree s b hp]
    cases hu : u s b with
    | need => exact ⟨rfl, Or.inr hp⟩
    | fail s' n => exact ⟨rfl, Or.inl rfl⟩
    | take s' n o =>
      obtain ⟨h1, h2⟩ := ih s' (b.drop n) (hclosed s b s' n o hp hu)
      simp only [h1]
      refine ⟨trivial, ?_⟩
      rw [← h1]
      exact h2

theorem feed_congr (u v : σ → Bytes → Step σ ο) (P : σ → Bytes → Prop)
    (hagree : ∀ s b, P s b → u s b = v s b)
    (hclosed : ∀ s b s' n o, P s b → u s b = .take s' n o → P s' (b.drop n))
    (r : Out σ ο) (p : Bytes) (hr : r.failed = true ∨ P r.st (r.buf ++ p)) :
    feed u r p = feed v r p ∧ ((feed u r p).failed = true ∨ P (feed u r p).st (feed u r p).buf) := by
  unfold feed
  cases hf : r.failed with
  | true => simp
  | false =>
    have hp : P r.st (r.buf ++ p) := by
      rcases hr with h | h
      · rw [hf] at h; cases h
      · exact h
    obtain ⟨h1, h2⟩ := drain_congr u v P hagree hclosed ((r.buf ++ p).length + 1) r.st (r.buf ++ p) hp
    simp only [Bool.false_eq_true, if_false, run]
    rw [← h1]
    exact ⟨rfl, h2⟩

theorem foldl_feed_congr (u v : σ → Bytes → Step σ ο) (P : σ → Bytes → Prop)
    (hagree : ∀ s b, P s b → u s b = v s b)
    (hclosed : ∀ s b s' n o, P s b → u s b = .take s' n o → P s' (b.drop n))
    (hmono : ∀ s b t, P s b → P s (b ++ t)) :
    ∀ (ps : List Bytes) (r : Out σ ο), (r.failed = true ∨ P r.st r.buf) →
      ps.foldl (feed u) r = ps.foldl (feed v) r := by
  intro ps
  induction ps with
  | nil => intro r _; rfl
  | cons p ps ih =>
    intro r hr
    have hr' : r.failed = true ∨ P r.st (r.buf ++ p) := hr.imp id (hmono _ _ _)
    obtain ⟨h1, h2⟩ := feed_congr u v P hagree hclosed r p hr'
    simp only [List.foldl_cons]
    rw [ih _ h2, h1]

end Congr

theorem primed_closed (C : Crypto) (hC : C.Lawful) (ctx : Ctx) (env : DecEnv) (hk : ctx.kind.is2022 = true) :
    ∀ s b s' n o, Primed ctx s b → unit C ctx env s b = .take s' n o → Primed ctx s' (b.drop n) := by
  intro s b s' n o _ hu
  have := unit_ok C hC ctx env hk s b
  rw [hu] at this
  intro h1
  have h2 := this.2.2
  cases hc : s'.chunk <;> simp [hc] at h1 h2

theorem primed_mono (ctx : Ctx) : ∀ s b t, Primed ctx s b → Primed ctx s (b ++ t) := by
  intro d b t hp h1
  have := hp h1
  simp only [List.length_append]; omega

/-- **Segmentation with the first-read exemption**: whatever the wire bytes are, if the first piece
holds salt and fixed-length header then feeding the pieces one read at a time is the same as one
run over the whole stream. -/
theorem segmented_eq_whole (C : Crypto) (hC : C.Lawful) (ctx : Ctx) (env : DecEnv) (hk : ctx.kind.is2022 = true)
    (ds : Sess) (p0 : Bytes) (ps : List Bytes) (hp0 : ctx.kind.n + hdrLen ctx ds ≤ p0.length) :
    (p0 :: ps).foldl (feed (unit C ctx env)) (run (unit C ctx env) ⟨none, ds⟩ []) =
      run (unit C ctx env) ⟨none, ds⟩ (p0 :: ps).flatten := by
  have G := unitIdeal_good C hC ctx env hk
  have hagree := unitIdeal_eq C ctx env
  have hclosed := primed_closed C hC ctx env hk
  have hmono := primed_mono ctx
  have hn := kind_n_pos ctx.kind
  have r0 : run (unit C ctx env) ⟨none, ds⟩ [] = ⟨⟨none, ds⟩, [], [], false⟩ :=
    run_need _ _ _ (by simp [unit, hk])
  have r0' : run (unitIdeal C ctx env) ⟨none, ds⟩ [] = ⟨⟨none, ds⟩, [], [], false⟩ :=
    run_need _ _ _ (by simp [unitIdeal, unit, hk])
  have hP0 : Primed ctx ⟨none, ds⟩ ([] ++ p0) := by intro _; simpa using hp0
  obtain ⟨h1, h2⟩ := feed_congr _ _ (Primed ctx) hagree hclosed ⟨⟨none, ds⟩, [], [], false⟩ p0 (Or.inr hP0)
  have hfold : (p0 :: ps).foldl (feed (unit C ctx env)) ⟨⟨none, ds⟩, [], [], false⟩ =
      (p0 :: ps).foldl (feed (unitIdeal C ctx env)) ⟨⟨none, ds⟩, [], [], false⟩ := by
    simp only [List.foldl_cons]
    rw [foldl_feed_congr _ _ (Primed ctx) hagree hclosed hmono ps _ h2, h1]
  rw [r0, hfold, ← r0', feed_pieces _ G, List.nil_append]
  have hPw : Primed ctx ⟨none, ds⟩ (p0 :: ps).flatten := by
    intro _
    simp only [List.flatten_cons, List.length_append]
    exact Nat.le_trans hp0 (Nat.le_add_right _ _)
  exact ((drain_congr _ _ (Primed ctx) hagree hclosed _ _ _ hPw).1).symm

/-! ### identity-header (multi-user) request -/

theorem kind_eih_2022 (k : Kind) (h : k.supportEih = true) : k.is2022 = true := by
  cases k <;> simp_all [Kind.is2022, Kind.supportEih]

/-- Request with one identity header: the client holds the server's identity key `ipsk` and its own
user key; the server finds the user by the hash the identity header decrypts to. -/
theorem request_eih (C : Crypto) (hC : C.Lawful) (cctx sctx : Ctx) (hkind : cctx.kind = sctx.kind)
    (hse : sctx.kind.supportEih = true) (ipsk : Bytes) (hcik : cctx.identityKeys = [ipsk]) (hskey : sctx.key = ipsk)
    (u : User) (hukey : u.key = cctx.key)
    (hfind : findUser sctx.users ((C.blake3Hash cctx.key).take 16) = some u)
    (cs ds : Sess) (env : DecEnv) (ad : Addr)
    (hm : cs.mode = .client) (ha : cs.address = some ad) (hs : cs.salt.length = sctx.kind.n)
    (hcu : cs.user = none) (hrs : cs.requestSalt = none) (hdm : ds.mode = .server) (hda : ds.address = none)
    (w : Bytes) (r : EncRand) (ws : List (Bytes × EncRand))
    (hpad : (Socks5Addr.encode ad).length + 2 + r.padding.length ≤ 0xffff)
    (hnow : r.now < 18446744073709551616) (htime : absDiff env.now r.now ≤ Consts.ssMaxTimeDiff)
    (hseen : env.saltSeen cs.salt = false) (had : ad.Accepted) :
    requireEih sctx ds = true ∧
    ∃ a', (encodeAll C cctx cs {} ((w, r) :: ws)).2 = ⟨some a'⟩ ∧
      run (unit C sctx env) ⟨none, ds⟩ (encodeAll C cctx cs {} ((w, r) :: ws)).1 =
        ⟨⟨some ⟨a', .length⟩, { ds with requestSalt := some cs.salt, user := some u, address := some ad }⟩, [],
          .accepted cs.salt :: ((w :: ws.map Prod.fst).flatten).map .byte, false⟩ := by
  have hk := kind_eih_2022 _ hse
  have husers : sctx.users.length > 0 := by
    cases hus : sctx.users with
    | nil => simp [findUser, hus] at hfind
    | cons x xs => simp
  have hreq : requireEih sctx ds = true := by simp [requireEih, hdm, hse, husers]
  have he : encEih C cctx cs =
      C.aesEnc ((C.blake3Derive identitySubkeyCtx (sctx.key ++ cs.salt)).take sctx.kind.alg.keyLen)
        ((C.blake3Hash cctx.key).take 16) := by
    simp [encEih, hm, hkind, hse, hcik, withEih, makeEih, hskey]
  have hel : (encEih C cctx cs).length = 16 := by rw [he]; exact hC.aes_enc_len _ _
  have hkey : encKey cctx cs = cctx.key := by simp [encKey, hcu]
  refine ⟨hreq, ?_⟩
  exact request_core C hC cctx sctx hkind hk cs ds env ad ad (some u) hm ha hs hrs hdm hda w r ws hpad hnow htime hseen
    (fun t => c14_socks5_roundtrip ad t had) (by rw [hel, hreq]; rfl)
    (by
      intro f
      have ht : (encEih C cctx cs ++ f).take 16 = encEih C cctx cs := by rw [← hel, List.take_left]
      have h16 : ((C.blake3Hash cctx.key).take 16).length = 16 := by
        rw [List.length_take, hC.blake3h_len]; rfl
      simp only [init2022Key, hreq, if_true, ht]
      rw [he, hC.aes_dec_enc _ _ h16, hfind, hkey]
      simp only [hukey])

theorem hdrLen_request_psk (ctx : Ctx) (ds : Sess) (hu : ctx.users = []) (hdm : ds.mode = .server) :
    hdrLen ctx ds = 27 := by
  simp [hdrLen, requireEih_noUsers ctx ds hu, hdm]

theorem hdrLen_request_eih (ctx : Ctx) (ds : Sess) (hreq : requireEih ctx ds = true) (hdm : ds.mode = .server) :
    hdrLen ctx ds = 43 := by
  simp [hdrLen, hreq, hdm]

theorem hdrLen_response (ctx : Ctx) (ds : Sess) (hdm : ds.mode = .client) :
    hdrLen ctx ds = ctx.kind.n + 27 := by
  simp [hdrLen, requireEih_client ctx ds hdm, hdm]; omega

theorem count_accepted_map_byte (salt : Bytes) (l : Bytes) : (l.map Ev.byte).count (.accepted salt) = 0 := by
  induction l with
  | nil => rfl
  | cons x r ih => simp [ih]

/-- everything the property asks of a decoder result, read off its closed form -/
theorem delivered (C : Crypto) (ctx : Ctx) (env : DecEnv) (o : Out Dec Ev) (a' : Auth) (sess : Sess)
    (salt payload : Bytes)
    (h : o = ⟨⟨some ⟨a', .length⟩, sess⟩, [], .accepted salt :: payload.map .byte, false⟩) :
    Ev.bytes o.out = payload ∧ o.failed = false ∧ o.buf = [] ∧ o.st.sess = sess ∧
      o.out = .accepted salt :: payload.map .byte ∧ o.out.count (.accepted salt) = 1 ∧
      unit C ctx env o.st o.buf = .need := by
  subst h
  refine ⟨by simp [Ev.bytes], rfl, rfl, rfl, rfl, ?_, by simp [unit, chunkUnit]⟩
  simp [count_accepted_map_byte]

/-- why the first read is exempt: a first read that holds the salt but not the whole fixed-length
header is refused outright (so `unit` is not `Fr.Good` at the initial state) -/
theorem short_first_read_fails (C : Crypto) (ctx : Ctx) (env : DecEnv) (hk : ctx.kind.is2022 = true) (ds : Sess)
    (b : Bytes) (h1 : ctx.kind.n ≤ b.length) (h2 : b.length < ctx.kind.n + hdrLen ctx ds) :
    unit C ctx env ⟨none, ds⟩ b = .fail ⟨none, ds⟩ 0 := by
  have hn := kind_n_pos ctx.kind
  have hb : b ≠ [] := by intro h; rw [h] at h1; simp at h1; omega
  rw [unit_first C ctx env hk ds b hb, init2022_eq, if_neg (by omega), if_pos h2]

/-- the sender's padding bound (`Consts.ssMaxPadding`) and an address the handshake lets through (`Addr.Accepted`) give the fit condition -/
theorem pad_fits (ad : Addr) (had : ad.Accepted) (pad : Bytes) (hp : pad.length ≤ Consts.ssMaxPadding) :
    (Socks5Addr.encode ad).length + 2 + pad.length ≤ 0xffff := by
  have : Consts.ssMaxPadding = 900 := rfl
  cases ad with
  | domain h p => obtain ⟨_, h2, _⟩ := had; simp [Socks5Addr.encode]; omega
  | v4 ip p => obtain ⟨h1, _⟩ := had; simp [Socks5Addr.encode, h1]; omega
  | v6 ip p => obtain ⟨h1, _⟩ := had; simp [Socks5Addr.encode, h1]; omega

/-! concrete data for the non-vacuity examples (toy crypto, `Crypto.toy_lawful`) -/
namespace Demo22
def ctx : Ctx := ⟨.b3aes128, List.replicate 16 1, [], []⟩
def ad : Addr := .v4 [10, 0, 0, 1] 443
/-- the client's session: fresh salt, target address, no echoed salt yet -/
def cs : Sess := ⟨.client, List.replicate 16 7, none, none, some ad⟩
/-- the server's decoder session -/
def ds : Sess := ⟨.server, [], none, none, none⟩
def env : DecEnv := ⟨1000, fun _ => false⟩
def r : EncRand := ⟨[5, 6, 7], 990⟩
def ws : List (Bytes × EncRand) := [([4, 5], {}), ([], {}), ([6], {})]
def wire : Bytes := (encodeAll Crypto.toy ctx cs {} (([1, 2, 3], r) :: ws)).1
/-- the server's session when it answers, and the client's decoder session -/
def ss : Sess := ⟨.server, List.replicate 16 9, some cs.salt, none, some ad⟩
def cds : Sess := ⟨.client, cs.salt, none, none, some ad⟩
def rwire : Bytes := (encodeAll Crypto.toy ctx ss {} (([8, 9], r) :: ws)).1
/-- multi-user: server context (identity key, one registered user), client context (user key) -/
def ipsk : Bytes := List.replicate 16 2
def ukey : Bytes := List.replicate 16 3
def user : User := ⟨"u", ukey, (Crypto.toy.blake3Hash ukey).take 16⟩
def sctx : Ctx := ⟨.b3aes128, ipsk, [], [⟨"other", List.replicate 16 4, (Crypto.toy.blake3Hash (List.replicate 16 4)).take 16⟩, user]⟩
def cctx : Ctx := ⟨.b3aes128, ukey, [ipsk], []⟩
def ewire : Bytes := (encodeAll Crypto.toy cctx cs {} (([1, 2, 3], r) :: ws)).1
def uss : Sess := ⟨.server, List.replicate 16 9, some cs.salt, some user, some ad⟩
def uwire : Bytes := (encodeAll Crypto.toy sctx uss {} (([8, 9], r) :: ws)).1
end Demo22

end Octo.Ss
