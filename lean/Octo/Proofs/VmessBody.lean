import Octo.Model.Vmess
import Octo.Proofs.Framed
import Octo.Proofs.Bytes
import Octo.Proofs.SsStream
import Octo.Proofs.Toy
/-!
  The VMess AEAD body codec (`AEADBodyCodec`, one direction): the decoder unit is `Good`;
  encoder ∘ decoder round trip for every option combination; several writes; any segmentation.
-/
namespace Octo.Vmess
open Octo.Fr

/-! ### small facts -/

/-- everything the proofs need of the payload limit: one chunk has room for tag + size + padding and
at least one payload byte, and every chunk size fits the 16-bit size field -/
theorem payloadLimit_ok : 97 < Consts.vmessPayloadLimit ∧ Consts.vmessPayloadLimit ≤ 65537 := by decide

theorem take_app (a b : Bytes) (n : Nat) (h : n ≤ a.length) : (a ++ b).take n = a.take n :=
  List.take_append_of_le_length h

theorem rdBE_two_lt (l : Bytes) (h : l.length = 2) : rdBE l < 65536 := by
  match l, h with
  | [x, y], _ =>
    have := x.toNat_lt; have := y.toNat_lt
    simp only [rdBE, List.foldl]; omega

theorem shakeU16_lt (C : Crypto) (hC : C.Lawful) (seed : Bytes) (pos : Nat) : shakeU16 C seed pos < 65536 := by
  unfold shakeU16
  apply rdBE_two_lt
  simp only [List.length_drop, hC.shake_len]; omega

theorem xor_xor_cancel (s n : Nat) : Nat.xor s (Nat.xor s n) = n := by
  show s ^^^ (s ^^^ n) = n
  rw [← Nat.xor_assoc, Nat.xor_self, Nat.zero_xor]

theorem xor16_lt (s n : Nat) (hs : s < 65536) (hn : n < 65536) : Nat.xor s n < 65536 :=
  Nat.xor_lt_two_pow (n := 16) hs hn

theorem Body.sizeBytes_cases (b : Body) : b.sizeBytes = 2 ∨ b.sizeBytes = 18 := by
  unfold Body.sizeBytes; split <;> simp

theorem Body.sizeBytes_eq_of_size (a b : Body) (h : a.size = b.size) : a.sizeBytes = b.sizeBytes := by
  unfold Body.sizeBytes; rw [h]

@[simp] theorem Body.nextPadding_sizeBytes (C : Crypto) (b : Body) : (b.nextPadding C).2.sizeBytes = b.sizeBytes := by
  unfold Body.nextPadding; split <;> rfl

theorem Body.nextPadding_le (C : Crypto) (b : Body) : (b.nextPadding C).1 ≤ 63 := by
  unfold Body.nextPadding; split
  · have : shakeU16 C b.shakeSeed b.shakePos % 64 < 64 := Nat.mod_lt _ (by omega)
    simp only; omega
  · simp

theorem Body.nextPadding_noPad (C : Crypto) (b : Body) (h : b.globalPadding = false) : (b.nextPadding C).1 = 0 := by
  unfold Body.nextPadding; simp [h]

/-! ### the decoder unit in equational form -/

theorem Body.unit_padding (C : Crypto) (b : Body) (buf : Bytes) (h : b.st = .padding) :
    Body.unit C b buf =
      if buf.length < b.sizeBytes then .need else
      match (b.nextPadding C).2.decodeSize C (buf.take b.sizeBytes) with
      | (none, b') => .fail { b' with st := .length (b.nextPadding C).1 } b.sizeBytes
      | (some len, b') => .take { b' with st := .body (b.nextPadding C).1 len } b.sizeBytes [] := by
  simp only [Body.unit, h, Body.nextPadding_sizeBytes]
  rfl

theorem Body.unit_length (C : Crypto) (b : Body) (buf : Bytes) (pl : Nat) (h : b.st = .length pl) :
    Body.unit C b buf =
      if buf.length < b.sizeBytes then .need else
      match b.decodeSize C (buf.take b.sizeBytes) with
      | (none, b') => .fail b' b.sizeBytes
      | (some len, b') => .take { b' with st := .body pl len } b.sizeBytes [] := by
  simp only [Body.unit, h]
  rfl

theorem Body.unit_body (C : Crypto) (b : Body) (buf : Bytes) (pl len : Nat) (h : b.st = .body pl len) :
    Body.unit C b buf =
      if len < pl + 16 then .fail b 0 else
      if buf.length < len then .need else
      match C.openB b.sec.alg b.key (Nonce.counting b.iv b.count 12) [] (buf.take (len - pl)) with
      | none => .fail { b with count := b.count + 1 } (len - pl)
      | some p => .take { b with count := b.count + 1, st := .padding } len p := by
  simp only [Body.unit, h]
  rfl

/-! ### 1. the unit step is `Good` -/

theorem body_unit_good (C : Crypto) : Good (Body.unit C) where
  progress := by
    intro s b s' n o h
    have hsb := s.sizeBytes_cases
    cases hs : s.st with
    | padding =>
      rw [Body.unit_padding C s b hs] at h
      split at h
      · cases h
      · split at h <;> cases h
        omega
    | length pl =>
      rw [Body.unit_length C s b pl hs] at h
      split at h
      · cases h
      · split at h <;> cases h
        omega
    | body pl len =>
      rw [Body.unit_body C s b pl len hs] at h
      split at h
      · cases h
      · split at h
        · cases h
        · split at h <;> cases h
          omega
  stable_take := by
    intro s b t s' n o h
    cases hs : s.st with
    | padding =>
      rw [Body.unit_padding C s b hs] at h
      rw [Body.unit_padding C s (b ++ t) hs]
      split at h
      · cases h
      · rw [if_neg (by simp only [List.length_append]; omega), take_app _ _ _ (by omega)]
        exact h
    | length pl =>
      rw [Body.unit_length C s b pl hs] at h
      rw [Body.unit_length C s (b ++ t) pl hs]
      split at h
      · cases h
      · rw [if_neg (by simp only [List.length_append]; omega), take_app _ _ _ (by omega)]
        exact h
    | body pl len =>
      rw [Body.unit_body C s b pl len hs] at h
      rw [Body.unit_body C s (b ++ t) pl len hs]
      split at h
      · cases h
      · rename_i h1
        rw [if_neg h1]
        split at h
        · cases h
        · rw [if_neg (by simp only [List.length_append]; omega), take_app _ _ _ (by omega)]
          exact h
  stable_fail := by
    intro s b t s' n h
    cases hs : s.st with
    | padding =>
      rw [Body.unit_padding C s b hs] at h
      rw [Body.unit_padding C s (b ++ t) hs]
      split at h
      · cases h
      · rw [if_neg (by simp only [List.length_append]; omega), take_app _ _ _ (by omega)]
        exact h
    | length pl =>
      rw [Body.unit_length C s b pl hs] at h
      rw [Body.unit_length C s (b ++ t) pl hs]
      split at h
      · cases h
      · rw [if_neg (by simp only [List.length_append]; omega), take_app _ _ _ (by omega)]
        exact h
    | body pl len =>
      rw [Body.unit_body C s b pl len hs] at h
      rw [Body.unit_body C s (b ++ t) pl len hs]
      split at h
      · rename_i h1
        rw [if_pos h1]; exact h
      · rename_i h1
        rw [if_neg h1]
        split at h
        · cases h
        · rw [if_neg (by simp only [List.length_append]; omega), take_app _ _ _ (by omega)]
          exact h
  fail_le := by
    intro s b s' n h
    cases hs : s.st with
    | padding =>
      rw [Body.unit_padding C s b hs] at h
      split at h
      · cases h
      · split at h <;> cases h
        omega
    | length pl =>
      rw [Body.unit_length C s b pl hs] at h
      split at h
      · cases h
      · split at h <;> cases h
        omega
    | body pl len =>
      rw [Body.unit_body C s b pl len hs] at h
      split at h
      · cases h; omega
      · split at h
        · cases h
        · split at h <;> cases h
          omega

/-! ### 2. encoder / decoder synchronisation and the single-chunk lemma -/

/-- a sender-side and a receiver-side `Body` agree on every cipher / size-parser / padding field and
the receiver is at a chunk boundary (the encoder never reads or writes `st`) -/
def Body.Sync (e d : Body) : Prop := d = { e with st := .padding }

instance (e d : Body) : Decidable (Body.Sync e d) := inferInstanceAs (Decidable (d = _))

theorem Body.sync_iff (e d : Body) : Body.Sync e d ↔
    (d.sec = e.sec ∧ d.key = e.key ∧ d.iv = e.iv ∧ d.count = e.count ∧ d.size = e.size ∧ d.sizeKey = e.sizeKey ∧
      d.sizeIv = e.sizeIv ∧ d.sizeCount = e.sizeCount ∧ d.globalPadding = e.globalPadding ∧
      d.shakeSeed = e.shakeSeed ∧ d.shakePos = e.shakePos ∧ d.st = .padding) := by
  unfold Body.Sync
  constructor
  · intro h; subst h; simp
  · intro h
    cases d; cases e
    simp only [Body.mk.injEq] at h ⊢
    exact h

/-- payload bytes carried by the next chunk of `src` -/
def Body.chunkLen (C : Crypto) (e : Body) (src : Bytes) : Nat :=
  min src.length (Consts.vmessPayloadLimit - 16 - e.sizeBytes - (e.nextPadding C).1)

theorem Body.chunkLen_le (C : Crypto) (e : Body) (src : Bytes) : e.chunkLen C src ≤ src.length := by
  unfold Body.chunkLen; omega

/-- a full chunk carries at least `limit - 97` bytes, so a chunk of a non-empty source is never empty -/
theorem Body.chunkLen_ge (C : Crypto) (e : Body) (src : Bytes) :
    e.chunkLen C src = src.length ∨ Consts.vmessPayloadLimit - 97 ≤ e.chunkLen C src := by
  have := e.nextPadding_le C
  have := e.sizeBytes_cases
  unfold Body.chunkLen; omega

theorem Body.chunkLen_pos (C : Crypto) (e : Body) (src : Bytes) (h : src ≠ []) : 0 < e.chunkLen C src := by
  have := e.chunkLen_ge C src
  have := payloadLimit_ok
  have : 0 < src.length := List.length_pos_iff.mpr h
  omega

/-- the chunk size `n + pl + 16` fits the 16-bit size field (whichever parser writes it) -/
theorem Body.chunkLen_size_lt (C : Crypto) (e : Body) (src : Bytes) :
    e.chunkLen C src + (e.nextPadding C).1 + 16 < 65536 := by
  have := e.nextPadding_le C
  have := e.sizeBytes_cases
  have := payloadLimit_ok
  unfold Body.chunkLen; omega

theorem Body.nextPadding_st (C : Crypto) (b : Body) (s : BodySt) :
    ({ b with st := s } : Body).nextPadding C = ((b.nextPadding C).1, { (b.nextPadding C).2 with st := s }) := by
  unfold Body.nextPadding; simp only; split <;> rfl

theorem Body.encodeSize_length (C : Crypto) (hC : C.Lawful) (b : Body) (size : Nat) :
    (b.encodeSize C size).1.length = b.sizeBytes := by
  unfold Body.encodeSize Body.sizeBytes
  cases h : b.size <;> simp [hC.seal_len]

/-- the three size parsers invert their writers (sizes between the tag length and 2^16), and move
the size-cipher counter / XOF position identically on both sides -/
theorem Body.decodeSize_encodeSize (C : Crypto) (hC : C.Lawful) (b : Body) (s : BodySt) (size : Nat)
    (h16 : 16 ≤ size) (hlt : size < 65536) :
    ({ b with st := s } : Body).decodeSize C (b.encodeSize C size).1 =
      (some size, { (b.encodeSize C size).2 with st := s }) := by
  unfold Body.encodeSize Body.decodeSize
  cases h : b.size
  · simp only [rdBE_be16 size hlt, h]
  · simp only [hC.open_seal, rdBE_be16 (size - 16) (by omega)]
    congr 2; omega
  · have hs := shakeU16_lt C hC b.shakeSeed b.shakePos
    have hx := xor16_lt _ _ hs hlt
    simp only [Nat.mod_eq_of_lt hx, rdBE_be16 _ hx, xor_xor_cancel]

theorem Body.encodeSize_sizeBytes (C : Crypto) (b : Body) (size : Nat) :
    (b.encodeSize C size).2.sizeBytes = b.sizeBytes := by
  unfold Body.encodeSize Body.sizeBytes
  cases h : b.size <;> simp [h]

/-- `encodeChunk` in projection form -/
theorem Body.encodeChunk_eq (C : Crypto) (e : Body) (src pad : Bytes) :
    e.encodeChunk C src pad =
      (let pl := (e.nextPadding C).1
       let n := e.chunkLen C src
       let e2 := ((e.nextPadding C).2.encodeSize C (n + pl + 16)).2
       (((e.nextPadding C).2.encodeSize C (n + pl + 16)).1 ++
          C.sealB e2.sec.alg e2.key (Nonce.counting e2.iv e2.count 12) [] (src.take n) ++ pad.take pl,
        src.drop n, { e2 with count := e2.count + 1 })) := by
  simp only [Body.encodeChunk, Body.chunkLen, Body.nextPadding_sizeBytes]

theorem Body.encodeChunk_rest (C : Crypto) (e : Body) (src pad : Bytes) :
    (e.encodeChunk C src pad).2.1 = src.drop (e.chunkLen C src) := by
  rw [Body.encodeChunk_eq]

/-- wire length of one chunk: size field + payload + tag + padding -/
theorem Body.encodeChunk_length (C : Crypto) (hC : C.Lawful) (e : Body) (src pad : Bytes)
    (hpad : (e.nextPadding C).1 ≤ pad.length) :
    (e.encodeChunk C src pad).1.length = e.sizeBytes + (e.chunkLen C src + 16) + (e.nextPadding C).1 := by
  have := e.chunkLen_le C src
  rw [Body.encodeChunk_eq]
  simp only [List.length_append, Body.encodeSize_length C hC, hC.seal_len, List.length_take,
    Body.nextPadding_sizeBytes]
  omega

/-- **single chunk, as two unit steps**: from synchronised states the decoder reads the size field
(`take sizeBytes`, no output) and then the body (`take (n + pl + 16)`, output `src.take n`), and is
synchronised with the encoder again; whatever follows the chunk (`t`) is not looked at -/
theorem body_chunk_steps (C : Crypto) (hC : C.Lawful) (e d : Body) (hs : Body.Sync e d) (src pad t : Bytes)
    (hpad : (e.nextPadding C).1 ≤ pad.length) :
    ∃ dm d', Body.Sync (e.encodeChunk C src pad).2.2 d' ∧
      dm.st = .body (e.nextPadding C).1 (e.chunkLen C src + (e.nextPadding C).1 + 16) ∧
      Body.unit C d ((e.encodeChunk C src pad).1 ++ t) = .take dm e.sizeBytes [] ∧
      Body.unit C dm (((e.encodeChunk C src pad).1 ++ t).drop e.sizeBytes) =
        .take d' (e.chunkLen C src + (e.nextPadding C).1 + 16) (src.take (e.chunkLen C src)) ∧
      (((e.encodeChunk C src pad).1 ++ t).drop e.sizeBytes).drop (e.chunkLen C src + (e.nextPadding C).1 + 16) = t := by
  have hlen := Body.encodeChunk_length C hC e src pad hpad
  have hnle := e.chunkLen_le C src
  have hsize := e.chunkLen_size_lt C src
  rw [Body.encodeChunk_eq] at hlen ⊢
  simp only at hlen ⊢
  -- name the pieces
  obtain ⟨pl, e1, h1⟩ : ∃ pl e1, e.nextPadding C = (pl, e1) := ⟨_, _, rfl⟩
  have hsb1 : e1.sizeBytes = e.sizeBytes := by
    have := Body.nextPadding_sizeBytes C e; rw [h1] at this; exact this
  rw [h1] at hlen hsize hpad ⊢
  simp only at hlen hsize hpad ⊢
  generalize hn : e.chunkLen C src = n at *
  obtain ⟨sz, e2, h2⟩ : ∃ sz e2, e1.encodeSize C (n + pl + 16) = (sz, e2) := ⟨_, _, rfl⟩
  have hszl : sz.length = e.sizeBytes := by
    have := Body.encodeSize_length C hC e1 (n + pl + 16); rw [h2, hsb1] at this; exact this
  have hdec : ({ e1 with st := .padding } : Body).decodeSize C sz = (some (n + pl + 16), { e2 with st := .padding }) := by
    have := Body.decodeSize_encodeSize C hC e1 .padding (n + pl + 16) (by omega) hsize
    rw [h2] at this; exact this
  rw [h2] at hlen ⊢
  simp only at hlen ⊢
  generalize hct : C.sealB e2.sec.alg e2.key (Nonce.counting e2.iv e2.count 12) [] (src.take n) = ct at *
  have hctl : ct.length = n + 16 := by
    rw [← hct, hC.seal_len, List.length_take]; omega
  have hpl : (pad.take pl).length = pl := by rw [List.length_take]; omega
  have hd : d = { e with st := .padding } := hs
  subst hd
  refine ⟨{ e2 with st := .body pl (n + pl + 16) }, { e2 with count := e2.count + 1, st := .padding }, rfl, rfl, ?_, ?_, ?_⟩
  · rw [Body.unit_padding C _ _ rfl]
    have hsb : ({ e with st := .padding } : Body).sizeBytes = e.sizeBytes := rfl
    rw [hsb, if_neg (by simp only [List.length_append, hszl]; omega)]
    rw [Body.nextPadding_st, h1]
    simp only [List.append_assoc]
    rw [← hszl, List.take_left, hdec]
  · simp only [List.append_assoc]
    rw [← hszl, List.drop_left]
    rw [Body.unit_body C _ _ pl (n + pl + 16) rfl]
    rw [if_neg (by omega), if_neg (by simp only [List.length_append, hctl, hpl]; omega)]
    have ht : (ct ++ (pad.take pl ++ t)).take (n + pl + 16 - pl) = ct := by
      have : n + pl + 16 - pl = ct.length := by omega
      rw [this, List.take_left]
    rw [ht]
    show (match C.openB e2.sec.alg e2.key (Nonce.counting e2.iv e2.count 12) [] ct with
      | none => _ | some p => _) = _
    rw [← hct, hC.open_seal]
  · simp only [List.append_assoc]
    rw [← hszl, List.drop_left]
    have : n + pl + 16 = (ct ++ pad.take pl).length := by simp only [List.length_append, hctl, hpl]; omega
    rw [← List.append_assoc, this, List.drop_left]

/-- **single chunk, as a run**: the decoder takes exactly the chunk, outputs exactly `src.take n`, and
continues on the tail from a state synchronised with the encoder's -/
theorem body_chunk_roundtrip (C : Crypto) (hC : C.Lawful) (e d : Body) (hs : Body.Sync e d) (src pad t : Bytes)
    (hpad : (e.nextPadding C).1 ≤ pad.length) :
    ∃ d', Body.Sync (e.encodeChunk C src pad).2.2 d' ∧
      run (Body.unit C) d ((e.encodeChunk C src pad).1 ++ t) =
        ⟨(run (Body.unit C) d' t).st, (run (Body.unit C) d' t).buf,
          src.take (e.chunkLen C src) ++ (run (Body.unit C) d' t).out, (run (Body.unit C) d' t).failed⟩ := by
  have G := body_unit_good C
  obtain ⟨dm, d', hs', _, u1, u2, hd⟩ := body_chunk_steps C hC e d hs src pad t hpad
  refine ⟨d', hs', ?_⟩
  rw [run_take _ G _ _ _ _ _ u1, run_take _ G _ _ _ _ _ u2, hd]
  simp

/-! ### 3. a whole write -/

/-- "enough padding": with global padding every chunk draws up to 63 bytes from `pad` and then moves
63 bytes on; a write of `len` bytes has at most `⌈len / (limit - 97)⌉` chunks.  Without global
padding (or for an empty write) nothing is required of `pad`. -/
def PadEnough (e : Body) (len : Nat) (pad : Bytes) : Prop :=
  e.globalPadding = true →
    63 * ((len + (Consts.vmessPayloadLimit - 97 - 1)) / (Consts.vmessPayloadLimit - 97)) ≤ pad.length

instance (e : Body) (len : Nat) (pad : Bytes) : Decidable (PadEnough e len pad) := by
  unfold PadEnough; infer_instance

theorem padEnough_of_noPadding (e : Body) (len : Nat) (pad : Bytes) (h : e.globalPadding = false) :
    PadEnough e len pad := by
  intro h'; rw [h] at h'; cases h'

theorem Body.encodeChunk_globalPadding (C : Crypto) (e : Body) (src pad : Bytes) :
    (e.encodeChunk C src pad).2.2.globalPadding = e.globalPadding := by
  rw [Body.encodeChunk_eq]
  simp only [Body.encodeSize, Body.nextPadding]
  split <;> split <;> rfl

theorem padEnough_head (C : Crypto) (e : Body) (len : Nat) (hlen : 0 < len) (pad : Bytes) (h : PadEnough e len pad) :
    (e.nextPadding C).1 ≤ pad.length := by
  cases hg : e.globalPadding with
  | false => rw [e.nextPadding_noPad C hg]; omega
  | true =>
    have h := h hg
    have := e.nextPadding_le C
    have hK : 0 < Consts.vmessPayloadLimit - 97 := by have := payloadLimit_ok; omega
    generalize Consts.vmessPayloadLimit - 97 = K at *
    have h1 : (len + (K - 1)) / K = (len + (K - 1) - K) / K + 1 := Nat.div_eq_sub_div hK (by omega)
    generalize (len + (K - 1) - K) / K = q at *
    omega

theorem padEnough_tail (e e' : Body) (hg : e'.globalPadding = e.globalPadding) (len len' : Nat) (pad : Bytes)
    (h : PadEnough e len pad) (hlen : len' = 0 ∨ len' + (Consts.vmessPayloadLimit - 97) ≤ len) :
    PadEnough e' len' (pad.drop 63) := by
  intro hg'
  have h := h (hg ▸ hg')
  have hK : 0 < Consts.vmessPayloadLimit - 97 := by have := payloadLimit_ok; omega
  generalize Consts.vmessPayloadLimit - 97 = K at *
  rw [List.length_drop]
  rcases hlen with h0 | hle
  · subst h0
    rw [Nat.zero_add, Nat.div_eq_of_lt (by omega)]
    omega
  · have h1 : (len + (K - 1)) / K = (len + (K - 1) - K) / K + 1 := Nat.div_eq_sub_div hK (by omega)
    have h2 : (len' + (K - 1)) / K ≤ (len + (K - 1) - K) / K := Nat.div_le_div_right (by omega)
    generalize (len + (K - 1) - K) / K = q at *
    generalize (len' + (K - 1)) / K = q' at *
    omega

/-- the body decoder started at a chunk boundary on an empty buffer waits -/
theorem Body.unit_nil (C : Crypto) (d : Body) (h : d.st = .padding) : Body.unit C d [] = .need := by
  have := d.sizeBytes_cases
  rw [Body.unit_padding C d [] h, if_pos (by simp only [List.length_nil]; omega)]

/-- round trip of one write, for any fuel that exceeds the source length, followed by any tail -/
theorem body_payload_roundtrip_fuel (C : Crypto) (hC : C.Lawful) : ∀ (fuel : Nat) (e d : Body) (src pad : Bytes),
    Body.Sync e d → src.length < fuel → PadEnough e src.length pad →
    ∃ d', Body.Sync (Body.encodePayload C fuel e src pad).2 d' ∧
      (Body.encodePayload C fuel e src pad).2.globalPadding = e.globalPadding ∧
      run (Body.unit C) d (Body.encodePayload C fuel e src pad).1 = ⟨d', [], src, false⟩ := by
  intro fuel
  induction fuel with
  | zero => intro e d src pad _ h; omega
  | succ fuel ih =>
    intro e d src pad hs hf hp
    cases src with
    | nil =>
      refine ⟨d, hs, rfl, ?_⟩
      have hst : d.st = .padding := ((Body.sync_iff e d).mp hs).2.2.2.2.2.2.2.2.2.2.2
      exact run_need _ _ _ (Body.unit_nil C d hst)
    | cons x xs =>
      have hne : (x :: xs) ≠ [] := by simp
      have hpos := e.chunkLen_pos C (x :: xs) hne
      have hge := e.chunkLen_ge C (x :: xs)
      have hle := e.chunkLen_le C (x :: xs)
      have hrest := Body.encodeChunk_rest C e (x :: xs) pad
      have hgp := Body.encodeChunk_globalPadding C e (x :: xs) pad
      obtain ⟨d1, hs1, hrun⟩ := body_chunk_roundtrip C hC e d hs (x :: xs) pad
        (Body.encodePayload C fuel (e.encodeChunk C (x :: xs) pad).2.2 (e.encodeChunk C (x :: xs) pad).2.1 (pad.drop 63)).1
        (padEnough_head C e _ (by simp) pad hp)
      have hrl : (e.encodeChunk C (x :: xs) pad).2.1.length = (x :: xs).length - e.chunkLen C (x :: xs) := by
        rw [hrest, List.length_drop]
      obtain ⟨d', hs', hg', hrun'⟩ := ih (e.encodeChunk C (x :: xs) pad).2.2 d1 (e.encodeChunk C (x :: xs) pad).2.1 (pad.drop 63)
        hs1 (by rw [hrl]; omega)
        (padEnough_tail e _ hgp _ _ pad hp (by rw [hrl]; omega))
      have henc : Body.encodePayload C (fuel + 1) e (x :: xs) pad =
          ((e.encodeChunk C (x :: xs) pad).1 ++
            (Body.encodePayload C fuel (e.encodeChunk C (x :: xs) pad).2.2 (e.encodeChunk C (x :: xs) pad).2.1 (pad.drop 63)).1,
           (Body.encodePayload C fuel (e.encodeChunk C (x :: xs) pad).2.2 (e.encodeChunk C (x :: xs) pad).2.1 (pad.drop 63)).2) := by
        simp [Body.encodePayload]
      rw [henc]
      refine ⟨d', hs', hg'.trans hgp, ?_⟩
      simp only
      rw [hrun, hrun', hrest]
      simp only [List.take_append_drop]

/-- **one write, every option combination** (size kind plain / auth / shake, global padding on / off,
both ciphers): the decoder yields exactly the source, consumes the whole wire, does not fail, and ends
synchronised with the encoder.  The driver's fuel `src.length + 1` suffices. -/
theorem body_payload_roundtrip (C : Crypto) (hC : C.Lawful) (e d : Body) (hs : Body.Sync e d) (src pad : Bytes)
    (hp : PadEnough e src.length pad) :
    ∃ d', Body.Sync (Body.encodePayload C (src.length + 1) e src pad).2 d' ∧
      run (Body.unit C) d (Body.encodePayload C (src.length + 1) e src pad).1 = ⟨d', [], src, false⟩ := by
  obtain ⟨d', h1, _, h2⟩ := body_payload_roundtrip_fuel C hC (src.length + 1) e d src pad hs (Nat.lt_succ_self _) hp
  exact ⟨d', h1, h2⟩

/-- the fuel is only a termination device: every fuel above the source length gives the same wire and
the same final encoder state (each chunk of a non-empty source consumes at least one byte) -/
theorem Body.encodePayload_fuel (C : Crypto) : ∀ (f1 f2 : Nat) (e : Body) (src pad : Bytes),
    src.length < f1 → src.length < f2 → Body.encodePayload C f1 e src pad = Body.encodePayload C f2 e src pad := by
  intro f1
  induction f1 with
  | zero => intro f2 e src pad h; omega
  | succ f1 ih =>
    intro f2 e src pad h1 h2
    cases f2 with
    | zero => omega
    | succ f2 =>
      cases src with
      | nil => simp [Body.encodePayload]
      | cons x xs =>
        have hpos := e.chunkLen_pos C (x :: xs) (by simp)
        have hle := e.chunkLen_le C (x :: xs)
        have hrl : (e.encodeChunk C (x :: xs) pad).2.1.length = (x :: xs).length - e.chunkLen C (x :: xs) := by
          rw [Body.encodeChunk_rest, List.length_drop]
        simp only [Body.encodePayload, List.isEmpty_cons, Bool.false_eq_true, if_false]
        rw [ih f2 _ _ _ (by rw [hrl]; omega) (by rw [hrl]; omega)]

/-! ### 4. several writes -/

/-- the honest sender: items (each with its padding source) encoded one after the other with the
evolving encoder state, fuel as in the driver -/
def Body.encodeAll (C : Crypto) : Body → List (Bytes × Bytes) → Bytes × Body
  | b, [] => ([], b)
  | b, (src, pad) :: ws =>
    let (w, b) := Body.encodePayload C (src.length + 1) b src pad
    let (r, b) := Body.encodeAll C b ws
    (w ++ r, b)

theorem padEnough_congr (e e' : Body) (h : e'.globalPadding = e.globalPadding) (len : Nat) (pad : Bytes)
    (hp : PadEnough e len pad) : PadEnough e' len pad := by
  intro hg; exact hp (h ▸ hg)

theorem body_all_roundtrip (C : Crypto) (hC : C.Lawful) (ws : List (Bytes × Bytes)) : ∀ (e d : Body),
    Body.Sync e d → (∀ w ∈ ws, PadEnough e w.1.length w.2) →
    ∃ d', Body.Sync (Body.encodeAll C e ws).2 d' ∧
      run (Body.unit C) d (Body.encodeAll C e ws).1 = ⟨d', [], (ws.map Prod.fst).flatten, false⟩ := by
  have G := body_unit_good C
  induction ws with
  | nil =>
    intro e d hs _
    have hst : d.st = .padding := ((Body.sync_iff e d).mp hs).2.2.2.2.2.2.2.2.2.2.2
    exact ⟨d, hs, run_need _ _ _ (Body.unit_nil C d hst)⟩
  | cons w ws ih =>
    intro e d hs hp
    obtain ⟨src, pad⟩ := w
    obtain ⟨d1, hs1, hg1, hrun1⟩ := body_payload_roundtrip_fuel C hC (src.length + 1) e d src pad hs
      (Nat.lt_succ_self _) (hp (src, pad) List.mem_cons_self)
    obtain ⟨d', hs', hrun'⟩ := ih (Body.encodePayload C (src.length + 1) e src pad).2 d1 hs1
      (fun w hw => padEnough_congr e _ hg1 _ _ (hp w (List.mem_cons_of_mem _ hw)))
    refine ⟨d', hs', ?_⟩
    simp only [Body.encodeAll]
    rw [Ss.run_concat _ G _ _ _ _ _ hrun1, hrun']
    simp

/-! ### 6. datagrams (`encode_packet` / `decode_packet`) and `Body.new` -/

/-- the largest datagram `encode_packet` accepts -/
def Body.packetLimit (b : Body) : Nat :=
  Consts.vmessPayloadLimit - 16 - b.sizeBytes - (if b.globalPadding then 63 else 0)

/-- `encode_packet` answers `some` exactly when the datagram fits -/
theorem Body.encodePacket_isSome (C : Crypto) (e : Body) (src pad : Bytes) :
    (e.encodePacket C src pad).isSome = true ↔ src.length ≤ e.packetLimit := by
  unfold Body.encodePacket Body.packetLimit
  simp only
  by_cases h : src.length > Consts.vmessPayloadLimit - 16 - e.sizeBytes - (if e.globalPadding then 63 else 0)
  · rw [if_pos h]
    simp only [Option.isSome_none, Bool.false_eq_true, false_iff]; omega
  · rw [if_neg h]
    simp only [Option.isSome_some, true_iff]; omega

theorem Body.encodePacket_some (C : Crypto) (e : Body) (src pad : Bytes) (h : src.length ≤ e.packetLimit) :
    e.encodePacket C src pad = some ((e.encodeChunk C src pad).1, (e.encodeChunk C src pad).2.2) := by
  unfold Body.encodePacket
  unfold Body.packetLimit at h
  simp only
  rw [if_neg (by omega)]

/-- an accepted datagram is carried whole by its one chunk -/
theorem Body.chunkLen_packet (C : Crypto) (e : Body) (src : Bytes) (h : src.length ≤ e.packetLimit) :
    e.chunkLen C src = src.length := by
  have hpl : (e.nextPadding C).1 ≤ (if e.globalPadding then 63 else 0) := by
    cases hg : e.globalPadding with
    | false => rw [e.nextPadding_noPad C hg]; simp
    | true => have := e.nextPadding_le C; simpa using this
  unfold Body.packetLimit at h
  unfold Body.chunkLen
  omega

/-- **one datagram**: `encode_packet` accepts it iff it fits, and then the packet decoder
(`decode_packet` = units up to and including the first completed chunk) yields exactly the datagram,
leaves whatever followed the chunk, and is synchronised with the encoder again -/
theorem body_packet_roundtrip (C : Crypto) (hC : C.Lawful) (e d : Body) (hs : Body.Sync e d) (src pad t : Bytes)
    (hfit : src.length ≤ e.packetLimit) (hpad : (e.nextPadding C).1 ≤ pad.length) :
    ∃ w e' d', e.encodePacket C src pad = some (w, e') ∧ Body.Sync e' d' ∧
      bodyDecode C .udp d (w ++ t) = (d', t, .ok src) ∧
      run (Body.unit C) d w = ⟨d', [], src, false⟩ := by
  have G := body_unit_good C
  obtain ⟨dm, d', hs', hdmst, u1, u2, hd⟩ := body_chunk_steps C hC e d hs src pad t hpad
  refine ⟨_, _, d', Body.encodePacket_some C e src pad hfit, ?_⟩
  obtain ⟨dm0, d0, hs0, _, v1, v2, hd0⟩ := body_chunk_steps C hC e d hs src pad [] hpad
  have hn := Body.chunkLen_packet C e src hfit
  rw [hn, List.take_length] at u2 v2
  rw [hn] at hd hd0
  have hst : d'.st = .padding := ((Body.sync_iff _ d').mp hs').2.2.2.2.2.2.2.2.2.2.2
  have hdm : dm.st ≠ .padding := by rw [hdmst]; simp
  refine ⟨hs', ?_, ?_⟩
  · simp only [bodyDecode, bodyDrainPacket, u1, if_neg hdm, u2, if_pos hst, hd]
  · -- the same two steps on the chunk alone
    have hsd : d0 = d' := by
      rw [show d0 = { (e.encodeChunk C src pad).2.2 with st := .padding } from hs0,
        show d' = { (e.encodeChunk C src pad).2.2 with st := .padding } from hs']
    rw [List.append_nil] at v1 v2 hd0
    rw [run_take _ G _ _ _ _ _ v1, run_take _ G _ _ _ _ _ v2, hd0, hsd,
      run_need _ _ _ (Body.unit_nil C d' hst)]
    simp

/-- both ends build their codec with `Body.new` from the same arguments: they start synchronised -/
theorem Body.new_sync (C : Crypto) (mask : Nat) (sec : Security) (key iv : Bytes) (s : Session) :
    Body.Sync (Body.new C mask sec key iv s) (Body.new C mask sec key iv s) := rfl

/-- the size kind and global-padding flag selected by the option mask -/
theorem Body.new_opts (C : Crypto) (mask : Nat) (sec : Security) (key iv : Bytes) (s : Session) :
    (Body.new C mask sec key iv s).size =
        (if hasOpt mask optAuthLen then .auth else if hasOpt mask optChunkMasking then .shake else .plain) ∧
      (Body.new C mask sec key iv s).globalPadding = hasOpt mask optGlobalPadding ∧
      (Body.new C mask sec key iv s).sec = sec := ⟨rfl, rfl, rfl⟩

/-! ### 3'. the per-chunk-padding form used by the client and server codecs (`encodePayloadP`) -/

/-- exactly what `encodePayloadP` needs of its padding lists: the list handed to each chunk is at
least as long as that chunk's padding length (the real codec draws exactly that many random bytes) -/
def Body.PadsOk (C : Crypto) : Nat → Body → Bytes → List Bytes → Prop
  | 0, _, _, _ => True
  | fuel+1, b, src, pads =>
    src = [] ∨ ((b.nextPadding C).1 ≤ (pads.headD []).length ∧
      Body.PadsOk C fuel (b.encodeChunk C src (pads.headD [])).2.2 (b.encodeChunk C src (pads.headD [])).2.1 pads.tail)

theorem Body.padsOk_of_noPadding (C : Crypto) : ∀ (fuel : Nat) (e : Body) (src : Bytes) (pads : List Bytes),
    e.globalPadding = false → Body.PadsOk C fuel e src pads := by
  intro fuel
  induction fuel with
  | zero => intro e src pads _; trivial
  | succ fuel ih =>
    intro e src pads hg
    refine Or.inr ⟨by rw [e.nextPadding_noPad C hg]; omega, ih _ _ _ ?_⟩
    rw [Body.encodeChunk_globalPadding, hg]

theorem body_payloadP_roundtrip_fuel (C : Crypto) (hC : C.Lawful) : ∀ (fuel : Nat) (e d : Body) (src : Bytes) (pads : List Bytes),
    Body.Sync e d → src.length < fuel → Body.PadsOk C fuel e src pads →
    ∃ d', Body.Sync (Body.encodePayloadP C fuel e src pads).2 d' ∧
      run (Body.unit C) d (Body.encodePayloadP C fuel e src pads).1 = ⟨d', [], src, false⟩ := by
  intro fuel
  induction fuel with
  | zero => intro e d src pads _ h; omega
  | succ fuel ih =>
    intro e d src pads hs hf hp
    cases src with
    | nil =>
      refine ⟨d, hs, ?_⟩
      have hst : d.st = .padding := ((Body.sync_iff e d).mp hs).2.2.2.2.2.2.2.2.2.2.2
      exact run_need _ _ _ (Body.unit_nil C d hst)
    | cons x xs =>
      have hpos := e.chunkLen_pos C (x :: xs) (by simp)
      have hle := e.chunkLen_le C (x :: xs)
      have hrest := Body.encodeChunk_rest C e (x :: xs) (pads.headD [])
      rcases hp with hp | ⟨hp1, hp2⟩
      · cases hp
      obtain ⟨d1, hs1, hrun⟩ := body_chunk_roundtrip C hC e d hs (x :: xs) (pads.headD [])
        (Body.encodePayloadP C fuel (e.encodeChunk C (x :: xs) (pads.headD [])).2.2
          (e.encodeChunk C (x :: xs) (pads.headD [])).2.1 pads.tail).1 hp1
      have hrl : (e.encodeChunk C (x :: xs) (pads.headD [])).2.1.length = (x :: xs).length - e.chunkLen C (x :: xs) := by
        rw [hrest, List.length_drop]
      obtain ⟨d', hs', hrun'⟩ := ih (e.encodeChunk C (x :: xs) (pads.headD [])).2.2 d1
        (e.encodeChunk C (x :: xs) (pads.headD [])).2.1 pads.tail hs1 (by rw [hrl]; omega) hp2
      have henc : Body.encodePayloadP C (fuel + 1) e (x :: xs) pads =
          ((e.encodeChunk C (x :: xs) (pads.headD [])).1 ++
            (Body.encodePayloadP C fuel (e.encodeChunk C (x :: xs) (pads.headD [])).2.2
              (e.encodeChunk C (x :: xs) (pads.headD [])).2.1 pads.tail).1,
           (Body.encodePayloadP C fuel (e.encodeChunk C (x :: xs) (pads.headD [])).2.2
              (e.encodeChunk C (x :: xs) (pads.headD [])).2.1 pads.tail).2) := by
        simp [Body.encodePayloadP]
      rw [henc]
      refine ⟨d', hs', ?_⟩
      simp only
      rw [hrun, hrun', hrest]
      simp only [List.take_append_drop]

/-- `encodePayload` is `encodePayloadP` with the one padding source cut at 63-byte steps -/
def padSlices : Nat → Bytes → List Bytes
  | 0, _ => []
  | n+1, pad => pad :: padSlices n (pad.drop 63)

theorem Body.encodePayload_eq_P (C : Crypto) : ∀ (fuel : Nat) (e : Body) (src pad : Bytes),
    Body.encodePayload C fuel e src pad = Body.encodePayloadP C fuel e src (padSlices fuel pad) := by
  intro fuel
  induction fuel with
  | zero => intro e src pad; rfl
  | succ fuel ih =>
    intro e src pad
    simp only [Body.encodePayload, Body.encodePayloadP, padSlices, List.headD_cons, List.tail_cons, ih]

/-- one write under the *exact* padding requirement (each chunk finds its own padding length in
what is left of `pad`); `body_payload_roundtrip` is the special case with the simple length bound -/
theorem body_payload_roundtrip_exact (C : Crypto) (hC : C.Lawful) (e d : Body) (hs : Body.Sync e d) (src pad : Bytes)
    (hp : Body.PadsOk C (src.length + 1) e src (padSlices (src.length + 1) pad)) :
    ∃ d', Body.Sync (Body.encodePayload C (src.length + 1) e src pad).2 d' ∧
      run (Body.unit C) d (Body.encodePayload C (src.length + 1) e src pad).1 = ⟨d', [], src, false⟩ := by
  rw [Body.encodePayload_eq_P]
  exact body_payloadP_roundtrip_fuel C hC _ e d src _ hs (Nat.lt_succ_self _) hp

end Octo.Vmess
