import Octo.Proofs.SsUdpRound
/-!
  Shadowsocks-2022 datagrams: what the server's `opened` yields for a datagram of a client configured
  for it (`Paired`), for every arm at once; the fields a request body carries.  No condition on address,
  payload, padding or clock: `opened` looks at keys and ids only.
-/
namespace Octo.SsUdp
open Octo.Ss

/-- what the server opens from a datagram of a client configured for it: the request body, under the
owner's key -/
theorem opened_request_paired (C : Crypto) (hC : C.Lawful) (cc sc : Ctx) (owner : Option User)
    (hp : Paired C cc sc owner) (s : Session) (hsid : s.clientSessionId < 2 ^ 64) (hpid : s.packetId < 2 ^ 64)
    (addr : Addr) (item : Bytes) (r : Rand) (hn : NonceOk sc.kind r) :
    opened C sc .server (encode C cc .client s addr item r) =
      some (s.clientSessionId, s.packetId, requestBody addr item r, owner) := by
  obtain ⟨hkind, h22, h⟩ := hp
  by_cases hx : (xAlg sc.kind).isSome = true
  · rw [if_pos hx] at h
    obtain ⟨xa, hxa⟩ := Option.isSome_iff_exists.mp hx
    rw [encode_request_chacha C cc xa (by rw [hkind]; exact hxa), h.2]
    exact opened_chacha C hC sc .server xa hxa _ _ h.1 (hn hx) _ _ hsid hpid _
  · rw [if_neg hx] at h
    have hxn : xAlg sc.kind = none := by simpa using hx
    have hs := (kind_aes _ hxn h22).1
    by_cases hu : sc.users = []
    · rw [if_pos hu] at h
      have hne : ¬ requireEih sc .server := by simp [requireEih, hu]
      rw [encode_request_aes C cc (by rw [hkind]; exact hs) h.1, hkind, h.2.1, h.2.2]
      exact opened_aes C hC sc .server hxn hne _ _ hsid hpid _
    · rw [if_neg hu] at h
      obtain ⟨hik, hfind, hkey⟩ := h
      cases owner with
      | none => simp at hkey
      | some u =>
        simp only [Option.map_some, Option.some.injEq] at hkey
        have hune : sc.users.length > 0 := by
          cases hus : sc.users with
          | nil => exact absurd hus hu
          | cons _ _ => simp
        rw [encode_request_eih C cc (by rw [hkind]; exact hs) sc.key hik, hkind]
        exact opened_eih C hC sc hxn ⟨rfl, hs, hune⟩ cc.key u hfind hkey _ _ hsid hpid _

/-- the timestamp a request body carries -/
theorem requestBody_ts (addr : Addr) (item : Bytes) (r : Rand) (hts : r.now < 2 ^ 64) :
    rdBE (((requestBody addr item r).drop 1).take 8) = r.now := by
  simp only [requestBody, List.append_assoc, List.cons_append, List.nil_append, List.drop_succ_cons, List.drop_zero]
  rw [List.take_left' (be64_length _)]; exact rdBE_be64 _ (by simpa using hts)

end Octo.SsUdp
