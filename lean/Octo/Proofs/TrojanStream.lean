import Octo.Model.Trojan
import Octo.Props.C02
import Octo.Props.C14
import Octo.Proofs.Toy
/-!
# Trojan codecs under `FramedRead`: segmentation independence, TCP and UDP-over-TCP

The Trojan decoders are not built from `Fr.Step`; they are driven directly by the model of
`tokio_util::codec::FramedRead` (`frLoop`, `frFeed` in `Octo/Model/Stream.lean`).  This file
characterises `frLoop` on the buffers that occur for an honest sender and inducts over the pieces
of an arbitrary segmentation of the wire.
-/
namespace Octo.Trojan

/-! ### events of a `FramedRead` run -/

/-- the items among the events, in order -/
def evItems : List FrEv → List Item
  | [] => []
  | .item i :: es => i :: evItems es
  | _ :: es => evItems es

/-- concatenation of the `data` of the `.item` events -/
def evData (evs : List FrEv) : Bytes := ((evItems evs).map Item.data).flatten

def isItemEv : FrEv → Bool
  | .item _ => true
  | _ => false

/-- nothing but items: no error, no panic, no end of stream, no spin -/
def evClean (evs : List FrEv) : Prop := ∀ e ∈ evs, isItemEv e = true

instance (evs : List FrEv) : Decidable (evClean evs) :=
  inferInstanceAs (Decidable (∀ e ∈ evs, isItemEv e = true))

/-- one `frFeed` per piece (one socket read each), accumulating the events -/
def feedAll {σ : Type} (decode : σ → Bytes → Call σ) (f : FrSt σ) : List Bytes → FrSt σ × List FrEv
  | [] => (f, [])
  | p :: ps =>
    let r := frFeed decode f p
    let r' := feedAll decode r.1 ps
    (r'.1, r.2 ++ r'.2)

@[simp] theorem evItems_nil : evItems [] = [] := rfl
@[simp] theorem evItems_item (i : Item) (es : List FrEv) : evItems (.item i :: es) = i :: evItems es := rfl

theorem evItems_append (a b : List FrEv) : evItems (a ++ b) = evItems a ++ evItems b := by
  induction a with
  | nil => rfl
  | cons e es ih => cases e <;> simp [evItems, ih]

theorem evItems_map_item (l : List Item) : evItems (l.map .item) = l := by
  induction l with
  | nil => rfl
  | cons i l ih => simp [ih]

@[simp] theorem evData_nil : evData [] = [] := rfl

theorem evData_append (a b : List FrEv) : evData (a ++ b) = evData a ++ evData b := by
  simp [evData, evItems_append]

@[simp] theorem evData_item (i : Item) (es : List FrEv) : evData (.item i :: es) = i.data ++ evData es := by
  simp [evData]

theorem evClean_nil : evClean [] := by intro e he; cases he

theorem evClean_append {a b : List FrEv} (ha : evClean a) (hb : evClean b) : evClean (a ++ b) := by
  intro e he
  rcases List.mem_append.mp he with h | h
  · exact ha e h
  · exact hb e h

theorem evClean_cons_item (i : Item) {es : List FrEv} (h : evClean es) : evClean (.item i :: es) := by
  intro e he
  rcases List.mem_cons.mp he with h' | h'
  · subst h'; rfl
  · exact h e h'

theorem evClean_map_item (l : List Item) : evClean (l.map .item) := by
  intro e he
  obtain ⟨i, _, rfl⟩ := List.mem_map.mp he
  rfl

theorem feedAll_nil {σ : Type} (decode : σ → Bytes → Call σ) (f : FrSt σ) : feedAll decode f [] = (f, []) := rfl

theorem feedAll_cons {σ : Type} (decode : σ → Bytes → Call σ) (f : FrSt σ) (p : Bytes) (ps : List Bytes) :
    feedAll decode f (p :: ps) =
      ((feedAll decode (frFeed decode f p).1 ps).1, (frFeed decode f p).2 ++ (feedAll decode (frFeed decode f p).1 ps).2) := rfl

/-- feeding `ps ++ qs` is feeding `ps`, then `qs` from where that ended -/
theorem feedAll_append {σ : Type} (decode : σ → Bytes → Call σ) (f : FrSt σ) (ps qs : List Bytes) :
    feedAll decode f (ps ++ qs) =
      ((feedAll decode (feedAll decode f ps).1 qs).1, (feedAll decode f ps).2 ++ (feedAll decode (feedAll decode f ps).1 qs).2) := by
  induction ps generalizing f with
  | nil => simp [feedAll_nil]
  | cons p ps ih => simp only [List.cons_append, feedAll_cons, ih, List.append_assoc]

/-! ### one step of `frLoop` -/

section loop
variable {σ : Type} (decode : σ → Bytes → Call σ)

theorem frLoop_more (n : Nat) (f : FrSt σ) (h : (decode f.st f.buf).res = .more) :
    frLoop decode (n + 1) f = ({ f with st := (decode f.st f.buf).st, buf := (decode f.st f.buf).buf }, []) := by
  simp only [frLoop, h]

theorem frLoop_ok (n : Nat) (f : FrSt σ) (i : Item) (h : (decode f.st f.buf).res = .ok i) :
    frLoop decode (n + 1) f =
      ((frLoop decode n { f with st := (decode f.st f.buf).st, buf := (decode f.st f.buf).buf }).1,
        .item i :: (frLoop decode n { f with st := (decode f.st f.buf).st, buf := (decode f.st f.buf).buf }).2) := by
  simp only [frLoop, h]

theorem frLoop_err (n : Nat) (f : FrSt σ) (h : (decode f.st f.buf).res = .err) :
    frLoop decode (n + 1) f =
      ({ st := (decode f.st f.buf).st, buf := (decode f.st f.buf).buf, ended := true }, [.err, .ended]) := by
  simp only [frLoop, h]

/-- the loop only looks at the call results: two configurations whose first calls agree behave alike -/
theorem frLoop_congr (n : Nat) (f g : FrSt σ) (he : f.ended = g.ended)
    (h : decode f.st f.buf = decode g.st g.buf) :
    frLoop decode (n + 1) f = frLoop decode (n + 1) g := by
  cases hr : (decode g.st g.buf).res <;> simp only [frLoop, h, hr, he]

end loop

/-! ## 2. TCP, server → client: `clientDecodeTcp` is a pass-through -/

/-- the client's TCP decoder as a `FramedRead` decoder (it has no state) -/
def cTcp : Unit → Bytes → Call Unit := fun _ b => clientDecodeTcp b

/-- one read on an empty buffer: the piece comes out whole as one `.data` item (nothing for an
empty read), the buffer is empty again -/
theorem cTcp_feed (p : Bytes) :
    frFeed cTcp ⟨(), [], false⟩ p =
      (⟨(), [], false⟩, if p.isEmpty then [] else [.item ⟨.data, p, none⟩]) := by
  cases p with
  | nil => simp [frFeed, frLoop, cTcp, clientDecodeTcp]
  | cons x xs =>
    simp only [frFeed, Bool.false_eq_true, if_false, List.nil_append, List.length_nil, Nat.zero_add]
    rw [frLoop_ok cTcp _ _ ⟨.data, x :: xs, none⟩ (by simp [cTcp, clientDecodeTcp])]
    simp [frLoop, cTcp, clientDecodeTcp]

/-- exact event list for any sequence of reads: one `.data` item per non-empty read -/
theorem cTcp_feedAll (pieces : List Bytes) :
    feedAll cTcp ⟨(), [], false⟩ pieces =
      (⟨(), [], false⟩, ((pieces.filter fun p => !p.isEmpty).map fun p => FrEv.item ⟨.data, p, none⟩)) := by
  induction pieces with
  | nil => rfl
  | cons p ps ih =>
    rw [feedAll_cons, cTcp_feed, ih]
    cases p <;> simp

theorem flatten_filter_nonempty (pieces : List Bytes) :
    (pieces.filter fun p => !p.isEmpty).flatten = pieces.flatten := by
  induction pieces with
  | nil => rfl
  | cons p ps ih => cases p <;> simp [ih]

/-! ## the request header -/

theorem keyHex_length (C : Crypto) (hC : C.Lawful) (pw : Bytes) : (keyHex C pw).length = 56 := by
  simp [keyHex, hexBytes_length, hC.sha224_len]

theorem encode_length_ge (a : Addr) : 2 ≤ (Socks5Addr.encode a).length := by
  cases a <;> simp [Socks5Addr.encode] <;> omega

theorem header_length (C : Crypto) (hC : C.Lawful) (pw : Bytes) (cmd : Nat) (ad : Addr) :
    (header C pw cmd ad).length = 59 + (Socks5Addr.encode ad).length + 2 := by
  simp [header, crlf, keyHex_length C hC]; omega

/-- `try_decode_at` only looks at two bytes: it cannot tell a long enough prefix from the whole -/
theorem tryDecodeAt_take (b : Bytes) (n k : Nat) (h : k + 2 ≤ n) :
    Socks5Addr.tryDecodeAt (b.take n) k = Socks5Addr.tryDecodeAt b k := by
  unfold Socks5Addr.tryDecodeAt
  rw [List.getElem?_take_of_lt (by omega), List.getElem?_take_of_lt (by omega)]

theorem header_tryDecodeAt (C : Crypto) (hC : C.Lawful) (pw : Bytes) (cmd : Nat) (ad : Addr) (ha : ad.Accepted)
    (x : Bytes) :
    Socks5Addr.tryDecodeAt (header C pw cmd ad ++ x) 59 = .ok (Socks5Addr.encode ad).length := by
  have h := c14_socks5_try_decode_at ad (keyHex C pw ++ crlf ++ [u8 cmd]) (crlf ++ x) ha
  have hpre : (keyHex C pw ++ crlf ++ [u8 cmd]).length = 59 := by simp [crlf, keyHex_length C hC]
  rw [hpre] at h
  rw [← h]
  simp [header, List.append_assoc]

/-- **Nothing happens before the header is complete**: on every proper prefix of an honest header
the server (whatever *its* password is) answers `Ok(None)` and keeps the buffer.  In particular the
`b.length < 61` guard and the `59 + al + 2` test agree for all three address kinds: the two bytes
`try_decode_at` reads (offsets 59, 60) are inside every buffer of ≥ 61 bytes, and `59 + al + 2` is
exactly the header length. -/
theorem serverDecode_header_prefix (C : Crypto) (hC : C.Lawful) (pw pw' : Bytes) (cmd : Nat) (ad : Addr)
    (ha : ad.Accepted) (n : Nat) (hn : n < (header C pw cmd ad).length) :
    serverDecode C pw' .header ((header C pw cmd ad).take n) = ⟨.header, (header C pw cmd ad).take n, .more⟩ := by
  have hlen : ((header C pw cmd ad).take n).length = n := by rw [List.length_take]; omega
  have hH := header_length C hC pw cmd ad
  unfold serverDecode
  split
  · rfl
  · simp only []
    split
    · rfl
    · rename_i h61
      rw [hlen] at h61
      have ht := header_tryDecodeAt C hC pw cmd ad ha []
      rw [List.append_nil] at ht
      rw [tryDecodeAt_take _ _ _ (by omega), ht]
      simp only []
      rw [if_pos (by omega)]

/-- the complete header of a CONNECT followed by whatever arrived with it: one `ConnectTcp` item
carrying the target and those bytes; the buffer is empty, the state is `tcp` -/
theorem serverDecode_header_tcp (C : Crypto) (hC : C.Lawful) (pw : Bytes) (ad : Addr) (ha : ad.Accepted) (x : Bytes) :
    serverDecode C pw .header (header C pw 1 ad ++ x) = ⟨.tcp, [], .ok ⟨.connect, x, some ad⟩⟩ := by
  have hk := keyHex_length C hC pw
  have htry := header_tryDecodeAt C hC pw 1 ad ha x
  have hH := header_length C hC pw 1 ad
  have hshape : header C pw 1 ad ++ x =
      keyHex C pw ++ [13, 10, 1] ++ Socks5Addr.encode ad ++ ([13, 10] ++ x) := by
    simp [header, crlf, u8, List.append_assoc]
  have hpre : (keyHex C pw ++ [13, 10, 1]).length = 59 := by simp [hk]
  unfold serverDecode
  rw [if_neg (by simp [header])]
  simp only []
  rw [if_neg (by simp only [List.length_append, hH]; omega), htry]
  simp only []
  rw [if_neg (by simp only [List.length_append, hH]; omega)]
  rw [hshape]
  generalize keyHex C pw = key at hk hpre
  have h56 : (key ++ [13, 10, 1] ++ Socks5Addr.encode ad ++ ([13, 10] ++ x)).getD 56 0 = 13 := by
    simp [List.getD_eq_getElem?_getD, hk]
  have h58 : (key ++ [13, 10, 1] ++ Socks5Addr.encode ad ++ ([13, 10] ++ x)).getD 58 0 = 1 := by
    simp [List.getD_eq_getElem?_getD, List.getElem?_append, hk]
  have ht56 : (key ++ [13, 10, 1] ++ Socks5Addr.encode ad ++ ([13, 10] ++ x)).take 56 = key := by
    rw [List.append_assoc, List.append_assoc]; exact List.take_left' hk
  have hd59 : (key ++ [13, 10, 1] ++ Socks5Addr.encode ad ++ ([13, 10] ++ x)).drop 59 =
      Socks5Addr.encode ad ++ ([13, 10] ++ x) := by
    rw [List.append_assoc]; exact List.drop_left' hpre
  rw [h56, ht56, h58, hd59]
  simp [c14_socks5_roundtrip ad _ ha]

/-! ### list facts for cutting a wire `H ++ D` -/

theorem prefix_eq_take {x y H D : Bytes} (h : x ++ y = H ++ D) (hl : x.length ≤ H.length) :
    x = H.take x.length := by
  have := congrArg (List.take x.length) h
  rw [List.take_left, List.take_append_of_le_length hl] at this
  exact this

theorem append_split {x y H D : Bytes} (h : x ++ y = H ++ D) (hl : H.length ≤ x.length) :
    ∃ d, x = H ++ d ∧ D = d ++ y := by
  rcases List.append_eq_append_iff.mp h with ⟨a', h1, h2⟩ | ⟨c', h1, h2⟩
  · have : a' = [] := by
      have := congrArg List.length h1
      simp only [List.length_append] at this
      exact List.eq_nil_of_length_eq_zero (by omega)
    subst this
    exact ⟨[], by simpa using h1.symm, by simpa using h2.symm⟩
  · exact ⟨c', h1, h2⟩

/-! ## 1. TCP, client → server -/

/-- every write of a TCP session through `tcp::ClientCodec::encode`, in order -/
def encTcpAll (C : Crypto) (pw : Bytes) (ad : Addr) : ClientEnc → List Bytes → Bytes
  | _, [] => []
  | e, w :: ws => (clientEncodeTcp C pw ad e w).1 ++ encTcpAll C pw ad (clientEncodeTcp C pw ad e w).2 ws

theorem encTcpAll_sent (C : Crypto) (pw : Bytes) (ad : Addr) (ws : List Bytes) :
    encTcpAll C pw ad ⟨true⟩ ws = ws.flatten := by
  induction ws with
  | nil => rfl
  | cons w ws ih => simp [encTcpAll, clientEncodeTcp, ih]

/-- the header goes out once, with the first write -/
theorem encTcpAll_first (C : Crypto) (pw : Bytes) (ad : Addr) (w : Bytes) (ws : List Bytes) :
    encTcpAll C pw ad {} (w :: ws) = header C pw 1 ad ++ (w :: ws).flatten := by
  simp [encTcpAll, clientEncodeTcp, encTcpAll_sent, List.append_assoc]

/-- the `.data` event of one non-empty read -/
def dataEvs (pieces : List Bytes) : List FrEv :=
  (pieces.filter fun p => !p.isEmpty).map fun p => FrEv.item ⟨.data, p, none⟩

theorem evData_dataEvs (pieces : List Bytes) : evData (dataEvs pieces) = pieces.flatten := by
  induction pieces with
  | nil => rfl
  | cons p ps ih =>
    cases p with
    | nil => simpa [dataEvs] using ih
    | cons x xs =>
      simp only [dataEvs, List.filter_cons, List.isEmpty_cons, Bool.not_false, if_true, List.map_cons, evData_item,
        List.flatten_cons]
      rw [← ih]; rfl

theorem evClean_dataEvs (pieces : List Bytes) : evClean (dataEvs pieces) := by
  intro e he
  obtain ⟨i, _, rfl⟩ := List.mem_map.mp he
  rfl

theorem evItems_dataEvs (pieces : List Bytes) :
    ∀ i ∈ evItems (dataEvs pieces), i.kind = .data ∧ i.addr = none := by
  induction pieces with
  | nil => intro i hi; cases hi
  | cons p ps ih =>
    cases p with
    | nil => simpa [dataEvs] using ih
    | cons x xs =>
      intro i hi
      simp only [dataEvs, List.filter_cons, List.isEmpty_cons, Bool.not_false, if_true, List.map_cons, evItems_item,
        List.mem_cons] at hi
      rcases hi with rfl | hi
      · exact ⟨rfl, rfl⟩
      · exact ih i hi

section server
variable (C : Crypto) (pw : Bytes)

/-- relay phase: a read comes out whole as one `RelayTcp` item, the buffer is empty again -/
theorem srv_tcp_feed (p : Bytes) :
    frFeed (serverDecode C pw) ⟨.tcp, [], false⟩ p =
      (⟨.tcp, [], false⟩, if p.isEmpty then [] else [.item ⟨.data, p, none⟩]) := by
  cases p with
  | nil => simp [frFeed, frLoop, serverDecode]
  | cons x xs =>
    simp only [frFeed, Bool.false_eq_true, if_false, List.nil_append, List.length_nil, Nat.zero_add]
    rw [frLoop_ok _ _ _ ⟨.data, x :: xs, none⟩ (by simp [serverDecode])]
    simp [frLoop, serverDecode]

theorem srv_tcp_feedAll (pieces : List Bytes) :
    feedAll (serverDecode C pw) ⟨.tcp, [], false⟩ pieces = (⟨.tcp, [], false⟩, dataEvs pieces) := by
  induction pieces with
  | nil => rfl
  | cons p ps ih =>
    rw [feedAll_cons, srv_tcp_feed, ih]
    cases p <;> simp [dataEvs]

/-- header phase, the read does not complete the header: no event, everything is kept -/
theorem srv_header_feed_more (hC : C.Lawful) (pw' : Bytes) (cmd : Nat) (ad : Addr) (ha : ad.Accepted) (b p : Bytes)
    (n : Nat) (hn : n < (header C pw' cmd ad).length) (h : b ++ p = (header C pw' cmd ad).take n) :
    frFeed (serverDecode C pw) ⟨.header, b, false⟩ p = (⟨.header, b ++ p, false⟩, []) := by
  have hd := serverDecode_header_prefix C hC pw' pw cmd ad ha n hn
  simp only [frFeed, Bool.false_eq_true, if_false]
  show frLoop _ ((b.length + p.length + 1) + 1) _ = _
  rw [frLoop_more _ _ _ (by simp only [h, hd])]
  simp only [h, hd]

/-- header phase, the read completes the header of a CONNECT: exactly one `ConnectTcp` with the
target and the bytes that came along -/
theorem srv_header_feed_tcp (hC : C.Lawful) (ad : Addr) (ha : ad.Accepted) (b p x : Bytes)
    (h : b ++ p = header C pw 1 ad ++ x) :
    frFeed (serverDecode C pw) ⟨.header, b, false⟩ p = (⟨.tcp, [], false⟩, [.item ⟨.connect, x, some ad⟩]) := by
  have hd := serverDecode_header_tcp C hC pw ad ha x
  simp only [frFeed, Bool.false_eq_true, if_false]
  show frLoop _ ((b.length + p.length + 1) + 1) _ = _
  rw [frLoop_ok _ _ _ ⟨.connect, x, some ad⟩ (by simp only [h, hd])]
  simp only [h, hd]
  show ((frLoop _ ((b.length + p.length) + 1) _).1, _) = _
  rw [frLoop_more _ _ _ (by simp [serverDecode])]
  simp [serverDecode]

/-- **any segmentation of `header ‖ D`**, started anywhere inside the header: nothing until the
header is complete, then one `ConnectTcp` carrying what arrived with the header's last byte, then
one `RelayTcp` per later non-empty read -/
theorem srv_tcp_segmented (hC : C.Lawful) (ad : Addr) (ha : ad.Accepted) (D : Bytes) (pieces : List Bytes) (b : Bytes)
    (hb : b.length < (header C pw 1 ad).length) (h : b ++ pieces.flatten = header C pw 1 ad ++ D) :
    ∃ d0 later, feedAll (serverDecode C pw) ⟨.header, b, false⟩ pieces =
        (⟨.tcp, [], false⟩, .item ⟨.connect, d0, some ad⟩ :: dataEvs later) ∧ d0 ++ later.flatten = D := by
  induction pieces generalizing b with
  | nil =>
    have := congrArg List.length h
    simp only [List.flatten_nil, List.append_nil, List.length_append] at this
    omega
  | cons p ps ih =>
    rw [List.flatten_cons, ← List.append_assoc] at h
    by_cases hlt : (b ++ p).length < (header C pw 1 ad).length
    · have ht := prefix_eq_take h (by omega)
      obtain ⟨d0, later, h1, h2⟩ := ih (b ++ p) hlt h
      refine ⟨d0, later, ?_, h2⟩
      rw [feedAll_cons, srv_header_feed_more C pw hC pw 1 ad ha b p _ hlt ht, h1]
      rfl
    · obtain ⟨d0, h1, h2⟩ := append_split h (by omega)
      refine ⟨d0, ps, ?_, h2.symm⟩
      rw [feedAll_cons, srv_header_feed_tcp C pw hC ad ha b p d0 h1, srv_tcp_feedAll]
      rfl

end server

/-! ## 3. UDP over the stream -/

/-- the datagram-phase decoder common to `udp::ClientCodec::decode` and the server's `udp` state -/
def pktCall {σ : Type} (s : σ) (b : Bytes) : Call σ :=
  if b.isEmpty then ⟨s, b, .more⟩ else
  match decodePacket b with
  | .ok (a, p, rest) => ⟨s, rest, .ok ⟨.udp, p, some a⟩⟩
  | .more => ⟨s, b, .more⟩
  | .panic => ⟨s, b, .panic⟩
  | .err => ⟨s, b, .err⟩

/-- the client's UDP decoder as a `FramedRead` decoder (it has no state) -/
def cUdp : Unit → Bytes → Call Unit := fun _ b => clientDecodeUdp b

theorem cUdp_eq (b : Bytes) : cUdp () b = pktCall () b := rfl

theorem serverDecode_udp (C : Crypto) (pw : Bytes) (b : Bytes) : serverDecode C pw .udp b = pktCall .udp b := by
  unfold serverDecode pktCall
  split <;> rfl

/-- a datagram: payload and address -/
abbrev Dgram := Bytes × Addr

/-- what the sender may put in a frame: an accepted address, a payload whose length fits 16 bits -/
def Dgram.Ok (d : Dgram) : Prop := d.2.Accepted ∧ d.1.length < 65536

instance (d : Dgram) : Decidable d.Ok := inferInstanceAs (Decidable (_ ∧ _))

/-- the frames of a list of datagrams, back to back -/
def frames (ds : List Dgram) : Bytes := (ds.map fun d => packet d.2 d.1).flatten

/-- the event a datagram must produce -/
def udpEv (d : Dgram) : FrEv := .item ⟨.udp, d.1, some d.2⟩

@[simp] theorem frames_nil : frames [] = [] := rfl
@[simp] theorem frames_cons (d : Dgram) (ds : List Dgram) : frames (d :: ds) = packet d.2 d.1 ++ frames ds := rfl
theorem frames_append (a b : List Dgram) : frames (a ++ b) = frames a ++ frames b := by
  simp [frames]

theorem packet_length (a : Addr) (p : Bytes) :
    (packet a p).length = (Socks5Addr.encode a).length + 4 + p.length := by
  simp [packet, crlf]; omega

theorem packet_length_pos (a : Addr) (p : Bytes) : 0 < (packet a p).length := by
  have := encode_length_ge a
  rw [packet_length]; omega

theorem frames_length_ge (ds : List Dgram) : ds.length ≤ (frames ds).length := by
  induction ds with
  | nil => simp
  | cons d ds ih =>
    have := packet_length_pos d.2 d.1
    simp only [frames_cons, List.length_cons, List.length_append]; omega

/-- **a proper prefix of a frame is never decoded**: `decode_packet` waits (no item, no error) -/
theorem decodePacket_prefix (a : Addr) (p : Bytes) (ha : a.Accepted) (hp : p.length < 65536) (n : Nat)
    (hn : n < (packet a p).length) : decodePacket ((packet a p).take n) = .more := by
  have hlen : ((packet a p).take n).length = n := by rw [List.length_take]; omega
  have hL := packet_length a p
  have hal := c14_socks5_try_decode_at a [] (be16 (p.length % 65536) ++ crlf ++ p) ha
  have hP : [] ++ Socks5Addr.encode a ++ (be16 (p.length % 65536) ++ crlf ++ p) = packet a p := by
    simp [packet, List.append_assoc]
  rw [hP] at hal
  simp only [List.length_nil] at hal
  unfold decodePacket
  rw [hlen]
  split
  · rfl
  · rw [tryDecodeAt_take _ _ _ (by omega), hal]
    simp only []
    split
    · rfl
    · rename_i h2 h4
      have hrd : rdBE ((((packet a p).take n).drop (Socks5Addr.encode a).length).take 2) = p.length := by
        rw [List.drop_take, List.take_take, Nat.min_eq_left (by omega)]
        have hd : (packet a p).drop (Socks5Addr.encode a).length = be16 (p.length % 65536) ++ (crlf ++ p) := by
          simp [packet, List.append_assoc]
        rw [hd, List.take_left' (be16_length _), rdBE_be16 _ (Nat.mod_lt _ (by omega)), Nat.mod_eq_of_lt hp]
      rw [hrd, if_pos (by omega)]

theorem pktCall_prefix {σ : Type} (s : σ) (a : Addr) (p : Bytes) (ha : a.Accepted) (hp : p.length < 65536) (n : Nat)
    (hn : n < (packet a p).length) :
    pktCall s ((packet a p).take n) = ⟨s, (packet a p).take n, .more⟩ := by
  unfold pktCall
  split
  · rfl
  · rw [decodePacket_prefix a p ha hp n hn]

/-- **a whole frame followed by anything**: exactly that datagram, exactly the rest is kept -/
theorem pktCall_frame {σ : Type} (s : σ) (a : Addr) (p tail : Bytes) (ha : a.Accepted) (hp : p.length < 65536) :
    pktCall s (packet a p ++ tail) = ⟨s, tail, .ok ⟨.udp, p, some a⟩⟩ := by
  have hpos := packet_length_pos a p
  unfold pktCall
  rw [if_neg (by
    rw [List.isEmpty_iff]
    intro h
    have := congrArg List.length h
    simp only [List.length_append, List.length_nil] at this
    omega)]
  rw [c02_trojan_frame_roundtrip a p tail ha hp]

theorem pktCall_nil {σ : Type} (s : σ) : pktCall s [] = ⟨s, [], .more⟩ := rfl

/-- `r` is a proper prefix of the next frame (or there is no next frame) -/
def Pending (r : Bytes) : List Dgram → Prop
  | [] => True
  | d :: _ => r.length < (packet d.2 d.1).length

/-- what is buffered while a frame is incomplete makes the decoder wait -/
theorem pktCall_pending {σ : Type} (s : σ) (r y : Bytes) (ds : List Dgram) (hv : ∀ d ∈ ds, d.Ok)
    (h : r ++ y = frames ds) (hp : Pending r ds) : pktCall s r = ⟨s, r, .more⟩ := by
  cases ds with
  | nil =>
    have : r = [] := by
      have := congrArg List.length h
      simp only [frames_nil, List.length_append, List.length_nil] at this
      exact List.eq_nil_of_length_eq_zero (by omega)
    subst this; rfl
  | cons d ds =>
    have hd := hv d (List.mem_cons_self ..)
    have ht := prefix_eq_take (H := packet d.2 d.1) (D := frames ds) h (Nat.le_of_lt hp)
    rw [ht]
    exact pktCall_prefix s d.2 d.1 hd.1 hd.2 _ hp

/-- cutting a frame sequence anywhere: whole frames, then a proper prefix of the next one -/
theorem frames_split (ds : List Dgram) (x y : Bytes) (h : x ++ y = frames ds) :
    ∃ ds1 ds2 r, ds = ds1 ++ ds2 ∧ x = frames ds1 ++ r ∧ r ++ y = frames ds2 ∧ Pending r ds2 := by
  induction ds generalizing x with
  | nil => exact ⟨[], [], x, rfl, by simp, h, trivial⟩
  | cons d ds ih =>
    by_cases hlt : x.length < (packet d.2 d.1).length
    · exact ⟨[], d :: ds, x, rfl, by simp, h, hlt⟩
    · rw [frames_cons] at h
      obtain ⟨x', h1, h2⟩ := append_split h (by omega)
      obtain ⟨ds1, ds2, r, e1, e2, e3, e4⟩ := ih x' h2.symm
      refine ⟨d :: ds1, ds2, r, by simp [e1], ?_, e3, e4⟩
      rw [h1, e2, frames_cons, List.append_assoc]

section pkt
variable {σ : Type} (dec : σ → Bytes → Call σ) (s : σ) (hdec : ∀ b, dec s b = pktCall s b)
include hdec

/-- the poll loop on `frames ‖ r` (`r` pending): one item per frame, in order; `r` stays -/
theorem pkt_loop (ds : List Dgram) (hv : ∀ d ∈ ds, d.Ok) (r : Bytes) (hr : pktCall s r = ⟨s, r, .more⟩)
    (fuel : Nat) (hf : ds.length < fuel) :
    frLoop dec fuel ⟨s, frames ds ++ r, false⟩ = (⟨s, r, false⟩, ds.map udpEv) := by
  induction ds generalizing fuel with
  | nil =>
    obtain ⟨n, rfl⟩ : ∃ n, fuel = n + 1 := ⟨fuel - 1, by omega⟩
    rw [frLoop_more _ _ _ (by simp [hdec, hr])]
    simp [hdec, hr]
  | cons d ds ih =>
    obtain ⟨n, rfl⟩ : ∃ n, fuel = n + 1 := ⟨fuel - 1, by omega⟩
    have hd := hv d (List.mem_cons_self ..)
    have hc := pktCall_frame s d.2 d.1 (frames ds ++ r) hd.1 hd.2
    simp only [frames_cons, List.append_assoc]
    rw [frLoop_ok _ _ _ ⟨.udp, d.1, some d.2⟩ (by simp only [hdec, hc])]
    simp only [hdec, hc]
    rw [ih (fun d hd => hv d (List.mem_cons_of_mem _ hd)) n (by simpa using hf)]
    rfl

/-- one read in the datagram phase -/
theorem pkt_feed (ds1 : List Dgram) (hv : ∀ d ∈ ds1, d.Ok) (r p r' : Bytes) (h : r ++ p = frames ds1 ++ r')
    (hr : pktCall s r' = ⟨s, r', .more⟩) :
    frFeed dec ⟨s, r, false⟩ p = (⟨s, r', false⟩, ds1.map udpEv) := by
  simp only [frFeed, Bool.false_eq_true, if_false, h]
  apply pkt_loop dec s hdec ds1 hv r' hr
  have h1 := frames_length_ge ds1
  have h2 := congrArg List.length h
  simp only [List.length_append] at h2
  omega

/-- **any segmentation of a frame sequence**, started inside a frame: exactly one `.udp` item per
datagram, in order, with its payload and its address; nothing else; nothing left over -/
theorem pkt_segmented (pieces : List Bytes) (ds : List Dgram) (hv : ∀ d ∈ ds, d.Ok) (r : Bytes)
    (h : r ++ pieces.flatten = frames ds) (hp : Pending r ds) :
    feedAll dec ⟨s, r, false⟩ pieces = (⟨s, [], false⟩, ds.map udpEv) := by
  induction pieces generalizing ds r with
  | nil =>
    cases ds with
    | nil =>
      have : r = [] := by simpa using h
      subst this; rfl
    | cons d ds =>
      have := congrArg List.length h
      simp only [List.flatten_nil, List.append_nil, frames_cons, List.length_append] at this
      simp only [Pending] at hp
      omega
  | cons p ps ih =>
    rw [List.flatten_cons, ← List.append_assoc] at h
    obtain ⟨ds1, ds2, r', e1, e2, e3, e4⟩ := frames_split ds (r ++ p) ps.flatten h
    subst e1
    have hv1 : ∀ d ∈ ds1, d.Ok := fun d hd => hv d (List.mem_append_left _ hd)
    have hv2 : ∀ d ∈ ds2, d.Ok := fun d hd => hv d (List.mem_append_right _ hd)
    have hr' := pktCall_pending s r' ps.flatten ds2 hv2 e3 e4
    rw [feedAll_cons, pkt_feed dec s hdec ds1 hv1 r p r' e2 hr', ih ds2 hv2 r' e3 e4]
    simp

end pkt

/-! ### the server: header of a UDP ASSOCIATE, then frames -/

/-- the complete header of a UDP ASSOCIATE followed by `x`: the header is dropped and `x` is
handled exactly as in the `udp` state (so a first frame that came along is decoded at once) -/
theorem serverDecode_header_udp (C : Crypto) (hC : C.Lawful) (pw : Bytes) (ad : Addr) (ha : ad.Accepted) (x : Bytes) :
    serverDecode C pw .header (header C pw 3 ad ++ x) = pktCall .udp x := by
  have hk := keyHex_length C hC pw
  have htry := header_tryDecodeAt C hC pw 3 ad ha x
  have hH := header_length C hC pw 3 ad
  have hshape : header C pw 3 ad ++ x =
      keyHex C pw ++ [13, 10, 3] ++ Socks5Addr.encode ad ++ ([13, 10] ++ x) := by
    simp [header, crlf, u8, List.append_assoc]
  have hpre : (keyHex C pw ++ [13, 10, 3]).length = 59 := by simp [hk]
  unfold serverDecode
  rw [if_neg (by simp [header])]
  simp only []
  rw [if_neg (by simp only [List.length_append, hH]; omega), htry]
  simp only []
  rw [if_neg (by simp only [List.length_append, hH]; omega)]
  rw [hshape]
  generalize keyHex C pw = key at hk hpre
  have h56 : (key ++ [13, 10, 3] ++ Socks5Addr.encode ad ++ ([13, 10] ++ x)).getD 56 0 = 13 := by
    simp [List.getD_eq_getElem?_getD, hk]
  have h58 : (key ++ [13, 10, 3] ++ Socks5Addr.encode ad ++ ([13, 10] ++ x)).getD 58 0 = 3 := by
    simp [List.getD_eq_getElem?_getD, List.getElem?_append, hk]
  have ht56 : (key ++ [13, 10, 3] ++ Socks5Addr.encode ad ++ ([13, 10] ++ x)).take 56 = key := by
    rw [List.append_assoc, List.append_assoc]; exact List.take_left' hk
  have hd59 : (key ++ [13, 10, 3] ++ Socks5Addr.encode ad ++ ([13, 10] ++ x)).drop 59 =
      Socks5Addr.encode ad ++ ([13, 10] ++ x) := by
    rw [List.append_assoc]; exact List.drop_left' hpre
  rw [h56, ht56, h58, hd59]
  cases x with
  | nil => simp [c14_socks5_roundtrip ad _ ha, pktCall]
  | cons y ys => simp [c14_socks5_roundtrip ad _ ha, pktCall]; rfl

/-- every datagram of a UDP session through `udp::ClientCodec::encode`, in order -/
def encUdpAll (C : Crypto) (pw : Bytes) (ad : Addr) : ClientEnc → List Dgram → Bytes
  | _, [] => []
  | e, d :: ds => (clientEncodeUdp C pw ad e d.1 d.2).1 ++ encUdpAll C pw ad (clientEncodeUdp C pw ad e d.1 d.2).2 ds

theorem encUdpAll_sent (C : Crypto) (pw : Bytes) (ad : Addr) (ds : List Dgram) :
    encUdpAll C pw ad ⟨true⟩ ds = frames ds := by
  induction ds with
  | nil => rfl
  | cons d ds ih => simp [encUdpAll, clientEncodeUdp, ih]

/-- the header goes out once, with the first datagram -/
theorem encUdpAll_first (C : Crypto) (pw : Bytes) (ad : Addr) (d : Dgram) (ds : List Dgram) :
    encUdpAll C pw ad {} (d :: ds) = header C pw 3 ad ++ frames (d :: ds) := by
  simp [encUdpAll, clientEncodeUdp, encUdpAll_sent, List.append_assoc]

section server
variable (C : Crypto) (pw : Bytes)

/-- the read that completes the header of a UDP ASSOCIATE -/
theorem srv_header_feed_udp (hC : C.Lawful) (ad : Addr) (ha : ad.Accepted) (b p : Bytes) (ds1 : List Dgram)
    (hv : ∀ d ∈ ds1, d.Ok) (r' : Bytes) (h : b ++ p = header C pw 3 ad ++ (frames ds1 ++ r'))
    (hr : pktCall SrvSt.udp r' = ⟨.udp, r', .more⟩) :
    frFeed (serverDecode C pw) ⟨.header, b, false⟩ p = (⟨.udp, r', false⟩, ds1.map udpEv) := by
  simp only [frFeed, Bool.false_eq_true, if_false, h]
  show frLoop _ ((b.length + p.length + 1) + 1) _ = _
  rw [frLoop_congr (serverDecode C pw) _ ⟨.header, header C pw 3 ad ++ (frames ds1 ++ r'), false⟩ ⟨.udp, frames ds1 ++ r', false⟩ rfl
    (by simp only [serverDecode_header_udp C hC pw ad ha, serverDecode_udp])]
  apply pkt_loop _ SrvSt.udp (serverDecode_udp C pw) ds1 hv r' hr
  have h1 := frames_length_ge ds1
  have h2 := congrArg List.length h
  simp only [List.length_append] at h2
  omega

/-- **any segmentation of `header ‖ frames`**, started anywhere inside the header -/
theorem srv_udp_segmented (hC : C.Lawful) (ad : Addr) (ha : ad.Accepted) (ds : List Dgram) (hv : ∀ d ∈ ds, d.Ok)
    (pieces : List Bytes) (b : Bytes)
    (hb : b.length < (header C pw 3 ad).length) (h : b ++ pieces.flatten = header C pw 3 ad ++ frames ds) :
    feedAll (serverDecode C pw) ⟨.header, b, false⟩ pieces = (⟨.udp, [], false⟩, ds.map udpEv) := by
  induction pieces generalizing b with
  | nil =>
    have := congrArg List.length h
    simp only [List.flatten_nil, List.append_nil, List.length_append] at this
    omega
  | cons p ps ih =>
    rw [List.flatten_cons, ← List.append_assoc] at h
    by_cases hlt : (b ++ p).length < (header C pw 3 ad).length
    · have ht := prefix_eq_take h (by omega)
      rw [feedAll_cons, srv_header_feed_more C pw hC pw 3 ad ha b p _ hlt ht, ih (b ++ p) hlt h]
      rfl
    · obtain ⟨x, h1, h2⟩ := append_split h (by omega)
      obtain ⟨ds1, ds2, r', e1, e2, e3, e4⟩ := frames_split ds x ps.flatten h2.symm
      subst e1
      have hv1 : ∀ d ∈ ds1, d.Ok := fun d hd => hv d (List.mem_append_left _ hd)
      have hv2 : ∀ d ∈ ds2, d.Ok := fun d hd => hv d (List.mem_append_right _ hd)
      have hr' := pktCall_pending SrvSt.udp r' ps.flatten ds2 hv2 e3 e4
      rw [e2] at h1
      rw [feedAll_cons, srv_header_feed_udp C pw hC ad ha b p ds1 hv1 r' h1 hr',
        pkt_segmented _ SrvSt.udp (serverDecode_udp C pw) ps ds2 hv2 r' e3 e4]
      simp

/-- **no event before the header is complete**, for any way of cutting any proper prefix of it
(and any server password) -/
theorem srv_header_only (hC : C.Lawful) (pw' : Bytes) (cmd : Nat) (ad : Addr) (ha : ad.Accepted) (n : Nat)
    (hn : n < (header C pw' cmd ad).length) (pieces : List Bytes) (b : Bytes)
    (h : b ++ pieces.flatten = (header C pw' cmd ad).take n) :
    feedAll (serverDecode C pw) ⟨.header, b, false⟩ pieces = (⟨.header, (header C pw' cmd ad).take n, false⟩, []) := by
  induction pieces generalizing b with
  | nil => simp only [List.flatten_nil, List.append_nil] at h; rw [h]; rfl
  | cons p ps ih =>
    rw [List.flatten_cons, ← List.append_assoc] at h
    have hlen := congrArg List.length h
    simp only [List.length_append, List.length_take] at hlen
    have ht : b ++ p = (header C pw' cmd ad).take (min (b ++ p).length n) := by
      have := prefix_eq_take (x := b ++ p) (y := ps.flatten) (H := (header C pw' cmd ad).take n) (D := [])
        (by rw [List.append_nil]; exact h) (by simp only [List.length_append, List.length_take]; omega)
      rw [List.take_take] at this
      exact this
    rw [feedAll_cons, srv_header_feed_more C pw hC pw' cmd ad ha b p _ (by omega) ht, ih (b ++ p) h]
    rfl

end server

/-! ### payloads of 65536 bytes or more

`packet` writes `payload.len() % 65536` into the 16-bit length field but appends the *whole*
payload.  The receiver believes the field. -/

/-- what the receiver makes of *any* frame: the payload is cut to `len % 65536` bytes and the
remaining bytes of the payload stay in the buffer in front of the next frame -/
theorem decodePacket_packet_any (a : Addr) (p tail : Bytes) (ha : a.Accepted) :
    decodePacket (packet a p ++ tail) =
      .ok (a, p.take (p.length % 65536), p.drop (p.length % 65536) ++ tail) := by
  have hal := c14_socks5_try_decode_at a [] (be16 (p.length % 65536) ++ crlf ++ p ++ tail) ha
  simp only [List.nil_append, List.length_nil] at hal
  have henc : packet a p ++ tail = Socks5Addr.encode a ++ (be16 (p.length % 65536) ++ crlf ++ p ++ tail) := by
    simp [packet, List.append_assoc]
  have hlen2 := encode_length_ge a
  have hmod : p.length % 65536 ≤ p.length := Nat.mod_le _ _
  unfold decodePacket
  rw [henc]
  rw [if_neg (by simp only [List.length_append]; omega)]
  rw [hal]
  simp only []
  rw [if_neg (by simp [crlf]; omega)]
  have hdrop : (Socks5Addr.encode a ++ (be16 (p.length % 65536) ++ crlf ++ p ++ tail)).drop (Socks5Addr.encode a).length =
      be16 (p.length % 65536) ++ crlf ++ p ++ tail := List.drop_left
  rw [hdrop]
  have hlenv : rdBE ((be16 (p.length % 65536) ++ crlf ++ p ++ tail).take 2) = p.length % 65536 := by
    rw [List.append_assoc, List.append_assoc, List.take_left' (be16_length _)]
    exact rdBE_be16 _ (Nat.mod_lt _ (by omega))
  rw [hlenv]
  rw [if_neg (by simp [crlf]; omega)]
  rw [c14_socks5_roundtrip a _ ha]
  have e4 : (be16 (p.length % 65536) ++ crlf).length = 4 := by simp [crlf]
  have hd4 : (be16 (p.length % 65536) ++ crlf ++ p ++ tail).drop 4 = p ++ tail := by
    rw [List.append_assoc, List.append_assoc]
    rw [← List.append_assoc (be16 _) crlf]
    exact List.drop_left' e4
  have hd5 : (be16 (p.length % 65536) ++ crlf ++ p ++ tail).drop (4 + p.length % 65536) =
      p.drop (p.length % 65536) ++ tail := by
    rw [← List.drop_drop, hd4, List.drop_append_of_le_length hmod]
  simp only [hd4, hd5, List.take_append_of_le_length hmod]

/-- **finding (model level)**: a payload of exactly 65536 bytes is delivered as an *empty*
datagram, and its 65536 bytes are then parsed as if they were frames.  If they happen to (or are
chosen to) start with a well-formed frame, the receiver delivers a datagram — address and payload
taken from inside the sender's payload — that nobody sent. -/
theorem oversize_payload_injects (a a2 : Addr) (ha : a.Accepted) (ha2 : a2.Accepted) (q pad tail : Bytes)
    (hq : q.length < 65536) (hlen : (packet a2 q ++ pad).length = 65536) :
    decodePacket (packet a (packet a2 q ++ pad) ++ tail) = .ok (a, [], packet a2 q ++ pad ++ tail) ∧
      decodePacket (packet a2 q ++ pad ++ tail) = .ok (a2, q, pad ++ tail) := by
  constructor
  · rw [decodePacket_packet_any a _ tail ha, hlen]
    simp
  · rw [List.append_assoc]
    exact c02_trojan_frame_roundtrip a2 q _ ha2 hq

/-- and if they do not start with a valid address type the stream dies: an oversize datagram whose
first byte is not 1, 3 or 4 yields an empty datagram, then `Err`, then end of stream -/
theorem oversize_payload_kills_stream (a : Addr) (ha : a.Accepted) (t0 : UInt8) (p' tail : Bytes)
    (hlen : (t0 :: p').length = 65536) (ht : t0 ≠ 1 ∧ t0 ≠ 3 ∧ t0 ≠ 4) :
    frFeed cUdp ⟨(), [], false⟩ (packet a (t0 :: p') ++ tail) =
      (⟨(), t0 :: p' ++ tail, true⟩, [.item ⟨.udp, [], some a⟩, .err, .ended]) := by
  have h1 : cUdp () (packet a (t0 :: p') ++ tail) = ⟨(), t0 :: p' ++ tail, .ok ⟨.udp, [], some a⟩⟩ := by
    have hpos := packet_length_pos a (t0 :: p')
    have hne : (packet a (t0 :: p') ++ tail).isEmpty = false := by
      cases h : packet a (t0 :: p') ++ tail with
      | nil =>
        have := congrArg List.length h
        simp only [List.length_append, List.length_nil] at this
        omega
      | cons _ _ => rfl
    show clientDecodeUdp _ = _
    unfold clientDecodeUdp
    rw [hne, decodePacket_packet_any a _ tail ha, hlen]
    simp
  have h2 : cUdp () (t0 :: p' ++ tail) = ⟨(), t0 :: p' ++ tail, .err⟩ := by
    have hl : ¬ (t0 :: p' ++ tail).length < 2 := by
      have : (t0 :: p' ++ tail).length = 65536 + tail.length := by
        rw [List.length_append, hlen]
      omega
    show clientDecodeUdp _ = _
    unfold clientDecodeUdp decodePacket
    rw [if_neg hl]
    simp [Socks5Addr.tryDecodeAt, ht.1, ht.2.1, ht.2.2]
  simp only [frFeed, Bool.false_eq_true, if_false, List.nil_append, List.length_nil, Nat.zero_add]
  show frLoop _ (((packet a (t0 :: p') ++ tail).length + 1) + 1) _ = _
  rw [frLoop_ok _ _ _ ⟨.udp, [], some a⟩ (by simp only [h1])]
  simp only [h1]
  rw [frLoop_err _ _ _ (by simp only [h2])]
  simp only [h2]

end Octo.Trojan
