import Octo.Proofs.TrojanStream
/-!
# C04 (Trojan): segmentation independence and quiescence at the level of the `decode` calls under `FramedRead`
Property theorems only; the lemmas are in `Octo/Proofs/TrojanStream.lean`.
-/
namespace Octo.Trojan

/-! # C04 for Trojan — the property theorems

`feedAll decode f pieces` = one socket read per piece, each followed by polling the `FramedRead`
until it is pending.  All statements are for every segmentation `pieces` of the honest wire, every
lawful `Crypto` (only `sha224_len` is used: the key is 56 hex characters), every accepted address
(`Addr.Accepted`: what the client's local handshake lets through — a domain name of 1..=255 bytes;
`c14_unguarded_encoder_truncates` shows the address codec itself does not round-trip without it).
-/

/-- **TCP, client → server.**  The wire is what `tcp::ClientCodec::encode` writes for a first item
`w` and later items `ws` (header once, with the first item).  For every segmentation, the server
(same password) started in `header` state with an empty buffer produces

* only items (no error, no panic, no end, no spin);
* exactly: one `ConnectTcp` with the target `ad` — the first event, so nothing precedes it — and
  then one `RelayTcp` per non-empty read among the reads `later` that followed the header's end;
* whose data concatenate to exactly the items written;
* final buffer empty, state `tcp`, not ended, and the decoder is quiescent (*never stalls*: this
  holds for every `w`, `ws`, hence after every byte of payload). -/
theorem c04_trojan_server_tcp_framed (C : Crypto) (hC : C.Lawful) (pw : Bytes) (ad : Addr) (ha : ad.Accepted)
    (w : Bytes) (ws : List Bytes) (pieces : List Bytes) (hcut : pieces.flatten = encTcpAll C pw ad {} (w :: ws)) :
    let r := feedAll (serverDecode C pw) ⟨.header, [], false⟩ pieces
    evClean r.2 ∧
    (∃ d0 later, r.2 = .item ⟨.connect, d0, some ad⟩ :: dataEvs later ∧ d0 ++ later.flatten = (w :: ws).flatten) ∧
    (∃ d0 rest, evItems r.2 = ⟨.connect, d0, some ad⟩ :: rest ∧ ∀ i ∈ rest, i.kind = .data ∧ i.addr = none) ∧
    evData r.2 = (w :: ws).flatten ∧
    r.1.buf = [] ∧ r.1.st = .tcp ∧ r.1.ended = false ∧
    serverDecode C pw r.1.st r.1.buf = ⟨.tcp, [], .more⟩ := by
  intro r
  have hH := header_length C hC pw 1 ad
  rw [encTcpAll_first] at hcut
  obtain ⟨d0, later, h1, h2⟩ := srv_tcp_segmented C pw hC ad ha (w :: ws).flatten pieces []
    (by simp only [List.length_nil]; omega) (by simpa using hcut)
  have hr : r = (⟨.tcp, [], false⟩, .item ⟨.connect, d0, some ad⟩ :: dataEvs later) := h1
  rw [hr]
  refine ⟨evClean_cons_item _ (evClean_dataEvs later), ⟨d0, later, rfl, h2⟩,
    ⟨d0, evItems (dataEvs later), rfl, evItems_dataEvs later⟩, ?_, rfl, rfl, rfl, rfl⟩
  rw [evData_item, evData_dataEvs]
  exact h2

/-- **nothing before the header is complete**: any way of delivering any proper prefix of the
header (to a server with any password) produces no event at all and keeps every byte -/
theorem c04_trojan_server_header_silent (C : Crypto) (hC : C.Lawful) (pw pw' : Bytes) (cmd : Nat) (ad : Addr)
    (ha : ad.Accepted) (n : Nat) (hn : n < (header C pw' cmd ad).length) (pieces : List Bytes)
    (hcut : pieces.flatten = (header C pw' cmd ad).take n) :
    feedAll (serverDecode C pw) ⟨.header, [], false⟩ pieces = (⟨.header, (header C pw' cmd ad).take n, false⟩, []) :=
  srv_header_only C pw hC pw' cmd ad ha n hn pieces [] (by simpa using hcut)

/-- **TCP, server → client** (`serverEncodeTcp` is the identity, `clientDecodeTcp` a pass-through):
any segmentation of any written items gives only `.data` items whose concatenation is exactly what
was written; buffer empty, not ended, quiescent. -/
theorem c04_trojan_client_tcp_framed (items : List Bytes) (pieces : List Bytes)
    (hcut : pieces.flatten = (items.map serverEncodeTcp).flatten) :
    let r := feedAll cTcp ⟨(), [], false⟩ pieces
    evClean r.2 ∧ r.2 = dataEvs pieces ∧
    (∀ i ∈ evItems r.2, i.kind = .data ∧ i.addr = none) ∧
    evData r.2 = items.flatten ∧
    r.1.buf = [] ∧ r.1.ended = false ∧
    clientDecodeTcp r.1.buf = ⟨(), [], .more⟩ := by
  intro r
  have hr : r = (⟨(), [], false⟩, dataEvs pieces) := cTcp_feedAll pieces
  rw [hr]
  refine ⟨evClean_dataEvs _, rfl, evItems_dataEvs _, ?_, rfl, rfl, rfl⟩
  have hid : serverEncodeTcp = id := rfl
  rw [evData_dataEvs, hcut, hid, List.map_id]

/-- **UDP over the stream, client → server.**  The wire is what `udp::ClientCodec::encode` writes
for the datagrams `d :: ds` (header once, with the first).  For every segmentation the server
produces *exactly* one `RelayUdp` item per datagram, in order, with `data` = its payload and
`addr` = its destination — no merging, no splitting, no truncation, nothing else; final buffer
empty, state `udp`, not ended, quiescent (*never stalls*: the statement holds for every list of
datagrams, hence at every frame boundary). -/
theorem c04_trojan_server_udp_framed (C : Crypto) (hC : C.Lawful) (pw : Bytes) (ad : Addr) (ha : ad.Accepted)
    (d : Dgram) (ds : List Dgram) (hv : ∀ x ∈ d :: ds, x.Ok)
    (pieces : List Bytes) (hcut : pieces.flatten = encUdpAll C pw ad {} (d :: ds)) :
    let r := feedAll (serverDecode C pw) ⟨.header, [], false⟩ pieces
    r.2 = (d :: ds).map udpEv ∧ evClean r.2 ∧
    evItems r.2 = (d :: ds).map (fun x => ⟨.udp, x.1, some x.2⟩) ∧
    r.1.buf = [] ∧ r.1.st = .udp ∧ r.1.ended = false ∧
    serverDecode C pw r.1.st r.1.buf = ⟨.udp, [], .more⟩ := by
  intro r
  have hH := header_length C hC pw 3 ad
  rw [encUdpAll_first] at hcut
  have hr : r = (⟨.udp, [], false⟩, (d :: ds).map udpEv) :=
    srv_udp_segmented C pw hC ad ha (d :: ds) hv pieces [] (by simp only [List.length_nil]; omega) (by simpa using hcut)
  rw [hr]
  have hmap : (d :: ds).map udpEv = ((d :: ds).map (fun x => (⟨.udp, x.1, some x.2⟩ : Item))).map FrEv.item := by
    simp [udpEv, List.map_map, Function.comp_def]
  refine ⟨rfl, ?_, ?_, rfl, rfl, rfl, rfl⟩
  · show evClean ((d :: ds).map udpEv)
    rw [hmap]; exact evClean_map_item _
  · show evItems ((d :: ds).map udpEv) = _
    rw [hmap]; exact evItems_map_item _

/-- **UDP over the stream, server → client** (`serverEncodeUdp` → `udp::ClientCodec::decode`):
same statement, for any list of datagrams (the empty one included). -/
theorem c04_trojan_client_udp_framed (ds : List Dgram) (hv : ∀ x ∈ ds, x.Ok)
    (pieces : List Bytes) (hcut : pieces.flatten = (ds.map fun x => serverEncodeUdp x.1 x.2).flatten) :
    let r := feedAll cUdp ⟨(), [], false⟩ pieces
    r.2 = ds.map udpEv ∧ evClean r.2 ∧
    evItems r.2 = ds.map (fun x => ⟨.udp, x.1, some x.2⟩) ∧
    r.1.buf = [] ∧ r.1.ended = false ∧
    clientDecodeUdp r.1.buf = ⟨(), [], .more⟩ := by
  intro r
  have hr : r = (⟨(), [], false⟩, ds.map udpEv) :=
    pkt_segmented cUdp () cUdp_eq pieces ds hv [] (by simpa [frames, serverEncodeUdp] using hcut)
      (by cases ds <;> simp [Pending, packet_length_pos])
  rw [hr]
  have hmap : ds.map udpEv = (ds.map (fun x => (⟨.udp, x.1, some x.2⟩ : Item))).map FrEv.item := by
    simp [udpEv, List.map_map, Function.comp_def]
  refine ⟨rfl, ?_, ?_, rfl, rfl, rfl⟩
  · show evClean (ds.map udpEv)
    rw [hmap]; exact evClean_map_item _
  · show evItems (ds.map udpEv) = _
    rw [hmap]; exact evItems_map_item _

/-- **never stalls, stated on the run itself**: cut the reads anywhere (`pre ++ post`); if `pre`
ends at a frame boundary — it carries the header and the whole frames of `d :: ds1` — then all of
those datagrams have been delivered when `pre` has been read, whatever `post` brings later, and the
decoder waits on an empty buffer. -/
theorem c04_trojan_server_udp_no_stall (C : Crypto) (hC : C.Lawful) (pw : Bytes) (ad : Addr) (ha : ad.Accepted)
    (d : Dgram) (ds1 : List Dgram) (hv : ∀ x ∈ d :: ds1, x.Ok) (pre post : List Bytes)
    (hcut : pre.flatten = encUdpAll C pw ad {} (d :: ds1)) :
    (feedAll (serverDecode C pw) ⟨.header, [], false⟩ (pre ++ post)).2 =
      (d :: ds1).map udpEv ++ (feedAll (serverDecode C pw) ⟨.udp, [], false⟩ post).2 := by
  obtain ⟨h1, -, -, h4, h5, h6, -⟩ := c04_trojan_server_udp_framed C hC pw ad ha d ds1 hv pre hcut
  rw [feedAll_append, h1]
  congr
  generalize feedAll (serverDecode C pw) ⟨.header, [], false⟩ pre = r at h4 h5 h6
  obtain ⟨⟨st, buf, e⟩, evs⟩ := r
  simp only at h4 h5 h6
  subst h4 h5 h6
  rfl

/-! ### non-vacuity (toy crypto is lawful; concrete addresses, payloads and cuts) -/

section examples

theorem cut3 (w : Bytes) (i j : Nat) : [w.take i, (w.drop i).take j, (w.drop i).drop j].flatten = w := by
  simp only [List.flatten_cons, List.flatten_nil, List.append_nil, List.take_append_drop]

def exPw : Bytes := [112, 119]
def exAd : Addr := .domain [119, 51, 46, 111, 114, 103] 443
def exTo : Addr := .v4 [8, 8, 8, 8] 53
def exTo6 : Addr := .v6 (List.replicate 16 (1 : UInt8)) 443

example : Crypto.toy.Lawful := Crypto.toy_lawful
example : exAd.Accepted ∧ exTo.Accepted ∧ exTo6.Accepted := by decide

/-- hypotheses of `c04_trojan_server_tcp_framed` hold for a three-way cut inside the header, inside
the first item, … -/
example :
    let wire := encTcpAll Crypto.toy exPw exAd {} [[1, 2, 3], [4], [5, 6]]
    let r := feedAll (serverDecode Crypto.toy exPw) ⟨.header, [], false⟩ [wire.take 30, (wire.drop 30).take 43, (wire.drop 30).drop 43]
    evData r.2 = [1, 2, 3, 4, 5, 6] ∧ r.1.buf = [] :=
  let h := c04_trojan_server_tcp_framed Crypto.toy Crypto.toy_lawful exPw exAd (by decide) [1, 2, 3] [[4], [5, 6]]
    [(encTcpAll Crypto.toy exPw exAd {} [[1, 2, 3], [4], [5, 6]]).take 30,
     ((encTcpAll Crypto.toy exPw exAd {} [[1, 2, 3], [4], [5, 6]]).drop 30).take 43,
     ((encTcpAll Crypto.toy exPw exAd {} [[1, 2, 3], [4], [5, 6]]).drop 30).drop 43] (cut3 _ _ _)
  ⟨h.2.2.2.1, h.2.2.2.2.1⟩

/-- … and the model run on that cut, by evaluation: nothing from the first read (30 bytes of the
71-byte header), `ConnectTcp` with the first payload byte from the second, the rest from the third -/
example :
    let wire := encTcpAll Crypto.toy exPw exAd {} [[1, 2, 3], [4], [5, 6]]
    (feedAll (serverDecode Crypto.toy exPw) ⟨.header, [], false⟩ [wire.take 30, (wire.drop 30).take 42, (wire.drop 30).drop 42]).2 =
      [.item ⟨.connect, [1], some exAd⟩, .item ⟨.data, [2, 3, 4, 5, 6], none⟩] := by decide +kernel

example :
    let r := feedAll cTcp ⟨(), [], false⟩ [[1, 2], [], [3]]
    evData r.2 = [1, 2, 3] :=
  (c04_trojan_client_tcp_framed [[1], [2, 3]] [[1, 2], [], [3]] (by decide)).2.2.2.1

example : ∀ x ∈ [(([9, 9, 9] : Bytes), exTo), ([], exTo6), ([7], exAd)], Dgram.Ok x := by decide

example :
    let ds : List Dgram := [([9, 9, 9], exTo), ([], exTo6), ([7], exAd)]
    let wire := encUdpAll Crypto.toy exPw exAd {} ds
    (feedAll (serverDecode Crypto.toy exPw) ⟨.header, [], false⟩ [wire.take 80, (wire.drop 80).take 7, (wire.drop 80).drop 7]).2 =
      ds.map udpEv :=
  (c04_trojan_server_udp_framed Crypto.toy Crypto.toy_lawful exPw exAd (by decide)
    ([9, 9, 9], exTo) [([], exTo6), ([7], exAd)] (by decide) _ (cut3 _ _ _)).1

example :
    let ds : List Dgram := [([9, 9, 9], exTo), ([], exTo6), ([7], exAd)]
    let wire := (ds.map fun x => serverEncodeUdp x.1 x.2).flatten
    (feedAll cUdp ⟨(), [], false⟩ [wire.take 5, (wire.drop 5).take 20, (wire.drop 5).drop 20]).2 = ds.map udpEv :=
  (c04_trojan_client_udp_framed [([9, 9, 9], exTo), ([], exTo6), ([7], exAd)] (by decide) _ (cut3 _ _ _)).1

/-- the oversize finding is not vacuous: a 65536-byte payload that starts with a frame exists -/
example : (exTo.Accepted ∧ ([] : Bytes).length < 65536) ∧
    (packet exTo [] ++ List.replicate 65525 (0 : UInt8)).length = 65536 := by
  refine ⟨by decide, ?_⟩
  have h7 : (Socks5Addr.encode exTo).length = 7 := by decide
  rw [List.length_append, List.length_replicate, packet_length, h7, List.length_nil]

/-- and one whose first byte is no address type (`oversize_payload_kills_stream`) -/
example : ((0 : UInt8) :: List.replicate 65535 (0 : UInt8)).length = 65536 ∧
    ((0 : UInt8) ≠ 1 ∧ (0 : UInt8) ≠ 3 ∧ (0 : UInt8) ≠ 4) := by
  refine ⟨?_, by decide⟩
  rw [List.length_cons, List.length_replicate]

end examples

end Octo.Trojan
