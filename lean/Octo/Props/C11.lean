import Octo.Proofs.PacketWindow
/-!
# C11 — each UDP packet ID is accepted at most once, in any arrival order

Property theorems only.  `Octo.PW.Filter.validate` is the model of
`PacketWindowFilter::validate_packet_id` (tied to the Rust by the correspondence run of
`bin/check C11`); `specAccept` is the set specification:

  accept id  ⇔  id < limit ∧ id ∉ S ∧ ∀ x ∈ S, x ≤ id + 8128        (S = ids accepted so far)

i.e. not accepted before and not more than the window size behind the highest accepted id.
-/
namespace Octo.PW

/-- **C11 (refinement)**: for *every* finite history of packet ids (any order, any values — ids
are `Nat`, so in particular every u64) the filter answers exactly like the set specification. -/
theorem c11_refines (limit : Nat) (ids : List Nat) :
    runImpl limit Filter.new ids = runSpec limit [] ids := by
  suffices ∀ f S, Inv f S → runImpl limit f ids = runSpec limit S ids from this _ _ inv_new
  induction ids with
  | nil => intros; rfl
  | cons id ids ih =>
    intro f S h
    obtain ⟨h1, h2⟩ := step_refines f S id limit h
    simp only [runImpl, runSpec, h1, ih _ _ h2]

/-- the window size the property names (8128) is the one the source constants give -/
theorem c11_window_is_8128 : windowSize = 8128 := windowSize_eq

/-- ids at or above the limit are always refused, whatever the state -/
theorem c11_limit (f : Filter) (id limit : Nat) (h : limit ≤ id) :
    (f.validate id limit).2 = false ∧ (f.validate id limit).1 = f := by
  unfold Filter.validate; simp [h]

/-! ### consequences read off the specification -/

theorem specStep_mono (S : List Nat) (id limit x : Nat) (h : x ∈ S) : x ∈ (specStep S id limit).1 := by
  unfold specStep; split <;> simp [h]

theorem specStep_reject_mem (S : List Nat) (x limit : Nat) (h : x ∈ S) : (specStep S x limit).2 = false := by
  unfold specStep specAccept; simp [h]

theorem specStep_accept_mem (S : List Nat) (x limit : Nat) (h : (specStep S x limit).2 = true) :
    x ∈ (specStep S x limit).1 := by
  unfold specStep at h ⊢; split <;> simp_all

theorem specStep_accept_iff (S : List Nat) (x limit : Nat) :
    (specStep S x limit).2 = true ↔ (x < limit ∧ x ∉ S ∧ ∀ y ∈ S, y ≤ x + 8128) := by
  unfold specStep
  split <;> rename_i h <;>
    simp only [specAccept, Bool.and_eq_true, decide_eq_true_eq, Bool.not_eq_true',
        List.contains_eq_mem, decide_eq_false_iff_not, List.all_eq_true] at h
  · simp only [true_iff]; exact ⟨h.1.1, h.1.2, h.2⟩
  · simp only [Bool.false_eq_true, false_iff]; intro ⟨a, b, c⟩; exact h ⟨⟨a, b⟩, c⟩

theorem specSet_mono (limit : Nat) (ids : List Nat) : ∀ (S : List Nat) (x : Nat), x ∈ S → x ∈ specSet limit S ids := by
  induction ids with
  | nil => intro S x h; exact h
  | cons id ids ih => intro S x h; exact ih _ _ (specStep_mono S id limit x h)

theorem runSpec_append (limit : Nat) (a b : List Nat) : ∀ S,
    runSpec limit S (a ++ b) = runSpec limit S a ++ runSpec limit (specSet limit S a) b := by
  induction a with
  | nil => intro S; rfl
  | cons x a ih => intro S; simp [runSpec, specSet, ih]

theorem runSpec_length (limit : Nat) (a : List Nat) : ∀ S, (runSpec limit S a).length = a.length := by
  induction a with
  | nil => intro S; rfl
  | cons x a ih => intro S; simp [runSpec, ih]

/-- **at most once**: in any history, once an id has been accepted, every later presentation of
the same id is refused — whatever arrives in between. -/
theorem c11_at_most_once (limit x : Nat) (pre mid post : List Nat) :
    let r := runImpl limit Filter.new (pre ++ x :: (mid ++ x :: post))
    r[pre.length]? = some true → r[pre.length + 1 + mid.length]? = some false := by
  intro r h
  have hr : r = runSpec limit [] (pre ++ x :: (mid ++ x :: post)) := c11_refines _ _
  rw [hr] at h ⊢
  rw [runSpec_append] at h ⊢
  have hl := runSpec_length limit pre []
  rw [List.getElem?_append_right (by omega)] at h ⊢
  simp only [hl, Nat.sub_self] at h
  have e1 : pre.length + 1 + mid.length - (runSpec limit [] pre).length = mid.length + 1 := by omega
  rw [e1]
  simp only [runSpec, List.getElem?_cons_zero, Option.some.injEq] at h
  simp only [runSpec, List.getElem?_cons_succ]
  -- after the accepted step, x ∈ S
  have hx : x ∈ (specStep (specSet limit [] pre) x limit).1 := specStep_accept_mem _ _ _ h
  rw [runSpec_append]
  rw [List.getElem?_append_right (by rw [runSpec_length]; omega)]
  simp only [runSpec_length, Nat.sub_self, runSpec, List.getElem?_cons_zero, Option.some.injEq]
  exact specStep_reject_mem _ _ _ (specSet_mono limit mid _ x hx)

/-- **iff**: an id is accepted exactly when it is below the limit, has not been accepted before
and is at most 8128 behind every id accepted so far (hence behind the highest one). -/
theorem c11_accept_iff (limit id : Nat) (pre : List Nat) :
    (runImpl limit Filter.new (pre ++ [id]))[pre.length]? = some true ↔
      (id < limit ∧ id ∉ specSet limit [] pre ∧ ∀ x ∈ specSet limit [] pre, x ≤ id + 8128) := by
  rw [c11_refines, runSpec_append, List.getElem?_append_right (by rw [runSpec_length]; omega)]
  simp only [runSpec_length, Nat.sub_self, runSpec, List.getElem?_cons_zero, Option.some.injEq]
  exact specStep_accept_iff _ _ _

/-- the accepted set really is "the ids that were accepted": it only ever grows by accepted ids -/
theorem specStep_set (S : List Nat) (id limit : Nat) :
    (specStep S id limit).1 = if (specStep S id limit).2 then id :: S else S := by
  unfold specStep; split <;> simp

/-! ### non-vacuity: a concrete history (prefix of the WireGuard test vector) -/
example : runImpl (2^64 - 1 - 2^13) Filter.new [0, 1, 1, 9, 8, 7, 7, 8129, 8128, 8128, 8127, 2, 2, 8145, 3]
    = [true, true, false, true, true, true, false, true, true, false, true, true, false, true, false] := by
  rw [c11_refines]; decide

end Octo.PW
