import Octo.Props.C11Gen
/-! # Non-vacuity of `c11_generated_code_refines` (the file shows its hypotheses hold for a history; here it is applied) -/
namespace Octo.NonVacuity.C11Gen
open Octo

example := PWGen.c11_generated_code_refines true (2 ^ 64 - 1 - 2 ^ 13) [0, 1, 1, 9, 8, 8129, 8128, 2, 2 ^ 64 - 1] (by decide) (by decide)
example := PWGen.c11_generated_code_refines false 100 [5, 100, 99, 5] (by decide) (by decide)

end Octo.NonVacuity.C11Gen
