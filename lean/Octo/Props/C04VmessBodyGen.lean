import Octo.Proofs.VmessBodyGen
import Octo.Props.C04Vmess
import Octo.Props.C05Vmess
import Octo.Props.C03More
import Octo.Props.C12
/-!
# C04 / C05 / C07 / C12 (and the datagram half of C02) for the VMess AEAD body codec **as translated from the Rust source**

`Octo.VmessBodyGen` (`Octo/Gen/VmessBodyGen.lean`) is written by `bin/translate_vmessbody.py` from
`octo-squirrel/src/codec/vmess/aead.rs` (+ `codec/chunk.rs`, `protocol/vmess/session.rs`) on every check.  Property theorems
only; the lemmas are in `Octo/Proofs/VmessBodyGen.lean`.  Everything is stated for every value of the assumed externals `X`
that satisfies `ExtOk X C` (ciphers / SHAKE reader behave like the model's abstract `Crypto`), both overflow profiles `ov`,
every generated codec value `g` that stands for a model `Body` (`Rel` / `RelN`: any cipher, any of the three size encodings
— plain, SHAKE-masked, AEAD-authenticated —, global padding on or off, any decoder state), every buffer below 2^64 bytes.
-/
namespace Octo.VmessBodyGen
open Octo Octo.PWGen Octo.AddrGen Octo.Vmess Octo.Fr

variable {CM XR RNG : Type} {X : Ext CM XR RNG} {C : Crypto}

/-! ### the hypotheses are satisfiable -/

/-- for every `Crypto` there are externals with `ExtOk` -/
example (C : Crypto) : ExtOk (extOf C) C := extOf_ok C
/-- for every fresh model codec there is a generated codec value and a session that stand for it — in particular for the
option mask this repository's client sends (0x1d: ChunkStream | ChunkMasking | GlobalPadding | AuthenticatedLength), both ciphers -/
example (C : Crypto) (b : Body) (h : b.st = .padding) : Rel (extOf_ok C) (genOf b) b := rel_genOf C b h
example (sec : Security) (s : Session) (key iv : Bytes) :
    Rel (extOf_ok Crypto.toy) (genOf (Body.new Crypto.toy 29 sec key iv s)) (Body.new Crypto.toy 29 sec key iv s) :=
  rel_genOf _ _ rfl
example : (Body.new Crypto.toy 29 .chacha20 [1] [2] ⟨[3], [4], 5⟩).size = .auth ∧
    (Body.new Crypto.toy 29 .chacha20 [1] [2] ⟨[3], [4], 5⟩).globalPadding = true := by decide
example (b : Body) (h1 : 12 ≤ b.iv.length) (h2 : 12 ≤ b.sizeIv.length) : SessD (sessOf b) b := sessD_sessOf b h1 h2
example : ∃ C : Crypto, C.Lawful := ⟨Crypto.toy, Crypto.toy_lawful⟩

/-! ### equivalence, one call -/

/-- **C04/C03 — one `decode_payload` call of the generated code is the model's loop of body units**: it never panics
(neither `split_to` / `advance` / `get_u16` on a short buffer, nor `length - padding` underflowing, nor `padding + tag_size`
overflowing, nor the loop running out of the fuel the translator gives it); the bytes left in `src` are the model's remaining
buffer; the returned value is `Err` exactly when the model's run fails, `Ok(None)` when it released nothing, else
`Ok(Some(released plaintext))`; the new codec value and session stand for the model's new state — including the payload
cipher's counter, the length cipher's own counter and the position in the SHAKE stream (`RelN`: up to the padding length the
code has already drawn when it stops in front of an incomplete size field). -/
theorem c04_gen_decode_payload_eq (A : ExtOk X C) (hC : C.Lawful) (ov : Bool) (g : AEADBodyCodec CM XR) (b : Body) (src : Bytes)
    (sess : DynSession) (h : Rel A g b) (hs : SessD sess b) (h64 : src.length < 2 ^ 64) :
    ∃ g' sess', AEADBodyCodec.decode_payload X ov g src sess =
        PWGen.Res.ok (g', (run (Body.unit C) b src).buf, sess', embedOut (run (Body.unit C) b src)) ∧
      RelN A g' (run (Body.unit C) b src).st ∧ SessD sess' (run (Body.unit C) b src).st :=
  decode_payload_eq A hC ov g b src sess h hs h64

example (ov : Bool) (b : Body) (h : b.st = .padding) (h1 : 12 ≤ b.iv.length) (h2 : 12 ≤ b.sizeIv.length) (src : Bytes)
    (h64 : src.length < 2 ^ 64) :
    ∃ g' sess', AEADBodyCodec.decode_payload (extOf Crypto.toy) ov (genOf b) src (sessOf b) =
      PWGen.Res.ok (g', (run (Body.unit Crypto.toy) b src).buf, sess', embedOut (run (Body.unit Crypto.toy) b src)) :=
  let ⟨g', s', e, _⟩ := c04_gen_decode_payload_eq (extOf_ok Crypto.toy) Crypto.toy_lawful ov (genOf b) b src (sessOf b)
    (rel_genOf _ b h) (sessD_sessOf b h1 h2) h64
  ⟨g', s', e⟩

/-- the same from any state a previous call can have left (`RelN`), so that calls can be chained -/
theorem c04_gen_decode_payload_next (A : ExtOk X C) (hC : C.Lawful) (ov : Bool) (g : AEADBodyCodec CM XR) (b : Body) (src : Bytes)
    (sess : DynSession) (h : RelN A g b) (hs : SessD sess b) (h64 : src.length < 2 ^ 64) :
    ∃ r, AEADBodyCodec.decode_payload X ov g src sess = PWGen.Res.ok r ∧ PQr A (run (Body.unit C) b src) r :=
  decode_payload_spec A hC ov g b src sess h hs h64

example (A : ExtOk X C) (g : AEADBodyCodec CM XR) (b : Body) (h : Rel A g b) : RelN A g b := relN_of_rel A g b h

/-- **C07 — `decode_payload` never panics**, whatever the buffer holds and whatever an unauthenticated size field said
(state `Body(padding, length)` with any `length`: the guard `length < padding + tag_size` answers `Err`) -/
theorem c07_gen_decode_payload_no_panic (A : ExtOk X C) (hC : C.Lawful) (ov : Bool) (g : AEADBodyCodec CM XR) (b : Body)
    (src : Bytes) (sess : DynSession) (h : RelN A g b) (hs : SessD sess b) (h64 : src.length < 2 ^ 64) :
    AEADBodyCodec.decode_payload X ov g src sess ≠ PWGen.Res.panic :=
  decode_payload_no_panic A hC ov g b src sess h hs h64

example (ov : Bool) (b : Body) (h : b.st = .padding) (h1 : 12 ≤ b.iv.length) (h2 : 12 ≤ b.sizeIv.length) :
    AEADBodyCodec.decode_payload (extOf Crypto.toy) ov (genOf b) [0, 1, 2] (sessOf b) ≠ PWGen.Res.panic :=
  c07_gen_decode_payload_no_panic (extOf_ok Crypto.toy) Crypto.toy_lawful ov (genOf b) b _ (sessOf b)
    (relN_of_rel _ _ _ (rel_genOf _ b h)) (sessD_sessOf b h1 h2) (by decide)

/-- **C02/C04 — `decode_packet` is the model's datagram drain**: at most one datagram per call (exactly one chunk = one
datagram, `Ok(None)` while the chunk is incomplete, `Err` where the model fails), same remaining buffer, same new state;
never a panic -/
theorem c04_gen_decode_packet_eq (A : ExtOk X C) (hC : C.Lawful) (ov : Bool) (g : AEADBodyCodec CM XR) (b : Body) (src : Bytes)
    (sess : DynSession) (h : RelN A g b) (hs : SessD sess b) (h64 : src.length < 2 ^ 64) :
    ∃ g' sess', AEADBodyCodec.decode_packet X ov g src sess =
        PWGen.Res.ok (g', (bodyDrainPacket C 3 b src).2.1, sess', embedPkt (bodyDrainPacket C 3 b src).2.2) ∧
      RelN A g' (bodyDrainPacket C 3 b src).1 ∧ SessD sess' (bodyDrainPacket C 3 b src).1 ∧
      (bodyDrainPacket C 3 b src).2.2 ≠ .panic :=
  decode_packet_eq A hC ov g b src sess h hs h64

theorem c07_gen_decode_packet_no_panic (A : ExtOk X C) (hC : C.Lawful) (ov : Bool) (g : AEADBodyCodec CM XR) (b : Body)
    (src : Bytes) (sess : DynSession) (h : RelN A g b) (hs : SessD sess b) (h64 : src.length < 2 ^ 64) :
    AEADBodyCodec.decode_packet X ov g src sess ≠ PWGen.Res.panic :=
  decode_packet_no_panic A hC ov g b src sess h hs h64

example (ov : Bool) (b : Body) (h : b.st = .padding) (h1 : 12 ≤ b.iv.length) (h2 : 12 ≤ b.sizeIv.length) :
    AEADBodyCodec.decode_packet (extOf Crypto.toy) ov (genOf b) [9, 9] (sessOf b) ≠ PWGen.Res.panic :=
  c07_gen_decode_packet_no_panic (extOf_ok Crypto.toy) Crypto.toy_lawful ov (genOf b) b _ (sessOf b)
    (relN_of_rel _ _ _ (rel_genOf _ b h)) (sessD_sessOf b h1 h2) (by decide)

/-! ### C12 — nonce use -/

/-- **C12 — one AEAD operation per counter value**: `Authenticator::open` asks the counting generator (the code of
`Octo.NonceGen`) for exactly one nonce — the session buffer with the counter over its first two bytes, first 12 bytes — and
leaves the counter one higher; the session buffer keeps everything but its first two bytes -/
theorem c12_gen_open_one_nonce (ov : Bool) (a : Authenticator CM) (buffer nonce : List UInt8)
    (hs : a.counting.nonce_size = 12) (hl : 12 ≤ nonce.length) :
    Authenticator.open_ X ov a buffer nonce =
      PWGen.Res.ok (⟨a.cipher, ⟨a.counting.count + 1, 12⟩⟩,
        (X.decrypt_in_place a.cipher (Nonce.counting nonce a.counting.count.toNat 12) [] buffer).1,
        stamped a.counting.count nonce,
        (X.decrypt_in_place a.cipher (Nonce.counting nonce a.counting.count.toNat 12) [] buffer).2) :=
  open_eval X ov a buffer nonce hs hl

example (ov : Bool) : ∃ r, Authenticator.open_ (extOf Crypto.toy) ov ⟨(.aes128gcm, [1]), ⟨7, 12⟩⟩ [1, 2, 3] (List.replicate 16 0) = PWGen.Res.ok r :=
  ⟨_, c12_gen_open_one_nonce ov _ _ _ rfl (by decide)⟩

/-- the same for `seal` -/
theorem c12_gen_seal_one_nonce (ov : Bool) (a : Authenticator CM) (buffer nonce : List UInt8)
    (hs : a.counting.nonce_size = 12) (hl : 12 ≤ nonce.length) :
    Authenticator.seal X ov a buffer nonce =
      PWGen.Res.ok (⟨a.cipher, ⟨a.counting.count + 1, 12⟩⟩,
        (X.encrypt_in_place a.cipher (Nonce.counting nonce a.counting.count.toNat 12) [] buffer).1,
        stamped a.counting.count nonce,
        (X.encrypt_in_place a.cipher (Nonce.counting nonce a.counting.count.toNat 12) [] buffer).2) :=
  seal_eval X ov a buffer nonce hs hl

example (ov : Bool) : ∃ r, Authenticator.seal (extOf Crypto.toy) ov ⟨(.aes128gcm, [1]), ⟨7, 12⟩⟩ [1, 2, 3] (List.replicate 16 0) = PWGen.Res.ok r :=
  ⟨_, c12_gen_seal_one_nonce ov _ _ _ rfl (by decide)⟩

/-- **C12 — with AuthenticatedLength the length cipher has its own key and its own counter**: `decode_size` touches the
length cipher's counter (`sizeCount`) and never the payload cipher's (`count`), and vice versa for the chunk body — this is
the state component of the equivalence: the new codec value stands for `Body.decodeSize`'s new state -/
theorem c12_gen_decode_size_counters (A : ExtOk X C) (hC : C.Lawful) (ov : Bool) (g : AEADBodyCodec CM XR) (b : Body)
    (h : RelCore A g b) (data nonce : List UInt8) (hd : data.length = b.sizeBytes) (hl : 12 ≤ nonce.length)
    (hiv : b.size = .auth → nonce.drop 2 = b.sizeIv.drop 2) :
    ∃ g' d' n' res, AEADBodyCodec.decode_size X ov g data nonce = PWGen.Res.ok (g', d', n', res) ∧
      n'.length = nonce.length ∧ n'.drop 2 = nonce.drop 2 ∧
      RelCore A g' (b.decodeSize C data).2 ∧ g'.state = g.state ∧ sizeRes res (b.decodeSize C data).1 :=
  decode_size_spec A hC ov g b h data nonce hd hl hiv

example (ov : Bool) (b : Body) (h : b.st = .padding) (data : Bytes) (hd : data.length = b.sizeBytes) (h2 : 12 ≤ b.sizeIv.length) :
    ∃ g' d' n' res, AEADBodyCodec.decode_size (extOf Crypto.toy) ov (genOf b) data b.sizeIv = PWGen.Res.ok (g', d', n', res) :=
  let ⟨g', d', n', res, e, _⟩ := c12_gen_decode_size_counters (extOf_ok Crypto.toy) Crypto.toy_lawful ov (genOf b) b
    (rel_genOf _ b h).core data b.sizeIv hd h2 (fun _ => rfl)
  ⟨g', d', n', res, e⟩

/-! ### C04 — segmentation independence, C05 — prefix property, for the generated decoder under a read loop -/

/-- **any sequence of reads** (the read loop appends what arrived and calls `decode_payload` once): no call panics and the
generated decoder stays in step with the model's `Fr.feed` — same state, same buffer, same failure; as long as nothing has
failed the same bytes have been delivered, after a failure a prefix of what the model's run released (the code returns
`Err` for the failing call and drops what that call had decoded before the failure: it delivers less, never more) -/
theorem c04_gen_reads_in_step (A : ExtOk X C) (hC : C.Lawful) (ov : Bool) (pieces : List Bytes) (s : GenSt CM XR)
    (r : Out Body UInt8) (h : Sim A s r) (hl : r.buf.length + pieces.flatten.length < 2 ^ 64) :
    ∃ s', genFeedAll X ov s pieces = some s' ∧ Sim A s' (pieces.foldl (feed (Body.unit C)) r) :=
  genFeedAll_sim A hC ov pieces s r h hl

example (A : ExtOk X C) (g : AEADBodyCodec CM XR) (sess : DynSession) (d : Body) (hd : d.st = .padding) (h : Rel A g d)
    (hs : SessD sess d) : Sim A ⟨g, [], sess, [], false⟩ (run (Body.unit C) d []) := sim_start A g sess d hd h hs

/-- **C04 — one write, any segmentation, generated decoder**: cutting the wire bytes of a write into any consecutive pieces
and feeding them one read at a time to the generated `decode_payload` delivers exactly the payload, no error, no panic, an
empty buffer (transfer of `c04_vmess_body_segmented`; all option combinations, both ciphers) -/
theorem c04_gen_vmess_body_segmented (A : ExtOk X C) (hC : C.Lawful) (ov : Bool) (e d : Body) (hsy : Body.Sync e d)
    (src pad : Bytes) (hp : PadEnough e src.length pad) (pieces : List Bytes)
    (hcut : pieces.flatten = (Body.encodePayload C (src.length + 1) e src pad).1) (h64 : pieces.flatten.length < 2 ^ 64)
    (g : AEADBodyCodec CM XR) (sess : DynSession) (h : Rel A g d) (hs : SessD sess d) :
    ∃ s', genFeedAll X ov ⟨g, [], sess, [], false⟩ pieces = some s' ∧ s'.out = src ∧ s'.failed = false ∧ s'.buf = [] := by
  have hd : d.st = .padding := by rw [hsy]
  obtain ⟨s', e1, h1, h2, h3, h4, h5, h6⟩ := genFeedAll_sim A hC ov pieces _ _ (sim_start A g sess d hd h hs)
    (by rw [run_nil C d hd]; simpa using h64)
  obtain ⟨m1, m2, m3, _, _⟩ := c04_vmess_body_segmented C hC e d hsy src pad hp pieces hcut
  exact ⟨s', e1, by rw [h6 m2]; exact m1, by rw [h4]; exact m2, by rw [h3]; exact m3⟩

example (ov : Bool) (k : SizeKind) (gp : Bool) (sec : Security) (pieces : List Bytes)
    (hcut : pieces.flatten = (Body.encodePayload Crypto.toy 4 (exBody k gp sec) [10, 20, 30] exPad).1)
    (h64 : pieces.flatten.length < 2 ^ 64) :
    ∃ s', genFeedAll (extOf Crypto.toy) ov ⟨genOf (exBody k gp sec), [], sessOf (exBody k gp sec), [], false⟩ pieces = some s' ∧
      s'.out = [10, 20, 30] ∧ s'.failed = false ∧ s'.buf = [] :=
  c04_gen_vmess_body_segmented (extOf_ok Crypto.toy) Crypto.toy_lawful ov (exBody k gp sec) (exBody k gp sec) rfl [10, 20, 30] exPad
    (by intro _; decide) pieces hcut h64 _ _ (rel_genOf _ _ rfl) (sessD_sessOf _ (by simp [exBody]) (by simp [exBody]))

/-- **C05 — prefix property, generated decoder**: whatever bytes an attacker presents, in whatever segmentation, under the
relative no-forgery hypothesis the generated decoder delivers a prefix of the payloads of the first `k` honest chunks —
all of them when nothing failed — whose wire bytes are a prefix of what was received (transfer of
`c05_vmess_body_prefix_segmented`) -/
theorem c05_gen_vmess_body_prefix_segmented (A : ExtOk X C) (hC : C.Lawful) (ov : Bool) (e d : Body) (hsy : Body.Sync e d)
    (ps : List Bytes) (hfit : e.ChunksFit C ps) (pieces : List Bytes) (hnf : VmNoForgery C e ps pieces.flatten)
    (h64 : pieces.flatten.length < 2 ^ 64) (g : AEADBodyCodec CM XR) (sess : DynSession) (h : Rel A g d) (hs : SessD sess d) :
    ∃ s' k pads, genFeedAll X ov ⟨g, [], sess, [], false⟩ pieces = some s' ∧ k ≤ ps.length ∧ pads.length = k ∧
      e.PadsExact C pads ∧ (∃ t, (ps.take k).flatten = s'.out ++ t) ∧ (s'.failed = false → s'.out = (ps.take k).flatten) ∧
      (e.encodeChunks C (ps.take k) pads).1 <+: pieces.flatten := by
  have hd : d.st = .padding := by rw [hsy]
  obtain ⟨s', e1, h1, h2, h3, h4, h5, h6⟩ := genFeedAll_sim A hC ov pieces _ _ (sim_start A g sess d hd h hs)
    (by rw [run_nil C d hd]; simpa using h64)
  obtain ⟨k, pads, m1, m2, m3, m4, m5⟩ := c05_vmess_body_prefix_segmented C hC e d hsy ps hfit pieces hnf
  refine ⟨s', k, pads, e1, m1, m2, m3, ?_, ?_, m5⟩
  · rw [← m4]; exact h5
  · intro hf; rw [← m4]; exact h6 (by rw [← h4]; exact hf)

example (A : ExtOk X C) (hC : C.Lawful) (ov : Bool) (e : Body) (he : e.st = .padding) (ps : List Bytes) (hfit : e.ChunksFit C ps)
    (pieces : List Bytes) (hnf : VmNoForgery C e ps pieces.flatten) (h64 : pieces.flatten.length < 2 ^ 64)
    (g : AEADBodyCodec CM XR) (sess : DynSession) (h : Rel A g e) (hs : SessD sess e) :
    ∃ s', genFeedAll X ov ⟨g, [], sess, [], false⟩ pieces = some s' :=
  let ⟨s', _, _, e1, _⟩ := c05_gen_vmess_body_prefix_segmented A hC ov e e (by cases e; simp only at he; subst he; rfl) ps hfit
    pieces hnf h64 g sess h hs
  ⟨s', e1⟩

/-! ### the encoder: C03 (wire format), C12 (one counter value per seal), C02 (a datagram travels in one chunk), round trips -/

/-- **C03 — `encode_chunk` of the generated code is the model's `Body.encodeChunk`**: the chunk carries
`min(src, payload_limit - tag_size - size_bytes - padding)` bytes, the size field says sealed + padding + tag (plain, masked with
the next SHAKE value, or sealed by the length cipher under its own key and counter), the payload is sealed under the next
counter value, the padding bytes are those drawn from the random source `X.fill_bytes`; never a panic, never `Err`; the codec,
the session and the random source end in the model's state -/
theorem c03_gen_encode_chunk_eq (A : ExtOk X C) (hC : C.Lawful) (ov : Bool) (g : AEADBodyCodec CM XR) (b : Body) (h : RelCore A g b)
    (rng : RNG) (src dst : Bytes) (sess : DynSession) (hs : SessE sess b) (h64 : src.length < 2 ^ 64) :
    ∃ g' sess', AEADBodyCodec.encode_chunk X ov g rng src dst sess =
        PWGen.Res.ok (g', (X.fill_bytes rng (List.replicate (b.nextPadding C).1 0)).1,
          (b.encodeChunk C src (X.fill_bytes rng (List.replicate (b.nextPadding C).1 0)).2).2.1,
          dst ++ (b.encodeChunk C src (X.fill_bytes rng (List.replicate (b.nextPadding C).1 0)).2).1, sess', RResult.ok ()) ∧
      RelCore A g' (b.encodeChunk C src (X.fill_bytes rng (List.replicate (b.nextPadding C).1 0)).2).2.2 ∧
      SessE sess' (b.encodeChunk C src (X.fill_bytes rng (List.replicate (b.nextPadding C).1 0)).2).2.2 ∧ g'.state = g.state :=
  encode_chunk_spec A hC ov g b h rng src dst sess hs h64

/-- a session for the encoder (a server: encoder nonce and chunk nonce are different fields) -/
def sessOfE (b : Body) : DynSession := .ServerSession ⟨b.sizeIv, [], b.iv, [], 0⟩

theorem sessE_sessOfE (b : Body) (h1 : 12 ≤ b.iv.length) (h2 : 12 ≤ b.sizeIv.length) : SessE (sessOfE b) b :=
  ⟨⟨h1, rfl⟩, h2, fun _ => rfl⟩

example (ov : Bool) (b : Body) (hb : b.st = .padding) (h1 : 12 ≤ b.iv.length) (h2 : 12 ≤ b.sizeIv.length) (src : Bytes)
    (h64 : src.length < 2 ^ 64) :
    ∃ r, AEADBodyCodec.encode_chunk (extOf Crypto.toy) ov (genOf b) () src [] (sessOfE b) = PWGen.Res.ok r :=
  let ⟨_, _, e, _⟩ := c03_gen_encode_chunk_eq (extOf_ok Crypto.toy) Crypto.toy_lawful ov (genOf b) b (rel_genOf _ b hb).core () src []
    (sessOfE b) (sessE_sessOfE b h1 h2) h64
  ⟨_, e⟩

/-- **C03 — against the published format**: with AuthenticatedLength, no global padding, AES-128-GCM and both counters equal
(as from `new` on) the bytes the generated `encode_chunk` appends are `Spec.vmessChunkAuthLen` of the first
`min(src, 2048 - 34)` source bytes (via `c03_vmess_body_chunk_eq_spec`) -/
theorem c03_gen_encode_chunk_is_spec (A : ExtOk X C) (hC : C.Lawful) (ov : Bool) (g : AEADBodyCodec CM XR) (b : Body) (h : RelCore A g b)
    (lenKey : Bytes) (hsize : b.size = .auth) (hpad : b.globalPadding = false) (hsec : b.sec = .aes128gcm)
    (hcount : b.sizeCount = b.count) (hsk : b.sizeKey = (Spec.vmessKdf C lenKey [Spec.ascii "auth_len"]).take 16)
    (rng : RNG) (src dst : Bytes) (sess : DynSession) (hs : SessE sess b) (h64 : src.length < 2 ^ 64) :
    ∃ g' rng' sess', AEADBodyCodec.encode_chunk X ov g rng src dst sess =
      PWGen.Res.ok (g', rng', src.drop (min src.length (Consts.vmessPayloadLimit - 34)),
        dst ++ Spec.vmessChunkAuthLen C b.key b.iv lenKey b.sizeIv b.count (src.take (min src.length (Consts.vmessPayloadLimit - 34))),
        sess', RResult.ok ()) := by
  obtain ⟨g', sess', e, _⟩ := encode_chunk_spec A hC ov g b h rng src dst sess hs h64
  rw [c03_vmess_body_chunk_eq_spec C b lenKey hsize hpad hsec hcount hsk] at e
  exact ⟨g', _, sess', e⟩

example : ∃ b : Body, b.size = .auth ∧ b.globalPadding = false ∧ b.sec = .aes128gcm ∧ b.sizeCount = b.count ∧
    b.sizeKey = (Spec.vmessKdf Crypto.toy [1] [Spec.ascii "auth_len"]).take 16 :=
  ⟨{ sec := .aes128gcm, key := [], iv := [], size := .auth, sizeKey := (Spec.vmessKdf Crypto.toy [1] [Spec.ascii "auth_len"]).take 16,
     globalPadding := false, shakeSeed := [] }, rfl, rfl, rfl, rfl, rfl⟩

/-- **C12 — one counter value per seal**: after `encode_chunk` the payload cipher's counter of the generated codec is the old
one plus one (mod 2^16) — the single `seal` of the chunk used the old value (`c12_gen_seal_one_nonce`) -/
theorem c12_gen_encode_chunk_one_count (A : ExtOk X C) (hC : C.Lawful) (ov : Bool) (g : AEADBodyCodec CM XR) (b : Body)
    (h : RelCore A g b) (rng : RNG) (src dst : Bytes) (sess : DynSession) (hs : SessE sess b) (h64 : src.length < 2 ^ 64) :
    ∃ g' r' s' d' sess', AEADBodyCodec.encode_chunk X ov g rng src dst sess = PWGen.Res.ok (g', r', s', d', sess', RResult.ok ()) ∧
      g'.auth.counting.count.toNat = (b.count + 1) % 65536 := by
  obtain ⟨g', sess', e, hc, _⟩ := encode_chunk_spec A hC ov g b h rng src dst sess hs h64
  exact ⟨g', _, _, _, sess', e, by rw [hc.auth.2.1, c12_vmess_one_count_per_chunk]⟩

example (ov : Bool) (b : Body) (hb : b.st = .padding) (h1 : 12 ≤ b.iv.length) (h2 : 12 ≤ b.sizeIv.length) :
    ∃ g' r' s' d' sess', AEADBodyCodec.encode_chunk (extOf Crypto.toy) ov (genOf b) () [1, 2, 3] [] (sessOfE b) =
      PWGen.Res.ok (g', r', s', d', sess', RResult.ok ()) ∧ g'.auth.counting.count.toNat = (b.count + 1) % 65536 :=
  c12_gen_encode_chunk_one_count (extOf_ok Crypto.toy) Crypto.toy_lawful ov (genOf b) b (rel_genOf _ b hb).core () _ _ _
    (sessE_sessOfE b h1 h2) (by decide)

/-- **C02 — a datagram travels in exactly one chunk or not at all**: `encode_packet` refuses (`Err`, nothing written, nothing
drawn, codec and session untouched) exactly the datagrams longer than `payload_limit - tag - size_bytes - 63` (`- 0` without
global padding) — those that might not fit whatever the padding turns out to be; every other datagram becomes one chunk -/
theorem c02_gen_encode_packet_guard (A : ExtOk X C) (hC : C.Lawful) (ov : Bool) (g : AEADBodyCodec CM XR) (b : Body) (h : RelCore A g b)
    (rng : RNG) (src dst : Bytes) (sess : DynSession) (hs : SessE sess b) (h64 : src.length < 2 ^ 64) :
    (b.packetLimit < src.length →
      AEADBodyCodec.encode_packet X ov g rng src dst sess = PWGen.Res.ok (g, rng, dst, sess, RResult.err)) ∧
    (src.length ≤ b.packetLimit → ∃ g' sess', AEADBodyCodec.encode_packet X ov g rng src dst sess =
        PWGen.Res.ok (g', (X.fill_bytes rng (List.replicate (b.nextPadding C).1 0)).1,
          dst ++ (b.encodeChunk C src (X.fill_bytes rng (List.replicate (b.nextPadding C).1 0)).2).1, sess', RResult.ok ()) ∧
      RelCore A g' (b.encodeChunk C src (X.fill_bytes rng (List.replicate (b.nextPadding C).1 0)).2).2.2 ∧
      SessE sess' (b.encodeChunk C src (X.fill_bytes rng (List.replicate (b.nextPadding C).1 0)).2).2.2 ∧ g'.state = g.state) :=
  encode_packet_spec A hC ov g b h rng src dst sess hs h64

example : (exBody .shake true .chacha20).packetLimit = 1967 ∧ (exBody .auth false .aes128gcm).packetLimit = 2014 := by decide

/-- **C03/C04 — `encode_payload` of the generated code** = the model's chunk loop with every chunk's padding bytes drawn from the
random source (`encodePayloadR`, which is `Body.encodePayloadP` on those bytes: `encodePayloadR_eq_P`, `padsR_ok`): no panic,
no `Err`, the loop ends within its fuel -/
theorem c03_gen_encode_payload_eq (A : ExtOk X C) (hC : C.Lawful) (ov : Bool) (g : AEADBodyCodec CM XR) (b : Body) (h : RelCore A g b)
    (rng : RNG) (src dst : Bytes) (sess : DynSession) (hs : SessE sess b) (h64 : src.length < 2 ^ 64) :
    ∃ g' sess', AEADBodyCodec.encode_payload X ov g rng src dst sess =
        PWGen.Res.ok (g', (encodePayloadR X C (src.length + 1) b rng src).2.2,
          dst ++ (encodePayloadR X C (src.length + 1) b rng src).1, sess', RResult.ok ()) ∧
      RelCore A g' (encodePayloadR X C (src.length + 1) b rng src).2.1 ∧
      SessE sess' (encodePayloadR X C (src.length + 1) b rng src).2.1 ∧ g'.state = g.state :=
  encode_payload_spec A hC ov g b h rng src dst sess hs h64

theorem c03_gen_encode_payload_is_modelP (X : Ext CM XR RNG) (C : Crypto) (k : Nat) (b : Body) (r : RNG) (src : Bytes) :
    (encodePayloadR X C k b r src).1 = (Body.encodePayloadP C k b src (padsR X C k b r src)).1 ∧
    (encodePayloadR X C k b r src).2.1 = (Body.encodePayloadP C k b src (padsR X C k b r src)).2 :=
  encodePayloadR_eq_P X C k b r src

/-- **round trip, stream**: what the generated `encode_payload` writes, cut into any pieces and fed read by read to the generated
`decode_payload` of a synchronised peer, comes out as exactly the source bytes — no error, no panic, empty buffer; all option
combinations, both ciphers -/
theorem c04_gen_roundtrip_segmented (A : ExtOk X C) (hC : C.Lawful) (ov : Bool) (e d : Body) (hsy : Body.Sync e d)
    (ge gd : AEADBodyCodec CM XR) (he : RelCore A ge e) (hd : Rel A gd d) (rng : RNG) (src : Bytes) (se sd : DynSession)
    (hse : SessE se e) (hsd : SessD sd d) (g' : AEADBodyCodec CM XR) (rng' : RNG) (wire : Bytes) (se' : DynSession)
    (henc : AEADBodyCodec.encode_payload X ov ge rng src [] se = PWGen.Res.ok (g', rng', wire, se', RResult.ok ()))
    (pieces : List Bytes) (hcut : pieces.flatten = wire) (h64 : wire.length < 2 ^ 64) (hs64 : src.length < 2 ^ 64) :
    ∃ s', genFeedAll X ov ⟨gd, [], sd, [], false⟩ pieces = some s' ∧ s'.out = src ∧ s'.failed = false ∧ s'.buf = [] := by
  obtain ⟨g2, s2, e2, _⟩ := encode_payload_spec A hC ov ge e he rng src [] se hse hs64
  rw [henc] at e2
  have hw : wire = (Body.encodePayloadP C (src.length + 1) e src (padsR X C (src.length + 1) e rng src)).1 := by
    have := congrArg (fun r => match r with | PWGen.Res.ok (_, _, w, _, _) => w | _ => []) e2
    simp only [List.nil_append] at this
    rw [this, (encodePayloadR_eq_P X C _ e rng src).1]
  have hdp : d.st = .padding := by rw [hsy]
  obtain ⟨s', e1, h1, h2, h3, h4, h5, h6⟩ := genFeedAll_sim A hC ov pieces _ _ (sim_start A gd sd d hdp hd hsd)
    (by rw [run_nil C d hdp, hcut]; simpa using h64)
  obtain ⟨m1, m2, m3, _, _⟩ := c04_vmess_bodyP_segmented C hC e d hsy src _ (padsR_ok A _ e rng src) pieces (by rw [hcut, hw])
  exact ⟨s', e1, by rw [h6 m2]; exact m1, by rw [h4]; exact m2, by rw [h3]; exact m3⟩

example (ov : Bool) (k : SizeKind) (gp : Bool) (sec : Security) :
    ∃ r, AEADBodyCodec.encode_payload (extOf Crypto.toy) ov (genOf (exBody k gp sec)) () [10, 20, 30] [] (sessOfE (exBody k gp sec)) =
      PWGen.Res.ok r :=
  let ⟨_, _, e, _⟩ := c03_gen_encode_payload_eq (extOf_ok Crypto.toy) Crypto.toy_lawful ov (genOf (exBody k gp sec)) (exBody k gp sec)
    (rel_genOf _ _ rfl).core () [10, 20, 30] [] _ (sessE_sessOfE _ (by simp [exBody]) (by simp [exBody])) (by decide)
  ⟨_, e⟩

/-- **round trip, datagram**: what the generated `encode_packet` writes for a datagram that fits, followed by anything, gives
exactly that datagram back from the generated `decode_packet` of a synchronised peer, and leaves what followed -/
theorem c02_gen_packet_roundtrip (A : ExtOk X C) (hC : C.Lawful) (ov : Bool) (e d : Body) (hsy : Body.Sync e d)
    (ge gd : AEADBodyCodec CM XR) (he : RelCore A ge e) (hd : Rel A gd d) (rng : RNG) (src t : Bytes) (se sd : DynSession)
    (hse : SessE se e) (hsd : SessD sd d) (hfit : src.length ≤ e.packetLimit) (h64 : src.length < 2 ^ 64) :
    ∃ g' rng' wire se', AEADBodyCodec.encode_packet X ov ge rng src [] se = PWGen.Res.ok (g', rng', wire, se', RResult.ok ()) ∧
      ((wire ++ t).length < 2 ^ 64 → ∃ gd' sd', AEADBodyCodec.decode_packet X ov gd (wire ++ t) sd =
        PWGen.Res.ok (gd', t, sd', RResult.ok (some src))) := by
  obtain ⟨g', se', e1, _⟩ := (encode_packet_spec A hC ov ge e he rng src [] se hse h64).2 hfit
  refine ⟨g', _, _, se', e1, ?_⟩
  intro hl
  have hpl : (e.nextPadding C).1 ≤ (X.fill_bytes rng (List.replicate (e.nextPadding C).1 0)).2.length := by
    rw [A.fill, List.length_replicate]; exact Nat.le_refl _
  obtain ⟨w, e', d', hp, _, hdec, _⟩ := body_packet_roundtrip C hC e d hsy src _ t hfit hpl
  rw [Body.encodePacket_some C e src _ hfit] at hp
  simp only [Option.some.injEq, Prod.mk.injEq] at hp
  simp only [List.nil_append] at hl ⊢
  rw [hp.1] at hl ⊢
  obtain ⟨gd', sd', e2, _⟩ := decode_packet_eq A hC ov gd d (w ++ t) sd (relN_of_rel A gd d hd) hsd hl
  have hdd : bodyDrainPacket C 3 d (w ++ t) = (d', t, .ok src) := hdec
  rw [hdd] at e2
  exact ⟨gd', sd', e2⟩

example (b : Body) (h1 : 12 ≤ b.iv.length) (h2 : 12 ≤ b.sizeIv.length) : SessE (sessOfE b) b := sessE_sessOfE b h1 h2

end Octo.VmessBodyGen
