import Octo.Proofs.DispatchGen
import Octo.Props.C16
import Octo.Proofs.Toy
/-!
# C16 (and C01 / C02 / C06 / C09) — configuration → behaviour, on the dispatch tables generated from the source

`Octo.DispatchGen` is written by `bin/translate_dispatch.py` from the checkout on every run.  The finite statements are
decided over ALL configurations (protocol × cipher kind × ssl? × ws? × quic?) and all modes.  The reference below is the
README, transcribed.
-/
namespace Octo.DispatchGen

/-! ### the README "Transport" table, transcribed (rows in order; `ucp` in the last row is read as `udp`) -/

inductive Local where | tcp | udp
deriving DecidableEq, Repr

inductive Link where | tcp | tls | ws | wss | quic | udp
deriving DecidableEq, Repr

/-- (Local-Peer, Client-Server, Shadowsocks ✔, VMess ✔, Trojan ✔) -/
def readmeTransport : List (Local × Link × Bool × Bool × Bool) :=
  [(.tcp, .tcp, true, true, true), (.tcp, .tls, true, true, true), (.tcp, .ws, true, true, true),
   (.tcp, .wss, true, true, true), (.tcp, .quic, true, true, true),
   (.udp, .udp, true, false, false), (.udp, .tcp, false, true, false), (.udp, .tls, false, true, true),
   (.udp, .ws, false, true, false), (.udp, .wss, false, true, true), (.udp, .quic, false, true, true)]

def readmeSupports (l : Local) (k : Link) (p : Proto) : Bool :=
  readmeTransport.any fun (l', k', s, v, t) =>
    l' == l && k' == k && (match p with | .Shadowsocks => s | .VMess => v | .Trojan => t)

/-- the client-server link the optional sections ask for (`quic` section ⇒ quic; `ssl` ⇒ tls; `ws` ⇒ ws; both ⇒ wss) -/
def linkOf (ssl ws quic : Bool) : Link :=
  if quic then .quic else
  match ssl, ws with
  | false, false => .tcp
  | true, false => .tls
  | false, true => .ws
  | true, true => .wss

/-- the constructor that makes a link (`tcp` and `udp`: the plain one) -/
def Link.ctor : Link → Ctor
  | .tcp => .plain | .udp => .plain | .tls => .tls | .ws => .ws | .wss => .wss | .quic => .quic

/-- README "Ciphers" table: the ciphers a protocol supports (Trojan has none to choose) -/
def readmeCipher (p : Proto) (k : Cipher) : Bool :=
  match p with
  | .Shadowsocks => k != .Unknown
  | .VMess => k == .Aes128Gcm || k == .ChaCha20Poly1305
  | .Trojan => true

/-- the udp link of a configuration: Shadowsocks relays udp over udp whatever the sections say -/
def udpLinkOf (c : Cfg) : Link := if c.proto == .Shadowsocks then .udp else linkOf c.ssl c.ws c.quic

def udpCtorOf (c : Cfg) : Option Ctor :=
  ((select clientUdp c).bind fun r => (r.argAt "transfer_udp" templateUdpParams "new_out").bind (·.lastSeg)).bind Ctor.ofName

def tcpCtorOf (ssl ws quic : Bool) : Option Ctor :=
  ((select clientTransport ⟨.Trojan, .Unknown, ssl, ws, quic⟩).bind fun r => r.calls.head?.bind (·.callee.segs.getLast?)).bind Ctor.ofName

/-! ### part 1: the client -/

/-- every configuration selects an arm of `transfer_tcp` / `transfer_udp` / `try_transfer_tcp`, and every README-supported
one (protocol × cipher) an arm that starts the service (`template::transfer_tcp` / `template::transfer_udp`) -/
theorem c16_client_total :
    Cfg.all.all (fun c =>
      (select clientTcp c).isSome && (select clientUdp c).isSome && (select clientTransport c).isSome &&
      (!readmeCipher c.proto c.cipher ||
        (((select clientTcp c).bind (·.service "transfer_tcp")).isSome &&
         ((select clientUdp c).bind (·.service "transfer_udp")).isSome))) = true := by decide

/-- **own module**: every function the selected arm hands to the template belongs to the CONFIGURED protocol's module
(`vmess::udp::new_key` for VMess, never `shadowsocks::udp::new_key`), on both client paths and on the server -/
theorem c16_dispatch_own_module :
    Cfg.all.all (fun c =>
      (select clientTcp c).all (·.ownedBy (protoMod c.proto)) &&
      (select clientUdp c).all (·.ownedBy (protoMod c.proto)) &&
      (select serverStartup c).all (·.ownedBy (protoMod c.proto))) = true := by decide

/-- the arguments stand at the positions of the parameters of the same name (`new_key`, `to_inbound_recv`,
`to_outbound_send` of `template::transfer_udp`; `new_codec` of `template::transfer_tcp`) -/
theorem c16_client_roles :
    Cfg.all.all (fun c => !readmeCipher c.proto c.cipher ||
      (["new_key", "to_inbound_recv", "to_outbound_send"].all fun role =>
        ((select clientUdp c).bind fun r => (r.argAt "transfer_udp" templateUdpParams role).bind (·.lastSeg)) == some role) &&
      (((select clientTcp c).bind fun r => (r.argAt "transfer_tcp" templateTcpParams "new_codec").bind (·.lastSeg))
        == some (if c.proto == .Shadowsocks then "new_payload_codec" else "new_codec"))) = true := by decide

/-- **transport (tcp)**: the outbound constructor `try_transfer_tcp` calls is exactly the README's link for (ssl, ws, quic) -/
theorem c01_client_transport :
    [false, true].all (fun s => [false, true].all fun w => [false, true].all fun q =>
      tcpCtorOf s w q == some (linkOf s w q).ctor && readmeSupports .tcp (linkOf s w q) .Trojan) = true := by decide

/-- **transport (udp)**: for every configuration the README supports, the outbound constructor handed to
`template::transfer_udp` is the one of the README's link — `VMess` with ssl+ws gets `new_wss_outbound`, not `new_tls_outbound` -/
theorem c02_client_udp_transport :
    Cfg.all.all (fun c => !(readmeCipher c.proto c.cipher && readmeSupports .udp (udpLinkOf c) c.proto) ||
      udpCtorOf c == some (udpLinkOf c).ctor) = true := by decide

/-- the combinations the README does not list (Trojan udp without an `ssl` section): the code selects a TLS constructor
(which then refuses the binding: "require ssl config") — never a plaintext one -/
theorem c02_trojan_udp_never_plain :
    Cfg.all.all (fun c => !(c.proto == .Trojan) ||
      (udpCtorOf c == some .tls || udpCtorOf c == some .wss || udpCtorOf c == some .quic)) = true := by decide

/-- **key size**: every const generic of the selected Shadowsocks arm (client tcp, client udp, server start-up) is the
key size `Ss.Kind.n` of the model — 16 exactly for the two 128-bit ciphers — and there is one -/
theorem c16_key_size :
    Cipher.all.all (fun k =>
      match kindOf k with
      | none => true
      | some kind =>
        [select clientTcp ⟨.Shadowsocks, k, false, false, false⟩, select clientUdp ⟨.Shadowsocks, k, false, false, false⟩,
         selectC ssStartup k].all fun r =>
          match r with
          | none => false
          | some r => r.generics != [] && r.generics.all (· == kind.n)) = true := by decide

theorem c16_key_size_16_iff :
    Cipher.all.all (fun k => (kindOf k).all fun kind => (kind.n == 16) == (k == .Aes128Gcm || k == .Aead2022Blake3Aes128Gcm)) = true := by
  decide

/-- **no dead arm, no overlap**: in every dispatch table each arm is reachable and no two arms match the same
configuration (so their order does not matter); likewise the inner `match x.cipher` -/
theorem c16_no_dead_arms :
    [clientTcp, clientUdp, clientTransport, serverStartup].all (fun t =>
      deadArms t == [] && overlaps t == [] && (innerTables t).all (deadCArms · == [])) = true
    ∧ deadCArms ssStartup = [] := by decide

/-! ### part 2: the server -/

/-- the module names, as written -/
def protoSeg : Proto → String
  | .Shadowsocks => "shadowsocks" | .VMess => "vmess" | .Trojan => "trojan"

/-- `startup`: Shadowsocks goes to `shadowsocks::startup`; VMess / Trojan start `startup_quic` and `startup_tcp`, each with
that protocol's own `new_codec` -/
theorem c16_server_startup :
    Cfg.all.all (fun c =>
      match select serverStartup c with
      | none => false
      | some r =>
        if c.proto == .Shadowsocks then
          r.calls.map (·.callee.segs) == [["shadowsocks", "startup"]]
        else
          ["startup_quic", "startup_tcp"].all fun f =>
            (r.calls.filter (·.callee.segs == [f])).map (·.argRefs) == [[⟨some (protoMod c.proto), [protoSeg c.proto, "new_codec"], []⟩]]) = true := by
  decide

/-- the reference for the server's accept path: behind TLS iff `ssl`, websocket upgrade iff `ws` -/
def refAccept (ssl ws : Bool) : Bool × String := (ssl, if ws then "accept_websocket_then_replay" else "relay")

theorem c01_server_accept :
    [false, true].all (fun s => [false, true].all fun w =>
      (srvSelect serverAccept s w).map (fun (tls, f) => (tls, f.segs)) ==
        some ((refAccept s w).1, ["template", "tcp", (refAccept s w).2])) = true := by decide

/-- **client and server agree**: the link the client's constructor makes for (ssl, ws) is the one the server's accept path
expects (TLS on both sides or on neither, websocket on both sides or on neither) -/
theorem c01_client_server_agree :
    [false, true].all (fun s => [false, true].all fun w =>
      match tcpCtorOf s w false, srvSelect serverAccept s w with
      | some ctor, some (tls, f) =>
        (tls == (ctor == .tls || ctor == .wss)) &&
        ((f.segs.getLast? == some "accept_websocket_then_replay") == (ctor == .ws || ctor == .wss))
      | _, _ => false) = true := by decide

/-- **listeners of a mode**: a Shadowsocks server opens a tcp listener iff `enable_tcp`, a udp socket iff `enable_udp`, a
quic endpoint iff `enable_quic` and a `quic` section is present — a `tcp` mode opens no udp socket and no quic endpoint even
when a `quic` section is present -/
theorem c16_ss_listeners :
    Mode.all.all (fun m => [false, true].all fun q =>
      ssListeners m q == ⟨enableTcp m, enableUdp m, enableQuic m && q⟩) = true := by decide

theorem c16_ss_tcp_mode_opens_tcp_only (q : Bool) : ssListeners .Tcp q = ⟨true, false, false⟩ := by
  cases q <;> decide

/-- the `matches!` sets this translator read are the extractor's, and open what the README says per mode name -/
theorem c16_mode_sets :
    modeTcpSet.map Mode.name = Consts.modeTcp ∧ modeUdpSet.map Mode.name = Consts.modeUdp ∧
    modeQuicSet.map Mode.name = Consts.modeQuic ∧
    Config.readmeModes.all (fun (n, l) =>
      ((Config.lookup Consts.modeNames n).bind fun v => Mode.all.find? (·.name == v)).map
        (fun m => (⟨enableTcp m, enableUdp m, enableQuic m⟩ : Config.Listeners)) == some l) = true := by decide

/-- VMess / Trojan servers: `startup_tcp` binds the tcp listener, `startup_quic` the endpoint only under a `quic` section -/
theorem c16_server_opens : serverStartupTcpOpens = [.tcp] ∧ serverStartupQuicOpens = [.quicIfSection] := by decide

/-- **a bad user key stops start-up**: in both cipher arms of `shadowsocks::startup`, `ServerUser::try_from(user)?` is
called (with `?`) before `startup_udp` / `startup_tcp` -/
theorem c16_users_checked_before_listeners :
    (ssStartup.filter (·.ciphers != some [.Unknown])).all (fun a =>
      match a.rhs.calls.findIdx? (fun c => c.callee.segs == ["ServerUser", "try_from"] && c.tried),
            a.rhs.calls.findIdx? (fun c => c.callee.segs == ["startup_udp"]),
            a.rhs.calls.findIdx? (fun c => c.callee.segs == ["startup_tcp"]) with
      | some i, some j, some k => i < j && i < k
      | _, _, _ => false) = true := by decide

/-! ### part 3: keys -/

/-- **C16 / C06** `ServerUser::try_from` is the model's `userOf`: a user key that is not valid base64 of exactly N bytes is an
`Err` (start-up fails, see `c16_users_checked_before_listeners`), never a padded key, never a panic -/
theorem c16_user_key (C : Crypto) (hb : ∀ m, (C.blake3Hash m).length = 32) (ov : Bool) (N : Nat) (name password : String) :
    ServerUser.try_from (extOf C) ov N ⟨name, password⟩ = outOfOption ((Ss.userOf C N name password).map userOfModel) :=
  try_from_eq C hb ov N name password

example : ∃ C : Crypto, ∀ m, (C.blake3Hash m).length = 32 := ⟨Crypto.toy, Crypto.toy_lawful.blake3h_len⟩

/-- **C16** `password_to_exact_keys` (what both `ServerContext::init` and `startup_udp` call) is the model's `passwordToKeys` -/
theorem c16_exact_keys (C : Crypto) (ov : Bool) (N : Nat) (pw : String) (hne : pw.splitOn ":" ≠ []) :
    password_to_exact_keys (extOf C) ov N pw = outOfOption (Ss.passwordToKeys N pw) :=
  password_to_exact_keys_eq C ov N pw hne

example : ("".splitOn ":") ≠ [] := by
  unfold String.splitOn; rw [String.splitOnAux]; simp [String.Pos.Raw.atEnd]

/-- `c16_bad_key_rejected` on the generated code: one bad part and the whole password is an `Err` -/
theorem c16_bad_key_rejected_gen (C : Crypto) (ov : Bool) (N : Nat) (pw : String) (hne : pw.splitOn ":" ≠ [])
    (h : ∃ part ∈ pw.splitOn ":", Ss.decodeKey N part = none) : password_to_exact_keys (extOf C) ov N pw = .err := by
  rw [c16_exact_keys C ov N pw hne, Config.c16_bad_key_rejected N pw h]; rfl

/-- **C16** the legacy key: `openssl_bytes_to_key::<16>` / `::<32>` (the only instantiations, `c16_key_size`) are the model's -/
theorem c16_legacy_key_16 (C : Crypto) (hm : ∀ m, (C.md5 m).length = 16) (ov : Bool) (pw : List UInt8) (hlen : pw.length + 16 < 2 ^ 64) :
    openssl_bytes_to_key (extOf C) ov 16 pw = .ok (Ss.opensslBytesToKey C 16 pw) := openssl_eq_16 C hm ov pw hlen

theorem c16_legacy_key_32 (C : Crypto) (hm : ∀ m, (C.md5 m).length = 16) (ov : Bool) (pw : List UInt8) (hlen : pw.length + 16 < 2 ^ 64) :
    openssl_bytes_to_key (extOf C) ov 32 pw = .ok (Ss.opensslBytesToKey C 32 pw) := openssl_eq_32 C hm ov pw hlen

example : ∃ C : Crypto, ∀ m, (C.md5 m).length = 16 := ⟨Crypto.toy, Crypto.toy_lawful.md5_len⟩

/-- **C06** a user is found by `clone_user_by_hash` iff a user with that 16-byte hash was added -/
theorem c06_user_found_iff_added (E : Ext) (ov : Bool) (N : Nat) (us : List ServerUser) (h : List UInt8) :
    (∃ u, ServerUserManager.clone_user_by_hash E ov N (mgrOf us) h = .ok (some u)) ↔ ∃ u ∈ us, u.identity_hash = h :=
  found_iff_added E ov N us h

/-- **C06** with pairwise distinct identity hashes the lookup is the model's `Ss.findUser` -/
theorem c06_lookup_is_findUser (E : Ext) (ov : Bool) (N : Nat) (us : List Ss.User) (h : List UInt8)
    (hd : (us.map (·.hash)).Nodup) :
    ServerUserManager.clone_user_by_hash E ov N (mgrOf (us.map userOfModel)) h = .ok ((Ss.findUser us h).map userOfModel) :=
  clone_user_by_hash_model E ov N us h hd

example : (([⟨"a", [1], [1]⟩, ⟨"b", [2], [2]⟩] : List Ss.User).map (·.hash)).Nodup := by decide

/-- the difference without that guard: two users with the same key - the code serves the one added LAST (`HashMap::insert`
replaces), the model's `findUser` the FIRST; both have the same key, so what is decrypted is the same, only the name differs -/
theorem c06_lookup_last_wins (E : Ext) (ov : Bool) (N : Nat) (k hh : List UInt8) :
    ServerUserManager.clone_user_by_hash E ov N (mgrOf [⟨"a", k, hh⟩, ⟨"b", k, hh⟩]) hh = .ok (some ⟨"b", k, hh⟩)
    ∧ Ss.findUser [⟨"a", k, hh⟩, ⟨"b", k, hh⟩] hh = some ⟨"a", k, hh⟩ :=
  clone_user_by_hash_last_wins E ov N k hh

/-- arrays shorter than the digest make `openssl_bytes_to_key` panic (`copy_from_slice` of 16 bytes into N < 16): the
model truncates instead — unreachable, the dispatch instantiates 16 and 32 only (`c16_key_size`) -/
theorem c16_legacy_key_small_panics (C : Crypto) (hm : ∀ m, (C.md5 m).length = 16) (ov : Bool) (N : Nat) (pw : List UInt8)
    (hN : N < 16) (hlen : pw.length + 16 < 2 ^ 64) : openssl_bytes_to_key (extOf C) ov N pw = .panic :=
  openssl_small_panics C hm ov N pw hN hlen

end Octo.DispatchGen

/-! ### the client's `main`: which listener under which guard -/

namespace Octo.DispatchGen

/-- README "mode", client: the options are "tcp" (default), "udp", "tcp_and_udp" -/
def readmeClientModes : List Mode := [.Tcp, .Udp, .TcpAndUdp]

/-- **the TOP-LEVEL mode decides, and nothing else**: whatever the `mode` key of the selected `servers[]` entry says, the
client opens a local TCP listener iff the top-level mode enables tcp and a local UDP socket iff it enables udp, and no
other socket -/
theorem c16_client_listeners :
    Mode.all.all (fun top => Mode.all.all fun entry =>
      (clientRun top entry).opens .tcp == enableTcp top && (clientRun top entry).opens .udp == enableUdp top &&
      !(clientRun top entry).opens .quic && !(clientRun top entry).opens .quicIfSection) = true := by decide

/-- every guard of `main` reads `config.mode` of the object `config::init()` returned (the documented top-level mode), none
the selected entry's -/
theorem c16_client_guards_read_top_level :
    clientMain.flatMap MainStep.atoms = [(.topLevel, "config.mode", .udp), (.topLevel, "config.mode", .tcp)] := by decide

/-- on the TCP listener runs `transfer_tcp` (awaited by `main` itself), on the UDP socket `transfer_udp` (spawned), each
given the socket bound under the same guard and the selected entry -/
theorem c16_client_services :
    Mode.all.all (fun top => Mode.all.all fun entry =>
      ((clientRun top entry).serviceOn .tcp).map (fun s => (s.fn, s.spawned, s.awaited, s.args.length)) ==
        (if enableTcp top then [("transfer_tcp", false, true, 2)] else []) &&
      ((clientRun top entry).serviceOn .udp).map (fun s => (s.fn, s.spawned, s.awaited, s.args.length, s.task.isSome)) ==
        (if enableUdp top then [("transfer_udp", true, false, 2, true)] else []) &&
      (clientRun top entry).services.length == ((clientRun top entry).serviceOn .tcp).length + ((clientRun top entry).serviceOn .udp).length) = true := by
  decide

/-- **a udp-only client stays alive**: when the top-level mode enables udp and not tcp, `main` awaits the task `transfer_udp`
was spawned into; with tcp it awaits `transfer_tcp` itself; under every documented client mode it waits for a service -/
theorem c16_client_stays_alive :
    Mode.all.all (fun top => Mode.all.all fun entry =>
      (clientRun top entry).waitsFor ==
        (if enableTcp top then ["transfer_tcp"] else if enableUdp top then ["transfer_udp"] else [])) = true
    ∧ readmeClientModes.all (fun top => Mode.all.all fun entry => (clientRun top entry).waitsFor != []) = true := by decide

/-- outside the documented client modes: a top-level `quic` opens nothing and `main` returns at once -/
theorem c16_client_quic_mode_opens_nothing (entry : Mode) :
    (clientRun .Quic entry).binds = [] ∧ (clientRun .Quic entry).waitsFor = [] := by cases entry <;> decide

/-- the server has no mode guard in `main` / `startup`; the Shadowsocks guards read the mode of the ENTRY they start -/
theorem c16_server_guards :
    serverMainGuards = [] ∧ ssGuards.all (fun g => g.1 == .entry && g.2.1 == "config.mode") = true := by decide

end Octo.DispatchGen
