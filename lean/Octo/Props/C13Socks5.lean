import Octo.Props.C13
/-!
# C13 / C14 — the SOCKS5 handshake: admission on every path, and independence of segmentation

`Hs.socks5Handshake greeting request bound` is the decision of `socks5::handshake::server::no_auth` as a
function of the bytes of each of the two client messages received so far, with a "need more" outcome
(`.wait`); the Rust reads each message through a `Framed` decoder that is re-run on the grown buffer, so
"how the bytes were split" = "which prefixes the decision function was asked about".

* `c13_socks5_tunnel_is_admitted` — for *all* greeting and request bytes: a tunnel is opened only to an
  address that passes the admission check (`Addr.Accepted`); `c13_socks5_tunnel_inv` adds what was consumed
  and answered.
* `c13_socks5_decided_is_final` — for *all* bytes: once the handshake has decided (tunnel or refusal) on the
  request bytes received so far, any further bytes change nothing: same target, same reply, same number of
  bytes consumed (the extra bytes stay in the stream for the tunnel).
* `c13_socks5_undecided_before_end` — for *all* bytes: if the handshake tunnels having consumed `n` bytes,
  then on every shorter prefix of the request it asked for more — it never refuses or tunnels early.
* `c13_socks5_segmented` — well-formed CONNECT (any admitted address, any known methods) followed by any
  application bytes, cut anywhere: wait strictly inside the request, afterwards the tunnel to exactly that
  address consuming exactly the two messages; a greeting cut anywhere inside: wait.
-/
namespace Octo
open Octo.Hs

theorem rdBE_pair (x y : UInt8) : rdBE [x, y] = x.toNat * 256 + y.toNat := by simp [rdBE]

theorem u8_eq (n : Nat) (x : UInt8) (h : n % 256 = x.toNat) : u8 n = x := by
  apply UInt8.toNat_inj.mp; rw [u8_toNat, h]

theorem be16_rdBE_pair (x y : UInt8) : be16 (rdBE [x, y]) = [x, y] := by
  rw [rdBE_pair]
  have := x.toNat_lt; have := y.toNat_lt
  simp only [be16]
  rw [u8_eq _ x (by omega), u8_eq _ y (by omega)]

theorem take2_be16 (l : Bytes) (h : 2 ≤ l.length) : be16 (rdBE (l.take 2)) ++ l.drop 2 = l := by
  match l, h with
  | x :: y :: l', _ => simp [be16_rdBE_pair]

theorem rdBE_take2_lt (l : Bytes) : rdBE (l.take 2) < 65536 := by
  match l with
  | [] => simp [rdBE]
  | [x] => have := x.toNat_lt; simp [rdBE]; omega
  | x :: y :: l' =>
    have := x.toNat_lt; have := y.toNat_lt
    simp only [List.take_succ_cons, List.take_zero, rdBE_pair]; omega

/-- an address the SOCKS5 form can carry: what the Rust type can hold, names of at most 255 bytes -/
def Addr.Enc : Addr → Prop
  | .domain h p => h.length ≤ 255 ∧ p < 65536
  | a => a.WF

instance (a : Addr) : Decidable a.Enc := by cases a <;> unfold Addr.Enc <;> exact inferInstance

theorem socks5_decode_inv (b : Bytes) (a : Addr) (rest : Bytes) (h : Socks5Addr.decode b = .ok (a, rest)) :
    b = Socks5Addr.encode a ++ rest ∧ a.Enc := by
  cases b with
  | nil => simp [Socks5Addr.decode] at h
  | cons t b' =>
    by_cases h1 : t = 1
    · subst h1
      simp [Socks5Addr.decode, Buf.take, Buf.getU16, Buf.getBE, Buf.getU8, bind, Res.bind, pure] at h
      split at h
      · cases h
      · rename_i hl
        rw [if_neg (by omega)] at h
        simp only [List.length_drop] at h
        rw [if_neg (by omega)] at h
        simp only [Res.ok.injEq, Prod.mk.injEq] at h
        obtain ⟨ha, hr⟩ := h
        subst ha; subst hr
        refine ⟨?_, by simp [Addr.Enc, Addr.WF]; exact ⟨by omega, rdBE_take2_lt _⟩⟩
        simp only [Socks5Addr.encode, List.cons_append, List.nil_append, List.append_assoc]
        rw [take2_be16 _ (by simp only [List.length_drop]; omega), List.take_append_drop]
    · by_cases h4 : t = 4
      · subst h4
        simp [Socks5Addr.decode, Buf.take, Buf.getU16, Buf.getBE, Buf.getU8, bind, Res.bind, pure] at h
        split at h
        · cases h
        · rename_i hl
          rw [if_neg (by omega)] at h
          simp only [List.length_drop] at h
          rw [if_neg (by omega)] at h
          simp only [Res.ok.injEq, Prod.mk.injEq] at h
          obtain ⟨ha, hr⟩ := h
          subst ha; subst hr
          refine ⟨?_, by simp [Addr.Enc, Addr.WF]; exact ⟨by omega, rdBE_take2_lt _⟩⟩
          simp only [Socks5Addr.encode, List.cons_append, List.nil_append, List.append_assoc]
          rw [take2_be16 _ (by simp only [List.length_drop]; omega), List.take_append_drop]
      · by_cases h3 : t = 3
        · subst h3
          cases b' with
          | nil => simp [Socks5Addr.decode, Buf.getU8, bind, Res.bind] at h
          | cons l b'' =>
            simp [Socks5Addr.decode, Buf.take, Buf.getU16, Buf.getBE, Buf.getU8, bind, Res.bind, pure] at h
            split at h
            · cases h
            · rename_i hl
              rw [if_neg (by omega)] at h
              simp only [List.length_drop] at h
              rw [if_neg (by omega)] at h
              simp only [Res.ok.injEq, Prod.mk.injEq] at h
              obtain ⟨ha, hr⟩ := h
              subst ha; subst hr
              have hll := l.toNat_lt
              have hlen : (List.take l.toNat b'').length = l.toNat := by rw [List.length_take]; omega
              refine ⟨?_, by simp only [Addr.Enc, hlen]; exact ⟨by omega, rdBE_take2_lt _⟩⟩
              simp only [Socks5Addr.encode, List.cons_append, List.nil_append, List.append_assoc, hlen]
              rw [take2_be16 _ (by simp only [List.length_drop]; omega), List.take_append_drop,
                u8_eq _ l (by omega)]
        · simp [Socks5Addr.decode, Buf.getU8, bind, Res.bind, h1, h3, h4] at h

/-- the SOCKS5 form round-trips every address it can carry (also the empty name, which only the
admission check keeps out) -/
theorem socks5_roundtrip_enc (a : Addr) (tail : Bytes) (h : a.Enc) :
    Socks5Addr.decode (Socks5Addr.encode a ++ tail) = .ok (a, tail) := by
  cases a with
  | domain host p =>
    obtain ⟨h2, h3⟩ := h
    simp only [Socks5Addr.encode, Socks5Addr.decode, List.cons_append, List.nil_append,
      Buf.getU8_cons, Res.bind_ok, List.append_assoc]
    have hl : (u8 host.length).toNat = host.length := u8_toNat_lt _ (by omega)
    simp [hl, Buf.take_append, Buf.getU16_be16 p tail h3]
    omega
  | v4 ip p => exact c14_socks5_roundtrip _ tail h
  | v6 ip p => exact c14_socks5_roundtrip _ tail h

/-- more bytes behind a decoded address stay unread -/
theorem socks5_decode_append (b t : Bytes) (a : Addr) (rest : Bytes) (h : Socks5Addr.decode b = .ok (a, rest)) :
    Socks5Addr.decode (b ++ t) = .ok (a, rest ++ t) := by
  obtain ⟨hb, he⟩ := socks5_decode_inv b a rest h
  rw [hb, List.append_assoc]
  exact socks5_roundtrip_enc a (rest ++ t) he

/-! ### the command-request decoder on a grown buffer -/

theorem tryDecodeAt_drop (b : Bytes) (n : Nat) : Socks5Addr.tryDecodeAt (b.drop n) 0 = Socks5Addr.tryDecodeAt b n := by
  unfold Socks5Addr.tryDecodeAt
  simp only [List.getElem?_drop, Nat.add_zero, Nat.zero_add]

theorem tryDecodeAt_append (b t : Bytes) (n : Nat) (h : n + 1 < b.length) :
    Socks5Addr.tryDecodeAt (b ++ t) n = Socks5Addr.tryDecodeAt b n := by
  unfold Socks5Addr.tryDecodeAt
  rw [List.getElem?_append_left (by omega), List.getElem?_append_left (by omega)]

/-- where `try_decode_at` finds a whole address, `decode` reads one -/
theorem socks5_decode_ok_of_len (b : Bytes) (al : Nat) (h : Socks5Addr.tryDecodeAt b 0 = .ok al) (hl : al ≤ b.length) :
    ∃ a rest, Socks5Addr.decode b = .ok (a, rest) := by
  cases b with
  | nil => simp [Socks5Addr.tryDecodeAt] at h
  | cons t b' =>
    simp only [Socks5Addr.tryDecodeAt, List.getElem?_cons_zero, Nat.zero_add, List.getElem?_cons_succ] at h
    simp only [List.length_cons] at hl
    by_cases h1 : t = 1
    · subst h1
      simp only [if_true, Res.ok.injEq] at h
      simp [Socks5Addr.decode, Buf.take, Buf.getU16, Buf.getBE, Buf.getU8, bind, Res.bind, pure]
      rw [if_neg (by omega), if_neg (by omega)]
      simp only [List.length_drop]
      rw [if_neg (by omega)]
      exact ⟨_, _, rfl⟩
    · by_cases h3 : t = 3
      · subst h3
        simp only [h1, if_false, if_true] at h
        cases b' with
        | nil => simp at h
        | cons l b'' =>
          simp only [List.getElem?_cons_zero, Res.ok.injEq] at h
          simp only [List.length_cons] at hl
          simp [Socks5Addr.decode, Buf.take, Buf.getU16, Buf.getBE, Buf.getU8, bind, Res.bind, pure]
          rw [if_neg (by omega), if_neg (by omega)]
          simp only [List.length_drop]
          rw [if_neg (by omega)]
          exact ⟨_, _, rfl⟩
      · by_cases h4 : t = 4
        · subst h4
          simp only [h1, h3, if_false, if_true, Res.ok.injEq] at h
          simp [Socks5Addr.decode, Buf.take, Buf.getU16, Buf.getBE, Buf.getU8, bind, Res.bind, pure]
          rw [if_neg (by omega), if_neg (by omega)]
          simp only [List.length_drop]
          rw [if_neg (by omega)]
          exact ⟨_, _, rfl⟩
        · simp [h1, h3, h4] at h

/-- what an accepted command request looks like: `05 cmd rsv address rest` -/
theorem decodeCommandRequest_inv (b : Bytes) (cmd : Nat) (a : Addr) (rest : Bytes)
    (h : Socks5.decodeCommandRequest b = .ok (cmd, a, rest)) :
    ∃ rsv, b = 5 :: u8 cmd :: rsv :: (Socks5Addr.encode a ++ rest) ∧ cmd < 256 ∧ a.Enc ∧
      Socks5Addr.decode (b.drop 3) = .ok (a, rest) := by
  unfold Socks5.decodeCommandRequest at h
  split at h
  · cases h
  · rename_i hl
    split at h
    · split at h
      · cases h
      · split at h
        · cases h
        · rename_i h5
          simp only [] at h
          split at h
          · cases h
          · split at h
            · rename_i a' rest' hdec
              simp only [Res.ok.injEq, Prod.mk.injEq] at h
              obtain ⟨hc, ha, hr⟩ := h
              subst ha; subst hr
              obtain ⟨hb, he⟩ := socks5_decode_inv _ _ _ hdec
              match b, hl, h5, hc, hb, hdec with
              | x0 :: x1 :: x2 :: b', _, h5, hc, hb, hdec =>
                simp only [List.getD_cons_zero, ne_eq, Decidable.not_not] at h5
                simp only [List.getD_cons_succ, List.getD_cons_zero] at hc
                simp only [List.drop_succ_cons, List.drop_zero] at hb
                have := x1.toNat_lt
                refine ⟨x2, ?_, by omega, he, hdec⟩
                rw [h5, ← hb, u8_eq cmd x1 (by omega)]
            · cases h
            · cases h
    · cases h
    · cases h

theorem decodeCommandRequest_append (b t : Bytes) (h : Socks5.decodeCommandRequest b ≠ .more) :
    Socks5.decodeCommandRequest (b ++ t) =
      match Socks5.decodeCommandRequest b with
      | .ok (c, a, rest) => .ok (c, a, rest ++ t)
      | x => x := by
  unfold Socks5.decodeCommandRequest at h ⊢
  by_cases hl : b.length < 5
  · rw [if_pos hl] at h; exact absurd rfl h
  · rw [if_neg hl] at h
    rw [if_neg hl, if_neg (by simp only [List.length_append]; omega), tryDecodeAt_append b t 3 (by omega)]
    cases htd : Socks5Addr.tryDecodeAt b 3 with
    | more => rfl
    | err => rfl
    | panic => rfl
    | ok al =>
      simp only [htd] at h ⊢
      by_cases hl2 : b.length < 3 + al
      · rw [if_pos hl2] at h; exact absurd rfl h
      · rw [if_neg hl2, if_neg (by simp only [List.length_append]; omega)]
        have g0 : (b ++ t).getD 0 0 = b.getD 0 0 := by
          simp only [List.getD_eq_getElem?_getD]; rw [List.getElem?_append_left (by omega)]
        have g1 : (b ++ t).getD 1 0 = b.getD 1 0 := by
          simp only [List.getD_eq_getElem?_getD]; rw [List.getElem?_append_left (by omega)]
        rw [g0, g1]
        by_cases h5 : b.getD 0 0 ≠ 5
        · rw [if_pos h5, if_pos h5]
        · rw [if_neg h5, if_neg h5]
          split
          · rfl
          · have hd : (b ++ t).drop 3 = b.drop 3 ++ t := List.drop_append_of_le_length (by omega)
            obtain ⟨a, rest, hdec⟩ := socks5_decode_ok_of_len (b.drop 3) al (by rw [tryDecodeAt_drop]; exact htd)
              (by simp only [List.length_drop]; omega)
            rw [hd, socks5_decode_append _ t _ _ hdec, hdec]

theorem tryDecodeAt_enc (a : Addr) (tail : Bytes) (h : a.Enc) :
    Socks5Addr.tryDecodeAt (Socks5Addr.encode a ++ tail) 0 = .ok (Socks5Addr.encode a).length := by
  cases a with
  | domain host p =>
    have hl : (u8 host.length).toNat = host.length := u8_toNat_lt _ (by have := h.1; omega)
    simp [Socks5Addr.tryDecodeAt, Socks5Addr.encode, hl]; omega
  | v4 ip p => simp [Socks5Addr.tryDecodeAt, Socks5Addr.encode, h.1]
  | v6 ip p => simp [Socks5Addr.tryDecodeAt, Socks5Addr.encode, h.1]

theorem enc_length_ge (a : Addr) : 2 ≤ (Socks5Addr.encode a).length := by
  cases a <;> simp [Socks5Addr.encode] <;> omega

/-- a well-formed command request (any of the three commands, any reserved byte, any address the form can
carry) followed by anything decodes to its command and address and leaves what follows unread -/
theorem decodeCommandRequest_wf (cmd : Nat) (hc : cmd = 1 ∨ cmd = 2 ∨ cmd = 3) (rsv : UInt8) (a : Addr) (ha : a.Enc)
    (tail : Bytes) :
    Socks5.decodeCommandRequest (5 :: u8 cmd :: rsv :: (Socks5Addr.encode a ++ tail)) = .ok (cmd, a, tail) := by
  have hge := enc_length_ge a
  have hcn : (u8 cmd).toNat = cmd := u8_toNat_lt _ (by omega)
  unfold Socks5.decodeCommandRequest
  rw [if_neg (by simp only [List.length_cons, List.length_append]; omega)]
  rw [← tryDecodeAt_drop]
  simp only [List.drop_succ_cons, List.drop_zero, tryDecodeAt_enc a tail ha, socks5_roundtrip_enc a tail ha,
    List.getD_cons_zero, List.getD_cons_succ, hcn]
  rw [if_neg (by simp only [List.length_cons, List.length_append]; omega), if_neg (by simp), if_neg (by omega)]

namespace Hs

/-! ### admission -/

/-- **everything about a tunnel the SOCKS5 handshake opens**, for all greeting and request bytes: the
target passed the admission check; the request was `05 01 rsv address rest`; exactly the greeting and the
request up to the end of the address were consumed (`rest` stays for the tunnel); the replies are
`05 00` and `05 00 00 bound` -/
theorem c13_socks5_tunnel_inv (greeting request : Bytes) (bound a : Addr) (n : Nat) (r : Bytes)
    (h : socks5Handshake greeting request bound = .tunnel a n r) :
    a.Accepted ∧
    (∃ rsv rest, request = 5 :: 1 :: rsv :: (Socks5Addr.encode a ++ rest) ∧
      n = greeting.length + 3 + (Socks5Addr.encode a).length) ∧
    r = Socks5.encodeInitialResponse 0 ++ Socks5.encodeCommandResponse 0 bound := by
  unfold socks5Handshake at h
  split at h
  · cases h
  · split at h
    · cases h
    · rename_i cmd a' rest hq
      obtain ⟨rsv, hb, _, he, _⟩ := decodeCommandRequest_inv _ _ _ _ hq
      simp only [] at h
      split at h
      · cases h
      · rename_i hc
        have hc1 : cmd = 1 := Classical.not_not.mp hc
        subst hc1
        have hlen : greeting.length + request.length - rest.length =
            greeting.length + 3 + (Socks5Addr.encode a').length := by
          rw [hb]; simp only [List.length_cons, List.length_append]; omega
        cases a' with
        | domain host p =>
          simp only [] at h
          cases had : admitHost host p with
          | none => rw [had] at h; cases h
          | some a2 =>
            rw [had] at h
            simp only [Outcome.tunnel.injEq] at h
            obtain ⟨h1, h2, h3⟩ := h
            obtain ⟨e, hpos, hle⟩ := admitHost_some host p a2 had
            subst h1
            subst e
            exact ⟨⟨hpos, hle, he.2⟩, ⟨rsv, rest, by rw [hb]; rfl, by rw [← h2, hlen]⟩, h3.symm⟩
        | v4 ip p =>
          simp only [Outcome.tunnel.injEq] at h
          obtain ⟨h1, h2, h3⟩ := h
          subst h1
          exact ⟨he, ⟨rsv, rest, by rw [hb]; rfl, by rw [← h2, hlen]⟩, h3.symm⟩
        | v6 ip p =>
          simp only [Outcome.tunnel.injEq] at h
          obtain ⟨h1, h2, h3⟩ := h
          subst h1
          exact ⟨he, ⟨rsv, rest, by rw [hb]; rfl, by rw [← h2, hlen]⟩, h3.symm⟩
    · cases h
  · cases h

/-- **the admission check is applied on the SOCKS5 path too**: whatever the greeting and request bytes, a
tunnel is opened only towards an address the outbound protocols can carry (a name of 1..=255 bytes, or
a socket address) — C14's `Addr.Accepted` -/
theorem c13_socks5_tunnel_is_admitted (greeting request : Bytes) (bound a : Addr) (n : Nat) (r : Bytes)
    (h : socks5Handshake greeting request bound = .tunnel a n r) : a.Accepted :=
  (c13_socks5_tunnel_inv greeting request bound a n r h).1

/-- a CONNECT for the empty name is refused after the method reply, whatever else the bytes say (names
over 255 bytes cannot be written in the one length byte at all) -/
theorem c13_socks5_empty_name_refused (greeting : Bytes) (ms rest0 : Bytes)
    (hg : Socks5.decodeInitialRequest greeting = .ok (ms, rest0)) (rsv : UInt8) (p : Nat) (hp : p < 65536)
    (tail : Bytes) (bound : Addr) :
    socks5Handshake greeting (5 :: 1 :: rsv :: (Socks5Addr.encode (.domain [] p) ++ tail)) bound =
      .refused (Socks5.encodeInitialResponse 0 ++ Socks5.encodeCommandResponse 0 bound) := by
  have hq := decodeCommandRequest_wf 1 (by decide) rsv (.domain [] p) ⟨by simp, hp⟩ tail
  unfold socks5Handshake
  rw [hg, show (u8 1 : UInt8) = 1 from rfl] at *
  rw [hq]
  simp [admitHost]

/-! ### segmentation -/

/-- **a decision is final**: for all bytes, once the handshake has tunnelled or refused on the request bytes
received so far, further bytes do not change target, reply or the number of bytes consumed -/
theorem c13_socks5_decided_is_final (greeting request more : Bytes) (bound : Addr)
    (h : socks5Handshake greeting request bound ≠ .wait) :
    socks5Handshake greeting (request ++ more) bound = socks5Handshake greeting request bound := by
  unfold socks5Handshake at h ⊢
  cases hg : Socks5.decodeInitialRequest greeting with
  | more => rfl
  | err => rfl
  | panic => rfl
  | ok x =>
    obtain ⟨ms, rest0⟩ := x
    simp only [hg] at h ⊢
    have hne : Socks5.decodeCommandRequest request ≠ .more := by
      intro e; rw [e] at h; exact h rfl
    rw [decodeCommandRequest_append request more hne]
    cases hq : Socks5.decodeCommandRequest request with
    | more => exact absurd hq hne
    | err => rfl
    | panic => rfl
    | ok y =>
      obtain ⟨cmd, a, rest⟩ := y
      obtain ⟨rsv, hb, _⟩ := decodeCommandRequest_inv _ _ _ _ hq
      have hlen : greeting.length + (request ++ more).length - (rest ++ more).length =
          greeting.length + request.length - rest.length := by
        rw [hb]; simp only [List.length_cons, List.length_append]; omega
      simp only [hlen]

/-- the same, read the other way: while a longer request is still undecided, so was every prefix -/
theorem c13_socks5_wait_is_prefix_closed (greeting request more : Bytes) (bound : Addr)
    (h : socks5Handshake greeting (request ++ more) bound = .wait) :
    socks5Handshake greeting request bound = .wait := by
  apply Classical.byContradiction
  intro hne
  rw [c13_socks5_decided_is_final greeting request more bound hne] at h
  exact hne h

/-- **never early**: for all bytes, if the handshake opens a tunnel having consumed `n` bytes in all, then on
every prefix of the request that ends before the `n`-th byte it asked for more -/
theorem c13_socks5_undecided_before_end (greeting request more : Bytes) (bound a : Addr) (n : Nat) (r : Bytes)
    (h : socks5Handshake greeting (request ++ more) bound = .tunnel a n r)
    (hshort : greeting.length + request.length < n) :
    socks5Handshake greeting request bound = .wait := by
  apply Classical.byContradiction
  intro hne
  rw [c13_socks5_decided_is_final greeting request more bound hne] at h
  obtain ⟨_, ⟨rsv, rest, hb, hn⟩, _⟩ := c13_socks5_tunnel_inv _ _ _ _ _ _ h
  rw [hb] at hshort
  simp only [List.length_cons, List.length_append] at hshort
  omega

/-- an incomplete greeting: wait, whatever the request buffer holds -/
theorem c13_socks5_greeting_prefix_waits (methods : Bytes) (hml : methods.length < 256) (k : Nat)
    (hk : k < (Socks5.encodeInitialRequest methods).length) (request : Bytes) (bound : Addr) :
    socks5Handshake ((Socks5.encodeInitialRequest methods).take k) request bound = .wait := by
  have hl : (u8 methods.length).toNat = methods.length := u8_toNat_lt _ hml
  have hlen : (Socks5.encodeInitialRequest methods).length = 2 + methods.length := by
    simp [Socks5.encodeInitialRequest]; omega
  have hm : Socks5.decodeInitialRequest ((Socks5.encodeInitialRequest methods).take k) = .more := by
    unfold Socks5.decodeInitialRequest
    rw [if_pos]
    rw [List.length_take, hlen]
    by_cases h2 : k < 2
    · left; omega
    · right
      have : ((Socks5.encodeInitialRequest methods).take k).getD 1 0 = u8 methods.length := by
        simp only [List.getD_eq_getElem?_getD, List.getElem?_take]
        rw [if_pos (by omega)]
        simp [Socks5.encodeInitialRequest]
      rw [this, hl]; omega
  unfold socks5Handshake
  rw [hm]

/-- **SOCKS5 CONNECT, however it is split**: greeting with any list of known methods, CONNECT for any admitted
address, followed by any bytes of the application (`payload`).  Cut the request stream after `k` bytes:
strictly inside the request the handshake waits; from the last request byte on it tunnels to exactly `a`,
has consumed exactly the two messages (the payload stays in the stream), and answers `05 00`,
`05 00 00 bound`.  And a greeting cut anywhere inside makes it wait. -/
theorem c13_socks5_segmented (methods : Bytes) (hm : methods.all Socks5.authMethodOk = true) (hml : methods.length < 256)
    (a : Addr) (ha : a.Accepted) (bound : Addr) (payload : Bytes) (k : Nat) :
    socks5Handshake (Socks5.encodeInitialRequest methods) ((Socks5.encodeCommandRequest 1 a ++ payload).take k) bound =
      (if k < (Socks5.encodeCommandRequest 1 a).length then .wait
       else .tunnel a ((Socks5.encodeInitialRequest methods).length + (Socks5.encodeCommandRequest 1 a).length)
        (Socks5.encodeInitialResponse 0 ++ Socks5.encodeCommandResponse 0 bound)) ∧
    (k < (Socks5.encodeInitialRequest methods).length →
      ∀ request, socks5Handshake ((Socks5.encodeInitialRequest methods).take k) request bound = .wait) := by
  have hfull := c13_socks5_connect methods hm hml a ha bound
  have hfull' : ∀ t, socks5Handshake (Socks5.encodeInitialRequest methods) (Socks5.encodeCommandRequest 1 a ++ t) bound =
      .tunnel a ((Socks5.encodeInitialRequest methods).length + (Socks5.encodeCommandRequest 1 a).length)
        (Socks5.encodeInitialResponse 0 ++ Socks5.encodeCommandResponse 0 bound) := by
    intro t
    rw [c13_socks5_decided_is_final _ _ t bound (by rw [hfull]; intro e; cases e), hfull]
  refine ⟨?_, fun hk request => c13_socks5_greeting_prefix_waits methods hml k hk request bound⟩
  split
  · rename_i hk
    rw [List.take_append_of_le_length (by omega)]
    have hsplit : (Socks5.encodeCommandRequest 1 a).take k ++ (Socks5.encodeCommandRequest 1 a).drop k =
        Socks5.encodeCommandRequest 1 a := List.take_append_drop _ _
    refine c13_socks5_undecided_before_end _ _ ((Socks5.encodeCommandRequest 1 a).drop k) bound a _ _
      (by rw [hsplit]; exact hfull) ?_
    rw [List.length_take]; omega
  · rename_i hk
    have : (Socks5.encodeCommandRequest 1 a ++ payload).take k =
        Socks5.encodeCommandRequest 1 a ++ payload.take (k - (Socks5.encodeCommandRequest 1 a).length) := by
      rw [List.take_append, List.take_of_length_le (by omega)]
    rw [this, hfull']

/-- in particular: request and first application bytes in one segment -/
theorem c13_socks5_connect_then_payload (methods : Bytes) (hm : methods.all Socks5.authMethodOk = true)
    (hml : methods.length < 256) (a : Addr) (ha : a.Accepted) (bound : Addr) (payload : Bytes) :
    socks5Handshake (Socks5.encodeInitialRequest methods) (Socks5.encodeCommandRequest 1 a ++ payload) bound =
      .tunnel a ((Socks5.encodeInitialRequest methods).length + (Socks5.encodeCommandRequest 1 a).length)
        (Socks5.encodeInitialResponse 0 ++ Socks5.encodeCommandResponse 0 bound) := by
  have h := (c13_socks5_segmented methods hm hml a ha bound payload
    (Socks5.encodeCommandRequest 1 a ++ payload).length).1
  rw [List.take_length, if_neg (by simp only [List.length_append]; omega)] at h
  exact h

/-! ### non-vacuity -/

namespace Socks5Demo

def adDom : Addr := .domain [101, 120, 46, 111, 114, 103] 443
def adV4 : Addr := .v4 [10, 0, 0, 1] 8080
def bound : Addr := .v4 [127, 0, 0, 1] 1080
def greeting : Bytes := Socks5.encodeInitialRequest [0, 2]
def request : Bytes := Socks5.encodeCommandRequest 1 adDom

/-- hypotheses of `c13_socks5_tunnel_is_admitted` / `_inv`: a tunnel is opened -/
example : socks5Handshake greeting request bound =
    .tunnel adDom 17 (Socks5.encodeInitialResponse 0 ++ Socks5.encodeCommandResponse 0 bound) := by decide
example : adDom.Accepted :=
  c13_socks5_tunnel_is_admitted greeting request bound adDom 17
    (Socks5.encodeInitialResponse 0 ++ Socks5.encodeCommandResponse 0 bound) (by decide)
/-- … also from bytes that are no encoder's output: reserved byte 7, trailing bytes -/
example : socks5Handshake [5, 1, 0] ([5, 1, 7, 1, 10, 0, 0, 1, 31, 144] ++ [71, 69, 84]) bound =
    .tunnel adV4 13 (Socks5.encodeInitialResponse 0 ++ Socks5.encodeCommandResponse 0 bound) := by decide

/-- the empty name is refused (general: `c13_socks5_empty_name_refused`), and a 256-byte name cannot even be
framed: its length byte reads 0 -/
example : socks5Handshake greeting [5, 1, 0, 3, 0, 1, 187] bound =
    .refused (Socks5.encodeInitialResponse 0 ++ Socks5.encodeCommandResponse 0 bound) :=
  c13_socks5_empty_name_refused greeting [0, 2] [] (by decide) 0 443 (by decide) [] bound

/-- `c13_socks5_decided_is_final`: hypothesis (decided) and conclusion on concrete bytes, for a tunnel and for a refusal -/
example : socks5Handshake greeting request bound ≠ .wait := by decide
example : socks5Handshake greeting (request ++ [71, 69, 84, 32]) bound = socks5Handshake greeting request bound :=
  c13_socks5_decided_is_final greeting request [71, 69, 84, 32] bound (by decide)
example : socks5Handshake greeting [5, 9, 0, 1, 10, 0, 0, 1, 0, 80] bound = .refused (Socks5.encodeInitialResponse 0) := by
  decide
example : socks5Handshake greeting ([5, 9, 0, 1, 10, 0, 0, 1, 0, 80] ++ [1, 2, 3]) bound =
    socks5Handshake greeting [5, 9, 0, 1, 10, 0, 0, 1, 0, 80] bound :=
  c13_socks5_decided_is_final greeting _ [1, 2, 3] bound (by decide)

/-- `c13_socks5_undecided_before_end`: 12 of the 13 request bytes -/
example : socks5Handshake greeting (request.take 12) bound = .wait :=
  c13_socks5_undecided_before_end greeting (request.take 12) (request.drop 12) bound adDom 17
    (Socks5.encodeInitialResponse 0 ++ Socks5.encodeCommandResponse 0 bound) (by decide) (by decide)

/-- `c13_socks5_segmented`, cut inside the request, at its end, and inside the payload -/
example : socks5Handshake greeting ((request ++ [71, 69, 84]).take 6) bound = .wait :=
  (c13_socks5_segmented [0, 2] (by decide) (by decide) adDom (by decide) bound [71, 69, 84] 6).1
example : socks5Handshake greeting ((request ++ [71, 69, 84]).take 13) bound =
    .tunnel adDom 17 (Socks5.encodeInitialResponse 0 ++ Socks5.encodeCommandResponse 0 bound) :=
  (c13_socks5_segmented [0, 2] (by decide) (by decide) adDom (by decide) bound [71, 69, 84] 13).1
example : socks5Handshake greeting ((request ++ [71, 69, 84]).take 15) bound =
    .tunnel adDom 17 (Socks5.encodeInitialResponse 0 ++ Socks5.encodeCommandResponse 0 bound) :=
  (c13_socks5_segmented [0, 2] (by decide) (by decide) adDom (by decide) bound [71, 69, 84] 15).1
example : ∀ req, socks5Handshake (greeting.take 3) req bound = .wait :=
  (c13_socks5_segmented [0, 2] (by decide) (by decide) adDom (by decide) bound [] 3).2 (by decide)

end Socks5Demo

end Hs
end Octo
