import Octo.Props.C04
import Octo.Props.C04Vmess
/-!
# Non-vacuity of C04 (`C04.lean`, `C04Vmess.lean`)
`C04Ss2022.lean` already carries an instantiating example next to each of its eight theorems.
-/
namespace Octo.NonVacuity.C04
open Octo Octo.Ss Octo.Fr

def lctx : Ctx := ⟨.aes256, List.replicate 32 1, [], []⟩
def ad : Addr := .domain [119, 51, 46, 111, 114, 103] 443
def cs : Sess := { mode := .client, salt := List.replicate 32 2, address := some ad }
def ds : Sess := { mode := .server, salt := List.replicate 32 3 }
def env : DecEnv := ⟨0, fun _ => false⟩
def writes : List (Bytes × EncRand) := [([], {}), ([10], {})]
def wire : Bytes := (encodeAll Crypto.toy lctx cs {} (([7, 8, 9], {}) :: writes)).1

example :
    let r := run (unit Crypto.toy lctx env) ⟨none, ds⟩ wire
    Ev.bytes r.out = Socks5Addr.encode ad ++ [7, 8, 9, 10] ∧ r.failed = false ∧ r.buf = [] ∧ r.st.sess = ds :=
  c04_ss_legacy_stream Crypto.toy Crypto.toy_lawful lctx rfl cs ds env ad rfl rfl (by decide) ([7, 8, 9], {}) writes

theorem cut3 (w : Bytes) (i j : Nat) : [w.take i, (w.drop i).take j, (w.drop i).drop j].flatten = w := by
  simp only [List.flatten_cons, List.flatten_nil, List.append_nil, List.take_append_drop]

example :
    let r := [wire.take 20, (wire.drop 20).take 50, (wire.drop 20).drop 50].foldl (feed (unit Crypto.toy lctx env))
      (run (unit Crypto.toy lctx env) ⟨none, ds⟩ [])
    Ev.bytes r.out = Socks5Addr.encode ad ++ [7, 8, 9, 10] ∧ r.failed = false ∧ r.buf = [] ∧
      unit Crypto.toy lctx env r.st r.buf = .need :=
  c04_ss_legacy_segmented Crypto.toy Crypto.toy_lawful lctx rfl cs ds env ad rfl rfl (by decide) ([7, 8, 9], {}) writes
    _ (cut3 wire 20 50)

def auth : Auth := Auth.new .chacha20 (List.replicate 32 5)
def cwire : Bytes := (encPayload Crypto.toy auth Kind.b3chacha20.payloadLimit [1, 2, 3, 4, 5]).1

example :
    let r := [cwire.take 3, (cwire.drop 3).take 30, (cwire.drop 3).drop 30].foldl (feed (chunkUnit Crypto.toy))
      (run (chunkUnit Crypto.toy) ⟨auth, .length⟩ [])
    r.out = [1, 2, 3, 4, 5] ∧ r.failed = false ∧ r.buf = [] ∧ chunkUnit Crypto.toy r.st r.buf = .need :=
  c04_ss_chunks_segmented Crypto.toy Crypto.toy_lawful auth .b3chacha20 [1, 2, 3, 4, 5] _ (cut3 cwire 3 30)

/-! ## C04Vmess: `c04_vmess_body_segmented` has its example in the file; the other two -/
open Octo.Vmess

def e0 : Body := exBody .auth true .chacha20
def vws : List (Bytes × Bytes) := [([1, 2], exPad), ([3, 4, 5], exPad)]
def vwire : Bytes := (Body.encodeAll Crypto.toy e0 vws).1

example :
    let r := [vwire.take 5, (vwire.drop 5).take 40, (vwire.drop 5).drop 40].foldl (feed (Body.unit Crypto.toy))
      (run (Body.unit Crypto.toy) e0 [])
    r.out = [1, 2, 3, 4, 5] ∧ r.failed = false ∧ r.buf = [] ∧ Body.unit Crypto.toy r.st r.buf = .need ∧
      Body.Sync (Body.encodeAll Crypto.toy e0 vws).2 r.st :=
  c04_vmess_body_all_segmented Crypto.toy Crypto.toy_lawful e0 e0 rfl vws (by decide) _ (cut3 vwire 5 40)

def pwire : Bytes := (Body.encodePayloadP Crypto.toy 4 e0 [10, 20, 30] [exPad]).1

example :
    let r := [pwire.take 5, (pwire.drop 5).take 10, (pwire.drop 5).drop 10].foldl (feed (Body.unit Crypto.toy))
      (run (Body.unit Crypto.toy) e0 [])
    r.out = [10, 20, 30] ∧ r.failed = false ∧ r.buf = [] ∧ Body.unit Crypto.toy r.st r.buf = .need ∧
      Body.Sync (Body.encodePayloadP Crypto.toy 4 e0 [10, 20, 30] [exPad]).2 r.st :=
  c04_vmess_bodyP_segmented Crypto.toy Crypto.toy_lawful e0 e0 rfl [10, 20, 30] [exPad]
    (by refine Or.inr ⟨?_, Or.inl ?_⟩ <;> decide +kernel) _ (cut3 pwire 5 10)

end Octo.NonVacuity.C04
